(* C01/C07 — non-vacuity: concrete, non-trivial histories satisfy the hypotheses of the theorems
   (ok_hist_f: only the conditions that exclude the open findings). *)
From Coq Require Import ZArith List Bool Arith Lia.
From Acme.C01 Require Import Layout State Model ProofsLayout ProofsInv.
From Acme.C07 Require Import Proofs ProofsReg.
Import ListNotations.
Open Scope Z_scope.

Ltac in_false H := repeat (destruct H as [H|H]; [try discriminate|]); try exact H.
Ltac closes H := vm_compute in H; first [exact H | solve [in_false H]].

(* case analysis on a handle until the concrete state decides *)
Ltac by_cases H m :=
  first [ closes H
        | destruct m as [|m]; [closes H| first [closes H | destruct m as [|m]; [closes H| first [closes H | destruct m as [|m]; [closes H|closes H]]]]]].

Ltac no_groups H g := destruct g; vm_compute in H; exact H.

(* x is in no layout: states without multiplexers *)
Ltac not_attached :=
  let L := fresh "L" in let HL := fresh "HL" in
  intros [L HL]; destruct L as [m|u g]; [by_cases HL m | no_groups HL g].

(* no multiplexer group holds anything: no followers in groups *)
Ltac no_followers :=
  let u := fresh "u" in let g := fresh "g" in let fs := fresh "fs" in let y := fresh "y" in let Hf := fresh "Hf" in
  apply single_followers_moved;
  intros u g fs y Hf; exfalso; unfold gget in Hf; destruct g; vm_compute in Hf; discriminate.

Lemma ok_hist_cons : forall s o r, ok_op_f s o -> ok_hist_f_from (fst (step s o)) r -> ok_hist_f_from s (o :: r).
Proof. intros s o r A B. cbn [ok_hist_f_from]. split; assumption. Qed.

(* one step of a concrete history: prove the hypothesis of the op on the (normal-form) state, then
   replace the next state by its vm_compute normal form (equality checked by the VM, so that Qed
   does not re-evaluate the nested steps lazily) *)
Ltac hist_step :=
  lazymatch goal with
  | |- ok_hist_f_from ?s (?o :: ?r) =>
    let s' := eval vm_compute in (fst (step s o)) in
    apply ok_hist_cons;
    [ cbn [ok_op_f]; try exact I; try (unfold msg_size_ok; lia)
    | replace (fst (step s o)) with s' by (vm_compute; reflexivity) ]
  | |- ok_hist_f_from _ [] => exact I
  end.

(* ---------------------------------------------------------------------------------------------- *)
(* 1. two messages whose enum signals share one enum; the enum grows (both signals push their     *)
(*    followers), a type grows, a shift, a compaction, a resize                                    *)
(* ---------------------------------------------------------------------------------------------- *)
Definition example_ops : list op :=
  [ONewMsg 2; ONewMsg 1; ONewEnum; ONewEnumSig 0; ONewEnumSig 0; ONewStd 4; ONewStd 3; ONewStd 2;
   OAppend 0 0; OAppend 0 2; OInsert 0 3 9;        (* message 0: enum sig 0, std 2 (4 bits), std 3 (3 bits) at 9 *)
   OAppend 1 1; OAppend 1 4;                        (* message 1: enum sig 1, std 4 (2 bits) *)
   OAddValue 0 3;                                   (* the shared enum grows from 1 to 2 bits *)
   OSetType 2 5; OShiftL 0 3 1; OCompact 0; OResize 0 2; OSetMinSize 0 1;
   OResizeBus 0 16 8;                               (* refused by the bus *)
   OResizeBus 0 3 8; ORename 2].

Example example_ok : ok_hist_f example_ops.
Proof.
  unfold ok_hist_f, example_ops.
  do 8 hist_step.
  hist_step; [not_attached|]. hist_step; [not_attached|]. hist_step; [not_attached|].
  hist_step; [not_attached|]. hist_step; [not_attached|].
  hist_step.
  { intros _ _. split.
    - intros x Hx. no_followers.
    - (* the two referencing signals sit in different messages *)
      intros _ L x y Hx Hy HLx HLy. vm_compute in Hx. vm_compute in Hy.
      destruct Hx as [Ex|[Ex|[]]]; destruct Hy as [Ey|[Ey|[]]]; subst x y.
      + reflexivity.
      + exfalso. destruct L as [m|u g]; [|no_groups HLx g].
        destruct m as [|[|m]]; vm_compute in HLx; vm_compute in HLy; first [solve [in_false HLx] | solve [in_false HLy]].
      + exfalso. destruct L as [m|u g]; [|no_groups HLx g].
        destruct m as [|[|m]]; vm_compute in HLx; vm_compute in HLy; first [solve [in_false HLx] | solve [in_false HLy]].
      + reflexivity. }
  hist_step; [no_followers|].
  do 3 hist_step.
  hist_step; [intros x Hx Ha; vm_compute; discriminate|].
  do 4 hist_step.
Qed.

(* on a bus that allows 8 bytes, 16 bytes are refused and nothing changes; 3 bytes are accepted *)
Example example_bus :
  let s := run (firstn 19 example_ops) in
  step s (OResizeBus 0 16 8) = (s, RErr TooBig) /\ snd (step s (OResizeBus 0 3 8)) = ROk /\ gbytes (run example_ops) 0 = 3.
Proof. vm_compute. repeat split; reflexivity. Qed.

(* the history is not trivial: both enum signals grew and pushed their followers *)
Example example_final :
  map (fun m => map (fun x => (x, rel (run example_ops) x, sz (run example_ops) x)) (glay (run example_ops) m)) [0%nat; 1%nat]
  = [[(0%nat, 0, 2); (2%nat, 2, 5); (3%nat, 7, 3)]; [(1%nat, 0, 2); (4%nat, 2, 2)]].
Proof. vm_compute. reflexivity. Qed.

(* ---------------------------------------------------------------------------------------------- *)
(* 2. a multiplexer attached to a message, a nested multiplexer in one of its groups, fixed,       *)
(*    two-group and repeated insertion, SetType (shrink and grow) of a signal inside the nested   *)
(*    multiplexer, clear-group, removals (also through Message.RemoveSignal with a nested id)     *)
(* ---------------------------------------------------------------------------------------------- *)
Definition mux_example_ops : list op :=
  [ONewMsg 8; ONewMux 4 16; ONewMux 2 8; ONewStd 4; ONewStd 4; ONewStd 3; ONewStd 2;
   OAppend 0 0;                         (* multiplexer 0 is the first signal of message 0 *)
   OMuxInsert 0 2 0 [];                 (* signal 2 fixed at 0 *)
   OMuxInsert 0 1 4 [1];                (* multiplexer 1 nested in group 1 at 4 *)
   OMuxInsert 1 3 0 [0]; OMuxInsert 1 4 4 [0];   (* signals 3, 4 in group 0 of the nested multiplexer *)
   OMuxInsert 0 5 4 [0; 2]; OMuxInsert 0 5 4 [3]; (* signal 5 in groups 0, 2 and later 3, same start bit *)
   OSetType 3 3; OSetType 3 4;          (* shrink, then grow, inside the attached nested multiplexer *)
   OMuxShiftL 1 4 1; OMuxClearGroup 0 2; OMuxRemove 0 2; OShiftR 0 0 5; ORemove 0 3].

(* close a hypothesis H : In x (nth g groups []) / followers ... by trying g = 0, 1, 2, 3, 4 and beyond *)
Ltac gcases H g :=
  first [ vm_compute in H; first [exact H | discriminate H | solve [in_false H]]
        | destruct g as [|g];
          [ vm_compute in H; first [exact H | discriminate H | solve [in_false H]]
          | gcases H g ] ].

Ltac not_attached_mux :=
  let L := fresh "L" in let HL := fresh "HL" in
  intros [L HL]; destruct L as [m|u g];
  [ by_cases HL m
  | unfold lay, gget in HL; destruct u as [|[|u]]; gcases HL g ].

Example mux_example_ok : ok_hist_f mux_example_ops.
Proof.
  unfold ok_hist_f, mux_example_ops.
  do 7 hist_step.
  hist_step; [not_attached_mux|].
  hist_step; [left; not_attached_mux|].
  hist_step; [left; not_attached_mux|].
  hist_step; [left; not_attached_mux|].
  hist_step; [left; not_attached_mux|].
  hist_step; [left; not_attached_mux|].
  hist_step.
  { right. split; [vm_compute; reflexivity|]. intros L HL. destruct L as [m|u g].
    - exfalso. by_cases HL m.
    - destruct u as [|u]; [exists g; reflexivity|]. exfalso. unfold lay, gget in HL. destruct u as [|u]; gcases HL g. }
  (* SetType of signal 3 inside the nested multiplexer 1: its follower (signal 4) is held by group 0 only *)
  hist_step.
  { apply single_followers_moved. intros u g fs y Hf Hy g' Hg'. unfold gget in Hf, Hg'.
    destruct u as [|[|u]].
    - exfalso. gcases Hf g.
    - destruct g as [|g]; [|exfalso; gcases Hf g].
      vm_compute in Hf. inversion Hf; subst fs. destruct Hy as [<-|[]].
      destruct g' as [|g']; [reflexivity|]. exfalso. gcases Hg' g'.
    - exfalso. gcases Hf g. }
  hist_step.
  { apply single_followers_moved. intros u g fs y Hf Hy g' Hg'. unfold gget in Hf, Hg'.
    destruct u as [|[|u]].
    - exfalso. gcases Hf g.
    - destruct g as [|g]; [|exfalso; gcases Hf g].
      vm_compute in Hf. inversion Hf; subst fs. destruct Hy as [<-|[]].
      destruct g' as [|g']; [reflexivity|]. exfalso. gcases Hg' g'.
    - exfalso. gcases Hf g. }
  do 6 hist_step.
Qed.

Example mux_example_final :
  (map (fun l => map (fun x => (x, rel (run mux_example_ops) x, start_bit (run mux_example_ops) x)) l) (ugroups (run mux_example_ops) 0),
   map (fun l => map (fun x => (x, rel (run mux_example_ops) x, start_bit (run mux_example_ops) x)) l) (ugroups (run mux_example_ops) 1),
   glay (run mux_example_ops) 0, rel (run mux_example_ops) 0)
  = ([[(5%nat, 4, 11)]; [(1%nat, 4, 11)]; []; [(5%nat, 4, 11)]],
     [[(4%nat, 4, 16)]; []],
     [0%nat], 5).
Proof. vm_compute. reflexivity. Qed.

(* ---------------------------------------------------------------------------------------------- *)
(* 3. the hypothesis is value-based: signal 1 grows by 3 in group 0; its follower 2 (held by group *)
(*    0 only) is pushed, the fixed signal 3 behind it (held by both groups) is not reached          *)
(* ---------------------------------------------------------------------------------------------- *)
Definition reach_example_ops : list op :=
  [ONewMux 2 16; ONewStd 2; ONewStd 2; ONewStd 2;
   OMuxInsert 0 1 0 [0]; OMuxInsert 0 2 2 [0]; OMuxInsert 0 3 8 [];
   OSetType 1 5].

Example reach_example_ok : ok_hist_f reach_example_ops.
Proof.
  unfold ok_hist_f, reach_example_ops.
  do 4 hist_step.
  hist_step; [left; not_attached_mux|].
  hist_step; [left; not_attached_mux|].
  hist_step; [left; not_attached_mux|].
  hist_step.
  { intros u g y Hy g' Hg'. unfold gget in Hy, Hg'.
    destruct u as [|u].
    - destruct g as [|g].
      + vm_compute in Hy. destruct Hy as [<-|[]].
        destruct g' as [|g']; [reflexivity|]. exfalso. gcases Hg' g'.
      + exfalso. gcases Hy g.
    - exfalso. gcases Hy g. }
  hist_step.
Qed.

(* the strict condition fails here (3 is a follower of 1 held by two groups), the layout is as expected *)
Example reach_example_final :
  map (fun l => map (fun x => (x, rel (run reach_example_ops) x, sz (run reach_example_ops) x)) l) (ugroups (run reach_example_ops) 0)
  = [[(1%nat, 0, 5); (2%nat, 5, 2); (3%nat, 8, 2)]; [(3%nat, 8, 2)]]
  /\ ~ single_followers (run (firstn 7 reach_example_ops)) 1.
Proof.
  split; [vm_compute; reflexivity|].
  intros Hs. specialize (Hs 0%nat 0%nat [2%nat; 3%nat] 3%nat eq_refl (or_intror (or_introl eq_refl)) 1%nat (or_introl eq_refl)). discriminate.
Qed.

Lemma reach_example_all : ok_hist_f reach_example_ops /\
  map (fun l => map (fun x => (x, rel (run reach_example_ops) x, sz (run reach_example_ops) x)) l) (ugroups (run reach_example_ops) 0)
  = [[(1%nat, 0, 5); (2%nat, 5, 2); (3%nat, 8, 2)]; [(3%nat, 8, 2)]]
  /\ ~ single_followers (run (firstn 7 reach_example_ops)) 1.
Proof. exact (conj reach_example_ok reach_example_final). Qed.

(* ---------------------------------------------------------------------------------------------- *)
(* 4. two signals of one message reference the same enum and the enum SHRINKS (a value index is    *)
(*    lowered): allowed by the hypotheses (only growth needs them in different layouts); both pull *)
(*    their followers                                                                              *)
(* ---------------------------------------------------------------------------------------------- *)
Definition shrink_shared_ops : list op :=
  [ONewMsg 2; ONewEnum; OAddValue 0 7; ONewEnumSig 0; ONewEnumSig 0; ONewStd 3;
   OAppend 0 0; OAppend 0 1; OAppend 0 2;
   OUpdateIndex 0 1].

Example shrink_shared_ok : ok_hist_f shrink_shared_ops.
Proof.
  unfold ok_hist_f, shrink_shared_ops.
  do 2 hist_step.
  hist_step.
  { intros _ _. split; [intros x Hx; vm_compute in Hx; contradiction|intros _ L x y Hx; vm_compute in Hx; contradiction]. }
  do 3 hist_step.
  hist_step; [not_attached|]. hist_step; [not_attached|]. hist_step; [not_attached|].
  hist_step.
  { intros e Ee _. vm_compute in Ee. inversion Ee; subst e. split.
    - intros x Hx. no_followers.
    - intros Hpos. exfalso. vm_compute in Hpos. discriminate. }
  hist_step.
Qed.

Example shrink_shared_final :
  map (fun x => (x, rel (run shrink_shared_ops) x, sz (run shrink_shared_ops) x)) (glay (run shrink_shared_ops) 0)
  = [(0%nat, 0, 1); (1%nat, 1, 1); (2%nat, 2, 3)].
Proof. vm_compute. reflexivity. Qed.

Lemma shrink_shared_all : ok_hist_f shrink_shared_ops /\
  map (fun x => (x, rel (run shrink_shared_ops) x, sz (run shrink_shared_ops) x)) (glay (run shrink_shared_ops) 0)
  = [(0%nat, 0, 1); (1%nat, 1, 1); (2%nat, 2, 3)].
Proof. exact (conj shrink_shared_ok shrink_shared_final). Qed.
