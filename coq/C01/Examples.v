(* C01/C07 — non-vacuity: concrete, non-trivial histories satisfy the hypotheses of the theorems. *)
From Coq Require Import ZArith List Bool Arith Lia.
From Acme.C01 Require Import Layout State Model ProofsLayout ProofsInv.
From Acme.C07 Require Import Proofs.
Import ListNotations.
Open Scope Z_scope.

(* a 2-byte message with an enum signal (shared enum 0), a 4-bit and a 3-bit signal; the enum
   grows (pushing its follower), a type grows, a signal is shifted, the message is compacted *)
Definition example_ops : list op :=
  [ONewMsg 2; ONewEnum; ONewEnumSig 0; ONewStd 4; ONewStd 3;
   OAppend 0 0; OAppend 0 1; OInsert 0 2 9;
   OAddValue 0 3; OSetType 1 5; OShiftL 0 2 1; OCompact 0; OResize 0 2].

Ltac in_false H := repeat (destruct H as [H|H]; [try discriminate; try lia|]); try contradiction.
Ltac solve_in H := cbn in H; first [contradiction | (in_false H; fail) | idtac].
Ltac closes H := vm_compute in H; first [contradiction | solve [in_false H]].

(* case analysis on a handle until the concrete state decides *)
Ltac by_cases H m :=
  first [ closes H
        | destruct m as [|m]; [closes H| first [closes H | destruct m as [|m]; [closes H| first [closes H | destruct m as [|m]; [closes H|closes H]]]]]].

Ltac no_groups H g := unfold gget in H; vm_compute in H; first [contradiction | destruct g; vm_compute in H; contradiction].

Ltac not_attached :=
  let L := fresh "L" in let HL := fresh "HL" in
  intros [L HL]; destruct L as [m|u g]; [by_cases HL m | no_groups HL g].

(* a top-level signal x of message 0 in a state without multiplexers *)
Ltac link_top_msg0 :=
  split;
  [ let m := fresh "m" in let Hin := fresh "Hin" in
    intros m Hin; destruct m as [|m];
    [ vm_compute; repeat split; reflexivity
    | exfalso; by_cases Hin m ]
  | let NA := fresh "NA" in intros NA; exfalso; apply NA; exists (LM 0%nat); vm_compute; tauto ].

Ltac no_followers :=
  let u := fresh "u" in let g := fresh "g" in let fs := fresh "fs" in let y := fresh "y" in let Hf := fresh "Hf" in
  intros u g fs y Hf; exfalso; unfold gget in Hf; vm_compute in Hf; first [discriminate | destruct g; vm_compute in Hf; discriminate].

Ltac resize_ok_msg0 := split; [link_top_msg0 | no_followers].

Example example_ok : ok_hist_w example_ops.
Proof.
  unfold ok_hist_w, example_ops. cbn [ok_hist_w_from].
  repeat match goal with |- _ /\ _ => split end; try exact I.
  all: cbn [ok_op_w].
  - not_attached.
  - not_attached.
  - not_attached.
  - intros _ _. split.
    + intros x Hx. vm_compute in Hx. destruct Hx as [<-|[]]. resize_ok_msg0.
    + intros L x y Hx Hy _ _. vm_compute in Hx, Hy. destruct Hx as [<-|[]]. destruct Hy as [<-|[]]. reflexivity.
  - resize_ok_msg0.
Qed.

(* the history is not trivial: the enum growth pushed the follower and every operation was accepted *)
Example example_final :
  map (fun x => (x, rel (run example_ops) x, sz (run example_ops) x)) (glay (run example_ops) 0)
  = [(0%nat, 0, 2); (1%nat, 2, 5); (2%nat, 7, 3)].
Proof. vm_compute. reflexivity. Qed.

(* C07: a 4-group multiplexer; a fixed signal, a two-group signal, a signal inserted into one group
   and later into a further group at the same start bit; shift, clear-group, remove *)
Definition mux_example_ops : list op :=
  [ONewMux 4 16; ONewStd 4; ONewStd 4; ONewStd 4;
   OMuxInsert 0 1 8 []; OMuxInsert 0 2 0 [0; 2]; OMuxInsert 0 3 4 [0]; OMuxInsert 0 3 4 [2];
   OMuxShiftR 0 3 2; OMuxClearGroup 0 2; OMuxShiftR 0 3 2; OMuxRemove 0 1].

Ltac not_attached_mux :=
  let L := fresh "L" in let HL := fresh "HL" in
  intros [L HL]; destruct L as [m|u g];
  [ vm_compute in HL; contradiction
  | unfold gget in HL; destruct u as [|u];
    [ vm_compute in HL; repeat (destruct g as [|g]; [in_false HL|]); vm_compute in HL; try contradiction; in_false HL
    | vm_compute in HL; first [contradiction | destruct g; vm_compute in HL; contradiction] ] ].

Example mux_example_ok : ok_hist_w mux_example_ops.
Proof.
  unfold ok_hist_w, mux_example_ops. cbn [ok_hist_w_from].
  repeat match goal with |- _ /\ _ => split end; try exact I.
  all: cbn [ok_op_w].
  - left. not_attached_mux.
  - left. not_attached_mux.
  - left. not_attached_mux.
  - right. split; [vm_compute; reflexivity|]. intros L HL. destruct L as [m|u g].
    + vm_compute in HL. contradiction.
    + destruct u as [|u]; [exists g; reflexivity|]. exfalso. unfold gget in HL. vm_compute in HL.
      first [contradiction | destruct g; vm_compute in HL; contradiction].
Qed.

Example mux_example_final :
  map (fun l => map (fun x => (x, rel (run mux_example_ops) x)) l) (ugroups (run mux_example_ops) 0)
  = [[(2%nat, 0); (3%nat, 4)]; []; []; []].
Proof. vm_compute. reflexivity. Qed.
