(* Extraction of the executable C01/C07 model for the correspondence check.
   ExtrOcamlBasic only: nat / Z / positive stay inductive; no Extract Constant of our own. *)
From Coq Require Import Extraction ExtrOcamlBasic ZArith List.
From Acme.C01 Require Import Layout State Model.
Extraction Language OCaml.
Extraction "extracted/c01_model.ml" init step run sz esize selw start_bit msg_view group_view wfb gget
  mux_count mux_gsize is_mux.
