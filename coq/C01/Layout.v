(* C01/C07 — layout kernels: a one-to-one restatement of /repo/signal_layout.go
   (verifyBeforeAppend/Insert/Grow/Shrink/Resize, insert, remove, compact, modifyStartBitsOnGrow/
   Shrink, shiftLeft/Right) over
     - a layout  = ordered list of signal handles (SignalLayout.signals) + a size (SignalLayout.size)
     - pos : handle -> Z   the relative start position stored in the *signal* (signal.relStartPos);
                           it is global: one value shared by every layout that lists the signal
     - len : handle -> Z   Signal.GetSize()
   No proofs here (model must stay runnable when a proof breaks). *)
From Coq Require Import ZArith List Bool Arith Sorted.
Import ListNotations.
Open Scope Z_scope.

Definition handle := nat.

Definition upd {A} (f : nat -> A) (x : nat) (v : A) : nat -> A :=
  fun y => if Nat.eqb y x then v else f y.

Inductive cause :=
| Duplicated | NotFound | Negative | OutOfBounds | IsZero | IsNil | NoSpaceLeft | Intersect | TooSmall | TooBig.

Definition cause_eqb (a b : cause) : bool :=
  match a, b with
  | Duplicated, Duplicated | NotFound, NotFound | Negative, Negative | OutOfBounds, OutOfBounds
  | IsZero, IsZero | IsNil, IsNil | NoSpaceLeft, NoSpaceLeft | Intersect, Intersect
  | TooSmall, TooSmall | TooBig, TooBig => true
  | _, _ => false
  end.

(* ---------------------------------------------------------------------------------------- *)
(* views and well-formedness                                                                 *)
(* ---------------------------------------------------------------------------------------- *)

Definition item := (handle * Z * Z)%type.          (* handle, start, len *)
Definition i_h (p : item) : handle := fst (fst p).
Definition i_start (p : item) : Z := snd (fst p).
Definition i_len (p : item) : Z := snd p.
Definition i_end (p : item) : Z := i_start p + i_len p.

Definition view (pos len : handle -> Z) (l : list handle) : list item :=
  map (fun x => (x, pos x, len x)) l.

(* sorted by start, pairwise disjoint (consecutive end <= next start, which for len >= 1 gives
   strict ascending starts and pairwise disjointness), in bounds, len >= 1 *)
Fixpoint wfb_from (lo size : Z) (v : list item) : bool :=
  match v with
  | [] => true
  | p :: r => (lo <=? i_start p) && (1 <=? i_len p) && (i_end p <=? size) && wfb_from (i_end p) size r
  end.
Definition wfb (size : Z) (v : list item) : bool := wfb_from 0 size v.

(* the declarative form used by the theorems (proved equivalent to wfb in ProofsLayout) *)
Definition wf (size : Z) (v : list item) : Prop :=
  StronglySorted (fun a b => i_end a <= i_start b) v
  /\ Forall (fun p => 0 <= i_start p /\ 1 <= i_len p /\ i_end p <= size) v.

(* ---------------------------------------------------------------------------------------- *)
(* kernels                                                                                   *)
(* ---------------------------------------------------------------------------------------- *)

Section Kernels.
  Variable len : handle -> Z.

  Definition last_end (pos : handle -> Z) (l : list handle) : Z :=
    match rev l with [] => 0 | t :: _ => pos t + len t end.

  (* verifyBeforeAppend *)
  Definition verify_append (pos : handle -> Z) (size : Z) (l : list handle) (x : handle) : option cause :=
    match l with
    | [] => if size <? len x then Some OutOfBounds else None
    | _ => if size - last_end pos l <? len x then Some NoSpaceLeft else None
    end.

  (* append (after verification) *)
  Definition do_append (pos : handle -> Z) (l : list handle) (x : handle) : (handle -> Z) * list handle :=
    (upd pos x (last_end pos l), l ++ [x]).

  (* the intersection loop of verifyBeforeInsert; true = no intersection *)
  Fixpoint insert_loop (pos : handle -> Z) (l : list handle) (b e : Z) : bool :=
    match l with
    | [] => true
    | t :: r =>
      let ts := pos t in
      let te := ts + len t in
      if e <=? ts then true                       (* break *)
      else if te <=? b then insert_loop pos r b e (* continue *)
      else if (ts <=? b) || (ts <? e) then false  (* ErrIntersect *)
      else insert_loop pos r b e
    end.

  (* verifyBeforeInsert *)
  Definition verify_insert (pos : handle -> Z) (size : Z) (l : list handle) (x : handle) (b : Z) : option cause :=
    if b <? 0 then Some Negative
    else if size <? len x then Some OutOfBounds
    else if size <? b + len x then Some NoSpaceLeft
    else if insert_loop pos l b (b + len x) then None else Some Intersect.

  (* list position chosen by insert: before the first signal whose start is > b, else at the end *)
  Fixpoint insert_at (pos : handle -> Z) (l : list handle) (x : handle) (b : Z) : list handle :=
    match l with
    | [] => [x]
    | t :: r => if b <? pos t then x :: t :: r else t :: insert_at pos r x b
    end.

  (* insert: list position from the old positions, then setRelativeStartPos *)
  Definition do_insert (pos : handle -> Z) (l : list handle) (x : handle) (b : Z) : (handle -> Z) * list handle :=
    (upd pos x b, insert_at pos l x b).

  (* remove: slices.DeleteFunc by entity id *)
  Definition do_remove (l : list handle) (x : handle) : list handle :=
    filter (fun y => negb (Nat.eqb y x)) l.

  (* compact *)
  Fixpoint compact_from (pos : handle -> Z) (l : list handle) (last : Z) : handle -> Z :=
    match l with
    | [] => pos
    | t :: r =>
      let ts := pos t in
      if ts =? last then compact_from pos r (last + len t)
      else if last <? ts then compact_from (upd pos t last) r (last + len t)
      else compact_from pos r last
    end.
  Definition do_compact (pos : handle -> Z) (l : list handle) : handle -> Z := compact_from pos l 0.

  (* verifyBeforeShrink *)
  Definition verify_shrink (x : handle) (amount : Z) : option cause :=
    if amount <? 0 then Some Negative
    else let d := len x - amount in
         if d <? 0 then Some Negative else if d =? 0 then Some IsZero else None.

  (* the follower loop of modifyStartBitsOnShrink: everything behind the first occurrence of x
     moves left by amount *)
  Fixpoint shrink_loop (pos : handle -> Z) (l : list handle) (x : handle) (amount : Z) (found : bool) : handle -> Z :=
    match l with
    | [] => pos
    | t :: r =>
      if found then shrink_loop (upd pos t (pos t - amount)) r x amount true
      else shrink_loop pos r x amount (Nat.eqb x t)
    end.

  (* modifyStartBitsOnShrink *)
  Definition do_shrink (pos : handle -> Z) (l : list handle) (x : handle) (amount : Z) : option cause * (handle -> Z) :=
    if amount =? 0 then (None, pos)
    else match verify_shrink x amount with
         | Some c => (Some c, pos)
         | None => (None, shrink_loop pos l x amount false)
         end.

  (* the accounting loop of verifyBeforeGrow: returns (availableSpace before the trailing part, prevEndBit) *)
  Fixpoint avail_loop (pos : handle -> Z) (l : list handle) (x : handle) (found : bool) (avail prev : Z) : Z * Z :=
    match l with
    | [] => (avail, prev)
    | t :: r =>
      let ts := pos t in
      if found then avail_loop pos r x true (avail + (ts - prev)) (ts + len t)
      else avail_loop pos r x (Nat.eqb t x) avail (ts + len t)
    end.

  Definition available (pos : handle -> Z) (size : Z) (l : list handle) (x : handle) : Z :=
    let '(a, prev) := avail_loop pos l x false 0 0 in a + (size - prev).

  (* verifyBeforeGrow *)
  Definition verify_grow (pos : handle -> Z) (size : Z) (l : list handle) (x : handle) (amount : Z) : option cause :=
    if amount <? 0 then Some Negative
    else if available pos size l x <? amount then Some NoSpaceLeft else None.

  (* first loop of modifyStartBitsOnGrow: the gaps behind x (in order) and the followers.
     Returns None when x is the last element (early `return nil`), otherwise
     Some (followers, gaps-between-followers (one per follower), prevEndBit at the end). *)
  Fixpoint followers (l : list handle) (x : handle) : option (list handle) :=
    match l with
    | [] => None
    | t :: r => if Nat.eqb x t then Some r else followers r x
    end.

  (* the push loop: followers in order, `prev` = end of the previous signal (old positions),
     acc = remaining amount *)
  Fixpoint push_loop (pos0 pos : handle -> Z) (fs : list handle) (prev acc : Z) : handle -> Z :=
    match fs with
    | [] => pos
    | t :: r =>
      let space := pos0 t - prev in
      if acc <=? space then pos
      else let acc' := acc - space in
           push_loop pos0 (upd pos t (pos t + acc')) r (pos0 t + len t) acc'
    end.

  (* modifyStartBitsOnGrow. Faithful points: verification first; when x is the last element
     nothing happens; when x is not in the list `found` stays false, nextSigIdx = 0 and
     spaces = [trailing]: after a successful verification amount <= trailing, so the loop breaks
     at once (no move). *)
  Definition do_grow (pos : handle -> Z) (size : Z) (l : list handle) (x : handle) (amount : Z) : option cause * (handle -> Z) :=
    if amount =? 0 then (None, pos)
    else match verify_grow pos size l x amount with
         | Some c => (Some c, pos)
         | None =>
           match followers l x with
           | None => (None, pos)
           | Some fs => (None, push_loop pos pos fs (pos x + len x) amount)
           end
         end.

  (* verifyBeforeResize *)
  Definition verify_resize (pos : handle -> Z) (size : Z) (l : list handle) (newsize : Z) : option cause :=
    if size <? newsize then None
    else match l with
         | [] => None
         | _ => if newsize <? last_end pos l then Some TooSmall else None
         end.

  (* shiftLeft: returns (new positions, performed shift) *)
  Fixpoint shl_loop (pos : handle -> Z) (l : list handle) (x : handle) (amount : Z) (prev : option handle) : (handle -> Z) * Z :=
    match l with
    | [] => (pos, 0)                               (* not found: perfShift stays 0 *)
    | t :: r =>
      if Nat.eqb x t then
        let ts := pos t in
        let tgt0 := ts - amount in
        let tgt1 := if tgt0 <? 0 then 0 else tgt0 in
        let tgt := match prev with
                   | Some p => let pe := pos p + len p in if tgt1 <? pe then pe else tgt1
                   | None => tgt1
                   end in
        (upd pos t tgt, ts - tgt)
      else shl_loop pos r x amount (Some t)
    end.
  Definition do_shift_left (pos : handle -> Z) (l : list handle) (x : handle) (amount : Z) : (handle -> Z) * Z :=
    if amount <=? 0 then (pos, 0) else shl_loop pos l x amount None.

  (* shiftRight: the shift is bounded by the free space behind the signal (gap to the next signal,
     trailing space for the last one); no arithmetic on the unchecked amount *)
  Fixpoint shr_loop (pos : handle -> Z) (size : Z) (l : list handle) (x : handle) (amount : Z) : (handle -> Z) * Z :=
    match l with
    | [] => (pos, 0)
    | t :: r =>
      if Nat.eqb x t then
        let ts := pos t in
        let te := ts + len t in
        let maxs := match r with
                    | n :: _ => pos n - te
                    | [] => size - te
                    end in
        let d := if maxs <? amount then maxs else amount in
        (upd pos t (ts + d), d)
      else shr_loop pos size r x amount
    end.
  Definition do_shift_right (pos : handle -> Z) (size : Z) (l : list handle) (x : handle) (amount : Z) : (handle -> Z) * Z :=
    if amount <=? 0 then (pos, 0) else shr_loop pos size l x amount.
End Kernels.
