(* C01/C07 — the layout state machine: a call-by-call restatement of the payload-affecting public
   mutators of /repo (message.go, signal.go, signal_enum.go, mux_signal.go) on top of the layout
   kernels of Layout.v.  One constructor of [op] per mutator; [step] mirrors the Go code in the
   order verify -> mutate; registries (m.signals, m.signalNames, ms.signals, ms.signalNames,
   parentMsg, parentMuxSig) are kept as separate fields because acceptance depends on them.

   Conventions
   - handles are creation indices per kind (signal, message, enum, enum value);
   - names: the harness gives every entity a unique name, so a name registry is the set of
     handles whose name it holds;
   - enum values are created by the op that adds them (OAddValue), i.e. a value is never added
     to two enums (re-attachment of values is C05's business);
   - Go map iteration (enum refs) is the list order of [erefs]; the only place where the order
     is observable is when two signals of one layout reference the same enum (finding D36);
   - a Go panic is the result [RPanic];
   - ops whose receiver/argument cannot be expressed through the Go API (unallocated handle as
     receiver or object argument, SetType on a non-standard signal, ...) give [RInvalid] and leave
     the state unchanged. Entity-id arguments (RemoveSignal, Shift*, RemoveValue) may be any
     number: an unallocated handle is simply an id that matches nothing.
   No proofs in this file. *)
From Coq Require Import ZArith List Bool Arith.
From Acme.C01 Require Import Layout State.
Import ListNotations.
Open Scope Z_scope.

(* ---------------------------------------------------------------------------------------- *)
(* small helpers                                                                             *)
(* ---------------------------------------------------------------------------------------- *)

Definition memb (x : nat) (l : list nat) : bool := existsb (Nat.eqb x) l.
Definition ladd (x : nat) (l : list nat) : list nat := if memb x l then l else x :: l.
Definition lrem (x : nat) (l : list nat) : list nat := filter (fun y => negb (Nat.eqb y x)) l.
Definition ladd_all (xs l : list nat) : list nat := fold_left (fun acc x => ladd x acc) xs l.
Definition lrem_all (xs l : list nat) : list nat := fold_left (fun acc x => lrem x acc) xs l.
Definition membZ (x : Z) (l : list Z) : bool := existsb (Z.eqb x) l.
Definition lremZ (x : Z) (l : list Z) : list Z := filter (fun y => negb (Z.eqb y x)) l.

Definition upd2 {A} (f : nat -> nat -> A) (u x : nat) (v : A) : nat -> nat -> A :=
  fun u' x' => if Nat.eqb u' u then (if Nat.eqb x' x then v else f u' x') else f u' x'.

Fixpoint set_nth {A} (l : list A) (n : nat) (v : A) : list A :=
  match l, n with
  | [], _ => []
  | _ :: r, O => v :: r
  | a :: r, S k => a :: set_nth r k v
  end.

(* helpers.go calcSizeFromValue: 0 -> 1; otherwise the bit length of the value read as uint64
   (a negative int has its top bit set: 64) *)
(* two's complement wrap-around of a 64-bit int *)
Definition wrap64 (z : Z) : Z := (z + 2 ^ 63) mod 2 ^ 64 - 2 ^ 63.

Definition calc_size (v : Z) : Z :=
  if v =? 0 then 1 else if v <? 0 then 64 else Z.log2 v + 1.

(* SignalEnum.sizeFromMaxIndex *)
Definition esize_of (mn mx : Z) : Z := let c := calc_size mx in if c <? mn then mn else c.
Definition esize (s : state) (e : nat) : Z := esize_of (emin s e) (emax s e).
(* MultiplexerSignal.GetGroupCountSize *)
Definition selw (count : Z) : Z := calc_size (count - 1).

(* Signal.GetSize *)
Definition sz (s : state) (x : nat) : Z :=
  match kind s x with
  | KStd n => n
  | KEnum e => esize s e
  | KMux c g => g + selw c
  end.

Definition is_mux (s : state) (x : nat) : bool := match kind s x with KMux _ _ => true | _ => false end.
Definition mux_count (s : state) (u : nat) : Z := match kind s u with KMux c _ => c | _ => 0 end.
Definition mux_gsize (s : state) (u : nat) : Z := match kind s u with KMux _ g => g | _ => 0 end.

Inductive result := ROk | RErr (c : cause) | RShift (d : Z) | RPanic | RInvalid.

Definition of_err (s0 s1 : state) (e : option cause) : state * result :=
  match e with Some c => (s0, RErr c) | None => (s1, ROk) end.

(* ---------------------------------------------------------------------------------------- *)
(* registration (Message.addSignal / removeSignal, MultiplexerSignal.addSignal / removeSignal) *)
(* ---------------------------------------------------------------------------------------- *)

(* every signal below multiplexer x (children, grandchildren, ...): the stack loop of
   Message.addSignal / removeSignal *)
Fixpoint desc (fuel : nat) (s : state) (x : nat) : list nat :=
  match fuel with
  | O => []
  | S f => flat_map (fun c => c :: (if is_mux s c then desc f s c else [])) (usigs s x)
  end.
Fixpoint dnames (fuel : nat) (s : state) (x : nat) : list nat :=
  match fuel with
  | O => []
  | S f => unames s x ++ flat_map (fun c => if is_mux s c then dnames f s c else []) (usigs s x)
  end.

Definition set_pmsg_all (s : state) (xs : list nat) (v : option nat) : state :=
  set_pmsg s (fun y => if memb y xs then v else pmsg s y).

(* Message.addSignal *)
Definition msg_add_signal (s : state) (m x : nat) : state :=
  let ds := if is_mux s x then desc (nsig s) s x else [] in
  let dn := if is_mux s x then dnames (nsig s) s x else [] in
  let s1 := set_gsigs s (upd (gsigs s) m (ladd_all ds (ladd x (gsigs s m)))) in
  let s2 := set_gnames s1 (upd (gnames s1) m (ladd_all dn (ladd x (gnames s1 m)))) in
  set_pmsg_all s2 (x :: ds) (Some m).

(* Message.removeSignal *)
Definition msg_remove_signal (s : state) (m x : nat) : state :=
  let ds := if is_mux s x then desc (nsig s) s x else [] in
  let dn := if is_mux s x then dnames (nsig s) s x else [] in
  let s1 := set_gsigs s (upd (gsigs s) m (lrem_all ds (lrem x (gsigs s m)))) in
  let s2 := set_gnames s1 (upd (gnames s1) m (lrem_all dn (lrem x (gnames s1 m)))) in
  set_pmsg_all s2 (x :: ds) None.

(* MultiplexerSignal.addSignal: when the multiplexer has a parent message the signal (and, for a
   multiplexer, everything below it) is registered there through Message.addSignal *)
Definition mux_add_signal (s : state) (u x : nat) : state :=
  let s1 := set_usigs s (upd (usigs s) u (ladd x (usigs s u))) in
  let s2 := set_unames s1 (upd (unames s1) u (ladd x (unames s1 u))) in
  let s3 := set_pmux s2 (upd (pmux s2) x (Some u)) in
  match pmsg s3 u with
  | None => s3
  | Some m => msg_add_signal s3 m x
  end.

(* MultiplexerSignal.removeSignal *)
Definition mux_remove_signal (s : state) (u x : nat) : state :=
  let s1 := set_usigs s (upd (usigs s) u (lrem x (usigs s u))) in
  let s2 := set_unames s1 (upd (unames s1) u (lrem x (unames s1 u))) in
  let s3 := set_pmux s2 (upd (pmux s2) x None) in
  match pmsg s3 u with
  | None => s3
  | Some m => msg_remove_signal s3 m x
  end.

(* ---------------------------------------------------------------------------------------- *)
(* size changes of one signal                                                                *)
(* ---------------------------------------------------------------------------------------- *)

Definition gget (s : state) (u : nat) (g : nat) : list nat := nth g (ugroups s u) [].

(* group ids holding x in u: all of them for a fixed signal, else signalGroupIDs[x];
   None = the lookup panics *)
Definition groups_of (s : state) (u x : nat) : option (list nat) :=
  if ufixed s u x then Some (seq 0 (Z.to_nat (mux_count s u)))
  else match ugids s u x with
       | Some ids => Some (map Z.to_nat ids)
       | None => None
       end.

Inductive vres := VOk | VErr (c : cause) | VPanic.

(* Message.verifySignalSizeAmount *)
Definition msg_verify_size (s : state) (m x : nat) (amount : Z) : vres :=
  if amount =? 0 then VOk
  else if negb (memb x (gsigs s m)) then VErr NotFound
  else if 0 <? amount then
         match verify_grow (sz s) (rel s) (glsize s m) (glay s m) x amount with Some c => VErr c | None => VOk end
       else match verify_shrink (sz s) x (- amount) with Some c => VErr c | None => VOk end.

Fixpoint verify_groups (s : state) (u x : nat) (amount : Z) (gs : list nat) : option cause :=
  match gs with
  | [] => None
  | g :: r =>
    let e := if 0 <? amount then verify_grow (sz s) (rel s) (mux_gsize s u) (gget s u g) x amount
             else verify_shrink (sz s) x (- amount) in
    match e with Some c => Some c | None => verify_groups s u x amount r end
  end.

(* MultiplexerSignal.verifySignalSizeAmount *)
Definition mux_verify_size (s : state) (u x : nat) (amount : Z) : vres :=
  if amount =? 0 then VOk
  else if negb (memb x (usigs s u)) then VErr NotFound
  else match groups_of s u x with
       | None => VPanic
       | Some gs => match verify_groups s u x amount gs with Some c => VErr c | None => VOk end
       end.

(* Message.modifySignalSize *)
Definition msg_modify_size (s : state) (m x : nat) (amount : Z) : state * vres :=
  if amount =? 0 then (s, VOk)
  else if negb (memb x (gsigs s m)) then (s, VErr NotFound)
  else let '(e, pos) := if 0 <? amount then do_grow (sz s) (rel s) (glsize s m) (glay s m) x amount
                        else do_shrink (sz s) (rel s) (glay s m) x (- amount) in
       match e with Some c => (s, VErr c) | None => (set_rel s pos, VOk) end.

(* the per-group loop of MultiplexerSignal.modifySignalSize (each call verifies again) *)
Fixpoint modify_groups (s : state) (u x : nat) (amount : Z) (gs : list nat) : state * option cause :=
  match gs with
  | [] => (s, None)
  | g :: r =>
    let '(e, pos) := if 0 <? amount then do_grow (sz s) (rel s) (mux_gsize s u) (gget s u g) x amount
                     else do_shrink (sz s) (rel s) (gget s u g) x (- amount) in
    match e with
    | Some c => (s, Some c)
    | None => modify_groups (set_rel s pos) u x amount r
    end
  end.

(* MultiplexerSignal.modifySignalSize (with the verification of all groups first) *)
Definition mux_modify_size (s : state) (u x : nat) (amount : Z) : state * vres :=
  if amount =? 0 then (s, VOk)
  else if negb (memb x (usigs s u)) then (s, VPanic)
  else match mux_verify_size s u x amount with
       | VErr c => (s, VErr c)
       | VPanic => (s, VPanic)
       | VOk =>
         match groups_of s u x with
         | None => (s, VPanic)
         | Some gs => let '(s', e) := modify_groups s u x amount gs in
                      (s', match e with Some c => VErr c | None => VOk end)
         end
       end.

(* signal.modifySize *)
Definition sig_modify_size (s : state) (x : nat) (amount : Z) : state * vres :=
  match pmux s x with
  | Some u => mux_modify_size s u x amount
  | None => match pmsg s x with
            | Some m => msg_modify_size s m x amount
            | None => (s, VOk)
            end
  end.

(* the verification of one referencing signal in SignalEnum.verifyValueIndex *)
Definition sig_verify_size (s : state) (x : nat) (amount : Z) : vres :=
  match pmux s x with
  | Some u => mux_verify_size s u x amount
  | None => match pmsg s x with
            | Some m => msg_verify_size s m x amount
            | None => VOk
            end
  end.

Fixpoint refs_verify (s : state) (refs : list nat) (amount : Z) : vres :=
  match refs with
  | [] => VOk
  | r :: t => match sig_verify_size s r amount with VOk => refs_verify s t amount | e => e end
  end.

(* SignalEnum.modifySize *)
Fixpoint refs_modify (s : state) (refs : list nat) (amount : Z) : state * vres :=
  match refs with
  | [] => (s, VOk)
  | r :: t => let '(s', e) := sig_modify_size s r amount in
              match e with VOk => refs_modify s' t amount | _ => (s', e) end
  end.
Definition enum_modify_size (s : state) (e : nat) (amount : Z) : state * vres :=
  if amount =? 0 then (s, VOk) else refs_modify s (erefs s e) amount.

(* SignalEnum.verifyValueIndex *)
Definition verify_value_index (s : state) (e : nat) (idx : Z) : vres :=
  if membZ idx (eidx s e) then VErr Duplicated
  else if emax s e <? idx then
         refs_verify s (erefs s e) (esize_of (emin s e) idx - esize s e)
       else VOk.

(* ---------------------------------------------------------------------------------------- *)
(* operations                                                                                *)
(* ---------------------------------------------------------------------------------------- *)

Inductive op :=
(* constructors *)
| ONewMsg (bytes : Z)                       (* NewMessage(name, id, sizeByte) *)
| ONewStd (size : Z)                        (* New*SignalType(size) + NewStandardSignal *)
| ONewEnum                                  (* NewSignalEnum *)
| ONewEnumSig (e : nat)                     (* NewEnumSignal(name, enum) *)
| ONewMux (count gsize : Z)                 (* NewMultiplexerSignal *)
(* Message *)
| OAppend (m x : nat)
| OInsert (m x : nat) (b : Z)
| ORemove (m x : nat)
| ORemoveAll (m : nat)
| OShiftL (m x : nat) (a : Z)
| OShiftR (m x : nat) (a : Z)
| OCompact (m : nat)
| OResize (m : nat) (bytes : Z)             (* UpdateSizeByte *)
| OByteOrder (m : nat) (big : bool)         (* SetByteOrder: no effect on the layout *)
(* signals *)
| OSetType (x : nat) (size : Z)             (* StandardSignal.SetType(type of that size) *)
| OSetEnum (x e : nat)                      (* EnumSignal.SetEnum *)
(* enums *)
| OAddValue (e : nat) (idx : Z)             (* NewSignalEnumValue(fresh name, idx) + AddValue *)
| ORemoveValue (e v : nat)
| ORemoveAllValues (e : nat)
| OSetMinSize (e : nat) (n : Z)
| OUpdateIndex (v : nat) (idx : Z)
(* multiplexers *)
| OMuxInsert (u x : nat) (b : Z) (gids : list Z)
| OMuxRemove (u x : nat)
| OMuxClearGroup (u : nat) (g : Z)
| OMuxClearAll (u : nat)
| OMuxShiftL (u x : nat) (a : Z)
| OMuxShiftR (u x : nat) (a : Z)
(* operations whose outcome depends on objects outside the model / that touch names only *)
| OResizeBus (m : nat) (bytes lim : Z)      (* UpdateSizeByte of a message sent by a node interface whose bus
                                              allows at most lim bytes (CAN 2.0A: 8) *)
| ORename (x : nat).                        (* Signal.UpdateName(a name no live signal carries) *)

Definition vsig (s : state) (x : nat) : bool := (x <? nsig s)%nat.
Definition vmsg (s : state) (m : nat) : bool := (m <? nmsg s)%nat.
Definition venum (s : state) (e : nat) : bool := (e <? nenum s)%nat.
Definition vval (s : state) (v : nat) : bool := (v <? nval s)%nat.
Definition vmux (s : state) (u : nat) : bool := vsig s u && is_mux s u.

Definition alloc_sig (s : state) (k : skind) : state :=
  set_nsig (set_kind s (upd (kind s) (nsig s) k)) (S (nsig s)).

(* --- Message ------------------------------------------------------------------------------ *)

Definition step_append (s : state) (m x : nat) : state * result :=
  if memb x (gnames s m) then (s, RErr Duplicated)
  else match verify_append (sz s) (rel s) (glsize s m) (glay s m) x with
       | Some c => (s, RErr c)
       | None =>
         let '(pos, l) := do_append (sz s) (rel s) (glay s m) x in
         let s1 := set_glay (set_rel s pos) (upd (glay s) m l) in
         (msg_add_signal s1 m x, ROk)
       end.

Definition step_insert (s : state) (m x : nat) (b : Z) : state * result :=
  if memb x (gnames s m) then (s, RErr Duplicated)
  else match verify_insert (sz s) (rel s) (glsize s m) (glay s m) x b with
       | Some c => (s, RErr c)
       | None =>
         let '(pos, l) := do_insert (rel s) (glay s m) x b in
         let s1 := set_glay (set_rel s pos) (upd (glay s) m l) in
         (msg_add_signal s1 m x, ROk)
       end.

Definition step_remove_all (s : state) (m : nat) : state * result :=
  let s1 := set_pmsg_all s (gsigs s m) None in
  let s2 := set_gsigs s1 (upd (gsigs s1) m []) in
  let s3 := set_gnames s2 (upd (gnames s2) m []) in
  (set_glay s3 (upd (glay s3) m []), ROk).

Definition step_shift (left : bool) (s : state) (m x : nat) (a : Z) : state * result :=
  if negb (memb x (gsigs s m)) then (s, RShift 0)
  else let '(pos, d) := if left then do_shift_left (sz s) (rel s) (glay s m) x a
                        else do_shift_right (sz s) (rel s) (glsize s m) (glay s m) x a in
       (set_rel s pos, RShift d).

Definition step_compact (s : state) (m : nat) : state * result :=
  (set_rel s (do_compact (sz s) (rel s) (glay s m)), ROk).

(* UpdateSizeByte for a message without sender interface (no bus) *)
Definition step_resize (s : state) (m : nat) (n : Z) : state * result :=
  if n <? 0 then (s, RErr Negative)
  else if gbytes s m =? n then (s, ROk)
  else if 2 ^ 60 - 1 <? n then (s, RErr TooBig)          (* n * 8 must fit a 64-bit int *)
  else match verify_resize (sz s) (rel s) (glsize s m) (glay s m) (n * 8) with
       | Some c => (s, RErr c)
       | None => (set_gbytes (set_glsize s (upd (glsize s) m (n * 8))) (upd (gbytes s) m n), ROk)
       end.

(* UpdateSizeByte for a message that has a sender interface attached to a bus: nodes, interfaces and
   buses are outside the model, the size limit in force (Bus.verifyMessageSize) is an input of the
   operation. The bus is asked after the three local checks and before the layout is touched. *)
Definition step_resize_bus (s : state) (m : nat) (n lim : Z) : state * result :=
  if n <? 0 then (s, RErr Negative)
  else if gbytes s m =? n then (s, ROk)
  else if 2 ^ 60 - 1 <? n then (s, RErr TooBig)
  else if lim <? n then (s, RErr TooBig)                 (* refused by the bus: nothing changes *)
  else step_resize s m n.

(* --- signals ------------------------------------------------------------------------------ *)

Definition step_set_type (s : state) (x : nat) (n : Z) : state * result :=
  match kind s x with
  | KStd old =>
    if n <=? 0 then (s, RInvalid)             (* no type of that size can be constructed *)
    else let '(s1, e) := sig_modify_size s x (n - old) in
         match e with
         | VOk => (set_kind s1 (upd (kind s1) x (KStd n)), ROk)
         | VErr c => (s1, RErr c)
         | VPanic => (s1, RPanic)
         end
  | _ => (s, RInvalid)
  end.

Definition step_set_enum (s : state) (x e : nat) : state * result :=
  match kind s x with
  | KEnum old =>
    let '(s1, r) := sig_modify_size s x (esize s e - sz s x) in
    match r with
    | VOk =>
      let s2 := set_erefs s1 (upd (erefs s1) old (lrem x (erefs s1 old))) in
      let s3 := set_kind s2 (upd (kind s2) x (KEnum e)) in
      (set_erefs s3 (upd (erefs s3) e (ladd x (erefs s3 e))), ROk)
    | VErr c => (s1, RErr c)
    | VPanic => (s1, RPanic)
    end
  | _ => (s, RInvalid)
  end.

(* --- enums -------------------------------------------------------------------------------- *)

Definition step_add_value (s : state) (e : nat) (idx : Z) : state * result :=
  (* the value is created first (a fresh handle), whatever AddValue then says *)
  let v := nval s in
  let s0 := set_nval (set_vpar (set_vidx s (upd (vidx s) v idx)) (upd (vpar s) v None)) (S v) in
  match verify_value_index s0 e idx with
  | VErr c => (s0, RErr c)
  | VPanic => (s0, RPanic)
  | VOk =>
    let '(s1, r) := if emax s0 e <? idx
                    then enum_modify_size s0 e (esize_of (emin s0 e) idx - esize s0 e)
                    else (s0, VOk) in
    match r with
    | VErr c => (s1, RErr c)
    | VPanic => (s1, RPanic)
    | VOk =>
      let s2 := if emax s1 e <? idx then set_emax s1 (upd (emax s1) e idx) else s1 in
      let s3 := set_evals s2 (upd (evals s2) e (ladd v (evals s2 e))) in
      let s4 := set_eidx s3 (upd (eidx s3) e (idx :: eidx s3 e)) in
      (set_vpar s4 (upd (vpar s4) v (Some e)), ROk)
    end
  end.

(* SignalEnum.setMaxIndex over the given values *)
Definition max_index (s : state) (vs : list nat) : Z :=
  fold_left (fun acc v => Z.max acc (vidx s v)) vs 0.

Definition step_remove_value (s : state) (e v : nat) : state * result :=
  if negb (memb v (evals s e)) then (s, RErr NotFound)
  else let was_max := vidx s v =? emax s e in
       let s1 := set_vpar s (upd (vpar s) v None) in
       let s2 := set_evals s1 (upd (evals s1) e (lrem v (evals s1 e))) in
       let s3 := set_eidx s2 (upd (eidx s2) e (lremZ (vidx s2 v) (eidx s2 e))) in
       (if was_max then set_emax s3 (upd (emax s3) e (max_index s3 (evals s3 e))) else s3, ROk).

Definition step_remove_all_values (s : state) (e : nat) : state * result :=
  let vs := evals s e in
  let s1 := set_vpar s (fun y => if memb y vs then None else vpar s y) in
  let s2 := set_evals s1 (upd (evals s1) e []) in
  let s3 := set_eidx s2 (upd (eidx s2) e []) in
  (set_emax s3 (upd (emax s3) e 0), ROk).

Definition step_update_index (s : state) (v : nat) (idx : Z) : state * result :=
  if vidx s v =? idx then (s, ROk)
  else match vpar s v with
       | None => (set_vidx s (upd (vidx s) v idx), ROk)
       | Some e =>
         match verify_value_index s e idx with
         | VErr c => (s, RErr c)
         | VPanic => (s, RPanic)
         | VOk =>
           (* modifyValueIndex *)
           let newmax := Z.max (Z.max 0 idx) (max_index s (lrem v (evals s e))) in
           let '(s1, r) := enum_modify_size s e (esize_of (emin s e) newmax - esize s e) in
           match r with
           | VOk =>
             let s2 := set_emax s1 (upd (emax s1) e newmax) in
             let s3 := set_eidx s2 (upd (eidx s2) e (idx :: lremZ (vidx s2 v) (eidx s2 e))) in
             (set_vidx s3 (upd (vidx s3) v idx), ROk)
           | _ => (s1, RPanic)
           end
         end
       end.

(* --- multiplexers ------------------------------------------------------------------------- *)

(* order-preserving removal of duplicated group ids *)
Fixpoint dedup (l seen : list Z) : list Z :=
  match l with
  | [] => []
  | g :: r => if membZ g seen then dedup r seen else g :: dedup r (g :: seen)
  end.

Fixpoint insert_sortZ (x : Z) (l : list Z) : list Z :=
  match l with
  | [] => [x]
  | y :: r => if x <=? y then x :: y :: r else y :: insert_sortZ x r
  end.
Definition sortZ (l : list Z) : list Z := fold_right insert_sortZ [] l.

Fixpoint first_err {A} (f : A -> option cause) (l : list A) : option cause :=
  match l with
  | [] => None
  | a :: r => match f a with Some c => Some c | None => first_err f r end
  end.

(* insert x at b into every listed layout. Go: each group computes the list position from the
   current positions and then sets x's (shared) position to b; the assignment is idempotent, so
   the first layout sees the old positions and all later ones the updated function. *)
Definition insert_all (pos : handle -> Z) (ls : list (list nat)) (x : nat) (b : Z) : (handle -> Z) * list (list nat) :=
  match ls with
  | [] => (pos, [])
  | l :: r => let p1 := upd pos x b in
              (p1, insert_at pos l x b :: map (fun l' => insert_at p1 l' x b) r)
  end.

Fixpoint insert_ids_from (p1 : handle -> Z) (groups : list (list nat)) (ids : list Z) (x : nat) (b : Z) : list (list nat) :=
  match ids with
  | [] => groups
  | g :: r => let n := Z.to_nat g in
              insert_ids_from p1 (set_nth groups n (insert_at p1 (nth n groups []) x b)) r x b
  end.
Definition insert_ids (pos : handle -> Z) (groups : list (list nat)) (ids : list Z) (x : nat) (b : Z) : (handle -> Z) * list (list nat) :=
  match ids with
  | [] => (pos, groups)
  | g :: r => let n := Z.to_nat g in
              let p1 := upd pos x b in
              (p1, insert_ids_from p1 (set_nth groups n (insert_at pos (nth n groups []) x b)) r x b)
  end.

(* verifyGroupID *)
Definition verify_gid (s : state) (u : nat) (g : Z) : option cause :=
  if g <? 0 then Some Negative else if mux_count s u <=? g then Some OutOfBounds else None.

(* the per-id verification loop of InsertSignal *)
Definition verify_ids (s : state) (u x : nat) (b : Z) (present fixed : bool) (prev ids : list Z) : option cause :=
  first_err (fun g =>
    match verify_gid s u g with
    | Some c => Some c
    | None =>
      if fixed || membZ g prev then Some Duplicated
      else if present && negb (b =? rel s x) then Some Duplicated
      else verify_insert (sz s) (rel s) (mux_gsize s u) (gget s u (Z.to_nat g)) x b
    end) ids.

Definition step_mux_insert (s : state) (u x : nat) (b : Z) (gids : list Z) : state * result :=
  (* verifySignalName: unique names, so a name held by the multiplexer is x's own *)
  let name_clash := if memb x (unames s u) then false
                    else match pmsg s u with Some m => memb x (gnames s m) | None => false end in
  if name_clash then (s, RErr Duplicated)
  else
    let present := memb x (usigs s u) in
    let fixed := ufixed s u x in
    let prev := match ugids s u x with Some l => l | None => [] end in
    match gids with
    | [] =>
      if present then (s, RErr Duplicated)
      else match first_err (fun l => verify_insert (sz s) (rel s) (mux_gsize s u) l x b) (ugroups s u) with
           | Some c => (s, RErr c)
           | None =>
             let '(pos, gs) := insert_all (rel s) (ugroups s u) x b in
             let s1 := set_ugroups (set_rel s pos) (upd (ugroups s) u gs) in
             let s2 := set_ufixed s1 (upd2 (ufixed s1) u x true) in
             (mux_add_signal s2 u x, ROk)
           end
    | _ =>
      let ids := dedup gids [] in
      match verify_ids s u x b present fixed prev ids with
      | Some c => (s, RErr c)
      | None =>
        let '(pos, gs) := insert_ids (rel s) (ugroups s u) ids x b in
        let s1 := set_ugroups (set_rel s pos) (upd (ugroups s) u gs) in
        let s2 := set_ugids s1 (upd2 (ugids s1) u x (Some (sortZ (prev ++ ids)))) in
        (mux_add_signal s2 u x, ROk)
      end
    end.

Definition remove_from_groups (groups : list (list nat)) (gs : list nat) (x : nat) : list (list nat) :=
  fold_left (fun acc g => set_nth acc g (do_remove (nth g acc []) x)) gs groups.

Definition step_mux_remove (s : state) (u x : nat) : state * result :=
  if negb (memb x (usigs s u)) then (s, RErr NotFound)
  else if ufixed s u x then
         let s1 := set_ugroups s (upd (ugroups s) u (map (fun l => do_remove l x) (ugroups s u))) in
         let s2 := mux_remove_signal s1 u x in
         (set_ufixed s2 (upd2 (ufixed s2) u x false), ROk)
       else match ugids s u x with
            | None => (s, RPanic)
            | Some ids =>
              let s1 := set_ugroups s (upd (ugroups s) u (remove_from_groups (ugroups s u) (map Z.to_nat ids) x)) in
              let s2 := mux_remove_signal s1 u x in
              (set_ugids s2 (upd2 (ugids s2) u x None), ROk)
            end.

(* Message.RemoveSignal: a multiplexed signal is removed through its multiplexer *)
Definition step_remove (s : state) (m x : nat) : state * result :=
  if negb (memb x (gsigs s m)) then (s, RErr NotFound)
  else match pmux s x with
       | Some u => step_mux_remove s u x
       | None =>
         let s1 := msg_remove_signal s m x in
         (set_glay s1 (upd (glay s1) m (do_remove (glay s1 m) x)), ROk)
       end.

(* the loop of ClearSignalGroup over a snapshot of the group *)
Fixpoint clear_group_loop (s : state) (u : nat) (g : Z) (xs : list nat) : state * bool (* panicked *) :=
  match xs with
  | [] => (s, false)
  | x :: r =>
    if ufixed s u x then clear_group_loop s u g r
    else
      let n := Z.to_nat g in
      let s1 := set_ugroups s (upd (ugroups s) u (set_nth (ugroups s u) n (do_remove (gget s u n) x))) in
      match ugids s1 u x with
      | None => (s1, true)
      | Some ids =>
        if (length ids =? 1)%nat then
          let s2 := mux_remove_signal s1 u x in
          clear_group_loop (set_ugids s2 (upd2 (ugids s2) u x None)) u g r
        else
          clear_group_loop (set_ugids s1 (upd2 (ugids s1) u x (Some (lremZ g ids)))) u g r
      end
  end.

Definition step_mux_clear_group (s : state) (u : nat) (g : Z) : state * result :=
  match verify_gid s u g with
  | Some c => (s, RErr c)
  | None => let '(s1, p) := clear_group_loop s u g (gget s u (Z.to_nat g)) in
            (s1, if p then RPanic else ROk)
  end.

Definition step_mux_clear_all (s : state) (u : nat) : state * result :=
  let s1 := fold_left (fun acc x => mux_remove_signal acc u x) (usigs s u) s in
  let s2 := set_ugroups s1 (upd (ugroups s1) u (map (fun _ => []) (ugroups s1 u))) in
  let s3 := set_ugids s2 (fun u' x' => if Nat.eqb u' u then None else ugids s2 u' x') in
  (set_ufixed s3 (fun u' x' => if Nat.eqb u' u then false else ufixed s3 u' x'), ROk).

Definition step_mux_shift (left : bool) (s : state) (u x : nat) (a : Z) : state * result :=
  match ugids s u x with
  | None => (s, RShift 0)
  | Some ids =>
    match ids with
    | [] => (s, RPanic)                           (* groupIDs[0] on an empty slice *)
    | g :: nil =>
      let l := gget s u (Z.to_nat g) in
      let '(pos, d) := if left then do_shift_left (sz s) (rel s) l x a
                       else do_shift_right (sz s) (rel s) (mux_gsize s u) l x a in
      (set_rel s pos, RShift d)
    | _ => (s, RShift 0)
    end
  end.

(* --- step ----------------------------------------------------------------------------------- *)

Definition step (s : state) (o : op) : state * result :=
  match o with
  | ONewMsg n =>
    (* NewMessage cannot refuse: the layout gets sizeByte * 8 bits computed in a 64-bit int (it wraps for
       |sizeByte| > MaxInt64 / 8: finding "ctor") *)
    let m := nmsg s in
    (set_nmsg (set_glsize (set_gbytes s (upd (gbytes s) m n)) (upd (glsize s) m (wrap64 (n * 8)))) (S m), ROk)
  | ONewStd n =>
    if n <? 0 then (s, RErr Negative) else if n =? 0 then (s, RErr IsZero)
    else (alloc_sig s (KStd n), ROk)
  | ONewEnum => (set_nenum s (S (nenum s)), ROk)
  | ONewEnumSig e =>
    if venum s e then
      let x := nsig s in
      let s1 := alloc_sig s (KEnum e) in
      (set_erefs s1 (upd (erefs s1) e (ladd x (erefs s1 e))), ROk)
    else (s, RInvalid)
  | ONewMux c g =>
    if c <? 0 then (s, RErr Negative) else if c =? 0 then (s, RErr IsZero)
    else if g <? 0 then (s, RErr Negative) else if g =? 0 then (s, RErr IsZero)
    else if 2 ^ 63 - 65 <? g then (s, RErr TooBig)      (* group size + selector bits must be representable *)
    else let u := nsig s in
         let s1 := alloc_sig s (KMux c g) in
         (set_ugroups s1 (upd (ugroups s1) u (repeat [] (Z.to_nat c))), ROk)
  | OAppend m x => if vmsg s m && vsig s x then step_append s m x else (s, RInvalid)
  | OInsert m x b => if vmsg s m && vsig s x then step_insert s m x b else (s, RInvalid)
  | ORemove m x => if vmsg s m then step_remove s m x else (s, RInvalid)
  | ORemoveAll m => if vmsg s m then step_remove_all s m else (s, RInvalid)
  | OShiftL m x a => if vmsg s m then step_shift true s m x a else (s, RInvalid)
  | OShiftR m x a => if vmsg s m then step_shift false s m x a else (s, RInvalid)
  | OCompact m => if vmsg s m then step_compact s m else (s, RInvalid)
  | OResize m n => if vmsg s m then step_resize s m n else (s, RInvalid)
  | OByteOrder m _ => if vmsg s m then (s, ROk) else (s, RInvalid)
  | OSetType x n => if vsig s x then step_set_type s x n else (s, RInvalid)
  | OSetEnum x e => if vsig s x && venum s e then step_set_enum s x e else (s, RInvalid)
  | OAddValue e idx => if venum s e then step_add_value s e idx else (s, RInvalid)
  | ORemoveValue e v => if venum s e then step_remove_value s e v else (s, RInvalid)
  | ORemoveAllValues e => if venum s e then step_remove_all_values s e else (s, RInvalid)
  | OSetMinSize e n => if venum s e then (set_emin s (upd (emin s) e n), ROk) else (s, RInvalid)
  | OUpdateIndex v idx => if vval s v then step_update_index s v idx else (s, RInvalid)
  | OMuxInsert u x b gids => if vmux s u && vsig s x then step_mux_insert s u x b gids else (s, RInvalid)
  | OMuxRemove u x => if vmux s u then step_mux_remove s u x else (s, RInvalid)
  | OMuxClearGroup u g => if vmux s u then step_mux_clear_group s u g else (s, RInvalid)
  | OMuxClearAll u => if vmux s u then step_mux_clear_all s u else (s, RInvalid)
  | OMuxShiftL u x a => if vmux s u then step_mux_shift true s u x a else (s, RInvalid)
  | OMuxShiftR u x a => if vmux s u then step_mux_shift false s u x a else (s, RInvalid)
  | OResizeBus m n lim => if vmsg s m then step_resize_bus s m n lim else (s, RInvalid)
  (* names are unique (see the header): the new name clashes with nothing, and the name tables are
     kept as sets of handles, so renaming changes no field *)
  | ORename x => if vsig s x then (s, ROk) else (s, RInvalid)
  end.

Definition run (ops : list op) : state := fold_left (fun s o => fst (step s o)) ops init.

(* ---------------------------------------------------------------------------------------- *)
(* observers                                                                                 *)
(* ---------------------------------------------------------------------------------------- *)

Definition msg_view (s : state) (m : nat) : list item := view (rel s) (sz s) (glay s m).
Definition group_view (s : state) (u g : nat) : list item := view (rel s) (sz s) (gget s u g).

(* signal.GetStartBit *)
Fixpoint abs_start (fuel : nat) (s : state) (x : nat) : Z :=
  match fuel with
  | O => rel s x
  | S f => match pmux s x with
           | Some u => abs_start f s u + selw (mux_count s u) + rel s x
           | None => rel s x
           end
  end.
Definition start_bit (s : state) (x : nat) : Z := abs_start (nsig s) s x.
