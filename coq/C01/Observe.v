(* C01/C07 — the observation of a model state that the harness projects from the implementation
   after every operation (props/C01/harness/world.go, snapshot), and the comparison of a list of
   observed histories with the model *inside Coq*: the thorough tier writes a sample of the run's
   cases with their observed results and snapshots as a Coq term and evaluates [mismatches] on it
   with vm_compute, expecting []. For that sample neither the extraction nor the OCaml compiler
   nor the driver is trusted. Definitions only. *)
From Coq Require Import ZArith List Bool Arith.
From Acme.C01 Require Import Layout State Model.
Import ListNotations.
Open Scope Z_scope.

(* handles are observed as integers *)
Definition zh (x : nat) : Z := Z.of_nat x.
Definition zopt (o : option nat) : option Z := match o with Some x => Some (zh x) | None => None end.

(* sorted, duplicate-free *)
Fixpoint ins_sorted (x : Z) (l : list Z) : list Z :=
  match l with
  | [] => [x]
  | y :: r => if x <? y then x :: l else if x =? y then l else y :: ins_sorted x r
  end.
Definition sortu (l : list nat) : list Z := fold_right (fun x acc => ins_sorted (zh x) acc) [] l.

Definition omsg := (Z * list Z * list Z * list Z)%type.         (* size in bytes, layout, registry, names *)
Definition osig := (Z * Z * Z * option Z * option Z)%type.        (* size, relative, absolute start, parent message, parent multiplexer *)
Definition orun := (Z * Z * list Z)%type.                         (* groups lo..hi hold this list *)
Definition omux := (Z * (Z * Z * Z) * list Z * list orun)%type.   (* handle, (count, group size, selector width), refused names, runs *)
Definition oenum := (Z * Z * Z)%type.                             (* max index, min size, size *)
Definition obs := (list omsg * list osig * list omux * list oenum)%type.

Fixpoint list_eqb {A} (eqb : A -> A -> bool) (a b : list A) : bool :=
  match a, b with
  | [], [] => true
  | x :: r, y :: r' => eqb x y && list_eqb eqb r r'
  | _, _ => false
  end.
Definition opt_eqb {A} (eqb : A -> A -> bool) (a b : option A) : bool :=
  match a, b with
  | None, None => true
  | Some x, Some y => eqb x y
  | _, _ => false
  end.
Definition zl_eqb := list_eqb Z.eqb.

(* run-length merging of equal consecutive groups *)
Fixpoint rle (gs : list (list Z)) (i : Z) (cur : option orun) : list orun :=
  match gs with
  | [] => match cur with Some r => [r] | None => [] end
  | g :: rest =>
    match cur with
    | Some (lo, hi, h) => if zl_eqb g h then rle rest (i + 1) (Some (lo, i, h))
                          else (lo, hi, h) :: rle rest (i + 1) (Some (i, i, g))
    | None => rle rest (i + 1) (Some (i, i, g))
    end
  end.

Definition observe (s : state) : obs :=
  let msgs := map (fun m => (gbytes s m, map zh (glay s m), sortu (gsigs s m), sortu (gnames s m))) (seq 0 (nmsg s)) in
  let sigs := map (fun x => (sz s x, rel s x, start_bit s x, zopt (pmsg s x), zopt (pmux s x))) (seq 0 (nsig s)) in
  let muxs := flat_map (fun u =>
                if is_mux s u then
                  let c := mux_count s u in
                  let taken := unames s u ++ match pmsg s u with Some m => gnames s m | None => [] end in
                  [(zh u, (c, mux_gsize s u, selw c), sortu taken, rle (map (map zh) (ugroups s u)) 0 None)]
                else []) (seq 0 (nsig s)) in
  let enums := map (fun e => (emax s e, emin s e, esize s e)) (seq 0 (nenum s)) in
  (msgs, sigs, muxs, enums).

Definition omsg_eqb (a b : omsg) : bool :=
  let '(a1, a2, a3, a4) := a in let '(b1, b2, b3, b4) := b in
  (a1 =? b1) && zl_eqb a2 b2 && zl_eqb a3 b3 && zl_eqb a4 b4.
Definition osig_eqb (a b : osig) : bool :=
  let '(a1, a2, a3, a4, a5) := a in let '(b1, b2, b3, b4, b5) := b in
  (a1 =? b1) && (a2 =? b2) && (a3 =? b3) && opt_eqb Z.eqb a4 b4 && opt_eqb Z.eqb a5 b5.
Definition orun_eqb (a b : orun) : bool :=
  let '(a1, a2, a3) := a in let '(b1, b2, b3) := b in (a1 =? b1) && (a2 =? b2) && zl_eqb a3 b3.
Definition omux_eqb (a b : omux) : bool :=
  let '(a1, (a2, a3, a4), a5, a6) := a in let '(b1, (b2, b3, b4), b5, b6) := b in
  (a1 =? b1) && (a2 =? b2) && (a3 =? b3) && (a4 =? b4) && zl_eqb a5 b5 && list_eqb orun_eqb a6 b6.
Definition oenum_eqb (a b : oenum) : bool :=
  let '(a1, a2, a3) := a in let '(b1, b2, b3) := b in (a1 =? b1) && (a2 =? b2) && (a3 =? b3).
Definition obs_eqb (a b : obs) : bool :=
  let '(a1, a2, a3, a4) := a in let '(b1, b2, b3, b4) := b in
  list_eqb omsg_eqb a1 b1 && list_eqb osig_eqb a2 b2 && list_eqb omux_eqb a3 b3 && list_eqb oenum_eqb a4 b4.

Definition result_eqb (a b : result) : bool :=
  match a, b with
  | ROk, ROk | RPanic, RPanic | RInvalid, RInvalid => true
  | RErr c, RErr c' => cause_eqb c c'
  | RShift d, RShift d' => d =? d'
  | _, _ => false
  end.

(* one observed step: the operation, the observed result and snapshot (None: marked as not
   comparable by the harness, the history is compared up to there) *)
Definition ostep := (op * option result * option obs)%type.

(* index of the first step on which model and observation disagree *)
Fixpoint check_case (s : state) (steps : list ostep) (i : Z) : option Z :=
  match steps with
  | [] => None
  | (o, r, ob) :: rest =>
    let '(s', r') := step s o in
    match r with
    | None => None
    | Some ri =>
      if negb (result_eqb ri r') then Some i
      else match ob with
           | None => None
           | Some b => if obs_eqb b (observe s') then check_case s' rest (i + 1) else Some i
           end
    end
  end.

Definition mismatches (cases : list (Z * list ostep)) : list (Z * Z) :=
  flat_map (fun c => match check_case init (snd c) 1 with Some i => [(fst c, i)] | None => [] end) cases.

(* steps compared (for the evidence) *)
Definition steps_of (cases : list (Z * list ostep)) : Z :=
  fold_left (fun n c => n + Z.of_nat (length (snd c))) cases 0.
