(* C01/C07 — T2 for the operations that change a size: an operation is accepted exactly when the
   change fits, [change_fits] (ProofsInv): it is no growth, or EVERY layout that holds the signal
   (its message, or every group of its multiplexer that holds it) has that many free bits behind it.
   SetType and SetEnum in any container, the enum edits (every referencing signal), and the
   specification of the shifts inside a multiplexer. *)
From Coq Require Import ZArith List Bool Arith Lia.
From Acme.C01 Require Import Layout State Model ProofsLayout ProofsInv ProofsSpec.
Import ListNotations.
Open Scope Z_scope.

(* signal.modifySize *)
Lemma size_change_accepted_iff : forall s x a, InvA s -> resize_ok s x a -> 1 <= sz s x + a ->
  (snd (sig_modify_size s x a) = VOk <-> change_fits s (rel s) x a).
Proof.
  intros s x a H [Hl Hs] Hnew.
  pose proof (sig_modify_ok_iff s x a (rel s) (sz s) H (a_ok s H) eq_refl (fun _ _ _ _ _ => eq_refl) Hnew Hl Hs) as A.
  pose proof (sig_verify_fits s (rel s) x a Hl Hnew) as B.
  rewrite <- (set_rel_id s) in A, B. rewrite A. exact B.
Qed.

(* StandardSignal.SetType, wherever the signal is *)
Lemma set_type_accepted_iff_all : forall s x old n, InvA s -> kind s x = KStd old -> 1 <= n ->
  resize_ok s x (n - old) ->
  (is_ok (snd (step_set_type s x n)) <-> change_fits s (rel s) x (n - old)).
Proof.
  intros s x old n H Ek Hn Hr. unfold step_set_type, is_ok. rewrite Ek. destruct (Z.leb_spec n 0); [lia|].
  assert (Eold : sz s x = old) by (unfold sz; rewrite Ek; reflexivity).
  rewrite <- (size_change_accepted_iff s x (n - old) H Hr ltac:(lia)).
  destruct (sig_modify_size s x (n - old)) as [s1 r]. cbn [snd]. destruct r; cbn [snd]; split; intros E; try reflexivity; discriminate.
Qed.

(* EnumSignal.SetEnum *)
Lemma set_enum_accepted_iff : forall s x e old, InvA s -> kind s x = KEnum old ->
  resize_ok s x (esize s e - sz s x) ->
  (is_ok (snd (step_set_enum s x e)) <-> change_fits s (rel s) x (esize s e - sz s x)).
Proof.
  intros s x e old H Ek Hr. unfold step_set_enum, is_ok. rewrite Ek.
  assert (Hnew : 1 <= sz s x + (esize s e - sz s x)).
  { unfold esize. pose proof (esize_of_pos (emin s e) (emax s e) (a_emax s H e)). lia. }
  rewrite <- (size_change_accepted_iff s x _ H Hr Hnew).
  destruct (sig_modify_size s x (esize s e - sz s x)) as [s1 r]. cbn [snd]. destruct r; cbn [snd]; split; intros E; try reflexivity; discriminate.
Qed.

(* --- enum edits --------------------------------------------------------------------------------- *)

Lemma sig_verify_zero : forall s x, sig_verify_size s x 0 = VOk.
Proof.
  intros s x. unfold sig_verify_size, mux_verify_size, msg_verify_size. cbn [Z.eqb].
  destruct (pmux s x); [reflexivity|]. destruct (pmsg s x); reflexivity.
Qed.

Lemma refs_verify_all : forall s R a, refs_verify s R a = VOk <-> forall r, In r R -> sig_verify_size s r a = VOk.
Proof.
  intros s R a. induction R as [|r R' IH]; cbn [refs_verify]; [split; [intros _ r []|reflexivity]|].
  destruct (sig_verify_size s r a) eqn:E.
  - rewrite IH. split; [intros Hall r0 [<-|Hr0]; [exact E|apply Hall; exact Hr0]|intros Hall r0 Hr0; apply Hall; right; exact Hr0].
  - split; [discriminate|]. intros Hall. rewrite (Hall r (or_introl eq_refl)) in E. discriminate.
  - split; [discriminate|]. intros Hall. rewrite (Hall r (or_introl eq_refl)) in E. discriminate.
Qed.

(* every referencing signal can take the change *)
Definition enum_change_fits (s : state) (e : nat) (a : Z) : Prop :=
  forall r, In r (erefs s e) -> change_fits s (rel s) r a.

Lemma refs_verify_fits : forall s e a, InvA s -> 1 <= esize s e + a -> (a <> 0 -> enum_resize_ok s e a) ->
  (refs_verify s (erefs s e) a = VOk <-> enum_change_fits s e a).
Proof.
  intros s e a H Hnew Hres. rewrite refs_verify_all. unfold enum_change_fits.
  destruct (Z.eq_dec a 0) as [->|Ha].
  - split; [intros _ r _; left; lia|intros _ r _; apply sig_verify_zero].
  - destruct (Hres Ha) as [Hr _].
    assert (Hone : forall r, In r (erefs s e) -> (sig_verify_size s r a = VOk <-> change_fits s (rel s) r a)).
    { intros r Hin. destruct (Hr r Hin) as [Hl _]. destruct (a_refs2 s H r e Hin) as [K _].
      assert (Esz : sz s r = esize s e) by (unfold sz; rewrite K; reflexivity).
      pose proof (sig_verify_fits s (rel s) r a Hl ltac:(lia)) as B. rewrite <- (set_rel_id s) in B. exact B. }
    split; intros Hall r Hin; apply (Hone r Hin); apply Hall; exact Hin.
Qed.

(* SignalEnum.AddValue (the value is new): accepted exactly when the index is unused and, when the
   index raises the size of the enum, every referencing signal can grow by that much *)
Lemma add_value_accepted_iff : forall s e idx, InvA s -> ok_op s (OAddValue e idx) ->
  (is_ok (snd (step_add_value s e idx)) <->
   ~ In idx (eidx s e) /\ (emax s e < idx -> enum_change_fits s e (esize_of (emin s e) idx - esize s e))).
Proof.
  intros s e idx H Hop. cbn [ok_op] in Hop. unfold step_add_value, is_ok.
  set (v := nval s).
  set (s0 := set_nval (set_vpar (set_vidx s (upd (vidx s) v idx)) (upd (vpar s) v None)) (S v)).
  assert (H0 : InvA s0) by (apply InvA_alloc_val; exact H).
  set (amt := esize_of (emin s e) idx - esize s e).
  assert (Hfit0 : enum_change_fits s0 e amt <-> enum_change_fits s e amt) by (split; intros X; exact X).
  unfold verify_value_index. change (eidx s0 e) with (eidx s e). change (emax s0 e) with (emax s e).
  change (emin s0 e) with (emin s e). change (esize s0 e) with (esize s e). change (erefs s0 e) with (erefs s e). fold amt.
  destruct (membZ idx (eidx s e)) eqn:Em.
  { cbn [snd]. split; [discriminate|]. intros [C _]. exfalso. apply C. apply membZ_In. exact Em. }
  assert (Hdup : ~ In idx (eidx s e)) by (intros Hin; apply membZ_In in Hin; congruence).
  destruct (Z.ltb_spec (emax s e) idx) as [Hlt|Hge].
  - assert (Hnew : 1 <= esize s0 e + amt).
    { unfold amt. change (esize s0 e) with (esize s e). pose proof (esize_of_pos (emin s e) idx ltac:(pose proof (a_emax s H e); lia)). lia. }
    assert (Hres : amt <> 0 -> enum_resize_ok s0 e amt).
    { intros Ne. apply Hop; [exact Hlt|]. unfold amt in Ne. lia. }
    pose proof (refs_verify_fits s0 e amt H0 Hnew Hres) as V. change (erefs s0 e) with (erefs s e) in V.
    destruct (refs_verify s0 (erefs s e) amt) eqn:Ev.
    + (* verified: the loop then succeeds *)
      assert (Hfits : enum_change_fits s e amt) by (apply Hfit0; apply V; reflexivity).
      assert (Hmod : snd (enum_modify_size s0 e amt) = VOk).
      { destruct (Z.eq_dec amt 0) as [E0|Ne]; [rewrite E0; reflexivity|].
        destruct (enum_modify_post s0 e amt H0 Hnew (Hres Ne)) as (p & _ & _ & _ & _ & Acc). apply Acc. exact Hfits. }
      destruct (enum_modify_size s0 e amt) as [s1 r]. cbn [snd] in Hmod. subst r. cbn [snd].
      split; [intros _; split; [exact Hdup|intros _; exact Hfits]|reflexivity].
    + cbn [snd]. split; [discriminate|]. intros [_ C]. specialize (C Hlt). apply Hfit0 in C. apply V in C. discriminate.
    + cbn [snd]. split; [discriminate|]. intros [_ C]. specialize (C Hlt). apply Hfit0 in C. apply V in C. discriminate.
  - cbn [snd]. split; [intros _; split; [exact Hdup|intros C; lia]|reflexivity].
Qed.

(* SignalEnumValue.UpdateIndex: nothing to do, a detached value, or: the index is unused and, when it
   raises the size of the enum, every referencing signal can grow by that much *)
Lemma update_index_accepted_iff : forall s v idx, InvA s -> ok_op s (OUpdateIndex v idx) ->
  (is_ok (snd (step_update_index s v idx)) <->
   vidx s v = idx \/ vpar s v = None
   \/ exists e, vpar s v = Some e /\ ~ In idx (eidx s e)
                /\ (emax s e < idx -> enum_change_fits s e (esize_of (emin s e) idx - esize s e))).
Proof.
  intros s v idx H Hop. cbn [ok_op] in Hop. unfold step_update_index, is_ok.
  destruct (Z.eqb_spec (vidx s v) idx) as [E|NE]; [cbn [snd]; split; [intros _; left; exact E|reflexivity]|].
  destruct (vpar s v) as [e|] eqn:Evp; [|cbn [snd]; split; [intros _; right; left; reflexivity|reflexivity]].
  set (newmax := Z.max (Z.max 0 idx) (max_index s (lrem v (evals s e)))).
  set (amt := esize_of (emin s e) newmax - esize s e).
  assert (Hnm : 0 <= newmax) by (unfold newmax; lia).
  assert (Hnew : 1 <= esize s e + amt).
  { unfold amt. pose proof (esize_of_pos (emin s e) newmax Hnm). lia. }
  assert (Hres : amt <> 0 -> enum_resize_ok s e amt).
  { intros Ne. apply (Hop e eq_refl). fold newmax. unfold amt in Ne. lia. }
  (* the other values are not above the max index *)
  assert (Hothers : max_index s (lrem v (evals s e)) <= emax s e).
  { apply (max_index_bound s (lrem v (evals s e)) (emax s e) (a_emax s H e)). intros v' Hv'. apply lrem_In in Hv'.
    destruct (a_vals s H e v' (proj1 Hv')) as (_ & B & _). exact B. }
  unfold verify_value_index.
  destruct (membZ idx (eidx s e)) eqn:Em.
  { cbn [snd]. split; [discriminate|]. intros [C|[C|[e' [Ee' [C _]]]]]; [contradiction|discriminate|].
    assert (e' = e) by congruence. subst e'. exfalso. apply C. apply membZ_In. exact Em. }
  assert (Hdup : ~ In idx (eidx s e)) by (intros Hin; apply membZ_In in Hin; congruence).
  assert (Hgoal : forall P : Prop, (P <-> (emax s e < idx -> enum_change_fits s e (esize_of (emin s e) idx - esize s e))) ->
            (P <-> vidx s v = idx \/ Some e = None
                   \/ exists e0, Some e = Some e0 /\ ~ In idx (eidx s e0)
                        /\ (emax s e0 < idx -> enum_change_fits s e0 (esize_of (emin s e0) idx - esize s e0)))).
  { intros P HP. rewrite HP. split.
    - intros C. right. right. exists e. split; [reflexivity|split; [exact Hdup|exact C]].
    - intros [C|[C|[e' [Ee' [_ C]]]]]; [contradiction|discriminate|]. assert (e' = e) by congruence. subst e'. exact C. }
  apply Hgoal.
  destruct (Z.ltb_spec (emax s e) idx) as [Hlt|Hge].
  - (* the index becomes the max index *)
    assert (Enm : newmax = idx) by (unfold newmax; pose proof (a_emax s H e); lia).
    assert (Eamt : esize_of (emin s e) idx - esize s e = amt) by (unfold amt; rewrite Enm; reflexivity).
    rewrite Eamt.
    pose proof (refs_verify_fits s e amt H Hnew Hres) as V.
    destruct (refs_verify s (erefs s e) amt) eqn:Ev.
    + assert (Hfits : enum_change_fits s e amt) by (apply V; reflexivity).
      assert (Hmod : snd (enum_modify_size s e amt) = VOk).
      { destruct (Z.eq_dec amt 0) as [E0|Ne]; [rewrite E0; reflexivity|].
        destruct (enum_modify_post s e amt H Hnew (Hres Ne)) as (p & _ & _ & _ & _ & Acc). apply Acc. exact Hfits. }
      fold newmax. fold amt. destruct (enum_modify_size s e amt) as [s1 r]. cbn [snd] in Hmod. subst r. cbn [snd].
      split; [intros _ _; exact Hfits|reflexivity].
    + cbn [snd]. split; [discriminate|]. intros C. specialize (C Hlt). apply V in C. discriminate.
    + cbn [snd]. split; [discriminate|]. intros C. specialize (C Hlt). apply V in C. discriminate.
  - (* the enum does not grow: always accepted *)
    assert (Hle : amt <= 0).
    { unfold amt, esize. assert (newmax <= emax s e) by (unfold newmax; pose proof (a_emax s H e); lia).
      pose proof (esize_of_mono (emin s e) newmax (emax s e) Hnm ltac:(lia)). lia. }
    assert (Hmod : snd (enum_modify_size s e amt) = VOk).
    { destruct (Z.eq_dec amt 0) as [E0|Ne]; [rewrite E0; reflexivity|].
      destruct (enum_modify_post s e amt H Hnew (Hres Ne)) as (p & _ & _ & _ & _ & Acc). apply Acc. intros r _. left. exact Hle. }
    fold newmax. fold amt. destruct (enum_modify_size s e amt) as [s1 r]. cbn [snd] in Hmod. subst r. cbn [snd].
    split; [intros _ C; lia|reflexivity].
Qed.

(* the other enum edits verify nothing about layouts *)
Lemma remove_value_accepted_iff : forall s e v, is_ok (snd (step_remove_value s e v)) <-> In v (evals s e).
Proof.
  intros s e v. unfold step_remove_value, is_ok. rewrite <- memb_In. destruct (memb v (evals s e)); cbn [negb snd].
  - split; reflexivity.
  - split; discriminate.
Qed.

Lemma remove_all_values_accepted : forall s e, is_ok (snd (step_remove_all_values s e)).
Proof. intros. reflexivity. Qed.

(* --- shifts inside a multiplexer ------------------------------------------------------------------ *)

(* only a signal held by exactly one group is shifted (MultiplexerSignal.ShiftSignalLeft/Right) *)
Definition mux_moves (s : state) (u x : nat) (a : Z) (g : Z) : Prop :=
  ugids s u x = Some [g] /\ In x (gget s u (Z.to_nat g)) /\ 0 < a.

Lemma mux_shift_left_spec : forall s u x a, InvA s -> ugids s u x <> Some [] ->
  exists d, snd (step_mux_shift true s u x a) = RShift d
    /\ d = rel s x - rel (fst (step_mux_shift true s u x a)) x
    /\ (forall y, y <> x -> rel (fst (step_mux_shift true s u x a)) y = rel s y)
    /\ (forall g, mux_moves s u x a g ->
          rel (fst (step_mux_shift true s u x a)) x = left_target s (gget s u (Z.to_nat g)) x a /\ 0 <= d <= a)
    /\ ((forall g, ~ mux_moves s u x a g) -> d = 0).
Proof.
  intros s u x a H Hne. unfold step_mux_shift.
  destruct (ugids s u x) as [ids|] eqn:Ei.
  2:{ exists 0. cbn [fst snd]. split; [reflexivity|]. split; [lia|]. split; [reflexivity|].
      split; [intros g (C & _); congruence|reflexivity]. }
  destruct ids as [|g [|g2 r]]; [congruence| |].
  2:{ exists 0. cbn [fst snd]. split; [reflexivity|]. split; [lia|]. split; [reflexivity|].
      split; [intros g' (C & _); congruence|reflexivity]. }
  set (l := gget s u (Z.to_nat g)).
  unfold do_shift_left. destruct (Z.leb_spec a 0).
  { exists 0. cbn [fst snd]. split; [reflexivity|]. split; [cbn; lia|]. split; [reflexivity|].
    split; [intros g' (_ & _ & C); lia|reflexivity]. }
  destruct (in_dec Nat.eq_dec x l) as [Hin|Hn].
  - rewrite (shl_loop_spec (sz s) l (rel s) x a None Hin). cbn [fst snd].
    pose proof (a_ok s H (LG u (Z.to_nat g))) as Hok. cbn [lay lsz] in Hok. fold l in Hok.
    pose proof (prev_end_bounds _ _ _ _ _ _ Hok Hin) as Hb.
    eexists. split; [reflexivity|]. cbn. rewrite upd_same. split; [reflexivity|].
    split; [intros y Hy; apply upd_other; exact Hy|]. split.
    + intros g' (Eg' & _ & _). assert (g' = g) by congruence. subst g'. fold l. unfold left_target. split; lia.
    + intros C. exfalso. apply (C g). unfold mux_moves. fold l. split; [exact Ei|split; [exact Hin|lia]].
  - rewrite shl_loop_notin by exact Hn. exists 0. cbn [fst snd]. split; [reflexivity|]. split; [cbn; lia|].
    split; [reflexivity|]. split; [|reflexivity]. intros g' (Eg' & C & _). assert (g' = g) by congruence. subst g'. contradiction.
Qed.

Lemma mux_shift_right_spec : forall s u x a, InvA s -> ugids s u x <> Some [] ->
  exists d, snd (step_mux_shift false s u x a) = RShift d
    /\ d = rel (fst (step_mux_shift false s u x a)) x - rel s x
    /\ (forall y, y <> x -> rel (fst (step_mux_shift false s u x a)) y = rel s y)
    /\ (forall g, mux_moves s u x a g ->
          rel (fst (step_mux_shift false s u x a)) x = right_target s (mux_gsize s u) (gget s u (Z.to_nat g)) x a /\ 0 <= d <= a)
    /\ ((forall g, ~ mux_moves s u x a g) -> d = 0).
Proof.
  intros s u x a H Hne. unfold step_mux_shift.
  destruct (ugids s u x) as [ids|] eqn:Ei.
  2:{ exists 0. cbn [fst snd]. split; [reflexivity|]. split; [lia|]. split; [reflexivity|].
      split; [intros g (C & _); congruence|reflexivity]. }
  destruct ids as [|g [|g2 r]]; [congruence| |].
  2:{ exists 0. cbn [fst snd]. split; [reflexivity|]. split; [lia|]. split; [reflexivity|].
      split; [intros g' (C & _); congruence|reflexivity]. }
  set (l := gget s u (Z.to_nat g)).
  unfold do_shift_right. destruct (Z.leb_spec a 0).
  { exists 0. cbn [fst snd]. split; [reflexivity|]. split; [cbn; lia|]. split; [reflexivity|].
    split; [intros g' (_ & _ & C); lia|reflexivity]. }
  pose proof (a_ok s H (LG u (Z.to_nat g))) as Hok. cbn [lay lsz] in Hok. fold l in Hok.
  destruct (in_dec Nat.eq_dec x l) as [Hin|Hn].
  - rewrite (shr_loop_spec (sz s) l (rel s) 0 (mux_gsize s u) x a Hok Hin). cbn [fst snd].
    pose proof (next_start_bounds _ _ _ _ _ _ Hok Hin) as Hb.
    eexists. split; [reflexivity|]. cbn. rewrite upd_same. split; [reflexivity|].
    split; [intros y Hy; apply upd_other; exact Hy|]. split.
    + intros g' (Eg' & _ & _). assert (g' = g) by congruence. subst g'. fold l. unfold right_target. split; lia.
    + intros C. exfalso. apply (C g). unfold mux_moves. fold l. split; [exact Ei|split; [exact Hin|lia]].
  - rewrite shr_loop_notin by exact Hn. exists 0. cbn [fst snd]. split; [reflexivity|]. split; [cbn; lia|].
    split; [reflexivity|]. split; [|reflexivity]. intros g' (Eg' & C & _). assert (g' = g) by congruence. subst g'. contradiction.
Qed.
