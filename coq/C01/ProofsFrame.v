(* C01 — T4 (frame): what an operation does not name keeps its size; positions move only for the
   named signal, by compaction, or in a layout that holds a resized signal. *)
From Coq Require Import ZArith List Bool Arith Lia.
From Acme.C01 Require Import Layout State Model ProofsLayout ProofsInv.
From Acme.C07 Require Import Proofs.
Import ListNotations.
Open Scope Z_scope.

(* --- sizes ------------------------------------------------------------------------------------------ *)

(* the signals whose size an operation may change *)
Definition resized_by (s : state) (o : op) (y : nat) : Prop :=
  match o with
  | OSetType x _ | OSetEnum x _ => y = x
  | OAddValue e _ | ORemoveValue e _ | ORemoveAllValues e | OSetMinSize e _ => kind s y = KEnum e
  | OUpdateIndex v _ => exists e, vpar s v = Some e /\ kind s y = KEnum e
  | ONewStd _ | ONewEnumSig _ | ONewMux _ _ => y = nsig s
  | _ => False
  end.

Definition ecore (s : state) := (kind s, emax s, emin s).

Lemma sz_ecore : forall s s', ecore s' = ecore s -> forall y, sz s' y = sz s y.
Proof. intros s s' E y. unfold ecore in E. inversion E as [[E1 E2 E3]]. unfold sz, esize. rewrite E1, E2, E3. reflexivity. Qed.

Lemma ecore_msg_modify : forall s m x a, ecore (fst (msg_modify_size s m x a)) = ecore s.
Proof.
  intros. unfold msg_modify_size. destruct (a =? 0); [reflexivity|]. destruct (negb (memb x (gsigs s m))); [reflexivity|].
  destruct (if 0 <? a then _ else _) as [e pos]. destruct e; reflexivity.
Qed.
Lemma ecore_mux_modify : forall s u x a, ecore (fst (mux_modify_size s u x a)) = ecore s.
Proof.
  intros. unfold mux_modify_size. destruct (a =? 0); [reflexivity|]. destruct (negb (memb x (usigs s u))); [reflexivity|].
  destruct (mux_verify_size s u x a); try reflexivity. destruct (groups_of s u x) as [gs|]; [|reflexivity].
  rewrite modify_groups_pos. reflexivity.
Qed.
Lemma ecore_sig_modify : forall s x a, ecore (fst (sig_modify_size s x a)) = ecore s.
Proof.
  intros. unfold sig_modify_size. destruct (pmux s x); [apply ecore_mux_modify|]. destruct (pmsg s x); [apply ecore_msg_modify|reflexivity].
Qed.
Lemma ecore_refs_modify : forall refs s a, ecore (fst (refs_modify s refs a)) = ecore s.
Proof.
  induction refs as [|r t IH]; intros s a; cbn [refs_modify]; [reflexivity|].
  pose proof (ecore_sig_modify s r a) as P. destruct (sig_modify_size s r a) as [s' e]. cbn [fst] in *.
  destruct e; try exact P. rewrite IH. exact P.
Qed.
Lemma ecore_enum_modify : forall s e a, ecore (fst (enum_modify_size s e a)) = ecore s.
Proof. intros. unfold enum_modify_size. destruct (a =? 0); [reflexivity|apply ecore_refs_modify]. Qed.

Lemma ecore_clear_group_loop : forall xs s u g, ecore (fst (clear_group_loop s u g xs)) = ecore s.
Proof.
  induction xs as [|x r IH]; intros s u g; cbn [clear_group_loop]; [reflexivity|].
  destruct (ufixed s u x); [apply IH|]. set (s1 := set_ugroups _ _).
  destruct (ugids s1 u x) as [ids|]; [|reflexivity]. destruct (length ids =? 1)%nat; rewrite IH; unfold ecore; cbn; autorewrite with reg; reflexivity.
Qed.
Lemma ecore_fold_mux_remove : forall xs s u, ecore (fold_left (fun acc x => mux_remove_signal acc u x) xs s) = ecore s.
Proof.
  induction xs as [|x r IH]; intros s u; cbn [fold_left]; [reflexivity|]. rewrite IH. unfold ecore. autorewrite with reg. reflexivity.
Qed.

Ltac same_ecore := apply sz_ecore; unfold ecore; cbn; autorewrite with reg; reflexivity.

Theorem frame_sizes : forall s o y, ~ resized_by s o y -> sz (fst (step s o)) y = sz s y.
Proof.
  intros s o y Hn. destruct o; cbn [step resized_by] in *.
  - same_ecore.
  - destruct (size <? 0); [reflexivity|]. destruct (size =? 0); [reflexivity|]. cbn [fst].
    unfold sz, esize. cbn. rewrite upd_other by exact Hn. reflexivity.
  - same_ecore.
  - destruct (venum s e); [|reflexivity]. cbn [fst]. unfold sz, esize. cbn. rewrite upd_other by exact Hn. reflexivity.
  - destruct (count <? 0); [reflexivity|]. destruct (count =? 0); [reflexivity|]. destruct (gsize <? 0); [reflexivity|]. destruct (gsize =? 0); [reflexivity|].
    cbn [fst]. unfold sz, esize. cbn. rewrite upd_other by exact Hn. reflexivity.
  - destruct (vmsg s m && vsig s x); [|reflexivity]. unfold step_append. destruct (memb x (gnames s m)); [reflexivity|].
    destruct (verify_append (sz s) (rel s) (glsize s m) (glay s m) x); [reflexivity|]. cbn [do_append fst]. same_ecore.
  - destruct (vmsg s m && vsig s x); [|reflexivity]. unfold step_insert. destruct (memb x (gnames s m)); [reflexivity|].
    destruct (verify_insert (sz s) (rel s) (glsize s m) (glay s m) x b); [reflexivity|]. cbn [do_insert fst]. same_ecore.
  - destruct (vmsg s m); [|reflexivity]. unfold step_remove. destruct (negb (memb x (gsigs s m))); [reflexivity|].
    destruct (pmux s x) as [u|].
    + unfold step_mux_remove. destruct (negb (memb x (usigs s u))); [reflexivity|]. destruct (ufixed s u x); [cbn [fst]; same_ecore|].
      destruct (ugids s u x); [cbn [fst]; same_ecore|reflexivity].
    + cbn [fst]. same_ecore.
  - destruct (vmsg s m); [|reflexivity]. unfold step_remove_all. cbn [fst]. same_ecore.
  - destruct (vmsg s m); [|reflexivity]. unfold step_shift. destruct (negb (memb x (gsigs s m))); [reflexivity|].
    destruct (do_shift_left (sz s) (rel s) (glay s m) x a). cbn [fst]. same_ecore.
  - destruct (vmsg s m); [|reflexivity]. unfold step_shift. destruct (negb (memb x (gsigs s m))); [reflexivity|].
    destruct (do_shift_right (sz s) (rel s) (glsize s m) (glay s m) x a). cbn [fst]. same_ecore.
  - destruct (vmsg s m); [|reflexivity]. unfold step_compact. cbn [fst]. same_ecore.
  - destruct (vmsg s m); [|reflexivity]. unfold step_resize. destruct (bytes <? 0); [reflexivity|]. destruct (gbytes s m =? bytes); [reflexivity|]. destruct (2 ^ 60 - 1 <? bytes); [reflexivity|].
    destruct (verify_resize (sz s) (rel s) (glsize s m) (glay s m) (bytes * 8)); [reflexivity|]. cbn [fst]. same_ecore.
  - destruct (vmsg s m); reflexivity.
  - destruct (vsig s x); [|reflexivity]. unfold step_set_type. destruct (kind s x) as [old| |] eqn:Ek; try reflexivity.
    destruct (size <=? 0); [reflexivity|].
    pose proof (ecore_sig_modify s x (size - old)) as P. destruct (sig_modify_size s x (size - old)) as [s1 r]. cbn [fst] in P.
    destruct r; cbn [fst]; try (apply sz_ecore; exact P).
    unfold ecore in P. inversion P as [[P1 P2 P3]]. unfold sz, esize. cbn. rewrite upd_other by exact Hn. rewrite P1, P2, P3. reflexivity.
  - destruct (vsig s x && venum s e); [|reflexivity]. unfold step_set_enum. destruct (kind s x) as [|old|] eqn:Ek; try reflexivity.
    pose proof (ecore_sig_modify s x (esize s e - sz s x)) as P. destruct (sig_modify_size s x (esize s e - sz s x)) as [s1 r]. cbn [fst] in P.
    destruct r; cbn [fst]; try (apply sz_ecore; exact P).
    unfold ecore in P. inversion P as [[P1 P2 P3]]. unfold sz, esize. cbn. rewrite upd_other by exact Hn. rewrite P1, P2, P3. reflexivity.
  - destruct (venum s e); [|reflexivity]. unfold step_add_value. set (s0 := set_nval _ _).
    assert (E0 : forall s', ecore s' = ecore s0 -> sz s' y = sz s y) by (intros s' E; rewrite (sz_ecore s0 s' E); same_ecore).
    destruct (verify_value_index s0 e idx); try (apply E0; reflexivity).
    assert (Hy : forall s', kind s' = kind s -> (forall e', e' <> e -> emax s' e' = emax s e' /\ emin s' e' = emin s e') -> sz s' y = sz s y).
    { intros s' K Eo. unfold sz, esize. rewrite K. destruct (kind s y) as [n|e'|c g] eqn:Ky; try reflexivity.
      destruct (Nat.eq_dec e' e) as [->|NE]; [contradiction|]. destruct (Eo e' NE) as [A B]. rewrite A, B. reflexivity. }
    destruct (emax s0 e <? idx) eqn:El.
    + pose proof (ecore_enum_modify s0 e (esize_of (emin s0 e) idx - esize s0 e)) as P.
      destruct (enum_modify_size s0 e (esize_of (emin s0 e) idx - esize s0 e)) as [s1 r]. cbn [fst] in P.
      destruct r; cbn [fst]; try (apply E0; exact P).
      unfold ecore in P. inversion P as [[P1 P2 P3]].
      apply Hy; [destruct (emax s1 e <? idx); cbn; rewrite P1; reflexivity|].
      intros e' NE. destruct (emax s1 e <? idx); cbn; rewrite ?P2, ?P3; [rewrite upd_other by exact NE|]; split; reflexivity.
    + cbn [fst]. rewrite El. apply E0. reflexivity.
  - destruct (venum s e); [|reflexivity]. unfold step_remove_value. destruct (negb (memb v (evals s e))); [reflexivity|]. cbn [fst].
    unfold sz, esize. destruct (vidx s v =? emax s e); cbn; [|reflexivity].
    destruct (kind s y) as [n|e'|c g] eqn:Ky; try reflexivity. rewrite upd_other; [reflexivity|]. intros ->. contradiction.
  - destruct (venum s e); [|reflexivity]. unfold step_remove_all_values. cbn [fst]. unfold sz, esize. cbn.
    destruct (kind s y) as [n|e'|c g] eqn:Ky; try reflexivity. rewrite upd_other; [reflexivity|]. intros ->. contradiction.
  - destruct (venum s e); [|reflexivity]. cbn [fst]. unfold sz, esize. cbn.
    destruct (kind s y) as [k|e'|c g] eqn:Ky; try reflexivity. rewrite upd_other; [reflexivity|]. intros ->. contradiction.
  - destruct (vval s v); [|reflexivity]. unfold step_update_index. destruct (vidx s v =? idx); [reflexivity|].
    destruct (vpar s v) as [e|] eqn:Evp; [|cbn [fst]; same_ecore].
    destruct (verify_value_index s e idx); try reflexivity.
    set (amt := esize_of (emin s e) _ - esize s e).
    pose proof (ecore_enum_modify s e amt) as P. destruct (enum_modify_size s e amt) as [s1 r]. cbn [fst] in P.
    destruct r; cbn [fst]; try (apply sz_ecore; exact P).
    unfold ecore in P. inversion P as [[P1 P2 P3]]. unfold sz, esize. cbn. rewrite P1, P3.
    destruct (kind s y) as [k|e'|c g] eqn:Ky; try reflexivity. rewrite upd_other; [rewrite P2; reflexivity|].
    intros ->. apply Hn. exists e. split; reflexivity.
  - destruct (vmux s u && vsig s x); [|reflexivity]. unfold step_mux_insert.
    destruct (if memb x (unames s u) then false else _); [reflexivity|].
    destruct gids as [|g0 gr].
    + destruct (memb x (usigs s u)); [reflexivity|]. destruct (first_err _ _); [reflexivity|].
      destruct (insert_all (rel s) (ugroups s u) x b). cbn [fst]. same_ecore.
    + destruct (verify_ids s u x b _ _ _ _); [reflexivity|]. destruct (insert_ids (rel s) (ugroups s u) _ x b). cbn [fst]. same_ecore.
  - destruct (vmux s u); [|reflexivity]. unfold step_mux_remove. destruct (negb (memb x (usigs s u))); [reflexivity|].
    destruct (ufixed s u x); [cbn [fst]; same_ecore|]. destruct (ugids s u x); [cbn [fst]; same_ecore|reflexivity].
  - destruct (vmux s u); [|reflexivity]. unfold step_mux_clear_group. destruct (verify_gid s u g); [reflexivity|].
    pose proof (ecore_clear_group_loop (gget s u (Z.to_nat g)) s u g) as P.
    destruct (clear_group_loop s u g (gget s u (Z.to_nat g))) as [s1 p]. cbn [fst] in *. apply sz_ecore. exact P.
  - destruct (vmux s u); [|reflexivity]. unfold step_mux_clear_all. cbn [fst]. apply sz_ecore. unfold ecore. cbn.
    pose proof (ecore_fold_mux_remove (usigs s u) s u) as P. unfold ecore in P. exact P.
  - destruct (vmux s u); [|reflexivity]. unfold step_mux_shift. destruct (ugids s u x) as [ids|]; [|reflexivity].
    destruct ids as [|g [|g2 r]]; try reflexivity. destruct (do_shift_left (sz s) (rel s) (gget s u (Z.to_nat g)) x a). cbn [fst]. same_ecore.
  - destruct (vmux s u); [|reflexivity]. unfold step_mux_shift. destruct (ugids s u x) as [ids|]; [|reflexivity].
    destruct ids as [|g [|g2 r]]; try reflexivity. destruct (do_shift_right (sz s) (rel s) (mux_gsize s u) (gget s u (Z.to_nat g)) x a). cbn [fst]. same_ecore.
  - destruct (vmsg s m); [|reflexivity]. unfold step_resize_bus. destruct (bytes <? 0); [reflexivity|]. destruct (gbytes s m =? bytes); [reflexivity|].
    destruct (2 ^ 60 - 1 <? bytes); [reflexivity|]. destruct (lim <? bytes); [reflexivity|].
    unfold step_resize. destruct (bytes <? 0); [reflexivity|]. destruct (gbytes s m =? bytes); [reflexivity|]. destruct (2 ^ 60 - 1 <? bytes); [reflexivity|].
    destruct (verify_resize (sz s) (rel s) (glsize s m) (glay s m) (bytes * 8)); [reflexivity|]. cbn [fst]. same_ecore.
  - destruct (vsig s x); reflexivity.
Qed.

(* --- positions -------------------------------------------------------------------------------------- *)

(* the signals an operation may move *)
Definition may_move (s : state) (o : op) (y : nat) : Prop :=
  match o with
  | OAppend _ x | OInsert _ x _ | OShiftL _ x _ | OShiftR _ x _
  | OMuxInsert _ x _ _ | OMuxShiftL _ x _ | OMuxShiftR _ x _ => y = x
  | OCompact m => In y (glay s m)
  | OSetType x _ | OSetEnum x _ => exists L, In x (lay s L) /\ In y (lay s L)
  | OAddValue _ _ | OUpdateIndex _ _ => True      (* not characterised here: see NOTES *)
  | _ => False
  end.

Lemma rel_clear_group_loop : forall xs s u g, rel (fst (clear_group_loop s u g xs)) = rel s.
Proof.
  induction xs as [|x r IH]; intros s u g; cbn [clear_group_loop]; [reflexivity|].
  destruct (ufixed s u x); [apply IH|]. set (s1 := set_ugroups _ _).
  destruct (ugids s1 u x) as [ids|]; [|reflexivity]. destruct (length ids =? 1)%nat; rewrite IH; cbn; autorewrite with reg; reflexivity.
Qed.
Lemma rel_fold_mux_remove : forall xs s u, rel (fold_left (fun acc x => mux_remove_signal acc u x) xs s) = rel s.
Proof. induction xs as [|x r IH]; intros s u; cbn [fold_left]; [reflexivity|]. rewrite IH. autorewrite with reg. reflexivity. Qed.

Ltac same_rel := cbn; autorewrite with reg; reflexivity.

Theorem frame_positions_partial : forall s o y, InvA s -> ok_op s o ->
  rel (fst (step s o)) y <> rel s y -> may_move s o y.
Proof.
  intros s o y HA Hop Hy. destruct o; cbn [step may_move ok_op] in *.
  - exfalso. apply Hy. reflexivity.
  - exfalso. apply Hy. destruct (size <? 0); [reflexivity|]. destruct (size =? 0); reflexivity.
  - exfalso. apply Hy. reflexivity.
  - exfalso. apply Hy. destruct (venum s e); reflexivity.
  - exfalso. apply Hy. destruct (count <? 0); [reflexivity|]. destruct (count =? 0); [reflexivity|]. destruct (gsize <? 0); [reflexivity|]. destruct (gsize =? 0); reflexivity.
  - destruct (vmsg s m && vsig s x); [|exfalso; apply Hy; reflexivity]. unfold step_append in Hy. destruct (memb x (gnames s m)); [exfalso; apply Hy; reflexivity|].
    destruct (verify_append (sz s) (rel s) (glsize s m) (glay s m) x); [exfalso; apply Hy; reflexivity|]. cbn [do_append fst] in Hy.
    autorewrite with reg in Hy. cbn in Hy. destruct (Nat.eq_dec y x) as [E|NE]; [exact E|]. exfalso. apply Hy. apply upd_other. exact NE.
  - destruct (vmsg s m && vsig s x); [|exfalso; apply Hy; reflexivity]. unfold step_insert in Hy. destruct (memb x (gnames s m)); [exfalso; apply Hy; reflexivity|].
    destruct (verify_insert (sz s) (rel s) (glsize s m) (glay s m) x b); [exfalso; apply Hy; reflexivity|]. cbn [do_insert fst] in Hy.
    autorewrite with reg in Hy. cbn in Hy. destruct (Nat.eq_dec y x) as [E|NE]; [exact E|]. exfalso. apply Hy. apply upd_other. exact NE.
  - apply Hy. destruct (vmsg s m); [|reflexivity]. unfold step_remove. destruct (negb (memb x (gsigs s m))); [reflexivity|].
    destruct (pmux s x) as [u|]; [|same_rel].
    unfold step_mux_remove. destruct (negb (memb x (usigs s u))); [reflexivity|]. destruct (ufixed s u x); [same_rel|]. destruct (ugids s u x); [same_rel|reflexivity].
  - apply Hy. destruct (vmsg s m); [|reflexivity]. unfold step_remove_all. same_rel.
  - destruct (vmsg s m); [|exfalso; apply Hy; reflexivity]. unfold step_shift in Hy. destruct (negb (memb x (gsigs s m))); [exfalso; apply Hy; reflexivity|].
    destruct (do_shift_left (sz s) (rel s) (glay s m) x a) as [pos d] eqn:E. cbn in Hy.
    assert (Ep : pos = fst (do_shift_left (sz s) (rel s) (glay s m) x a)) by (rewrite E; reflexivity).
    destruct (Nat.eq_dec y x) as [Ex|NE]; [exact Ex|]. exfalso. apply Hy. rewrite Ep. apply do_shift_left_frame. exact NE.
  - destruct (vmsg s m); [|exfalso; apply Hy; reflexivity]. unfold step_shift in Hy. destruct (negb (memb x (gsigs s m))); [exfalso; apply Hy; reflexivity|].
    destruct (do_shift_right (sz s) (rel s) (glsize s m) (glay s m) x a) as [pos d] eqn:E. cbn in Hy.
    assert (Ep : pos = fst (do_shift_right (sz s) (rel s) (glsize s m) (glay s m) x a)) by (rewrite E; reflexivity).
    destruct (Nat.eq_dec y x) as [Ex|NE]; [exact Ex|]. exfalso. apply Hy. rewrite Ep. apply do_shift_right_frame. exact NE.
  - destruct (vmsg s m); [|exfalso; apply Hy; reflexivity]. unfold step_compact in Hy. cbn in Hy.
    destruct (in_dec Nat.eq_dec y (glay s m)) as [Hin|Hn]; [exact Hin|]. exfalso. apply Hy. unfold do_compact. apply compact_from_frame. exact Hn.
  - apply Hy. destruct (vmsg s m); [|reflexivity]. unfold step_resize. destruct (bytes <? 0); [reflexivity|]. destruct (gbytes s m =? bytes); [reflexivity|]. destruct (2 ^ 60 - 1 <? bytes); [reflexivity|].
    destruct (verify_resize (sz s) (rel s) (glsize s m) (glay s m) (bytes * 8)); reflexivity.
  - apply Hy. destruct (vmsg s m); reflexivity.
  - destruct (vsig s x); [|exfalso; apply Hy; reflexivity]. unfold step_set_type in Hy. destruct (kind s x) as [old| |] eqn:Ek; try (exfalso; apply Hy; reflexivity).
    destruct (Z.leb_spec size 0); [exfalso; apply Hy; reflexivity|].
    assert (Eold : sz s x = old) by (unfold sz; rewrite Ek; reflexivity).
    rewrite Eold in Hop.
    pose proof (sig_modify_post0 s x (size - old) HA ltac:(lia) Hop) as P.
    destruct (sig_modify_size s x (size - old)) as [s1 r]. cbn [fst snd] in P. destruct P as [p [-> [_ [_ Pfr]]]].
    destruct (Pfr y ltac:(destruct r; exact Hy)) as (L & A & B & _). exists L. split; assumption.
  - destruct (vsig s x && venum s e); [|exfalso; apply Hy; reflexivity]. unfold step_set_enum in Hy. destruct (kind s x) as [|old|] eqn:Ek; try (exfalso; apply Hy; reflexivity).
    assert (Hnew : 1 <= sz s x + (esize s e - sz s x)).
    { unfold esize. pose proof (esize_of_pos (emin s e) (emax s e) (a_emax s HA e)). lia. }
    pose proof (sig_modify_post0 s x (esize s e - sz s x) HA Hnew Hop) as P.
    destruct (sig_modify_size s x (esize s e - sz s x)) as [s1 r]. cbn [fst snd] in P. destruct P as [p [-> [_ [_ Pfr]]]].
    destruct (Pfr y ltac:(destruct r; exact Hy)) as (L & A & B & _). exists L. split; assumption.
  - exact I.
  - apply Hy. destruct (venum s e); [|reflexivity]. unfold step_remove_value. destruct (negb (memb v (evals s e))); [reflexivity|]. cbn [fst].
    destruct (vidx s v =? emax s e); reflexivity.
  - apply Hy. destruct (venum s e); reflexivity.
  - apply Hy. destruct (venum s e); reflexivity.
  - exact I.
  - destruct (vmux s u && vsig s x); [|exfalso; apply Hy; reflexivity]. unfold step_mux_insert in Hy.
    destruct (if memb x (unames s u) then false else _); [exfalso; apply Hy; reflexivity|].
    destruct (Nat.eq_dec y x) as [Ex|NE]; [exact Ex|]. exfalso. apply Hy.
    destruct gids as [|g0 gr].
    + destruct (memb x (usigs s u)); [reflexivity|]. destruct (first_err _ _); [reflexivity|].
      destruct (insert_all (rel s) (ugroups s u) x b) as [pos gs] eqn:E. cbn [fst]. autorewrite with reg. cbn.
      assert (Ep : pos = fst (insert_all (rel s) (ugroups s u) x b)) by (rewrite E; reflexivity).
      rewrite Ep. destruct (ugroups s u); cbn; [reflexivity|apply upd_other; exact NE].
    + destruct (verify_ids s u x b _ _ _ _); [reflexivity|].
      destruct (insert_ids (rel s) (ugroups s u) (dedup (g0 :: gr) []) x b) as [pos gs] eqn:E. cbn [fst]. autorewrite with reg. cbn.
      assert (Ep : pos = fst (insert_ids (rel s) (ugroups s u) (dedup (g0 :: gr) []) x b)) by (rewrite E; reflexivity).
      rewrite Ep. destruct (dedup (g0 :: gr) []); cbn; [reflexivity|apply upd_other; exact NE].
  - apply Hy. destruct (vmux s u); [|reflexivity]. unfold step_mux_remove. destruct (negb (memb x (usigs s u))); [reflexivity|].
    destruct (ufixed s u x); [same_rel|]. destruct (ugids s u x); [same_rel|reflexivity].
  - apply Hy. destruct (vmux s u); [|reflexivity]. unfold step_mux_clear_group. destruct (verify_gid s u g); [reflexivity|].
    pose proof (rel_clear_group_loop (gget s u (Z.to_nat g)) s u g) as P. destruct (clear_group_loop s u g (gget s u (Z.to_nat g))) as [s1 p]. cbn [fst] in *. rewrite P. reflexivity.
  - apply Hy. destruct (vmux s u); [|reflexivity]. unfold step_mux_clear_all. cbn. rewrite rel_fold_mux_remove. reflexivity.
  - destruct (vmux s u); [|exfalso; apply Hy; reflexivity]. unfold step_mux_shift in Hy. destruct (ugids s u x) as [ids|]; [|exfalso; apply Hy; reflexivity].
    destruct ids as [|g [|g2 r]]; try (exfalso; apply Hy; reflexivity).
    destruct (do_shift_left (sz s) (rel s) (gget s u (Z.to_nat g)) x a) as [pos d] eqn:E. cbn in Hy.
    assert (Ep : pos = fst (do_shift_left (sz s) (rel s) (gget s u (Z.to_nat g)) x a)) by (rewrite E; reflexivity).
    destruct (Nat.eq_dec y x) as [Ex|NE]; [exact Ex|]. exfalso. apply Hy. rewrite Ep. apply do_shift_left_frame. exact NE.
  - destruct (vmux s u); [|exfalso; apply Hy; reflexivity]. unfold step_mux_shift in Hy. destruct (ugids s u x) as [ids|]; [|exfalso; apply Hy; reflexivity].
    destruct ids as [|g [|g2 r]]; try (exfalso; apply Hy; reflexivity).
    destruct (do_shift_right (sz s) (rel s) (mux_gsize s u) (gget s u (Z.to_nat g)) x a) as [pos d] eqn:E. cbn in Hy.
    assert (Ep : pos = fst (do_shift_right (sz s) (rel s) (mux_gsize s u) (gget s u (Z.to_nat g)) x a)) by (rewrite E; reflexivity).
    destruct (Nat.eq_dec y x) as [Ex|NE]; [exact Ex|]. exfalso. apply Hy. rewrite Ep. apply do_shift_right_frame. exact NE.
  - apply Hy. destruct (vmsg s m); [|reflexivity]. unfold step_resize_bus. destruct (bytes <? 0); [reflexivity|]. destruct (gbytes s m =? bytes); [reflexivity|].
    destruct (2 ^ 60 - 1 <? bytes); [reflexivity|]. destruct (lim <? bytes); [reflexivity|].
    unfold step_resize. destruct (bytes <? 0); [reflexivity|]. destruct (gbytes s m =? bytes); [reflexivity|]. destruct (2 ^ 60 - 1 <? bytes); [reflexivity|].
    destruct (verify_resize (sz s) (rel s) (glsize s m) (glay s m) (bytes * 8)); reflexivity.
  - apply Hy. destruct (vsig s x); reflexivity.
Qed.
