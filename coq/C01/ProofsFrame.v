(* C01 — T4 (frame): what an operation does not name keeps its size; positions move only for the
   named signal, by compaction, or in a layout that holds a resized signal. *)
From Coq Require Import ZArith List Bool Arith Lia.
From Acme.C01 Require Import Layout State Model ProofsLayout ProofsInv.
From Acme.C07 Require Import Proofs.
Import ListNotations.
Open Scope Z_scope.

(* --- sizes ------------------------------------------------------------------------------------------ *)

(* the signals whose size an operation may change *)
Definition resized_by (s : state) (o : op) (y : nat) : Prop :=
  match o with
  | OSetType x _ | OSetEnum x _ => y = x
  | OAddValue e _ | ORemoveValue e _ | ORemoveAllValues e | OSetMinSize e _ => kind s y = KEnum e
  | OUpdateIndex v _ => exists e, vpar s v = Some e /\ kind s y = KEnum e
  | ONewStd _ | ONewEnumSig _ | ONewMux _ _ => y = nsig s
  | _ => False
  end.

Definition ecore (s : state) := (kind s, emax s, emin s).

Lemma sz_ecore : forall s s', ecore s' = ecore s -> forall y, sz s' y = sz s y.
Proof. intros s s' E y. unfold ecore in E. inversion E as [[E1 E2 E3]]. unfold sz, esize. rewrite E1, E2, E3. reflexivity. Qed.

Lemma ecore_msg_modify : forall s m x a, ecore (fst (msg_modify_size s m x a)) = ecore s.
Proof.
  intros. unfold msg_modify_size. destruct (a =? 0); [reflexivity|]. destruct (negb (memb x (gsigs s m))); [reflexivity|].
  destruct (if 0 <? a then _ else _) as [e pos]. destruct e; reflexivity.
Qed.
Lemma ecore_mux_modify : forall s u x a, ecore (fst (mux_modify_size s u x a)) = ecore s.
Proof.
  intros. unfold mux_modify_size. destruct (a =? 0); [reflexivity|]. destruct (negb (memb x (usigs s u))); [reflexivity|].
  destruct (mux_verify_size s u x a); try reflexivity. destruct (groups_of s u x) as [gs|]; [|reflexivity].
  rewrite modify_groups_pos. reflexivity.
Qed.
Lemma ecore_sig_modify : forall s x a, ecore (fst (sig_modify_size s x a)) = ecore s.
Proof.
  intros. unfold sig_modify_size. destruct (pmux s x); [apply ecore_mux_modify|]. destruct (pmsg s x); [apply ecore_msg_modify|reflexivity].
Qed.
Lemma ecore_refs_modify : forall refs s a, ecore (fst (refs_modify s refs a)) = ecore s.
Proof.
  induction refs as [|r t IH]; intros s a; cbn [refs_modify]; [reflexivity|].
  pose proof (ecore_sig_modify s r a) as P. destruct (sig_modify_size s r a) as [s' e]. cbn [fst] in *.
  destruct e; try exact P. rewrite IH. exact P.
Qed.
Lemma ecore_enum_modify : forall s e a, ecore (fst (enum_modify_size s e a)) = ecore s.
Proof. intros. unfold enum_modify_size. destruct (a =? 0); [reflexivity|apply ecore_refs_modify]. Qed.

Lemma ecore_clear_group_loop : forall xs s u g, ecore (fst (clear_group_loop s u g xs)) = ecore s.
Proof.
  induction xs as [|x r IH]; intros s u g; cbn [clear_group_loop]; [reflexivity|].
  destruct (ufixed s u x); [apply IH|]. set (s1 := set_ugroups _ _).
  destruct (ugids s1 u x) as [ids|]; [|reflexivity]. destruct (length ids =? 1)%nat; rewrite IH; unfold ecore; cbn; autorewrite with reg; reflexivity.
Qed.
Lemma ecore_fold_mux_remove : forall xs s u, ecore (fold_left (fun acc x => mux_remove_signal acc u x) xs s) = ecore s.
Proof.
  induction xs as [|x r IH]; intros s u; cbn [fold_left]; [reflexivity|]. rewrite IH. unfold ecore. autorewrite with reg. reflexivity.
Qed.

Ltac same_ecore := apply sz_ecore; unfold ecore; cbn; autorewrite with reg; reflexivity.

Theorem frame_sizes : forall s o y, ~ resized_by s o y -> sz (fst (step s o)) y = sz s y.
Proof.
  intros s o y Hn. destruct o; cbn [step resized_by] in *.
  - same_ecore.
  - destruct (size <? 0); [reflexivity|]. destruct (size =? 0); [reflexivity|]. cbn [fst].
    unfold sz, esize. cbn. rewrite upd_other by exact Hn. reflexivity.
  - same_ecore.
  - destruct (venum s e); [|reflexivity]. cbn [fst]. unfold sz, esize. cbn. rewrite upd_other by exact Hn. reflexivity.
  - destruct (count <? 0); [reflexivity|]. destruct (count =? 0); [reflexivity|]. destruct (gsize <? 0); [reflexivity|]. destruct (gsize =? 0); [reflexivity|]. destruct (2 ^ 63 - 65 <? gsize); [reflexivity|].
    cbn [fst]. unfold sz, esize. cbn. rewrite upd_other by exact Hn. reflexivity.
  - destruct (vmsg s m && vsig s x); [|reflexivity]. unfold step_append. destruct (memb x (gnames s m)); [reflexivity|].
    destruct (verify_append (sz s) (rel s) (glsize s m) (glay s m) x); [reflexivity|]. cbn [do_append fst]. same_ecore.
  - destruct (vmsg s m && vsig s x); [|reflexivity]. unfold step_insert. destruct (memb x (gnames s m)); [reflexivity|].
    destruct (verify_insert (sz s) (rel s) (glsize s m) (glay s m) x b); [reflexivity|]. cbn [do_insert fst]. same_ecore.
  - destruct (vmsg s m); [|reflexivity]. unfold step_remove. destruct (negb (memb x (gsigs s m))); [reflexivity|].
    destruct (pmux s x) as [u|].
    + unfold step_mux_remove. destruct (negb (memb x (usigs s u))); [reflexivity|]. destruct (ufixed s u x); [cbn [fst]; same_ecore|].
      destruct (ugids s u x); [cbn [fst]; same_ecore|reflexivity].
    + cbn [fst]. same_ecore.
  - destruct (vmsg s m); [|reflexivity]. unfold step_remove_all. cbn [fst]. same_ecore.
  - destruct (vmsg s m); [|reflexivity]. unfold step_shift. destruct (negb (memb x (gsigs s m))); [reflexivity|].
    destruct (do_shift_left (sz s) (rel s) (glay s m) x a). cbn [fst]. same_ecore.
  - destruct (vmsg s m); [|reflexivity]. unfold step_shift. destruct (negb (memb x (gsigs s m))); [reflexivity|].
    destruct (do_shift_right (sz s) (rel s) (glsize s m) (glay s m) x a). cbn [fst]. same_ecore.
  - destruct (vmsg s m); [|reflexivity]. unfold step_compact. cbn [fst]. same_ecore.
  - destruct (vmsg s m); [|reflexivity]. unfold step_resize. destruct (bytes <? 0); [reflexivity|]. destruct (gbytes s m =? bytes); [reflexivity|]. destruct (2 ^ 60 - 1 <? bytes); [reflexivity|].
    destruct (verify_resize (sz s) (rel s) (glsize s m) (glay s m) (bytes * 8)); [reflexivity|]. cbn [fst]. same_ecore.
  - destruct (vmsg s m); reflexivity.
  - destruct (vsig s x); [|reflexivity]. unfold step_set_type. destruct (kind s x) as [old| |] eqn:Ek; try reflexivity.
    destruct (size <=? 0); [reflexivity|].
    pose proof (ecore_sig_modify s x (size - old)) as P. destruct (sig_modify_size s x (size - old)) as [s1 r]. cbn [fst] in P.
    destruct r; cbn [fst]; try (apply sz_ecore; exact P).
    unfold ecore in P. inversion P as [[P1 P2 P3]]. unfold sz, esize. cbn. rewrite upd_other by exact Hn. rewrite P1, P2, P3. reflexivity.
  - destruct (vsig s x && venum s e); [|reflexivity]. unfold step_set_enum. destruct (kind s x) as [|old|] eqn:Ek; try reflexivity.
    pose proof (ecore_sig_modify s x (esize s e - sz s x)) as P. destruct (sig_modify_size s x (esize s e - sz s x)) as [s1 r]. cbn [fst] in P.
    destruct r; cbn [fst]; try (apply sz_ecore; exact P).
    unfold ecore in P. inversion P as [[P1 P2 P3]]. unfold sz, esize. cbn. rewrite upd_other by exact Hn. rewrite P1, P2, P3. reflexivity.
  - destruct (venum s e); [|reflexivity]. unfold step_add_value. set (s0 := set_nval _ _).
    assert (E0 : forall s', ecore s' = ecore s0 -> sz s' y = sz s y) by (intros s' E; rewrite (sz_ecore s0 s' E); same_ecore).
    destruct (verify_value_index s0 e idx); try (apply E0; reflexivity).
    assert (Hy : forall s', kind s' = kind s -> (forall e', e' <> e -> emax s' e' = emax s e' /\ emin s' e' = emin s e') -> sz s' y = sz s y).
    { intros s' K Eo. unfold sz, esize. rewrite K. destruct (kind s y) as [n|e'|c g] eqn:Ky; try reflexivity.
      destruct (Nat.eq_dec e' e) as [->|NE]; [contradiction|]. destruct (Eo e' NE) as [A B]. rewrite A, B. reflexivity. }
    destruct (emax s0 e <? idx) eqn:El.
    + pose proof (ecore_enum_modify s0 e (esize_of (emin s0 e) idx - esize s0 e)) as P.
      destruct (enum_modify_size s0 e (esize_of (emin s0 e) idx - esize s0 e)) as [s1 r]. cbn [fst] in P.
      destruct r; cbn [fst]; try (apply E0; exact P).
      unfold ecore in P. inversion P as [[P1 P2 P3]].
      apply Hy; [destruct (emax s1 e <? idx); cbn; rewrite P1; reflexivity|].
      intros e' NE. destruct (emax s1 e <? idx); cbn; rewrite ?P2, ?P3; [rewrite upd_other by exact NE|]; split; reflexivity.
    + cbn [fst]. rewrite El. apply E0. reflexivity.
  - destruct (venum s e); [|reflexivity]. unfold step_remove_value. destruct (negb (memb v (evals s e))); [reflexivity|]. cbn [fst].
    unfold sz, esize. destruct (vidx s v =? emax s e); cbn; [|reflexivity].
    destruct (kind s y) as [n|e'|c g] eqn:Ky; try reflexivity. rewrite upd_other; [reflexivity|]. intros ->. contradiction.
  - destruct (venum s e); [|reflexivity]. unfold step_remove_all_values. cbn [fst]. unfold sz, esize. cbn.
    destruct (kind s y) as [n|e'|c g] eqn:Ky; try reflexivity. rewrite upd_other; [reflexivity|]. intros ->. contradiction.
  - destruct (venum s e); [|reflexivity]. cbn [fst]. unfold sz, esize. cbn.
    destruct (kind s y) as [k|e'|c g] eqn:Ky; try reflexivity. rewrite upd_other; [reflexivity|]. intros ->. contradiction.
  - destruct (vval s v); [|reflexivity]. unfold step_update_index. destruct (vidx s v =? idx); [reflexivity|].
    destruct (vpar s v) as [e|] eqn:Evp; [|cbn [fst]; same_ecore].
    destruct (verify_value_index s e idx); try reflexivity.
    set (amt := esize_of (emin s e) _ - esize s e).
    pose proof (ecore_enum_modify s e amt) as P. destruct (enum_modify_size s e amt) as [s1 r]. cbn [fst] in P.
    destruct r; cbn [fst]; try (apply sz_ecore; exact P).
    unfold ecore in P. inversion P as [[P1 P2 P3]]. unfold sz, esize. cbn. rewrite P1, P3.
    destruct (kind s y) as [k|e'|c g] eqn:Ky; try reflexivity. rewrite upd_other; [rewrite P2; reflexivity|].
    intros ->. apply Hn. exists e. split; reflexivity.
  - destruct (vmux s u && vsig s x); [|reflexivity]. unfold step_mux_insert.
    destruct (if memb x (unames s u) then false else _); [reflexivity|].
    destruct gids as [|g0 gr].
    + destruct (memb x (usigs s u)); [reflexivity|]. destruct (first_err _ _); [reflexivity|].
      destruct (insert_all (rel s) (ugroups s u) x b). cbn [fst]. same_ecore.
    + destruct (verify_ids s u x b _ _ _ _); [reflexivity|]. destruct (insert_ids (rel s) (ugroups s u) _ x b). cbn [fst]. same_ecore.
  - destruct (vmux s u); [|reflexivity]. unfold step_mux_remove. destruct (negb (memb x (usigs s u))); [reflexivity|].
    destruct (ufixed s u x); [cbn [fst]; same_ecore|]. destruct (ugids s u x); [cbn [fst]; same_ecore|reflexivity].
  - destruct (vmux s u); [|reflexivity]. unfold step_mux_clear_group. destruct (verify_gid s u g); [reflexivity|].
    pose proof (ecore_clear_group_loop (gget s u (Z.to_nat g)) s u g) as P.
    destruct (clear_group_loop s u g (gget s u (Z.to_nat g))) as [s1 p]. cbn [fst] in *. apply sz_ecore. exact P.
  - destruct (vmux s u); [|reflexivity]. unfold step_mux_clear_all. cbn [fst]. apply sz_ecore. unfold ecore. cbn.
    pose proof (ecore_fold_mux_remove (usigs s u) s u) as P. unfold ecore in P. exact P.
  - destruct (vmux s u); [|reflexivity]. unfold step_mux_shift. destruct (ugids s u x) as [ids|]; [|reflexivity].
    destruct ids as [|g [|g2 r]]; try reflexivity. destruct (do_shift_left (sz s) (rel s) (gget s u (Z.to_nat g)) x a). cbn [fst]. same_ecore.
  - destruct (vmux s u); [|reflexivity]. unfold step_mux_shift. destruct (ugids s u x) as [ids|]; [|reflexivity].
    destruct ids as [|g [|g2 r]]; try reflexivity. destruct (do_shift_right (sz s) (rel s) (mux_gsize s u) (gget s u (Z.to_nat g)) x a). cbn [fst]. same_ecore.
  - destruct (vmsg s m); [|reflexivity]. unfold step_resize_bus. destruct (bytes <? 0); [reflexivity|]. destruct (gbytes s m =? bytes); [reflexivity|].
    destruct (2 ^ 60 - 1 <? bytes); [reflexivity|]. destruct (lim <? bytes); [reflexivity|].
    unfold step_resize. destruct (bytes <? 0); [reflexivity|]. destruct (gbytes s m =? bytes); [reflexivity|]. destruct (2 ^ 60 - 1 <? bytes); [reflexivity|].
    destruct (verify_resize (sz s) (rel s) (glsize s m) (glay s m) (bytes * 8)); [reflexivity|]. cbn [fst]. same_ecore.
  - destruct (vsig s x); reflexivity.
Qed.

(* --- positions -------------------------------------------------------------------------------------- *)

(* the signals an operation may move *)
Definition may_move (s : state) (o : op) (y : nat) : Prop :=
  match o with
  | OAppend _ x | OInsert _ x _ | OShiftL _ x _ | OShiftR _ x _
  | OMuxInsert _ x _ _ | OMuxShiftL _ x _ | OMuxShiftR _ x _ => y = x
  | OCompact m => In y (glay s m)
  (* a size change moves exactly candidates of [moved_in]: in a layout holding x, every follower on
     shrink, the followers the push reaches on growth *)
  | OSetType x n => exists L, In y (moved_in (sz s) (rel s) (lay s L) x (n - sz s x))
  | OSetEnum x e => exists L, In y (moved_in (sz s) (rel s) (lay s L) x (esize s e - sz s x))
  | OAddValue e idx =>
      exists x L, In x (erefs s e) /\ In y (moved_in (sz s) (rel s) (lay s L) x (esize_of (emin s e) idx - esize s e))
  | OUpdateIndex v idx =>
      exists e x L, vpar s v = Some e /\ In x (erefs s e)
        /\ In y (moved_in (sz s) (rel s) (lay s L) x
                   (esize_of (emin s e) (Z.max (Z.max 0 idx) (max_index s (lrem v (evals s e)))) - esize s e))
  | _ => False
  end.

Lemma rel_clear_group_loop : forall xs s u g, rel (fst (clear_group_loop s u g xs)) = rel s.
Proof.
  induction xs as [|x r IH]; intros s u g; cbn [clear_group_loop]; [reflexivity|].
  destruct (ufixed s u x); [apply IH|]. set (s1 := set_ugroups _ _).
  destruct (ugids s1 u x) as [ids|]; [|reflexivity]. destruct (length ids =? 1)%nat; rewrite IH; cbn; autorewrite with reg; reflexivity.
Qed.
Lemma rel_fold_mux_remove : forall xs s u, rel (fold_left (fun acc x => mux_remove_signal acc u x) xs s) = rel s.
Proof. induction xs as [|x r IH]; intros s u; cbn [fold_left]; [reflexivity|]. rewrite IH. autorewrite with reg. reflexivity. Qed.

Ltac same_rel := cbn; autorewrite with reg; reflexivity.

Theorem frame_positions : forall s o y, InvA s -> ok_op s o ->
  rel (fst (step s o)) y <> rel s y -> may_move s o y.
Proof.
  intros s o y HA Hop Hy. destruct o; cbn [step may_move ok_op] in *.
  - exfalso. apply Hy. reflexivity.
  - exfalso. apply Hy. destruct (size <? 0); [reflexivity|]. destruct (size =? 0); reflexivity.
  - exfalso. apply Hy. reflexivity.
  - exfalso. apply Hy. destruct (venum s e); reflexivity.
  - exfalso. apply Hy. destruct (count <? 0); [reflexivity|]. destruct (count =? 0); [reflexivity|]. destruct (gsize <? 0); [reflexivity|]. destruct (gsize =? 0); [reflexivity|]. destruct (2 ^ 63 - 65 <? gsize); reflexivity.
  - destruct (vmsg s m && vsig s x); [|exfalso; apply Hy; reflexivity]. unfold step_append in Hy. destruct (memb x (gnames s m)); [exfalso; apply Hy; reflexivity|].
    destruct (verify_append (sz s) (rel s) (glsize s m) (glay s m) x); [exfalso; apply Hy; reflexivity|]. cbn [do_append fst] in Hy.
    autorewrite with reg in Hy. cbn in Hy. destruct (Nat.eq_dec y x) as [E|NE]; [exact E|]. exfalso. apply Hy. apply upd_other. exact NE.
  - destruct (vmsg s m && vsig s x); [|exfalso; apply Hy; reflexivity]. unfold step_insert in Hy. destruct (memb x (gnames s m)); [exfalso; apply Hy; reflexivity|].
    destruct (verify_insert (sz s) (rel s) (glsize s m) (glay s m) x b); [exfalso; apply Hy; reflexivity|]. cbn [do_insert fst] in Hy.
    autorewrite with reg in Hy. cbn in Hy. destruct (Nat.eq_dec y x) as [E|NE]; [exact E|]. exfalso. apply Hy. apply upd_other. exact NE.
  - apply Hy. destruct (vmsg s m); [|reflexivity]. unfold step_remove. destruct (negb (memb x (gsigs s m))); [reflexivity|].
    destruct (pmux s x) as [u|]; [|same_rel].
    unfold step_mux_remove. destruct (negb (memb x (usigs s u))); [reflexivity|]. destruct (ufixed s u x); [same_rel|]. destruct (ugids s u x); [same_rel|reflexivity].
  - apply Hy. destruct (vmsg s m); [|reflexivity]. unfold step_remove_all. same_rel.
  - destruct (vmsg s m); [|exfalso; apply Hy; reflexivity]. unfold step_shift in Hy. destruct (negb (memb x (gsigs s m))); [exfalso; apply Hy; reflexivity|].
    destruct (do_shift_left (sz s) (rel s) (glay s m) x a) as [pos d] eqn:E. cbn in Hy.
    assert (Ep : pos = fst (do_shift_left (sz s) (rel s) (glay s m) x a)) by (rewrite E; reflexivity).
    destruct (Nat.eq_dec y x) as [Ex|NE]; [exact Ex|]. exfalso. apply Hy. rewrite Ep. apply do_shift_left_frame. exact NE.
  - destruct (vmsg s m); [|exfalso; apply Hy; reflexivity]. unfold step_shift in Hy. destruct (negb (memb x (gsigs s m))); [exfalso; apply Hy; reflexivity|].
    destruct (do_shift_right (sz s) (rel s) (glsize s m) (glay s m) x a) as [pos d] eqn:E. cbn in Hy.
    assert (Ep : pos = fst (do_shift_right (sz s) (rel s) (glsize s m) (glay s m) x a)) by (rewrite E; reflexivity).
    destruct (Nat.eq_dec y x) as [Ex|NE]; [exact Ex|]. exfalso. apply Hy. rewrite Ep. apply do_shift_right_frame. exact NE.
  - destruct (vmsg s m); [|exfalso; apply Hy; reflexivity]. unfold step_compact in Hy. cbn in Hy.
    destruct (in_dec Nat.eq_dec y (glay s m)) as [Hin|Hn]; [exact Hin|]. exfalso. apply Hy. unfold do_compact. apply compact_from_frame. exact Hn.
  - apply Hy. destruct (vmsg s m); [|reflexivity]. unfold step_resize. destruct (bytes <? 0); [reflexivity|]. destruct (gbytes s m =? bytes); [reflexivity|]. destruct (2 ^ 60 - 1 <? bytes); [reflexivity|].
    destruct (verify_resize (sz s) (rel s) (glsize s m) (glay s m) (bytes * 8)); reflexivity.
  - apply Hy. destruct (vmsg s m); reflexivity.
  - destruct (vsig s x); [|exfalso; apply Hy; reflexivity]. unfold step_set_type in Hy. destruct (kind s x) as [old| |] eqn:Ek; try (exfalso; apply Hy; reflexivity).
    destruct (Z.leb_spec size 0); [exfalso; apply Hy; reflexivity|].
    assert (Eold : sz s x = old) by (unfold sz; rewrite Ek; reflexivity).
    rewrite Eold in Hop.
    pose proof (sig_modify_post0 s x (size - old) HA ltac:(lia) Hop) as P.
    destruct (sig_modify_size s x (size - old)) as [s1 r]. cbn [fst snd] in P. destruct P as [p [-> [_ [_ Pfr]]]].
    destruct (Pfr y ltac:(destruct r; exact Hy)) as (L & A & _). exists L. rewrite Eold. exact A.
  - destruct (vsig s x && venum s e); [|exfalso; apply Hy; reflexivity]. unfold step_set_enum in Hy. destruct (kind s x) as [|old|] eqn:Ek; try (exfalso; apply Hy; reflexivity).
    assert (Hnew : 1 <= sz s x + (esize s e - sz s x)).
    { unfold esize. pose proof (esize_of_pos (emin s e) (emax s e) (a_emax s HA e)). lia. }
    pose proof (sig_modify_post0 s x (esize s e - sz s x) HA Hnew Hop) as P.
    destruct (sig_modify_size s x (esize s e - sz s x)) as [s1 r]. cbn [fst snd] in P. destruct P as [p [-> [_ [_ Pfr]]]].
    destruct (Pfr y ltac:(destruct r; exact Hy)) as (L & A & _). exists L. exact A.
  - (* AddValue *)
    destruct (venum s e); [|exfalso; apply Hy; reflexivity]. unfold step_add_value in Hy.
    set (v := nval s) in *.
    set (s0 := set_nval (set_vpar (set_vidx s (upd (vidx s) v idx)) (upd (vpar s) v None)) (S v)) in *.
    assert (H0 : InvA s0) by (apply InvA_alloc_val; exact HA).
    destruct (verify_value_index s0 e idx); try (exfalso; apply Hy; reflexivity).
    change (emax s0 e) with (emax s e) in Hy. change (emin s0 e) with (emin s e) in Hy. change (esize s0 e) with (esize s e) in Hy.
    set (amt := esize_of (emin s e) idx - esize s e) in *.
    destruct (Z.ltb_spec (emax s e) idx) as [Hlt|Hge].
    2:{ exfalso. apply Hy. cbn. destruct (emax s e <? idx); reflexivity. }
    destruct (Z.eq_dec amt 0) as [E0|Ne].
    { exfalso. apply Hy. rewrite E0. unfold enum_modify_size. cbn. destruct (emax s e <? idx); reflexivity. }
    assert (Hnew : 1 <= esize s0 e + amt).
    { unfold amt. change (esize s0 e) with (esize s e). pose proof (esize_of_pos (emin s e) idx ltac:(pose proof (a_emax s HA e); lia)). lia. }
    destruct (enum_modify_post s0 e amt H0 Hnew ltac:(apply Hop; [exact Hlt|unfold amt in Ne; lia])) as (p & E1 & _ & _ & Mw & _).
    destruct (enum_modify_size s0 e amt) as [s1 r]. cbn [fst] in E1. subst s1.
    assert (Ey : p y <> rel s y).
    { intros C. apply Hy. rewrite <- C. destruct r; cbn; try reflexivity. destruct (emax s e <? idx); reflexivity. }
    destruct (Mw y Ey) as (d & L & Hd & Hmv & _). exists d, L. split; [exact Hd|exact Hmv].
  - apply Hy. destruct (venum s e); [|reflexivity]. unfold step_remove_value. destruct (negb (memb v (evals s e))); [reflexivity|]. cbn [fst].
    destruct (vidx s v =? emax s e); reflexivity.
  - apply Hy. destruct (venum s e); reflexivity.
  - apply Hy. destruct (venum s e); reflexivity.
  - (* UpdateIndex *)
    destruct (vval s v); [|exfalso; apply Hy; reflexivity]. unfold step_update_index in Hy.
    destruct (vidx s v =? idx); [exfalso; apply Hy; reflexivity|].
    destruct (vpar s v) as [e|] eqn:Evp; [|exfalso; apply Hy; reflexivity].
    destruct (verify_value_index s e idx); try (exfalso; apply Hy; reflexivity).
    set (newmax := Z.max (Z.max 0 idx) (max_index s (lrem v (evals s e)))) in *.
    set (amt := esize_of (emin s e) newmax - esize s e) in *.
    assert (Hnm : 0 <= newmax) by (unfold newmax; lia).
    assert (Hnew : 1 <= esize s e + amt).
    { unfold amt. pose proof (esize_of_pos (emin s e) newmax Hnm). lia. }
    destruct (Z.eq_dec amt 0) as [E0|Ne].
    { exfalso. apply Hy. rewrite E0. unfold enum_modify_size. cbn. reflexivity. }
    destruct (enum_modify_post s e amt HA Hnew ltac:(apply (Hop e eq_refl); fold newmax; unfold amt in Ne; lia)) as (p & E1 & _ & _ & Mw & _).
    destruct (enum_modify_size s e amt) as [s1 r]. cbn [fst] in E1. subst s1.
    assert (Ey : p y <> rel s y).
    { intros C. apply Hy. rewrite <- C. destruct r; cbn; reflexivity. }
    destruct (Mw y Ey) as (d & L & Hd & Hmv & _). exists e, d, L. split; [reflexivity|split; [exact Hd|exact Hmv]].
  - destruct (vmux s u && vsig s x); [|exfalso; apply Hy; reflexivity]. unfold step_mux_insert in Hy.
    destruct (if memb x (unames s u) then false else _); [exfalso; apply Hy; reflexivity|].
    destruct (Nat.eq_dec y x) as [Ex|NE]; [exact Ex|]. exfalso. apply Hy.
    destruct gids as [|g0 gr].
    + destruct (memb x (usigs s u)); [reflexivity|]. destruct (first_err _ _); [reflexivity|].
      destruct (insert_all (rel s) (ugroups s u) x b) as [pos gs] eqn:E. cbn [fst]. autorewrite with reg. cbn.
      assert (Ep : pos = fst (insert_all (rel s) (ugroups s u) x b)) by (rewrite E; reflexivity).
      rewrite Ep. destruct (ugroups s u); cbn; [reflexivity|apply upd_other; exact NE].
    + destruct (verify_ids s u x b _ _ _ _); [reflexivity|].
      destruct (insert_ids (rel s) (ugroups s u) (dedup (g0 :: gr) []) x b) as [pos gs] eqn:E. cbn [fst]. autorewrite with reg. cbn.
      assert (Ep : pos = fst (insert_ids (rel s) (ugroups s u) (dedup (g0 :: gr) []) x b)) by (rewrite E; reflexivity).
      rewrite Ep. destruct (dedup (g0 :: gr) []); cbn; [reflexivity|apply upd_other; exact NE].
  - apply Hy. destruct (vmux s u); [|reflexivity]. unfold step_mux_remove. destruct (negb (memb x (usigs s u))); [reflexivity|].
    destruct (ufixed s u x); [same_rel|]. destruct (ugids s u x); [same_rel|reflexivity].
  - apply Hy. destruct (vmux s u); [|reflexivity]. unfold step_mux_clear_group. destruct (verify_gid s u g); [reflexivity|].
    pose proof (rel_clear_group_loop (gget s u (Z.to_nat g)) s u g) as P. destruct (clear_group_loop s u g (gget s u (Z.to_nat g))) as [s1 p]. cbn [fst] in *. rewrite P. reflexivity.
  - apply Hy. destruct (vmux s u); [|reflexivity]. unfold step_mux_clear_all. cbn. rewrite rel_fold_mux_remove. reflexivity.
  - destruct (vmux s u); [|exfalso; apply Hy; reflexivity]. unfold step_mux_shift in Hy. destruct (ugids s u x) as [ids|]; [|exfalso; apply Hy; reflexivity].
    destruct ids as [|g [|g2 r]]; try (exfalso; apply Hy; reflexivity).
    destruct (do_shift_left (sz s) (rel s) (gget s u (Z.to_nat g)) x a) as [pos d] eqn:E. cbn in Hy.
    assert (Ep : pos = fst (do_shift_left (sz s) (rel s) (gget s u (Z.to_nat g)) x a)) by (rewrite E; reflexivity).
    destruct (Nat.eq_dec y x) as [Ex|NE]; [exact Ex|]. exfalso. apply Hy. rewrite Ep. apply do_shift_left_frame. exact NE.
  - destruct (vmux s u); [|exfalso; apply Hy; reflexivity]. unfold step_mux_shift in Hy. destruct (ugids s u x) as [ids|]; [|exfalso; apply Hy; reflexivity].
    destruct ids as [|g [|g2 r]]; try (exfalso; apply Hy; reflexivity).
    destruct (do_shift_right (sz s) (rel s) (mux_gsize s u) (gget s u (Z.to_nat g)) x a) as [pos d] eqn:E. cbn in Hy.
    assert (Ep : pos = fst (do_shift_right (sz s) (rel s) (mux_gsize s u) (gget s u (Z.to_nat g)) x a)) by (rewrite E; reflexivity).
    destruct (Nat.eq_dec y x) as [Ex|NE]; [exact Ex|]. exfalso. apply Hy. rewrite Ep. apply do_shift_right_frame. exact NE.
  - apply Hy. destruct (vmsg s m); [|reflexivity]. unfold step_resize_bus. destruct (bytes <? 0); [reflexivity|]. destruct (gbytes s m =? bytes); [reflexivity|].
    destruct (2 ^ 60 - 1 <? bytes); [reflexivity|]. destruct (lim <? bytes); [reflexivity|].
    unfold step_resize. destruct (bytes <? 0); [reflexivity|]. destruct (gbytes s m =? bytes); [reflexivity|]. destruct (2 ^ 60 - 1 <? bytes); [reflexivity|].
    destruct (verify_resize (sz s) (rel s) (glsize s m) (glay s m) (bytes * 8)); reflexivity.
  - apply Hy. destruct (vsig s x); reflexivity.
Qed.

(* --- relative order ------------------------------------------------------------------------------------ *)

(* y occurs before z in the list *)
Fixpoint before (l : list nat) (y z : nat) : Prop :=
  match l with
  | [] => False
  | t :: r => (t = y /\ In z r) \/ before r y z
  end.

Lemma before_total : forall l y z, In y l -> In z l -> y <> z -> before l y z \/ before l z y.
Proof.
  induction l as [|t r IH]; intros y z Hy Hz Hne; [contradiction|]. cbn [before].
  destruct Hy as [->|Hy]; destruct Hz as [->|Hz].
  - congruence.
  - left. left. split; [reflexivity|exact Hz].
  - right. left. split; [reflexivity|exact Hy].
  - destruct (IH y z Hy Hz Hne) as [A|A]; [left; right; exact A|right; right; exact A].
Qed.

Lemma ok_before : forall pos len l lo size y z, ok pos len lo size l -> before l y z -> pos y < pos z.
Proof.
  induction l as [|t r IH]; intros lo size y z H Hb; [contradiction|]. cbn [ok] in H. destruct H as (H1 & H2 & H3 & H4).
  destruct Hb as [[-> Hz]|Hb]; [|eapply IH; eauto].
  pose proof (ok_In _ _ _ _ _ _ H4 Hz). lia.
Qed.

(* in a well-formed layout the order of the positions is the order of the list *)
Lemma ok_order : forall pos len l lo size y z, ok pos len lo size l -> In y l -> In z l ->
  (pos y < pos z <-> before l y z).
Proof.
  intros * H Hy Hz. split; [|apply (ok_before _ _ _ _ _ _ _ H)].
  intros Hlt. destruct (Nat.eq_dec y z) as [->|Hne]; [lia|].
  destruct (before_total l y z Hy Hz Hne) as [A|A]; [exact A|]. pose proof (ok_before _ _ _ _ _ _ _ H A). lia.
Qed.

(* the lists of the layouts *)
Definition lists (s : state) := (glay s, ugroups s).

Lemma lay_lists : forall s s', lists s' = lists s -> forall L, lay s' L = lay s L.
Proof. intros s s' E [m|u g]; unfold lists in E; inversion E as [[E1 E2]]; cbn [lay]; unfold gget; rewrite ?E1, ?E2; reflexivity. Qed.

Lemma lists_msg_modify : forall s m x a, lists (fst (msg_modify_size s m x a)) = lists s.
Proof.
  intros. unfold msg_modify_size. destruct (a =? 0); [reflexivity|]. destruct (negb (memb x (gsigs s m))); [reflexivity|].
  destruct (if 0 <? a then _ else _) as [e pos]. destruct e; reflexivity.
Qed.
Lemma lists_mux_modify : forall s u x a, lists (fst (mux_modify_size s u x a)) = lists s.
Proof.
  intros. unfold mux_modify_size. destruct (a =? 0); [reflexivity|]. destruct (negb (memb x (usigs s u))); [reflexivity|].
  destruct (mux_verify_size s u x a); try reflexivity. destruct (groups_of s u x) as [gs|]; [|reflexivity].
  rewrite modify_groups_pos. reflexivity.
Qed.
Lemma lists_sig_modify : forall s x a, lists (fst (sig_modify_size s x a)) = lists s.
Proof.
  intros. unfold sig_modify_size. destruct (pmux s x); [apply lists_mux_modify|]. destruct (pmsg s x); [apply lists_msg_modify|reflexivity].
Qed.
Lemma lists_refs_modify : forall refs s a, lists (fst (refs_modify s refs a)) = lists s.
Proof.
  induction refs as [|r t IH]; intros s a; cbn [refs_modify]; [reflexivity|].
  pose proof (lists_sig_modify s r a) as P. destruct (sig_modify_size s r a) as [s' e]. cbn [fst] in *.
  destruct e; try exact P. rewrite IH. exact P.
Qed.
Lemma lists_enum_modify : forall s e a, lists (fst (enum_modify_size s e a)) = lists s.
Proof. intros. unfold enum_modify_size. destruct (a =? 0); [reflexivity|apply lists_refs_modify]. Qed.

(* the operations that move signals without attaching or detaching any keep every list *)
Definition keeps_lists (o : op) : bool :=
  match o with
  | OShiftL _ _ _ | OShiftR _ _ _ | OCompact _ | OSetType _ _ | OSetEnum _ _ | OAddValue _ _ | OUpdateIndex _ _
  | OMuxShiftL _ _ _ | OMuxShiftR _ _ _ => true
  | _ => false
  end.

Lemma keeps_lists_spec : forall s o, keeps_lists o = true -> lists (fst (step s o)) = lists s.
Proof.
  intros s o Hk. destruct o; try discriminate; cbn [step].
  - destruct (vmsg s m); [|reflexivity]. unfold step_shift. destruct (negb (memb x (gsigs s m))); [reflexivity|].
    destruct (do_shift_left (sz s) (rel s) (glay s m) x a). reflexivity.
  - destruct (vmsg s m); [|reflexivity]. unfold step_shift. destruct (negb (memb x (gsigs s m))); [reflexivity|].
    destruct (do_shift_right (sz s) (rel s) (glsize s m) (glay s m) x a). reflexivity.
  - destruct (vmsg s m); reflexivity.
  - destruct (vsig s x); [|reflexivity]. unfold step_set_type. destruct (kind s x); try reflexivity. destruct (size <=? 0); [reflexivity|].
    pose proof (lists_sig_modify s x (size - n)) as P. destruct (sig_modify_size s x (size - n)) as [s1 r]. cbn [fst] in P.
    destruct r; exact P.
  - destruct (vsig s x && venum s e); [|reflexivity]. unfold step_set_enum. destruct (kind s x); try reflexivity.
    pose proof (lists_sig_modify s x (esize s e - sz s x)) as P. destruct (sig_modify_size s x (esize s e - sz s x)) as [s1 r]. cbn [fst] in P.
    destruct r; exact P.
  - destruct (venum s e); [|reflexivity]. unfold step_add_value. set (s0 := set_nval _ _).
    destruct (verify_value_index s0 e idx); try reflexivity.
    destruct (emax s0 e <? idx) eqn:El.
    + pose proof (lists_enum_modify s0 e (esize_of (emin s0 e) idx - esize s0 e)) as P.
      destruct (enum_modify_size s0 e (esize_of (emin s0 e) idx - esize s0 e)) as [s1 r]. cbn [fst] in P.
      destruct r; try exact P. cbn [fst]. unfold lists in *. destruct (emax s1 e <? idx); cbn; exact P.
    + cbn [fst]. rewrite El. reflexivity.
  - destruct (vval s v); [|reflexivity]. unfold step_update_index. destruct (vidx s v =? idx); [reflexivity|].
    destruct (vpar s v) as [e|]; [|reflexivity]. destruct (verify_value_index s e idx); try reflexivity.
    set (amt := esize_of (emin s e) _ - esize s e).
    pose proof (lists_enum_modify s e amt) as P. destruct (enum_modify_size s e amt) as [s1 r]. cbn [fst] in P.
    destruct r; exact P.
  - destruct (vmux s u); [|reflexivity]. unfold step_mux_shift. destruct (ugids s u x) as [ids|]; [|reflexivity].
    destruct ids as [|g [|g2 r]]; try reflexivity. destruct (do_shift_left (sz s) (rel s) (gget s u (Z.to_nat g)) x a). reflexivity.
  - destruct (vmux s u); [|reflexivity]. unfold step_mux_shift. destruct (ugids s u x) as [ids|]; [|reflexivity].
    destruct ids as [|g [|g2 r]]; try reflexivity. destruct (do_shift_right (sz s) (rel s) (mux_gsize s u) (gget s u (Z.to_nat g)) x a). reflexivity.
Qed.

(* inserting into further groups of its multiplexer leaves the signal where it is *)
Lemma mux_insert_rel_attached : forall s u x b gids, ok_op s (OMuxInsert u x b gids) -> attached s x ->
  rel (fst (step_mux_insert s u x b gids)) x = rel s x.
Proof.
  intros s u x b gids Hop Hat. cbn [ok_op] in Hop. destruct Hop as [NA|[P _]]; [contradiction|].
  unfold step_mux_insert.
  destruct (if memb x (unames s u) then false else _); [reflexivity|].
  destruct gids as [|g0 gr].
  - rewrite P. reflexivity.
  - set (ids := dedup (g0 :: gr) []). rewrite P.
    destruct (verify_ids s u x b true (ufixed s u x) _ ids) eqn:Ev; [reflexivity|].
    assert (Hne : ids <> []) by (unfold ids; cbn [dedup membZ existsb]; discriminate).
    destruct (insert_ids (rel s) (ugroups s u) ids x b) as [pos gs] eqn:Ei. cbn [fst]. autorewrite with reg. cbn.
    assert (Epos : pos = fst (insert_ids (rel s) (ugroups s u) ids x b)) by (rewrite Ei; reflexivity).
    rewrite ins_ids_pos in Epos by exact Hne. subst pos. rewrite upd_same.
    unfold verify_ids in Ev. pose proof (first_err_none _ _ Ev) as Hall. cbn beta in Hall.
    destruct ids as [|g1 r1]; [congruence|]. specialize (Hall g1 (or_introl eq_refl)).
    destruct (verify_gid s u g1); [discriminate|]. destruct (ufixed s u x || membZ g1 _); [discriminate|]. cbn [andb] in Hall.
    destruct (Z.eqb_spec b (rel s x)); [assumption|discriminate].
Qed.

(* T4, relative order: two signals that are in a layout before and after an operation keep their order *)
Theorem frame_order : forall s o L y z, InvA s -> ok_op s o ->
  In y (lay s L) -> In z (lay s L) -> In y (lay (fst (step s o)) L) -> In z (lay (fst (step s o)) L) ->
  (rel s y < rel s z <-> rel (fst (step s o)) y < rel (fst (step s o)) z).
Proof.
  intros s o L y z HA Hop Hy Hz Hy' Hz'.
  destruct (keeps_lists o) eqn:Hk.
  - (* the lists are the same: the order of the positions is the order of the list in both states *)
    pose proof (inv_step s o HA Hop) as HA'. pose proof (lay_lists s _ (keeps_lists_spec s o Hk) L) as El.
    pose proof (a_ok s HA L) as Hok. pose proof (a_ok _ HA' L) as Hok'. rewrite El in Hok', Hy', Hz'.
    rewrite (ok_order _ _ _ _ _ y z Hok Hy Hz). rewrite (ok_order _ _ _ _ _ y z Hok' Hy' Hz'). reflexivity.
  - (* no signal of the layout moves *)
    assert (Hsame : forall t, In t (lay s L) -> In t (lay (fst (step s o)) L) -> rel (fst (step s o)) t = rel s t).
    { intros t Ht Ht'. destruct (Z.eq_dec (rel (fst (step s o)) t) (rel s t)) as [E|NE]; [exact E|]. exfalso.
      pose proof (frame_positions s o t HA Hop NE) as M.
      assert (Hatt : attached s t) by (exists L; exact Ht).
      destruct o; try discriminate; cbn [may_move ok_op] in M, Hop; try contradiction.
      - subst t. contradiction.
      - subst t. contradiction.
      - subst t. apply NE. cbn [step]. destruct (vmux s u && vsig s x); [|reflexivity].
        apply mux_insert_rel_attached; assumption. }
    rewrite (Hsame y Hy Hy'), (Hsame z Hz Hz'). reflexivity.
Qed.
