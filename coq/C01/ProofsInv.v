(* C01/C07 — the layout invariant of the state machine and its preservation by every operation
   (T1 layout_wf_reachable, C07 groups_wf). *)
From Coq Require Import ZArith List Bool Arith Lia.
From Coq Require Import ZifyBool ZifyNat.
From Acme.C01 Require Import Layout State Model ProofsLayout.
Import ListNotations.
Open Scope Z_scope.

(* ---------------------------------------------------------------------------------------- *)
(* layouts of a state: message layouts and multiplexer groups                                 *)
(* ---------------------------------------------------------------------------------------- *)

Inductive lid := LM (m : nat) | LG (u g : nat).

Definition lay (s : state) (L : lid) : list nat :=
  match L with LM m => glay s m | LG u g => gget s u g end.
Definition lsz (s : state) (L : lid) : Z :=
  match L with LM m => glsize s m | LG u g => mux_gsize s u end.
(* a signal may sit in several groups of one multiplexer, never in two containers *)
Definition same_cont (L L' : lid) : Prop :=
  match L, L' with
  | LM m, LM m' => m = m'
  | LG u _, LG u' _ => u = u'
  | _, _ => False
  end.
Definition attached (s : state) (x : nat) : Prop := exists L, In x (lay s L).

Lemma classic_lid : forall L L' : lid, L = L' \/ L <> L'.
Proof.
  intros [m|u g] [m'|u' g']; try (right; discriminate).
  - destruct (Nat.eq_dec m m') as [->|NE]; [left; reflexivity|right; congruence].
  - destruct (Nat.eq_dec u u') as [->|NE]; [|right; congruence].
    destruct (Nat.eq_dec g g') as [->|NE]; [left; reflexivity|right; congruence].
Qed.

Record InvA (s : state) : Prop := {
  a_ok : forall L, ok (rel s) (sz s) 0 (lsz s L) (lay s L);
  a_lsize : forall m, glsize s m = gbytes s m * 8;
  a_excl : forall L L' x, In x (lay s L) -> In x (lay s L') -> same_cont L L';
  a_emax : forall e, 0 <= emax s e;
  a_alloc : forall L x, In x (lay s L) -> (x < nsig s)%nat;
  a_unalloc : forall u, (nsig s <= u)%nat -> ugroups s u = [];
  a_munalloc : forall m, (nmsg s <= m)%nat -> glay s m = [];
  a_refs : forall x e, (x < nsig s)%nat -> kind s x = KEnum e -> In x (erefs s e);
  a_refs2 : forall x e, In x (erefs s e) -> kind s x = KEnum e /\ (x < nsig s)%nat;
  a_refs_nd : forall e, NoDup (erefs s e);
  a_vals : forall e v, In v (evals s e) -> vpar s v = Some e /\ vidx s v <= emax s e /\ (v < nval s)%nat;
  a_size : forall x, 1 <= sz s x
}.

(* ---------------------------------------------------------------------------------------- *)
(* small facts                                                                               *)
(* ---------------------------------------------------------------------------------------- *)

Lemma memb_In : forall x l, memb x l = true <-> In x l.
Proof.
  intros. unfold memb. rewrite existsb_exists. split.
  - intros [y [Hy E]]. apply Nat.eqb_eq in E. subst. exact Hy.
  - intros H. exists x. split; [exact H|apply Nat.eqb_refl].
Qed.

Lemma ladd_In : forall x l y, In y (ladd x l) <-> y = x \/ In y l.
Proof.
  intros. unfold ladd. destruct (memb x l) eqn:E.
  - apply memb_In in E. split; [auto|intros [->|?]; assumption].
  - cbn [In]. intuition.
Qed.

Lemma ladd_NoDup : forall x l, NoDup l -> NoDup (ladd x l).
Proof.
  intros x l H. unfold ladd. destruct (memb x l) eqn:E; [exact H|].
  constructor; [|exact H]. intros Hin. apply memb_In in Hin. congruence.
Qed.

Lemma lrem_NoDup : forall x l, NoDup l -> NoDup (lrem x l).
Proof. intros x l H. unfold lrem. apply NoDup_filter. exact H. Qed.

Lemma lrem_In : forall x l y, In y (lrem x l) <-> In y l /\ y <> x.
Proof.
  intros. unfold lrem. rewrite filter_In. destruct (Nat.eqb_spec y x); cbn; intuition congruence.
Qed.

Lemma do_remove_In : forall l x y, In y (do_remove l x) <-> In y l /\ y <> x.
Proof. intros. apply lrem_In. Qed.

Lemma calc_size_pos : forall v, 0 <= v -> 1 <= calc_size v.
Proof.
  intros v Hv. unfold calc_size. destruct (Z.eqb_spec v 0); [lia|].
  destruct (Z.ltb_spec v 0); [lia|]. pose proof (Z.log2_nonneg v). lia.
Qed.

Lemma esize_of_pos : forall mn mx, 0 <= mx -> 1 <= esize_of mn mx.
Proof.
  intros. unfold esize_of. pose proof (calc_size_pos mx H). destruct (Z.ltb_spec (calc_size mx) mn); lia.
Qed.

Lemma calc_size_mono : forall a b, 0 <= a -> a <= b -> calc_size a <= calc_size b.
Proof.
  intros a b Ha Hab. unfold calc_size.
  destruct (Z.eqb_spec a 0) as [->|Na].
  - destruct (Z.eqb_spec b 0); [lia|]. destruct (Z.ltb_spec b 0); [lia|]. pose proof (Z.log2_nonneg b); lia.
  - destruct (Z.eqb_spec b 0); [lia|]. destruct (Z.ltb_spec a 0); [lia|]. destruct (Z.ltb_spec b 0); [lia|].
    pose proof (Z.log2_le_mono a b Hab). lia.
Qed.

Lemma esize_of_mono : forall mn a b, 0 <= a -> a <= b -> esize_of mn a <= esize_of mn b.
Proof.
  intros. unfold esize_of. pose proof (calc_size_mono a b H H0).
  destruct (Z.ltb_spec (calc_size a) mn); destruct (Z.ltb_spec (calc_size b) mn); lia.
Qed.

(* gget of a list update *)
Lemma nth_set_nth_same : forall {A} (l : list A) n v d, (n < length l)%nat -> nth n (set_nth l n v) d = v.
Proof. induction l as [|a r IH]; intros n v d Hn; cbn in *; [lia|]. destruct n; cbn; [reflexivity|apply IH; lia]. Qed.
Lemma nth_set_nth_other : forall {A} (l : list A) n k v d, n <> k -> nth k (set_nth l n v) d = nth k l d.
Proof.
  induction l as [|a r IH]; intros n k v d Hn; cbn; [reflexivity|].
  destruct n; destruct k; cbn; try congruence; try reflexivity. apply IH. congruence.
Qed.
Lemma set_nth_length : forall {A} (l : list A) n v, length (set_nth l n v) = length l.
Proof. induction l; intros; cbn; [reflexivity|]. destruct n; cbn; auto. Qed.
Lemma nth_set_nth_oob : forall {A} (l : list A) n v, (length l <= n)%nat -> set_nth l n v = l.
Proof. induction l as [|a r IH]; intros n v Hn; cbn in *; [reflexivity|]. destruct n; [lia|]. f_equal. apply IH. lia. Qed.

(* ok is monotone in len *)
Lemma ok_len_le : forall pos len len' l lo size,
  (forall t, In t l -> 1 <= len' t <= len t) -> ok pos len lo size l -> ok pos len' lo size l.
Proof.
  induction l as [|t r IH]; intros lo size Hl H; cbn [ok] in *; [exact I|].
  destruct H as (H1 & H2 & H3 & H4). pose proof (Hl t (or_introl eq_refl)).
  split; [lia|split; [lia|split; [lia|]]].
  eapply ok_weaken_lo; [|apply IH; [intros y Hy; apply Hl; right; exact Hy|exact H4]]. lia.
Qed.

(* ---------------------------------------------------------------------------------------- *)
(* the registration functions do not touch anything the layouts depend on                     *)
(* ---------------------------------------------------------------------------------------- *)

(* the layout-relevant part of a state *)
Definition lcore (s : state) :=
  (nsig s, kind s, rel s, ugroups s, glsize s, gbytes s, glay s, emax s, emin s, erefs s,
   evals s, vpar s, vidx s, nval s, nmsg s).

Lemma lcore_msg_add : forall s m x, lcore (msg_add_signal s m x) = lcore s.
Proof. reflexivity. Qed.
Lemma lcore_msg_remove : forall s m x, lcore (msg_remove_signal s m x) = lcore s.
Proof. reflexivity. Qed.
Lemma lcore_mux_add : forall s u x, lcore (mux_add_signal s u x) = lcore s.
Proof. intros. unfold mux_add_signal. cbn. destruct (pmsg s u); reflexivity. Qed.
Lemma lcore_mux_remove : forall s u x, lcore (mux_remove_signal s u x) = lcore s.
Proof. intros. unfold mux_remove_signal. cbn. destruct (pmsg s u); reflexivity. Qed.

Lemma nsig_msg_add_signal : forall s m x, nsig (msg_add_signal s m x) = nsig s.
Proof. intros. unfold msg_add_signal. cbn. try (destruct (pmsg s u)); reflexivity. Qed.
#[export] Hint Rewrite nsig_msg_add_signal : reg.
Lemma kind_msg_add_signal : forall s m x, kind (msg_add_signal s m x) = kind s.
Proof. intros. unfold msg_add_signal. cbn. try (destruct (pmsg s u)); reflexivity. Qed.
#[export] Hint Rewrite kind_msg_add_signal : reg.
Lemma rel_msg_add_signal : forall s m x, rel (msg_add_signal s m x) = rel s.
Proof. intros. unfold msg_add_signal. cbn. try (destruct (pmsg s u)); reflexivity. Qed.
#[export] Hint Rewrite rel_msg_add_signal : reg.
Lemma ugroups_msg_add_signal : forall s m x, ugroups (msg_add_signal s m x) = ugroups s.
Proof. intros. unfold msg_add_signal. cbn. try (destruct (pmsg s u)); reflexivity. Qed.
#[export] Hint Rewrite ugroups_msg_add_signal : reg.
Lemma glsize_msg_add_signal : forall s m x, glsize (msg_add_signal s m x) = glsize s.
Proof. intros. unfold msg_add_signal. cbn. try (destruct (pmsg s u)); reflexivity. Qed.
#[export] Hint Rewrite glsize_msg_add_signal : reg.
Lemma gbytes_msg_add_signal : forall s m x, gbytes (msg_add_signal s m x) = gbytes s.
Proof. intros. unfold msg_add_signal. cbn. try (destruct (pmsg s u)); reflexivity. Qed.
#[export] Hint Rewrite gbytes_msg_add_signal : reg.
Lemma glay_msg_add_signal : forall s m x, glay (msg_add_signal s m x) = glay s.
Proof. intros. unfold msg_add_signal. cbn. try (destruct (pmsg s u)); reflexivity. Qed.
#[export] Hint Rewrite glay_msg_add_signal : reg.
Lemma emax_msg_add_signal : forall s m x, emax (msg_add_signal s m x) = emax s.
Proof. intros. unfold msg_add_signal. cbn. try (destruct (pmsg s u)); reflexivity. Qed.
#[export] Hint Rewrite emax_msg_add_signal : reg.
Lemma emin_msg_add_signal : forall s m x, emin (msg_add_signal s m x) = emin s.
Proof. intros. unfold msg_add_signal. cbn. try (destruct (pmsg s u)); reflexivity. Qed.
#[export] Hint Rewrite emin_msg_add_signal : reg.
Lemma erefs_msg_add_signal : forall s m x, erefs (msg_add_signal s m x) = erefs s.
Proof. intros. unfold msg_add_signal. cbn. try (destruct (pmsg s u)); reflexivity. Qed.
#[export] Hint Rewrite erefs_msg_add_signal : reg.
Lemma evals_msg_add_signal : forall s m x, evals (msg_add_signal s m x) = evals s.
Proof. intros. unfold msg_add_signal. cbn. try (destruct (pmsg s u)); reflexivity. Qed.
#[export] Hint Rewrite evals_msg_add_signal : reg.
Lemma vpar_msg_add_signal : forall s m x, vpar (msg_add_signal s m x) = vpar s.
Proof. intros. unfold msg_add_signal. cbn. try (destruct (pmsg s u)); reflexivity. Qed.
#[export] Hint Rewrite vpar_msg_add_signal : reg.
Lemma vidx_msg_add_signal : forall s m x, vidx (msg_add_signal s m x) = vidx s.
Proof. intros. unfold msg_add_signal. cbn. try (destruct (pmsg s u)); reflexivity. Qed.
#[export] Hint Rewrite vidx_msg_add_signal : reg.
Lemma nval_msg_add_signal : forall s m x, nval (msg_add_signal s m x) = nval s.
Proof. intros. unfold msg_add_signal. cbn. try (destruct (pmsg s u)); reflexivity. Qed.
#[export] Hint Rewrite nval_msg_add_signal : reg.
Lemma nmsg_msg_add_signal : forall s m x, nmsg (msg_add_signal s m x) = nmsg s.
Proof. intros. unfold msg_add_signal. cbn. try (destruct (pmsg s u)); reflexivity. Qed.
#[export] Hint Rewrite nmsg_msg_add_signal : reg.
Lemma ufixed_msg_add_signal : forall s m x, ufixed (msg_add_signal s m x) = ufixed s.
Proof. intros. unfold msg_add_signal. cbn. try (destruct (pmsg s u)); reflexivity. Qed.
#[export] Hint Rewrite ufixed_msg_add_signal : reg.
Lemma ugids_msg_add_signal : forall s m x, ugids (msg_add_signal s m x) = ugids s.
Proof. intros. unfold msg_add_signal. cbn. try (destruct (pmsg s u)); reflexivity. Qed.
#[export] Hint Rewrite ugids_msg_add_signal : reg.
Lemma nenum_msg_add_signal : forall s m x, nenum (msg_add_signal s m x) = nenum s.
Proof. intros. unfold msg_add_signal. cbn. try (destruct (pmsg s u)); reflexivity. Qed.
#[export] Hint Rewrite nenum_msg_add_signal : reg.
Lemma eidx_msg_add_signal : forall s m x, eidx (msg_add_signal s m x) = eidx s.
Proof. intros. unfold msg_add_signal. cbn. try (destruct (pmsg s u)); reflexivity. Qed.
#[export] Hint Rewrite eidx_msg_add_signal : reg.
Lemma nsig_msg_remove_signal : forall s m x, nsig (msg_remove_signal s m x) = nsig s.
Proof. intros. unfold msg_remove_signal. cbn. try (destruct (pmsg s u)); reflexivity. Qed.
#[export] Hint Rewrite nsig_msg_remove_signal : reg.
Lemma kind_msg_remove_signal : forall s m x, kind (msg_remove_signal s m x) = kind s.
Proof. intros. unfold msg_remove_signal. cbn. try (destruct (pmsg s u)); reflexivity. Qed.
#[export] Hint Rewrite kind_msg_remove_signal : reg.
Lemma rel_msg_remove_signal : forall s m x, rel (msg_remove_signal s m x) = rel s.
Proof. intros. unfold msg_remove_signal. cbn. try (destruct (pmsg s u)); reflexivity. Qed.
#[export] Hint Rewrite rel_msg_remove_signal : reg.
Lemma ugroups_msg_remove_signal : forall s m x, ugroups (msg_remove_signal s m x) = ugroups s.
Proof. intros. unfold msg_remove_signal. cbn. try (destruct (pmsg s u)); reflexivity. Qed.
#[export] Hint Rewrite ugroups_msg_remove_signal : reg.
Lemma glsize_msg_remove_signal : forall s m x, glsize (msg_remove_signal s m x) = glsize s.
Proof. intros. unfold msg_remove_signal. cbn. try (destruct (pmsg s u)); reflexivity. Qed.
#[export] Hint Rewrite glsize_msg_remove_signal : reg.
Lemma gbytes_msg_remove_signal : forall s m x, gbytes (msg_remove_signal s m x) = gbytes s.
Proof. intros. unfold msg_remove_signal. cbn. try (destruct (pmsg s u)); reflexivity. Qed.
#[export] Hint Rewrite gbytes_msg_remove_signal : reg.
Lemma glay_msg_remove_signal : forall s m x, glay (msg_remove_signal s m x) = glay s.
Proof. intros. unfold msg_remove_signal. cbn. try (destruct (pmsg s u)); reflexivity. Qed.
#[export] Hint Rewrite glay_msg_remove_signal : reg.
Lemma emax_msg_remove_signal : forall s m x, emax (msg_remove_signal s m x) = emax s.
Proof. intros. unfold msg_remove_signal. cbn. try (destruct (pmsg s u)); reflexivity. Qed.
#[export] Hint Rewrite emax_msg_remove_signal : reg.
Lemma emin_msg_remove_signal : forall s m x, emin (msg_remove_signal s m x) = emin s.
Proof. intros. unfold msg_remove_signal. cbn. try (destruct (pmsg s u)); reflexivity. Qed.
#[export] Hint Rewrite emin_msg_remove_signal : reg.
Lemma erefs_msg_remove_signal : forall s m x, erefs (msg_remove_signal s m x) = erefs s.
Proof. intros. unfold msg_remove_signal. cbn. try (destruct (pmsg s u)); reflexivity. Qed.
#[export] Hint Rewrite erefs_msg_remove_signal : reg.
Lemma evals_msg_remove_signal : forall s m x, evals (msg_remove_signal s m x) = evals s.
Proof. intros. unfold msg_remove_signal. cbn. try (destruct (pmsg s u)); reflexivity. Qed.
#[export] Hint Rewrite evals_msg_remove_signal : reg.
Lemma vpar_msg_remove_signal : forall s m x, vpar (msg_remove_signal s m x) = vpar s.
Proof. intros. unfold msg_remove_signal. cbn. try (destruct (pmsg s u)); reflexivity. Qed.
#[export] Hint Rewrite vpar_msg_remove_signal : reg.
Lemma vidx_msg_remove_signal : forall s m x, vidx (msg_remove_signal s m x) = vidx s.
Proof. intros. unfold msg_remove_signal. cbn. try (destruct (pmsg s u)); reflexivity. Qed.
#[export] Hint Rewrite vidx_msg_remove_signal : reg.
Lemma nval_msg_remove_signal : forall s m x, nval (msg_remove_signal s m x) = nval s.
Proof. intros. unfold msg_remove_signal. cbn. try (destruct (pmsg s u)); reflexivity. Qed.
#[export] Hint Rewrite nval_msg_remove_signal : reg.
Lemma nmsg_msg_remove_signal : forall s m x, nmsg (msg_remove_signal s m x) = nmsg s.
Proof. intros. unfold msg_remove_signal. cbn. try (destruct (pmsg s u)); reflexivity. Qed.
#[export] Hint Rewrite nmsg_msg_remove_signal : reg.
Lemma ufixed_msg_remove_signal : forall s m x, ufixed (msg_remove_signal s m x) = ufixed s.
Proof. intros. unfold msg_remove_signal. cbn. try (destruct (pmsg s u)); reflexivity. Qed.
#[export] Hint Rewrite ufixed_msg_remove_signal : reg.
Lemma ugids_msg_remove_signal : forall s m x, ugids (msg_remove_signal s m x) = ugids s.
Proof. intros. unfold msg_remove_signal. cbn. try (destruct (pmsg s u)); reflexivity. Qed.
#[export] Hint Rewrite ugids_msg_remove_signal : reg.
Lemma nenum_msg_remove_signal : forall s m x, nenum (msg_remove_signal s m x) = nenum s.
Proof. intros. unfold msg_remove_signal. cbn. try (destruct (pmsg s u)); reflexivity. Qed.
#[export] Hint Rewrite nenum_msg_remove_signal : reg.
Lemma eidx_msg_remove_signal : forall s m x, eidx (msg_remove_signal s m x) = eidx s.
Proof. intros. unfold msg_remove_signal. cbn. try (destruct (pmsg s u)); reflexivity. Qed.
#[export] Hint Rewrite eidx_msg_remove_signal : reg.
Lemma nsig_mux_add_signal : forall s u x, nsig (mux_add_signal s u x) = nsig s.
Proof. intros. unfold mux_add_signal. cbn. try (destruct (pmsg s u)); reflexivity. Qed.
#[export] Hint Rewrite nsig_mux_add_signal : reg.
Lemma kind_mux_add_signal : forall s u x, kind (mux_add_signal s u x) = kind s.
Proof. intros. unfold mux_add_signal. cbn. try (destruct (pmsg s u)); reflexivity. Qed.
#[export] Hint Rewrite kind_mux_add_signal : reg.
Lemma rel_mux_add_signal : forall s u x, rel (mux_add_signal s u x) = rel s.
Proof. intros. unfold mux_add_signal. cbn. try (destruct (pmsg s u)); reflexivity. Qed.
#[export] Hint Rewrite rel_mux_add_signal : reg.
Lemma ugroups_mux_add_signal : forall s u x, ugroups (mux_add_signal s u x) = ugroups s.
Proof. intros. unfold mux_add_signal. cbn. try (destruct (pmsg s u)); reflexivity. Qed.
#[export] Hint Rewrite ugroups_mux_add_signal : reg.
Lemma glsize_mux_add_signal : forall s u x, glsize (mux_add_signal s u x) = glsize s.
Proof. intros. unfold mux_add_signal. cbn. try (destruct (pmsg s u)); reflexivity. Qed.
#[export] Hint Rewrite glsize_mux_add_signal : reg.
Lemma gbytes_mux_add_signal : forall s u x, gbytes (mux_add_signal s u x) = gbytes s.
Proof. intros. unfold mux_add_signal. cbn. try (destruct (pmsg s u)); reflexivity. Qed.
#[export] Hint Rewrite gbytes_mux_add_signal : reg.
Lemma glay_mux_add_signal : forall s u x, glay (mux_add_signal s u x) = glay s.
Proof. intros. unfold mux_add_signal. cbn. try (destruct (pmsg s u)); reflexivity. Qed.
#[export] Hint Rewrite glay_mux_add_signal : reg.
Lemma emax_mux_add_signal : forall s u x, emax (mux_add_signal s u x) = emax s.
Proof. intros. unfold mux_add_signal. cbn. try (destruct (pmsg s u)); reflexivity. Qed.
#[export] Hint Rewrite emax_mux_add_signal : reg.
Lemma emin_mux_add_signal : forall s u x, emin (mux_add_signal s u x) = emin s.
Proof. intros. unfold mux_add_signal. cbn. try (destruct (pmsg s u)); reflexivity. Qed.
#[export] Hint Rewrite emin_mux_add_signal : reg.
Lemma erefs_mux_add_signal : forall s u x, erefs (mux_add_signal s u x) = erefs s.
Proof. intros. unfold mux_add_signal. cbn. try (destruct (pmsg s u)); reflexivity. Qed.
#[export] Hint Rewrite erefs_mux_add_signal : reg.
Lemma evals_mux_add_signal : forall s u x, evals (mux_add_signal s u x) = evals s.
Proof. intros. unfold mux_add_signal. cbn. try (destruct (pmsg s u)); reflexivity. Qed.
#[export] Hint Rewrite evals_mux_add_signal : reg.
Lemma vpar_mux_add_signal : forall s u x, vpar (mux_add_signal s u x) = vpar s.
Proof. intros. unfold mux_add_signal. cbn. try (destruct (pmsg s u)); reflexivity. Qed.
#[export] Hint Rewrite vpar_mux_add_signal : reg.
Lemma vidx_mux_add_signal : forall s u x, vidx (mux_add_signal s u x) = vidx s.
Proof. intros. unfold mux_add_signal. cbn. try (destruct (pmsg s u)); reflexivity. Qed.
#[export] Hint Rewrite vidx_mux_add_signal : reg.
Lemma nval_mux_add_signal : forall s u x, nval (mux_add_signal s u x) = nval s.
Proof. intros. unfold mux_add_signal. cbn. try (destruct (pmsg s u)); reflexivity. Qed.
#[export] Hint Rewrite nval_mux_add_signal : reg.
Lemma nmsg_mux_add_signal : forall s u x, nmsg (mux_add_signal s u x) = nmsg s.
Proof. intros. unfold mux_add_signal. cbn. try (destruct (pmsg s u)); reflexivity. Qed.
#[export] Hint Rewrite nmsg_mux_add_signal : reg.
Lemma ufixed_mux_add_signal : forall s u x, ufixed (mux_add_signal s u x) = ufixed s.
Proof. intros. unfold mux_add_signal. cbn. try (destruct (pmsg s u)); reflexivity. Qed.
#[export] Hint Rewrite ufixed_mux_add_signal : reg.
Lemma ugids_mux_add_signal : forall s u x, ugids (mux_add_signal s u x) = ugids s.
Proof. intros. unfold mux_add_signal. cbn. try (destruct (pmsg s u)); reflexivity. Qed.
#[export] Hint Rewrite ugids_mux_add_signal : reg.
Lemma nenum_mux_add_signal : forall s u x, nenum (mux_add_signal s u x) = nenum s.
Proof. intros. unfold mux_add_signal. cbn. try (destruct (pmsg s u)); reflexivity. Qed.
#[export] Hint Rewrite nenum_mux_add_signal : reg.
Lemma eidx_mux_add_signal : forall s u x, eidx (mux_add_signal s u x) = eidx s.
Proof. intros. unfold mux_add_signal. cbn. try (destruct (pmsg s u)); reflexivity. Qed.
#[export] Hint Rewrite eidx_mux_add_signal : reg.
Lemma nsig_mux_remove_signal : forall s u x, nsig (mux_remove_signal s u x) = nsig s.
Proof. intros. unfold mux_remove_signal. cbn. try (destruct (pmsg s u)); reflexivity. Qed.
#[export] Hint Rewrite nsig_mux_remove_signal : reg.
Lemma kind_mux_remove_signal : forall s u x, kind (mux_remove_signal s u x) = kind s.
Proof. intros. unfold mux_remove_signal. cbn. try (destruct (pmsg s u)); reflexivity. Qed.
#[export] Hint Rewrite kind_mux_remove_signal : reg.
Lemma rel_mux_remove_signal : forall s u x, rel (mux_remove_signal s u x) = rel s.
Proof. intros. unfold mux_remove_signal. cbn. try (destruct (pmsg s u)); reflexivity. Qed.
#[export] Hint Rewrite rel_mux_remove_signal : reg.
Lemma ugroups_mux_remove_signal : forall s u x, ugroups (mux_remove_signal s u x) = ugroups s.
Proof. intros. unfold mux_remove_signal. cbn. try (destruct (pmsg s u)); reflexivity. Qed.
#[export] Hint Rewrite ugroups_mux_remove_signal : reg.
Lemma glsize_mux_remove_signal : forall s u x, glsize (mux_remove_signal s u x) = glsize s.
Proof. intros. unfold mux_remove_signal. cbn. try (destruct (pmsg s u)); reflexivity. Qed.
#[export] Hint Rewrite glsize_mux_remove_signal : reg.
Lemma gbytes_mux_remove_signal : forall s u x, gbytes (mux_remove_signal s u x) = gbytes s.
Proof. intros. unfold mux_remove_signal. cbn. try (destruct (pmsg s u)); reflexivity. Qed.
#[export] Hint Rewrite gbytes_mux_remove_signal : reg.
Lemma glay_mux_remove_signal : forall s u x, glay (mux_remove_signal s u x) = glay s.
Proof. intros. unfold mux_remove_signal. cbn. try (destruct (pmsg s u)); reflexivity. Qed.
#[export] Hint Rewrite glay_mux_remove_signal : reg.
Lemma emax_mux_remove_signal : forall s u x, emax (mux_remove_signal s u x) = emax s.
Proof. intros. unfold mux_remove_signal. cbn. try (destruct (pmsg s u)); reflexivity. Qed.
#[export] Hint Rewrite emax_mux_remove_signal : reg.
Lemma emin_mux_remove_signal : forall s u x, emin (mux_remove_signal s u x) = emin s.
Proof. intros. unfold mux_remove_signal. cbn. try (destruct (pmsg s u)); reflexivity. Qed.
#[export] Hint Rewrite emin_mux_remove_signal : reg.
Lemma erefs_mux_remove_signal : forall s u x, erefs (mux_remove_signal s u x) = erefs s.
Proof. intros. unfold mux_remove_signal. cbn. try (destruct (pmsg s u)); reflexivity. Qed.
#[export] Hint Rewrite erefs_mux_remove_signal : reg.
Lemma evals_mux_remove_signal : forall s u x, evals (mux_remove_signal s u x) = evals s.
Proof. intros. unfold mux_remove_signal. cbn. try (destruct (pmsg s u)); reflexivity. Qed.
#[export] Hint Rewrite evals_mux_remove_signal : reg.
Lemma vpar_mux_remove_signal : forall s u x, vpar (mux_remove_signal s u x) = vpar s.
Proof. intros. unfold mux_remove_signal. cbn. try (destruct (pmsg s u)); reflexivity. Qed.
#[export] Hint Rewrite vpar_mux_remove_signal : reg.
Lemma vidx_mux_remove_signal : forall s u x, vidx (mux_remove_signal s u x) = vidx s.
Proof. intros. unfold mux_remove_signal. cbn. try (destruct (pmsg s u)); reflexivity. Qed.
#[export] Hint Rewrite vidx_mux_remove_signal : reg.
Lemma nval_mux_remove_signal : forall s u x, nval (mux_remove_signal s u x) = nval s.
Proof. intros. unfold mux_remove_signal. cbn. try (destruct (pmsg s u)); reflexivity. Qed.
#[export] Hint Rewrite nval_mux_remove_signal : reg.
Lemma nmsg_mux_remove_signal : forall s u x, nmsg (mux_remove_signal s u x) = nmsg s.
Proof. intros. unfold mux_remove_signal. cbn. try (destruct (pmsg s u)); reflexivity. Qed.
#[export] Hint Rewrite nmsg_mux_remove_signal : reg.
Lemma ufixed_mux_remove_signal : forall s u x, ufixed (mux_remove_signal s u x) = ufixed s.
Proof. intros. unfold mux_remove_signal. cbn. try (destruct (pmsg s u)); reflexivity. Qed.
#[export] Hint Rewrite ufixed_mux_remove_signal : reg.
Lemma ugids_mux_remove_signal : forall s u x, ugids (mux_remove_signal s u x) = ugids s.
Proof. intros. unfold mux_remove_signal. cbn. try (destruct (pmsg s u)); reflexivity. Qed.
#[export] Hint Rewrite ugids_mux_remove_signal : reg.
Lemma nenum_mux_remove_signal : forall s u x, nenum (mux_remove_signal s u x) = nenum s.
Proof. intros. unfold mux_remove_signal. cbn. try (destruct (pmsg s u)); reflexivity. Qed.
#[export] Hint Rewrite nenum_mux_remove_signal : reg.
Lemma eidx_mux_remove_signal : forall s u x, eidx (mux_remove_signal s u x) = eidx s.
Proof. intros. unfold mux_remove_signal. cbn. try (destruct (pmsg s u)); reflexivity. Qed.
#[export] Hint Rewrite eidx_mux_remove_signal : reg.

Lemma sz_reg : forall s s', kind s' = kind s -> emax s' = emax s -> emin s' = emin s -> forall x, sz s' x = sz s x.
Proof. intros s s' A B C x. unfold sz, esize. rewrite A, B, C. reflexivity. Qed.

Lemma sz_core : forall s s', kind s' = kind s -> emax s' = emax s -> emin s' = emin s -> sz s' = sz s.
Proof. intros s s' Hk Hx Hn. unfold sz, esize. rewrite Hk, Hx, Hn. reflexivity. Qed.

Lemma InvA_core : forall s s', lcore s' = lcore s -> InvA s -> InvA s'.
Proof.
  intros s s' E H. unfold lcore in E. inversion E as [[E1 E2 E3 E4 E5 E6 E7 E8 E9 E10 E11 E12 E13 E14 E15]].
  assert (Hsz : sz s' = sz s) by (apply sz_core; assumption).
  assert (Hlay : forall L, lay s' L = lay s L) by (intros [m|u g]; cbn [lay]; unfold gget; rewrite ?E7, ?E4; reflexivity).
  assert (Hlsz : forall L, lsz s' L = lsz s L) by (intros [m|u g]; cbn [lsz]; unfold mux_gsize; rewrite ?E5, ?E2; reflexivity).
  destruct H. constructor.
  - intros L. rewrite Hlay, Hlsz, E3, Hsz. apply a_ok0.
  - intros m. rewrite E5, E6. apply a_lsize0.
  - intros L L' x. rewrite !Hlay. apply a_excl0.
  - intros e. rewrite E8. apply a_emax0.
  - intros L x. rewrite Hlay, E1. apply a_alloc0.
  - intros u. rewrite E1, E4. apply a_unalloc0.
  - intros m. rewrite E15, E7. apply a_munalloc0.
  - intros x e. rewrite E1, E2, E10. apply a_refs0.
  - intros x e. rewrite E1, E2, E10. apply a_refs3.
  - intros e. rewrite E10. apply a_refs_nd0.
  - intros e v. rewrite E11, E12, E13, E14, E8. apply a_vals0.
  - intros x. rewrite Hsz. apply a_size0.
Qed.

(* ---------------------------------------------------------------------------------------- *)
(* per-step hypotheses: the narrowest conditions excluding the open findings                  *)
(*   D20 re-attachment (C05), D03 SetMinSize, D35 shared followers, D36 two refs per layout,  *)
(*   and the C05 link invariant for the signals whose size changes                            *)
(* ---------------------------------------------------------------------------------------- *)

(* the parent links of x lead to the layouts that hold it (C05's invariant, restricted to x) *)
Definition link_ok (s : state) (x : nat) : Prop :=
  (forall m, In x (glay s m) -> pmux s x = None /\ pmsg s x = Some m /\ memb x (gsigs s m) = true)
  /\ (forall u g, In x (gget s u g) ->
        pmux s x = Some u /\ memb x (usigs s u) = true /\ exists gs, groups_of s u x = Some gs /\ In g gs)
  /\ (forall u gs, pmux s x = Some u -> groups_of s u x = Some gs -> NoDup gs)
  /\ (~ attached s x -> pmux s x = None /\ pmsg s x = None)
  /\ (forall u gs, pmux s x = Some u -> groups_of s u x = Some gs -> forall g, In g gs -> In x (gget s u g)).

(* every signal behind x in a group holding x is held by that group only (excludes D35) *)
Definition single_followers (s : state) (x : nat) : Prop :=
  forall u g fs y, followers (gget s u g) x = Some fs -> In y fs -> forall g', In y (gget s u g') -> g' = g.

(* value-based: the signals that a change of the size of x by a actually moves in a group (every
   follower on shrink, the followers the push reaches on growth; positions p) are held by that
   group only. The Coq counterpart of vinv.SharedFollowerMoved (props/common/vinv/d35.go). *)
Definition single_moved (s : state) (p : nat -> Z) (x : nat) (a : Z) : Prop :=
  forall u g y, In y (moved_in (sz s) p (gget s u g) x a) -> forall g', In y (gget s u g') -> g' = g.

Lemma single_followers_moved : forall s x, single_followers s x -> forall p a, single_moved s p x a.
Proof.
  intros s x Hs p a u g y Hy g' Hg'. unfold moved_in in Hy. destruct (a =? 0); [contradiction|].
  destruct (followers (gget s u g) x) as [fs|] eqn:Hf; [|contradiction].
  eapply Hs; [exact Hf| |exact Hg']. destruct (0 <? a); [eapply reached_incl; exact Hy|exact Hy].
Qed.

Lemma single_moved_ext : forall s p p' x a,
  (forall L t, In x (lay s L) -> In t (lay s L) -> p' t = p t) -> single_moved s p x a -> single_moved s p' x a.
Proof.
  intros s p p' x a E H u g y Hy. apply (H u g y).
  destruct (in_dec Nat.eq_dec x (gget s u g)) as [Hin|Hn].
  - rewrite <- (moved_in_ext (sz s) (sz s) p p' (gget s u g) x a); [exact Hy|].
    intros t Ht. split; [apply (E (LG u g) t Hin Ht)|reflexivity].
  - exfalso. destruct (moved_in_In _ _ _ _ _ _ Hy) as [A _]. contradiction.
Qed.

Definition resize_ok (s : state) (x : nat) (a : Z) : Prop := link_ok s x /\ single_moved s (rel s) x a.

(* no layout holds two different signals of the list (excludes D36) *)
Definition unshared (s : state) (xs : list nat) : Prop :=
  forall L x y, In x xs -> In y xs -> In x (lay s L) -> In y (lay s L) -> x = y.

Definition enum_resize_ok (s : state) (e : nat) (a : Z) : Prop :=
  (forall x, In x (erefs s e) -> resize_ok s x a) /\ (0 < a -> unshared s (erefs s e)).

(* sizes whose bit count is representable in a 64-bit int *)
Definition msg_size_ok (n : Z) : Prop := - 2 ^ 60 <= n <= 2 ^ 60 - 1.

Lemma wrap64_id : forall z, - 2 ^ 63 <= z < 2 ^ 63 -> wrap64 z = z.
Proof. intros z Hz. unfold wrap64. rewrite Z.mod_small by lia. lia. Qed.

Definition ok_op (s : state) (o : op) : Prop :=
  match o with
  | ONewMsg n => msg_size_ok n
  | OAppend m x | OInsert m x _ => ~ attached s x
  | OMuxInsert u x _ _ =>
      ~ attached s x
      \/ (memb x (usigs s u) = true /\ forall L, In x (lay s L) -> exists g, L = LG u g)
  | OMuxShiftL u x _ | OMuxShiftR u x _ =>
      forall ids, ugids s u x = Some ids -> forall g, ids = [g] ->
        forall g', In x (gget s u g') -> g' = Z.to_nat g
  | OSetType x n => resize_ok s x (n - sz s x)
  | OSetEnum x e => resize_ok s x (esize s e - sz s x)
  | OAddValue e idx =>
      emax s e < idx -> esize_of (emin s e) idx <> esize s e -> enum_resize_ok s e (esize_of (emin s e) idx - esize s e)
  | OUpdateIndex v idx =>
      forall e, vpar s v = Some e ->
        esize_of (emin s e) (Z.max (Z.max 0 idx) (max_index s (lrem v (evals s e)))) <> esize s e ->
        enum_resize_ok s e (esize_of (emin s e) (Z.max (Z.max 0 idx) (max_index s (lrem v (evals s e)))) - esize s e)
  | OSetMinSize e n =>
      forall x, In x (erefs s e) -> attached s x -> esize_of n (emax s e) <= esize s e
  | _ => True
  end.

(* ---------------------------------------------------------------------------------------- *)
(* preservation, operation by operation                                                      *)
(* ---------------------------------------------------------------------------------------- *)

Lemma lay_nil_unalloc : forall s u g, InvA s -> (nsig s <= u)%nat -> gget s u g = [].
Proof. intros s u g H Hu. unfold gget. rewrite (a_unalloc s H u Hu). destruct g; reflexivity. Qed.

Lemma not_attached_fresh : forall s L, InvA s -> ~ In (nsig s) (lay s L).
Proof. intros s L H Hin. pose proof (a_alloc s H L _ Hin). lia. Qed.

(* --- creation ------------------------------------------------------------------------------ *)

Lemma inv_new_msg : forall s n, InvA s -> msg_size_ok n -> InvA (fst (step s (ONewMsg n))).
Proof.
  intros s n H Hn. cbn [step fst]. rewrite (wrap64_id (n * 8)) by (unfold msg_size_ok in Hn; lia). constructor; cbn.
  - intros [m|u g]; cbn [lay lsz]; cbn.
    + unfold upd. destruct (Nat.eqb_spec m (nmsg s)) as [->|NE]; [|apply (a_ok s H (LM m))].
      rewrite (a_munalloc s H) by lia. exact I.
    + apply (a_ok s H (LG u g)).
  - intros m. unfold upd. destruct (Nat.eqb_spec m (nmsg s)); [reflexivity|apply (a_lsize s H)].
  - intros L L' x. pose proof (a_excl s H L L' x) as E. destruct L, L'; exact E.
  - exact (a_emax s H).
  - intros L x. pose proof (a_alloc s H L x) as E. destruct L; exact E.
  - exact (a_unalloc s H).
  - intros m Hm. apply (a_munalloc s H). lia.
  - exact (a_refs s H).
  - exact (a_refs2 s H).
  - exact (a_refs_nd s H).
  - exact (a_vals s H).
  - exact (a_size s H).
Qed.

(* a fresh signal handle: only its kind (and enum refs / empty groups) is written *)
Lemma inv_alloc_sig : forall s s' k,
  InvA s ->
  nsig s' = S (nsig s) -> kind s' = upd (kind s) (nsig s) k -> rel s' = rel s ->
  (forall u, u <> nsig s -> ugroups s' u = ugroups s u) ->
  (forall g, nth g (ugroups s' (nsig s)) [] = []) ->
  glsize s' = glsize s -> gbytes s' = gbytes s -> glay s' = glay s -> nmsg s' = nmsg s ->
  emax s' = emax s -> emin s' = emin s ->
  evals s' = evals s -> vpar s' = vpar s -> vidx s' = vidx s -> nval s' = nval s ->
  (forall e x, In x (erefs s' e) <-> In x (erefs s e) \/ (x = nsig s /\ k = KEnum e)) ->
  (forall e, NoDup (erefs s' e)) ->
  1 <= sz s' (nsig s) ->
  InvA s'.
Proof.
  intros s s' k H En Ek Er Eg Eg0 Els Egb Egl Enm Emx Emn Eev Evp Evi Env Hrefs Hnd Hsize.
  assert (Hsz : forall x, x <> nsig s -> sz s' x = sz s x).
  { intros x Hx. unfold sz, esize. rewrite Ek, Emx, Emn. rewrite upd_other by exact Hx. reflexivity. }
  assert (Hlay : forall L, lay s' L = lay s L).
  { intros [m|u g]; cbn [lay]; [rewrite Egl; reflexivity|]. unfold gget.
    destruct (Nat.eq_dec u (nsig s)) as [->|NE]; [|rewrite Eg by exact NE; reflexivity].
    rewrite Eg0. rewrite (a_unalloc s H) by lia. destruct g; reflexivity. }
  constructor.
  - intros L. rewrite Hlay, Er.
    destruct L as [m|u g].
    + cbn [lsz]. rewrite Els. eapply ok_ext; [|apply (a_ok s H (LM m))].
      intros t Ht. split; [reflexivity|]. apply Hsz. intros ->. exact (not_attached_fresh s (LM m) H Ht).
    + destruct (Nat.eq_dec u (nsig s)) as [->|NE].
      * cbn [lay]. rewrite (lay_nil_unalloc s _ g H) by lia. exact I.
      * assert (E : lsz s' (LG u g) = lsz s (LG u g)).
        { cbn [lsz]. unfold mux_gsize. rewrite Ek. rewrite upd_other by exact NE. reflexivity. }
        rewrite E. eapply ok_ext; [|apply (a_ok s H (LG u g))].
        intros t Ht. split; [reflexivity|]. apply Hsz. intros ->. exact (not_attached_fresh s (LG u g) H Ht).
  - intros m. rewrite Els, Egb. apply (a_lsize s H).
  - intros L L' x. rewrite !Hlay. apply (a_excl s H).
  - intros e. rewrite Emx. apply (a_emax s H).
  - intros L x. rewrite Hlay. intros Hin. pose proof (a_alloc s H L x Hin). lia.
  - intros u Hu. rewrite Eg by lia. apply (a_unalloc s H). lia.
  - intros m. rewrite Enm, Egl. apply (a_munalloc s H).
  - intros x e Hx. rewrite Ek. unfold upd. destruct (Nat.eqb_spec x (nsig s)) as [->|NE].
    + intros ->. apply Hrefs. right. split; reflexivity.
    + intros Hke. apply Hrefs. left. apply (a_refs s H); [lia|exact Hke].
  - intros x e Hx. apply Hrefs in Hx. rewrite Ek, En. destruct Hx as [Hx|[-> ->]].
    + destruct (a_refs2 s H x e Hx) as [A B]. rewrite upd_other by lia. split; [exact A|lia].
    + rewrite upd_same. split; [reflexivity|lia].
  - exact Hnd.
  - intros e v. rewrite Eev, Evp, Evi, Env, Emx. apply (a_vals s H).
  - intros x. destruct (Nat.eq_dec x (nsig s)) as [->|NE]; [exact Hsize|rewrite Hsz by exact NE; apply (a_size s H)].
Qed.

Lemma inv_new_std : forall s n, InvA s -> InvA (fst (step s (ONewStd n))).
Proof.
  intros s n H. cbn [step]. destruct (Z.ltb_spec n 0); [exact H|]. destruct (Z.eqb_spec n 0); [exact H|]. cbn [fst].
  eapply (inv_alloc_sig s _ (KStd n) H); try reflexivity.
  - intros g. cbn. rewrite (a_unalloc s H) by lia. destruct g; reflexivity.
  - intros e x. cbn. split; [intros Hx; left; exact Hx|intros [Hx|[_ C]]; [exact Hx|discriminate]].
  - apply (a_refs_nd s H).
  - unfold sz. cbn. rewrite upd_same. lia.
Qed.

Lemma inv_new_enum : forall s, InvA s -> InvA (fst (step s ONewEnum)).
Proof. intros s H. cbn [step fst]. eapply InvA_core; [|exact H]. reflexivity. Qed.

Lemma inv_new_enumsig : forall s e, InvA s -> InvA (fst (step s (ONewEnumSig e))).
Proof.
  intros s e H. cbn [step]. destruct (venum s e); [|exact H]. cbn [fst].
  eapply (inv_alloc_sig s _ (KEnum e) H); try reflexivity.
  - intros g. cbn. rewrite (a_unalloc s H) by lia. destruct g; reflexivity.
  - intros e' x. cbn. unfold upd. destruct (Nat.eqb_spec e' e) as [->|NE].
    + rewrite ladd_In. split; [intros [->|Hx]; [right; split; reflexivity|left; exact Hx]|intros [Hx|[-> _]]; [right; exact Hx|left; reflexivity]].
    + split; [intros Hx; left; exact Hx|intros [Hx|[_ C]]; [exact Hx|inversion C; congruence]].
  - intros e'. cbn. unfold upd. destruct (Nat.eqb_spec e' e) as [->|NE]; [|apply (a_refs_nd s H)].
    apply ladd_NoDup. apply (a_refs_nd s H).
  - unfold sz, esize. cbn. rewrite upd_same. apply esize_of_pos. apply (a_emax s H).
Qed.

Lemma nth_repeat_nil : forall {A} n g, nth g (repeat (@nil A) n) [] = [].
Proof. induction n; intros g; cbn; destruct g; auto. Qed.

Lemma inv_new_mux : forall s c g, InvA s -> InvA (fst (step s (ONewMux c g))).
Proof.
  intros s c g H. cbn [step]. destruct (Z.ltb_spec c 0); [exact H|]. destruct (Z.eqb_spec c 0); [exact H|].
  destruct (Z.ltb_spec g 0); [exact H|]. destruct (Z.eqb_spec g 0); [exact H|]. destruct (2 ^ 63 - 65 <? g); [exact H|]. cbn [fst].
  eapply (inv_alloc_sig s _ (KMux c g) H); try reflexivity.
  - intros u Hu. cbn. rewrite upd_other by exact Hu. reflexivity.
  - intros g'. cbn. rewrite upd_same. apply nth_repeat_nil.
  - intros e x. cbn. split; [intros Hx; left; exact Hx|intros [Hx|[_ C]]; [exact Hx|discriminate]].
  - apply (a_refs_nd s H).
  - unfold sz, selw. cbn. rewrite upd_same. pose proof (calc_size_pos (c - 1) ltac:(lia)). lia.
Qed.

(* --- operations that only rearrange layouts (lists and positions) ----------------------------- *)

Lemma InvA_layouts : forall s s',
  InvA s ->
  nsig s' = nsig s -> kind s' = kind s -> glsize s' = glsize s -> gbytes s' = gbytes s -> nmsg s' = nmsg s ->
  emax s' = emax s -> emin s' = emin s -> erefs s' = erefs s ->
  evals s' = evals s -> vpar s' = vpar s -> vidx s' = vidx s -> nval s' = nval s ->
  (forall L, ok (rel s') (sz s) 0 (lsz s L) (lay s' L)) ->
  (forall L L' x, In x (lay s' L) -> In x (lay s' L') -> same_cont L L') ->
  (forall L x, In x (lay s' L) -> (x < nsig s)%nat) ->
  (forall u, (nsig s <= u)%nat -> ugroups s' u = []) ->
  (forall m, (nmsg s <= m)%nat -> glay s' m = []) ->
  InvA s'.
Proof.
  intros s s' H En Ek Els Egb Enm Emx Emn Erf Eev Evp Evi Env Hok Hex Hal Hun Hmun.
  assert (Hsz : sz s' = sz s) by (apply sz_core; assumption).
  assert (Hlsz : forall L, lsz s' L = lsz s L).
  { intros [m|u g]; cbn [lsz]; [rewrite Els; reflexivity|unfold mux_gsize; rewrite Ek; reflexivity]. }
  constructor.
  - intros L. rewrite Hsz, Hlsz. apply Hok.
  - intros m. rewrite Els, Egb. apply (a_lsize s H).
  - exact Hex.
  - intros e. rewrite Emx. apply (a_emax s H).
  - intros L x. rewrite En. apply Hal.
  - intros u. rewrite En. apply Hun.
  - intros m. rewrite Enm. apply Hmun.
  - intros x e. rewrite En, Ek, Erf. apply (a_refs s H).
  - intros x e. rewrite En, Ek, Erf. apply (a_refs2 s H).
  - intros e. rewrite Erf. apply (a_refs_nd s H).
  - intros e v. rewrite Eev, Evp, Evi, Env, Emx. apply (a_vals s H).
  - intros x. rewrite Hsz. apply (a_size s H).
Qed.

(* layouts that only lose elements *)
Definition sub (l' l : list nat) : Prop :=
  (forall pos len lo size, ok pos len lo size l -> ok pos len lo size l') /\ (forall x, In x l' -> In x l).

Lemma sub_refl : forall l, sub l l.
Proof. intros l. split; auto. Qed.
Lemma sub_trans : forall a b c, sub a b -> sub b c -> sub a c.
Proof. intros a b c [A1 A2] [B1 B2]. split; auto. Qed.
Lemma sub_filter : forall f l, sub (filter f l) l.
Proof. intros f l. split; [intros; apply ok_filter; assumption|intros x Hx; apply filter_In in Hx; tauto]. Qed.
Lemma sub_nil : forall l, sub [] l.
Proof. intros l. split; [intros; exact I|intros x []]. Qed.

Lemma InvA_shrink_lists : forall s s',
  InvA s ->
  nsig s' = nsig s -> kind s' = kind s -> glsize s' = glsize s -> gbytes s' = gbytes s -> nmsg s' = nmsg s ->
  emax s' = emax s -> emin s' = emin s -> erefs s' = erefs s ->
  evals s' = evals s -> vpar s' = vpar s -> vidx s' = vidx s -> nval s' = nval s -> rel s' = rel s ->
  (forall L, sub (lay s' L) (lay s L)) ->
  (forall u, (nsig s <= u)%nat -> ugroups s' u = []) ->
  InvA s'.
Proof.
  intros s s' H En Ek Els Egb Enm Emx Emn Erf Eev Evp Evi Env Er Hf Hun.
  eapply (InvA_layouts s s' H); try assumption.
  - intros L. rewrite Er. apply (proj1 (Hf L)). apply (a_ok s H).
  - intros L L' x H1 H2. eapply (a_excl s H); [apply (proj2 (Hf L))|apply (proj2 (Hf L'))]; eassumption.
  - intros L x Hx. eapply (a_alloc s H). apply (proj2 (Hf L)). exact Hx.
  - intros m Hm. destruct (Hf (LM m)) as [_ E]. cbn [lay] in E. rewrite (a_munalloc s H m Hm) in E.
    destruct (glay s' m) as [|a r]; [reflexivity|]. exfalso. apply (E a). left; reflexivity.
Qed.

Lemma filter_true : forall {A} (l : list A), filter (fun _ => true) l = l.
Proof. induction l; cbn; congruence. Qed.

Lemma filter_false : forall {A} (l : list A), filter (fun _ => false) l = [].
Proof. induction l; cbn; congruence. Qed.

Lemma inv_remove_all : forall s m, InvA s -> InvA (fst (step_remove_all s m)).
Proof.
  intros s m H. unfold step_remove_all. cbn [fst].
  assert (Hf : forall L, sub (lay (set_glay
         (set_gnames (set_gsigs (set_pmsg_all s (gsigs s m) None) (upd (gsigs (set_pmsg_all s (gsigs s m) None)) m []))
            (upd (gnames (set_gsigs (set_pmsg_all s (gsigs s m) None) (upd (gsigs (set_pmsg_all s (gsigs s m) None)) m []))) m []))
         (upd (glay s) m [])) L) (lay s L)).
  { intros [m'|u g]; cbn [lay].
    - cbn. unfold upd. destruct (Nat.eqb_spec m' m) as [->|NE]; [apply sub_nil|apply sub_refl].
    - apply sub_refl. }
  eapply (InvA_shrink_lists s); try reflexivity; try exact H; try exact Hf.
  intros u Hu. cbn. apply (a_unalloc _ H). exact Hu.
Qed.

(* positions change only on signals that live in the single layout L0 *)
Lemma InvA_rel_one : forall s L0 pos',
  InvA s ->
  ok pos' (sz s) 0 (lsz s L0) (lay s L0) ->
  (forall y, pos' y <> rel s y -> In y (lay s L0) /\ forall L, In y (lay s L) -> L = L0) ->
  InvA (set_rel s pos').
Proof.
  intros s L0 pos' H Hok Hfr.
  eapply (InvA_layouts s); try reflexivity; try exact H.
  - intros L. change (lay (set_rel s pos') L) with (lay s L). change (rel (set_rel s pos')) with pos'.
    destruct (classic_lid L L0) as [->|NE]; [exact Hok|].
    eapply ok_ext; [|apply (a_ok s H L)]. intros t Ht. split; [|reflexivity].
    destruct (Z.eq_dec (pos' t) (rel s t)) as [E|NE']; [exact E|].
    destruct (Hfr t NE') as [_ Hu]. exfalso. apply NE. apply Hu. exact Ht.
  - intros L L' x. apply (a_excl s H).
  - intros L x. apply (a_alloc s H).
  - apply (a_unalloc s H).
  - apply (a_munalloc s H).
Qed.

(* a signal of a message layout is in no other layout *)
Lemma msg_only : forall s m x L, InvA s -> In x (glay s m) -> In x (lay s L) -> L = LM m.
Proof.
  intros s m x L H Hin HL. pose proof (a_excl s H (LM m) L x Hin HL) as E.
  destruct L as [m'|u g]; cbn in E; [subst; reflexivity|contradiction].
Qed.

Lemma inv_compact : forall s m, InvA s -> InvA (fst (step_compact s m)).
Proof.
  intros s m H. unfold step_compact. cbn [fst].
  destruct (ok_compact (rel s) (sz s) (glay s m) (glsize s m) (a_ok s H (LM m))) as (Hok & _ & Hfr).
  apply (InvA_rel_one s (LM m)); [exact H|exact Hok|].
  intros y Hy. destruct (in_dec Nat.eq_dec y (glay s m)) as [Hin|Hn]; [|exfalso; apply Hy; apply Hfr; exact Hn].
  split; [exact Hin|]. intros L HL. eapply msg_only; eauto.
Qed.

Lemma do_shift_left_frame : forall len pos l x a y, y <> x -> fst (do_shift_left len pos l x a) y = pos y.
Proof.
  intros * Hy. unfold do_shift_left. destruct (a <=? 0); [reflexivity|].
  destruct (in_dec Nat.eq_dec x l) as [Hin|Hn].
  - rewrite (shl_loop_spec len l pos x a None Hin). cbn [fst]. apply upd_other. exact Hy.
  - rewrite shl_loop_notin by exact Hn. reflexivity.
Qed.
Lemma do_shift_right_frame : forall len pos size l x a y, y <> x -> fst (do_shift_right len pos size l x a) y = pos y.
Proof.
  intros * Hy. unfold do_shift_right. destruct (a <=? 0); [reflexivity|].
  revert pos. induction l as [|t r IH]; intros pos; cbn [shr_loop]; [reflexivity|].
  destruct (Nat.eqb_spec x t) as [->|NE]; [|apply IH].
  cbn [fst]. apply upd_other. exact Hy.
Qed.
Lemma do_shift_left_notin : forall len pos l x a, ~ In x l -> fst (do_shift_left len pos l x a) = pos.
Proof.
  intros * Hn. unfold do_shift_left. destruct (a <=? 0); [reflexivity|]. rewrite shl_loop_notin by exact Hn. reflexivity.
Qed.
Lemma do_shift_right_notin : forall len pos size l x a, ~ In x l -> fst (do_shift_right len pos size l x a) = pos.
Proof.
  intros * Hn. unfold do_shift_right. destruct (a <=? 0); [reflexivity|]. rewrite shr_loop_notin by exact Hn. reflexivity.
Qed.

Lemma inv_shift : forall left s m x a, InvA s -> InvA (fst (step_shift left s m x a)).
Proof.
  intros left s m x a H. unfold step_shift. destruct (negb (memb x (gsigs s m))); [exact H|].
  destruct left.
  - destruct (do_shift_left (sz s) (rel s) (glay s m) x a) as [pos d] eqn:E. cbn [fst].
    assert (Ep : pos = fst (do_shift_left (sz s) (rel s) (glay s m) x a)) by (rewrite E; reflexivity).
    apply (InvA_rel_one s (LM m)); [exact H|rewrite Ep; apply ok_shift_left; apply (a_ok s H (LM m))|].
    intros y Hy. rewrite Ep in Hy.
    destruct (Nat.eq_dec y x) as [->|NE]; [|exfalso; apply Hy; apply do_shift_left_frame; exact NE].
    destruct (in_dec Nat.eq_dec x (glay s m)) as [Hin|Hn]; [|exfalso; apply Hy; rewrite do_shift_left_notin by exact Hn; reflexivity].
    split; [exact Hin|]. intros L HL. eapply msg_only; eauto.
  - destruct (do_shift_right (sz s) (rel s) (glsize s m) (glay s m) x a) as [pos d] eqn:E. cbn [fst].
    assert (Ep : pos = fst (do_shift_right (sz s) (rel s) (glsize s m) (glay s m) x a)) by (rewrite E; reflexivity).
    apply (InvA_rel_one s (LM m)); [exact H|rewrite Ep; apply ok_shift_right; apply (a_ok s H (LM m))|].
    intros y Hy. rewrite Ep in Hy.
    destruct (Nat.eq_dec y x) as [->|NE]; [|exfalso; apply Hy; apply do_shift_right_frame; exact NE].
    destruct (in_dec Nat.eq_dec x (glay s m)) as [Hin|Hn]; [|exfalso; apply Hy; rewrite do_shift_right_notin by exact Hn; reflexivity].
    split; [exact Hin|]. intros L HL. eapply msg_only; eauto.
Qed.

Lemma inv_resize : forall s m n, InvA s -> InvA (fst (step_resize s m n)).
Proof.
  intros s m n H. unfold step_resize. destruct (n <? 0); [exact H|]. destruct (gbytes s m =? n); [exact H|]. destruct (2 ^ 60 - 1 <? n); [exact H|].
  destruct (verify_resize (sz s) (rel s) (glsize s m) (glay s m) (n * 8)) eqn:Ev; [exact H|]. cbn [fst].
  constructor; cbn.
  - intros [m'|u g]; cbn [lay lsz]; cbn.
    + unfold upd. destruct (Nat.eqb_spec m' m) as [->|NE]; [|apply (a_ok s H (LM m'))].
      eapply ok_resize; [apply (a_ok s H (LM m))|exact Ev].
    + apply (a_ok s H (LG u g)).
  - intros m'. unfold upd. destruct (Nat.eqb_spec m' m); [reflexivity|apply (a_lsize s H)].
  - intros L L' x. pose proof (a_excl s H L L' x) as E. destruct L, L'; exact E.
  - exact (a_emax s H).
  - intros L x. pose proof (a_alloc s H L x) as E. destruct L; exact E.
  - exact (a_unalloc s H).
  - exact (a_munalloc s H).
  - exact (a_refs s H).
  - exact (a_refs2 s H).
  - exact (a_refs_nd s H).
  - exact (a_vals s H).
  - exact (a_size s H).
Qed.

(* --- multiplexer: remove / clear ---------------------------------------------------------------- *)

(* a state that differs from s only in the groups of u (which only lose elements) and in
   registry fields *)
Lemma InvA_groups_shrink : forall s s' u,
  InvA s ->
  lcore s' = lcore (set_ugroups s (ugroups s')) ->
  (forall u', u' <> u -> ugroups s' u' = ugroups s u') ->
  (forall g, sub (nth g (ugroups s' u) []) (nth g (ugroups s u) [])) ->
  ((nsig s <= u)%nat -> ugroups s' u = []) ->
  InvA s'.
Proof.
  intros s s' u H Ec Eo Hs Hun.
  eapply InvA_core; [exact Ec|].
  eapply (InvA_shrink_lists s); try reflexivity; [exact H| |].
  - intros [m|u' g]; cbn [lay]; [apply sub_refl|]. unfold gget. cbn.
    destruct (Nat.eq_dec u' u) as [->|NE]; [apply Hs|rewrite Eo by exact NE; apply sub_refl].
  - intros u' Hu'. cbn. destruct (Nat.eq_dec u' u) as [->|NE]; [apply Hun; exact Hu'|].
    rewrite Eo by exact NE. apply (a_unalloc s H). exact Hu'.
Qed.

Lemma nth_map_nil : forall (f : list nat -> list nat) gs g, f [] = [] -> nth g (map f gs) [] = f (nth g gs []).
Proof.
  intros f gs g Hf. revert g. induction gs as [|a r IH]; intros g; cbn; destruct g; auto.
Qed.

Lemma sub_set_nth : forall gs n v g, sub v (nth n gs []) -> sub (nth g (set_nth gs n v) []) (nth g gs []).
Proof.
  intros gs n v g Hv. destruct (Nat.eq_dec n g) as [->|NE].
  - destruct (Nat.lt_ge_cases g (length gs)).
    + rewrite nth_set_nth_same by assumption. exact Hv.
    + rewrite nth_set_nth_oob by assumption. apply sub_refl.
  - rewrite nth_set_nth_other by exact NE. apply sub_refl.
Qed.

Lemma sub_remove_from_groups : forall gl gs x g, sub (nth g (remove_from_groups gs gl x) []) (nth g gs []).
Proof.
  unfold remove_from_groups. induction gl as [|a r IH]; intros gs x g; cbn [fold_left]; [apply sub_refl|].
  eapply sub_trans; [apply IH|]. apply sub_set_nth. apply sub_filter.
Qed.

Lemma remove_from_groups_nil : forall gl x, remove_from_groups [] gl x = [].
Proof. unfold remove_from_groups. induction gl; intros; cbn; auto. Qed.

Lemma inv_mux_remove : forall s u x, InvA s -> InvA (fst (step_mux_remove s u x)).
Proof.
  intros s u x H. unfold step_mux_remove. destruct (negb (memb x (usigs s u))); [exact H|].
  destruct (ufixed s u x).
  - cbn [fst]. eapply (InvA_groups_shrink s _ u H).
    + unfold lcore. cbn. autorewrite with reg. reflexivity.
    + intros u' Hu'. cbn. autorewrite with reg. cbn. rewrite upd_other by exact Hu'. reflexivity.
    + intros g. cbn. autorewrite with reg. cbn. rewrite upd_same.
      rewrite (nth_map_nil (fun l => do_remove l x)) by reflexivity. apply sub_filter.
    + intros Hu. cbn. autorewrite with reg. cbn. rewrite upd_same. rewrite (a_unalloc s H u Hu). reflexivity.
  - destruct (ugids s u x) as [ids|]; [|exact H]. cbn [fst]. eapply (InvA_groups_shrink s _ u H).
    + unfold lcore. cbn. autorewrite with reg. reflexivity.
    + intros u' Hu'. cbn. autorewrite with reg. cbn. rewrite upd_other by exact Hu'. reflexivity.
    + intros g. cbn. autorewrite with reg. cbn. rewrite upd_same. apply sub_remove_from_groups.
    + intros Hu. cbn. autorewrite with reg. cbn. rewrite upd_same. rewrite (a_unalloc s H u Hu). apply remove_from_groups_nil.
Qed.

Lemma inv_remove : forall s m x, InvA s -> InvA (fst (step_remove s m x)).
Proof.
  intros s m x H. unfold step_remove. destruct (negb (memb x (gsigs s m))); [exact H|].
  destruct (pmux s x) as [u|]; [apply inv_mux_remove; exact H|]. cbn [fst].
  eapply (InvA_shrink_lists s); try (cbn; autorewrite with reg; reflexivity); [exact H| |].
  - intros [m'|u g]; cbn [lay].
    + cbn. autorewrite with reg. unfold upd. destruct (Nat.eqb_spec m' m) as [->|NE]; [apply sub_filter|apply sub_refl].
    + unfold gget. cbn. autorewrite with reg. apply sub_refl.
  - intros u Hu. cbn. autorewrite with reg. apply (a_unalloc s H). exact Hu.
Qed.

(* the clear-group loop: states reached keep the invariant *)
Lemma inv_clear_group_loop : forall xs s u g, InvA s -> InvA (fst (clear_group_loop s u g xs)).
Proof.
  induction xs as [|x r IH]; intros s u g H; cbn [clear_group_loop]; [exact H|].
  destruct (ufixed s u x); [apply IH; exact H|].
  set (n := Z.to_nat g).
  set (s1 := set_ugroups s (upd (ugroups s) u (set_nth (ugroups s u) n (do_remove (gget s u n) x)))).
  assert (H1 : InvA s1).
  { eapply (InvA_groups_shrink s s1 u H).
    - reflexivity.
    - intros u' Hu'. cbn. rewrite upd_other by exact Hu'. reflexivity.
    - intros g'. cbn. rewrite upd_same. apply sub_set_nth. apply sub_filter.
    - intros Hu. cbn. rewrite upd_same. rewrite (a_unalloc s H u Hu). reflexivity. }
  destruct (ugids s1 u x) as [ids|]; [|exact H1].
  destruct (length ids =? 1)%nat.
  - apply IH. eapply InvA_core; [|exact H1]. unfold lcore. cbn. autorewrite with reg. reflexivity.
  - apply IH. eapply InvA_core; [|exact H1]. reflexivity.
Qed.

Lemma inv_mux_clear_group : forall s u g, InvA s -> InvA (fst (step_mux_clear_group s u g)).
Proof.
  intros s u g H. unfold step_mux_clear_group. destruct (verify_gid s u g); [exact H|].
  pose proof (inv_clear_group_loop (gget s u (Z.to_nat g)) s u g H) as P.
  destruct (clear_group_loop s u g (gget s u (Z.to_nat g))) as [s1 p]. exact P.
Qed.

Lemma inv_fold_mux_remove : forall xs s u, InvA s -> InvA (fold_left (fun acc x => mux_remove_signal acc u x) xs s).
Proof.
  induction xs as [|x r IH]; intros s u H; cbn [fold_left]; [exact H|].
  apply IH. eapply InvA_core; [|exact H]. unfold lcore. autorewrite with reg. reflexivity.
Qed.

Lemma lcore_fold_mux_remove : forall xs s u, lcore (fold_left (fun acc x => mux_remove_signal acc u x) xs s) = lcore s.
Proof.
  induction xs as [|x r IH]; intros s u; cbn [fold_left]; [reflexivity|].
  rewrite IH. unfold lcore. autorewrite with reg. reflexivity.
Qed.

Lemma nth_map_const_nil : forall {A} (gs : list A) g, nth g (map (fun _ => @nil nat) gs) [] = [].
Proof. induction gs; intros g; cbn; destruct g; auto. Qed.

Lemma inv_mux_clear_all : forall s u, InvA s -> InvA (fst (step_mux_clear_all s u)).
Proof.
  intros s u H. unfold step_mux_clear_all. cbn [fst].
  set (s1 := fold_left (fun acc x => mux_remove_signal acc u x) (usigs s u) s).
  assert (H1 : InvA s1) by (apply inv_fold_mux_remove; exact H).
  assert (E1 : lcore s1 = lcore s) by apply lcore_fold_mux_remove.
  unfold lcore in E1. inversion E1 as [[E_1 E_2 E_3 E_4 E_5 E_6 E_7 E_8 E_9 E_10 E_11 E_12 E_13 E_14 E_15]].
  eapply (InvA_groups_shrink s1 _ u H1).
  - reflexivity.
  - intros u' Hu'. cbn. rewrite upd_other by exact Hu'. reflexivity.
  - intros g. cbn. rewrite upd_same. rewrite nth_map_const_nil. apply sub_nil.
  - intros Hu. cbn. rewrite upd_same. rewrite (a_unalloc s1 H1 u Hu). reflexivity.
Qed.

(* --- attach to a message ---------------------------------------------------------------------- *)

Lemma InvA_attach_msg : forall s m x pos' l',
  InvA s -> ~ attached s x -> (x < nsig s)%nat -> (m < nmsg s)%nat ->
  ok pos' (sz s) 0 (glsize s m) l' ->
  (forall y, y <> x -> pos' y = rel s y) ->
  (forall y, In y l' <-> y = x \/ In y (glay s m)) ->
  InvA (set_glay (set_rel s pos') (upd (glay s) m l')).
Proof.
  intros s m x pos' l' H Hfree Hx Hm Hok Hfr Hin.
  assert (Hlay : forall L, L <> LM m -> lay (set_glay (set_rel s pos') (upd (glay s) m l')) L = lay s L).
  { intros [m'|u g] NE; cbn [lay]; [|reflexivity]. cbn. rewrite upd_other; [reflexivity|congruence]. }
  assert (Hlm : lay (set_glay (set_rel s pos') (upd (glay s) m l')) (LM m) = l') by (cbn; apply upd_same).
  assert (Hsub : forall L y, In y (lay (set_glay (set_rel s pos') (upd (glay s) m l')) L) -> (y = x /\ L = LM m) \/ In y (lay s L)).
  { intros L y Hy. destruct (classic_lid L (LM m)) as [->|NE].
    - rewrite Hlm in Hy. apply Hin in Hy. destruct Hy as [->|Hy]; [left; split; reflexivity|right; exact Hy].
    - rewrite Hlay in Hy by exact NE. right; exact Hy. }
  eapply (InvA_layouts s); try reflexivity; try exact H.
  - intros L. change (rel (set_glay (set_rel s pos') (upd (glay s) m l'))) with pos'.
    destruct (classic_lid L (LM m)) as [->|NE]; [rewrite Hlm; exact Hok|].
    rewrite Hlay by exact NE. eapply ok_ext; [|apply (a_ok s H L)].
    intros t Ht. split; [|reflexivity]. apply Hfr. intros ->. apply Hfree. exists L. exact Ht.
  - intros L L' y H1 H2. destruct (Hsub _ _ H1) as [[-> ->]|A]; destruct (Hsub _ _ H2) as [[E ->]|B].
    + reflexivity.
    + exfalso. apply Hfree. exists L'. exact B.
    + subst. exfalso. apply Hfree. exists L. exact A.
    + eapply (a_excl s H); eauto.
  - intros L y Hy. destruct (Hsub _ _ Hy) as [[-> _]|A]; [exact Hx|eapply (a_alloc s H); eauto].
  - apply (a_unalloc s H).
  - intros m' Hm'. cbn. rewrite upd_other by lia. apply (a_munalloc s H). exact Hm'.
Qed.

Lemma vsig_lt : forall s x, vsig s x = true -> (x < nsig s)%nat.
Proof. intros s x. unfold vsig. intros E. apply Nat.ltb_lt. exact E. Qed.
Lemma vmsg_lt : forall s m, vmsg s m = true -> (m < nmsg s)%nat.
Proof. intros s m. unfold vmsg. intros E. apply Nat.ltb_lt. exact E. Qed.

(* every attached signal has size >= 1; free signals get it from their kind *)
Definition size_ok (s : state) (x : nat) : Prop := 1 <= sz s x.

Lemma inv_append : forall s m x, InvA s -> ~ attached s x -> vsig s x = true -> vmsg s m = true ->
  InvA (fst (step_append s m x)).
Proof.
  intros s m x H Hfree Hx Hm. pose proof (a_size s H x) as Hsz. unfold step_append. destruct (memb x (gnames s m)); [exact H|].
  destruct (verify_append (sz s) (rel s) (glsize s m) (glay s m) x) eqn:Ev; [exact H|].
  cbn [do_append fst]. eapply InvA_core; [unfold lcore; autorewrite with reg; reflexivity|].
  assert (Hn : ~ In x (glay s m)) by (intros Hin; apply Hfree; exists (LM m); exact Hin).
  apply (InvA_attach_msg s m x); try assumption; [apply vsig_lt; exact Hx|apply vmsg_lt; exact Hm| | |].
  - apply ok_append; [apply (a_ok s H (LM m))|exact Hn|exact Hsz|apply verify_append_spec; exact Ev].
  - intros y Hy. apply upd_other. exact Hy.
  - intros y. rewrite in_app_iff. cbn [In]. intuition.
Qed.

Lemma inv_insert : forall s m x b, InvA s -> ~ attached s x -> vsig s x = true -> vmsg s m = true ->
  InvA (fst (step_insert s m x b)).
Proof.
  intros s m x b H Hfree Hx Hm. pose proof (a_size s H x) as Hsz. unfold step_insert. destruct (memb x (gnames s m)); [exact H|].
  destruct (verify_insert (sz s) (rel s) (glsize s m) (glay s m) x b) eqn:Ev; [exact H|].
  cbn [do_insert fst]. eapply InvA_core; [unfold lcore; autorewrite with reg; reflexivity|].
  assert (Hn : ~ In x (glay s m)) by (intros Hin; apply Hfree; exists (LM m); exact Hin).
  apply (verify_insert_spec _ _ _ _ _ _ (a_ok s H (LM m))) in Ev. destruct Ev as (E1 & E2 & E3 & E4).
  apply (InvA_attach_msg s m x); try assumption; [apply vsig_lt; exact Hx|apply vmsg_lt; exact Hm| | |].
  - apply ok_insert_at; try assumption; try lia. apply (a_ok s H (LM m)).
  - intros y Hy. apply upd_other. exact Hy.
  - intros y. apply insert_at_In.
Qed.

(* --- multiplexer: insert ------------------------------------------------------------------------ *)

Lemma insert_at_ext : forall pos pos' l x b, (forall t, In t l -> pos' t = pos t) -> insert_at pos' l x b = insert_at pos l x b.
Proof.
  induction l as [|t r IH]; intros x b He; cbn [insert_at]; [reflexivity|].
  rewrite (He t (or_introl eq_refl)). destruct (b <? pos t); [reflexivity|].
  f_equal. apply IH. intros y Hy. apply He. right; exact Hy.
Qed.

Lemma membZ_In : forall x l, membZ x l = true <-> In x l.
Proof.
  intros. unfold membZ. rewrite existsb_exists. split.
  - intros [y [Hy E]]. apply Z.eqb_eq in E. subst. exact Hy.
  - intros H. exists x. split; [exact H|apply Z.eqb_refl].
Qed.

Lemma dedup_spec : forall l seen, NoDup (dedup l seen) /\ (forall g, In g (dedup l seen) -> In g l /\ ~ In g seen).
Proof.
  induction l as [|a r IH]; intros seen; cbn [dedup]; [split; [constructor|intros g []]|].
  destruct (membZ a seen) eqn:E.
  - destruct (IH seen) as [A B]. split; [exact A|]. intros g Hg. destruct (B g Hg). split; [right; assumption|assumption].
  - destruct (IH (a :: seen)) as [A B]. assert (Hn : ~ In a seen) by (intros Hin; apply membZ_In in Hin; congruence). split.
    + constructor; [|exact A]. intros Hin. destruct (B a Hin) as [_ C]. apply C. left; reflexivity.
    + intros g [<-|Hg]; [split; [left; reflexivity|exact Hn]|]. destruct (B g Hg) as [C D].
      split; [right; exact C|]. intros Hin. apply D. right; exact Hin.
Qed.

Lemma first_err_none : forall {A} (f : A -> option cause) l, first_err f l = None -> forall a, In a l -> f a = None.
Proof.
  induction l as [|b r IH]; intros H a Hin; [contradiction|]. cbn [first_err] in H.
  destruct (f b) eqn:E; [discriminate|]. destruct Hin as [<-|Hin]; [exact E|apply IH; assumption].
Qed.

(* the groups after an insertion: every group is either unchanged or got x inserted at b after a
   successful verification *)
Definition ins_or_same (s : state) (u x : nat) (b : Z) (p1 : nat -> Z) (gs' : list (list nat)) : Prop :=
  forall g, nth g gs' [] = gget s u g
            \/ (nth g gs' [] = insert_at p1 (gget s u g) x b
                /\ verify_insert (sz s) (rel s) (mux_gsize s u) (gget s u g) x b = None).

Lemma InvA_attach_groups : forall s u x b gs',
  InvA s -> (x < nsig s)%nat -> (u < nsig s)%nat ->
  (attached s x -> b = rel s x) ->
  (forall L, In x (lay s L) -> exists g, L = LG u g) ->
  length gs' = length (ugroups s u) ->
  ins_or_same s u x b (rel s) gs' ->
  InvA (set_ugroups (set_rel s (upd (rel s) x b)) (upd (ugroups s) u gs')).
Proof.
  intros s u x b gs' H Hx Hu Hb Hcont Hlen Hgs.
  set (s1 := set_ugroups (set_rel s (upd (rel s) x b)) (upd (ugroups s) u gs')).
  assert (Hlay : forall L, (forall g, L <> LG u g) -> lay s1 L = lay s L).
  { intros [m|u' g] NE; cbn [lay]; [reflexivity|]. unfold gget. cbn. rewrite upd_other; [reflexivity|].
    intros ->. apply (NE g). reflexivity. }
  assert (Hlg : forall g, lay s1 (LG u g) = nth g gs' []) by (intros g; cbn [lay]; unfold gget; cbn; rewrite upd_same; reflexivity).
  assert (Hposx : forall y, (y <> x \/ attached s x) -> upd (rel s) x b y = rel s y).
  { intros y [NE|A]; [apply upd_other; exact NE|]. destruct (Nat.eq_dec y x) as [->|NE]; [|apply upd_other; exact NE].
    rewrite upd_same. apply Hb. exact A. }
  assert (Hsub : forall L y, In y (lay s1 L) -> (y = x /\ exists g, L = LG u g) \/ In y (lay s L)).
  { intros L y Hy. destruct L as [m|u' g]; [right; exact Hy|].
    destruct (Nat.eq_dec u' u) as [->|NE]; [|right; rewrite Hlay in Hy; [exact Hy|intros g' E; congruence]].
    rewrite Hlg in Hy. destruct (Hgs g) as [E|[E _]]; rewrite E in Hy; [right; exact Hy|].
    apply insert_at_In in Hy. destruct Hy as [->|Hy]; [left; split; [reflexivity|exists g; reflexivity]|right; exact Hy]. }
  eapply (InvA_layouts s); try reflexivity; try exact H.
  - intros L. change (rel s1) with (upd (rel s) x b).
    assert (Hsame : forall L', lay s1 L' = lay s L' -> ok (upd (rel s) x b) (sz s) 0 (lsz s L') (lay s1 L')).
    { intros L' E. rewrite E. eapply ok_ext; [|apply (a_ok s H L')]. intros t Ht. split; [|reflexivity].
      apply Hposx. destruct (Nat.eq_dec t x) as [->|NE]; [right; exists L'; exact Ht|left; exact NE]. }
    destruct L as [m|u' g]; [apply Hsame; reflexivity|].
    destruct (Nat.eq_dec u' u) as [->|NE]; [|apply Hsame; apply Hlay; intros g' E; congruence].
    destruct (Hgs g) as [E|[E Hv]]; [apply Hsame; rewrite Hlg; exact E|].
    rewrite Hlg, E. cbn [lsz].
    pose proof (a_ok s H (LG u g)) as Hok. cbn [lay lsz] in Hok.
    apply (verify_insert_spec _ _ _ _ _ _ Hok) in Hv. destruct Hv as (V1 & V2 & V3 & V4).
    assert (Hn : ~ In x (gget s u g)).
    { intros Hin. assert (A : attached s x) by (exists (LG u g); exact Hin). specialize (Hb A). subst b.
      destruct (V4 x Hin); pose proof (a_size s H x); lia. }
    apply ok_insert_at; try assumption; try lia. apply (a_size s H).
  - intros L L' y H1 H2. destruct (Hsub _ _ H1) as [[-> [g ->]]|A]; destruct (Hsub _ _ H2) as [[E [g' ->]]|B].
    + reflexivity.
    + destruct (Hcont _ B) as [g' ->]. reflexivity.
    + subst. destruct (Hcont _ A) as [g0 ->]. reflexivity.
    + eapply (a_excl s H); eauto.
  - intros L y Hy. destruct (Hsub _ _ Hy) as [[-> _]|A]; [exact Hx|eapply (a_alloc s H); eauto].
  - intros u' Hu'. cbn. rewrite upd_other by lia. apply (a_unalloc s H). exact Hu'.
  - apply (a_munalloc s H).
Qed.

Lemma verify_insert_notin : forall s u g x b, InvA s -> (attached s x -> b = rel s x) ->
  verify_insert (sz s) (rel s) (mux_gsize s u) (gget s u g) x b = None -> ~ In x (gget s u g).
Proof.
  intros s u g x b H Hb Hv Hin.
  pose proof (a_ok s H (LG u g)) as Hok. cbn [lay lsz] in Hok.
  apply (verify_insert_spec _ _ _ _ _ _ Hok) in Hv. destruct Hv as (V1 & V2 & V3 & V4).
  assert (A : attached s x) by (exists (LG u g); exact Hin). specialize (Hb A). subst b.
  destruct (V4 x Hin); pose proof (a_size s H x); lia.
Qed.

Lemma insert_at_upd_self : forall pos l x b v, ~ In x l -> insert_at (upd pos x v) l x b = insert_at pos l x b.
Proof.
  intros. apply insert_at_ext. intros t Ht. apply upd_other. intros ->. contradiction.
Qed.

Lemma nth_map_lt : forall {A B} (f : A -> B) l g d d', (g < length l)%nat -> nth g (map f l) d = f (nth g l d').
Proof.
  intros A B f l. induction l as [|a r IH]; intros g d d' Hg; cbn in *; [lia|].
  destruct g; [reflexivity|]. apply IH. lia.
Qed.

Lemma ins_all_spec : forall s u x b, InvA s -> (attached s x -> b = rel s x) ->
  first_err (fun l => verify_insert (sz s) (rel s) (mux_gsize s u) l x b) (ugroups s u) = None ->
  ins_or_same s u x b (rel s) (snd (insert_all (rel s) (ugroups s u) x b)).
Proof.
  intros s u x b H Hb Hv.
  intros g. unfold gget.
  assert (Hall : forall g', (g' < length (ugroups s u))%nat ->
            verify_insert (sz s) (rel s) (mux_gsize s u) (nth g' (ugroups s u) []) x b = None).
  { intros g' Hg'. apply (first_err_none _ _ Hv). apply nth_In. exact Hg'. }
  destruct (Nat.lt_ge_cases g (length (ugroups s u))) as [Hlt|Hge].
  + right. split; [|apply Hall; exact Hlt].
    pose proof (verify_insert_notin s u g x b H Hb (Hall g Hlt)) as Hn. unfold gget in Hn.
    destruct (ugroups s u) as [|l0 r] eqn:Eg; [cbn in Hlt; lia|]. cbn [insert_all snd].
    destruct g as [|g']; [reflexivity|]. cbn [nth] in *.
    assert (Hg' : (g' < length r)%nat) by (cbn [length] in Hlt; lia).
    rewrite (nth_map_lt _ r g' [] [] Hg').
    apply insert_at_upd_self. exact Hn.
  + left. rewrite (nth_overflow (ugroups s u)) by exact Hge.
    destruct (ugroups s u) as [|l0 r]; [cbn; destruct g; reflexivity|]. cbn [insert_all snd].
    rewrite nth_overflow; [reflexivity|]. cbn in *. rewrite map_length. exact Hge.
Qed.

Lemma ins_all_pos : forall pos gs x b, gs <> [] -> fst (insert_all pos gs x b) = upd pos x b.
Proof. intros pos gs x b Hne. destruct gs; [congruence|reflexivity]. Qed.
Lemma ins_all_length : forall pos gs x b, length (snd (insert_all pos gs x b)) = length gs.
Proof. intros. destruct gs; cbn; [reflexivity|]. rewrite map_length. reflexivity. Qed.

Lemma ins_from_spec : forall p1 x b ids groups k,
  NoDup (map Z.to_nat ids) ->
  nth k (insert_ids_from p1 groups ids x b) [] =
  if memb k (map Z.to_nat ids) && (k <? length groups)%nat then insert_at p1 (nth k groups []) x b else nth k groups [].
Proof.
  induction ids as [|g r IH]; intros groups k Hnd; cbn [insert_ids_from map memb existsb].
  - reflexivity.
  - inversion Hnd as [|? ? Hn Hnd']; subst. rewrite IH by exact Hnd'. rewrite set_nth_length.
    fold (memb k (map Z.to_nat r)).
    destruct (Nat.eqb_spec k (Z.to_nat g)) as [->|NE].
    + assert (E : memb (Z.to_nat g) (map Z.to_nat r) = false).
      { destruct (memb (Z.to_nat g) (map Z.to_nat r)) eqn:E; [|reflexivity]. apply memb_In in E. contradiction. }
      rewrite E. cbn [orb andb].
      destruct (Nat.ltb_spec (Z.to_nat g) (length groups)).
      * rewrite nth_set_nth_same by assumption. reflexivity.
      * rewrite nth_set_nth_oob by assumption. reflexivity.
    + cbn [orb]. rewrite nth_set_nth_other by congruence. reflexivity.
Qed.

Lemma ins_from_length : forall p1 x b ids groups, length (insert_ids_from p1 groups ids x b) = length groups.
Proof. induction ids as [|g r IH]; intros groups; cbn [insert_ids_from]; [reflexivity|]. rewrite IH. apply set_nth_length. Qed.

Lemma NoDup_map_to_nat : forall ids, NoDup ids -> (forall g, In g ids -> 0 <= g) -> NoDup (map Z.to_nat ids).
Proof.
  induction ids as [|a r IH]; intros Hnd Hpos; cbn [map]; [constructor|].
  inversion Hnd as [|? ? Hn Hnd']; subst. constructor.
  - intros Hin. apply in_map_iff in Hin. destruct Hin as [c [Ec Hc]].
    assert (c = a) by (pose proof (Hpos a (or_introl eq_refl)); pose proof (Hpos c (or_intror Hc)); lia). subst. contradiction.
  - apply IH; [exact Hnd'|]. intros g Hg. apply Hpos. right; exact Hg.
Qed.

Lemma ins_ids_spec : forall s u x b ids, InvA s -> (attached s x -> b = rel s x) ->
  NoDup ids -> (forall g, In g ids -> 0 <= g) ->
  (forall g, In g ids -> verify_insert (sz s) (rel s) (mux_gsize s u) (gget s u (Z.to_nat g)) x b = None) ->
  ins_or_same s u x b (rel s) (snd (insert_ids (rel s) (ugroups s u) ids x b)).
Proof.
  intros s u x b ids H Hb Hnd Hpos Hv k.
  destruct ids as [|g r]; [left; reflexivity|]. cbn [insert_ids snd].
  assert (Hnd' : NoDup (map Z.to_nat (g :: r))) by (apply NoDup_map_to_nat; assumption).
  cbn [map] in Hnd'. inversion Hnd' as [|? ? Hn Hnd'']; subst.
  rewrite ins_from_spec by exact Hnd''. rewrite set_nth_length.
  destruct (memb k (map Z.to_nat r) && (k <? length (ugroups s u))%nat) eqn:E.
  - apply andb_true_iff in E. destruct E as [E1 E2]. apply memb_In in E1.
    assert (NE : Z.to_nat g <> k) by (intros <-; contradiction).
    rewrite nth_set_nth_other by exact NE.
    apply in_map_iff in E1. destruct E1 as [c [Ec Hc]]. subst k.
    right. pose proof (Hv c (or_intror Hc)) as Hvc. split; [|exact Hvc].
    apply insert_at_upd_self. eapply verify_insert_notin; eauto.
  - destruct (Nat.eq_dec (Z.to_nat g) k) as [<-|NE].
    + destruct (Nat.lt_ge_cases (Z.to_nat g) (length (ugroups s u))).
      * rewrite nth_set_nth_same by assumption. right. split; [reflexivity|]. apply Hv. left; reflexivity.
      * rewrite nth_set_nth_oob by assumption. left. reflexivity.
    + rewrite nth_set_nth_other by exact NE. left. reflexivity.
Qed.

Lemma ins_ids_pos : forall pos gs ids x b, ids <> [] -> fst (insert_ids pos gs ids x b) = upd pos x b.
Proof. intros. destruct ids; [congruence|reflexivity]. Qed.
Lemma ins_ids_length : forall pos gs ids x b, length (snd (insert_ids pos gs ids x b)) = length gs.
Proof. intros. destruct ids; cbn; [reflexivity|]. rewrite ins_from_length. apply set_nth_length. Qed.

Lemma vmux_lt : forall s u, vmux s u = true -> (u < nsig s)%nat.
Proof. intros s u E. unfold vmux in E. apply andb_true_iff in E. apply vsig_lt. tauto. Qed.

Lemma inv_mux_insert : forall s u x b gids, InvA s -> vmux s u = true -> vsig s x = true ->
  ok_op s (OMuxInsert u x b gids) -> InvA (fst (step_mux_insert s u x b gids)).
Proof.
  intros s u x b gids H Hu Hx Hop. cbn [ok_op] in Hop. unfold step_mux_insert.
  destruct (if memb x (unames s u) then false else match pmsg s u with Some m => memb x (gnames s m) | None => false end); [exact H|].
  destruct gids as [|g0 gr].
  - (* fixed *)
    destruct (memb x (usigs s u)) eqn:Ep; [exact H|].
    assert (Hfree : ~ attached s x) by (destruct Hop as [A|[A _]]; [exact A|congruence]).
    destruct (first_err (fun l => verify_insert (sz s) (rel s) (mux_gsize s u) l x b) (ugroups s u)) eqn:Ev; [exact H|].
    destruct (insert_all (rel s) (ugroups s u) x b) as [pos gs] eqn:Ei. cbn [fst].
    eapply InvA_core; [unfold lcore; autorewrite with reg; reflexivity|].
    eapply InvA_core with (s := set_ugroups (set_rel s pos) (upd (ugroups s) u gs)); [reflexivity|].
    assert (Egs : gs = snd (insert_all (rel s) (ugroups s u) x b)) by (rewrite Ei; reflexivity).
    assert (Epos : pos = fst (insert_all (rel s) (ugroups s u) x b)) by (rewrite Ei; reflexivity).
    destruct (ugroups s u) as [|l0 r] eqn:Eg.
    + cbn in Egs, Epos. subst.
      eapply (InvA_shrink_lists s); try reflexivity; [exact H| |].
      * intros [m|u' g]; cbn [lay]; [apply sub_refl|]. unfold gget. cbn. unfold upd.
        destruct (Nat.eqb_spec u' u) as [->|NE]; [rewrite Eg; apply sub_refl|apply sub_refl].
      * intros u' Hu'. cbn. unfold upd. destruct (Nat.eqb_spec u' u); [reflexivity|apply (a_unalloc s H); exact Hu'].
    + rewrite <- Eg in *. rewrite ins_all_pos in Epos by (rewrite Eg; discriminate). subst pos gs.
      apply InvA_attach_groups; try assumption.
      * apply vsig_lt; exact Hx.
      * apply vmux_lt; exact Hu.
      * intros A. contradiction.
      * intros L HL. exfalso. apply Hfree. exists L. exact HL.
      * apply ins_all_length.
      * apply ins_all_spec; [exact H|intros A; contradiction|exact Ev].
  - (* group ids *)
    set (ids := dedup (g0 :: gr) []).
    set (present := memb x (usigs s u)). set (fixed := ufixed s u x).
    set (prev := match ugids s u x with Some l => l | None => [] end).
    destruct (verify_ids s u x b present fixed prev ids) eqn:Ev; [exact H|].
    destruct (insert_ids (rel s) (ugroups s u) ids x b) as [pos gs] eqn:Ei. cbn [fst].
    eapply InvA_core; [unfold lcore; autorewrite with reg; reflexivity|].
    eapply InvA_core with (s := set_ugroups (set_rel s pos) (upd (ugroups s) u gs)); [reflexivity|].
    assert (Hne : ids <> []).
    { unfold ids. cbn [dedup membZ existsb]. discriminate. }
    assert (Egs : gs = snd (insert_ids (rel s) (ugroups s u) ids x b)) by (rewrite Ei; reflexivity).
    assert (Epos : pos = fst (insert_ids (rel s) (ugroups s u) ids x b)) by (rewrite Ei; reflexivity).
    rewrite ins_ids_pos in Epos by exact Hne. subst pos gs.
    unfold verify_ids in Ev. pose proof (first_err_none _ _ Ev) as Hall. cbn beta in Hall.
    assert (Hfacts : forall g, In g ids -> 0 <= g
              /\ (present = true -> b = rel s x)
              /\ verify_insert (sz s) (rel s) (mux_gsize s u) (gget s u (Z.to_nat g)) x b = None).
    { intros g Hg. specialize (Hall g Hg). unfold verify_gid in Hall.
      destruct (Z.ltb_spec g 0); [discriminate|]. destruct (mux_count s u <=? g); [discriminate|].
      destruct (fixed || membZ g prev); [discriminate|].
      destruct present; cbn [andb] in Hall.
      - destruct (Z.eqb_spec b (rel s x)); cbn [negb] in Hall; [|discriminate].
        split; [lia|split; [intros _; assumption|exact Hall]].
      - split; [lia|split; [intros; discriminate|exact Hall]]. }
    assert (Hb : attached s x -> b = rel s x).
    { intros A. destruct Hop as [NA|[P _]]; [contradiction|].
      destruct ids as [|g1 r1]; [congruence|]. destruct (Hfacts g1 (or_introl eq_refl)) as (_ & F & _). apply F. exact P. }
    apply InvA_attach_groups; try assumption.
    + apply vsig_lt; exact Hx.
    + apply vmux_lt; exact Hu.
    + intros L HL. destruct Hop as [NA|[_ C]]; [exfalso; apply NA; exists L; exact HL|apply C; exact HL].
    + apply ins_ids_length.
    + apply ins_ids_spec; try assumption.
      * apply (proj1 (dedup_spec (g0 :: gr) [])).
      * intros g Hg. apply (Hfacts g Hg).
      * intros g Hg. apply (Hfacts g Hg).
Qed.

(* --- multiplexer: shift ------------------------------------------------------------------------- *)

Lemma inv_mux_shift : forall (left : bool) s u x a, InvA s ->
  ok_op s (if left then OMuxShiftL u x a else OMuxShiftR u x a) ->
  InvA (fst (step_mux_shift left s u x a)).
Proof.
  intros left s u x a H Hop. unfold step_mux_shift.
  destruct (ugids s u x) as [ids|] eqn:Eids; [|exact H].
  destruct ids as [|g [|g2 r]]; [exact H| |exact H].
  assert (Huniq : forall g', In x (gget s u g') -> g' = Z.to_nat g).
  { destruct left; cbn [ok_op] in Hop; eapply Hop; eauto. }
  set (L0 := LG u (Z.to_nat g)).
  assert (Hone : forall L, In x (lay s L) -> In x (lay s L0) -> L = L0).
  { intros L HL H0. pose proof (a_excl s H L0 L x H0 HL) as E. destruct L as [m|u' g']; cbn in E; [contradiction|].
    subst u'. unfold L0. f_equal. apply Huniq. exact HL. }
  destruct left.
  - destruct (do_shift_left (sz s) (rel s) (gget s u (Z.to_nat g)) x a) as [pos d] eqn:E. cbn [fst].
    assert (Ep : pos = fst (do_shift_left (sz s) (rel s) (gget s u (Z.to_nat g)) x a)) by (rewrite E; reflexivity).
    apply (InvA_rel_one s L0); [exact H|rewrite Ep; apply ok_shift_left; apply (a_ok s H L0)|].
    intros y Hy. rewrite Ep in Hy.
    destruct (Nat.eq_dec y x) as [->|NE]; [|exfalso; apply Hy; apply do_shift_left_frame; exact NE].
    destruct (in_dec Nat.eq_dec x (gget s u (Z.to_nat g))) as [Hin|Hn]; [|exfalso; apply Hy; rewrite do_shift_left_notin by exact Hn; reflexivity].
    split; [exact Hin|]. intros L HL. apply Hone; assumption.
  - destruct (do_shift_right (sz s) (rel s) (mux_gsize s u) (gget s u (Z.to_nat g)) x a) as [pos d] eqn:E. cbn [fst].
    assert (Ep : pos = fst (do_shift_right (sz s) (rel s) (mux_gsize s u) (gget s u (Z.to_nat g)) x a)) by (rewrite E; reflexivity).
    apply (InvA_rel_one s L0); [exact H|rewrite Ep; apply ok_shift_right; apply (a_ok s H L0)|].
    intros y Hy. rewrite Ep in Hy.
    destruct (Nat.eq_dec y x) as [->|NE]; [|exfalso; apply Hy; apply do_shift_right_frame; exact NE].
    destruct (in_dec Nat.eq_dec x (gget s u (Z.to_nat g))) as [Hin|Hn]; [|exfalso; apply Hy; rewrite do_shift_right_notin by exact Hn; reflexivity].
    split; [exact Hin|]. intros L HL. apply Hone; assumption.
Qed.

(* --- size change of one signal ---------------------------------------------------------------- *)

(* the per-group loop of modifySignalSize on positions only *)
Fixpoint mg_pos (len : nat -> Z) (gsize : Z) (grp : nat -> list nat) (x : nat) (a : Z) (gs : list nat)
  (pos : nat -> Z) : (nat -> Z) * option cause :=
  match gs with
  | [] => (pos, None)
  | g :: r =>
    let '(e, pos') := if 0 <? a then do_grow len pos gsize (grp g) x a else do_shrink len pos (grp g) x (- a) in
    match e with
    | Some c => (pos, Some c)
    | None => mg_pos len gsize grp x a r pos'
    end
  end.

Lemma modify_groups_pos : forall gs s u x a,
  modify_groups s u x a gs =
  (set_rel s (fst (mg_pos (sz s) (mux_gsize s u) (gget s u) x a gs (rel s))),
   snd (mg_pos (sz s) (mux_gsize s u) (gget s u) x a gs (rel s))).
Proof.
  induction gs as [|g r IH]; intros s u x a; cbn [modify_groups mg_pos].
  - cbn. destruct s; reflexivity.
  - destruct (if 0 <? a then do_grow (sz s) (rel s) (mux_gsize s u) (gget s u g) x a
              else do_shrink (sz s) (rel s) (gget s u g) x (- a)) as [e pos'] eqn:E.
    destruct e as [c|]; [cbn; destruct s; reflexivity|].
    rewrite IH. reflexivity.
Qed.

Definition ok_all (s : state) (p len : nat -> Z) : Prop := forall L, ok p len 0 (lsz s L) (lay s L).

Lemma set_rel_id : forall s, s = set_rel s (rel s).
Proof. destruct s; reflexivity. Qed.

(* The size of x changes by a, starting from positions p0 that are well-formed for the size
   function lenG (lenG agrees with the state's sizes on the layouts holding x): what
   signal.modifySize leaves behind. *)
Definition modify_post (s : state) (x : nat) (a : Z) (p0 lenG : nat -> Z) (s1 : state) (r : vres) : Prop :=
  exists p, s1 = set_rel s p
    /\ (r = VOk -> ok_all s p (upd lenG x (sz s x + a)))
    /\ (r <> VOk -> ok_all s p lenG)
    /\ (forall y, p y <> p0 y ->
          exists L, In y (moved_in (sz s) p0 (lay s L) x a) /\ forall L', In y (lay s L') -> L' = L).

Section Resize.
  Variable s : state.
  Variable x : nat.
  Variable a : Z.
  Variables p0 lenG : nat -> Z.
  Hypothesis HI : InvA s.
  Hypothesis Hcur : ok_all s p0 lenG.
  (* lenG is the state's size for x; on growth also for everything that shares a layout with x
     (the space accounting of the code reads the state's sizes) *)
  Hypothesis HlenX : lenG x = sz s x.
  Hypothesis Hagree : 0 < a -> forall L, In x (lay s L) -> forall t, In t (lay s L) -> lenG t = sz s t.
  Hypothesis Hnew : 1 <= sz s x + a.

  Let len' := upd lenG x (sz s x + a).

  (* the layout L holding x, seen with the state's sizes *)
  Lemma cur_ok_sz : 0 < a -> forall L, In x (lay s L) -> ok p0 (sz s) 0 (lsz s L) (lay s L).
  Proof.
    intros Hpos L HL. eapply ok_ext; [|apply (Hcur L)]. intros t Ht. split; [reflexivity|]. symmetry. apply (Hagree Hpos L HL t Ht).
  Qed.

  Lemma to_len' : 0 < a -> forall L p, In x (lay s L) -> ok p (upd (sz s) x (sz s x + a)) 0 (lsz s L) (lay s L) ->
    ok p len' 0 (lsz s L) (lay s L).
  Proof.
    intros Hpos L p HL Hok. eapply ok_ext; [|exact Hok]. intros t Ht. split; [reflexivity|].
    unfold len', upd. destruct (Nat.eqb_spec t x); [reflexivity|]. apply (Hagree Hpos L HL t Ht).
  Qed.

  (* shrinking does not read the sizes of the other signals *)
  Lemma shrink_len' : a < 0 -> forall l lo size p, ok p lenG lo size l -> In x l ->
    ok (shrink_loop p l x (- a) false) len' lo size l.
  Proof.
    intros Hneg l lo size p Hok Hin. unfold len'. replace (sz s x + a) with (lenG x - - a) by lia.
    apply ok_shrink; try assumption; lia.
  Qed.

  Lemma post_same : forall r, (r = VOk -> a = 0 \/ ~ attached s x) -> modify_post s x a p0 lenG (set_rel s p0) r.
  Proof.
    intros r Hr. exists p0. split; [reflexivity|]. split; [|split; [intros _; exact Hcur|intros y C; congruence]].
    intros E L. eapply ok_ext; [|apply (Hcur L)]. intros t Ht. split; [reflexivity|].
    unfold upd. destruct (Nat.eqb_spec t x) as [->|]; [|reflexivity].
    destruct (Hr E) as [->|Hfree]; [rewrite HlenX; lia|]. exfalso. apply Hfree. exists L. exact Ht.
  Qed.

  (* one layout L0 holds x; only its elements move *)
  Lemma post_one : forall L0 p,
    In x (lay s L0) -> (forall L, In x (lay s L) -> L = L0) ->
    ok p len' 0 (lsz s L0) (lay s L0) ->
    (forall y, p y <> p0 y -> In y (moved_in (sz s) p0 (lay s L0) x a) /\ forall L, In y (lay s L) -> L = L0) ->
    modify_post s x a p0 lenG (set_rel s p) VOk.
  Proof.
    intros L0 p H0 Honly Hok Hfr. exists p. split; [reflexivity|]. split; [|split; [intros C; congruence|]].
    - intros _ L. destruct (classic_lid L L0) as [->|NE]; [exact Hok|].
      eapply ok_ext; [|apply (Hcur L)]. intros t Ht. split.
      + destruct (Z.eq_dec (p t) (p0 t)) as [E|NE']; [exact E|]. destruct (Hfr t NE') as [_ U]. exfalso. apply NE. apply U. exact Ht.
      + unfold upd. destruct (Nat.eqb_spec t x) as [->|]; [|reflexivity]. exfalso. apply NE. apply Honly. exact Ht.
    - intros y Hy. destruct (Hfr y Hy) as [Hin Hex]. exists L0. split; [exact Hin|exact Hex].
  Qed.

  (* --- message path --- *)
  Lemma msg_modify_post : forall m, (forall L, In x (lay s L) -> L = LM m) ->
    (In x (glay s m) -> memb x (gsigs s m) = true) ->
    modify_post s x a p0 lenG (fst (msg_modify_size (set_rel s p0) m x a)) (snd (msg_modify_size (set_rel s p0) m x a))
    /\ (a < 0 -> In x (glay s m) -> snd (msg_modify_size (set_rel s p0) m x a) = VOk).
  Proof.
    intros m Honly Hreg. unfold msg_modify_size.
    change (sz (set_rel s p0)) with (sz s). change (rel (set_rel s p0)) with p0.
    change (gsigs (set_rel s p0) m) with (gsigs s m). change (glsize (set_rel s p0) m) with (glsize s m).
    change (glay (set_rel s p0) m) with (glay s m).
    destruct (Z.eqb_spec a 0) as [E0|Ha]; [split; [apply post_same; intros _; left; exact E0|intros; lia]|].
    destruct (in_dec Nat.eq_dec x (glay s m)) as [Hin|Hn].
    - rewrite (Hreg Hin). cbn [negb].
      destruct (followers (glay s m) x) as [fs|] eqn:Hf; [|apply followers_None in Hf; contradiction].
      assert (Hfs : forall y, In y fs -> In y (lay s (LM m)) /\ forall L, In y (lay s L) -> L = LM m).
      { intros y Hy. destruct (followers_In _ _ _ Hf) as [_ B]. split; [apply B; exact Hy|].
        intros L HL. eapply msg_only; [exact HI|apply B; exact Hy|exact HL]. }
      destruct (Z.ltb_spec 0 a) as [Hpos|Hneg].
      + split; [|intros; lia].
        pose proof (cur_ok_sz Hpos (LM m) Hin) as Hok. cbn [lay lsz] in Hok.
        destruct (do_grow (sz s) p0 (glsize s m) (glay s m) x a) as [e p] eqn:E.
        assert (Ee : e = fst (do_grow (sz s) p0 (glsize s m) (glay s m) x a)) by (rewrite E; reflexivity).
        assert (Ep : p = snd (do_grow (sz s) p0 (glsize s m) (glay s m) x a)) by (rewrite E; reflexivity).
        destruct e as [c|]; cbn [fst snd]; [apply post_same; discriminate|].
        symmetry in Ee. apply do_grow_ok_iff in Ee; [|exact Ha].
        replace (set_rel (set_rel s p0) p) with (set_rel s p) by reflexivity.
        apply (post_one (LM m)); [exact Hin|exact Honly|apply (to_len' Hpos (LM m) p Hin); rewrite Ep; apply ok_grow; assumption|].
        intros y Hy. rewrite Ep in Hy. cbn [lay].
        destruct (in_dec Nat.eq_dec y (moved_in (sz s) p0 (glay s m) x a)) as [Hyf|Hyn].
        { split; [exact Hyf|]. apply Hfs. unfold moved_in in Hyf. destruct (a =? 0); [contradiction|]. rewrite Hf in Hyf.
          destruct (0 <? a); [eapply reached_incl; exact Hyf|exact Hyf]. }
        exfalso. apply Hy. apply do_grow_frame_moved; [exact Hpos|exact Hyn].
      + assert (Hlt : a < 0) by lia. unfold do_shrink. destruct (Z.eqb_spec (- a) 0); [lia|].
        assert (Ev : verify_shrink (sz s) x (- a) = None).
        { unfold verify_shrink. destruct (Z.ltb_spec (- a) 0); [lia|].
          destruct (Z.ltb_spec (sz s x - - a) 0); [lia|]. destruct (Z.eqb_spec (sz s x - - a) 0); [lia|reflexivity]. }
        rewrite Ev. cbn [fst snd]. split; [|reflexivity].
        replace (set_rel (set_rel s p0) (shrink_loop p0 (glay s m) x (- a) false))
          with (set_rel s (shrink_loop p0 (glay s m) x (- a) false)) by reflexivity.
        apply (post_one (LM m)); [exact Hin|exact Honly| |].
        * apply (shrink_len' Hlt (glay s m) 0 (glsize s m) p0 (Hcur (LM m)) Hin).
        * intros y Hy. cbn [lay].
          destruct (in_dec Nat.eq_dec y (moved_in (sz s) p0 (glay s m) x a)) as [Hyf|Hyn].
          { split; [exact Hyf|]. apply Hfs. unfold moved_in in Hyf. destruct (a =? 0); [contradiction|]. rewrite Hf in Hyf.
            destruct (0 <? a); [eapply reached_incl; exact Hyf|exact Hyf]. }
          exfalso. apply Hy. apply (shrink_frame_moved p0 (sz s)); [exact Hlt|exact Hyn].
    - (* x is not placed in the message: nothing moves *)
      assert (Hfree : ~ attached s x).
      { intros [L HL]. pose proof (Honly L HL). subst L. contradiction. }
      assert (Hnf : followers (glay s m) x = None) by (apply followers_None; exact Hn).
      split; [|intros; contradiction].
      destruct (negb (memb x (gsigs s m))); [apply post_same; discriminate|].
      destruct (Z.ltb_spec 0 a) as [Hpos|Hneg].
      + unfold do_grow. destruct (Z.eqb_spec a 0); [lia|].
        destruct (verify_grow (sz s) p0 (glsize s m) (glay s m) x a); cbn [fst snd]; [apply post_same; discriminate|].
        rewrite Hnf. cbn [fst snd]. apply post_same. intros _. right. exact Hfree.
      + unfold do_shrink. destruct (Z.eqb_spec (- a) 0); [lia|].
        destruct (verify_shrink (sz s) x (- a)); cbn [fst snd]; [apply post_same; discriminate|].
        destruct (post_same VOk (fun _ => or_intror Hfree)) as [p [Ep R]].
        assert (p = p0) by (inversion Ep; reflexivity). subst p.
        exists (shrink_loop p0 (glay s m) x (- a) false). split; [reflexivity|].
        assert (Esh : forall y, shrink_loop p0 (glay s m) x (- a) false y = p0 y).
        { intros y. apply shrink_loop_false_frame. intros fs E'. congruence. }
        destruct R as (R1 & R2 & R3). split; [|split].
        * intros E L. eapply ok_ext; [|apply (R1 E L)]. intros t _. split; [apply Esh|reflexivity].
        * intros C. congruence.
        * intros y Hy. rewrite Esh in Hy. congruence.
  Qed.

  (* --- multiplexer path --- *)
  Variable u : nat.
  Hypothesis Ha : a <> 0.
  Hypothesis Hsingle : single_moved s p0 x a.
  Hypothesis Hshrink : a < 0 -> verify_shrink (sz s) x (- a) = None.
  Let gsz := mux_gsize s u.

  (* the signals the change moves in group g (computed on the positions before the change) *)
  Definition mvg (g : nat) : list nat := moved_in (sz s) p0 (gget s u g) x a.

  Lemma mover_only : forall g y, In y (mvg g) -> forall L, In y (lay s L) -> L = LG u g.
  Proof.
    intros g y Hy L HL.
    assert (Hyg : In y (gget s u g)) by (destruct (moved_in_In _ _ _ _ _ _ Hy) as [_ B]; exact B).
    pose proof (a_excl s HI (LG u g) L y Hyg HL) as E. destruct L as [m|u' g']; cbn in E; [contradiction|].
    subst u'. f_equal. eapply Hsingle; eauto.
  Qed.

  Definition Mixed (p : nat -> Z) (done : list nat) : Prop :=
    (forall g, In g done -> In x (gget s u g) -> ok p len' 0 gsz (gget s u g))
    /\ (forall L, ~ (exists g, L = LG u g /\ In g done /\ In x (gget s u g)) -> ok p lenG 0 (lsz s L) (lay s L))
    /\ (forall y, p y <> p0 y -> exists g, In g done /\ In y (mvg g)).

  Lemma mixed_init : Mixed p0 [].
  Proof.
    split; [intros g []|]. split; [|intros y C; congruence].
    intros L _. apply (Hcur L).
  Qed.

  (* one group *)
  Lemma mixed_step : forall p done g,
    Mixed p done -> ~ In g done ->
    let '(e, p') := if 0 <? a then do_grow (sz s) p gsz (gget s u g) x a else do_shrink (sz s) p (gget s u g) x (- a) in
    (e = None -> Mixed p' (g :: done)) /\ (e <> None -> 0 < a)
    /\ (0 < a -> verify_grow (sz s) p0 gsz (gget s u g) x a = None -> e = None).
  Proof.
    intros p done g (M1 & M2 & M3) Hnd.
    (* the group not yet visited still has the positions it had before the change *)
    assert (Hpg : forall t, In t (gget s u g) -> p t = p0 t).
    { intros t Ht. destruct (Z.eq_dec (p t) (p0 t)) as [E|NE]; [exact E|]. exfalso.
      destruct (M3 t NE) as [g1 [Hd1 Hm1]]. pose proof (mover_only g1 t Hm1 (LG u g) Ht) as E. inversion E; subst. contradiction. }
    assert (Hmv : moved_in (sz s) p (gget s u g) x a = mvg g).
    { unfold mvg. apply moved_in_ext. intros t Ht. split; [apply Hpg; exact Ht|reflexivity]. }
    (* so the space check of this group gives what it gave before the change *)
    assert (Hver : 0 < a -> verify_grow (sz s) p0 gsz (gget s u g) x a = None ->
                   fst (do_grow (sz s) p gsz (gget s u g) x a) = None).
    { intros _ Hv. apply do_grow_ok_iff; [exact Ha|]. rewrite <- Hv. apply verify_grow_ext.
      intros t Ht. split; [apply Hpg; exact Ht|reflexivity]. }
    assert (M3' : forall p', (forall y, ~ In y (mvg g) -> p' y = p y) -> forall y, p' y <> p0 y -> exists g', In g' (g :: done) /\ In y (mvg g')).
    { intros p' Hfr y Hy. destruct (in_dec Nat.eq_dec y (mvg g)) as [Hyf|Hyn]; [exists g; split; [left; reflexivity|exact Hyf]|].
      rewrite (Hfr y Hyn) in Hy. destruct (M3 y Hy) as [g' [Hd Hm]]. exists g'. split; [right; exact Hd|exact Hm]. }
    destruct (in_dec Nat.eq_dec x (gget s u g)) as [Hin|Hn].
    - (* x is in the group *)
      assert (HokG : ok p lenG 0 gsz (gget s u g)).
      { apply (M2 (LG u g)). intros [g' [E [Hd _]]]. inversion E; subst. contradiction. }
      assert (Hframe_ok : forall p', (forall y, ~ In y (mvg g) -> p' y = p y) ->
                 ok p' len' 0 gsz (gget s u g) -> Mixed p' (g :: done)).
      { intros p' Hfr Hok'. split; [|split].
        - intros g' [<-|Hd] Hx'; [exact Hok'|].
          eapply ok_ext; [|apply (M1 g' Hd Hx')]. intros t Ht. split; [|reflexivity]. apply Hfr.
          intros Hfs. pose proof (mover_only g t Hfs (LG u g') Ht) as E. inversion E; subst. contradiction.
        - intros L HL. assert (HL' : ~ (exists g', L = LG u g' /\ In g' done /\ In x (gget s u g'))).
          { intros [g' [E [Hd Hx']]]. apply HL. exists g'. split; [exact E|split; [right; exact Hd|exact Hx']]. }
          eapply ok_ext; [|apply (M2 L HL')]. intros t Ht. split; [|reflexivity]. apply Hfr.
          intros Hfs. pose proof (mover_only g t Hfs L Ht) as E. subst L.
          apply HL. exists g. split; [reflexivity|split; [left; reflexivity|exact Hin]].
        - apply M3'. exact Hfr. }
      destruct (Z.ltb_spec 0 a) as [Hpos|Hneg].
      + (* grow *)
        destruct (do_grow (sz s) p gsz (gget s u g) x a) as [e p'] eqn:E.
        assert (Ee : e = fst (do_grow (sz s) p gsz (gget s u g) x a)) by (rewrite E; reflexivity).
        assert (Ep : p' = snd (do_grow (sz s) p gsz (gget s u g) x a)) by (rewrite E; reflexivity).
        split; [|split; [intros _; exact Hpos|intros Hp Hv; exact (Hver Hp Hv)]].
        intros ->. symmetry in Ee. apply do_grow_ok_iff in Ee; [|exact Ha].
        assert (Hokg : ok p (sz s) 0 gsz (gget s u g)).
        { eapply ok_ext; [|exact HokG]. intros t Ht. split; [reflexivity|]. symmetry. apply (Hagree Hpos (LG u g) Hin t Ht). }
        apply Hframe_ok.
        * intros y Hy. rewrite Ep. apply do_grow_frame_moved; [exact Hpos|]. rewrite Hmv. exact Hy.
        * apply (to_len' Hpos (LG u g) p' Hin). rewrite Ep. apply ok_grow; assumption.
      + (* shrink *)
        assert (Hlt : a < 0) by lia. specialize (Hshrink Hlt).
        unfold do_shrink. destruct (Z.eqb_spec (- a) 0); [lia|]. rewrite Hshrink.
        split; [|split; [intros C; congruence|intros C; lia]]. intros _.
        apply Hframe_ok.
        * intros y Hy. apply (shrink_frame_moved p (sz s)); [exact Hlt|]. rewrite Hmv. exact Hy.
        * apply (shrink_len' Hlt (gget s u g) 0 gsz p HokG Hin).
    - (* x is not in the group: nothing moves *)
      assert (Hsame : Mixed p (g :: done)).
      { split; [|split].
        - intros g' [<-|Hd] Hx'; [contradiction|apply M1; assumption].
        - intros L HL. apply M2. intros [g' [E [Hd Hx']]]. apply HL. exists g'. split; [exact E|split; [right; exact Hd|exact Hx']].
        - apply (M3' p). intros; reflexivity. }
      destruct (Z.ltb_spec 0 a) as [Hpos|Hneg].
      + destruct (do_grow (sz s) p gsz (gget s u g) x a) as [e p'] eqn:E.
        assert (Ep : p' = p).
        { assert (Ep : p' = snd (do_grow (sz s) p gsz (gget s u g) x a)) by (rewrite E; reflexivity).
          rewrite Ep. unfold do_grow. destruct (a =? 0); [reflexivity|].
          destruct (verify_grow (sz s) p gsz (gget s u g) x a); [reflexivity|].
          apply followers_None in Hn. rewrite Hn. reflexivity. }
        assert (Ee : e = fst (do_grow (sz s) p gsz (gget s u g) x a)) by (rewrite E; reflexivity).
        subst p'. split; [intros _; exact Hsame|split; [intros _; exact Hpos|intros Hp Hv; exact (Hver Hp Hv)]].
      + assert (Hlt : a < 0) by lia. specialize (Hshrink Hlt).
        unfold do_shrink. destruct (Z.eqb_spec (- a) 0); [lia|]. rewrite Hshrink.
        split; [|split; [intros C; congruence|intros C; lia]]. intros _.
        assert (E : forall y, shrink_loop p (gget s u g) x (- a) false y = p y).
        { intros y. apply shrink_loop_false_frame. intros fs Hfs. apply followers_None in Hn. congruence. }
        destruct Hsame as (S1 & S2 & S3). split; [|split].
        * intros g' Hd Hx'. eapply ok_ext; [|apply (S1 g' Hd Hx')]. intros t _. split; [apply E|reflexivity].
        * intros L HL. eapply ok_ext; [|apply (S2 L HL)]. intros t _. split; [apply E|reflexivity].
        * intros y Hy. rewrite E in Hy. apply S3. exact Hy.
  Qed.

  Lemma mixed_loop : forall gs p done,
    Mixed p done -> NoDup gs -> (forall g, In g gs -> ~ In g done) ->
    let '(p', e) := mg_pos (sz s) gsz (gget s u) x a gs p in
    (e = None -> Mixed p' (rev gs ++ done)) /\ (e <> None -> 0 < a /\ exists done', Mixed p' done')
    /\ (0 < a -> (forall g, In g gs -> verify_grow (sz s) p0 gsz (gget s u g) x a = None) -> e = None).
  Proof.
    induction gs as [|g r IH]; intros p done HM Hnd Hdis; cbn [mg_pos].
    - split; [intros _; exact HM|split; [intros C; congruence|intros _ _; reflexivity]].
    - inversion Hnd as [|? ? Hng Hnd']; subst.
      pose proof (mixed_step p done g HM (Hdis g (or_introl eq_refl))) as St.
      destruct (if 0 <? a then do_grow (sz s) p gsz (gget s u g) x a else do_shrink (sz s) p (gget s u g) x (- a)) as [e p1].
      destruct St as [St1 [St2 St3]]. destruct e as [c|].
      + split; [discriminate|]. split.
        * intros _. split; [apply St2; discriminate|exists done; exact HM].
        * intros Hpos Hall. specialize (St3 Hpos (Hall g (or_introl eq_refl))). discriminate.
      + specialize (St1 eq_refl).
        assert (Hdis' : forall g', In g' r -> ~ In g' (g :: done)).
        { intros g' Hg' [<-|Hd]; [contradiction|]. apply (Hdis g' (or_intror Hg')). exact Hd. }
        pose proof (IH p1 (g :: done) St1 Hnd' Hdis') as R.
        destruct (mg_pos (sz s) gsz (gget s u) x a r p1) as [p' e].
        cbn [rev]. rewrite <- app_assoc. cbn [app]. destruct R as [R1 [R2 R3]].
        split; [exact R1|split; [exact R2|]]. intros Hpos Hall. apply (R3 Hpos). intros g' Hg'. apply Hall. right; exact Hg'.
  Qed.

  Lemma classic_mixed : forall L done,
    (exists g, L = LG u g /\ In g done /\ In x (gget s u g)) \/ ~ (exists g, L = LG u g /\ In g done /\ In x (gget s u g)).
  Proof.
    intros [m|u' g] done; [right; intros [g [E _]]; discriminate|].
    destruct (Nat.eq_dec u' u) as [->|NE]; [|right; intros [g' [E _]]; inversion E; congruence].
    destruct (in_dec Nat.eq_dec g done) as [Hd|Hd]; [|right; intros [g' [E [Hd' _]]]; inversion E; subst; contradiction].
    destruct (in_dec Nat.eq_dec x (gget s u g)) as [Hx|Hx]; [|right; intros [g' [E [_ Hx']]]; inversion E; subst; contradiction].
    left. exists g. auto.
  Qed.

  (* a Mixed state is well-formed for the old sizes when the signal grows *)
  Lemma mixed_old : forall p done, 0 < a -> Mixed p done -> ok_all s p lenG.
  Proof.
    intros p done Hpos (M1 & M2 & M3) L.
    destruct (classic_mixed L done) as [[g [-> [Hd Hx]]]|HL]; [|apply M2; exact HL].
    pose proof (M1 g Hd Hx) as Hok.
    eapply ok_len_le; [|exact Hok]. intros t Ht. unfold len', upd.
    destruct (Nat.eqb_spec t x) as [->|NE].
    - rewrite HlenX. pose proof (a_size s HI x). lia.
    - pose proof (ok_In _ _ _ _ _ _ Hok Ht) as B. unfold len' in B. rewrite upd_other in B by exact NE. lia.
  Qed.

  Lemma mixed_movers : forall p done y, Mixed p done -> p y <> p0 y ->
    exists L, In y (moved_in (sz s) p0 (lay s L) x a) /\ forall L', In y (lay s L') -> L' = L.
  Proof.
    intros p done y (_ & _ & M3) Hy. destruct (M3 y Hy) as [g [_ Hm]].
    exists (LG u g). split; [exact Hm|]. intros L' HL'. apply (mover_only g y Hm L' HL').
  Qed.
End Resize.

Lemma verify_shrink_ok : forall len x a, 0 < a -> 1 <= len x - a -> verify_shrink len x a = None.
Proof.
  intros len x a Ha Hn. unfold verify_shrink. destruct (Z.ltb_spec a 0); [lia|].
  destruct (Z.ltb_spec (len x - a) 0); [lia|]. destruct (Z.eqb_spec (len x - a) 0); [lia|reflexivity].
Qed.

Lemma verify_groups_shrink : forall s u x a gs, a < 0 -> 1 <= sz s x + a -> verify_groups s u x a gs = None.
Proof.
  intros s u x a gs Hneg Hnew. induction gs as [|g r IH]; cbn [verify_groups]; [reflexivity|].
  destruct (Z.ltb_spec 0 a); [lia|]. rewrite verify_shrink_ok by lia. exact IH.
Qed.

Lemma mux_modify_post : forall s x a p0 lenG u, InvA s -> ok_all s p0 lenG ->
  lenG x = sz s x ->
  (0 < a -> forall L, In x (lay s L) -> forall t, In t (lay s L) -> lenG t = sz s t) ->
  1 <= sz s x + a -> single_moved s p0 x a ->
  (forall L, In x (lay s L) -> exists g, L = LG u g /\ forall gs, groups_of s u x = Some gs -> In g gs) ->
  (forall gs, groups_of s u x = Some gs -> NoDup gs) ->
  modify_post s x a p0 lenG (fst (mux_modify_size (set_rel s p0) u x a)) (snd (mux_modify_size (set_rel s p0) u x a))
  /\ (a < 0 -> memb x (usigs s u) = true -> groups_of s u x <> None -> snd (mux_modify_size (set_rel s p0) u x a) = VOk).
Proof.
  intros s x a p0 lenG u H Hcur HlenX Hagree Hnew Hsingle Hcont Hnd. unfold mux_modify_size, mux_verify_size.
  change (usigs (set_rel s p0) u) with (usigs s u). change (groups_of (set_rel s p0) u x) with (groups_of s u x).
  destruct (Z.eqb_spec a 0) as [E0|Ha]; [split; [apply post_same; try assumption; intros _; left; exact E0|intros; lia]|].
  destruct (memb x (usigs s u)) eqn:Emem; cbn [negb]; [|split; [apply post_same; try assumption; discriminate|intros; discriminate]].
  destruct (groups_of s u x) as [gs|] eqn:Eg; [|split; [apply post_same; try assumption; discriminate|intros; congruence]].
  assert (Evg : a < 0 -> verify_groups (set_rel s p0) u x a gs = None).
  { intros Hneg. apply verify_groups_shrink; [exact Hneg|exact Hnew]. }
  destruct (verify_groups (set_rel s p0) u x a gs) eqn:Ev.
  { split; [apply post_same; try assumption; discriminate|]. intros Hneg _ _. specialize (Evg Hneg). discriminate. }
  rewrite modify_groups_pos. cbn [fst snd].
  change (sz (set_rel s p0)) with (sz s). change (mux_gsize (set_rel s p0) u) with (mux_gsize s u).
  change (gget (set_rel s p0) u) with (gget s u). change (rel (set_rel s p0)) with p0.
  assert (Hshrink : a < 0 -> verify_shrink (sz s) x (- a) = None).
  { intros Hneg. apply verify_shrink_ok; lia. }
  pose proof (mixed_loop s x a p0 lenG H HlenX Hagree Hnew u Ha Hsingle Hshrink gs p0 []
                (mixed_init s x a p0 lenG Hcur u) (Hnd _ eq_refl) (fun g _ Hin => Hin)) as R.
  destruct (mg_pos (sz s) (mux_gsize s u) (gget s u) x a gs p0) as [p' e]. cbn [fst snd].
  destruct R as [R1 [R2 R3]].
  replace (set_rel (set_rel s p0) p') with (set_rel s p') by reflexivity.
  split.
  - exists p'. split; [reflexivity|]. split; [|split].
    + intros E. destruct e; [discriminate|]. specialize (R1 eq_refl). destruct R1 as (M1 & M2 & M3).
      intros L. destruct (in_dec Nat.eq_dec x (lay s L)) as [Hin|Hn].
      * destruct (Hcont L Hin) as [g [-> Hg]]. apply (M1 g); [|exact Hin].
        rewrite app_nil_r. apply in_rev. rewrite rev_involutive. apply Hg. reflexivity.
      * eapply ok_ext; [|apply (M2 L)].
        -- intros t Ht. split; [reflexivity|]. apply upd_other. intros ->. contradiction.
        -- intros [g [-> [_ Hx]]]. apply Hn. exact Hx.
    + intros E. destruct e as [c|]; [|congruence]. destruct (R2 ltac:(discriminate)) as [Hpos [done' HM]].
      eapply mixed_old with (p := p') (done := done'); eassumption.
    + intros y Hy. destruct e as [c|].
      * destruct (R2 ltac:(discriminate)) as [_ [done' HM]]. eapply (mixed_movers s x a p0 lenG H u Hsingle p' done'); eassumption.
      * eapply (mixed_movers s x a p0 lenG H u Hsingle p' (rev gs ++ [])); [apply (R1 eq_refl)|exact Hy].
  - intros Hneg _ _. destruct e as [c|]; [|reflexivity]. destruct (R2 ltac:(discriminate)) as [Hpos _]. lia.
Qed.

Lemma vres_ok_dec : forall r : vres, r = VOk \/ r <> VOk.
Proof. destruct r; [left; reflexivity|right; discriminate|right; discriminate]. Qed.

(* signal.modifySize under the link hypothesis *)
Lemma sig_modify_post : forall s x a p0 lenG, InvA s -> ok_all s p0 lenG ->
  lenG x = sz s x ->
  (0 < a -> forall L, In x (lay s L) -> forall t, In t (lay s L) -> lenG t = sz s t) ->
  1 <= sz s x + a -> link_ok s x -> single_moved s p0 x a ->
  modify_post s x a p0 lenG (fst (sig_modify_size (set_rel s p0) x a)) (snd (sig_modify_size (set_rel s p0) x a))
  /\ (a < 0 -> snd (sig_modify_size (set_rel s p0) x a) = VOk).
Proof.
  intros s x a p0 lenG H Hcur HlenX Hagree Hnew (Ltop & Lgrp & Lnd & Lfree & _) Hsingle. unfold sig_modify_size.
  change (pmux (set_rel s p0) x) with (pmux s x). change (pmsg (set_rel s p0) x) with (pmsg s x).
  destruct (pmux s x) as [u|] eqn:Epu.
  - destruct (mux_modify_post s x a p0 lenG u H Hcur HlenX Hagree Hnew Hsingle) as [A B].
    + intros L HL. destruct L as [m|u' g].
      * destruct (Ltop m HL) as [C _]. congruence.
      * destruct (Lgrp u' g HL) as (P & _ & gs & Eg & Hg). assert (u' = u) by congruence. subst u'.
        exists g. split; [reflexivity|]. intros gs' Eg'. assert (gs' = gs) by congruence. subst. exact Hg.
    + intros gs Eg. eapply Lnd; eauto.
    + split; [exact A|]. intros Hneg.
      destruct (vres_ok_dec (snd (mux_modify_size (set_rel s p0) u x a))) as [E|NE]; [exact E|]. exfalso.
      assert (NA : ~ attached s x).
      { intros [L0 HL0]. destruct L0 as [m0|u0 g0]; [destruct (Ltop m0 HL0) as [C _]; congruence|].
        destruct (Lgrp u0 g0 HL0) as (P0 & Mem0 & gs0 & Eg0 & _). assert (u0 = u) by congruence. subst u0.
        apply NE. apply B; [exact Hneg|exact Mem0|congruence]. }
      destruct (Lfree NA) as [C _]. congruence.
  - destruct (pmsg s x) as [m|] eqn:Epm.
    + destruct (msg_modify_post s x a p0 lenG H Hcur HlenX Hagree Hnew m) as [A B].
      * intros L HL. destruct L as [m'|u g].
        -- destruct (Ltop m' HL) as (_ & P & _). congruence.
        -- destruct (Lgrp u g HL) as (P & _). congruence.
      * intros Hin. apply (Ltop m Hin).
      * split; [exact A|]. intros Hneg.
        destruct (in_dec Nat.eq_dec x (glay s m)) as [Hin|Hn]; [apply B; assumption|].
        (* registered in m but not placed: by the link hypothesis x is then unattached, so m is not its parent *)
        exfalso. assert (NA : ~ attached s x).
        { intros [L HL]. destruct L as [m'|u g].
          - destruct (Ltop m' HL) as (_ & P & _). assert (m' = m) by congruence. subst. contradiction.
          - destruct (Lgrp u g HL) as (P & _). congruence. }
        destruct (Lfree NA) as [_ C]. congruence.
    + split; [|reflexivity]. cbn [fst snd]. apply post_same; try assumption. intros _. right. intros [L HL]. destruct L as [m|u g].
      * destruct (Ltop m HL) as (_ & P & _). congruence.
      * destruct (Lgrp u g HL) as (P & _). congruence.
Qed.

(* a state whose layouts (lists) are those of s, with positions p and sizes len' *)
Lemma InvA_resized : forall s s' len',
  InvA s ->
  nsig s' = nsig s -> glsize s' = glsize s -> gbytes s' = gbytes s -> nmsg s' = nmsg s ->
  glay s' = glay s -> ugroups s' = ugroups s ->
  (forall L y, In y (lay s L) -> sz s' y = len' y) -> (forall u, mux_gsize s' u = mux_gsize s u) ->
  ok_all s (rel s') len' -> (forall y, 1 <= sz s' y) ->
  (forall e, 0 <= emax s' e) ->
  (forall y e, (y < nsig s)%nat -> kind s' y = KEnum e -> In y (erefs s' e)) ->
  (forall y e, In y (erefs s' e) -> kind s' y = KEnum e /\ (y < nsig s)%nat) ->
  (forall e, NoDup (erefs s' e)) ->
  (forall e v, In v (evals s' e) -> vpar s' v = Some e /\ vidx s' v <= emax s' e /\ (v < nval s')%nat) ->
  InvA s'.
Proof.
  intros s s' len' H En Els Egb Enm Egl Eug Hsz Hgs Hok Hpos Hemax Hrefs Hrefs2 Hrnd Hvals.
  assert (Hlay : forall L, lay s' L = lay s L).
  { intros [m|u g]; cbn [lay]; unfold gget; rewrite ?Egl, ?Eug; reflexivity. }
  assert (Hlsz : forall L, lsz s' L = lsz s L).
  { intros [m|u g]; cbn [lsz]; [rewrite Els; reflexivity|apply Hgs]. }
  constructor.
  - intros L. rewrite Hlay, Hlsz. eapply ok_ext; [|apply (Hok L)]. intros t Ht. split; [reflexivity|apply (Hsz L t Ht)].
  - intros m. rewrite Els, Egb. apply (a_lsize s H).
  - intros L L' y. rewrite !Hlay. apply (a_excl s H).
  - exact Hemax.
  - intros L y. rewrite Hlay, En. apply (a_alloc s H).
  - intros u. rewrite En, Eug. apply (a_unalloc s H).
  - intros m. rewrite Enm, Egl. apply (a_munalloc s H).
  - intros y e. rewrite En. apply Hrefs.
  - intros y e. rewrite En. apply Hrefs2.
  - exact Hrnd.
  - exact Hvals.
  - exact Hpos.
Qed.

Lemma InvA_set_rel : forall s p, InvA s -> ok_all s p (sz s) -> InvA (set_rel s p).
Proof.
  intros s p H Hok. eapply (InvA_resized s _ (sz s) H); try reflexivity; try assumption.
  - apply (a_size s H).
  - apply (a_emax s H).
  - apply (a_refs s H).
  - apply (a_refs2 s H).
  - apply (a_refs_nd s H).
  - apply (a_vals s H).
Qed.

Lemma sig_modify_post0 : forall s x a, InvA s -> 1 <= sz s x + a -> resize_ok s x a ->
  modify_post s x a (rel s) (sz s) (fst (sig_modify_size s x a)) (snd (sig_modify_size s x a)).
Proof.
  intros s x a H Hnew [Hl Hr].
  destruct (sig_modify_post s x a (rel s) (sz s) H (a_ok s H) eq_refl (fun _ _ _ _ _ => eq_refl) Hnew Hl Hr) as [A _].
  rewrite <- (set_rel_id s) in A. exact A.
Qed.

Lemma inv_set_type : forall s x n, InvA s -> resize_ok s x (n - sz s x) -> InvA (fst (step_set_type s x n)).
Proof.
  intros s x n H Hr. unfold step_set_type. destruct (kind s x) as [old| |] eqn:Ek; try exact H.
  destruct (Z.leb_spec n 0); [exact H|].
  assert (Eold : sz s x = old) by (unfold sz; rewrite Ek; reflexivity).
  rewrite Eold in Hr.
  pose proof (sig_modify_post0 s x (n - old) H ltac:(lia) Hr) as P.
  destruct (sig_modify_size s x (n - old)) as [s1 r]. cbn [fst snd] in P.
  destruct P as [p [-> [Pok [Perr _]]]].
  destruct r; cbn [fst].
  - specialize (Pok eq_refl). replace (sz s x + (n - old)) with n in Pok by lia.
    eapply (InvA_resized s _ (upd (sz s) x n) H); try reflexivity.
    + intros L y _. unfold sz, esize. cbn. unfold upd. destruct (Nat.eqb_spec y x) as [->|NE]; reflexivity.
    + intros u. unfold mux_gsize. cbn. unfold upd. destruct (Nat.eqb_spec u x) as [->|NE]; [rewrite Ek; reflexivity|reflexivity].
    + exact Pok.
    + intros y. pose proof (a_size s H y) as Hy. unfold sz, esize in *. cbn. unfold upd. destruct (Nat.eqb_spec y x); [lia|exact Hy].
    + apply (a_emax s H).
    + intros y e Hy. cbn. unfold upd. destruct (Nat.eqb_spec y x) as [->|NE]; [discriminate|apply (a_refs s H); exact Hy].
    + intros y e Hy. cbn in Hy. destruct (a_refs2 s H y e Hy) as [A B]. cbn. split; [|exact B].
      rewrite upd_other; [exact A|]. intros ->. congruence.
    + apply (a_refs_nd s H).
    + apply (a_vals s H).
  - apply InvA_set_rel; [exact H|apply Perr; discriminate].
  - apply InvA_set_rel; [exact H|apply Perr; discriminate].
Qed.

Lemma inv_set_enum : forall s x e, InvA s -> vsig s x = true -> resize_ok s x (esize s e - sz s x) -> InvA (fst (step_set_enum s x e)).
Proof.
  intros s x e H Hx Hr. unfold step_set_enum. destruct (kind s x) as [|old|] eqn:Ek; try exact H.
  assert (Hnew : 1 <= sz s x + (esize s e - sz s x)).
  { unfold esize. pose proof (esize_of_pos (emin s e) (emax s e) (a_emax s H e)). lia. }
  pose proof (sig_modify_post0 s x (esize s e - sz s x) H Hnew Hr) as P.
  destruct (sig_modify_size s x (esize s e - sz s x)) as [s1 r]. cbn [fst snd] in P.
  destruct P as [p [-> [Pok [Perr _]]]].
  destruct r; cbn [fst].
  - specialize (Pok eq_refl). replace (sz s x + (esize s e - sz s x)) with (esize s e) in Pok by lia.
    eapply (InvA_resized s _ (upd (sz s) x (esize s e)) H); try reflexivity.
    + intros L y _. unfold sz, esize. cbn. unfold upd. destruct (Nat.eqb_spec y x) as [->|NE]; reflexivity.
    + intros u. unfold mux_gsize. cbn. unfold upd. destruct (Nat.eqb_spec u x) as [->|NE]; [rewrite Ek; reflexivity|reflexivity].
    + exact Pok.
    + intros y. pose proof (a_size s H y) as Hy. unfold sz, esize in *. cbn. unfold upd. destruct (Nat.eqb_spec y x); [|exact Hy].
      apply esize_of_pos. apply (a_emax s H).
    + apply (a_emax s H).
    + intros y e' Hy. cbn. unfold upd at 1. destruct (Nat.eqb_spec y x) as [->|NE].
      * intros E. inversion E; subst e'. rewrite upd_same. apply ladd_In. left; reflexivity.
      * intros Hk. pose proof (a_refs s H y e' Hy Hk) as Hin.
        unfold upd. destruct (Nat.eqb_spec e' e) as [->|NE'].
        -- apply ladd_In. right. destruct (Nat.eqb_spec e old) as [->|]; [apply lrem_In; split; assumption|exact Hin].
        -- destruct (Nat.eqb_spec e' old) as [->|]; [apply lrem_In; split; assumption|exact Hin].
    + intros y e' Hy. cbn in Hy. cbn.
      assert (Hy' : (y = x /\ e' = e) \/ (y <> x /\ In y (erefs s e'))).
      { unfold upd in Hy at 1. destruct (Nat.eqb_spec e' e) as [Ee|NE'].
        - subst e'. apply ladd_In in Hy. destruct Hy as [Ey|Hy]; [left; split; [exact Ey|reflexivity]|].
          unfold upd in Hy. destruct (Nat.eqb_spec e old) as [Eo|NEo].
          + subst old. apply lrem_In in Hy. right. tauto.
          + destruct (Nat.eq_dec y x) as [Ey|NEy]; [|right; split; assumption].
            subst y. destruct (a_refs2 s H x e Hy) as [K _]. congruence.
        - unfold upd in Hy. destruct (Nat.eqb_spec e' old) as [Eo|NEo].
          + subst old. apply lrem_In in Hy. right. tauto.
          + destruct (Nat.eq_dec y x) as [Ey|NEy]; [|right; split; assumption].
            subst y. destruct (a_refs2 s H x e' Hy) as [K _]. congruence. }
      destruct Hy' as [[Ey Ee]|[NEy Hin]].
      * subst y e'. rewrite upd_same. split; [reflexivity|apply vsig_lt; exact Hx].
      * rewrite upd_other by exact NEy. apply (a_refs2 s H). exact Hin.
    + intros e'. cbn. unfold upd at 1. destruct (Nat.eqb_spec e' e) as [->|NE'].
      * apply ladd_NoDup. unfold upd. destruct (Nat.eqb_spec e old); [apply lrem_NoDup|]; apply (a_refs_nd s H).
      * unfold upd. destruct (Nat.eqb_spec e' old); [apply lrem_NoDup|]; apply (a_refs_nd s H).
    + apply (a_vals s H).
  - apply InvA_set_rel; [exact H|apply Perr; discriminate].
  - apply InvA_set_rel; [exact H|apply Perr; discriminate].
Qed.

(* --- acceptance of a size change: the verification, declaratively ------------------------------ *)

(* the free bits behind x in the layout L: the gaps between its followers plus the trailing space *)
Definition free_in (s : state) (p : nat -> Z) (L : lid) (x : nat) : Z :=
  match followers (lay s L) x with
  | Some fs => free_from p (sz s) (p x + sz s x) (lsz s L) fs
  | None => 0
  end.

(* a change of the size of x by a fits: it is no growth, or every layout that holds x (its message,
   or every group of its multiplexer that holds it) has at least a free bits behind x *)
Definition change_fits (s : state) (p : nat -> Z) (x : nat) (a : Z) : Prop :=
  a <= 0 \/ forall L, In x (lay s L) -> a <= free_in s p L x.

Lemma free_from_ext : forall pos pos' len fs prev size, (forall t, In t fs -> pos' t = pos t) ->
  free_from pos' len prev size fs = free_from pos len prev size fs.
Proof.
  induction fs as [|t r IH]; intros prev size H; cbn [free_from]; [reflexivity|].
  rewrite (H t (or_introl eq_refl)). rewrite IH by (intros t' Ht'; apply H; right; exact Ht'). reflexivity.
Qed.

Lemma free_in_ext : forall s p p' L x, (forall t, In t (lay s L) -> p' t = p t) -> free_in s p' L x = free_in s p L x.
Proof.
  intros s p p' L x H. unfold free_in. destruct (followers (lay s L) x) as [fs|] eqn:Hf; [|reflexivity].
  destruct (followers_In _ _ _ Hf) as [A B]. rewrite (H x A). apply free_from_ext. intros t Ht. apply H. apply B. exact Ht.
Qed.

Lemma change_fits_ext : forall s p p' x a,
  (0 < a -> forall L t, In x (lay s L) -> In t (lay s L) -> p' t = p t) -> change_fits s p' x a <-> change_fits s p x a.
Proof.
  intros s p p' x a H. unfold change_fits. destruct (Z.le_gt_cases a 0) as [Hle|Hgt]; [split; intros _; left; exact Hle|].
  assert (Hpos : 0 < a) by lia.
  split; intros [C|C]; try lia; right; intros L HL; specialize (C L HL);
    [rewrite <- (free_in_ext s p p' L x (fun t Ht => H Hpos L t HL Ht))|rewrite (free_in_ext s p p' L x (fun t Ht => H Hpos L t HL Ht))]; exact C.
Qed.

Lemma verify_groups_all : forall s u x a gs, 0 < a ->
  (verify_groups s u x a gs = None <->
   forall g, In g gs -> verify_grow (sz s) (rel s) (mux_gsize s u) (gget s u g) x a = None).
Proof.
  intros s u x a gs Hpos. induction gs as [|g r IH]; cbn [verify_groups]; [split; [intros _ g []|reflexivity]|].
  destruct (Z.ltb_spec 0 a); [|lia].
  destruct (verify_grow (sz s) (rel s) (mux_gsize s u) (gget s u g) x a) eqn:E.
  - split; [discriminate|]. intros Hall. specialize (Hall g (or_introl eq_refl)). congruence.
  - rewrite IH. split; [intros Hall g' [<-|Hg']; [exact E|apply Hall; exact Hg']|intros Hall g' Hg'; apply Hall; right; exact Hg'].
Qed.

(* verifySignalSizeAmount (of the message or of the multiplexer) says exactly [change_fits] *)
Lemma sig_verify_fits : forall s p x a, link_ok s x -> 1 <= sz s x + a ->
  (sig_verify_size (set_rel s p) x a = VOk <-> change_fits s p x a).
Proof.
  intros s p x a (Ltop & Lgrp & Lnd & Lfree & Lex) Hnew. unfold sig_verify_size, change_fits.
  change (pmux (set_rel s p) x) with (pmux s x). change (pmsg (set_rel s p) x) with (pmsg s x).
  destruct (pmux s x) as [u|] eqn:Epu.
  - (* inside a multiplexer *)
    assert (Hat : forall L, In x (lay s L) ->
              exists g, L = LG u g /\ memb x (usigs s u) = true /\ exists gs, groups_of s u x = Some gs /\ In g gs).
    { intros [m|u' g] HL; [destruct (Ltop m HL) as [C _]; congruence|]. destruct (Lgrp u' g HL) as (P & M & gs & Eg & Hg).
      assert (u' = u) by congruence. subst u'. exists g. split; [reflexivity|split; [exact M|exists gs; split; assumption]]. }
    unfold mux_verify_size. change (usigs (set_rel s p) u) with (usigs s u). change (groups_of (set_rel s p) u x) with (groups_of s u x).
    destruct (Z.eqb_spec a 0) as [->|Ha]; [split; [intros _; left; lia|reflexivity]|].
    destruct (memb x (usigs s u)) eqn:Em; cbn [negb].
    2:{ exfalso. assert (NA : ~ attached s x) by (intros [L HL]; destruct (Hat L HL) as (g & _ & M & _); congruence).
        destruct (Lfree NA) as [C _]. congruence. }
    destruct (groups_of s u x) as [gs|] eqn:Eg.
    2:{ exfalso. assert (NA : ~ attached s x) by (intros [L HL]; destruct (Hat L HL) as (g & _ & _ & gs & E & _); congruence).
        destruct (Lfree NA) as [C _]. congruence. }
    destruct (Z.ltb_spec 0 a) as [Hpos|Hneg].
    + assert (Hvg : verify_groups (set_rel s p) u x a gs = None <-> forall L, In x (lay s L) -> a <= free_in s p L x).
      { rewrite (verify_groups_all (set_rel s p) u x a gs Hpos).
        change (sz (set_rel s p)) with (sz s). change (rel (set_rel s p)) with p.
        change (mux_gsize (set_rel s p) u) with (mux_gsize s u). change (gget (set_rel s p) u) with (gget s u). split.
        - intros Hall L HL. destruct (Hat L HL) as (g & -> & _ & gs' & Eg' & Hg). assert (gs' = gs) by congruence. subst gs'.
          specialize (Hall g Hg). unfold free_in. cbn [lay lsz] in *.
          destruct (followers (gget s u g) x) as [fs|] eqn:Hf; [|apply followers_None in Hf; contradiction].
          apply (verify_grow_fits (sz s) p (mux_gsize s u) (gget s u g) x a fs ltac:(lia) Hf). exact Hall.
        - intros Hall g Hg. pose proof (Lex u gs eq_refl Eg g Hg) as Hin. specialize (Hall (LG u g) Hin).
          unfold free_in in Hall. cbn [lay lsz] in Hall.
          destruct (followers (gget s u g) x) as [fs|] eqn:Hf; [|apply followers_None in Hf; contradiction].
          apply (verify_grow_fits (sz s) p (mux_gsize s u) (gget s u g) x a fs ltac:(lia) Hf). exact Hall. }
      destruct (verify_groups (set_rel s p) u x a gs) eqn:Ev.
      * split; [discriminate|]. intros [C|C]; [lia|]. apply Hvg in C. discriminate.
      * split; [intros _; right; apply Hvg; reflexivity|reflexivity].
    + rewrite verify_groups_shrink by (try exact Hnew; lia). split; [intros _; left; lia|reflexivity].
  - destruct (pmsg s x) as [m|] eqn:Epm.
    + (* a top-level signal of message m *)
      assert (Hat : forall L, In x (lay s L) -> L = LM m).
      { intros [m'|u g] HL; [destruct (Ltop m' HL) as (_ & P & _); congruence|destruct (Lgrp u g HL) as (P & _); congruence]. }
      assert (Hin : In x (glay s m)).
      { destruct (in_dec Nat.eq_dec x (glay s m)) as [Hin|Hn]; [exact Hin|]. exfalso.
        assert (NA : ~ attached s x) by (intros [L HL]; pose proof (Hat L HL); subst L; contradiction).
        destruct (Lfree NA) as [_ C]. congruence. }
      destruct (Ltop m Hin) as (_ & _ & M).
      unfold msg_verify_size. change (gsigs (set_rel s p) m) with (gsigs s m). change (sz (set_rel s p)) with (sz s).
      change (rel (set_rel s p)) with p. change (glsize (set_rel s p) m) with (glsize s m). change (glay (set_rel s p) m) with (glay s m).
      destruct (Z.eqb_spec a 0) as [->|Ha]; [split; [intros _; left; lia|reflexivity]|].
      rewrite M. cbn [negb].
      destruct (followers (glay s m) x) as [fs|] eqn:Hf; [|apply followers_None in Hf; contradiction].
      destruct (Z.ltb_spec 0 a) as [Hpos|Hneg].
      * pose proof (verify_grow_fits (sz s) p (glsize s m) (glay s m) x a fs ltac:(lia) Hf) as V.
        destruct (verify_grow (sz s) p (glsize s m) (glay s m) x a) eqn:Ev.
        -- split; [discriminate|]. intros [C|C]; [lia|]. specialize (C (LM m) Hin). unfold free_in in C. cbn [lay lsz] in C.
           rewrite Hf in C. apply V in C. discriminate.
        -- split; [intros _; right|reflexivity]. intros L HL. rewrite (Hat L HL). unfold free_in. cbn [lay lsz]. rewrite Hf. apply V. reflexivity.
      * rewrite verify_shrink_ok by lia. split; [intros _; left; lia|reflexivity].
    + (* in no layout *)
      split; [|reflexivity]. intros _. destruct (Z.le_gt_cases a 0) as [Hle|Hgt]; [left; exact Hle|right].
      intros [m|u g] HL; exfalso; [destruct (Ltop m HL) as (_ & P & _); congruence|destruct (Lgrp u g HL) as (P & _); congruence].
Qed.

(* modifySignalSize succeeds exactly when the verification does *)
Lemma msg_modify_ok_iff : forall s m x a, snd (msg_modify_size s m x a) = VOk <-> msg_verify_size s m x a = VOk.
Proof.
  intros s m x a. unfold msg_modify_size, msg_verify_size. destruct (a =? 0) eqn:E0; [cbn; tauto|].
  destruct (negb (memb x (gsigs s m))); [cbn; tauto|]. destruct (0 <? a).
  - unfold do_grow. rewrite E0. destruct (verify_grow (sz s) (rel s) (glsize s m) (glay s m) x a); [cbn; tauto|].
    destruct (followers (glay s m) x); cbn; tauto.
  - unfold do_shrink. assert (E1 : (- a =? 0) = false) by (apply Z.eqb_neq; apply Z.eqb_neq in E0; lia). rewrite E1.
    destruct (verify_shrink (sz s) x (- a)); cbn; tauto.
Qed.

Lemma mux_modify_ok_of_verify : forall s x a p0 lenG u, InvA s -> ok_all s p0 lenG ->
  lenG x = sz s x ->
  (0 < a -> forall L, In x (lay s L) -> forall t, In t (lay s L) -> lenG t = sz s t) ->
  1 <= sz s x + a -> single_moved s p0 x a ->
  (forall gs, groups_of s u x = Some gs -> NoDup gs) ->
  mux_verify_size (set_rel s p0) u x a = VOk -> snd (mux_modify_size (set_rel s p0) u x a) = VOk.
Proof.
  intros s x a p0 lenG u H Hcur HlenX Hagree Hnew Hsingle Hnd Hv. unfold mux_modify_size. rewrite Hv.
  unfold mux_verify_size in Hv. change (usigs (set_rel s p0) u) with (usigs s u) in *.
  change (groups_of (set_rel s p0) u x) with (groups_of s u x) in *.
  destruct (Z.eqb_spec a 0) as [E0|Ha]; [reflexivity|].
  destruct (negb (memb x (usigs s u))); [discriminate|].
  destruct (groups_of s u x) as [gs|] eqn:Eg; [|discriminate].
  destruct (verify_groups (set_rel s p0) u x a gs) eqn:Ev; [discriminate|].
  rewrite modify_groups_pos. cbn [fst snd].
  change (sz (set_rel s p0)) with (sz s). change (mux_gsize (set_rel s p0) u) with (mux_gsize s u).
  change (gget (set_rel s p0) u) with (gget s u). change (rel (set_rel s p0)) with p0.
  assert (Hshrink : a < 0 -> verify_shrink (sz s) x (- a) = None) by (intros Hneg; apply verify_shrink_ok; lia).
  pose proof (mixed_loop s x a p0 lenG H HlenX Hagree Hnew u Ha Hsingle Hshrink gs p0 []
                (mixed_init s x a p0 lenG Hcur u) (Hnd _ eq_refl) (fun g _ Hin => Hin)) as R.
  destruct (mg_pos (sz s) (mux_gsize s u) (gget s u) x a gs p0) as [p' e]. cbn [snd].
  destruct R as [_ [R2 R3]]. destruct e as [c|]; [exfalso|reflexivity].
  destruct (R2 ltac:(discriminate)) as [Hpos _].
  assert (E : Some c = None); [|discriminate]. apply (R3 Hpos).
  apply (verify_groups_all (set_rel s p0) u x a gs Hpos). exact Ev.
Qed.

Lemma sig_modify_ok_iff : forall s x a p0 lenG, InvA s -> ok_all s p0 lenG ->
  lenG x = sz s x ->
  (0 < a -> forall L, In x (lay s L) -> forall t, In t (lay s L) -> lenG t = sz s t) ->
  1 <= sz s x + a -> link_ok s x -> single_moved s p0 x a ->
  (snd (sig_modify_size (set_rel s p0) x a) = VOk <-> sig_verify_size (set_rel s p0) x a = VOk).
Proof.
  intros s x a p0 lenG H Hcur HlenX Hagree Hnew (Ltop & Lgrp & Lnd & Lfree & Lex) Hsingle.
  unfold sig_modify_size, sig_verify_size.
  change (pmux (set_rel s p0) x) with (pmux s x). change (pmsg (set_rel s p0) x) with (pmsg s x).
  destruct (pmux s x) as [u|] eqn:Epu.
  - split.
    + intros Hm. unfold mux_modify_size in Hm. unfold mux_verify_size in *.
      destruct (a =? 0); [reflexivity|]. destruct (negb (memb x (usigs (set_rel s p0) u))); [discriminate|].
      destruct (groups_of (set_rel s p0) u x); [|discriminate].
      destruct (verify_groups (set_rel s p0) u x a l); [discriminate|reflexivity].
    + apply (mux_modify_ok_of_verify s x a p0 lenG u H Hcur HlenX Hagree Hnew Hsingle). intros gs Eg. eapply Lnd; eauto.
  - destruct (pmsg s x) as [m|]; [apply msg_modify_ok_iff|cbn; tauto].
Qed.

(* --- enum size changes: all referencing signals at once --------------------------------------- *)

Definition bump (s : state) (D : list nat) (n' : Z) : nat -> Z := fun y => if memb y D then n' else sz s y.

Lemma ok_all_ext : forall s p len len', (forall y, len' y = len y) -> ok_all s p len -> ok_all s p len'.
Proof. intros s p len len' E H L. eapply ok_ext; [|apply (H L)]. intros t _. split; [reflexivity|apply E]. Qed.

Lemma memb_app : forall x l1 l2, memb x (l1 ++ l2) = memb x l1 || memb x l2.
Proof. intros. unfold memb. apply existsb_app. Qed.

(* positions that differ from those of the state belong to signals held by one layout only, and
   that layout holds one of the signals of D *)
Definition moved_with (s : state) (p : nat -> Z) (D : list nat) (a : Z) : Prop :=
  forall y, p y <> rel s y ->
    exists d L, In d D /\ In y (moved_in (sz s) (rel s) (lay s L) d a) /\ forall L', In y (lay s L') -> L' = L.

Lemma refs_loop : forall s a old n', InvA s -> a <> 0 -> n' = old + a -> 1 <= n' ->
  forall R D p,
  (forall y, In y (D ++ R) -> sz s y = old) ->
  ok_all s p (bump s D n') ->
  NoDup (D ++ R) -> (0 < a -> unshared s (D ++ R)) ->
  (forall x, In x R -> resize_ok s x a) ->
  moved_with s p D a ->
  exists p', fst (refs_modify (set_rel s p) R a) = set_rel s p'
    /\ (snd (refs_modify (set_rel s p) R a) = VOk -> ok_all s p' (bump s (D ++ R) n'))
    /\ (snd (refs_modify (set_rel s p) R a) <> VOk ->
        0 < a /\ exists D', (forall y, In y D' -> In y (D ++ R)) /\ ok_all s p' (bump s D' n'))
    /\ moved_with s p' (D ++ R) a
    /\ (snd (refs_modify (set_rel s p) R a) = VOk <-> forall r, In r R -> change_fits s (rel s) r a).
Proof.
  intros s a old n' H Ha En Hn'. induction R as [|r R' IH]; intros D p Hsz Hcur Hnd Hun Hres Hmw.
  - cbn [refs_modify fst snd]. exists p. split; [reflexivity|]. split; [intros _; rewrite app_nil_r; exact Hcur|].
    split; [intros C; congruence|]. split; [rewrite app_nil_r; exact Hmw|]. split; [intros _ r []|reflexivity].
  - cbn [refs_modify].
    assert (Hr : sz s r = old) by (apply Hsz; apply in_or_app; right; left; reflexivity).
    assert (HrD : ~ In r D).
    { intros Hin. apply NoDup_remove_2 in Hnd. apply Hnd. apply in_or_app. left. exact Hin. }
    assert (HlenR : bump s D n' r = sz s r).
    { unfold bump. destruct (memb r D) eqn:Em; [apply memb_In in Em; contradiction|reflexivity]. }
    assert (Hagree : 0 < a -> forall L, In r (lay s L) -> forall t, In t (lay s L) -> bump s D n' t = sz s t).
    { intros Hpos L HL t Ht. unfold bump. destruct (memb t D) eqn:Em; [|reflexivity]. apply memb_In in Em.
      assert (t = r).
      { apply (Hun Hpos L t r); [apply in_or_app; left; exact Em|apply in_or_app; right; left; reflexivity|exact Ht|exact HL]. }
      subst t. contradiction. }
    (* growth: the layouts holding r still have the positions of the state *)
    assert (Hsame : 0 < a -> forall L t, In r (lay s L) -> In t (lay s L) -> p t = rel s t).
    { intros Hpos L t HL Ht. destruct (Z.eq_dec (p t) (rel s t)) as [E|NE]; [exact E|]. exfalso.
      destruct (Hmw t NE) as (d & L' & Hd & Hmv & Hex). pose proof (Hex L Ht) as EL. subst L'.
      destruct (moved_in_In _ _ _ _ _ _ Hmv) as [HdL HtL].
      assert (d = r).
      { apply (Hun Hpos L d r); [apply in_or_app; left; exact Hd|apply in_or_app; right; left; reflexivity|exact HdL|exact HL]. }
      subst d. contradiction. }
    destruct (Hres r (or_introl eq_refl)) as [Hlink Hsm].
    assert (Hsm' : single_moved s p r a).
    { destruct (Z.ltb_spec 0 a) as [Hpos|Hneg].
      - eapply single_moved_ext; [|exact Hsm]. intros L t HL Ht. apply (Hsame Hpos L t HL Ht).
      - (* shrinking pulls every follower, wherever it is *)
        intros u g y Hy. apply (Hsm u g y). unfold moved_in in *. destruct (a =? 0); [exact Hy|].
        destruct (followers (gget s u g) r); [|exact Hy]. destruct (Z.ltb_spec 0 a); [lia|exact Hy]. }
    assert (Hnew : 1 <= sz s r + a) by lia.
    (* accepted exactly when the change fits (in the state before the enum edit) *)
    assert (Hacc : snd (sig_modify_size (set_rel s p) r a) = VOk <-> change_fits s (rel s) r a).
    { rewrite (sig_modify_ok_iff s r a p (bump s D n') H Hcur HlenR Hagree Hnew Hlink Hsm').
      rewrite (sig_verify_fits s p r a Hlink Hnew). apply change_fits_ext. exact Hsame. }
    destruct (sig_modify_post s r a p (bump s D n') H Hcur HlenR Hagree Hnew Hlink Hsm') as [A B].
    destruct (sig_modify_size (set_rel s p) r a) as [s1 e]. cbn [fst snd] in A, B, Hacc.
    destruct A as [p1 [-> [Aok [Aerr Amv]]]].
    assert (Hmw1 : moved_with s p1 (D ++ [r]) a).
    { intros y Hy. destruct (Z.eq_dec (p1 y) (p y)) as [E|NE].
      - rewrite E in Hy. destruct (Hmw y Hy) as (d & L & Hd & R1 & R2). exists d, L.
        split; [apply in_or_app; left; exact Hd|split; [exact R1|exact R2]].
      - destruct (Amv y NE) as (L & R1 & R2). exists r, L.
        split; [apply in_or_app; right; left; reflexivity|split; [|exact R2]].
        (* the moved set read on the positions of the state *)
        destruct (moved_in_In _ _ _ _ _ _ R1) as [HrL _].
        destruct (Z.ltb_spec 0 a) as [Hpos|Hneg].
        + rewrite <- (moved_in_ext (sz s) (sz s) (rel s) p (lay s L) r a); [exact R1|].
          intros t Ht. split; [apply (Hsame Hpos L t HrL Ht)|reflexivity].
        + unfold moved_in in *. destruct (a =? 0); [exact R1|]. destruct (followers (lay s L) r); [|exact R1].
          destruct (Z.ltb_spec 0 a); [lia|exact R1]. }
    assert (Hmw1' : moved_with s p1 (D ++ r :: R') a).
    { intros y Hy. destruct (Hmw1 y Hy) as (d & L & Hd & Rest). exists d, L. split; [|exact Rest].
      apply in_app_or in Hd. apply in_or_app. destruct Hd as [Hd|[<-|[]]]; [left; exact Hd|right; left; reflexivity]. }
    assert (Hnofit : e <> VOk -> ~ (forall r0, In r0 (r :: R') -> change_fits s (rel s) r0 a)).
    { intros Ne Hall. apply Ne. apply Hacc. apply Hall. left; reflexivity. }
    destruct e.
    + specialize (Aok eq_refl).
      assert (Hcur' : ok_all s p1 (bump s (D ++ [r]) n')).
      { eapply ok_all_ext; [|exact Aok]. intros y. unfold bump, upd. rewrite memb_app.
        unfold memb at 2. cbn [existsb].
        destruct (Nat.eqb_spec y r) as [->|NE].
        - rewrite orb_true_r. lia.
        - rewrite !orb_false_r. reflexivity. }
      destruct (IH (D ++ [r]) p1) as [p' [E1 [E2 [E3 [E4 E5]]]]].
      * intros y Hy. apply Hsz. rewrite <- app_assoc in Hy. exact Hy.
      * exact Hcur'.
      * rewrite <- app_assoc. exact Hnd.
      * intros Hpos. rewrite <- app_assoc. exact (Hun Hpos).
      * intros x Hx. apply Hres. right; exact Hx.
      * exact Hmw1.
      * exists p'. split; [exact E1|]. split; [intros E; rewrite <- app_assoc in E2; apply E2; exact E|].
        split; [|split; [rewrite <- app_assoc in E4; exact E4|]].
        -- intros C. destruct (E3 C) as [Hpos [D' [Hin HD']]]. split; [exact Hpos|]. exists D'. split; [|exact HD'].
           intros y Hy. specialize (Hin y Hy). rewrite <- app_assoc in Hin. exact Hin.
        -- rewrite E5. split; [intros Hall r0 [<-|Hr0]; [apply Hacc; reflexivity|apply Hall; exact Hr0]|intros Hall r0 Hr0; apply Hall; right; exact Hr0].
    + exists p1. split; [reflexivity|]. split; [discriminate|]. split; [|split; [exact Hmw1'|split; [discriminate|intros Hall; exfalso; apply (Hnofit ltac:(discriminate) Hall)]]]. intros _.
      split; [|exists D; split; [intros y Hy; apply in_or_app; left; exact Hy|apply Aerr; discriminate]].
      destruct (Z.lt_trichotomy a 0) as [Hneg|[E0|Hpos]]; [specialize (B Hneg); discriminate|congruence|exact Hpos].
    + exists p1. split; [reflexivity|]. split; [discriminate|]. split; [|split; [exact Hmw1'|split; [discriminate|intros Hall; exfalso; apply (Hnofit ltac:(discriminate) Hall)]]]. intros _.
      split; [|exists D; split; [intros y Hy; apply in_or_app; left; exact Hy|apply Aerr; discriminate]].
      destruct (Z.lt_trichotomy a 0) as [Hneg|[E0|Hpos]]; [specialize (B Hneg); discriminate|congruence|exact Hpos].
Qed.

(* the old sizes are fine for a partially processed growth *)
Lemma bump_old : forall s p D n', InvA s -> (forall y, In y D -> sz s y <= n') -> ok_all s p (bump s D n') -> ok_all s p (sz s).
Proof.
  intros s p D n' H Hle Hok L. eapply ok_len_le; [|apply (Hok L)]. intros t Ht. unfold bump.
  pose proof (a_size s H t). destruct (memb t D) eqn:E; [apply memb_In in E; specialize (Hle t E); lia|lia].
Qed.

(* SignalEnum.modifySize from a well-formed state *)
Lemma enum_modify_post : forall s e a, InvA s -> 1 <= esize s e + a -> enum_resize_ok s e a ->
  exists p, fst (enum_modify_size s e a) = set_rel s p
    /\ (snd (enum_modify_size s e a) = VOk -> ok_all s p (bump s (erefs s e) (esize s e + a)))
    /\ (snd (enum_modify_size s e a) <> VOk -> ok_all s p (sz s))
    /\ moved_with s p (erefs s e) a
    /\ (snd (enum_modify_size s e a) = VOk <-> forall r, In r (erefs s e) -> change_fits s (rel s) r a).
Proof.
  intros s e a H Hnew [Hres Hun]. unfold enum_modify_size.
  assert (Hszr : forall y, In y (erefs s e) -> sz s y = esize s e).
  { intros y Hy. destruct (a_refs2 s H y e Hy) as [K _]. unfold sz. rewrite K. reflexivity. }
  destruct (Z.eqb_spec a 0) as [->|Ha].
  - cbn [fst snd]. exists (rel s). split; [apply set_rel_id|]. split; [|split; [intros _; exact (a_ok s H)|split; [intros y C; congruence|]]].
    + intros _. eapply ok_all_ext; [|exact (a_ok s H)]. intros y. unfold bump.
      destruct (memb y (erefs s e)) eqn:E; [apply memb_In in E; rewrite (Hszr y E); lia|reflexivity].
    + split; [intros _ r _; left; lia|reflexivity].
  - destruct (refs_loop s a (esize s e) (esize s e + a) H Ha eq_refl Hnew (erefs s e) [] (rel s)) as [p' [E1 [E2 [E3 [E4 E5]]]]].
    + intros y Hy. apply Hszr. exact Hy.
    + eapply ok_all_ext; [|exact (a_ok s H)]. intros y. reflexivity.
    + apply (a_refs_nd s H).
    + exact Hun.
    + exact Hres.
    + intros y C. congruence.
    + rewrite <- (set_rel_id s) in *. exists p'. split; [exact E1|]. split; [exact E2|]. split; [|split; [exact E4|exact E5]].
      intros C. destruct (E3 C) as [Hpos [D' [Hin HD']]].
      eapply bump_old; [exact H| |exact HD']. intros y Hy. rewrite (Hszr y (Hin y Hy)). lia.
Qed.

(* the enum e gets a new max index / min size: every referencing signal changes size at once *)
Lemma InvA_enum_update : forall s s' e mx mn,
  InvA s -> 0 <= mx ->
  nsig s' = nsig s -> glsize s' = glsize s -> gbytes s' = gbytes s -> nmsg s' = nmsg s ->
  glay s' = glay s -> ugroups s' = ugroups s -> kind s' = kind s -> erefs s' = erefs s ->
  (forall e', emax s' e' = upd (emax s) e mx e') -> (forall e', emin s' e' = upd (emin s) e mn e') ->
  ok_all s (rel s') (bump s (erefs s e) (esize_of mn mx)) ->
  (forall e' v, In v (evals s' e') -> vpar s' v = Some e' /\ vidx s' v <= emax s' e' /\ (v < nval s')%nat) ->
  InvA s'.
Proof.
  intros s s' e mx mn H Hmx En Els Egb Enm Egl Eug Ek Erf Emx Emn Hok Hvals.
  assert (Hsz : forall y, sz s' y = match kind s y with KEnum e' => if Nat.eqb e' e then esize_of mn mx else sz s y | _ => sz s y end).
  { intros y. unfold sz, esize. rewrite Ek. destruct (kind s y) as [n|e'|c g]; try reflexivity.
    rewrite Emx, Emn. unfold upd. destruct (Nat.eqb_spec e' e); reflexivity. }
  eapply (InvA_resized s s' (bump s (erefs s e) (esize_of mn mx)) H); try assumption.
  - intros L y Hy. rewrite Hsz. unfold bump. pose proof (a_alloc s H L y Hy) as Hlt.
    destruct (kind s y) as [n|e'|c g] eqn:Eky.
    + destruct (memb y (erefs s e)) eqn:Em; [|reflexivity]. apply memb_In in Em.
      destruct (a_refs2 s H y e Em) as [K _]. congruence.
    + destruct (Nat.eqb_spec e' e) as [->|NE].
      * assert (Em : memb y (erefs s e) = true) by (apply memb_In; apply (a_refs s H); assumption). rewrite Em. reflexivity.
      * destruct (memb y (erefs s e)) eqn:Em; [|reflexivity]. apply memb_In in Em.
        destruct (a_refs2 s H y e Em) as [K _]. congruence.
    + destruct (memb y (erefs s e)) eqn:Em; [|reflexivity]. apply memb_In in Em.
      destruct (a_refs2 s H y e Em) as [K _]. congruence.
  - intros u. unfold mux_gsize. rewrite Ek. reflexivity.
  - intros y. rewrite Hsz. pose proof (a_size s H y) as Hy. destruct (kind s y) as [n|e'|c g]; try exact Hy.
    destruct (Nat.eqb e' e); [apply esize_of_pos; exact Hmx|exact Hy].
  - intros e'. rewrite Emx. unfold upd. destruct (Nat.eqb e' e); [exact Hmx|apply (a_emax s H)].
  - intros y e'. rewrite Ek, Erf. apply (a_refs s H).
  - intros y e'. rewrite Ek, Erf. apply (a_refs2 s H).
  - intros e'. rewrite Erf. apply (a_refs_nd s H).
Qed.

Lemma bump_same : forall s e, InvA s -> forall y, bump s (erefs s e) (esize s e) y = sz s y.
Proof.
  intros s e H y. unfold bump. destruct (memb y (erefs s e)) eqn:E; [|reflexivity]. apply memb_In in E.
  destruct (a_refs2 s H y e E) as [K _]. unfold sz. rewrite K. reflexivity.
Qed.

(* a fresh enum value *)
Lemma InvA_alloc_val : forall s idx, InvA s ->
  InvA (set_nval (set_vpar (set_vidx s (upd (vidx s) (nval s) idx)) (upd (vpar s) (nval s) None)) (S (nval s))).
Proof.
  intros s idx H.
  eapply (InvA_resized s _ (sz s) H); try reflexivity.
  - exact (a_ok s H).
  - apply (a_size s H).
  - apply (a_emax s H).
  - apply (a_refs s H).
  - apply (a_refs2 s H).
  - apply (a_refs_nd s H).
  - intros e v Hv. cbn in Hv. destruct (a_vals s H e v Hv) as (A & B & C). cbn.
    rewrite !upd_other by lia. repeat split; try assumption. lia.
Qed.

Lemma max_index_ge : forall s vs acc, acc <= fold_left (fun a v => Z.max a (vidx s v)) vs acc
  /\ forall v, In v vs -> vidx s v <= fold_left (fun a v => Z.max a (vidx s v)) vs acc.
Proof.
  intros s vs. induction vs as [|a r IH]; intros acc; cbn [fold_left].
  - split; [lia|intros v []].
  - destruct (IH (Z.max acc (vidx s a))) as [A B]. split; [lia|].
    intros v [<-|Hv]; [lia|apply B; exact Hv].
Qed.

Lemma max_index_le : forall s vs acc bound, acc <= bound -> (forall v, In v vs -> vidx s v <= bound) ->
  fold_left (fun a v => Z.max a (vidx s v)) vs acc <= bound.
Proof.
  intros s vs. induction vs as [|a r IH]; intros acc bound Ha Hb; cbn [fold_left]; [exact Ha|].
  apply IH; [pose proof (Hb a (or_introl eq_refl)); lia|intros v Hv; apply Hb; right; exact Hv].
Qed.

Lemma inv_add_value : forall s e idx, InvA s -> ok_op s (OAddValue e idx) -> InvA (fst (step_add_value s e idx)).
Proof.
  intros s e idx H Hop. cbn [ok_op] in Hop. unfold step_add_value.
  set (v := nval s).
  set (s0 := set_nval (set_vpar (set_vidx s (upd (vidx s) v idx)) (upd (vpar s) v None)) (S v)).
  assert (H0 : InvA s0) by (apply InvA_alloc_val; exact H).
  destruct (verify_value_index s0 e idx) eqn:Ev; try exact H0.
  assert (Hdup : ~ In idx (eidx s e)).
  { unfold verify_value_index in Ev. change (eidx s0 e) with (eidx s e) in Ev.
    destruct (membZ idx (eidx s e)) eqn:Em; [discriminate|]. intros Hin. apply membZ_In in Hin. congruence. }
  change (emax s0 e) with (emax s e). change (emin s0 e) with (emin s e).
  assert (Hvals_final : forall mx, emax s e <= mx -> idx <= mx ->
    forall e' v', In v' (if Nat.eqb e' e then ladd v (evals s e) else evals s e') ->
      upd (vpar s0) v (Some e) v' = Some e' /\ vidx s0 v' <= upd (emax s) e mx e' /\ (v' < S v)%nat).
  { intros mx Hmx Hidx e' v' Hv'. unfold upd at 2. destruct (Nat.eqb_spec e' e) as [->|NE].
    - apply ladd_In in Hv'. destruct Hv' as [->|Hv'].
      + rewrite upd_same. cbn. rewrite upd_same. split; [reflexivity|split; [exact Hidx|lia]].
      + destruct (a_vals s H e v' Hv') as (A & B & C). unfold v in *.
        rewrite upd_other by lia. cbn. rewrite !upd_other by lia. split; [exact A|split; [lia|lia]].
    - destruct (a_vals s H e' v' Hv') as (A & B & C). unfold v in *.
      rewrite upd_other by lia. cbn. rewrite !upd_other by lia. split; [exact A|split; [lia|lia]]. }
  destruct (Z.ltb_spec (emax s e) idx) as [Hlt|Hge].
  - (* the max index rises *)
    set (amt := esize_of (emin s e) idx - esize s0 e).
    assert (Hnew : 1 <= esize s0 e + amt).
    { unfold amt. pose proof (esize_of_pos (emin s e) idx ltac:(pose proof (a_emax s H e); lia)). lia. }
    assert (Hpost : exists p, fst (enum_modify_size s0 e amt) = set_rel s0 p
              /\ (snd (enum_modify_size s0 e amt) = VOk -> ok_all s0 p (bump s0 (erefs s0 e) (esize s0 e + amt)))
              /\ (snd (enum_modify_size s0 e amt) <> VOk -> ok_all s0 p (sz s0))).
    { destruct (Z.eq_dec amt 0) as [E0|NE0].
      - rewrite E0. unfold enum_modify_size. cbn [Z.eqb fst snd]. exists (rel s0). split; [apply set_rel_id|].
        split; [|intros _; exact (a_ok s0 H0)]. intros _. eapply ok_all_ext; [|exact (a_ok s0 H0)].
        intros y. replace (esize s0 e + 0) with (esize s0 e) by lia. apply bump_same. exact H0.
      - destruct (enum_modify_post s0 e amt H0 Hnew) as [p [P1 [P2 [P3 _]]]]; [|exists p; split; [exact P1|split; [exact P2|exact P3]]].
        apply Hop; [exact Hlt|]. unfold amt in NE0. change (esize s0 e) with (esize s e) in NE0. lia. }
    destruct (enum_modify_size s0 e amt) as [s1 r]. cbn [fst snd] in Hpost.
    destruct Hpost as [p [-> [Pok Perr]]].
    destruct r; cbn [fst].
    + specialize (Pok eq_refl). change (emax (set_rel s0 p) e) with (emax s e).
      destruct (Z.ltb_spec (emax s e) idx); [|lia].
      assert (Hmx0 : 0 <= idx) by (pose proof (a_emax s H e); lia).
      assert (Hemn : forall e', emin s0 e' = upd (emin s0) e (emin s e) e').
      { intros e'. unfold upd. destruct (Nat.eqb_spec e' e) as [E|]; [rewrite E|]; reflexivity. }
      replace (esize s0 e + amt) with (esize_of (emin s e) idx) in Pok by (unfold amt; lia).
      eapply (InvA_enum_update s0 _ e idx (emin s e) H0 Hmx0); try reflexivity; try exact Hemn; try exact Pok.
      intros e' v' Hv'. cbn in Hv'. cbn.
      apply (Hvals_final idx ltac:(lia) ltac:(lia) e' v').
      unfold upd in Hv'. destruct (Nat.eqb e' e); exact Hv'.
    + apply InvA_set_rel; [exact H0|apply Perr; discriminate].
    + apply InvA_set_rel; [exact H0|apply Perr; discriminate].
  - (* the size does not change *)
    cbn [fst]. change (emax s0 e) with (emax s e). destruct (Z.ltb_spec (emax s e) idx); [lia|].
    eapply (InvA_resized s0 _ (sz s0) H0); try reflexivity.
    + exact (a_ok s0 H0).
    + apply (a_size s0 H0).
    + apply (a_emax s0 H0).
    + apply (a_refs s0 H0).
    + apply (a_refs2 s0 H0).
    + apply (a_refs_nd s0 H0).
    + intros e' v' Hv'. cbn in Hv'. cbn.
      pose proof (Hvals_final (emax s e) ltac:(lia) ltac:(lia) e' v') as F.
      assert (Eu : upd (emax s) e (emax s e) e' = emax s e') by (unfold upd; destruct (Nat.eqb_spec e' e) as [->|]; reflexivity).
      rewrite Eu in F. apply F. unfold upd in Hv'. destruct (Nat.eqb e' e); exact Hv'.
Qed.

Lemma ok_all_bump_le : forall s e n', InvA s -> 1 <= n' ->
  (forall x, In x (erefs s e) -> attached s x -> n' <= sz s x) ->
  ok_all s (rel s) (bump s (erefs s e) n').
Proof.
  intros s e n' H Hn Hle L. eapply ok_len_le; [|apply (a_ok s H L)]. intros t Ht. unfold bump.
  pose proof (a_size s H t). destruct (memb t (erefs s e)) eqn:E; [|lia].
  apply memb_In in E. specialize (Hle t E (ex_intro _ L Ht)). lia.
Qed.

Lemma inv_set_min_size : forall s e n, InvA s -> ok_op s (OSetMinSize e n) ->
  InvA (set_emin s (upd (emin s) e n)).
Proof.
  intros s e n H Hop. cbn [ok_op] in Hop.
  eapply (InvA_enum_update s _ e (emax s e) n H (a_emax s H e)); try reflexivity.
  - intros e'. cbn. unfold upd. destruct (Nat.eqb_spec e' e) as [E|]; [rewrite E|]; reflexivity.
  - cbn. apply ok_all_bump_le; [exact H|apply esize_of_pos; apply (a_emax s H)|].
    intros x Hx Ha. destruct (a_refs2 s H x e Hx) as [K _]. unfold sz. rewrite K. apply (Hop x Hx Ha).
  - intros e' v Hv. cbn in Hv. cbn. apply (a_vals s H). exact Hv.
Qed.

Lemma inv_remove_all_values : forall s e, InvA s -> InvA (fst (step_remove_all_values s e)).
Proof.
  intros s e H. unfold step_remove_all_values. cbn [fst].
  assert (Hemn : forall e', emin s e' = upd (emin s) e (emin s e) e').
  { intros e'. unfold upd. destruct (Nat.eqb_spec e' e) as [E|]; [rewrite E|]; reflexivity. }
  eapply (InvA_enum_update s _ e 0 (emin s e) H ltac:(lia)); try reflexivity; try exact Hemn.
  - cbn. apply ok_all_bump_le; [exact H|apply esize_of_pos; lia|].
    intros x Hx _. destruct (a_refs2 s H x e Hx) as [K _]. unfold sz. rewrite K. unfold esize.
    apply esize_of_mono; [lia|apply (a_emax s H)].
  - intros e' v Hv. cbn in Hv. cbn. unfold upd in Hv. destruct (Nat.eqb_spec e' e) as [->|NE]; [destruct Hv|].
    destruct (a_vals s H e' v Hv) as (A & B & C).
    assert (Hm : memb v (evals s e) = false).
    { destruct (memb v (evals s e)) eqn:Em; [|reflexivity]. apply memb_In in Em.
      destruct (a_vals s H e v Em) as (A' & _). congruence. }
    rewrite Hm. unfold upd. destruct (Nat.eqb_spec e' e); [congruence|]. repeat split; assumption.
Qed.

Lemma max_index_bound : forall s vs bound, 0 <= bound -> (forall v, In v vs -> vidx s v <= bound) -> 0 <= max_index s vs <= bound.
Proof.
  intros s vs bound Hb Hv. unfold max_index. split.
  - apply (proj1 (max_index_ge s vs 0)).
  - apply max_index_le; assumption.
Qed.

Lemma inv_remove_value : forall s e v, InvA s -> InvA (fst (step_remove_value s e v)).
Proof.
  intros s e v H. unfold step_remove_value. destruct (negb (memb v (evals s e))) eqn:Em; [exact H|]. cbn [fst].
  apply negb_false_iff in Em. apply memb_In in Em.
  assert (Hvals : forall mx, (forall v', In v' (lrem v (evals s e)) -> vidx s v' <= mx) ->
     forall e' v', In v' (upd (evals s) e (lrem v (evals s e)) e') ->
       upd (vpar s) v None v' = Some e' /\ vidx s v' <= upd (emax s) e mx e' /\ (v' < nval s)%nat).
  { intros mx Hmx e' v' Hv'. unfold upd in Hv'. unfold upd at 2. destruct (Nat.eqb_spec e' e) as [->|NE].
    - pose proof (Hmx v' Hv') as Hb. apply lrem_In in Hv'. destruct Hv' as [Hv' NEv].
      destruct (a_vals s H e v' Hv') as (A & B & C). rewrite upd_other by exact NEv. repeat split; assumption.
    - destruct (a_vals s H e' v' Hv') as (A & B & C).
      assert (NEv : v' <> v).
      { intros ->. destruct (a_vals s H e v Em) as (A' & _). congruence. }
      rewrite upd_other by exact NEv. repeat split; assumption. }
  assert (Hold : forall v', In v' (lrem v (evals s e)) -> vidx s v' <= emax s e).
  { intros v' Hv'. apply lrem_In in Hv'. apply (a_vals s H e v'). tauto. }
  destruct (vidx s v =? emax s e).
  - (* the max index is recomputed *)
    set (mx := max_index s (lrem v (evals s e))).
    assert (Hmx : 0 <= mx <= emax s e).
    { unfold mx. apply max_index_bound; [apply (a_emax s H)|exact Hold]. }
    assert (Hemn : forall e', emin s e' = upd (emin s) e (emin s e) e').
    { intros e'. unfold upd. destruct (Nat.eqb_spec e' e) as [E|]; [rewrite E|]; reflexivity. }
    eapply (InvA_enum_update s _ e mx (emin s e) H ltac:(lia)); try reflexivity; try exact Hemn.
    + intros e'. cbn. rewrite upd_same. reflexivity.
    + cbn. apply ok_all_bump_le; [exact H|apply esize_of_pos; lia|].
      intros x Hx _. destruct (a_refs2 s H x e Hx) as [K _]. unfold sz. rewrite K. unfold esize.
      apply esize_of_mono; lia.
    + intros e' v' Hv'. cbn in Hv'. cbn. rewrite upd_same. fold mx. apply Hvals; [|exact Hv'].
      intros v'' Hv''. unfold mx. apply (proj2 (max_index_ge _ _ 0)). exact Hv''.
  - eapply (InvA_resized s _ (sz s) H); try reflexivity.
    + exact (a_ok s H).
    + apply (a_size s H).
    + apply (a_emax s H).
    + apply (a_refs s H).
    + apply (a_refs2 s H).
    + apply (a_refs_nd s H).
    + intros e' v' Hv'. cbn in Hv'. cbn. pose proof (Hvals (emax s e) Hold e' v' Hv') as F.
      assert (Eu : upd (emax s) e (emax s e) e' = emax s e') by (unfold upd; destruct (Nat.eqb_spec e' e) as [->|]; reflexivity).
      rewrite Eu in F. exact F.
Qed.

Lemma inv_update_index : forall s v idx, InvA s -> ok_op s (OUpdateIndex v idx) -> InvA (fst (step_update_index s v idx)).
Proof.
  intros s v idx H Hop. cbn [ok_op] in Hop. unfold step_update_index.
  destruct (vidx s v =? idx); [exact H|].
  destruct (vpar s v) as [e|] eqn:Evp.
  - destruct (verify_value_index s e idx) eqn:Ev; try exact H.
    set (newmax := Z.max (Z.max 0 idx) (max_index s (lrem v (evals s e)))).
    set (amt := esize_of (emin s e) newmax - esize s e).
    assert (Hnm : 0 <= newmax) by (unfold newmax; lia).
    assert (Hnew : 1 <= esize s e + amt).
    { unfold amt. pose proof (esize_of_pos (emin s e) newmax Hnm). lia. }
    assert (Hpost : exists p, fst (enum_modify_size s e amt) = set_rel s p
              /\ (snd (enum_modify_size s e amt) = VOk -> ok_all s p (bump s (erefs s e) (esize s e + amt)))
              /\ (snd (enum_modify_size s e amt) <> VOk -> ok_all s p (sz s))).
    { destruct (Z.eq_dec amt 0) as [E0|NE0].
      - rewrite E0. unfold enum_modify_size. cbn [Z.eqb fst snd]. exists (rel s). split; [apply set_rel_id|].
        split; [|intros _; exact (a_ok s H)]. intros _. eapply ok_all_ext; [|exact (a_ok s H)].
        intros y. replace (esize s e + 0) with (esize s e) by lia. apply bump_same. exact H.
      - destruct (enum_modify_post s e amt H Hnew) as [p [P1 [P2 [P3 _]]]]; [|exists p; split; [exact P1|split; [exact P2|exact P3]]].
        apply (Hop e eq_refl). fold newmax. unfold amt in NE0. lia. }
    destruct (enum_modify_size s e amt) as [s1 r]. cbn [fst snd] in Hpost.
    destruct Hpost as [p [-> [Pok Perr]]].
    destruct r; cbn [fst].
    + specialize (Pok eq_refl).
      replace (esize s e + amt) with (esize_of (emin s e) newmax) in Pok by (unfold amt; lia).
      assert (Hemn : forall e', emin s e' = upd (emin s) e (emin s e) e').
      { intros e'. unfold upd. destruct (Nat.eqb_spec e' e) as [E|]; [rewrite E|]; reflexivity. }
      eapply (InvA_enum_update s _ e newmax (emin s e) H Hnm); try reflexivity; try exact Hemn; try exact Pok.
      intros e' v' Hv'. cbn in Hv'. cbn.
      destruct (a_vals s H e' v' Hv') as (A & B & C). split; [exact A|split; [|exact C]].
      unfold upd. destruct (Nat.eqb_spec v' v) as [->|NEv].
      * assert (e' = e) by congruence. subst e'. rewrite Nat.eqb_refl. unfold newmax. lia.
      * destruct (Nat.eqb_spec e' e) as [->|NEe]; [|exact B].
        assert (Hin : In v' (lrem v (evals s e))) by (apply lrem_In; split; assumption).
        pose proof (proj2 (max_index_ge s (lrem v (evals s e)) 0) v' Hin). unfold newmax, max_index. lia.
    + apply InvA_set_rel; [exact H|apply Perr; discriminate].
    + apply InvA_set_rel; [exact H|apply Perr; discriminate].
  - (* a detached value *)
    cbn [fst]. eapply (InvA_resized s _ (sz s) H); try reflexivity.
    + exact (a_ok s H).
    + apply (a_size s H).
    + apply (a_emax s H).
    + apply (a_refs s H).
    + apply (a_refs2 s H).
    + apply (a_refs_nd s H).
    + intros e' v' Hv'. cbn in Hv'. cbn. destruct (a_vals s H e' v' Hv') as (A & B & C).
      rewrite upd_other; [repeat split; assumption|]. intros ->. congruence.
Qed.

(* --- every operation ------------------------------------------------------------------------------ *)

Theorem inv_step : forall s o, InvA s -> ok_op s o -> InvA (fst (step s o)).
Proof.
  intros s o H Hop. destruct o; cbn [step].
  - apply inv_new_msg; [exact H|exact Hop].
  - apply inv_new_std; exact H.
  - apply inv_new_enum; exact H.
  - apply inv_new_enumsig; exact H.
  - apply inv_new_mux; exact H.
  - destruct (vmsg s m) eqn:Em; cbn [andb]; [|exact H]. destruct (vsig s x) eqn:Ex; [|exact H].
    apply inv_append; assumption.
  - destruct (vmsg s m) eqn:Em; cbn [andb]; [|exact H]. destruct (vsig s x) eqn:Ex; [|exact H].
    apply inv_insert; assumption.
  - destruct (vmsg s m); [apply inv_remove|]; exact H.
  - destruct (vmsg s m); [apply inv_remove_all|]; exact H.
  - destruct (vmsg s m); [apply inv_shift|]; exact H.
  - destruct (vmsg s m); [apply inv_shift|]; exact H.
  - destruct (vmsg s m); [apply inv_compact|]; exact H.
  - destruct (vmsg s m); [apply inv_resize|]; exact H.
  - destruct (vmsg s m); exact H.
  - destruct (vsig s x); [apply inv_set_type; assumption|exact H].
  - destruct (vsig s x) eqn:Ex; cbn [andb]; [|exact H]. destruct (venum s e); [apply inv_set_enum; assumption|exact H].
  - destruct (venum s e); [apply inv_add_value; assumption|exact H].
  - destruct (venum s e); [apply inv_remove_value|]; exact H.
  - destruct (venum s e); [apply inv_remove_all_values|]; exact H.
  - destruct (venum s e); [cbn [fst]; apply inv_set_min_size; assumption|exact H].
  - destruct (vval s v); [apply inv_update_index; assumption|exact H].
  - destruct (vmux s u) eqn:Eu; cbn [andb]; [|exact H]. destruct (vsig s x) eqn:Ex; [|exact H].
    apply inv_mux_insert; assumption.
  - destruct (vmux s u); [apply inv_mux_remove|]; exact H.
  - destruct (vmux s u); [apply inv_mux_clear_group|]; exact H.
  - destruct (vmux s u); [apply inv_mux_clear_all|]; exact H.
  - destruct (vmux s u); [apply (inv_mux_shift true); assumption|exact H].
  - destruct (vmux s u); [apply (inv_mux_shift false); assumption|exact H].
  - destruct (vmsg s m); [|exact H]. unfold step_resize_bus. destruct (bytes <? 0); [exact H|]. destruct (gbytes s m =? bytes); [exact H|].
    destruct (2 ^ 60 - 1 <? bytes); [exact H|]. destruct (lim <? bytes); [exact H|]. apply inv_resize; exact H.
  - destruct (vsig s x); exact H.
Qed.

Lemma inv_init : InvA init.
Proof.
  constructor; cbn; try (intros; reflexivity); try (intros; lia); try (intros; contradiction).
  - intros [m|u g]; cbn; [exact I|]. unfold gget. cbn. destruct g; exact I.
  - intros L L' x Hx. destruct L as [m|u g]; cbn in Hx; [contradiction|]. unfold gget in Hx. cbn in Hx. destruct g; contradiction.
  - intros L x Hx. destruct L as [m|u g]; cbn in Hx; [contradiction|]. unfold gget in Hx. cbn in Hx. destruct g; contradiction.
  - intros e. constructor.
Qed.

(* histories all of whose steps satisfy the per-step hypotheses *)
Fixpoint ok_hist_from (s : state) (ops : list op) : Prop :=
  match ops with
  | [] => True
  | o :: r => ok_op s o /\ ok_hist_from (fst (step s o)) r
  end.
Definition ok_hist (ops : list op) : Prop := ok_hist_from init ops.

Lemma inv_run_from : forall ops s, InvA s -> ok_hist_from s ops ->
  InvA (fold_left (fun s o => fst (step s o)) ops s).
Proof.
  induction ops as [|o r IH]; intros s H Hh; cbn [fold_left]; [exact H|].
  destruct Hh as [Ho Hr]. apply IH; [apply inv_step; assumption|exact Hr].
Qed.

Theorem inv_reachable : forall ops, ok_hist ops -> InvA (run ops).
Proof. intros ops Hh. unfold run. apply inv_run_from; [apply inv_init|exact Hh]. Qed.
