(* C01/C07 — the layout invariant of the state machine and its preservation by every operation
   (T1 layout_wf_reachable, C07 groups_wf). *)
From Coq Require Import ZArith List Bool Arith Lia.
From Coq Require Import ZifyBool ZifyNat.
From Acme.C01 Require Import Layout State Model ProofsLayout.
Import ListNotations.
Open Scope Z_scope.

(* ---------------------------------------------------------------------------------------- *)
(* layouts of a state: message layouts and multiplexer groups                                 *)
(* ---------------------------------------------------------------------------------------- *)

Inductive lid := LM (m : nat) | LG (u g : nat).

Definition lay (s : state) (L : lid) : list nat :=
  match L with LM m => glay s m | LG u g => gget s u g end.
Definition lsz (s : state) (L : lid) : Z :=
  match L with LM m => glsize s m | LG u g => mux_gsize s u end.
(* a signal may sit in several groups of one multiplexer, never in two containers *)
Definition same_cont (L L' : lid) : Prop :=
  match L, L' with
  | LM m, LM m' => m = m'
  | LG u _, LG u' _ => u = u'
  | _, _ => False
  end.
Definition attached (s : state) (x : nat) : Prop := exists L, In x (lay s L).

Record InvA (s : state) : Prop := {
  a_ok : forall L, ok (rel s) (sz s) 0 (lsz s L) (lay s L);
  a_lsize : forall m, glsize s m = gbytes s m * 8;
  a_excl : forall L L' x, In x (lay s L) -> In x (lay s L') -> same_cont L L';
  a_emax : forall e, 0 <= emax s e;
  a_alloc : forall L x, In x (lay s L) -> (x < nsig s)%nat;
  a_unalloc : forall u, (nsig s <= u)%nat -> ugroups s u = [];
  a_munalloc : forall m, (nmsg s <= m)%nat -> glay s m = [];
  a_refs : forall x e, (x < nsig s)%nat -> kind s x = KEnum e -> In x (erefs s e);
  a_vals : forall e v, In v (evals s e) -> vpar s v = Some e /\ vidx s v <= emax s e /\ (v < nval s)%nat
}.

(* ---------------------------------------------------------------------------------------- *)
(* small facts                                                                               *)
(* ---------------------------------------------------------------------------------------- *)

Lemma memb_In : forall x l, memb x l = true <-> In x l.
Proof.
  intros. unfold memb. rewrite existsb_exists. split.
  - intros [y [Hy E]]. apply Nat.eqb_eq in E. subst. exact Hy.
  - intros H. exists x. split; [exact H|apply Nat.eqb_refl].
Qed.

Lemma ladd_In : forall x l y, In y (ladd x l) <-> y = x \/ In y l.
Proof.
  intros. unfold ladd. destruct (memb x l) eqn:E.
  - apply memb_In in E. split; [auto|intros [->|?]; assumption].
  - cbn [In]. intuition.
Qed.

Lemma lrem_In : forall x l y, In y (lrem x l) <-> In y l /\ y <> x.
Proof.
  intros. unfold lrem. rewrite filter_In. destruct (Nat.eqb_spec y x); cbn; intuition congruence.
Qed.

Lemma do_remove_In : forall l x y, In y (do_remove l x) <-> In y l /\ y <> x.
Proof. intros. apply lrem_In. Qed.

Lemma calc_size_pos : forall v, 0 <= v -> 1 <= calc_size v.
Proof.
  intros v Hv. unfold calc_size. destruct (Z.eqb_spec v 0); [lia|].
  destruct (Z.ltb_spec v 0); [lia|]. destruct (v <? 2 ^ 62); [|lia].
  pose proof (Z.log2_nonneg v). lia.
Qed.

Lemma esize_of_pos : forall mn mx, 0 <= mx -> 1 <= esize_of mn mx.
Proof.
  intros. unfold esize_of. pose proof (calc_size_pos mx H). destruct (Z.ltb_spec (calc_size mx) mn); lia.
Qed.

Lemma calc_size_mono : forall a b, 0 <= a -> a <= b -> calc_size a <= calc_size b.
Proof.
  intros a b Ha Hab. unfold calc_size.
  destruct (Z.eqb_spec a 0) as [->|Na].
  - destruct (Z.eqb_spec b 0); [lia|]. destruct (Z.ltb_spec b 0); [lia|].
    destruct (b <? 2 ^ 62); [pose proof (Z.log2_nonneg b); lia|lia].
  - destruct (Z.eqb_spec b 0); [lia|]. destruct (Z.ltb_spec a 0); [lia|]. destruct (Z.ltb_spec b 0); [lia|].
    destruct (Z.ltb_spec a (2 ^ 62)); destruct (Z.ltb_spec b (2 ^ 62)); try lia.
    + pose proof (Z.log2_le_mono a b Hab). lia.
    + assert (Z.log2 a < 62) by (apply Z.log2_lt_pow2; lia). lia.
Qed.

Lemma esize_of_mono : forall mn a b, 0 <= a -> a <= b -> esize_of mn a <= esize_of mn b.
Proof.
  intros. unfold esize_of. pose proof (calc_size_mono a b H H0).
  destruct (Z.ltb_spec (calc_size a) mn); destruct (Z.ltb_spec (calc_size b) mn); lia.
Qed.

(* gget of a list update *)
Lemma nth_set_nth_same : forall {A} (l : list A) n v d, (n < length l)%nat -> nth n (set_nth l n v) d = v.
Proof. induction l as [|a r IH]; intros n v d Hn; cbn in *; [lia|]. destruct n; cbn; [reflexivity|apply IH; lia]. Qed.
Lemma nth_set_nth_other : forall {A} (l : list A) n k v d, n <> k -> nth k (set_nth l n v) d = nth k l d.
Proof.
  induction l as [|a r IH]; intros n k v d Hn; cbn; [reflexivity|].
  destruct n; destruct k; cbn; try congruence; try reflexivity. apply IH. congruence.
Qed.
Lemma set_nth_length : forall {A} (l : list A) n v, length (set_nth l n v) = length l.
Proof. induction l; intros; cbn; [reflexivity|]. destruct n; cbn; auto. Qed.
Lemma nth_set_nth_oob : forall {A} (l : list A) n v, (length l <= n)%nat -> set_nth l n v = l.
Proof. induction l as [|a r IH]; intros n v Hn; cbn in *; [reflexivity|]. destruct n; [lia|]. f_equal. apply IH. lia. Qed.

(* ok is monotone in len *)
Lemma ok_len_le : forall pos len len' l lo size,
  (forall t, In t l -> 1 <= len' t <= len t) -> ok pos len lo size l -> ok pos len' lo size l.
Proof.
  induction l as [|t r IH]; intros lo size Hl H; cbn [ok] in *; [exact I|].
  destruct H as (H1 & H2 & H3 & H4). pose proof (Hl t (or_introl eq_refl)).
  split; [lia|split; [lia|split; [lia|]]].
  eapply ok_weaken_lo; [|apply IH; [intros y Hy; apply Hl; right; exact Hy|exact H4]]. lia.
Qed.

(* ---------------------------------------------------------------------------------------- *)
(* the registration functions do not touch anything the layouts depend on                     *)
(* ---------------------------------------------------------------------------------------- *)

(* the layout-relevant part of a state *)
Definition lcore (s : state) :=
  (nsig s, kind s, rel s, ugroups s, glsize s, gbytes s, glay s, emax s, emin s, erefs s,
   evals s, vpar s, vidx s, nval s, nmsg s).

Lemma lcore_msg_add : forall s m x, lcore (msg_add_signal s m x) = lcore s.
Proof. reflexivity. Qed.
Lemma lcore_msg_remove : forall s m x, lcore (msg_remove_signal s m x) = lcore s.
Proof. reflexivity. Qed.
Lemma lcore_mux_add : forall s u x, lcore (mux_add_signal s u x) = lcore s.
Proof. intros. unfold mux_add_signal. cbn. destruct (pmsg s u); reflexivity. Qed.
Lemma lcore_mux_remove : forall s u x, lcore (mux_remove_signal s u x) = lcore s.
Proof. intros. unfold mux_remove_signal. cbn. destruct (pmsg s u); reflexivity. Qed.

Lemma sz_core : forall s s', kind s' = kind s -> emax s' = emax s -> emin s' = emin s -> sz s' = sz s.
Proof. intros s s' Hk Hx Hn. unfold sz, esize. rewrite Hk, Hx, Hn. reflexivity. Qed.

Lemma InvA_core : forall s s', lcore s' = lcore s -> InvA s -> InvA s'.
Proof.
  intros s s' E H. unfold lcore in E. inversion E as [[E1 E2 E3 E4 E5 E6 E7 E8 E9 E10 E11 E12 E13 E14 E15]].
  assert (Hsz : sz s' = sz s) by (apply sz_core; assumption).
  assert (Hlay : forall L, lay s' L = lay s L) by (intros [m|u g]; cbn [lay]; unfold gget; rewrite ?E7, ?E4; reflexivity).
  assert (Hlsz : forall L, lsz s' L = lsz s L) by (intros [m|u g]; cbn [lsz]; unfold mux_gsize; rewrite ?E5, ?E2; reflexivity).
  destruct H. constructor.
  - intros L. rewrite Hlay, Hlsz, E3, Hsz. apply a_ok0.
  - intros m. rewrite E5, E6. apply a_lsize0.
  - intros L L' x. rewrite !Hlay. apply a_excl0.
  - intros e. rewrite E8. apply a_emax0.
  - intros L x. rewrite Hlay, E1. apply a_alloc0.
  - intros u. rewrite E1, E4. apply a_unalloc0.
  - intros m. rewrite E15, E7. apply a_munalloc0.
  - intros x e. rewrite E1, E2, E10. apply a_refs0.
  - intros e v. rewrite E11, E12, E13, E14, E8. apply a_vals0.
Qed.

(* ---------------------------------------------------------------------------------------- *)
(* per-step hypotheses: the narrowest conditions excluding the open findings                  *)
(*   D20 re-attachment (C05), D03 SetMinSize, D35 shared followers, D36 two refs per layout,  *)
(*   and the C05 link invariant for the signals whose size changes                            *)
(* ---------------------------------------------------------------------------------------- *)

(* the parent links of x lead to the layouts that hold it (C05's invariant, restricted to x) *)
Definition link_ok (s : state) (x : nat) : Prop :=
  (forall m, In x (glay s m) -> pmux s x = None /\ pmsg s x = Some m /\ memb x (gsigs s m) = true)
  /\ (forall u g, In x (gget s u g) ->
        pmux s x = Some u /\ memb x (usigs s u) = true /\ exists gs, groups_of s u x = Some gs /\ In g gs).

(* every signal behind x in a group holding x is held by that group only (excludes D35) *)
Definition single_followers (s : state) (x : nat) : Prop :=
  forall u g fs y, followers (gget s u g) x = Some fs -> In y fs -> forall g', In y (gget s u g') -> g' = g.

Definition resize_ok (s : state) (x : nat) : Prop := link_ok s x /\ single_followers s x.

(* no layout holds two different signals of the list (excludes D36) *)
Definition unshared (s : state) (xs : list nat) : Prop :=
  forall L x y, In x xs -> In y xs -> In x (lay s L) -> In y (lay s L) -> x = y.

Definition enum_resize_ok (s : state) (e : nat) : Prop :=
  (forall x, In x (erefs s e) -> attached s x -> resize_ok s x) /\ unshared s (erefs s e).

Definition ok_op (s : state) (o : op) : Prop :=
  match o with
  | OAppend m x | OInsert m x _ => ~ attached s x
  | OMuxInsert u x _ _ =>
      ~ attached s x
      \/ (memb x (usigs s u) = true /\ forall L, In x (lay s L) -> exists g, L = LG u g)
  | OMuxShiftL u x _ | OMuxShiftR u x _ =>
      forall ids, ugids s u x = Some ids -> forall g, ids = [g] ->
        forall g', In x (gget s u g') -> g' = Z.to_nat g
  | OSetType x _ => resize_ok s x
  | OSetEnum x _ => resize_ok s x
  | OAddValue e idx =>
      emax s e < idx -> esize_of (emin s e) idx <> esize s e -> enum_resize_ok s e
  | OUpdateIndex v idx =>
      forall e, vpar s v = Some e ->
        esize_of (emin s e) (Z.max (Z.max 0 idx) (max_index s (lrem v (evals s e)))) <> esize s e ->
        enum_resize_ok s e
  | OSetMinSize e n =>
      forall x, In x (erefs s e) -> attached s x -> esize_of n (emax s e) <= esize s e
  | _ => True
  end.

(* ---------------------------------------------------------------------------------------- *)
(* preservation, operation by operation                                                      *)
(* ---------------------------------------------------------------------------------------- *)

Lemma lay_nil_unalloc : forall s u g, InvA s -> (nsig s <= u)%nat -> gget s u g = [].
Proof. intros s u g H Hu. unfold gget. rewrite (a_unalloc s H u Hu). destruct g; reflexivity. Qed.

Lemma not_attached_fresh : forall s L, InvA s -> ~ In (nsig s) (lay s L).
Proof. intros s L H Hin. pose proof (a_alloc s H L _ Hin). lia. Qed.

(* --- creation ------------------------------------------------------------------------------ *)

Lemma inv_new_msg : forall s n, InvA s -> InvA (fst (step s (ONewMsg n))).
Proof.
  intros s n H. cbn [step fst]. constructor; cbn.
  - intros [m|u g]; cbn [lay lsz]; cbn.
    + unfold upd. destruct (Nat.eqb_spec m (nmsg s)) as [->|NE]; [|apply (a_ok s H (LM m))].
      rewrite (a_munalloc s H) by lia. exact I.
    + apply (a_ok s H (LG u g)).
  - intros m. unfold upd. destruct (Nat.eqb_spec m (nmsg s)); [reflexivity|apply (a_lsize s H)].
  - intros L L' x. pose proof (a_excl s H L L' x) as E. destruct L, L'; exact E.
  - exact (a_emax s H).
  - intros L x. pose proof (a_alloc s H L x) as E. destruct L; exact E.
  - exact (a_unalloc s H).
  - intros m Hm. apply (a_munalloc s H). lia.
  - exact (a_refs s H).
  - exact (a_vals s H).
Qed.

(* a fresh signal handle: only its kind (and enum refs / empty groups) is written *)
Lemma inv_alloc_sig : forall s s' k,
  InvA s ->
  nsig s' = S (nsig s) -> kind s' = upd (kind s) (nsig s) k -> rel s' = rel s ->
  (forall u, u <> nsig s -> ugroups s' u = ugroups s u) ->
  (forall g, nth g (ugroups s' (nsig s)) [] = []) ->
  glsize s' = glsize s -> gbytes s' = gbytes s -> glay s' = glay s -> nmsg s' = nmsg s ->
  emax s' = emax s -> emin s' = emin s ->
  evals s' = evals s -> vpar s' = vpar s -> vidx s' = vidx s -> nval s' = nval s ->
  (forall e x, In x (erefs s e) -> In x (erefs s' e)) ->
  (forall e, k = KEnum e -> In (nsig s) (erefs s' e)) ->
  InvA s'.
Proof.
  intros s s' k H En Ek Er Eg Eg0 Els Egb Egl Enm Emx Emn Eev Evp Evi Env Hrefs Hk.
  assert (Hsz : forall x, x <> nsig s -> sz s' x = sz s x).
  { intros x Hx. unfold sz, esize. rewrite Ek, Emx, Emn. rewrite upd_other by exact Hx. reflexivity. }
  assert (Hlay : forall L, lay s' L = lay s L).
  { intros [m|u g]; cbn [lay]; [rewrite Egl; reflexivity|]. unfold gget.
    destruct (Nat.eq_dec u (nsig s)) as [->|NE]; [|rewrite Eg by exact NE; reflexivity].
    rewrite Eg0. rewrite (a_unalloc s H) by lia. destruct g; reflexivity. }
  constructor.
  - intros L. rewrite Hlay, Er.
    destruct L as [m|u g].
    + cbn [lsz]. rewrite Els. eapply ok_ext; [|apply (a_ok s H (LM m))].
      intros t Ht. split; [reflexivity|]. apply Hsz. intros ->. exact (not_attached_fresh s (LM m) H Ht).
    + destruct (Nat.eq_dec u (nsig s)) as [->|NE].
      * cbn [lay]. rewrite (lay_nil_unalloc s _ g H) by lia. exact I.
      * assert (E : lsz s' (LG u g) = lsz s (LG u g)).
        { cbn [lsz]. unfold mux_gsize. rewrite Ek. rewrite upd_other by exact NE. reflexivity. }
        rewrite E. eapply ok_ext; [|apply (a_ok s H (LG u g))].
        intros t Ht. split; [reflexivity|]. apply Hsz. intros ->. exact (not_attached_fresh s (LG u g) H Ht).
  - intros m. rewrite Els, Egb. apply (a_lsize s H).
  - intros L L' x. rewrite !Hlay. apply (a_excl s H).
  - intros e. rewrite Emx. apply (a_emax s H).
  - intros L x. rewrite Hlay. intros Hin. pose proof (a_alloc s H L x Hin). lia.
  - intros u Hu. rewrite Eg by lia. apply (a_unalloc s H). lia.
  - intros m. rewrite Enm, Egl. apply (a_munalloc s H).
  - intros x e Hx. rewrite Ek. unfold upd. destruct (Nat.eqb_spec x (nsig s)) as [->|NE].
    + intros ->. apply Hk. reflexivity.
    + intros Hke. apply Hrefs. apply (a_refs s H); [lia|exact Hke].
  - intros e v. rewrite Eev, Evp, Evi, Env, Emx. apply (a_vals s H).
Qed.

Lemma inv_new_std : forall s n, InvA s -> InvA (fst (step s (ONewStd n))).
Proof.
  intros s n H. cbn [step]. destruct (n <? 0); [exact H|]. destruct (n =? 0); [exact H|]. cbn [fst].
  eapply (inv_alloc_sig s _ (KStd n) H); try reflexivity.
  - intros g. cbn. rewrite (a_unalloc s H) by lia. destruct g; reflexivity.
  - intros e x Hx. exact Hx.
  - intros e E. discriminate.
Qed.

Lemma inv_new_enum : forall s, InvA s -> InvA (fst (step s ONewEnum)).
Proof. intros s H. cbn [step fst]. eapply InvA_core; [|exact H]. reflexivity. Qed.

Lemma inv_new_enumsig : forall s e, InvA s -> InvA (fst (step s (ONewEnumSig e))).
Proof.
  intros s e H. cbn [step]. destruct (venum s e); [|exact H]. cbn [fst].
  eapply (inv_alloc_sig s _ (KEnum e) H); try reflexivity.
  - intros g. cbn. rewrite (a_unalloc s H) by lia. destruct g; reflexivity.
  - intros e' x Hx. cbn. unfold upd. destruct (Nat.eqb_spec e' e) as [->|NE]; [|exact Hx].
    apply ladd_In. right. exact Hx.
  - intros e' E. inversion E; subst. cbn. rewrite upd_same. apply ladd_In. left. reflexivity.
Qed.

Lemma nth_repeat_nil : forall {A} n g, nth g (repeat (@nil A) n) [] = [].
Proof. induction n; intros g; cbn; destruct g; auto. Qed.

Lemma inv_new_mux : forall s c g, InvA s -> InvA (fst (step s (ONewMux c g))).
Proof.
  intros s c g H. cbn [step]. destruct (c <? 0); [exact H|]. destruct (c =? 0); [exact H|].
  destruct (g <? 0); [exact H|]. destruct (g =? 0); [exact H|]. cbn [fst].
  eapply (inv_alloc_sig s _ (KMux c g) H); try reflexivity.
  - intros u Hu. cbn. rewrite upd_other by exact Hu. reflexivity.
  - intros g'. cbn. rewrite upd_same. apply nth_repeat_nil.
  - intros e x Hx. exact Hx.
  - intros e E. discriminate.
Qed.

(* --- operations that only rearrange layouts (lists and positions) ----------------------------- *)

Lemma InvA_layouts : forall s s',
  InvA s ->
  nsig s' = nsig s -> kind s' = kind s -> glsize s' = glsize s -> gbytes s' = gbytes s -> nmsg s' = nmsg s ->
  emax s' = emax s -> emin s' = emin s -> erefs s' = erefs s ->
  evals s' = evals s -> vpar s' = vpar s -> vidx s' = vidx s -> nval s' = nval s ->
  (forall L, ok (rel s') (sz s) 0 (lsz s L) (lay s' L)) ->
  (forall L L' x, In x (lay s' L) -> In x (lay s' L') -> same_cont L L') ->
  (forall L x, In x (lay s' L) -> (x < nsig s)%nat) ->
  (forall u, (nsig s <= u)%nat -> ugroups s' u = []) ->
  (forall m, (nmsg s <= m)%nat -> glay s' m = []) ->
  InvA s'.
Proof.
  intros s s' H En Ek Els Egb Enm Emx Emn Erf Eev Evp Evi Env Hok Hex Hal Hun Hmun.
  assert (Hsz : sz s' = sz s) by (apply sz_core; assumption).
  assert (Hlsz : forall L, lsz s' L = lsz s L).
  { intros [m|u g]; cbn [lsz]; [rewrite Els; reflexivity|unfold mux_gsize; rewrite Ek; reflexivity]. }
  constructor.
  - intros L. rewrite Hsz, Hlsz. apply Hok.
  - intros m. rewrite Els, Egb. apply (a_lsize s H).
  - exact Hex.
  - intros e. rewrite Emx. apply (a_emax s H).
  - intros L x. rewrite En. apply Hal.
  - intros u. rewrite En. apply Hun.
  - intros m. rewrite Enm. apply Hmun.
  - intros x e. rewrite En, Ek, Erf. apply (a_refs s H).
  - intros e v. rewrite Eev, Evp, Evi, Env, Emx. apply (a_vals s H).
Qed.

(* layouts that only lose elements *)
Lemma InvA_shrink_lists : forall s s',
  InvA s ->
  nsig s' = nsig s -> kind s' = kind s -> glsize s' = glsize s -> gbytes s' = gbytes s -> nmsg s' = nmsg s ->
  emax s' = emax s -> emin s' = emin s -> erefs s' = erefs s ->
  evals s' = evals s -> vpar s' = vpar s -> vidx s' = vidx s -> nval s' = nval s -> rel s' = rel s ->
  (forall L, exists f, lay s' L = filter f (lay s L)) ->
  (forall u, (nsig s <= u)%nat -> ugroups s' u = []) ->
  InvA s'.
Proof.
  intros s s' H En Ek Els Egb Enm Emx Emn Erf Eev Evp Evi Env Er Hf Hun.
  assert (Hincl : forall L x, In x (lay s' L) -> In x (lay s L)).
  { intros L x. destruct (Hf L) as [f ->]. rewrite filter_In. tauto. }
  eapply (InvA_layouts s s' H); try assumption.
  - intros L. rewrite Er. destruct (Hf L) as [f ->]. apply ok_filter. apply (a_ok s H).
  - intros L L' x H1 H2. eapply (a_excl s H); eauto.
  - intros L x Hx. eapply (a_alloc s H); eauto.
  - intros m Hm. destruct (Hf (LM m)) as [f E]. cbn [lay] in E. rewrite E, (a_munalloc s H m Hm). reflexivity.
Qed.

Lemma filter_true : forall {A} (l : list A), filter (fun _ => true) l = l.
Proof. induction l; cbn; congruence. Qed.

Lemma inv_remove : forall s m x, InvA s -> InvA (fst (step_remove s m x)).
Proof.
  intros s m x H. unfold step_remove. destruct (negb (memb x (gsigs s m))); [exact H|]. cbn [fst].
  assert (H1 : InvA (msg_remove_signal s m x)) by (eapply InvA_core; [apply lcore_msg_remove|exact H]).
  eapply (InvA_shrink_lists (msg_remove_signal s m x)); try reflexivity; [exact H1| |].
  - intros [m'|u g]; cbn [lay].
    + cbn. unfold upd. destruct (Nat.eqb_spec m' m) as [->|NE].
      * eexists. unfold do_remove. reflexivity.
      * exists (fun _ => true). symmetry. apply filter_true.
    + exists (fun _ => true). symmetry. apply filter_true.
  - intros u Hu. apply (a_unalloc _ H1). exact Hu.
Qed.

Lemma filter_false : forall {A} (l : list A), filter (fun _ => false) l = [].
Proof. induction l; cbn; congruence. Qed.

Lemma inv_remove_all : forall s m, InvA s -> InvA (fst (step_remove_all s m)).
Proof.
  intros s m H. unfold step_remove_all. cbn [fst].
  eapply (InvA_shrink_lists s); try reflexivity; [exact H| |].
  - intros [m'|u g]; cbn [lay].
    + cbn. unfold upd. destruct (Nat.eqb_spec m' m) as [->|NE].
      * exists (fun _ => false). symmetry. apply filter_false.
      * exists (fun _ => true). symmetry. apply filter_true.
    + exists (fun _ => true). symmetry. apply filter_true.
  - intros u Hu. cbn. apply (a_unalloc _ H). exact Hu.
Qed.

(* positions change inside one message layout only *)
Lemma InvA_rel_msg : forall s m pos',
  InvA s ->
  ok pos' (sz s) 0 (glsize s m) (glay s m) ->
  (forall y, ~ In y (glay s m) -> pos' y = rel s y) ->
  InvA (set_rel s pos').
Proof.
  intros s m pos' H Hok Hfr.
  eapply (InvA_layouts s); try reflexivity; try exact H.
  - intros L. destruct (lid_eq_dec_msg L m) as [->|NE].
Abort.
