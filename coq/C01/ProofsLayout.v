(* C01/C07 — lemmas about the layout kernels (Layout.v). *)
From Coq Require Import ZArith List Bool Arith Sorted Lia.
From Coq Require Import ZifyBool ZifyNat.
From Acme.C01 Require Import Layout.
Import ListNotations.
Open Scope Z_scope.

(* ---------------------------------------------------------------------------------------- *)
(* wfb <-> wf                                                                                *)
(* ---------------------------------------------------------------------------------------- *)

Lemma wfb_from_spec : forall v lo size,
  wfb_from lo size v = true <->
  (StronglySorted (fun a b => i_end a <= i_start b) v
   /\ Forall (fun p => lo <= i_start p /\ 1 <= i_len p /\ i_end p <= size) v).
Proof.
  induction v as [|p r IH]; intros lo size; cbn [wfb_from].
  - split; [intros _; split; constructor | reflexivity].
  - rewrite !andb_true_iff, IH. unfold i_end in *. split.
    + intros [[[H1 H2] H3] [Hs Hf]]. split.
      * constructor; [exact Hs|].
        eapply Forall_impl; [|exact Hf]. cbn beta. intros a Ha. lia.
      * constructor; [lia|].
        eapply Forall_impl; [|exact Hf]. cbn beta. intros a Ha. lia.
    + intros [Hs Hf]. inversion Hs as [|? ? Hs' Hall]; subst. inversion Hf as [|? ? Hp Hf']; subst.
      repeat split; try lia; [exact Hs'|].
      rewrite Forall_forall in *. intros a Ha. specialize (Hall a Ha). specialize (Hf' a Ha). cbn beta in *. lia.
Qed.

Lemma wfb_wf : forall size v, wfb size v = true <-> wf size v.
Proof. intros. unfold wfb, wf. apply wfb_from_spec. Qed.

(* ---------------------------------------------------------------------------------------- *)
(* the working predicate: ok pos len lo size l  <->  wfb_from lo size (view pos len l)        *)
(* ---------------------------------------------------------------------------------------- *)

Fixpoint ok (pos len : handle -> Z) (lo size : Z) (l : list handle) : Prop :=
  match l with
  | [] => True
  | t :: r => lo <= pos t /\ 1 <= len t /\ pos t + len t <= size /\ ok pos len (pos t + len t) size r
  end.

Lemma ok_wfb : forall pos len l lo size,
  ok pos len lo size l <-> wfb_from lo size (view pos len l) = true.
Proof.
  induction l as [|t r IH]; intros lo size; cbn [ok view map wfb_from].
  - tauto.
  - unfold i_end, i_start, i_len; cbn [fst snd]. rewrite !andb_true_iff, <- IH.
    rewrite !Z.leb_le. tauto.
Qed.

Lemma ok_wf : forall pos len l size, ok pos len 0 size l <-> wf size (view pos len l).
Proof. intros. rewrite ok_wfb. apply wfb_wf. Qed.

Lemma ok_weaken_lo : forall pos len l lo lo' size, lo' <= lo -> ok pos len lo size l -> ok pos len lo' size l.
Proof. destruct l; cbn [ok]; intros; [exact I|]. intuition lia. Qed.

Lemma ok_weaken_size : forall pos len l lo size size', size <= size' -> ok pos len lo size l -> ok pos len lo size' l.
Proof.
  induction l as [|t r IH]; cbn [ok]; intros lo size size' Hs H; [exact I|].
  destruct H as (H1 & H2 & H3 & H4). repeat split; try lia. eapply IH; eauto.
Qed.

(* every element starts at or after lo, has len >= 1, ends within size *)
Lemma ok_In : forall pos len l lo size t, ok pos len lo size l -> In t l ->
  lo <= pos t /\ 1 <= len t /\ pos t + len t <= size.
Proof.
  induction l as [|a r IH]; cbn [ok In]; intros lo size t H Hin; [contradiction|].
  destruct H as (H1 & H2 & H3 & H4). destruct Hin as [->|Hin]; [lia|].
  specialize (IH _ _ _ H4 Hin). lia.
Qed.

Lemma ok_not_In_lt : forall pos len l lo size t, ok pos len lo size l -> pos t < lo -> ~ In t l.
Proof. intros * H Hlt Hin. pose proof (ok_In _ _ _ _ _ _ H Hin). lia. Qed.

Lemma ok_NoDup : forall pos len l lo size, ok pos len lo size l -> NoDup l.
Proof.
  induction l as [|a r IH]; cbn [ok]; intros lo size H; constructor.
  - destruct H as (H1 & H2 & H3 & H4). eapply ok_not_In_lt; [exact H4|lia].
  - destruct H as (_ & _ & _ & H4). eapply IH; eauto.
Qed.

(* ok depends only on pos and len over the list *)
Lemma ok_ext : forall pos pos' len len' l lo size,
  (forall t, In t l -> pos' t = pos t /\ len' t = len t) ->
  ok pos len lo size l -> ok pos' len' lo size l.
Proof.
  induction l as [|a r IH]; cbn [ok]; intros lo size Hext H; [exact I|].
  destruct (Hext a (or_introl eq_refl)) as [-> ->].
  destruct H as (H1 & H2 & H3 & H4). repeat split; try assumption.
  apply IH; [|exact H4]. intros t Ht. apply Hext. right; exact Ht.
Qed.

Lemma upd_same : forall {A} (f : nat -> A) x v, upd f x v x = v.
Proof. intros. unfold upd. rewrite Nat.eqb_refl. reflexivity. Qed.
Lemma upd_other : forall {A} (f : nat -> A) x v y, y <> x -> upd f x v y = f y.
Proof. intros. unfold upd. destruct (Nat.eqb_spec y x); congruence. Qed.

Lemma ok_upd_notin : forall pos len l lo size x v, ~ In x l -> ok pos len lo size l -> ok (upd pos x v) len lo size l.
Proof.
  intros * Hn H. eapply ok_ext; [|exact H]. intros t Ht. split; [|reflexivity].
  apply upd_other. intros ->. contradiction.
Qed.

(* sub-lists (filter) stay ok *)
Lemma ok_filter : forall pos len f l lo size, ok pos len lo size l -> ok pos len lo size (filter f l).
Proof.
  induction l as [|a r IH]; cbn [ok filter]; intros lo size H; [exact I|].
  destruct H as (H1 & H2 & H3 & H4). destruct (f a); cbn [ok].
  - repeat split; try assumption. apply IH; exact H4.
  - eapply ok_weaken_lo; [|apply IH; exact H4]. lia.
Qed.

Lemma ok_remove : forall pos len l lo size x, ok pos len lo size l -> ok pos len lo size (do_remove l x).
Proof. intros. apply ok_filter; assumption. Qed.

(* end of the last element, or lo for the empty list *)
Fixpoint lend (pos len : handle -> Z) (lo : Z) (l : list handle) : Z :=
  match l with [] => lo | t :: r => lend pos len (pos t + len t) r end.

Lemma lend_app : forall pos len l1 l2 lo, lend pos len lo (l1 ++ l2) = lend pos len (lend pos len lo l1) l2.
Proof. induction l1; intros; cbn [app lend]; auto. Qed.

Lemma last_end_lend : forall pos len l, last_end len pos l = lend pos len 0 l.
Proof.
  intros. unfold last_end. rewrite <- (rev_involutive l) at 2. destruct (rev l) as [|t r]; [reflexivity|].
  cbn [rev]. rewrite lend_app. reflexivity.
Qed.

Lemma lend_nonempty : forall pos len l lo lo', l <> [] -> lend pos len lo l = lend pos len lo' l.
Proof. destruct l; intros; [congruence|reflexivity]. Qed.

Lemma ok_app : forall pos len l1 l2 lo size,
  ok pos len lo size (l1 ++ l2) <-> ok pos len lo size l1 /\ ok pos len (lend pos len lo l1) size l2.
Proof.
  induction l1 as [|a r IH]; intros l2 lo size; cbn [app ok lend].
  - tauto.
  - rewrite IH. tauto.
Qed.

Lemma ok_lend : forall pos len l lo size, ok pos len lo size l -> lo <= lend pos len lo l /\ (l <> [] -> lend pos len lo l <= size).
Proof.
  induction l as [|a r IH]; cbn [ok lend]; intros lo size H; [split; [lia|congruence]|].
  destruct H as (H1 & H2 & H3 & H4). destruct (IH _ _ H4) as [Ha Hb]. split; [lia|intros _].
  destruct r; [cbn [lend]; lia|apply Hb; discriminate].
Qed.

(* ---------------------------------------------------------------------------------------- *)
(* append                                                                                    *)
(* ---------------------------------------------------------------------------------------- *)

Lemma verify_append_spec : forall len pos size l x,
  verify_append len pos size l x = None <-> len x <= size - last_end len pos l.
Proof.
  intros. unfold verify_append. destruct l as [|a r].
  - unfold last_end; cbn [rev]. destruct (Z.ltb_spec size (len x)); split; intros; try discriminate; try reflexivity; lia.
  - destruct (Z.ltb_spec (size - last_end len pos (a :: r)) (len x)); split; intros; try discriminate; try reflexivity; lia.
Qed.

Lemma lend_upd_notin : forall pos len l lo x v, ~ In x l -> lend (upd pos x v) len lo l = lend pos len lo l.
Proof.
  induction l as [|a r IH]; intros lo x v Hn; cbn [lend]; [reflexivity|].
  rewrite upd_other by (intros ->; apply Hn; left; reflexivity). apply IH. intros Hin; apply Hn; right; exact Hin.
Qed.

Lemma ok_append : forall pos len l size x,
  ok pos len 0 size l -> ~ In x l -> 1 <= len x -> len x <= size - last_end len pos l ->
  ok (upd pos x (last_end len pos l)) len 0 size (l ++ [x]).
Proof.
  intros * H Hn Hl Hfit. rewrite last_end_lend in *. apply ok_app. split.
  - apply ok_upd_notin; assumption.
  - cbn [ok]. rewrite upd_same.
    assert (E : lend (upd pos x (lend pos len 0 l)) len 0 l = lend pos len 0 l) by (apply lend_upd_notin; exact Hn).
    rewrite E. pose proof (ok_lend _ _ _ _ _ H). repeat split; try lia.
Qed.

(* ---------------------------------------------------------------------------------------- *)
(* insert                                                                                    *)
(* ---------------------------------------------------------------------------------------- *)

Definition disjoint_from (pos len : handle -> Z) (l : list handle) (b e : Z) : Prop :=
  forall t, In t l -> e <= pos t \/ pos t + len t <= b.

Lemma insert_loop_spec : forall pos len l lo size b e,
  ok pos len lo size l -> (insert_loop len pos l b e = true <-> disjoint_from pos len l b e).
Proof.
  induction l as [|t r IH]; intros lo size b e H; cbn [insert_loop].
  - split; [intros _ t []|reflexivity].
  - cbn [ok] in H. destruct H as (H1 & H2 & H3 & H4).
    destruct (Z.leb_spec e (pos t)).
    + split; [|reflexivity]. intros _ y [<-|Hy]; [left; lia|].
      pose proof (ok_In _ _ _ _ _ _ H4 Hy). left; lia.
    + destruct (Z.leb_spec (pos t + len t) b).
      * rewrite (IH _ _ b e H4). split.
        -- intros Hd y [<-|Hy]; [right; lia|apply Hd; exact Hy].
        -- intros Hd y Hy. apply Hd. right; exact Hy.
      * assert (Hor : ((pos t <=? b) || (pos t <? e)) = true).
        { apply orb_true_iff. right. apply Z.ltb_lt. lia. }
        rewrite Hor. split; [discriminate|]. intros Hd. destruct (Hd t (or_introl eq_refl)); lia.
Qed.

Lemma verify_insert_spec : forall pos len l size x b,
  ok pos len 0 size l ->
  (verify_insert len pos size l x b = None <->
   0 <= b /\ len x <= size /\ b + len x <= size /\ disjoint_from pos len l b (b + len x)).
Proof.
  intros * H. unfold verify_insert.
  destruct (Z.ltb_spec b 0); [split; [discriminate|intros; lia]|].
  destruct (Z.ltb_spec size (len x)); [split; [discriminate|intros; lia]|].
  destruct (Z.ltb_spec size (b + len x)); [split; [discriminate|intros; lia]|].
  pose proof (insert_loop_spec _ _ _ _ _ b (b + len x) H) as Hs.
  destruct (insert_loop len pos l b (b + len x)).
  - split; [intros _|reflexivity]. repeat split; try lia. apply Hs; reflexivity.
  - split; [discriminate|]. intros (_ & _ & _ & Hd). apply Hs in Hd. discriminate.
Qed.

Lemma ok_insert_at : forall pos len l lo size x b,
  ok pos len lo size l -> ~ In x l -> lo <= b -> b + len x <= size -> 1 <= len x ->
  disjoint_from pos len l b (b + len x) ->
  ok (upd pos x b) len lo size (insert_at pos l x b).
Proof.
  induction l as [|t r IH]; intros lo size x b H Hn Hlo Hsz Hl Hd; cbn [insert_at].
  - cbn [ok]. rewrite upd_same. repeat split; lia.
  - cbn [ok] in H. destruct H as (H1 & H2 & H3 & H4).
    assert (Hxt : t <> x) by (intros ->; apply Hn; left; reflexivity).
    assert (Hnr : ~ In x r) by (intros Hin; apply Hn; right; exact Hin).
    destruct (Hd t (or_introl eq_refl)) as [Hdt|Hdt]; destruct (Z.ltb_spec b (pos t)); try lia.
    + cbn [ok]. rewrite upd_same, (upd_other pos x b t Hxt). repeat split; try lia.
      apply ok_upd_notin; assumption.
    + cbn [ok]. rewrite (upd_other pos x b t Hxt). repeat split; try lia.
      apply IH; try assumption; try lia. intros y Hy. apply Hd. right; exact Hy.
Qed.

Lemma insert_at_In : forall pos l x b y, In y (insert_at pos l x b) <-> y = x \/ In y l.
Proof.
  induction l as [|t r IH]; intros x b y; cbn [insert_at].
  - cbn. intuition.
  - destruct (b <? pos t); cbn [In]; [intuition|]. rewrite IH. intuition.
Qed.

(* ---------------------------------------------------------------------------------------- *)
(* compact                                                                                   *)
(* ---------------------------------------------------------------------------------------- *)

Fixpoint gapfree (pos len : handle -> Z) (at_ : Z) (l : list handle) : Prop :=
  match l with [] => True | t :: r => pos t = at_ /\ gapfree pos len (at_ + len t) r end.

Lemma compact_from_frame : forall len l pos last y, ~ In y l -> compact_from len pos l last y = pos y.
Proof.
  induction l as [|t r IH]; intros pos last y Hn; cbn [compact_from]; [reflexivity|].
  assert (Hy : y <> t) by (intros ->; apply Hn; left; reflexivity).
  assert (Hr : ~ In y r) by (intros Hin; apply Hn; right; exact Hin).
  destruct (pos t =? last); [apply IH; exact Hr|].
  destruct (last <? pos t); rewrite IH by exact Hr; [apply upd_other; exact Hy|reflexivity].
Qed.

Lemma compact_from_spec : forall len l pos lo size last,
  ok pos len lo size l -> last <= lo ->
  gapfree (compact_from len pos l last) len last l
  /\ (forall t, In t l -> compact_from len pos l last t <= pos t).
Proof.
  induction l as [|t r IH]; intros pos lo size last H Hle; cbn [compact_from gapfree]; [split; [exact I|intros ? []]|].
  cbn [ok] in H. destruct H as (H1 & H2 & H3 & H4).
  assert (Hnt : ~ In t r) by (eapply ok_not_In_lt; [exact H4|lia]).
  destruct (Z.eqb_spec (pos t) last) as [E|NE].
  - destruct (IH pos _ _ (last + len t) H4 ltac:(lia)) as [G L]. split.
    + split; [rewrite compact_from_frame by exact Hnt; exact E|exact G].
    + intros y [<-|Hy]; [rewrite compact_from_frame by exact Hnt; lia|apply L; exact Hy].
  - destruct (Z.ltb_spec last (pos t)); [|lia].
    assert (H4' : ok (upd pos t last) len (pos t + len t) size r) by (apply ok_upd_notin; assumption).
    destruct (IH (upd pos t last) _ _ (last + len t) H4' ltac:(lia)) as [G L]. split.
    + split; [rewrite compact_from_frame by exact Hnt; apply upd_same|exact G].
    + intros y [<-|Hy].
      * rewrite compact_from_frame by exact Hnt. rewrite upd_same. lia.
      * specialize (L y Hy). rewrite upd_other in L; [exact L|intros ->; contradiction].
Qed.

Lemma gapfree_ok : forall pos len l at_ size,
  gapfree pos len at_ l -> (forall t, In t l -> 1 <= len t /\ pos t + len t <= size) -> ok pos len at_ size l.
Proof.
  induction l as [|t r IH]; intros at_ size G B; cbn [ok]; [exact I|].
  cbn [gapfree] in G. destruct G as [E G]. destruct (B t (or_introl eq_refl)). repeat split; try lia.
  rewrite E. apply IH; [exact G|]. intros y Hy. apply B. right; exact Hy.
Qed.

Lemma ok_compact : forall pos len l size,
  ok pos len 0 size l ->
  ok (do_compact len pos l) len 0 size l /\ gapfree (do_compact len pos l) len 0 l
  /\ (forall y, ~ In y l -> do_compact len pos l y = pos y).
Proof.
  intros * H. unfold do_compact. destruct (compact_from_spec len l pos 0 size 0 H ltac:(lia)) as [G L].
  split; [|split; [exact G|intros; apply compact_from_frame; assumption]].
  apply gapfree_ok; [exact G|]. intros t Ht. pose proof (ok_In _ _ _ _ _ _ H Ht). specialize (L t Ht). lia.
Qed.

(* ---------------------------------------------------------------------------------------- *)
(* shrink                                                                                    *)
(* ---------------------------------------------------------------------------------------- *)

Lemma shrink_loop_frame : forall l pos x a found y, ~ In y l -> shrink_loop pos l x a found y = pos y.
Proof.
  induction l as [|t r IH]; intros pos x a found y Hn; cbn [shrink_loop]; [reflexivity|].
  assert (Hy : y <> t) by (intros ->; apply Hn; left; reflexivity).
  assert (Hr : ~ In y r) by (intros Hin; apply Hn; right; exact Hin).
  destruct found; rewrite IH by exact Hr; [apply upd_other; exact Hy|reflexivity].
Qed.

(* everything moves left by a once found *)
Lemma shrink_loop_all : forall l pos x a y, NoDup l -> In y l -> shrink_loop pos l x a true y = pos y - a.
Proof.
  induction l as [|t r IH]; intros pos x a y Hnd Hin; [contradiction|]. cbn [shrink_loop].
  inversion Hnd as [|? ? Hnt Hnd']; subst. destruct Hin as [<-|Hin].
  - rewrite shrink_loop_frame by exact Hnt. apply upd_same.
  - rewrite IH by assumption. rewrite upd_other; [reflexivity|intros ->; contradiction].
Qed.

Lemma ok_shift_all : forall pos pos' len l lo size a,
  0 <= a -> (forall t, In t l -> pos' t = pos t - a) -> ok pos len lo size l -> ok pos' len (lo - a) size l.
Proof.
  induction l as [|t r IH]; intros lo size a Ha He H; cbn [ok]; [exact I|].
  cbn [ok] in H. destruct H as (H1 & H2 & H3 & H4). rewrite (He t (or_introl eq_refl)).
  repeat split; try lia. replace (pos t - a + len t) with (pos t + len t - a) by lia.
  apply IH; try assumption. intros y Hy. apply He. right; exact Hy.
Qed.

(* shrinking x by a (0 <= a < len x) and pulling its followers keeps the layout well-formed
   with respect to the new size of x *)
Lemma ok_shrink : forall pos len l lo size x a,
  ok pos len lo size l -> In x l -> 0 <= a -> a < len x ->
  ok (shrink_loop pos l x a false) (upd len x (len x - a)) lo size l.
Proof.
  induction l as [|t r IH]; intros lo size x a H Hin Ha Hlt; [contradiction|].
  pose proof (ok_NoDup _ _ _ _ _ H) as Hnd. inversion Hnd as [|? ? Hnt Hnd']; subst.
  cbn [ok] in H. destruct H as (H1 & H2 & H3 & H4). cbn [shrink_loop ok].
  destruct (Nat.eqb_spec x t) as [->|NE].
  - rewrite shrink_loop_frame by exact Hnt. rewrite upd_same. repeat split; try lia.
    replace (pos t + (len t - a)) with (pos t + len t - a) by lia.
    eapply ok_ext; [|eapply (ok_shift_all pos (shrink_loop pos r t a true) len r _ size a Ha); [|exact H4]].
    + intros y Hy. split; [reflexivity|]. apply upd_other. intros ->; contradiction.
    + intros y Hy. apply shrink_loop_all; assumption.
  - destruct Hin as [->|Hin]; [congruence|].
    rewrite shrink_loop_frame by exact Hnt. rewrite (upd_other len x _ t) by congruence.
    repeat split; try lia. apply IH; assumption.
Qed.

(* followers of x: the elements behind its first occurrence *)
Lemma shrink_loop_false_frame : forall l pos x a y,
  (forall fs, followers l x = Some fs -> ~ In y fs) -> shrink_loop pos l x a false y = pos y.
Proof.
  induction l as [|t r IH]; intros pos x a y Hf; cbn [shrink_loop]; [reflexivity|].
  cbn [followers] in Hf. destruct (Nat.eqb_spec x t) as [->|NE].
  - apply shrink_loop_frame. apply Hf. reflexivity.
  - apply IH. exact Hf.
Qed.

Lemma followers_In : forall l x fs, followers l x = Some fs -> In x l /\ (forall y, In y fs -> In y l).
Proof.
  induction l as [|t r IH]; intros x fs H; cbn [followers] in H; [discriminate|].
  destruct (Nat.eqb_spec x t) as [->|NE].
  - inversion H; subst. split; [left; reflexivity|intros; right; assumption].
  - destruct (IH _ _ H) as [A B]. split; [right; exact A|intros; right; apply B; assumption].
Qed.

Lemma followers_None : forall l x, followers l x = None <-> ~ In x l.
Proof.
  induction l as [|t r IH]; intros x; cbn [followers In]; [tauto|].
  destruct (Nat.eqb_spec x t) as [->|NE]; [split; [discriminate|intros H; exfalso; apply H; left; reflexivity]|].
  rewrite IH. intuition congruence.
Qed.

(* ---------------------------------------------------------------------------------------- *)
(* grow                                                                                      *)
(* ---------------------------------------------------------------------------------------- *)

(* free space behind `prev` in the follower list fs: the gaps plus the trailing space *)
Fixpoint free_from (pos len : handle -> Z) (prev size : Z) (fs : list handle) : Z :=
  match fs with
  | [] => size - prev
  | t :: r => (pos t - prev) + free_from pos len (pos t + len t) size r
  end.

Lemma avail_loop_found : forall len pos l x avail prev size,
  let '(a, p) := avail_loop len pos l x true avail prev in
  a + (size - p) = avail + free_from pos len prev size l.
Proof.
  induction l as [|t r IH]; intros x avail prev size; cbn [avail_loop free_from]; [lia|].
  specialize (IH x (avail + (pos t - prev)) (pos t + len t) size).
  destruct (avail_loop len pos r x true (avail + (pos t - prev)) (pos t + len t)). lia.
Qed.

Lemma available_spec : forall len pos size l x fs,
  followers l x = Some fs -> available len pos size l x = free_from pos len (pos x + len x) size fs.
Proof.
  intros len pos size l x. unfold available. generalize 0 at 2 as prev.
  induction l as [|t r IH]; intros prev fs H; cbn [followers] in H; [discriminate|]. cbn [avail_loop].
  destruct (Nat.eqb_spec x t) as [->|NE].
  - inversion H; subst. rewrite Nat.eqb_refl.
    pose proof (avail_loop_found len pos fs t 0 (pos t + len t) size) as E.
    destruct (avail_loop len pos fs t true 0 (pos t + len t)). lia.
  - destruct (Nat.eqb_spec t x); [congruence|]. apply IH. exact H.
Qed.

Lemma available_notin : forall len pos size l x,
  ~ In x l -> available len pos size l x = size - lend pos len 0 l.
Proof.
  intros len pos size l x. unfold available. generalize 0 at 2 3 as prev.
  induction l as [|t r IH]; intros prev Hn; cbn [avail_loop lend]; [lia|].
  destruct (Nat.eqb_spec t x) as [->|NE]; [exfalso; apply Hn; left; reflexivity|].
  apply IH. intros Hin; apply Hn; right; exact Hin.
Qed.

Lemma push_loop_frame : forall len pos0 fs pos prev acc y, ~ In y fs -> push_loop len pos0 pos fs prev acc y = pos y.
Proof.
  induction fs as [|t r IH]; intros pos prev acc y Hn; cbn [push_loop]; [reflexivity|].
  destruct (acc <=? pos0 t - prev); [reflexivity|].
  rewrite IH by (intros Hin; apply Hn; right; exact Hin).
  apply upd_other. intros ->. apply Hn. left; reflexivity.
Qed.

(* pushing the followers makes room of exactly acc bits behind prev *)
Lemma ok_push : forall len pos0 fs pos prev size acc,
  (forall t, In t fs -> pos t = pos0 t) ->
  ok pos0 len prev size fs -> 0 <= acc -> acc <= free_from pos0 len prev size fs ->
  ok (push_loop len pos0 pos fs prev acc) len (prev + acc) size fs /\ prev + acc <= size.
Proof.
  induction fs as [|t r IH]; intros pos prev size acc Hagree H Hacc Hfree; cbn [push_loop free_from ok] in *.
  - split; [exact I|lia].
  - destruct H as (H1 & H2 & H3 & H4).
    assert (Hnt : ~ In t r) by (eapply ok_not_In_lt; [exact H4|lia]).
    destruct (Z.leb_spec acc (pos0 t - prev)).
    + split; [|lia]. rewrite (Hagree t (or_introl eq_refl)). repeat split; try lia.
      eapply ok_ext; [|exact H4]. intros y Hy. split; [apply Hagree; right; exact Hy|reflexivity].
    + set (acc' := acc - (pos0 t - prev)).
      assert (Hagree' : forall y, In y r -> upd pos t (pos t + acc') y = pos0 y).
      { intros y Hy. rewrite upd_other by (intros ->; contradiction). apply Hagree. right; exact Hy. }
      destruct (IH (upd pos t (pos t + acc')) (pos0 t + len t) size acc' Hagree' H4 ltac:(lia) ltac:(lia)) as [Hok Hle].
      rewrite push_loop_frame by exact Hnt. rewrite upd_same.
      pose proof (Hagree t (or_introl eq_refl)) as Ht. rewrite Ht in *.
      assert (E : pos0 t + acc' = prev + acc) by (unfold acc'; lia).
      split; [|lia]. repeat split; try lia.
      replace (pos0 t + acc' + len t) with (pos0 t + len t + acc') by lia. exact Hok.
Qed.

Lemma ok_split_at : forall pos len l lo size x fs,
  ok pos len lo size l -> followers l x = Some fs ->
  ok pos len (pos x + len x) size fs /\ ~ In x fs.
Proof.
  induction l as [|t r IH]; intros lo size x fs H Hf; cbn [followers] in Hf; [discriminate|].
  cbn [ok] in H. destruct H as (H1 & H2 & H3 & H4). destruct (Nat.eqb_spec x t) as [->|NE].
  - inversion Hf; subst. split; [exact H4|]. eapply ok_not_In_lt; [exact H4|lia].
  - eapply IH; eauto.
Qed.

(* growing x by a > 0 (after the verification) keeps the layout well-formed with respect to the
   new size of x *)
Lemma ok_grow_gen : forall pos len l lo size x fs pos',
  ok pos len lo size l -> followers l x = Some fs ->
  (forall y, ~ In y fs -> pos' y = pos y) ->
  forall a, 0 <= a -> ok pos' len (pos x + len x + a) size fs -> pos x + len x + a <= size ->
  ok pos' (upd len x (len x + a)) lo size l.
Proof.
  induction l as [|t r IH]; intros lo size x fs pos' H Hf Hfr a Ha Hfs Hend; cbn [followers] in Hf; [discriminate|].
  pose proof (ok_NoDup _ _ _ _ _ H) as Hnd. inversion Hnd as [|? ? Hnt Hnd']; subst.
  cbn [ok] in H. destruct H as (H1 & H2 & H3 & H4). cbn [ok].
  destruct (Nat.eqb_spec x t) as [->|NE].
  - inversion Hf; subst. rewrite (Hfr t Hnt), upd_same. repeat split; try lia.
    replace (pos t + (len t + a)) with (pos t + len t + a) by lia.
    eapply ok_ext; [|exact Hfs]. intros y Hy. split; [reflexivity|]. apply upd_other. intros ->; contradiction.
  - assert (Htfs : ~ In t fs).
    { intros Hin. destruct (followers_In _ _ _ Hf) as [_ B]. apply Hnt. apply B. exact Hin. }
    rewrite (Hfr t Htfs), (upd_other len x _ t) by congruence. repeat split; try lia.
    eapply IH; eauto.
Qed.

Lemma ok_grow : forall pos len l lo size x a,
  ok pos len lo size l -> In x l -> 0 < a -> verify_grow len pos size l x a = None ->
  ok (snd (do_grow len pos size l x a)) (upd len x (len x + a)) lo size l.
Proof.
  intros * H Hin Ha Hv. unfold do_grow. destruct (Z.eqb_spec a 0); [lia|]. rewrite Hv.
  destruct (followers l x) as [fs|] eqn:Hf; [|apply followers_None in Hf; contradiction]. cbn [snd].
  destruct (ok_split_at _ _ _ _ _ _ _ H Hf) as [Hfs Hxfs].
  unfold verify_grow in Hv. destruct (a <? 0); [discriminate|].
  rewrite (available_spec _ _ _ _ _ _ Hf) in Hv.
  destruct (Z.ltb_spec (free_from pos len (pos x + len x) size fs) a); [discriminate|].
  destruct (ok_push len pos fs pos (pos x + len x) size a (fun _ _ => eq_refl) Hfs ltac:(lia) ltac:(lia)) as [Hok Hle].
  eapply ok_grow_gen; eauto; try lia. intros y Hy. apply push_loop_frame. exact Hy.
Qed.

Lemma do_grow_frame : forall pos len l size x a y,
  (forall fs, followers l x = Some fs -> ~ In y fs) -> snd (do_grow len pos size l x a) y = pos y.
Proof.
  intros * Hf. unfold do_grow. destruct (a =? 0); [reflexivity|].
  destruct (verify_grow len pos size l x a); [reflexivity|].
  destruct (followers l x) as [fs|] eqn:E; [|reflexivity]. cbn [snd].
  apply push_loop_frame. apply Hf. reflexivity.
Qed.

Lemma do_grow_err : forall pos len l size x a c, fst (do_grow len pos size l x a) = Some c -> snd (do_grow len pos size l x a) = pos.
Proof.
  intros *. unfold do_grow. destruct (a =? 0); [discriminate|].
  destruct (verify_grow len pos size l x a); [reflexivity|].
  destruct (followers l x); discriminate.
Qed.

Lemma do_grow_ok_iff : forall pos len l size x a, a <> 0 ->
  (fst (do_grow len pos size l x a) = None <-> verify_grow len pos size l x a = None).
Proof.
  intros * Ha. unfold do_grow. destruct (Z.eqb_spec a 0); [contradiction|].
  destruct (verify_grow len pos size l x a); [split; discriminate|].
  destruct (followers l x); split; reflexivity.
Qed.

(* ---------------------------------------------------------------------------------------- *)
(* resize                                                                                    *)
(* ---------------------------------------------------------------------------------------- *)

Lemma verify_resize_spec : forall len pos size l n,
  ok pos len 0 size l -> (verify_resize len pos size l n = None <-> l = [] \/ last_end len pos l <= n).
Proof.
  intros * H. unfold verify_resize.
  destruct l as [|a r]; [destruct (size <? n); split; auto|].
  destruct (ok_lend _ _ _ _ _ H) as [_ B]. specialize (B ltac:(discriminate)). rewrite <- last_end_lend in B.
  destruct (Z.ltb_spec size n).
  - split; [intros _; right; lia|reflexivity].
  - destruct (Z.ltb_spec n (last_end len pos (a :: r))).
    + split; [discriminate|]. intros [?|?]; [discriminate|lia].
    + split; [intros _; right; lia|reflexivity].
Qed.

Lemma ok_lend_bound : forall pos len l lo size n, ok pos len lo size l -> lend pos len lo l <= n -> ok pos len lo n l.
Proof.
  induction l as [|t r IH]; intros lo size n H Hv; cbn [ok lend] in *; [exact I|].
  destruct H as (H1 & H2 & H3 & H4). pose proof (ok_lend _ _ _ _ _ H4) as [A _].
  repeat split; try lia. eapply IH; eauto.
Qed.

Lemma ok_resize : forall pos len l size n,
  ok pos len 0 size l -> verify_resize len pos size l n = None -> ok pos len 0 n l.
Proof.
  intros * H Hv. apply (verify_resize_spec _ _ _ _ n H) in Hv.
  destruct Hv as [->|Hv]; [exact I|]. rewrite last_end_lend in Hv. eapply ok_lend_bound; eauto.
Qed.

(* ---------------------------------------------------------------------------------------- *)
(* shift                                                                                     *)
(* ---------------------------------------------------------------------------------------- *)

(* end of the element before (the first occurrence of) x, pe if x is the first *)
Fixpoint prev_end_from (pos len : handle -> Z) (pe : Z) (l : list handle) (x : handle) : Z :=
  match l with
  | [] => pe
  | t :: r => if Nat.eqb x t then pe else prev_end_from pos len (pos t + len t) r x
  end.
(* start of the element after x, the layout size if x is the last *)
Fixpoint next_start (pos : handle -> Z) (size : Z) (l : list handle) (x : handle) : Z :=
  match l with
  | [] => size
  | t :: r => if Nat.eqb x t then match r with n :: _ => pos n | [] => size end else next_start pos size r x
  end.

Lemma shl_loop_spec : forall len l pos x a prev, In x l ->
  let pe := match prev with Some p => pos p + len p | None => 0 end in
  let tgt := Z.max (Z.max (pos x - a) 0) (prev_end_from pos len pe l x) in
  shl_loop len pos l x a prev = (upd pos x tgt, pos x - tgt).
Proof.
  induction l as [|t r IH]; intros pos x a prev Hin; [contradiction|]. cbn [shl_loop prev_end_from].
  destruct (Nat.eqb_spec x t) as [->|NE].
  - cbn zeta. assert (E1 : (if pos t - a <? 0 then 0 else pos t - a) = Z.max (pos t - a) 0).
    { destruct (Z.ltb_spec (pos t - a) 0); lia. }
    rewrite E1. destruct prev as [p|].
    + assert (E2 : (if Z.max (pos t - a) 0 <? pos p + len p then pos p + len p else Z.max (pos t - a) 0)
                   = Z.max (Z.max (pos t - a) 0) (pos p + len p)).
      { destruct (Z.ltb_spec (Z.max (pos t - a) 0) (pos p + len p)); lia. }
      rewrite E2. reflexivity.
    + replace (Z.max (Z.max (pos t - a) 0) 0) with (Z.max (pos t - a) 0) by lia. reflexivity.
  - destruct Hin as [->|Hin]; [congruence|]. rewrite (IH pos x a (Some t) Hin). reflexivity.
Qed.

Lemma shl_loop_notin : forall len l pos x a prev, ~ In x l -> shl_loop len pos l x a prev = (pos, 0).
Proof.
  induction l as [|t r IH]; intros pos x a prev Hn; cbn [shl_loop]; [reflexivity|].
  destruct (Nat.eqb_spec x t) as [->|NE]; [exfalso; apply Hn; left; reflexivity|].
  apply IH. intros Hin; apply Hn; right; exact Hin.
Qed.

Lemma shr_loop_notin : forall len l pos size x a, ~ In x l -> shr_loop len pos size l x a = (pos, 0).
Proof.
  induction l as [|t r IH]; intros pos size x a Hn; cbn [shr_loop]; [reflexivity|].
  destruct (Nat.eqb_spec x t) as [->|NE]; [exfalso; apply Hn; left; reflexivity|].
  apply IH. intros Hin; apply Hn; right; exact Hin.
Qed.

Lemma shr_loop_spec : forall len l pos lo size x a, ok pos len lo size l -> In x l ->
  let tgt := Z.min (pos x + a) (next_start pos size l x - len x) in
  shr_loop len pos size l x a = (upd pos x tgt, tgt - pos x).
Proof.
  induction l as [|t r IH]; intros pos lo size x a H Hin; [contradiction|]. cbn [shr_loop next_start].
  cbn [ok] in H. destruct H as (H1 & H2 & H3 & H4).
  destruct (Nat.eqb_spec x t) as [->|NE].
  - cbn zeta. destruct r as [|n r'].
    + destruct (Z.ltb_spec (size - (pos t + len t)) a).
      * replace (Z.min (pos t + a) (size - len t)) with (pos t + (size - (pos t + len t))) by lia.
        f_equal. lia.
      * replace (Z.min (pos t + a) (size - len t)) with (pos t + a) by lia. f_equal. lia.
    + destruct (Z.ltb_spec (pos n - (pos t + len t)) a).
      * replace (Z.min (pos t + a) (pos n - len t)) with (pos t + (pos n - (pos t + len t))) by lia.
        f_equal. lia.
      * replace (Z.min (pos t + a) (pos n - len t)) with (pos t + a) by lia. f_equal. lia.
  - destruct Hin as [->|Hin]; [congruence|]. apply (IH pos _ size x a H4 Hin).
Qed.

(* moving x inside the free space around it keeps the layout well-formed *)
Lemma ok_move : forall pos len l lo size x v,
  ok pos len lo size l -> In x l ->
  prev_end_from pos len lo l x <= v -> v + len x <= next_start pos size l x ->
  ok (upd pos x v) len lo size l.
Proof.
  induction l as [|t r IH]; intros lo size x v H Hin Hlo Hhi; [contradiction|].
  pose proof (ok_NoDup _ _ _ _ _ H) as Hnd. inversion Hnd as [|? ? Hnt Hnd']; subst.
  cbn [ok] in H. destruct H as (H1 & H2 & H3 & H4). cbn [prev_end_from next_start] in *. cbn [ok].
  destruct (Nat.eqb_spec x t) as [->|NE].
  - rewrite upd_same. destruct r as [|n r'].
    + repeat split; try lia.
    + cbn [ok] in H4. destruct H4 as (G1 & G2 & G3 & G4).
      split; [lia|split; [lia|split; [lia|]]].
      apply ok_upd_notin; [exact Hnt|]. cbn [ok]. split; [lia|split; [lia|split; [lia|exact G4]]].
  - destruct Hin as [->|Hin]; [congruence|].
    rewrite (upd_other pos x v t) by congruence. repeat split; try lia. apply IH; assumption.
Qed.

Lemma prev_end_bounds : forall pos len l lo size x, ok pos len lo size l -> In x l ->
  lo <= prev_end_from pos len lo l x <= pos x.
Proof.
  induction l as [|t r IH]; intros lo size x H Hin; [contradiction|].
  cbn [ok] in H. destruct H as (H1 & H2 & H3 & H4). cbn [prev_end_from].
  destruct (Nat.eqb_spec x t) as [->|NE]; [lia|].
  destruct Hin as [->|Hin]; [congruence|]. specialize (IH _ _ _ H4 Hin). lia.
Qed.

Lemma next_start_bounds : forall pos len l lo size x, ok pos len lo size l -> In x l ->
  pos x + len x <= next_start pos size l x <= size.
Proof.
  induction l as [|t r IH]; intros lo size x H Hin; [contradiction|].
  cbn [ok] in H. destruct H as (H1 & H2 & H3 & H4). cbn [next_start].
  destruct (Nat.eqb_spec x t) as [->|NE].
  - destruct r as [|n r']; [lia|]. cbn [ok] in H4. lia.
  - destruct Hin as [->|Hin]; [congruence|]. apply (IH _ _ _ H4 Hin).
Qed.

Lemma ok_shift_left : forall pos len l size x a,
  ok pos len 0 size l -> ok (fst (do_shift_left len pos l x a)) len 0 size l.
Proof.
  intros * H. unfold do_shift_left. destruct (a <=? 0) eqn:Ea; [exact H|].
  destruct (in_dec Nat.eq_dec x l) as [Hin|Hn]; [|rewrite shl_loop_notin by exact Hn; exact H].
  rewrite (shl_loop_spec len l pos x a None Hin). cbn [fst].
  pose proof (prev_end_bounds _ _ _ _ _ _ H Hin). pose proof (next_start_bounds _ _ _ _ _ _ H Hin).
  apply Z.leb_gt in Ea. apply ok_move; try assumption; lia.
Qed.

Lemma ok_shift_right : forall pos len l size x a,
  ok pos len 0 size l -> ok (fst (do_shift_right len pos size l x a)) len 0 size l.
Proof.
  intros * H. unfold do_shift_right. destruct (a <=? 0) eqn:Ea; [exact H|].
  destruct (in_dec Nat.eq_dec x l) as [Hin|Hn]; [|rewrite shr_loop_notin by exact Hn; exact H].
  rewrite (shr_loop_spec len l pos 0 size x a H Hin). cbn [fst].
  pose proof (prev_end_bounds _ _ _ _ _ _ H Hin). pose proof (next_start_bounds _ _ _ _ _ _ H Hin).
  apply Z.leb_gt in Ea. apply ok_move; try assumption; lia.
Qed.

(* ---------------------------------------------------------------------------------------- *)
(* the signals a size change of x by a actually moves in a layout l                          *)
(* ---------------------------------------------------------------------------------------- *)

(* growth: the followers the push reaches (those whose accumulated gap to x is smaller than the
   amount) *)
Fixpoint reached (len pos : handle -> Z) (fs : list handle) (prev acc : Z) : list handle :=
  match fs with
  | [] => []
  | t :: r => let space := pos t - prev in
              if acc <=? space then [] else t :: reached len pos r (pos t + len t) (acc - space)
  end.

(* shrinking pulls every follower; growth pushes the reached ones; no change moves nothing *)
Definition moved_in (len pos : handle -> Z) (l : list handle) (x : handle) (a : Z) : list handle :=
  if a =? 0 then []
  else match followers l x with
       | None => []
       | Some fs => if 0 <? a then reached len pos fs (pos x + len x) a else fs
       end.

Lemma reached_incl : forall len pos fs prev acc y, In y (reached len pos fs prev acc) -> In y fs.
Proof.
  induction fs as [|t r IH]; intros prev acc y H; cbn [reached] in H; [contradiction|].
  destruct (acc <=? pos t - prev); [contradiction|]. destruct H as [->|H]; [left; reflexivity|right; eapply IH; exact H].
Qed.

Lemma reached_ext : forall len len' pos pos' fs prev acc,
  (forall t, In t fs -> pos' t = pos t /\ len' t = len t) ->
  reached len' pos' fs prev acc = reached len pos fs prev acc.
Proof.
  induction fs as [|t r IH]; intros prev acc H; cbn [reached]; [reflexivity|].
  destruct (H t (or_introl eq_refl)) as [-> ->]. destruct (acc <=? pos t - prev); [reflexivity|].
  f_equal. apply IH. intros t' Ht'. apply H. right; exact Ht'.
Qed.

Lemma push_loop_frame_reached : forall len pos0 fs pos prev acc y,
  ~ In y (reached len pos0 fs prev acc) -> push_loop len pos0 pos fs prev acc y = pos y.
Proof.
  induction fs as [|t r IH]; intros pos prev acc y Hn; cbn [push_loop reached] in *; [reflexivity|].
  destruct (acc <=? pos0 t - prev); [reflexivity|].
  rewrite IH by (intros Hin; apply Hn; right; exact Hin).
  apply upd_other. intros ->. apply Hn. left; reflexivity.
Qed.

Lemma moved_in_In : forall len pos l x a y, In y (moved_in len pos l x a) -> In x l /\ In y l.
Proof.
  intros * H. unfold moved_in in H. destruct (a =? 0); [contradiction|].
  destruct (followers l x) as [fs|] eqn:Hf; [|contradiction]. destruct (followers_In _ _ _ Hf) as [A B].
  split; [exact A|]. apply B. destruct (0 <? a); [eapply reached_incl; exact H|exact H].
Qed.

Lemma moved_in_ext : forall len len' pos pos' l x a,
  (forall t, In t l -> pos' t = pos t /\ len' t = len t) ->
  moved_in len' pos' l x a = moved_in len pos l x a.
Proof.
  intros * H. unfold moved_in. destruct (a =? 0); [reflexivity|].
  destruct (followers l x) as [fs|] eqn:Hf; [|reflexivity]. destruct (followers_In _ _ _ Hf) as [A B].
  destruct (0 <? a); [|reflexivity]. destruct (H x A) as [-> ->]. apply reached_ext. intros t Ht. apply H. apply B. exact Ht.
Qed.

Lemma do_grow_frame_moved : forall pos len l size x a y, 0 < a ->
  ~ In y (moved_in len pos l x a) -> snd (do_grow len pos size l x a) y = pos y.
Proof.
  intros * Ha Hn. unfold do_grow, moved_in in *. destruct (Z.eqb_spec a 0); [reflexivity|].
  destruct (verify_grow len pos size l x a); [reflexivity|].
  destruct (followers l x) as [fs|]; [|reflexivity]. cbn [snd].
  destruct (Z.ltb_spec 0 a); [|lia]. apply push_loop_frame_reached. exact Hn.
Qed.

Lemma shrink_frame_moved : forall pos len l x a y, a < 0 ->
  ~ In y (moved_in len pos l x a) -> shrink_loop pos l x (- a) false y = pos y.
Proof.
  intros * Ha Hn. apply shrink_loop_false_frame. intros fs Hf. unfold moved_in in Hn.
  destruct (Z.eqb_spec a 0); [lia|]. rewrite Hf in Hn. destruct (Z.ltb_spec 0 a); [lia|exact Hn].
Qed.

(* ---------------------------------------------------------------------------------------- *)
(* the space check of a growth reads the positions and sizes of the layout only              *)
(* ---------------------------------------------------------------------------------------- *)

Lemma avail_loop_ext : forall len len' pos pos' l x found avail prev,
  (forall t, In t l -> pos' t = pos t /\ len' t = len t) ->
  avail_loop len' pos' l x found avail prev = avail_loop len pos l x found avail prev.
Proof.
  induction l as [|t r IH]; intros x found avail prev H; cbn [avail_loop]; [reflexivity|].
  destruct (H t (or_introl eq_refl)) as [-> ->].
  destruct found; apply IH; intros t' Ht'; apply H; right; exact Ht'.
Qed.

Lemma verify_grow_ext : forall len len' pos pos' size l x a,
  (forall t, In t l -> pos' t = pos t /\ len' t = len t) ->
  verify_grow len' pos' size l x a = verify_grow len pos size l x a.
Proof.
  intros * H. unfold verify_grow, available. rewrite (avail_loop_ext len len' pos pos' l x false 0 0 H). reflexivity.
Qed.

(* a growth by a > 0 passes the check exactly when a <= the gaps behind x plus the trailing space *)
Lemma verify_grow_fits : forall len pos size l x a fs, 0 <= a -> followers l x = Some fs ->
  (verify_grow len pos size l x a = None <-> a <= free_from pos len (pos x + len x) size fs).
Proof.
  intros * Ha Hf. unfold verify_grow. destruct (Z.ltb_spec a 0); [lia|].
  rewrite (available_spec _ _ _ _ _ _ Hf).
  destruct (Z.ltb_spec (free_from pos len (pos x + len x) size fs) a); split; try discriminate; try reflexivity; intros; lia.
Qed.
