(* C01/C07 — lemmas about the layout kernels (Layout.v). *)
From Coq Require Import ZArith List Bool Arith Sorted Lia.
From Coq Require Import ZifyBool ZifyNat.
From Acme.C01 Require Import Layout.
Import ListNotations.
Open Scope Z_scope.

(* ---------------------------------------------------------------------------------------- *)
(* wfb <-> wf                                                                                *)
(* ---------------------------------------------------------------------------------------- *)

Lemma wfb_from_spec : forall v lo size,
  wfb_from lo size v = true <->
  (StronglySorted (fun a b => i_end a <= i_start b) v
   /\ Forall (fun p => lo <= i_start p /\ 1 <= i_len p /\ i_end p <= size) v).
Proof.
  induction v as [|p r IH]; intros lo size; cbn [wfb_from].
  - split; [intros _; split; constructor | reflexivity].
  - rewrite !andb_true_iff, IH. unfold i_end in *. split.
    + intros [[[H1 H2] H3] [Hs Hf]]. split.
      * constructor; [exact Hs|].
        eapply Forall_impl; [|exact Hf]. cbn beta. intros a Ha. lia.
      * constructor; [lia|].
        eapply Forall_impl; [|exact Hf]. cbn beta. intros a Ha. lia.
    + intros [Hs Hf]. inversion Hs as [|? ? Hs' Hall]; subst. inversion Hf as [|? ? Hp Hf']; subst.
      repeat split; try lia; [exact Hs'|].
      rewrite Forall_forall in *. intros a Ha. specialize (Hall a Ha). specialize (Hf' a Ha). cbn beta in *. lia.
Qed.

Lemma wfb_wf : forall size v, wfb size v = true <-> wf size v.
Proof. intros. unfold wfb, wf. apply wfb_from_spec. Qed.
