(* C01 — T2 (accepted exactly when the arrangement fits), T3 (shift / compact). *)
From Coq Require Import ZArith List Bool Arith Lia.
From Acme.C01 Require Import Layout State Model ProofsLayout ProofsInv.
Import ListNotations.
Open Scope Z_scope.

(* ---------------------------------------------------------------------------------------- *)
(* T3: shift                                                                                 *)
(* ---------------------------------------------------------------------------------------- *)

(* the declarative clamp: as far left as asked, but not beyond the end of the previous signal
   (0 for the first one) *)
Definition left_target (s : state) (l : list nat) (x : nat) (a : Z) : Z :=
  Z.max (rel s x - a) (prev_end_from (rel s) (sz s) 0 l x).
(* as far right as asked, but not beyond the start of the next signal (the layout size for the last) *)
Definition right_target (s : state) (size : Z) (l : list nat) (x : nat) (a : Z) : Z :=
  Z.min (rel s x + a) (next_start (rel s) size l x - sz s x).

Definition moves (s : state) (m x : nat) (a : Z) : Prop :=
  In x (glay s m) /\ memb x (gsigs s m) = true /\ 0 < a.

Lemma moves_dec : forall s m x a, moves s m x a \/ ~ moves s m x a.
Proof.
  intros. unfold moves. destruct (in_dec Nat.eq_dec x (glay s m)); [|right; tauto].
  destruct (memb x (gsigs s m)); [|right; intros (_ & C & _); discriminate].
  destruct (Z.ltb_spec 0 a); [left; tauto|right; lia].
Qed.

Lemma shift_left_spec : forall s m x a, InvA s ->
  exists d, snd (step_shift true s m x a) = RShift d
    /\ d = rel s x - rel (fst (step_shift true s m x a)) x
    /\ (forall y, y <> x -> rel (fst (step_shift true s m x a)) y = rel s y)
    /\ (moves s m x a -> rel (fst (step_shift true s m x a)) x = left_target s (glay s m) x a /\ 0 <= d <= a)
    /\ (~ moves s m x a -> d = 0).
Proof.
  intros s m x a H. unfold step_shift.
  destruct (memb x (gsigs s m)) eqn:Em; cbn [negb].
  2:{ exists 0. cbn [fst snd]. split; [reflexivity|]. split; [lia|]. split; [reflexivity|].
      split; [intros (_ & C & _); congruence|reflexivity]. }
  unfold do_shift_left. destruct (Z.leb_spec a 0).
  { exists 0. cbn [fst snd]. split; [reflexivity|]. split; [cbn; lia|]. split; [reflexivity|].
    split; [intros (_ & _ & C); lia|reflexivity]. }
  destruct (in_dec Nat.eq_dec x (glay s m)) as [Hin|Hn].
  - rewrite (shl_loop_spec (sz s) (glay s m) (rel s) x a None Hin). cbn [fst snd].
    pose proof (a_ok s H (LM m)) as Hok. cbn [lay lsz] in Hok.
    pose proof (prev_end_bounds _ _ _ _ _ _ Hok Hin) as Hb.
    eexists. split; [reflexivity|]. cbn. rewrite upd_same. split; [reflexivity|].
    split; [intros y Hy; apply upd_other; exact Hy|]. split.
    + intros _. unfold left_target. split; lia.
    + intros C. exfalso. apply C. unfold moves. tauto.
  - rewrite shl_loop_notin by exact Hn. exists 0. cbn [fst snd]. split; [reflexivity|]. split; [cbn; lia|].
    split; [reflexivity|]. split; [intros (C & _); contradiction|reflexivity].
Qed.

Lemma shift_right_spec : forall s m x a, InvA s ->
  exists d, snd (step_shift false s m x a) = RShift d
    /\ d = rel (fst (step_shift false s m x a)) x - rel s x
    /\ (forall y, y <> x -> rel (fst (step_shift false s m x a)) y = rel s y)
    /\ (moves s m x a -> rel (fst (step_shift false s m x a)) x = right_target s (glsize s m) (glay s m) x a /\ 0 <= d <= a)
    /\ (~ moves s m x a -> d = 0).
Proof.
  intros s m x a H. unfold step_shift.
  destruct (memb x (gsigs s m)) eqn:Em; cbn [negb].
  2:{ exists 0. cbn [fst snd]. split; [reflexivity|]. split; [lia|]. split; [reflexivity|].
      split; [intros (_ & C & _); congruence|reflexivity]. }
  unfold do_shift_right. destruct (Z.leb_spec a 0).
  { exists 0. cbn [fst snd]. split; [reflexivity|]. split; [cbn; lia|]. split; [reflexivity|].
    split; [intros (_ & _ & C); lia|reflexivity]. }
  pose proof (a_ok s H (LM m)) as Hok. cbn [lay lsz] in Hok.
  destruct (in_dec Nat.eq_dec x (glay s m)) as [Hin|Hn].
  - rewrite (shr_loop_spec (sz s) (glay s m) (rel s) 0 (glsize s m) x a Hok Hin). cbn [fst snd].
    pose proof (next_start_bounds _ _ _ _ _ _ Hok Hin) as Hb.
    eexists. split; [reflexivity|]. cbn. rewrite upd_same. split; [reflexivity|].
    split; [intros y Hy; apply upd_other; exact Hy|]. split.
    + intros _. unfold right_target. split; lia.
    + intros C. exfalso. apply C. unfold moves. tauto.
  - rewrite shr_loop_notin by exact Hn. exists 0. cbn [fst snd]. split; [reflexivity|]. split; [cbn; lia|].
    split; [reflexivity|]. split; [intros (C & _); contradiction|reflexivity].
Qed.

(* the space a shifted signal crosses was free: between the previous end and the next start
   there is only the signal itself *)
Lemma shift_targets_free : forall s m x a, InvA s -> In x (glay s m) -> 0 < a ->
  prev_end_from (rel s) (sz s) 0 (glay s m) x <= left_target s (glay s m) x a <= rel s x
  /\ rel s x <= right_target s (glsize s m) (glay s m) x a
  /\ right_target s (glsize s m) (glay s m) x a + sz s x <= next_start (rel s) (glsize s m) (glay s m) x.
Proof.
  intros s m x a H Hin Ha. pose proof (a_ok s H (LM m)) as Hok. cbn [lay lsz] in Hok.
  pose proof (prev_end_bounds _ _ _ _ _ _ Hok Hin). pose proof (next_start_bounds _ _ _ _ _ _ Hok Hin).
  unfold left_target, right_target. lia.
Qed.

(* ---------------------------------------------------------------------------------------- *)
(* T3: compact                                                                               *)
(* ---------------------------------------------------------------------------------------- *)

Lemma compact_spec : forall s m, InvA s ->
  let s' := fst (step_compact s m) in
  gapfree (rel s') (sz s') 0 (glay s' m)
  /\ glay s' m = glay s m
  /\ (forall y, sz s' y = sz s y)
  /\ (forall y, ~ In y (glay s m) -> rel s' y = rel s y)
  /\ (forall y, In y (glay s m) -> rel s' y <= rel s y).
Proof.
  intros s m H. unfold step_compact. cbn [fst].
  destruct (ok_compact (rel s) (sz s) (glay s m) (glsize s m) (a_ok s H (LM m))) as (Hok & Hgf & Hfr).
  split; [exact Hgf|]. split; [reflexivity|]. split; [reflexivity|]. split; [exact Hfr|].
  intros y Hy. unfold do_compact. cbn.
  destruct (compact_from_spec (sz s) (glay s m) (rel s) 0 (glsize s m) 0 (a_ok s H (LM m)) ltac:(lia)) as [_ L].
  apply L. exact Hy.
Qed.

(* ---------------------------------------------------------------------------------------- *)
(* T2: accepted exactly when the arrangement fits                                            *)
(* ---------------------------------------------------------------------------------------- *)

Definition is_ok (r : result) : Prop := r = ROk.

(* insertion: the name is free in the message and [b, b + len) is inside the payload and
   disjoint from every placed signal *)
Definition fits_insert (s : state) (m x : nat) (b : Z) : Prop :=
  0 <= b /\ b + sz s x <= 8 * gbytes s m
  /\ forall t, In t (glay s m) -> b + sz s x <= rel s t \/ rel s t + sz s t <= b.

Lemma insert_accepted_iff : forall s m x b, InvA s ->
  (is_ok (snd (step_insert s m x b)) <-> memb x (gnames s m) = false /\ fits_insert s m x b).
Proof.
  intros s m x b H. unfold step_insert, is_ok, fits_insert.
  pose proof (a_ok s H (LM m)) as Hok. cbn [lay lsz] in Hok. pose proof (a_lsize s H m) as Els.
  pose proof (a_size s H x) as Hsz.
  destruct (memb x (gnames s m)); [split; [discriminate|intros [C _]; discriminate]|].
  pose proof (verify_insert_spec (rel s) (sz s) (glay s m) (glsize s m) x b Hok) as V.
  destruct (verify_insert (sz s) (rel s) (glsize s m) (glay s m) x b) eqn:Ev.
  - cbn [snd]. split; [discriminate|]. intros [_ (F1 & F2 & F3)].
    assert (Some c = None) as C; [|discriminate]. apply V.
    split; [lia|split; [lia|split; [lia|exact F3]]].
  - cbn [do_insert snd]. split; [intros _|reflexivity]. split; [reflexivity|].
    destruct (proj1 V eq_refl) as (V1 & V2 & V3 & V4). split; [lia|split; [lia|exact V4]].
Qed.

(* append: the name is free and the signal fits behind the last one *)
Lemma append_accepted_iff : forall s m x, InvA s ->
  (is_ok (snd (step_append s m x)) <->
   memb x (gnames s m) = false /\ sz s x <= 8 * gbytes s m - last_end (sz s) (rel s) (glay s m)).
Proof.
  intros s m x H. unfold step_append, is_ok. pose proof (a_lsize s H m) as Els.
  destruct (memb x (gnames s m)); [split; [discriminate|intros [C _]; discriminate]|].
  pose proof (verify_append_spec (sz s) (rel s) (glsize s m) (glay s m) x) as V.
  destruct (verify_append (sz s) (rel s) (glsize s m) (glay s m) x) eqn:Ev.
  - cbn [snd]. split; [discriminate|]. intros [_ F]. assert (Some c = None) as C; [|discriminate].
    apply V. lia.
  - cbn [do_append snd]. split; [intros _|reflexivity]. split; [reflexivity|]. pose proof (proj1 V eq_refl). lia.
Qed.

(* resize: not negative, representable in bits (unless unchanged), and the last signal still ends
   inside the payload *)
Lemma resize_accepted_iff : forall s m n, InvA s ->
  (is_ok (snd (step_resize s m n)) <->
   0 <= n /\ (n = gbytes s m \/ n <= 2 ^ 60 - 1) /\ (glay s m = [] \/ last_end (sz s) (rel s) (glay s m) <= 8 * n)).
Proof.
  intros s m n H. unfold step_resize, is_ok.
  pose proof (a_ok s H (LM m)) as Hok. cbn [lay lsz] in Hok. pose proof (a_lsize s H m) as Els.
  destruct (Z.ltb_spec n 0); [split; [discriminate|lia]|].
  destruct (Z.eqb_spec (gbytes s m) n) as [E|NE].
  - cbn [snd]. split; [intros _|reflexivity]. split; [lia|]. split; [left; lia|].
    destruct (glay s m) as [|a r] eqn:El; [left; reflexivity|right].
    rewrite <- El in *. rewrite last_end_lend. destruct (ok_lend _ _ _ _ _ Hok) as [_ B].
    specialize (B ltac:(rewrite El; discriminate)). lia.
  - destruct (Z.ltb_spec (2 ^ 60 - 1) n) as [Hbig|Hsmall].
    + cbn [snd]. split; [discriminate|]. intros (_ & [C|C] & _); lia.
    + pose proof (verify_resize_spec (sz s) (rel s) (glsize s m) (glay s m) (n * 8) Hok) as V.
      destruct (verify_resize (sz s) (rel s) (glsize s m) (glay s m) (n * 8)) eqn:Ev.
      * cbn [snd]. split; [discriminate|]. intros (_ & _ & F). assert (Some c = None) as C; [|discriminate].
        apply V. destruct F; [left; assumption|right; lia].
      * cbn [snd]. split; [intros _|reflexivity]. split; [lia|]. split; [right; lia|].
        destruct (proj1 V eq_refl); [left; assumption|right; lia].
Qed.

(* the same for a message sent on a bus that allows at most lim bytes: additionally n <= lim
   (unless the size is unchanged) *)
Lemma resize_bus_accepted_iff : forall s m n lim, InvA s ->
  (is_ok (snd (step_resize_bus s m n lim)) <->
   0 <= n /\ (n = gbytes s m \/ (n <= 2 ^ 60 - 1 /\ n <= lim)) /\
   (glay s m = [] \/ last_end (sz s) (rel s) (glay s m) <= 8 * n)).
Proof.
  intros s m n lim H. pose proof (resize_accepted_iff s m n H) as R. unfold step_resize_bus.
  destruct (Z.ltb_spec n 0) as [Hneg|Hnn].
  - unfold is_ok. cbn [snd]. split; [discriminate|lia].
  - destruct (Z.eqb_spec (gbytes s m) n) as [E|NE].
    + unfold step_resize in R. destruct (Z.ltb_spec n 0); [lia|]. rewrite (proj2 (Z.eqb_eq _ _) E) in R. cbn [snd] in *.
      split; [intros K|intros _; reflexivity]. destruct (proj1 R K) as (A & _ & C). split; [exact A|]. split; [left; lia|exact C].
    + destruct (Z.ltb_spec (2 ^ 60 - 1) n) as [Hbig|Hsmall].
      * unfold is_ok. cbn [snd]. split; [discriminate|]. intros (_ & [C|C] & _); lia.
      * destruct (Z.ltb_spec lim n) as [Hl|Hl].
        -- unfold is_ok. cbn [snd]. split; [discriminate|]. intros (_ & [C|C] & _); lia.
        -- split.
           ++ intros K. destruct (proj1 R K) as (A & B & C). split; [exact A|]. split; [right; lia|exact C].
           ++ intros (A & B & C). apply R. split; [exact A|]. split; [right; lia|exact C].
Qed.

(* a refused resize (by the message or by the bus) leaves the whole state as it was *)
Lemma resize_refused_same : forall s m n, ~ is_ok (snd (step_resize s m n)) -> fst (step_resize s m n) = s.
Proof.
  intros s m n. unfold step_resize, is_ok. destruct (n <? 0); [reflexivity|]. destruct (gbytes s m =? n); [reflexivity|].
  destruct (2 ^ 60 - 1 <? n); [reflexivity|]. destruct (verify_resize _ _ _ _ _); [reflexivity|]. cbn [snd]. intros K. exfalso. apply K. reflexivity.
Qed.
Lemma resize_bus_refused_same : forall s m n lim,
  ~ is_ok (snd (step_resize_bus s m n lim)) -> fst (step_resize_bus s m n lim) = s.
Proof.
  intros s m n lim. unfold step_resize_bus. destruct (n <? 0); [reflexivity|]. destruct (gbytes s m =? n); [reflexivity|].
  destruct (2 ^ 60 - 1 <? n); [reflexivity|]. destruct (lim <? n); [reflexivity|]. apply resize_refused_same.
Qed.

(* size change of a top-level signal: growing by a is accepted exactly when a <= the free space
   behind the signal (the gaps between its followers plus the trailing space); shrinking to a
   positive size is always accepted *)
Definition free_behind (s : state) (m x : nat) : Z :=
  match followers (glay s m) x with
  | Some fs => free_from (rel s) (sz s) (rel s x + sz s x) (glsize s m) fs
  | None => 0
  end.

Lemma free_from_nonneg : forall pos len fs prev size, ok pos len prev size fs -> prev <= size ->
  0 <= free_from pos len prev size fs.
Proof.
  induction fs as [|t r IH]; intros prev size Hok Hp; cbn [free_from ok] in *; [lia|].
  destruct Hok as (A & B & C & D). specialize (IH _ _ D ltac:(lia)). lia.
Qed.

Lemma set_type_accepted_iff : forall s m x old n, InvA s ->
  kind s x = KStd old -> 1 <= n -> In x (glay s m) -> link_ok s x ->
  (is_ok (snd (step_set_type s x n)) <-> n - old <= free_behind s m x).
Proof.
  intros s m x old n H Ek Hn Hin (Ltop & _). unfold step_set_type, is_ok. rewrite Ek.
  destruct (Z.leb_spec n 0); [lia|].
  destruct (Ltop m Hin) as (Epu & Epm & Emem).
  assert (Eold : sz s x = old) by (unfold sz; rewrite Ek; reflexivity).
  unfold sig_modify_size. rewrite Epu, Epm. unfold msg_modify_size. rewrite Emem. cbn [negb].
  pose proof (a_ok s H (LM m)) as Hok. cbn [lay lsz] in Hok.
  unfold free_behind. destruct (followers (glay s m) x) as [fs|] eqn:Hf; [|apply followers_None in Hf; contradiction].
  destruct (ok_split_at _ _ _ _ _ _ _ Hok Hf) as [Hfs _].
  pose proof (ok_In _ _ _ _ _ _ Hok Hin) as Hbx.
  pose proof (free_from_nonneg _ _ _ _ _ Hfs ltac:(lia)) as Hfree.
  destruct (Z.eqb_spec (n - old) 0) as [E0|NE0]; [cbn [snd]; split; [intros _; lia|reflexivity]|].
  destruct (Z.ltb_spec 0 (n - old)) as [Hpos|Hneg].
  - unfold do_grow. destruct (Z.eqb_spec (n - old) 0); [lia|].
    unfold verify_grow. destruct (Z.ltb_spec (n - old) 0); [lia|].
    rewrite (available_spec _ _ _ _ _ _ Hf). rewrite Eold in *.
    destruct (Z.ltb_spec (free_from (rel s) (sz s) (rel s x + old) (glsize s m) fs) (n - old)).
    + cbn [snd]. split; [discriminate|lia].
    + rewrite Hf. cbn [snd]. split; [intros _; lia|reflexivity].
  - unfold do_shrink. destruct (Z.eqb_spec (- (n - old)) 0); [lia|].
    rewrite verify_shrink_ok by lia. cbn [snd]. split; [intros _; lia|reflexivity].
Qed.
