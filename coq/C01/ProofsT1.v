(* C01/C07 — T1 (layout_wf_reachable), groups_wf and the refutations of the unconditioned statements *)
From Coq Require Import ZArith List Bool Arith Lia.
From Acme.C01 Require Import Layout State Model ProofsLayout ProofsInv Refuted.
From Acme.C07 Require Import Proofs.
Import ListNotations.
Open Scope Z_scope.

Lemma t1_layout_wf : forall ops, ok_hist_w ops -> forall m,
  wf (8 * gbytes (run ops) m) (msg_view (run ops) m).
Proof.
  intros ops Hw m. pose proof (inv_reachable ops (ok_hist_of_w ops Hw)) as H.
  unfold msg_view. apply ok_wf. pose proof (a_ok _ H (LM m)) as Hok. cbn [lay lsz] in Hok.
  rewrite (a_lsize _ H m) in Hok. replace (8 * gbytes (run ops) m) with (gbytes (run ops) m * 8) by lia. exact Hok.
Qed.

Lemma t1_groups_wf : forall ops, ok_hist_w ops -> forall u g,
  wf (mux_gsize (run ops) u) (group_view (run ops) u g).
Proof.
  intros ops Hw u g. pose proof (inv_reachable ops (ok_hist_of_w ops Hw)) as H.
  unfold group_view. apply ok_wf. exact (a_ok _ H (LG u g)).
Qed.

(* the statements without the hypotheses *)
Definition layout_wf_full : Prop :=
  forall ops m, wf (8 * gbytes (run ops) m) (msg_view (run ops) m).
Definition groups_wf_full : Prop :=
  forall ops u g, wf (mux_gsize (run ops) u) (group_view (run ops) u g).

Lemma msg_wfb_false : forall ops m, msg_wfb (run ops) m = false -> ~ wf (8 * gbytes (run ops) m) (msg_view (run ops) m).
Proof.
  intros ops m E Hwf. unfold msg_wfb in E. replace (8 * gbytes (run ops) m) with (gbytes (run ops) m * 8) in Hwf by lia.
  apply wfb_wf in Hwf. congruence.
Qed.
Lemma group_wfb_false : forall ops u g, group_wfb (run ops) u g = false -> ~ wf (mux_gsize (run ops) u) (group_view (run ops) u g).
Proof. intros ops u g E Hwf. unfold group_wfb in E. apply wfb_wf in Hwf. congruence. Qed.

Lemma t1_full_refuted_d03 : exists ops m, ~ wf (8 * gbytes (run ops) m) (msg_view (run ops) m).
Proof. exists d03_ops, 0%nat. apply msg_wfb_false. exact d03_breaks. Qed.
Lemma t1_full_refuted_d36 : exists ops m, ~ wf (8 * gbytes (run ops) m) (msg_view (run ops) m).
Proof. exists d36_ops, 0%nat. apply msg_wfb_false. exact d36_breaks. Qed.
Lemma t1_full_refuted_reattach : exists ops m, ~ wf (8 * gbytes (run ops) m) (msg_view (run ops) m).
Proof. exists reattach_ops, 0%nat. apply msg_wfb_false. exact reattach_breaks. Qed.
Lemma groups_full_refuted_d35 : exists ops u g, ~ wf (mux_gsize (run ops) u) (group_view (run ops) u g).
Proof. exists d35_ops, 0%nat, 0%nat. apply group_wfb_false. exact d35_breaks. Qed.
Lemma groups_full_refuted_d35_grow : exists ops u g, ~ wf (mux_gsize (run ops) u) (group_view (run ops) u g).
Proof. exists d35_grow_ops, 0%nat, 1%nat. apply group_wfb_false. exact d35_grow_breaks. Qed.

Lemma layout_wf_full_false : ~ layout_wf_full.
Proof. intros F. destruct t1_full_refuted_d03 as [ops [m Hn]]. apply Hn. apply F. Qed.
Lemma groups_wf_full_false : ~ groups_wf_full.
Proof. intros F. destruct groups_full_refuted_d35 as [ops [u [g Hn]]]. apply Hn. apply F. Qed.

(* the witnesses, with their histories in the statement *)
Lemma d03_witness : ~ wf (8 * gbytes (run d03_ops) 0%nat) (msg_view (run d03_ops) 0%nat).
Proof. apply msg_wfb_false. exact d03_breaks. Qed.
Lemma d36_witness : ~ wf (8 * gbytes (run d36_ops) 0%nat) (msg_view (run d36_ops) 0%nat).
Proof. apply msg_wfb_false. exact d36_breaks. Qed.
Lemma reattach_witness : ~ wf (8 * gbytes (run reattach_ops) 0%nat) (msg_view (run reattach_ops) 0%nat).
Proof. apply msg_wfb_false. exact reattach_breaks. Qed.
Lemma ctor_witness : ~ wf (8 * gbytes (run ctor_ops) 0%nat) (msg_view (run ctor_ops) 0%nat).
Proof. apply msg_wfb_false. exact ctor_breaks. Qed.
Lemma d35_witness : ~ wf (mux_gsize (run d35_ops) 0%nat) (group_view (run d35_ops) 0%nat 0%nat).
Proof. apply group_wfb_false. exact d35_breaks. Qed.
Lemma d35_grow_witness : ~ wf (mux_gsize (run d35_grow_ops) 0%nat) (group_view (run d35_grow_ops) 0%nat 1%nat).
Proof. apply group_wfb_false. exact d35_grow_breaks. Qed.
