(* C01/C07 — witnesses of the open findings: histories of the faithful model that leave the
   hypotheses of the theorems (ok_hist) and break the layout invariant. Each is replayed on the Go
   code by the harness corpus (props/C01/harness/main.go). Closed by vm_compute. *)
From Coq Require Import ZArith List Bool.
From Acme.C01 Require Import Layout State Model.
Import ListNotations.
Open Scope Z_scope.

Definition msg_wfb (s : state) (m : nat) : bool := wfb (gbytes s m * 8) (msg_view s m).
Definition group_wfb (s : state) (u g : nat) : bool := wfb (mux_gsize s u) (group_view s u g).

(* D03: SetMinSize grows an attached enum signal over its neighbour *)
Definition d03_ops : list op :=
  [ONewMsg 1; ONewEnum; ONewEnumSig 0; ONewStd 4; OAppend 0 0; OAppend 0 1; OSetMinSize 0 4].
Lemma d03_breaks : msg_wfb (run d03_ops) 0 = false.
Proof. vm_compute. reflexivity. Qed.

(* D36: two signals of one layout reference the enum that grows (model order: newest reference first) *)
Definition d36_ops : list op :=
  [ONewMsg 1; ONewEnum; OSetMinSize 0 2; ONewEnumSig 0; ONewEnumSig 0; ONewStd 3;
   OAppend 0 0; OAppend 0 1; OAppend 0 2; OAddValue 0 4].
Lemma d36_breaks : msg_wfb (run d36_ops) 0 = false.
Proof. vm_compute. reflexivity. Qed.

(* D35: a fixed signal shrinks under a fixed follower: the follower is pulled once per group *)
Definition d35_ops : list op :=
  [ONewMux 2 16; ONewStd 4; ONewStd 4; OMuxInsert 0 1 0 []; OMuxInsert 0 2 4 []; OSetType 1 3].
Lemma d35_breaks : group_wfb (run d35_ops) 0 0 = false.
Proof. vm_compute. reflexivity. Qed.

(* D35, growth: the follower shared by two groups is pushed in the first one only *)
Definition d35_grow_ops : list op :=
  [ONewMux 2 8; ONewStd 2; ONewStd 2; ONewStd 2; OMuxInsert 0 1 0 []; OMuxInsert 0 2 2 [];
   OMuxInsert 0 3 4 [1]; OSetType 1 3].
Lemma d35_grow_breaks : group_wfb (run d35_grow_ops) 0 1 = false.
Proof. vm_compute. reflexivity. Qed.

(* D20 (C05): a placed signal is appended to a second message *)
Definition reattach_ops : list op :=
  [ONewMsg 1; ONewMsg 2; ONewStd 4; ONewStd 8; OAppend 0 0; OAppend 1 1; OAppend 1 0].
Lemma reattach_breaks : msg_wfb (run reattach_ops) 0 = false.
Proof. vm_compute. reflexivity. Qed.

(* constructor overflow: NewMessage computes sizeByte * 8 in a 64-bit int. A message of -2^60-1 bytes gets a
   layout of 2^63-8 bits and accepts a signal at bit 100, outside its (negative) payload; a message of 2^61
   bytes gets a layout of 0 bits and refuses a 1-bit signal that fits its payload. *)
Definition ctor_ops : list op :=
  [ONewMsg (-1152921504606846977); ONewStd 1; OInsert 0 0 100].
Lemma ctor_breaks : msg_wfb (run ctor_ops) 0 = false.
Proof. vm_compute. reflexivity. Qed.
Definition ctor_refuse_ops : list op := [ONewMsg 2305843009213693952; ONewStd 1].
Lemma ctor_refuses : snd (step (run ctor_refuse_ops) (OAppend 0 0)) = RErr OutOfBounds
  /\ 0 + sz (run ctor_refuse_ops) 0 <= 8 * gbytes (run ctor_refuse_ops) 0.
Proof. vm_compute. split; [reflexivity|discriminate]. Qed.
