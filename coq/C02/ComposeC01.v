(* C02 composed with C01: the premise `wf` of the decoding / mask theorems is discharged for the
   layouts of every state reachable in C01's state machine (the 27 payload-editing operations of
   acmelib: Acme.C01.Model.step) under C01's hypotheses `ok_hist_w` (the narrowest conditions
   excluding C01's open findings D03, D20, D35, D36).  C01's files are imported read-only.
   C01's state has no byte order and no signal kind: both are parameters here (the result holds
   for every byte order and every assignment of kinds). *)
From Coq Require Import ZArith List Bool Lia Sorted.
From Acme.C01 Require Layout State Model ProofsT1.
From Acme.C07 Require Proofs.
From Acme.C02 Require Import Model Spec ProofsBits ProofsFilters Proofs.
Import ListNotations.
Local Open Scope Z_scope.

Module L := Acme.C01.Layout.
Module M1 := Acme.C01.Model.

Definition of_item (be : bool) (kind : nat -> skind) (p : L.item) : sigl :=
  mkSig (Z.of_nat (L.i_h p)) (L.i_start p) (L.i_len p) be (kind (L.i_h p)).

(* the layout of message m in C01's state s, as a C02 layout *)
Definition c02_layout (be : bool) (kind : nat -> skind) (s : Acme.C01.State.state) (m : nat) : list sigl :=
  map (of_item be kind) (M1.msg_view s m).

Lemma sorted_of_strongly be kind v :
  StronglySorted (fun a b => L.i_end a <= L.i_start b) v -> sorted (map (of_item be kind) v).
Proof.
  induction v as [|a tl IH]; intros H; [exact I|].
  inversion H as [|? ? Htl Hall]; subst. cbn [map sorted]. split; [|apply IH; exact Htl].
  destruct tl as [|b tl']; [exact I|]. cbn [map]. inversion Hall; subst. exact H2.
Qed.

Lemma view_nodup pos len l size :
  L.wf size (L.view pos len l) -> NoDup l.
Proof.
  intros [Hs Hb]. induction l as [|x tl IH]; [constructor|].
  cbn [L.view map] in Hs, Hb. inversion Hs as [|? ? Htl Hall]; subst. inversion Hb as [|? ? Hx Hbt]; subst.
  constructor; [|apply IH; assumption].
  intros Hin. rewrite Forall_forall in Hall.
  specialize (Hall (x, pos x, len x)). unfold L.i_end, L.i_start, L.i_len in *. cbn in *.
  assert (In (x, pos x, len x) (map (fun y => (y, pos y, len y)) tl)) by (apply in_map_iff; exists x; split; [reflexivity | exact Hin]).
  specialize (Hall H). lia.
Qed.

Theorem wf_of_c01 be kind pos len l size :
  L.wf size (L.view pos len l) -> Forall (fun x => len x <= 64) l ->
  wf size (map (of_item be kind) (L.view pos len l)).
Proof.
  intros Hwf H64. pose proof (view_nodup pos len l size Hwf) as Hnd. destruct Hwf as [Hs Hb].
  split; [|split].
  - apply Forall_forall. intros s Hin. apply in_map_iff in Hin. destruct Hin as [p [<- Hp]].
    rewrite Forall_forall in Hb. specialize (Hb p Hp).
    unfold L.view in Hp. apply in_map_iff in Hp. destruct Hp as [x [<- Hx]].
    rewrite Forall_forall in H64. specialize (H64 x Hx).
    unfold sig_ok, s_end, of_item, L.i_start, L.i_len, L.i_end, L.i_h in *. cbn in *. lia.
  - apply sorted_of_strongly. exact Hs.
  - unfold L.view. rewrite !map_map. cbn.
    change (NoDup (map (fun x => Z.of_nat x) l)).
    clear - Hnd. induction l as [|a tl IH]; [constructor|].
    inversion Hnd; subst. cbn [map]. constructor; [|apply IH; assumption].
    intros Hin. apply in_map_iff in Hin. destruct Hin as [b [E Hb]].
    assert (b = a) by lia. subst b. contradiction.
Qed.

(* every message layout of every reachable state (C01's hypotheses) is a well-formed C02 layout,
   as long as its signals are at most 64 bits wide (the property's quantifier) *)
Theorem layout_wf_reachable ops m be kind :
  Acme.C07.Proofs.ok_hist_w ops ->
  Forall (fun x => M1.sz (M1.run ops) x <= 64) (Acme.C01.State.glay (M1.run ops) m) ->
  wf (8 * Acme.C01.State.gbytes (M1.run ops) m) (c02_layout be kind (M1.run ops) m).
Proof.
  intros Hw H64. unfold c02_layout, M1.msg_view. apply wf_of_c01; [|exact H64].
  exact (Acme.C01.ProofsT1.t1_layout_wf ops Hw m).
Qed.

(* end to end: after every such edit history Decode yields one entry per standard / enum signal in
   layout order, every little-endian value is exactly the payload bits of its signal, and so is
   every big-endian value outside the D08 shape *)
Theorem decode_reachable ops m be kind data :
  Acme.C07.Proofs.ok_hist_w ops ->
  Forall (fun x => M1.sz (M1.run ops) x <= 64) (Acme.C01.State.glay (M1.run ops) m) ->
  bytes_ok data -> 8 * Acme.C01.State.gbytes (M1.run ops) m <= nbits data ->
  let l := c02_layout be kind (M1.run ops) m in
  decode l data = map (fun s => (s_id s, sig_raw s data)) (filter not_mux l) /\
  (forall s, In s l -> be = false -> sig_raw s data = raw_le (s_start s) (s_size s) data) /\
  (forall s, In s l -> be = true -> d08 s = false -> sig_raw s data = raw_be (s_start s) (s_size s) data) /\
  (forall s, In s l -> be = true -> one_byte s = true -> sig_raw s data = raw_le (s_start s) (s_size s) data).
Proof.
  intros Hw H64 Hd Hfit l.
  pose proof (layout_wf_reachable ops m be kind Hw H64) as Hwf. fold l in Hwf.
  assert (Hbe : forall s, In s l -> s_be s = be).
  { intros s Hs. unfold l, c02_layout in Hs. apply in_map_iff in Hs. destruct Hs as [p [<- _]]. reflexivity. }
  pose proof Hwf as [Hall _]. rewrite Forall_forall in Hall.
  split; [apply (decode_order _ l data Hwf)|]. split; [|split].
  - intros s Hs E. apply (decode_le_spec _ s data (Hall s Hs)); [rewrite (Hbe s Hs); exact E | exact Hd].
  - intros s Hs E D. apply (decode_be_spec _ s data (Hall s Hs)); try assumption. rewrite (Hbe s Hs); exact E.
  - intros s Hs E O. apply (decode_be_one_byte_spec _ s data (Hall s Hs)); try assumption. rewrite (Hbe s Hs); exact E.
Qed.

(* ... and the masks Filters() publishes for such a layout cover every signal and never share a
   payload bit between two signals (outside the D08 shape) *)
Theorem masks_reachable ops m be kind :
  Acme.C07.Proofs.ok_hist_w ops ->
  Forall (fun x => M1.sz (M1.run ops) x <= 64) (Acme.C01.State.glay (M1.run ops) m) ->
  let l := c02_layout be kind (M1.run ops) m in
  (forall s, In s l -> fold_right (fun f a => popcount8 (f_mask f) + a) 0 (sig_filters s) = s_size s) /\
  (forall a b f g, In a l -> In b l -> s_id a <> s_id b -> d08 a = false -> d08 b = false ->
     In f (sig_filters a) -> In g (sig_filters b) -> f_byte f = f_byte g -> Z.land (f_mask f) (f_mask g) = 0).
Proof.
  intros Hw H64 l. pose proof (layout_wf_reachable ops m be kind Hw H64) as Hwf. fold l in Hwf.
  assert (Hu : uniform be l).
  { unfold uniform. apply Forall_forall. intros s Hs. unfold l, c02_layout in Hs.
    apply in_map_iff in Hs. destruct Hs as [p [<- _]]. reflexivity. }
  pose proof Hwf as [Hall _]. rewrite Forall_forall in Hall. split.
  - intros s Hs. apply (masks_cover _ s (Hall s Hs)).
  - intros a b f g Ha Hb Hne Hda Hdb Hf Hg Hbyte.
    exact (masks_disjoint _ be l a b f g Hwf Hu Hda Hdb Ha Hb Hne Hf Hg Hbyte).
Qed.
