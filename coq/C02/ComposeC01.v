(* C02 composed with C01: the premise `wf` of the decoding / mask theorems is discharged for the
   layouts of every state reachable in C01's state machine (the 27 payload-editing operations of
   acmelib: Acme.C01.Model.step) under C01's hypotheses `ok_hist_w` (the narrowest conditions
   excluding C01's open findings D03, D20, D35, D36).  C01's files are imported read-only.
   C01's state has no byte order and no signal kind: both are parameters here (the result holds
   for every byte order and every assignment of kinds). *)
From Coq Require Import ZArith List Bool Lia Sorted.
From Acme.C01 Require Layout State Model ProofsT1.
From Acme.C07 Require Proofs.
From Acme.C02 Require Import Model Spec ProofsBits ProofsFilters Proofs.
Import ListNotations.
Local Open Scope Z_scope.

Module L := Acme.C01.Layout.
Module M1 := Acme.C01.Model.

Definition of_item (be : bool) (kind : nat -> skind) (p : L.item) : sigl :=
  mkSig (Z.of_nat (L.i_h p)) (L.i_start p) (L.i_len p) be (kind (L.i_h p)).

(* the layout of message m in C01's state s, as a C02 layout *)
Definition c02_layout (be : bool) (kind : nat -> skind) (s : Acme.C01.State.state) (m : nat) : list sigl :=
  map (of_item be kind) (M1.msg_view s m).

Lemma sorted_of_strongly be kind v :
  StronglySorted (fun a b => L.i_end a <= L.i_start b) v -> sorted (map (of_item be kind) v).
Proof.
  induction v as [|a tl IH]; intros H; [exact I|].
  inversion H as [|? ? Htl Hall]; subst. cbn [map sorted]. split; [|apply IH; exact Htl].
  destruct tl as [|b tl']; [exact I|]. cbn [map]. inversion Hall; subst. exact H2.
Qed.

Lemma view_nodup pos len l size :
  L.wf size (L.view pos len l) -> NoDup l.
Proof.
  intros [Hs Hb]. induction l as [|x tl IH]; [constructor|].
  cbn [L.view map] in Hs, Hb. inversion Hs as [|? ? Htl Hall]; subst. inversion Hb as [|? ? Hx Hbt]; subst.
  constructor; [|apply IH; assumption].
  intros Hin. rewrite Forall_forall in Hall.
  specialize (Hall (x, pos x, len x)). unfold L.i_end, L.i_start, L.i_len in *. cbn in *.
  assert (In (x, pos x, len x) (map (fun y => (y, pos y, len y)) tl)) by (apply in_map_iff; exists x; split; [reflexivity | exact Hin]).
  specialize (Hall H). lia.
Qed.

Theorem wf_of_c01 be kind pos len l size :
  L.wf size (L.view pos len l) ->
  wf size (map (of_item be kind) (L.view pos len l)).
Proof.
  intros Hwf. pose proof (view_nodup pos len l size Hwf) as Hnd. destruct Hwf as [Hs Hb].
  split; [|split].
  - apply Forall_forall. intros s Hin. apply in_map_iff in Hin. destruct Hin as [p [<- Hp]].
    rewrite Forall_forall in Hb. specialize (Hb p Hp).
    unfold L.view in Hp. apply in_map_iff in Hp. destruct Hp as [x [<- Hx]].
    unfold sig_ok, s_end, of_item, L.i_start, L.i_len, L.i_end, L.i_h in *. cbn in *. lia.
  - apply sorted_of_strongly. exact Hs.
  - unfold L.view. rewrite !map_map. cbn.
    change (NoDup (map (fun x => Z.of_nat x) l)).
    clear - Hnd. induction l as [|a tl IH]; [constructor|].
    inversion Hnd; subst. cbn [map]. constructor; [|apply IH; assumption].
    intros Hin. apply in_map_iff in Hin. destruct Hin as [b [E Hb]].
    assert (b = a) by lia. subst b. contradiction.
Qed.

(* every message layout of every reachable state (C01's hypotheses) is a well-formed C02 layout,
   whatever the width of its signals (a multiplexer may be wider than 64 bits) *)
Theorem layout_wf_reachable ops m be kind :
  Acme.C07.Proofs.ok_hist_w ops ->
  wf (8 * Acme.C01.State.gbytes (M1.run ops) m) (c02_layout be kind (M1.run ops) m).
Proof.
  intros Hw. unfold c02_layout, M1.msg_view. apply wf_of_c01.
  exact (Acme.C01.ProofsT1.t1_layout_wf ops Hw m).
Qed.

(* the 64-bit bound (a raw value is a uint64) concerns the signals that are decoded only *)
Definition narrow_decoded (l : list sigl) : Prop := Forall (fun s => s_kind s <> KMux -> narrow s) l.

(* end to end: after every such edit history Decode yields one entry per standard / enum signal in
   layout order, every little-endian value is exactly the payload bits of its signal, and so is
   every big-endian value outside the D08 shape *)
Theorem decode_reachable ops m be kind data :
  Acme.C07.Proofs.ok_hist_w ops ->
  bytes_ok data -> 8 * Acme.C01.State.gbytes (M1.run ops) m <= nbits data ->
  let l := c02_layout be kind (M1.run ops) m in
  decode l data = map (fun s => (s_id s, sig_raw s data)) (filter not_mux l) /\
  (forall s, In s l -> narrow s -> be = false -> sig_raw s data = raw_le (s_start s) (s_size s) data) /\
  (forall s, In s l -> narrow s -> be = true -> d08 s = false -> sig_raw s data = raw_be (s_start s) (s_size s) data) /\
  (forall s, In s l -> be = true -> one_byte s = true -> sig_raw s data = raw_le (s_start s) (s_size s) data) /\
  (forall s, In s l -> narrow s -> 0 <= sig_raw s data < 2 ^ s_size s) /\
  (forall f, In f (gen_filters l) -> 0 <= f_byte f < Acme.C01.State.gbytes (M1.run ops) m).
Proof.
  intros Hw Hd Hfit l.
  pose proof (layout_wf_reachable ops m be kind Hw) as Hwf. fold l in Hwf.
  assert (Hbe : forall s, In s l -> s_be s = be).
  { intros s Hs. unfold l, c02_layout in Hs. apply in_map_iff in Hs. destruct Hs as [p [<- _]]. reflexivity. }
  pose proof Hwf as [Hall _]. pose proof Hall as HallF. rewrite Forall_forall in Hall.
  split; [apply (decode_order _ l data Hwf)|]. split; [|split; [|split; [|split]]].
  - intros s Hs N E. apply (decode_le_spec _ s data (Hall s Hs) N); [rewrite (Hbe s Hs); exact E | exact Hd].
  - intros s Hs N E D. apply (decode_be_spec _ s data (Hall s Hs) N); try assumption. rewrite (Hbe s Hs); exact E.
  - intros s Hs E O. apply (decode_be_one_byte_spec _ s data (Hall s Hs)); try assumption. rewrite (Hbe s Hs); exact E.
  - intros s Hs N. apply (sig_raw_range _ s data (Hall s Hs) N Hd Hfit).
  - intros f Hf. pose proof (gen_filters_inside _ l f HallF Hf) as [A B]. lia.
Qed.

(* ... and the masks Filters() publishes for such a layout cover every signal and never share a
   payload bit between two signals (outside the D08 shape) *)
Theorem masks_reachable ops m be kind :
  Acme.C07.Proofs.ok_hist_w ops ->
  let l := c02_layout be kind (M1.run ops) m in
  (forall s, In s l -> fold_right (fun f a => popcount8 (f_mask f) + a) 0 (sig_filters s) = s_size s) /\
  (forall a b f g, In a l -> In b l -> s_id a <> s_id b -> d08 a = false -> d08 b = false ->
     In f (sig_filters a) -> In g (sig_filters b) -> f_byte f = f_byte g -> Z.land (f_mask f) (f_mask g) = 0).
Proof.
  intros Hw l. pose proof (layout_wf_reachable ops m be kind Hw) as Hwf. fold l in Hwf.
  assert (Hu : uniform be l).
  { unfold uniform. apply Forall_forall. intros s Hs. unfold l, c02_layout in Hs.
    apply in_map_iff in Hs. destruct Hs as [p [<- _]]. reflexivity. }
  pose proof Hwf as [Hall _]. rewrite Forall_forall in Hall. split.
  - intros s Hs. apply (masks_cover _ s (Hall s Hs)).
  - intros a b f g Ha Hb Hne Hda Hdb Hf Hg Hbyte.
    exact (masks_disjoint _ be l a b f g Hwf Hu Hda Hdb Ha Hb Hne Hf Hg Hbyte).
Qed.

(* ------------------------------------------------------------------ one machine: geometry edits AND byte order
   C01's operation alphabet contains OByteOrder m big (Message.SetByteOrder; it does not touch the
   layout).  The byte order of message m after a history is the argument of the last OByteOrder on m
   (little endian before); by byte_order_propagates (Acme.C02.History) that is the byte order every
   signal of m stores.  The kind of a signal is read from C01's state.  So for EVERY history over the
   28 operations - placements, removals, shifts, compaction, resizing, type / enum swaps, enum edits,
   multiplexer edits and byte-order changes, in any interleaving - that satisfies ok_hist_w: *)
Definition be_after (ops : list M1.op) (m : nat) : bool :=
  fold_left (fun b o => match o with M1.OByteOrder m' big => if Nat.eqb m' m then big else b | _ => b end) ops false.

Definition kind_after (st : Acme.C01.State.state) (x : nat) : skind :=
  match Acme.C01.State.kind st x with
  | Acme.C01.State.KStd _ => KStandard
  | Acme.C01.State.KEnum _ => KEnum
  | Acme.C01.State.KMux _ _ => KMux
  end.

Definition layout_after (ops : list M1.op) (m : nat) : list sigl :=
  c02_layout (be_after ops m) (kind_after (M1.run ops)) (M1.run ops) m.

Theorem history_decode ops m data :
  Acme.C07.Proofs.ok_hist_w ops ->
  bytes_ok data -> 8 * Acme.C01.State.gbytes (M1.run ops) m <= nbits data ->
  let l := layout_after ops m in
  let be := be_after ops m in
  wf (8 * Acme.C01.State.gbytes (M1.run ops) m) l /\ uniform be l /\
  decode l data = map (fun s => (s_id s, sig_raw s data)) (filter not_mux l) /\
  (forall s, In s l -> narrow s -> d08 s = false ->
     sig_raw s data = if be then raw_be (s_start s) (s_size s) data else raw_le (s_start s) (s_size s) data) /\
  (forall s, In s l -> narrow s -> 0 <= sig_raw s data < 2 ^ s_size s).
Proof.
  intros Hw Hd Hfit l be.
  pose proof (layout_wf_reachable ops m be (kind_after (M1.run ops)) Hw) as Hwf.
  destruct (decode_reachable ops m be (kind_after (M1.run ops)) data Hw Hd Hfit) as [D1 [D2 [D3 [_ [D5 _]]]]].
  split; [exact Hwf|]. split.
  { unfold uniform. apply Forall_forall. intros s Hs. unfold l, layout_after, c02_layout in Hs.
    apply in_map_iff in Hs. destruct Hs as [p [<- _]]. reflexivity. }
  split; [exact D1|]. split; [|exact D5].
  intros s Hs N D. unfold l, layout_after in Hs. subst be.
  destruct (be_after ops m) eqn:E.
  - apply D3; [exact Hs | exact N | reflexivity | exact D].
  - apply D2; [exact Hs | exact N | reflexivity].
Qed.

(* every mask Filters() publishes after such a history lies inside the payload of its message *)
Theorem filters_inside_history ops m f :
  Acme.C07.Proofs.ok_hist_w ops -> In f (gen_filters (layout_after ops m)) ->
  0 <= f_byte f < Acme.C01.State.gbytes (M1.run ops) m.
Proof.
  intros Hw Hf. pose proof (layout_wf_reachable ops m (be_after ops m) (kind_after (M1.run ops)) Hw) as [Hall _].
  pose proof (gen_filters_inside _ _ f Hall Hf) as [A B]. lia.
Qed.
