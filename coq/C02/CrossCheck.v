(* C02 — checker for the thorough-tier cross-check (DESIGN 3.3): sampled layouts with the
   Filters() and Decode() results OBSERVED on the Go implementation, and sampled operation
   histories with the state observed after every operation, are written as Coq lists;
   `mismatches` / `hmismatches` are evaluated with vm_compute inside Coq (expected: []). *)
From Coq Require Import ZArith List Bool.
From Acme.C02 Require Import Model History.
Import ListNotations.
Local Open Scope Z_scope.

Definition filter_eqb (a b : lfilter) : bool :=
  (f_sig a =? f_sig b) && (f_byte a =? f_byte b) && (f_mask a =? f_mask b) && (f_len a =? f_len b) && (f_off a =? f_off b).

Fixpoint list_eqb {A} (eqb : A -> A -> bool) (a b : list A) : bool :=
  match a, b with
  | [], [] => true
  | x :: ta, y :: tb => eqb x y && list_eqb eqb ta tb
  | _, _ => false
  end.

Definition pair_eqb (a b : Z * Z) : bool := (fst a =? fst b) && (snd a =? snd b).

Record xcase : Type := mkX {
  x_view : list sigl;
  x_filters : list lfilter;                       (* observed Filters() *)
  x_runs : list (list Z * list (Z * Z)) }.        (* payload, observed Decode (id, RawValue) *)

Definition xcheck (c : xcase) : bool :=
  list_eqb filter_eqb (gen_filters (x_view c)) (x_filters c) &&
  forallb (fun r => list_eqb pair_eqb (decode (x_view c) (fst r)) (snd r)) (x_runs c).

Definition mismatches (cs : list xcase) : list xcase := filter (fun c => negb (xcheck c)) cs.

(* histories: model operations (as translated from the Go operations) with the state observed
   after each of them *)
Definition kind_eqb (a b : skind) : bool :=
  match a, b with KStandard, KStandard | KEnum, KEnum | KMux, KMux => true | _, _ => false end.
Definition sig_eqb (a b : sigl) : bool :=
  (s_id a =? s_id b) && (s_start a =? s_start b) && (s_size a =? s_size b) && Bool.eqb (s_be a) (s_be b) && kind_eqb (s_kind a) (s_kind b).

Record hobs : Type := mkH { h_be : bool; h_bits : Z; h_sigs : list sigl; h_filters : list lfilter }.

Definition state_ok (m : msg) (o : hobs) : bool :=
  Bool.eqb (m_be m) (h_be o) && (m_bits m =? h_bits o) && list_eqb sig_eqb (m_sigs m) (h_sigs o) &&
  list_eqb filter_eqb (filters m) (h_filters o).

(* one observed Go operation = a (possibly empty) list of model operations, then the observation *)
Fixpoint hcheck_from (m : msg) (steps : list (list op * hobs)) : bool :=
  match steps with
  | [] => true
  | (ops, o) :: tl => let m' := fold_left step ops m in state_ok m' o && hcheck_from m' tl
  end.

Definition hcheck (h : Z * list (list op * hobs)) : bool := hcheck_from (new_message (fst h)) (snd h).
Definition hmismatches (hs : list (Z * list (list op * hobs))) : list Z :=
  map fst (filter (fun h => negb (hcheck h)) hs).
