(* Extraction of the executable C02 model for the correspondence check.
   ExtrOcamlBasic only: Z / positive stay inductive; no Extract Constant of our own. *)
From Coq Require Import Extraction ExtrOcamlBasic ZArith List.
From Acme.C02 Require Import Model Spec History.
Extraction Language OCaml.
Extraction "extracted/c02_model.ml" gen_filters decode decode_all raw_le raw_be d08
  new_message step filters m_be m_bits m_sigs m_cache.
