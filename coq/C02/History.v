(* C02 — the message as a state machine: who writes the per-signal byte order field, where the
   filter cache is (re)generated, and what Filters() / Decode() read after fix 11d2260.

   State, as the Go code stores it:
     m_be     Message.byteOrder
     m_bits   8 * Message.sizeByte
     m_sigs   SignalLayout.signals in layout order; every signal carries its own fields
              (relStartPos, size via type/enum, signal.endianness = s_be, kind)
     m_cache  SignalLayout.filters, written by generateFilters() at the places the code calls it

   Operations = the accepted edits of the public API (refused edits change nothing):
     OAppend / OInsert   Message.AppendSignal / InsertSignal: signalLayout.append / insert runs
                         (generateFilters is called there, while the signal still has the byte
                         order it had before, `old_be`), THEN addSignal -> setParentMsg copies
                         Message.byteOrder into signal.endianness
     ORemove, ORemoveAll Message.RemoveSignal / RemoveAllSignals
     OSetByteOrder       Message.SetByteOrder: byteOrder := b; setEndianness(b) on every signal of
                         the message; generateFilters
     OSetGeom            every edit that changes the size and / or start of a placed signal
                         (SetType, SetEnum, enum AddValue / RemoveValue / RemoveAllValues /
                         UpdateIndex / SetMinSize, shifts, compact, followers pushed or pulled),
                         abstracted to its effect on one signal; the cache is NOT refreshed after
                         the new size is in place (that was D07)
     OResize             Message.UpdateSizeByte (resize regenerates the cache)
   The message registry m.signals is taken to hold exactly the signals of the layout (C04/C05);
   one message (a signal placed in two messages is D20, C04-C06).  No proofs in this file. *)
From Coq Require Import ZArith List Bool.
From Acme.C02 Require Import Model.
Import ListNotations.
Local Open Scope Z_scope.

Record msg : Type := mkMsg {
  m_be : bool; m_bits : Z; m_sigs : list sigl; m_cache : list lfilter }.

Definition new_message (bits : Z) : msg := mkMsg false bits [] [].

Inductive op : Type :=
| OAppend (id size : Z) (k : skind) (old_be : bool)
| OInsert (id start size : Z) (k : skind) (old_be : bool)
| ORemove (id : Z)
| ORemoveAll
| OSetByteOrder (b : bool)
| OSetGeom (id start size : Z)
| OResize (bits : Z).

Definition end_of_last (l : list sigl) : Z :=
  match rev l with [] => 0 | s :: _ => s_start s + s_size s end.

(* SignalLayout.insert: before the first signal that starts behind startBit, else at the end *)
Fixpoint insert_sorted (x : sigl) (l : list sigl) : list sigl :=
  match l with
  | [] => [x]
  | a :: tl => if s_start a >? s_start x then x :: a :: tl else a :: insert_sorted x tl
  end.

Definition set_be (b : bool) (s : sigl) : sigl := mkSig (s_id s) (s_start s) (s_size s) b (s_kind s).
Definition set_geom (id start size : Z) (s : sigl) : sigl :=
  if s_id s =? id then mkSig (s_id s) start size (s_be s) (s_kind s) else s.

Definition step (m : msg) (o : op) : msg :=
  match o with
  | OAppend id size k old_be =>
    let placed := mkSig id (end_of_last (m_sigs m)) size old_be k in
    let cache := gen_filters (m_sigs m ++ [placed]) in            (* append: generateFilters *)
    mkMsg (m_be m) (m_bits m) (m_sigs m ++ [set_be (m_be m) placed]) cache   (* addSignal *)
  | OInsert id start size k old_be =>
    let placed := mkSig id start size old_be k in
    let cache := gen_filters (insert_sorted placed (m_sigs m)) in
    mkMsg (m_be m) (m_bits m) (insert_sorted (set_be (m_be m) placed) (m_sigs m)) cache
  | ORemove id =>
    let l := filter (fun s => negb (s_id s =? id)) (m_sigs m) in
    mkMsg (m_be m) (m_bits m) l (gen_filters l)
  | ORemoveAll => mkMsg (m_be m) (m_bits m) [] []
  | OSetByteOrder b =>
    let l := map (set_be b) (m_sigs m) in
    mkMsg b (m_bits m) l (gen_filters l)
  | OSetGeom id start size =>
    mkMsg (m_be m) (m_bits m) (map (set_geom id start size) (m_sigs m)) (m_cache m)
  | OResize bits => mkMsg (m_be m) bits (m_sigs m) (gen_filters (m_sigs m))
  end.

Definition run (bits : Z) (ops : list op) : msg := fold_left step ops (new_message bits).

(* what Filters() returns and Decode() iterates over since 11d2260: computeFilters on the
   current signals, with the byte order each signal stores *)
Definition filters (m : msg) : list lfilter := gen_filters (m_sigs m).
Definition decode_msg (m : msg) (data : list Z) : list (Z * Z) := decode (m_sigs m) data.

(* the current layout as the property reads it: the signals where they are now, in the byte order
   of the message *)
Definition layout_of (m : msg) : list sigl := map (set_be (m_be m)) (m_sigs m).
