(* C02 — proofs about the message state machine (Acme.C02.History). *)
From Coq Require Import ZArith List Bool Lia.
From Acme.C02 Require Import Model Spec History.
Import ListNotations.
Local Open Scope Z_scope.

Definition order_inv (m : msg) : Prop := Forall (fun s => s_be s = m_be m) (m_sigs m).

Lemma insert_sorted_in x l y : In y (insert_sorted x l) -> y = x \/ In y l.
Proof.
  induction l as [|a tl IH]; cbn [insert_sorted]; intros H.
  - destruct H as [<-|[]]. left. reflexivity.
  - destruct (s_start a >? s_start x).
    + destruct H as [<-|H]; [left; reflexivity | right; exact H].
    + destruct H as [<-|H]; [right; left; reflexivity|].
      destruct (IH H) as [E|E]; [left; exact E | right; right; exact E].
Qed.

Lemma order_inv_step m o : order_inv m -> order_inv (step m o).
Proof.
  unfold order_inv. intros H. rewrite Forall_forall in H.
  destruct o as [id size k ob | id start size k ob | id | | b | id start size | bits];
    cbn [step m_be m_sigs]; apply Forall_forall; intros y Hy.
  - apply in_app_iff in Hy. destruct Hy as [Hy|[<-|[]]]; [apply H; exact Hy | reflexivity].
  - destruct (insert_sorted_in _ _ _ Hy) as [-> | Hin]; [reflexivity | apply H; exact Hin].
  - apply filter_In in Hy. apply H. tauto.
  - contradiction.
  - apply in_map_iff in Hy. destruct Hy as [x [<- _]]. reflexivity.
  - apply in_map_iff in Hy. destruct Hy as [x [<- Hx]]. unfold set_geom.
    destruct (s_id x =? id); [cbn [s_be]|]; apply H; exact Hx.
  - apply H. exact Hy.
Qed.

Lemma order_inv_run bits ops : order_inv (run bits ops).
Proof.
  unfold run. assert (H0 : order_inv (new_message bits)) by constructor.
  revert H0. generalize (new_message bits).
  induction ops as [|o tl IH]; intros m Hm; cbn [fold_left]; [exact Hm|].
  apply IH. apply order_inv_step. exact Hm.
Qed.

(* every signal of the message carries the byte order of the message, after every history *)
Theorem byte_order_propagates bits ops s :
  In s (m_sigs (run bits ops)) -> s_be s = m_be (run bits ops).
Proof.
  intros H. pose proof (order_inv_run bits ops) as I. unfold order_inv in I.
  rewrite Forall_forall in I. apply I. exact H.
Qed.

Lemma layout_of_id m : order_inv m -> layout_of m = m_sigs m.
Proof.
  unfold order_inv, layout_of. intros H. induction (m_sigs m) as [|a tl IH]; [reflexivity|].
  inversion H as [|? ? Ha Htl]; subst. cbn [map]. rewrite IH by assumption. f_equal.
  unfold set_be. rewrite <- Ha. destruct a; reflexivity.
Qed.

(* the masks Filters() publishes are those of the current layout in the message's byte order,
   whatever edits preceded the call *)
Theorem filters_fresh bits ops :
  filters (run bits ops) = gen_filters (layout_of (run bits ops)).
Proof. unfold filters. rewrite layout_of_id by apply order_inv_run. reflexivity. Qed.

Theorem decode_fresh bits ops data :
  decode_msg (run bits ops) data = decode (layout_of (run bits ops)) data.
Proof. unfold decode_msg. rewrite layout_of_id by apply order_inv_run. reflexivity. Qed.

(* positions and sizes of the layout are those of the current signals *)
Theorem layout_of_geometry bits ops :
  map (fun s => (s_id s, s_start s, s_size s, s_kind s)) (layout_of (run bits ops)) =
  map (fun s => (s_id s, s_start s, s_size s, s_kind s)) (m_sigs (run bits ops)).
Proof. unfold layout_of. rewrite map_map. reflexivity. Qed.

(* the cache generateFilters maintains is NOT such a description (why 11d2260 stopped reading
   it): a signal appended to a big-endian message is cached with its previous byte order, and a
   size change never reaches the cache *)
Theorem cache_stale_after_append :
  let m := run 64 [OSetByteOrder true; OAppend 0 15 KStandard false] in
  m_cache m <> gen_filters (layout_of m) /\ filters m = gen_filters (layout_of m).
Proof. cbv zeta. split; [vm_compute; discriminate | vm_compute; reflexivity]. Qed.

Theorem cache_stale_after_resize_of_signal :
  let m := run 64 [OAppend 0 7 KStandard false; OSetGeom 0 0 12] in
  m_cache m <> gen_filters (layout_of m) /\ filters m = gen_filters (layout_of m).
Proof. cbv zeta. split; [vm_compute; discriminate | vm_compute; reflexivity]. Qed.

(* non-trivial instance: history with placements before and after SetByteOrder, a resize, a removal *)
Example history_example :
  let ops := [OAppend 0 12 KStandard false; OSetByteOrder true; OInsert 1 20 9 KEnum false;
              OSetGeom 0 0 14; OAppend 2 3 KStandard false; ORemove 1; OSetByteOrder false; OSetByteOrder true] in
  m_be (run 64 ops) = true /\
  m_sigs (run 64 ops) = [mkSig 0 0 14 true KStandard; mkSig 2 29 3 true KStandard] /\
  filters (run 64 ops) = [mkF 0 0 255 8 0; mkF 0 1 252 6 2; mkF 2 3 224 3 5].
Proof. vm_compute. repeat split. Qed.
