(* C02 — model of signal_layout.go computeFilters (generateFilters) and Decode.
   A layout is the list of its signals in layout order, each with the values the code reads
   through the Signal interface (GetRelativeStartPos, GetSize, Endianness, Kind).  Filters()
   and Decode() compute the filters from the current signals (no cache is read), so the model
   has no cache either: `gen_filters` is a function of the current view.
   Go `int` is unbounded Z here except where the code truncates: uint8(mask) and the uint64
   raw value (wrap written out).  `/` and `%` are on non-negative operands.  No proofs here. *)
From Coq Require Import ZArith List Bool.
Import ListNotations.
Local Open Scope Z_scope.

Inductive skind : Type := KStandard | KEnum | KMux.

Record sigl : Type := mkSig {
  s_id : Z;          (* entity id (opaque; the harness numbers the signals) *)
  s_start : Z;       (* GetRelativeStartPos *)
  s_size : Z;        (* GetSize *)
  s_be : bool;       (* Endianness = big endian *)
  s_kind : skind }.

Record lfilter : Type := mkF {
  f_sig : Z; f_byte : Z; f_mask : Z; f_len : Z; f_off : Z }.

Definition u8 (z : Z) : Z := z mod 256.
Definition wrap64 (z : Z) : Z := z mod 2 ^ 64.

(* one iteration of the per-byte loop of a signal spanning several bytes *)
Definition multi_filter (s : sigl) (first last i remaining : Z) : lfilter :=
  if negb (i =? first) && negb (i =? last) then
    mkF (s_id s) i 255 8 0                                   (* middle byte *)
  else if i =? first then
    let t := s_start s mod 8 in
    if s_be s then mkF (s_id s) i (u8 (Z.shiftr 255 t)) (8 - t) 0
    else mkF (s_id s) i (u8 (Z.shiftl 255 t)) (8 - t) t
  else                                                       (* last byte *)
    let m := 2 ^ remaining - 1 in
    if s_be s then mkF (s_id s) i (u8 (Z.shiftl m (8 - remaining))) remaining (8 - remaining)
    else mkF (s_id s) i (u8 m) remaining 0.

(* for i := firstIdx; i <= lastIdx; i++ { ...; remainingBits -= length } *)
Fixpoint multi_loop (fuel : nat) (s : sigl) (first last i remaining : Z) : list lfilter :=
  match fuel with
  | O => []
  | S f =>
    if i <=? last then
      let flt := multi_filter s first last i remaining in
      flt :: multi_loop f s first last (i + 1) (remaining - f_len flt)
    else []
  end.

Definition sig_filters (s : sigl) : list lfilter :=
  let first := s_start s / 8 in
  let last := (s_start s + s_size s - 1) / 8 in
  if first =? last then
    (* single byte: LSB-anchored offset for both byte orders *)
    let off := s_start s mod 8 in
    [mkF (s_id s) first (u8 (Z.shiftl (2 ^ s_size s - 1) off)) (s_size s) off]
  else multi_loop (Z.to_nat (last - first + 1)) s first last first (s_size s).

Definition gen_filters (l : list sigl) : list lfilter := flat_map sig_filters l.

(* ---------------------------------------------------------------- Decode *)
Definition byte_at (data : list Z) (i : Z) : Z := nth (Z.to_nat i) data 0.

(* uint64((data[byteIdx] & mask) >> leftOffset) *)
Definition part (data : list Z) (f : lfilter) : Z :=
  Z.shiftr (Z.land (byte_at data (f_byte f)) (f_mask f)) (f_off f).

Definition flush (cur : option Z) (raw : Z) (acc : list (Z * Z)) : list (Z * Z) :=
  match cur with Some id => acc ++ [(id, raw)] | None => acc end.

(* the loop over the filters: `cur` is the signal being accumulated (None before the first
   filter), `be_of` the current byte order of a signal (read at decode time) *)
Fixpoint decode_loop (be_of : Z -> bool) (data : list Z) (fs : list lfilter)
         (cur : option Z) (raw consumed : Z) (acc : list (Z * Z)) : list (Z * Z) :=
  match fs with
  | [] => flush cur raw acc
  | f :: tl =>
    let same := match cur with Some id => id =? f_sig f | None => false end in
    let cur' := if same then cur else Some (f_sig f) in
    let raw0 := if same then raw else 0 in
    let cons0 := if same then consumed else 0 in
    let acc' := if same then acc else flush cur raw acc in
    let tmp := part data f in
    if be_of (f_sig f) then
      decode_loop be_of data tl cur' (Z.lor (wrap64 (Z.shiftl raw0 (f_len f))) tmp) cons0 acc'
    else
      decode_loop be_of data tl cur' (Z.lor raw0 (wrap64 (Z.shiftl tmp cons0))) (cons0 + f_len f) acc'
  end.

Definition be_lookup (l : list sigl) (id : Z) : bool :=
  match find (fun s => s_id s =? id) l with Some s => s_be s | None => false end.

Definition is_mux (l : list sigl) (id : Z) : bool :=
  match find (fun s => s_id s =? id) l with
  | Some s => match s_kind s with KMux => true | _ => false end
  | None => false end.

(* every signal of the layout with its raw value, in layout order *)
Definition decode_all (l : list sigl) (data : list Z) : list (Z * Z) :=
  decode_loop (be_lookup l) data (gen_filters l) None 0 0 [].

(* Decode: decodeSignal yields nil for a multiplexer and Decode does not append it (fix 7bf3900):
   one entry per standard / enum signal *)
Definition decode (l : list sigl) (data : list Z) : list (Z * Z) :=
  filter (fun p => negb (is_mux l (fst p))) (decode_all l data).

(* ---------------------------------------------------------------- one signal at a time *)
(* the accumulation decode_loop performs for the filters of one signal (Proofs.decode_struct
   shows decode_all is exactly this, signal by signal) *)
Fixpoint le_acc (data : list Z) (fs : list lfilter) (raw consumed : Z) : Z :=
  match fs with
  | [] => raw
  | f :: tl => le_acc data tl (Z.lor raw (wrap64 (Z.shiftl (part data f) consumed))) (consumed + f_len f)
  end.
Fixpoint be_acc (data : list Z) (fs : list lfilter) (raw : Z) : Z :=
  match fs with
  | [] => raw
  | f :: tl => be_acc data tl (Z.lor (wrap64 (Z.shiftl raw (f_len f))) (part data f))
  end.
Definition sig_raw (s : sigl) (data : list Z) : Z :=
  if s_be s then be_acc data (sig_filters s) 0 else le_acc data (sig_filters s) 0 0.
