(* C02 — proofs, part 3: the filters of a signal form a chain; decode_loop signal by signal;
   the property theorems. *)
From Coq Require Import ZArith List Bool Lia.
From Acme.C02 Require Import Model Spec ProofsBits ProofsFilters.
Import ListNotations.
Local Open Scope Z_scope.

(* ------------------------------------------------------------------ byte indexes of a signal *)
Section OneSignal.
Variable size : Z.
Variable s : sigl.
Hypothesis Hok : sig_ok size s.

Let start := s_start s.
Let n := s_size s.
Let first := start / 8.
Let last := (start + n - 1) / 8.
Let t := start mod 8.

Lemma start_eq : start = 8 * first + t.
Proof. apply div8_eq. Qed.

Lemma t_bound : 0 <= t < 8.
Proof. apply mod8_bound. Qed.

Lemma last_bounds : 8 * last <= start + n - 1 < 8 * last + 8.
Proof.
  unfold last. pose proof (div8_eq (start + n - 1)) as E. pose proof (mod8_bound (start + n - 1)). lia.
Qed.

Lemma first_nonneg : 0 <= first.
Proof. destruct Hok as [H _]. apply Z.div_pos; [exact H | lia]. Qed.

Lemma first_le_last : first <= last.
Proof.
  destruct Hok as [H0 [H1 _]]. unfold first, last. apply Z.div_le_mono; [lia|]. fold start n. lia.
Qed.

(* the loop, from byte i on: chunk start P and remaining bits are tied by rem = start + n - P *)
Lemma multi_loop_le : s_be s = false -> first < last ->
  forall fuel i, first <= i <= last -> Z.of_nat fuel = last - i + 1 ->
  let P := if i =? first then start else 8 * i in
  let fs := multi_loop fuel s first last i (start + n - P) in
  le_chain fs P /\ total fs = start + n - P /\ Forall (fun f => f_sig f = s_id s) fs /\ fs <> [].
Proof.
  intros Hbe Hfl. pose proof start_eq as SE. pose proof t_bound as TB. pose proof last_bounds as LB.
  pose proof first_nonneg as FN.
  induction fuel as [|fuel IH]; intros i Hi Hfuel; [lia|].
  cbv zeta. cbn [multi_loop]. replace (i <=? last) with true by lia.
  set (P := if i =? first then start else 8 * i).
  set (rem := start + n - P).
  set (flt := multi_filter s first last i rem).
  assert (Next : forall l, f_len flt = l -> i < last ->
            let P' := if i + 1 =? first then start else 8 * (i + 1) in
            P + l = P' -> rem - l = start + n - P').
  { intros l _ _ P' E. unfold rem. lia. }
  destruct (Z.eq_dec i first) as [Eif | Nif].
  - (* first byte *)
    assert (EP : P = start) by (unfold P; replace (i =? first) with true by lia; reflexivity).
    assert (Ef : flt = mkF (s_id s) i (u8 (Z.shiftl 255 t)) (8 - t) t).
    { unfold flt, multi_filter. replace (i =? first) with true by lia.
      replace (i =? last) with false by lia. cbn [negb andb]. fold start t. rewrite Hbe. reflexivity. }
    assert (G : good flt).
    { rewrite Ef. unfold good. cbn [f_byte f_off f_len f_mask].
      repeat split; try lia. apply mask_first_le. exact TB. }
    specialize (IH (i + 1) ltac:(lia) ltac:(lia)). cbv zeta in IH.
    replace (i + 1 =? first) with false in IH by lia.
    replace (rem - f_len flt) with (start + n - 8 * (i + 1)).
    2:{ rewrite Ef. cbn [f_len]. unfold rem. lia. }
    destruct IH as [I1 [I2 [I3 _]]].
    split; [|split; [|split]].
    + cbn [le_chain]. split; [exact G|]. split.
      * rewrite Ef. cbn [f_byte f_off]. lia.
      * replace (P + f_len flt) with (8 * (i + 1)); [exact I1|]. rewrite Ef. cbn [f_len]. lia.
    + cbn [total fold_right]. fold (total (multi_loop fuel s first last (i + 1) (start + n - 8 * (i + 1)))).
      rewrite I2. rewrite Ef. cbn [f_len]. lia.
    + constructor; [rewrite Ef; reflexivity | exact I3].
    + discriminate.
  - assert (EP : P = 8 * i) by (unfold P; replace (i =? first) with false by lia; reflexivity).
    destruct (Z.eq_dec i last) as [Eil | Nil].
    + (* last byte *)
      assert (Hrem : 1 <= rem <= 8) by (unfold rem; lia).
      assert (Ef : flt = mkF (s_id s) i (u8 (2 ^ rem - 1)) rem 0).
      { unfold flt, multi_filter. replace (i =? first) with false by lia.
        replace (i =? last) with true by lia. cbn [negb andb]. rewrite Hbe. reflexivity. }
      assert (G : good flt).
      { rewrite Ef. unfold good. cbn [f_byte f_off f_len f_mask].
        repeat split; try lia. apply mask_last_le. exact Hrem. }
      assert (Enil : multi_loop fuel s first last (i + 1) (rem - f_len flt) = []).
      { destruct fuel; [reflexivity|]. cbn [multi_loop]. replace (i + 1 <=? last) with false by lia. reflexivity. }
      rewrite Enil. split; [|split; [|split]].
      * cbn [le_chain]. split; [exact G|]. split; [|exact I]. rewrite Ef. cbn [f_byte f_off]. lia.
      * cbn [total fold_right]. rewrite Ef. cbn [f_len]. unfold rem. lia.
      * constructor; [rewrite Ef; reflexivity | constructor].
      * discriminate.
    + (* middle byte *)
      assert (Ef : flt = mkF (s_id s) i 255 8 0).
      { unfold flt, multi_filter. replace (i =? first) with false by lia.
        replace (i =? last) with false by lia. reflexivity. }
      assert (G : good flt).
      { rewrite Ef. unfold good. cbn [f_byte f_off f_len f_mask]. repeat split; try lia. }
      specialize (IH (i + 1) ltac:(lia) ltac:(lia)). cbv zeta in IH.
      replace (i + 1 =? first) with false in IH by lia.
      replace (rem - f_len flt) with (start + n - 8 * (i + 1)).
      2:{ rewrite Ef. cbn [f_len]. unfold rem. lia. }
      destruct IH as [I1 [I2 [I3 _]]].
      split; [|split; [|split]].
      * cbn [le_chain]. split; [exact G|]. split.
        -- rewrite Ef. cbn [f_byte f_off]. lia.
        -- replace (P + f_len flt) with (8 * (i + 1)); [exact I1|]. rewrite Ef. cbn [f_len]. lia.
      * cbn [total fold_right]. fold (total (multi_loop fuel s first last (i + 1) (start + n - 8 * (i + 1)))).
        rewrite I2. rewrite Ef. cbn [f_len]. lia.
      * constructor; [rewrite Ef; reflexivity | exact I3].
      * discriminate.
Qed.

Lemma multi_loop_be : s_be s = true -> first < last ->
  forall fuel i, first <= i <= last -> Z.of_nat fuel = last - i + 1 ->
  let P := if i =? first then start else 8 * i in
  let fs := multi_loop fuel s first last i (start + n - P) in
  be_chain fs P /\ total fs = start + n - P /\ Forall (fun f => f_sig f = s_id s) fs /\ fs <> [].
Proof.
  intros Hbe Hfl. pose proof start_eq as SE. pose proof t_bound as TB. pose proof last_bounds as LB.
  pose proof first_nonneg as FN.
  induction fuel as [|fuel IH]; intros i Hi Hfuel; [lia|].
  cbv zeta. cbn [multi_loop]. replace (i <=? last) with true by lia.
  set (P := if i =? first then start else 8 * i).
  set (rem := start + n - P).
  set (flt := multi_filter s first last i rem).
  destruct (Z.eq_dec i first) as [Eif | Nif].
  - assert (EP : P = start) by (unfold P; replace (i =? first) with true by lia; reflexivity).
    assert (Ef : flt = mkF (s_id s) i (u8 (Z.shiftr 255 t)) (8 - t) 0).
    { unfold flt, multi_filter. replace (i =? first) with true by lia.
      replace (i =? last) with false by lia. cbn [negb andb]. fold start t. rewrite Hbe. reflexivity. }
    assert (G : good flt).
    { rewrite Ef. unfold good. cbn [f_byte f_off f_len f_mask].
      repeat split; try lia. apply mask_first_be. exact TB. }
    specialize (IH (i + 1) ltac:(lia) ltac:(lia)). cbv zeta in IH.
    replace (i + 1 =? first) with false in IH by lia.
    replace (rem - f_len flt) with (start + n - 8 * (i + 1)).
    2:{ rewrite Ef. cbn [f_len]. unfold rem. lia. }
    destruct IH as [I1 [I2 [I3 _]]].
    split; [|split; [|split]].
    + cbn [be_chain]. split; [exact G|]. split.
      * rewrite Ef. cbn [f_byte f_off f_len]. lia.
      * replace (P + f_len flt) with (8 * (i + 1)); [exact I1|]. rewrite Ef. cbn [f_len]. lia.
    + cbn [total fold_right]. fold (total (multi_loop fuel s first last (i + 1) (start + n - 8 * (i + 1)))).
      rewrite I2. rewrite Ef. cbn [f_len]. lia.
    + constructor; [rewrite Ef; reflexivity | exact I3].
    + discriminate.
  - assert (EP : P = 8 * i) by (unfold P; replace (i =? first) with false by lia; reflexivity).
    destruct (Z.eq_dec i last) as [Eil | Nil].
    + assert (Hrem : 1 <= rem <= 8) by (unfold rem; lia).
      assert (Ef : flt = mkF (s_id s) i (u8 (Z.shiftl (2 ^ rem - 1) (8 - rem))) rem (8 - rem)).
      { unfold flt, multi_filter. replace (i =? first) with false by lia.
        replace (i =? last) with true by lia. cbn [negb andb]. rewrite Hbe. reflexivity. }
      assert (G : good flt).
      { rewrite Ef. unfold good. cbn [f_byte f_off f_len f_mask].
        repeat split; try lia. apply mask_last_be. exact Hrem. }
      assert (Enil : multi_loop fuel s first last (i + 1) (rem - f_len flt) = []).
      { destruct fuel; [reflexivity|]. cbn [multi_loop]. replace (i + 1 <=? last) with false by lia. reflexivity. }
      rewrite Enil. split; [|split; [|split]].
      * cbn [be_chain]. split; [exact G|]. split; [|exact I]. rewrite Ef. cbn [f_byte f_off f_len]. lia.
      * cbn [total fold_right]. rewrite Ef. cbn [f_len]. unfold rem. lia.
      * constructor; [rewrite Ef; reflexivity | constructor].
      * discriminate.
    + assert (Ef : flt = mkF (s_id s) i 255 8 0).
      { unfold flt, multi_filter. replace (i =? first) with false by lia.
        replace (i =? last) with false by lia. reflexivity. }
      assert (G : good flt).
      { rewrite Ef. unfold good. cbn [f_byte f_off f_len f_mask]. repeat split; try lia. }
      specialize (IH (i + 1) ltac:(lia) ltac:(lia)). cbv zeta in IH.
      replace (i + 1 =? first) with false in IH by lia.
      replace (rem - f_len flt) with (start + n - 8 * (i + 1)).
      2:{ rewrite Ef. cbn [f_len]. unfold rem. lia. }
      destruct IH as [I1 [I2 [I3 _]]].
      split; [|split; [|split]].
      * cbn [be_chain]. split; [exact G|]. split.
        -- rewrite Ef. cbn [f_byte f_off f_len]. lia.
        -- replace (P + f_len flt) with (8 * (i + 1)); [exact I1|]. rewrite Ef. cbn [f_len]. lia.
      * cbn [total fold_right]. fold (total (multi_loop fuel s first last (i + 1) (start + n - 8 * (i + 1)))).
        rewrite I2. rewrite Ef. cbn [f_len]. lia.
      * constructor; [rewrite Ef; reflexivity | exact I3].
      * discriminate.
Qed.

(* the single-byte branch: one filter, LSB-anchored *)
Lemma single_filter : first = last ->
  sig_filters s = [mkF (s_id s) first (Z.shiftl (Z.ones n) t) n t] /\ t + n <= 8.
Proof.
  intros E. pose proof start_eq as SE. pose proof t_bound as TB. pose proof last_bounds as LB.
  destruct Hok as [H0 [H1 H3]]. fold start n in H0, H1, H3.
  assert (Htn : t + n <= 8) by lia.
  split; [|exact Htn]. unfold sig_filters. fold start n first last t.
  replace (first =? last) with true by lia.
  rewrite mask_single by lia. reflexivity.
Qed.

Lemma sig_filters_multi : first < last ->
  sig_filters s = multi_loop (Z.to_nat (last - first + 1)) s first last first n.
Proof.
  intros H. unfold sig_filters. fold start n first last. replace (first =? last) with false by lia. reflexivity.
Qed.

Theorem sig_filters_le : s_be s = false ->
  le_chain (sig_filters s) start /\ total (sig_filters s) = n /\
  Forall (fun f => f_sig f = s_id s) (sig_filters s) /\ sig_filters s <> [].
Proof.
  intros Hbe. pose proof first_le_last as FL. pose proof first_nonneg as FN.
  pose proof start_eq as SE. pose proof t_bound as TB.
  destruct Hok as [H0 [H1 H3]]. fold start n in H0, H1, H3.
  destruct (Z.eq_dec first last) as [E | NE].
  - destruct (single_filter E) as [Es Htn]. rewrite Es.
    split; [|split; [|split]].
    + cbn [le_chain f_byte f_off f_len]. split; [|split; [lia | exact I]].
      unfold good. cbn [f_byte f_off f_len f_mask]. repeat split; lia.
    + cbn [total fold_right f_len]. lia.
    + constructor; [reflexivity | constructor].
    + discriminate.
  - rewrite sig_filters_multi by lia.
    pose proof (multi_loop_le Hbe ltac:(lia) (Z.to_nat (last - first + 1)) first ltac:(lia) ltac:(lia)) as H.
    cbv zeta in H. rewrite Z.eqb_refl in H. replace (start + n - start) with n in H by lia. exact H.
Qed.

Theorem sig_filters_be : s_be s = true -> d08 s = false ->
  be_chain (sig_filters s) start /\ total (sig_filters s) = n /\
  Forall (fun f => f_sig f = s_id s) (sig_filters s) /\ sig_filters s <> [].
Proof.
  intros Hbe Hd. pose proof first_le_last as FL. pose proof first_nonneg as FN.
  pose proof start_eq as SE. pose proof t_bound as TB.
  destruct Hok as [H0 [H1 H3]]. fold start n in H0, H1, H3.
  destruct (Z.eq_dec first last) as [E | NE].
  - destruct (single_filter E) as [Es Htn]. rewrite Es.
    assert (Sym : 2 * t + n = 8).
    { unfold d08, one_byte, asymmetric in Hd. fold start n first last t in Hd. rewrite Hbe in Hd.
      replace (first =? last) with true in Hd by lia. cbn [andb] in Hd.
      destruct (Z.eqb_spec (2 * t + n) 8); [assumption | discriminate]. }
    split; [|split; [|split]].
    + cbn [be_chain f_byte f_off f_len]. split; [|split; [lia | exact I]].
      unfold good. cbn [f_byte f_off f_len f_mask]. repeat split; lia.
    + cbn [total fold_right f_len]. lia.
    + constructor; [reflexivity | constructor].
    + discriminate.
  - rewrite sig_filters_multi by lia.
    pose proof (multi_loop_be Hbe ltac:(lia) (Z.to_nat (last - first + 1)) first ltac:(lia) ltac:(lia)) as H.
    cbv zeta in H. rewrite Z.eqb_refl in H. replace (start + n - start) with n in H by lia. exact H.
Qed.

(* shape facts that hold for every byte order, the D08 shape included *)
Theorem sig_filters_shape :
  Forall good (sig_filters s) /\ total (sig_filters s) = n /\
  Forall (fun f => f_sig f = s_id s) (sig_filters s) /\ sig_filters s <> [].
Proof.
  assert (CL : forall fs P, le_chain fs P -> Forall good fs).
  { induction fs as [|f tl IH]; intros P H; [constructor|]. destruct H as [G [_ T]]. constructor; [exact G | exact (IH _ T)]. }
  assert (CB : forall fs P, be_chain fs P -> Forall good fs).
  { induction fs as [|f tl IH]; intros P H; [constructor|]. destruct H as [G [_ T]]. constructor; [exact G | exact (IH _ T)]. }
  destruct (s_be s) eqn:Hbe.
  - destruct (Z.eq_dec first last) as [E | NE].
    + destruct (single_filter E) as [Es Htn]. rewrite Es.
      pose proof t_bound as TB. destruct Hok as [H0 [H1 H3]]. fold start n in H0, H1, H3.
      pose proof first_nonneg as FN.
      split; [|split; [|split]].
      * constructor; [|constructor]. unfold good. cbn [f_byte f_off f_len f_mask]. repeat split; lia.
      * cbn [total fold_right f_len]. lia.
      * constructor; [reflexivity | constructor].
      * discriminate.
    + pose proof first_le_last as FL. rewrite sig_filters_multi by lia.
      pose proof (multi_loop_be Hbe ltac:(lia) (Z.to_nat (last - first + 1)) first ltac:(lia) ltac:(lia)) as H.
      cbv zeta in H. rewrite Z.eqb_refl in H. replace (start + n - start) with n in H by lia.
      destruct H as [A [B [C D]]]. split; [exact (CB _ _ A)|]. split; [exact B|]. split; assumption.
  - destruct (sig_filters_le Hbe) as [A [B [C D]]]. split; [exact (CL _ _ A)|]. split; [exact B|]. split; assumption.
Qed.

End OneSignal.

(* ------------------------------------------------------------------ the value of one signal *)
Theorem decode_le_spec size s data :
  sig_ok size s -> narrow s -> s_be s = false -> bytes_ok data ->
  sig_raw s data = raw_le (s_start s) (s_size s) data.
Proof.
  intros Hok H2 Hbe Hd. unfold narrow in H2. destruct (sig_filters_le size s Hok Hbe) as [Hch [Ht _]].
  destruct Hok as [H0 [H1 H3]].
  unfold sig_raw. rewrite Hbe. apply Z.bits_inj'. intros j Hj.
  rewrite (le_acc_bits data _ (s_start s)) by (try assumption; lia).
  rewrite raw_le_bits by (try assumption; lia).
  rewrite Z.bits_0, Ht. cbn [orb]. replace (0 <=? j) with true by lia. cbn [andb].
  replace (0 + s_size s) with (s_size s) by lia. replace (j - 0) with j by lia. reflexivity.
Qed.

Theorem decode_be_spec size s data :
  sig_ok size s -> narrow s -> s_be s = true -> d08 s = false -> bytes_ok data -> size <= nbits data ->
  sig_raw s data = raw_be (s_start s) (s_size s) data.
Proof.
  intros Hok H2 Hbe Hd8 Hd Hsz. unfold narrow in H2. destruct (sig_filters_be size s Hok Hbe Hd8) as [Hch [Ht _]].
  destruct Hok as [H0 [H1 H3]]. unfold s_end in H3.
  unfold sig_raw. rewrite Hbe. apply Z.bits_inj'. intros j Hj.
  rewrite (be_acc_bits data _ (s_start s) 0 0) by (try assumption; try lia; intros; apply Z.bits_0).
  rewrite raw_be_bits by (try assumption; lia).
  rewrite Ht. destruct (Z.ltb_spec j (s_size s)).
  - cbn [andb]. f_equal. lia.
  - apply Z.bits_0.
Qed.

(* ------------------------------------------------------------------ decode_loop, signal by signal *)
Lemma decode_loop_same be_of data id fs : forall rest raw c acc,
  Forall (fun f => f_sig f = id) fs ->
  decode_loop be_of data (fs ++ rest) (Some id) raw c acc =
  decode_loop be_of data rest (Some id)
    (if be_of id then be_acc data fs raw else le_acc data fs raw c)
    (if be_of id then c else c + total fs) acc.
Proof.
  induction fs as [|f tl IH]; intros rest raw c acc Hall.
  - cbn [app be_acc le_acc total fold_right]. destruct (be_of id); [reflexivity|]. f_equal. lia.
  - inversion Hall as [|? ? Hf Htl]; subst. cbn [app decode_loop].
    rewrite Z.eqb_refl. destruct (be_of (f_sig f)) eqn:B.
    + rewrite IH by assumption. reflexivity.
    + rewrite IH by assumption. cbn [le_acc total fold_right]. f_equal. fold (total tl). lia.
Qed.

Lemma decode_loop_new be_of data id fs : forall rest cur raw c acc,
  Forall (fun f => f_sig f = id) fs -> fs <> [] -> cur <> Some id ->
  decode_loop be_of data (fs ++ rest) cur raw c acc =
  decode_loop be_of data rest (Some id)
    (if be_of id then be_acc data fs 0 else le_acc data fs 0 0)
    (if be_of id then 0 else total fs) (flush cur raw acc).
Proof.
  intros rest cur raw c acc Hall Hne Hcur. destruct fs as [|f tl]; [contradiction|].
  inversion Hall as [|? ? Hf Htl]; subst. cbn [app decode_loop].
  assert (Same : match cur with Some id0 => id0 =? f_sig f | None => false end = false).
  { destruct cur as [id0|]; [|reflexivity]. apply Z.eqb_neq. intros ->. apply Hcur. reflexivity. }
  rewrite Same. destruct (be_of (f_sig f)) eqn:B.
  - rewrite decode_loop_same by assumption. rewrite B. reflexivity.
  - rewrite decode_loop_same by assumption. rewrite B. cbn [le_acc total fold_right]. fold (total tl).
    f_equal.
Qed.

Lemma be_lookup_in l s : NoDup (map s_id l) -> In s l -> be_lookup l (s_id s) = s_be s.
Proof.
  intros Hnd Hin. unfold be_lookup. induction l as [|a tl IH]; [contradiction|].
  cbn [find]. cbn [map] in Hnd. inversion Hnd as [|? ? Hnot Hnd']; subst.
  destruct Hin as [->|Hin].
  - rewrite Z.eqb_refl. reflexivity.
  - destruct (Z.eqb_spec (s_id a) (s_id s)) as [E|NE].
    + exfalso. apply Hnot. rewrite E. apply in_map. exact Hin.
    + apply IH; assumption.
Qed.

Lemma decode_loop_layout size be_of data : forall l cur raw c acc,
  Forall (sig_ok size) l -> NoDup (map s_id l) ->
  (forall s, In s l -> be_of (s_id s) = s_be s) ->
  (forall s, In s l -> cur <> Some (s_id s)) ->
  decode_loop be_of data (gen_filters l) cur raw c acc =
  flush cur raw acc ++ map (fun s => (s_id s, sig_raw s data)) l.
Proof.
  induction l as [|s tl IH]; intros cur raw c acc Hall Hnd Hbe Hcur.
  - cbn [gen_filters flat_map decode_loop map]. rewrite app_nil_r. reflexivity.
  - inversion Hall as [|? ? Hs Htl]; subst. cbn [map] in Hnd. inversion Hnd as [|? ? Hnot Hnd']; subst.
    destruct (sig_filters_shape size s Hs) as [_ [_ [Hsig Hne]]].
    unfold gen_filters. cbn [flat_map]. fold (gen_filters tl).
    rewrite (decode_loop_new be_of data (s_id s)) by (try assumption; apply Hcur; left; reflexivity).
    rewrite IH; try assumption.
    + cbn [flush map]. rewrite <- app_assoc. cbn [app]. f_equal. f_equal. f_equal.
      unfold sig_raw. rewrite Hbe by (left; reflexivity). reflexivity.
    + intros x Hx. apply Hbe. right. exact Hx.
    + intros x Hx E. inversion E as [E']. apply Hnot. rewrite E'. apply in_map. exact Hx.
Qed.

(* Decode, all signals: one entry per signal, in layout order, carrying that signal's value *)
Theorem decode_struct size l data : wf size l ->
  decode_all l data = map (fun s => (s_id s, sig_raw s data)) l.
Proof.
  intros [Hall [_ Hnd]]. unfold decode_all.
  rewrite (decode_loop_layout size); try assumption.
  - reflexivity.
  - intros s Hs. apply be_lookup_in; assumption.
  - intros s _. discriminate.
Qed.

Lemma is_mux_in l s : NoDup (map s_id l) -> In s l ->
  is_mux l (s_id s) = match s_kind s with KMux => true | _ => false end.
Proof.
  intros Hnd Hin. unfold is_mux. induction l as [|a tl IH]; [contradiction|].
  cbn [find]. cbn [map] in Hnd. inversion Hnd as [|? ? Hnot Hnd']; subst.
  destruct Hin as [->|Hin].
  - rewrite Z.eqb_refl. reflexivity.
  - destruct (Z.eqb_spec (s_id a) (s_id s)) as [E|NE].
    + exfalso. apply Hnot. rewrite E. apply in_map. exact Hin.
    + apply IH; assumption.
Qed.

Definition not_mux (s : sigl) : bool := match s_kind s with KMux => false | _ => true end.

(* one result per standard / enum signal, in layout order *)
Theorem decode_order size l data : wf size l ->
  decode l data = map (fun s => (s_id s, sig_raw s data)) (filter not_mux l).
Proof.
  intros Hwf. unfold decode. rewrite (decode_struct size l data Hwf).
  destruct Hwf as [_ [_ Hnd]].
  assert (G : forall l', (forall s, In s l' -> In s l) ->
     filter (fun p : Z * Z => negb (is_mux l (fst p))) (map (fun s => (s_id s, sig_raw s data)) l') =
     map (fun s => (s_id s, sig_raw s data)) (filter not_mux l')).
  { induction l' as [|a tl IH]; intros Hsub; [reflexivity|].
    cbn [map filter fst]. rewrite (is_mux_in l a Hnd) by (apply Hsub; left; reflexivity).
    assert (IH' := IH (fun x Hx => Hsub x (or_intror Hx))).
    unfold not_mux at 1. destruct (s_kind a); cbn [negb map]; rewrite IH'; reflexivity. }
  apply G. intros s Hs. exact Hs.
Qed.

(* ------------------------------------------------------------------ masks *)
Lemma popcount_good f : good f -> popcount8 (f_mask f) = f_len f.
Proof.
  intros [Hb [Ho [Hl [Hol Hm]]]]. rewrite Hm.
  assert (Eo : f_off f = 0 \/ f_off f = 1 \/ f_off f = 2 \/ f_off f = 3 \/ f_off f = 4 \/ f_off f = 5 \/ f_off f = 6 \/ f_off f = 7) by lia.
  assert (El : f_len f = 1 \/ f_len f = 2 \/ f_len f = 3 \/ f_len f = 4 \/ f_len f = 5 \/ f_len f = 6 \/ f_len f = 7 \/ f_len f = 8) by lia.
  destruct Eo as [E|[E|[E|[E|[E|[E|[E|E]]]]]]]; rewrite E in *;
    destruct El as [L|[L|[L|[L|[L|[L|[L|L]]]]]]]; rewrite L in *; try reflexivity; lia.
Qed.

(* the masks of a signal cover exactly its size *)
Theorem masks_cover size s : sig_ok size s ->
  fold_right (fun f a => popcount8 (f_mask f) + a) 0 (sig_filters s) = s_size s.
Proof.
  intros Hok. destruct (sig_filters_shape size s Hok) as [Hg [Ht _]]. rewrite <- Ht.
  clear Ht. revert Hg. generalize (sig_filters s). intros fs.
  induction fs as [|f tl IH]; intros Hg; [reflexivity|].
  inversion Hg as [|? ? Gf Gtl]; subst. cbn [fold_right total]. rewrite (popcount_good f Gf).
  fold (total tl). rewrite (IH Gtl). reflexivity.
Qed.

Lemma le_chain_range fs : forall P f, le_chain fs P -> In f fs ->
  P <= 8 * f_byte f + f_off f /\ 8 * f_byte f + f_off f + f_len f <= P + total fs.
Proof.
  induction fs as [|a tl IH]; intros P f Hch Hin; [contradiction|].
  destruct Hch as [G [HP Htl]]. cbn [total fold_right]. fold (total tl).
  pose proof (total_nonneg_le tl _ Htl). destruct G as [_ [_ [Hl _]]].
  destruct Hin as [->|Hin]; [lia|]. specialize (IH _ _ Htl Hin). lia.
Qed.

Lemma be_chain_range fs : forall Q f, be_chain fs Q -> In f fs ->
  Q <= 8 * f_byte f + (8 - f_off f - f_len f) /\ 8 * f_byte f + (8 - f_off f) <= Q + total fs.
Proof.
  induction fs as [|a tl IH]; intros Q f Hch Hin; [contradiction|].
  destruct Hch as [G [HQ Htl]]. cbn [total fold_right]. fold (total tl).
  pose proof (total_nonneg_be tl _ Htl). destruct G as [_ [_ [Hl _]]].
  destruct Hin as [->|Hin]; [lia|]. specialize (IH _ _ Htl Hin). lia.
Qed.

Lemma good_mask_bit f k : good f -> 0 <= k -> Z.testbit (f_mask f) k = (f_off f <=? k) && (k <? f_off f + f_len f).
Proof.
  intros [Hb [Ho [Hl [Hol Hm]]]] Hk. rewrite Hm, shiftl_bits by lia.
  destruct (Z.leb_spec (f_off f) k); [|reflexivity]. cbn [andb].
  destruct (Z.ltb_spec k (f_off f + f_len f)).
  - apply Z.ones_spec_low. lia.
  - apply Z.ones_spec_high. lia.
Qed.

Lemma sorted_before l : forall a b, sorted (a :: l) -> Forall (fun s => 0 <= s_size s) (a :: l) -> In b l -> s_end a <= s_start b.
Proof.
  induction l as [|x tl IH]; intros a b Hs Hsz Hin; [contradiction|].
  cbn [sorted] in Hs. destruct Hs as [Hax Hrest].
  destruct Hin as [->|Hin]; [exact Hax|].
  inversion Hsz as [|? ? Ha Hsz']; subst. inversion Hsz' as [|? ? Hx Hsz'']; subst.
  assert (s_end x <= s_start b) by (apply IH; [exact Hrest | constructor; assumption | exact Hin]).
  unfold s_end in *. lia.
Qed.

Lemma wf_pairwise size l a b : wf size l -> In a l -> In b l -> s_id a <> s_id b ->
  s_end a <= s_start b \/ s_end b <= s_start a.
Proof.
  intros [Hall [Hs _]] Ha Hb Hne.
  assert (Hsz : Forall (fun s => 0 <= s_size s) l).
  { apply Forall_forall. intros x Hx. rewrite Forall_forall in Hall. destruct (Hall x Hx) as [_ [H _]]. lia. }
  clear Hall. induction l as [|x tl IH]; [contradiction|].
  destruct Ha as [->|Ha], Hb as [->|Hb].
  - contradiction.
  - left. apply (sorted_before tl a b); assumption.
  - right. apply (sorted_before tl b a); assumption.
  - apply IH; try assumption.
    + cbn [sorted] in Hs. tauto.
    + inversion Hsz; assumption.
Qed.

(* two filters of different signals on one byte never share a payload bit (layout of one byte
   order without the D08 shape) *)
Theorem masks_disjoint size be l a b f g :
  wf size l -> uniform be l -> d08 a = false -> d08 b = false ->
  In a l -> In b l -> s_id a <> s_id b ->
  In f (sig_filters a) -> In g (sig_filters b) -> f_byte f = f_byte g ->
  Z.land (f_mask f) (f_mask g) = 0.
Proof.
  intros Hwf Hu Hda Hdb Ha Hb Hne Hf Hg Hbyte.
  pose proof (wf_pairwise size l a b Hwf Ha Hb Hne) as Hdis.
  destruct Hwf as [Hall _]. unfold uniform in Hu. rewrite Forall_forall in Hall, Hu.
  pose proof (Hall a Ha) as Oa. pose proof (Hall b Hb) as Ob.
  destruct (sig_filters_shape size a Oa) as [Ga [Ta _]]. destruct (sig_filters_shape size b Ob) as [Gb [Tb _]].
  rewrite Forall_forall in Ga, Gb. pose proof (Ga f Hf) as Gf. pose proof (Gb g Hg) as Gg.
  apply Z.bits_inj'. intros k Hk. rewrite Z.land_spec, Z.bits_0.
  rewrite good_mask_bit by assumption. rewrite good_mask_bit by assumption.
  destruct ((f_off f <=? k) && (k <? f_off f + f_len f)) eqn:Bf; [|reflexivity].
  destruct ((f_off g <=? k) && (k <? f_off g + f_len g)) eqn:Bg; [|reflexivity].
  exfalso. unfold s_end in Hdis.
  destruct be.
  - destruct (sig_filters_be size a Oa (Hu a Ha) Hda) as [Ca _].
    destruct (sig_filters_be size b Ob (Hu b Hb) Hdb) as [Cb _].
    pose proof (be_chain_range _ _ f Ca Hf) as Rf. pose proof (be_chain_range _ _ g Cb Hg) as Rg.
    rewrite Ta in Rf. rewrite Tb in Rg. lia.
  - destruct (sig_filters_le size a Oa (Hu a Ha)) as [Ca _].
    destruct (sig_filters_le size b Ob (Hu b Hb)) as [Cb _].
    pose proof (le_chain_range _ _ f Ca Hf) as Rf. pose proof (le_chain_range _ _ g Cb Hg) as Rg.
    rewrite Ta in Rf. rewrite Tb in Rg. lia.
Qed.

(* ------------------------------------------------------------------ the D08 zone, specified *)
(* what the code does for a big-endian signal that fits in one byte (the single-byte branch does
   not look at the byte order): it reads the signal exactly as a little-endian signal at the same
   start, i.e. with the LSB-anchored offset start%8 *)
Lemma part_lt data f : bytes_ok data -> good f -> 0 <= part data f < 2 ^ f_len f.
Proof.
  intros Hd G. pose proof (part_nonneg data f Hd G) as NN. split; [exact NN|].
  pose proof G as [_ [_ [Hl _]]].
  destruct (Z_lt_le_dec (part data f) (2 ^ f_len f)) as [L|L]; [exact L|exfalso].
  assert (Pos : 0 < part data f) by (pose proof (Z.pow_pos_nonneg 2 (f_len f)); lia).
  pose proof (Z.bit_log2 (part data f) Pos) as B.
  assert (LG : f_len f <= Z.log2 (part data f)) by (apply Z.log2_le_pow2; lia).
  rewrite (part_bits data f _ G) in B by lia.
  replace (Z.log2 (part data f) <? f_len f) with false in B by lia. discriminate.
Qed.

Lemma be_acc_single data f : be_acc data [f] 0 = part data f.
Proof.
  cbn [be_acc]. rewrite Z.shiftl_0_l. unfold wrap64. rewrite Z.mod_0_l by (apply Z.pow_nonzero; lia).
  apply Z.lor_0_l.
Qed.

Lemma le_acc_single data f : bytes_ok data -> good f -> le_acc data [f] 0 0 = part data f.
Proof.
  intros Hd G. cbn [le_acc]. rewrite Z.lor_0_l, Z.shiftl_0_r. unfold wrap64. apply Z.mod_small.
  pose proof (part_lt data f Hd G) as P. pose proof G as [_ [Ho [Hl [Hol _]]]].
  split; [lia|]. apply Z.lt_le_trans with (2 ^ f_len f); [lia|]. apply Z.pow_le_mono_r; lia.
Qed.

Theorem decode_be_one_byte_spec size s data :
  sig_ok size s -> s_be s = true -> one_byte s = true -> bytes_ok data ->
  sig_raw s data = raw_le (s_start s) (s_size s) data.
Proof.
  intros Hok Hbe H1 Hd.
  set (s' := mkSig (s_id s) (s_start s) (s_size s) false (s_kind s)).
  assert (Hok' : sig_ok size s') by exact Hok.
  change (raw_le (s_start s) (s_size s) data) with (raw_le (s_start s') (s_size s') data).
  assert (N8 : narrow s').
  { unfold narrow. cbn [s_size s']. destruct (single_filter size s Hok (proj1 (Z.eqb_eq _ _) H1)) as [_ X]. pose proof (mod8_bound (s_start s)). lia. }
  rewrite <- (decode_le_spec size s' data Hok' N8 eq_refl Hd).
  assert (E : s_start s / 8 = (s_start s + s_size s - 1) / 8).
  { unfold one_byte in H1. destruct (Z.eqb_spec (s_start s / 8) ((s_start s + s_size s - 1) / 8)); [assumption|discriminate]. }
  destruct (single_filter size s Hok E) as [F T8]. destruct (single_filter size s' Hok' E) as [F' _].
  unfold sig_raw. rewrite Hbe, F. cbn [s_be s']. rewrite F'. cbn [s_id s_start s_size s'].
  rewrite be_acc_single. rewrite le_acc_single; [reflexivity | exact Hd |].
  destruct Hok as [H0 [Hs1 H3]]. pose proof (mod8_bound (s_start s)) as TB.
  unfold good. cbn [f_byte f_off f_len f_mask]. repeat split; try lia. apply Z.div_pos; lia.
Qed.

Lemma byte_at_repeat b x : byte_at (repeat 0 b ++ [x]) (Z.of_nat b) = x.
Proof.
  unfold byte_at. rewrite Nat2Z.id. rewrite app_nth2 by (rewrite repeat_length; lia).
  rewrite repeat_length. replace (b - b)%nat with O by lia. reflexivity.
Qed.

(* every excluded shape really is wrong: for each big-endian one-byte asymmetric placement there
   is a payload on which the decoded value differs from the payload bits of the Motorola reading *)
Theorem decode_be_one_byte_refuted_all size s :
  sig_ok size s -> d08 s = true ->
  exists data, bytes_ok data /\ s_end s <= nbits data /\
               sig_raw s data <> raw_be (s_start s) (s_size s) data.
Proof.
  intros Hok Hd. unfold d08 in Hd. apply andb_prop in Hd. destruct Hd as [Hd Hasym].
  apply andb_prop in Hd. destruct Hd as [Hbe H1].
  pose proof Hok as [H0 [Hs1 H3]].
  set (t := s_start s mod 8). set (b := s_start s / 8).
  pose proof (mod8_bound (s_start s)) as TB. fold t in TB. pose proof (div8_eq (s_start s)) as SE. fold t b in SE.
  assert (Hb : 0 <= b) by (apply Z.div_pos; lia).
  assert (E : b = (s_start s + s_size s - 1) / 8).
  { unfold one_byte in H1. destruct (Z.eqb_spec (s_start s / 8) ((s_start s + s_size s - 1) / 8)); [assumption|discriminate]. }
  assert (T8 : t + s_size s <= 8).
  { pose proof (div8_eq (s_start s + s_size s - 1)) as E2. pose proof (mod8_bound (s_start s + s_size s - 1)). rewrite <- E in E2. lia. }
  assert (Asym : 2 * t + s_size s <> 8).
  { unfold asymmetric in Hasym. fold t in Hasym. destruct (Z.eqb_spec (2 * t + s_size s) 8); [discriminate | assumption]. }
  set (data := repeat 0 (Z.to_nat b) ++ [2 ^ t]).
  assert (Hlen : nbits data = 8 * (b + 1)).
  { unfold nbits, data. rewrite app_length, repeat_length. cbn [length]. lia. }
  assert (Hbytes : bytes_ok data).
  { unfold bytes_ok, data. apply Forall_app. split.
    - apply Forall_forall. intros x Hx. apply repeat_spec in Hx. subst x. lia.
    - constructor; [|constructor]. split; [apply Z.pow_nonneg; lia|].
      change 256 with (2 ^ 8). apply Z.pow_lt_mono_r; lia. }
  assert (Hbyte : byte_at data b = 2 ^ t).
  { unfold data. rewrite <- (Z2Nat.id b) at 2 by exact Hb. apply byte_at_repeat. }
  exists data. split; [exact Hbytes|]. split; [unfold s_end; lia|].
  rewrite (decode_be_one_byte_spec size s data Hok Hbe H1 Hbytes).
  intros Heq.
  (* bit 0: set in the LSB-anchored reading, clear in the Motorola reading *)
  assert (B0 : Z.testbit (raw_le (s_start s) (s_size s) data) 0 = true).
  { rewrite raw_le_bits by (try assumption; lia). replace (0 <? s_size s) with true by lia. cbn [andb].
    unfold payload_bit. replace (s_start s + 0) with (s_start s) by lia. fold b t. rewrite Hbyte.
    apply Z.pow2_bits_true. lia. }
  assert (B1 : Z.testbit (raw_be (s_start s) (s_size s) data) 0 = false).
  { rewrite raw_be_bits by (try assumption; lia). replace (0 <? s_size s) with true by lia. cbn [andb].
    unfold mbit.
    destruct (divmod8 (s_start s + s_size s - 1 - 0) b (t + s_size s - 1) ltac:(lia) ltac:(lia)) as [D M].
    rewrite D, M, Hbyte. apply Z.pow2_bits_false. lia. }
  rewrite Heq in B0. congruence.
Qed.

(* ------------------------------------------------------------------ every mask lies inside the payload *)
Theorem filters_inside size s f : sig_ok size s -> In f (sig_filters s) ->
  0 <= f_byte f /\ 8 * f_byte f < size.
Proof.
  intros Hok Hf. pose proof Hok as [H0 [H1 H3]]. unfold s_end in H3.
  destruct (sig_filters_shape size s Hok) as [Gs [Ts _]]. rewrite Forall_forall in Gs.
  pose proof (Gs f Hf) as [Gb [Go [Gl [Gol _]]]]. split; [exact Gb|].
  destruct (s_be s) eqn:Hbe.
  - destruct (d08 s) eqn:Hd.
    + (* one byte: the filter sits in byte start/8 *)
      unfold d08 in Hd. rewrite Hbe in Hd. cbn [andb] in Hd. apply andb_prop in Hd. destruct Hd as [Ho _].
      destruct (single_filter size s Hok (proj1 (Z.eqb_eq _ _) Ho)) as [E _]. rewrite E in Hf.
      destruct Hf as [<-|[]]. cbn [f_byte]. pose proof (div8_eq (s_start s)). pose proof (mod8_bound (s_start s)). lia.
    + destruct (sig_filters_be size s Hok Hbe Hd) as [Ch _].
      pose proof (be_chain_range _ _ f Ch Hf) as R. rewrite Ts in R. lia.
  - destruct (sig_filters_le size s Hok Hbe) as [Ch _].
    pose proof (le_chain_range _ _ f Ch Hf) as R. rewrite Ts in R. lia.
Qed.

Theorem gen_filters_inside size l f : Forall (sig_ok size) l -> In f (gen_filters l) ->
  0 <= f_byte f /\ 8 * f_byte f < size.
Proof.
  intros Hall Hf. unfold gen_filters in Hf. apply in_flat_map in Hf. destruct Hf as [s [Hs Hin]].
  rewrite Forall_forall in Hall. exact (filters_inside size s f (Hall s Hs) Hin).
Qed.

(* the raw value of a signal of at most 64 bits is a number of exactly that many bits: it is the
   `raw` the C03 decoding theorems take (0 <= raw < 2^n) *)
Theorem sig_raw_range size s data :
  sig_ok size s -> narrow s -> bytes_ok data -> size <= nbits data ->
  0 <= sig_raw s data < 2 ^ s_size s.
Proof.
  intros Hok Hn Hd Hsz. pose proof Hok as [H0 [H1 H3]].
  assert (P : 0 < 2 ^ s_size s) by (apply Z.pow_pos_nonneg; lia).
  destruct (s_be s) eqn:Hbe.
  - destruct (one_byte s) eqn:Ho.
    + rewrite (decode_be_one_byte_spec size s data Hok Hbe Ho Hd). unfold raw_le. apply Z.mod_pos_bound. exact P.
    + assert (D : d08 s = false) by (unfold d08; rewrite Ho; rewrite andb_false_r; reflexivity).
      rewrite (decode_be_spec size s data Hok Hn Hbe D Hd Hsz). unfold raw_be. apply Z.mod_pos_bound. exact P.
  - rewrite (decode_le_spec size s data Hok Hn Hbe Hd). unfold raw_le. apply Z.mod_pos_bound. exact P.
Qed.

(* ------------------------------------------------------------------ the D08 shape, refuted *)
Definition d08_witness : sigl := mkSig 0 1 3 true KStandard.

Theorem decode_be_one_byte_refuted :
  exists s data, sig_ok 8 s /\ s_be s = true /\ d08 s = true /\ bytes_ok data /\ 8 <= nbits data /\
    sig_raw s data = 0 /\ raw_be (s_start s) (s_size s) data = 7.
Proof.
  exists d08_witness, [112]. repeat split; try (vm_compute; congruence).
  repeat constructor; lia.
Qed.

Theorem masks_disjoint_refuted :
  exists l a b f g, wf 16 l /\ uniform true l /\ In a l /\ In b l /\ s_id a <> s_id b /\
    In f (sig_filters a) /\ In g (sig_filters b) /\ f_byte f = f_byte g /\
    Z.land (f_mask f) (f_mask g) <> 0.
Proof.
  set (a := mkSig 0 0 2 true KStandard). set (b := mkSig 1 2 8 true KStandard).
  exists [a; b], a, b, (mkF 0 0 3 2 0), (mkF 1 0 63 6 0).
  repeat split;
    first [ solve [vm_compute; intuition congruence]
          | solve [repeat constructor; vm_compute; intuition congruence]
          | solve [left; reflexivity]
          | solve [right; left; reflexivity]
          | solve [vm_compute; left; reflexivity]
          | solve [vm_compute; right; left; reflexivity] ].
Qed.

(* satisfiability of the hypotheses of decode_be_spec / masks_disjoint: a symmetric one-byte
   signal and a multi-byte signal, big endian *)
Example be_hypotheses_satisfiable :
  let a := mkSig 0 2 4 true KStandard in
  let b := mkSig 1 13 20 true KEnum in
  wf 40 [a; b] /\ uniform true [a; b] /\ Forall (fun s => d08 s = false) [a; b] /\
  sig_raw a [60; 0; 0; 0; 0] = 15 /\ raw_be 2 4 [60; 0; 0; 0; 0] = 15 /\
  sig_raw b [0; 7; 255; 255; 128] = 1048575 /\ raw_be 13 20 [0; 7; 255; 255; 128] = 1048575.
Proof.
  cbv zeta. repeat split;
    first [ solve [vm_compute; intuition congruence]
          | solve [repeat constructor; vm_compute; intuition congruence] ].
Qed.

Example le_hypotheses_satisfiable :
  let a := mkSig 0 5 12 false KStandard in
  sig_ok 64 a /\ sig_raw a [224; 255; 1; 0; 0; 0; 0; 0] = 4095 /\ raw_le 5 12 [224; 255; 1; 0; 0; 0; 0; 0] = 4095.
Proof. cbv zeta. repeat split; vm_compute; intuition congruence. Qed.
