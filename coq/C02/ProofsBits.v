(* C02 — proofs, part 1: the saw-tooth arithmetic and the bits of the payload numbers. *)
From Coq Require Import ZArith List Bool Lia.
From Acme.C02 Require Import Model Spec.
Import ListNotations.
Local Open Scope Z_scope.

(* ------------------------------------------------------------------ div / mod by 8 *)
Lemma divmod8 a q r : 0 <= r < 8 -> a = 8 * q + r -> a / 8 = q /\ a mod 8 = r.
Proof.
  intros Hr E. split.
  - symmetry. apply Z.div_unique with (r := r); lia.
  - symmetry. apply Z.mod_unique with (q := q); lia.
Qed.

Lemma mod8_bound a : 0 <= a mod 8 < 8.
Proof. apply Z.mod_pos_bound. reflexivity. Qed.

Lemma div8_eq a : a = 8 * (a / 8) + a mod 8.
Proof. apply Z.div_mod. discriminate. Qed.

(* ------------------------------------------------------------------ dbc_of_pos, walk *)
Lemma dbc_of_pos_divmod p : (dbc_of_pos p) / 8 = p / 8 /\ (dbc_of_pos p) mod 8 = 7 - p mod 8.
Proof.
  unfold dbc_of_pos. pose proof (mod8_bound p) as B. pose proof (div8_eq p) as E.
  apply divmod8; lia.
Qed.

Theorem dbc_of_pos_involutive p : dbc_of_pos (dbc_of_pos p) = p.
Proof.
  destruct (dbc_of_pos_divmod p) as [_ M]. unfold dbc_of_pos at 1. rewrite M.
  unfold dbc_of_pos. lia.
Qed.

(* one step along the Motorola saw-tooth *)
Theorem sawtooth_step p : dbc_of_pos (p + 1) = walk (dbc_of_pos p).
Proof.
  destruct (dbc_of_pos_divmod p) as [_ M]. unfold walk. rewrite M.
  pose proof (mod8_bound p) as B. pose proof (div8_eq p) as E.
  unfold dbc_of_pos.
  destruct (Z.eqb_spec (7 - p mod 8) 0) as [H7 | H7].
  - (* p mod 8 = 7: next byte, bit 7 *)
    assert (X : (p + 1) mod 8 = 0).
    { apply (divmod8 (p + 1) (p / 8 + 1) 0); lia. }
    rewrite X. lia.
  - assert (X : (p + 1) mod 8 = p mod 8 + 1).
    { apply (divmod8 (p + 1) (p / 8) (p mod 8 + 1)); lia. }
    rewrite X. lia.
Qed.

Lemma payload_bit_dbc data q : payload_bit data (dbc_of_pos q) = mbit data q.
Proof.
  unfold payload_bit, mbit. destruct (dbc_of_pos_divmod q) as [D M]. rewrite D, M. reflexivity.
Qed.

(* ------------------------------------------------------------------ generic bit facts *)
Lemma testbit_small b k : 0 <= b < 2 ^ k -> forall j, k <= j -> Z.testbit b j = false.
Proof.
  intros Hb j Hj. destruct (Z_lt_le_dec k 0) as [Hk | Hk].
  - rewrite Z.pow_neg_r in Hb by lia. lia.
  - apply Z.testbit_false; [lia|]. rewrite Z.div_small; [reflexivity|].
    split; [lia|]. apply Z.lt_le_trans with (2 ^ k); [lia|]. apply Z.pow_le_mono_r; lia.
Qed.

Lemma land_low_high b X k : 0 <= k -> 0 <= b < 2 ^ k -> Z.land b (Z.shiftl X k) = 0.
Proof.
  intros Hk Hb. apply Z.bits_inj'. intros i Hi. rewrite Z.land_spec, Z.bits_0.
  destruct (Z_lt_le_dec i k).
  - rewrite Z.shiftl_spec_low by assumption. apply andb_false_r.
  - rewrite (testbit_small b k Hb i) by assumption. reflexivity.
Qed.

Lemma add_shift_bits b X k j : 0 <= k -> 0 <= b < 2 ^ k -> 0 <= j ->
  Z.testbit (b + 2 ^ k * X) j = if j <? k then Z.testbit b j else Z.testbit X (j - k).
Proof.
  intros Hk Hb Hj.
  replace (2 ^ k * X) with (Z.shiftl X k) by (rewrite Z.shiftl_mul_pow2 by lia; ring).
  rewrite Z.add_nocarry_lxor by (apply land_low_high; assumption).
  rewrite Z.lxor_lor by (apply land_low_high; assumption).
  rewrite Z.lor_spec. destruct (Z.ltb_spec j k).
  - rewrite Z.shiftl_spec_low by assumption. apply orb_false_r.
  - rewrite (testbit_small b k Hb j) by assumption. rewrite Z.shiftl_spec by assumption. reflexivity.
Qed.

(* ------------------------------------------------------------------ bits of LE / BE *)
Lemma byte_at_cons_0 b tl : byte_at (b :: tl) 0 = b.
Proof. reflexivity. Qed.

Lemma byte_at_cons_S b tl i : 1 <= i -> byte_at (b :: tl) i = byte_at tl (i - 1).
Proof.
  intros Hi. unfold byte_at. replace (Z.to_nat i) with (S (Z.to_nat (i - 1))) by lia. reflexivity.
Qed.

Lemma byte_at_beyond data i : Z.of_nat (length data) <= i -> byte_at data i = 0.
Proof. intros H. unfold byte_at. apply nth_overflow. lia. Qed.

Lemma byte_at_neg data i : i < 0 -> byte_at data i = byte_at data 0.
Proof. intros H. unfold byte_at. replace (Z.to_nat i) with O by lia. reflexivity. Qed.

Lemma LE_nonneg data : bytes_ok data -> 0 <= LE data.
Proof.
  induction data as [|b tl IH]; intros H; cbn [LE fold_right]; [lia|].
  inversion H; subst. specialize (IH H3). fold (LE tl). lia.
Qed.

Theorem LE_bits data : bytes_ok data -> forall k, 0 <= k -> Z.testbit (LE data) k = payload_bit data k.
Proof.
  induction data as [|b tl IH]; intros Hok k Hk.
  - cbn [LE fold_right]. rewrite Z.bits_0. unfold payload_bit, byte_at.
    destruct (Z.to_nat (k / 8)); cbn; rewrite Z.bits_0; reflexivity.
  - inversion Hok as [|? ? Hb Htl]; subst. cbn [LE fold_right]. fold (LE tl).
    change 256 with (2 ^ 8). rewrite add_shift_bits by lia.
    unfold payload_bit. destruct (Z.ltb_spec k 8) as [Hlt | Hge].
    + destruct (divmod8 k 0 k ltac:(lia) ltac:(lia)) as [D M]. rewrite D, M. reflexivity.
    + rewrite (IH Htl (k - 8)) by lia. unfold payload_bit.
      pose proof (mod8_bound (k - 8)) as B. pose proof (div8_eq (k - 8)) as E.
      destruct (divmod8 k ((k - 8) / 8 + 1) ((k - 8) mod 8) B ltac:(lia)) as [D M].
      rewrite D, M. rewrite byte_at_cons_S.
      * replace ((k - 8) / 8 + 1 - 1) with ((k - 8) / 8) by lia. reflexivity.
      * assert (0 <= (k - 8) / 8) by (apply Z.div_pos; lia). lia.
Qed.

Lemma bytes_ok_rev data : bytes_ok data -> bytes_ok (rev data).
Proof.
  unfold bytes_ok. intros H. apply Forall_forall. intros x Hx. rewrite <- in_rev in Hx.
  rewrite Forall_forall in H. apply H. exact Hx.
Qed.

Lemma byte_at_rev data i : 0 <= i < Z.of_nat (length data) ->
  byte_at (rev data) i = byte_at data (Z.of_nat (length data) - 1 - i).
Proof.
  intros Hi. unfold byte_at. rewrite rev_nth by lia. f_equal. lia.
Qed.

(* BE bit k (k < 8 n) is the bit at MSB-first position 8n - 1 - k *)
Theorem BE_bits data : bytes_ok data -> forall k, 0 <= k < nbits data ->
  Z.testbit (BE data) k = mbit data (nbits data - 1 - k).
Proof.
  intros Hok k Hk. unfold BE. rewrite LE_bits by (try apply bytes_ok_rev; try lia; assumption).
  unfold payload_bit, mbit, nbits in *.
  set (n := Z.of_nat (length data)) in *.
  pose proof (mod8_bound k) as B. pose proof (div8_eq k) as E.
  assert (Hd : 0 <= k / 8 < n).
  { split; [apply Z.div_pos; lia|]. apply Z.div_lt_upper_bound; lia. }
  rewrite byte_at_rev by (fold n; exact Hd). fold n.
  destruct (divmod8 (8 * n - 1 - k) (n - 1 - k / 8) (7 - k mod 8) ltac:(lia) ltac:(lia)) as [D M].
  rewrite D, M. f_equal. lia.
Qed.

(* ------------------------------------------------------------------ bits of raw_le / raw_be *)
Lemma slice_bits D s l i : 0 <= s -> 0 <= l -> 0 <= i ->
  Z.testbit ((D / 2 ^ s) mod 2 ^ l) i = (i <? l) && Z.testbit D (s + i).
Proof.
  intros Hs Hl Hi. destruct (Z.ltb_spec i l).
  - rewrite Z.mod_pow2_bits_low by lia. rewrite Z.div_pow2_bits by lia. cbn [andb]. f_equal. lia.
  - rewrite Z.mod_pow2_bits_high by lia. reflexivity.
Qed.

Theorem raw_le_bits start len data i : bytes_ok data -> 0 <= start -> 0 <= len -> 0 <= i ->
  Z.testbit (raw_le start len data) i = (i <? len) && payload_bit data (start + i).
Proof.
  intros Hok Hs Hl Hi. unfold raw_le. rewrite slice_bits by assumption.
  rewrite LE_bits by (try assumption; lia). reflexivity.
Qed.

Theorem raw_be_bits pos len data i : bytes_ok data -> 0 <= pos -> 0 <= len -> pos + len <= nbits data ->
  0 <= i -> Z.testbit (raw_be pos len data) i = (i <? len) && mbit data (pos + len - 1 - i).
Proof.
  intros Hok Hp Hl Hfit Hi. unfold raw_be. rewrite slice_bits by lia.
  destruct (Z.ltb_spec i len); [|reflexivity]. cbn [andb].
  rewrite BE_bits by (try assumption; lia). f_equal. lia.
Qed.

(* the Motorola rule: the i-th bit of a big-endian signal, counted from its most significant
   bit, is the payload bit (DBC numbering) reached by i saw-tooth steps from the start bit *)
Theorem be_sawtooth pos len data (i : nat) : bytes_ok data -> 0 <= pos -> pos + len <= nbits data ->
  Z.of_nat i < len ->
  Z.testbit (raw_be pos len data) (len - 1 - Z.of_nat i) =
  payload_bit data (Nat.iter i walk (dbc_of_pos pos)).
Proof.
  intros Hok Hp Hfit Hi.
  rewrite raw_be_bits by (try assumption; lia).
  replace (len - 1 - Z.of_nat i <? len) with true by lia. cbn [andb].
  replace (pos + len - 1 - (len - 1 - Z.of_nat i)) with (pos + Z.of_nat i) by lia.
  rewrite <- payload_bit_dbc. f_equal.
  clear. induction i as [|i IH].
  - cbn. f_equal. lia.
  - change (Nat.iter (S i) walk (dbc_of_pos pos)) with (walk (Nat.iter i walk (dbc_of_pos pos))).
    rewrite <- IH. rewrite <- sawtooth_step. f_equal. lia.
Qed.

Theorem le_bit_order start len data i : bytes_ok data -> 0 <= start -> 0 <= i < len ->
  Z.testbit (raw_le start len data) i = payload_bit data (start + i).
Proof.
  intros Hok Hs Hi. rewrite raw_le_bits by (try assumption; lia).
  replace (i <? len) with true by lia. reflexivity.
Qed.
