(* C02 — proofs, part 2: shape of the generated filters (chains of aligned chunks) and the
   bits accumulated from a chain. *)
From Coq Require Import ZArith List Bool Lia.
From Acme.C02 Require Import Model Spec ProofsBits.
Import ListNotations.
Local Open Scope Z_scope.

(* a filter whose mask is `len` ones starting at bit `off` of its byte *)
Definition good (f : lfilter) : Prop :=
  0 <= f_byte f /\ 0 <= f_off f /\ 1 <= f_len f /\ f_off f + f_len f <= 8 /\
  f_mask f = Z.shiftl (Z.ones (f_len f)) (f_off f).

Definition total (fs : list lfilter) : Z := fold_right (fun f a => f_len f + a) 0 fs.

(* little endian: consecutive chunks of payload bits (LSB0 numbering) starting at P *)
Fixpoint le_chain (fs : list lfilter) (P : Z) : Prop :=
  match fs with
  | [] => True
  | f :: tl => good f /\ 8 * f_byte f + f_off f = P /\ le_chain tl (P + f_len f)
  end.

(* big endian: consecutive chunks of MSB-first positions starting at Q *)
Fixpoint be_chain (fs : list lfilter) (Q : Z) : Prop :=
  match fs with
  | [] => True
  | f :: tl => good f /\ 8 * f_byte f + (8 - f_off f - f_len f) = Q /\ be_chain tl (Q + f_len f)
  end.

Lemma total_nonneg_le fs P : le_chain fs P -> 0 <= total fs.
Proof.
  revert P. induction fs as [|f tl IH]; intros P H; cbn [total fold_right]; [lia|].
  destruct H as [[_ [_ [Hl _]]] [_ Ht]]. specialize (IH _ Ht). fold (total tl). lia.
Qed.

Lemma total_nonneg_be fs Q : be_chain fs Q -> 0 <= total fs.
Proof.
  revert Q. induction fs as [|f tl IH]; intros Q H; cbn [total fold_right]; [lia|].
  destruct H as [[_ [_ [Hl _]]] [_ Ht]]. specialize (IH _ Ht). fold (total tl). lia.
Qed.

(* ------------------------------------------------------------------ one filter *)
Lemma part_bits data f j : good f -> 0 <= j ->
  Z.testbit (part data f) j = (j <? f_len f) && Z.testbit (byte_at data (f_byte f)) (j + f_off f).
Proof.
  intros [Hb [Ho [Hl [Hol Hm]]]] Hj. unfold part.
  rewrite Z.shiftr_spec by exact Hj. rewrite Z.land_spec, Hm.
  rewrite Z.shiftl_spec by lia. replace (j + f_off f - f_off f) with j by lia.
  destruct (Z.ltb_spec j (f_len f)).
  - rewrite Z.ones_spec_low by lia. rewrite andb_true_r. reflexivity.
  - rewrite Z.ones_spec_high by lia. rewrite andb_false_r. reflexivity.
Qed.

Lemma part_nonneg data f : bytes_ok data -> good f -> 0 <= part data f.
Proof.
  intros Hok [Hb [Ho [Hl [Hol Hm]]]]. unfold part. apply Z.shiftr_nonneg. apply Z.land_nonneg. right.
  rewrite Hm. apply Z.shiftl_nonneg. rewrite Z.ones_equiv.
  pose proof (Z.pow_pos_nonneg 2 (f_len f)). lia.
Qed.

Lemma wrap64_bits x j : 0 <= j -> Z.testbit (wrap64 x) j = (j <? 64) && Z.testbit x j.
Proof.
  intros Hj. unfold wrap64. destruct (Z.ltb_spec j 64).
  - rewrite Z.mod_pow2_bits_low by lia. reflexivity.
  - rewrite Z.mod_pow2_bits_high by lia. reflexivity.
Qed.

Lemma shiftl_bits a n j : 0 <= n -> 0 <= j -> Z.testbit (Z.shiftl a n) j = (n <=? j) && Z.testbit a (j - n).
Proof.
  intros Hn Hj. destruct (Z.leb_spec n j).
  - rewrite Z.shiftl_spec by lia. reflexivity.
  - rewrite Z.shiftl_spec_low by lia. reflexivity.
Qed.

(* ------------------------------------------------------------------ little-endian accumulation *)
Lemma chunk_le_bit data f j : good f -> 0 <= j < f_len f ->
  Z.testbit (byte_at data (f_byte f)) (j + f_off f) = payload_bit data (8 * f_byte f + f_off f + j).
Proof.
  intros [Hb [Ho [Hl [Hol Hm]]]] Hj. unfold payload_bit.
  destruct (divmod8 (8 * f_byte f + f_off f + j) (f_byte f) (f_off f + j) ltac:(lia) ltac:(lia)) as [D M].
  rewrite D, M. f_equal. lia.
Qed.

Theorem le_acc_bits data fs : forall P raw c j,
  le_chain fs P -> 0 <= c -> c + total fs <= 64 -> 0 <= j ->
  Z.testbit (le_acc data fs raw c) j =
  Z.testbit raw j || ((c <=? j) && (j <? c + total fs) && payload_bit data (P + (j - c))).
Proof.
  induction fs as [|f tl IH]; intros P raw c j Hch Hc Hfit Hj; cbn [le_acc total fold_right].
  - replace ((c <=? j) && (j <? c + 0)) with false by lia. cbn [andb]. rewrite orb_false_r. reflexivity.
  - cbn [total fold_right] in Hfit. fold (total tl) in *. destruct Hch as [Hg [HP Htl]].
    pose proof (total_nonneg_le tl _ Htl) as Tn.
    assert (Hlen : 1 <= f_len f) by (destruct Hg as [_ [_ [H _]]]; exact H).
    rewrite (IH (P + f_len f)) by (try assumption; lia).
    rewrite Z.lor_spec, wrap64_bits, shiftl_bits by lia.
    rewrite <- orb_assoc. f_equal.
    destruct (Z.leb_spec c j) as [Hcj | Hcj].
    + rewrite part_bits by (try assumption; lia).
      destruct (Z.ltb_spec (j - c) (f_len f)) as [Hin | Hout].
      * (* bit of this chunk *)
        rewrite chunk_le_bit by (try assumption; lia).
        replace (j <? 64) with true by lia.
        replace (c + f_len f <=? j) with false by lia.
        replace (j <? c + (f_len f + total tl)) with true by lia.
        cbn [andb orb]. rewrite orb_false_r. f_equal. lia.
      * replace (c + f_len f <=? j) with true by lia.
        replace (j <? c + f_len f + total tl) with (j <? c + (f_len f + total tl)) by (f_equal; lia).
        cbn [andb orb]. rewrite andb_false_r. cbn [orb].
        replace (P + f_len f + (j - (c + f_len f))) with (P + (j - c)) by lia. reflexivity.
    + replace (c + f_len f <=? j) with false by lia. cbn [andb]. rewrite andb_false_r. reflexivity.
Qed.

(* ------------------------------------------------------------------ big-endian accumulation *)
Lemma chunk_be_bit data f j : good f -> 0 <= j < f_len f ->
  Z.testbit (byte_at data (f_byte f)) (j + f_off f) =
  mbit data (8 * f_byte f + (8 - f_off f - f_len f) + (f_len f - 1 - j)).
Proof.
  intros [Hb [Ho [Hl [Hol Hm]]]] Hj. unfold mbit.
  destruct (divmod8 (8 * f_byte f + (8 - f_off f - f_len f) + (f_len f - 1 - j)) (f_byte f) (7 - f_off f - j)
                    ltac:(lia) ltac:(lia)) as [D M].
  rewrite D, M. f_equal. lia.
Qed.

Theorem be_acc_bits data fs : forall Q raw w j,
  bytes_ok data -> be_chain fs Q -> 0 <= raw -> 0 <= w -> (forall i, w <= i -> Z.testbit raw i = false) ->
  w + total fs <= 64 -> 0 <= j ->
  Z.testbit (be_acc data fs raw) j =
  if j <? total fs then mbit data (Q + (total fs - 1 - j)) else Z.testbit raw (j - total fs).
Proof.
  induction fs as [|f tl IH]; intros Q raw w j Hok Hch Hraw Hw Hhi Hfit Hj; cbn [be_acc total fold_right].
  - replace (j <? 0) with false by lia. f_equal. lia.
  - cbn [total fold_right] in Hfit. fold (total tl) in *. destruct Hch as [Hg [HQ Htl]].
    pose proof (total_nonneg_be tl _ Htl) as Tn.
    assert (Hlen : 1 <= f_len f) by (destruct Hg as [_ [_ [H _]]]; exact H).
    set (raw' := Z.lor (wrap64 (Z.shiftl raw (f_len f))) (part data f)).
    assert (Hraw' : 0 <= raw').
    { unfold raw'. apply Z.lor_nonneg. split; [unfold wrap64; apply Z.mod_pos_bound; reflexivity|].
      apply part_nonneg; assumption. }
    assert (Bits : forall i, 0 <= i -> Z.testbit raw' i =
              if i <? f_len f then Z.testbit (byte_at data (f_byte f)) (i + f_off f) else Z.testbit raw (i - f_len f)).
    { intros i Hi. unfold raw'. rewrite Z.lor_spec, wrap64_bits, shiftl_bits, part_bits by (try assumption; lia).
      destruct (Z.ltb_spec i (f_len f)).
      - replace (f_len f <=? i) with false by lia. cbn [andb orb]. rewrite andb_false_r. reflexivity.
      - replace (f_len f <=? i) with true by lia. cbn [andb]. rewrite orb_false_r.
        destruct (Z.ltb_spec i 64); [reflexivity|]. cbn [andb]. symmetry. apply Hhi. lia. }
    rewrite (IH (Q + f_len f) raw' (w + f_len f)); try assumption; try lia.
    2:{ intros i Hi. rewrite Bits by lia. replace (i <? f_len f) with false by lia. apply Hhi. lia. }
    destruct (Z.ltb_spec j (total tl)) as [Hlow | Hhigh].
    + replace (j <? f_len f + total tl) with true by lia. f_equal. lia.
    + rewrite Bits by lia. destruct (Z.ltb_spec (j - total tl) (f_len f)) as [Hin | Hout].
      * replace (j <? f_len f + total tl) with true by lia.
        rewrite chunk_be_bit by (try assumption; lia). f_equal. lia.
      * replace (j <? f_len f + total tl) with false by lia. f_equal. lia.
Qed.

(* ------------------------------------------------------------------ masks of the branches *)
Lemma mask_first_le t : 0 <= t < 8 -> u8 (Z.shiftl 255 t) = Z.shiftl (Z.ones (8 - t)) t.
Proof.
  intros H. assert (E : t = 0 \/ t = 1 \/ t = 2 \/ t = 3 \/ t = 4 \/ t = 5 \/ t = 6 \/ t = 7) by lia.
  destruct E as [->|[->|[->|[->|[->|[->|[->| ->]]]]]]]; reflexivity.
Qed.

Lemma mask_first_be t : 0 <= t < 8 -> u8 (Z.shiftr 255 t) = Z.shiftl (Z.ones (8 - t)) 0.
Proof.
  intros H. assert (E : t = 0 \/ t = 1 \/ t = 2 \/ t = 3 \/ t = 4 \/ t = 5 \/ t = 6 \/ t = 7) by lia.
  destruct E as [->|[->|[->|[->|[->|[->|[->| ->]]]]]]]; reflexivity.
Qed.

Lemma mask_last_le r : 1 <= r <= 8 -> u8 (2 ^ r - 1) = Z.shiftl (Z.ones r) 0.
Proof.
  intros H. assert (E : r = 1 \/ r = 2 \/ r = 3 \/ r = 4 \/ r = 5 \/ r = 6 \/ r = 7 \/ r = 8) by lia.
  destruct E as [->|[->|[->|[->|[->|[->|[->| ->]]]]]]]; reflexivity.
Qed.

Lemma mask_last_be r : 1 <= r <= 8 -> u8 (Z.shiftl (2 ^ r - 1) (8 - r)) = Z.shiftl (Z.ones r) (8 - r).
Proof.
  intros H. assert (E : r = 1 \/ r = 2 \/ r = 3 \/ r = 4 \/ r = 5 \/ r = 6 \/ r = 7 \/ r = 8) by lia.
  destruct E as [->|[->|[->|[->|[->|[->|[->| ->]]]]]]]; reflexivity.
Qed.

Lemma mask_single t n : 0 <= t -> 1 <= n -> t + n <= 8 ->
  u8 (Z.shiftl (2 ^ n - 1) t) = Z.shiftl (Z.ones n) t.
Proof.
  intros Ht Hn Hs.
  assert (Et : t = 0 \/ t = 1 \/ t = 2 \/ t = 3 \/ t = 4 \/ t = 5 \/ t = 6 \/ t = 7) by lia.
  assert (En : n = 1 \/ n = 2 \/ n = 3 \/ n = 4 \/ n = 5 \/ n = 6 \/ n = 7 \/ n = 8) by lia.
  destruct Et as [->|[->|[->|[->|[->|[->|[->| ->]]]]]]];
    destruct En as [->|[->|[->|[->|[->|[->|[->| ->]]]]]]]; try reflexivity; lia.
Qed.
