(* C02 — two messages and signal OBJECTS (the D20 family for signals: AppendSignal / InsertSignal
   accept a signal that already sits in another message).  Acme.C02.History has one message, i.e.
   it assumes that a signal is placed in at most one message; this file models the sharing the Go
   code allows: a signal object has ONE `endianness` field, written by setParentMsg (placement)
   and by SetByteOrder of a message that lists it. *)
From Coq Require Import ZArith List Bool.
Import ListNotations.
Local Open Scope Z_scope.

Record rstate : Type := mkR {
  r_be0 : bool; r_be1 : bool;              (* Message.byteOrder of message 0 and 1 *)
  r_l0 : list Z; r_l1 : list Z;            (* signal ids in the layout (and registry) of each message *)
  r_sigbe : list (Z * bool) }.             (* the single endianness field of every signal object *)

Definition r_new : rstate := mkR false false [] [] [].

Inductive rop : Type :=
| RAppend (m id : Z)          (* message m .AppendSignal(signal id): accepted whether or not it is placed elsewhere *)
| RRemove (m id : Z)
| RSetByteOrder (m : Z) (b : bool).

Definition set_sig (l : list (Z * bool)) (id : Z) (b : bool) : list (Z * bool) :=
  (id, b) :: filter (fun p => negb (fst p =? id)) l.
Definition sig_be (s : rstate) (id : Z) : bool :=
  match find (fun p => fst p =? id) (r_sigbe s) with Some p => snd p | None => false end.
Definition msg_be (s : rstate) (m : Z) : bool := if m =? 0 then r_be0 s else r_be1 s.
Definition msg_sigs (s : rstate) (m : Z) : list Z := if m =? 0 then r_l0 s else r_l1 s.
Definition placed (s : rstate) (id : Z) : bool := existsb (Z.eqb id) (r_l0 s) || existsb (Z.eqb id) (r_l1 s).

Definition rstep (s : rstate) (o : rop) : rstate :=
  match o with
  | RAppend m id =>
    if existsb (Z.eqb id) (msg_sigs s m) then s                      (* name already used in m: refused *)
    else
      let sb := set_sig (r_sigbe s) id (msg_be s m) in               (* setParentMsg copies m's byte order *)
      if m =? 0 then mkR (r_be0 s) (r_be1 s) (r_l0 s ++ [id]) (r_l1 s) sb
      else mkR (r_be0 s) (r_be1 s) (r_l0 s) (r_l1 s ++ [id]) sb
  | RRemove m id =>
    let f := filter (fun x => negb (x =? id)) in
    if m =? 0 then mkR (r_be0 s) (r_be1 s) (f (r_l0 s)) (r_l1 s) (r_sigbe s)
    else mkR (r_be0 s) (r_be1 s) (r_l0 s) (f (r_l1 s)) (r_sigbe s)
  | RSetByteOrder m b =>
    let sb := fold_left (fun acc id => set_sig acc id b) (msg_sigs s m) (r_sigbe s) in
    if m =? 0 then mkR b (r_be1 s) (r_l0 s) (r_l1 s) sb else mkR (r_be0 s) b (r_l0 s) (r_l1 s) sb
  end.

Definition rrun (ops : list rop) : rstate := fold_left rstep ops r_new.

(* the hypothesis Acme.C02.History makes silently: a signal is appended only while it is in no layout *)
Fixpoint no_reattach_from (s : rstate) (ops : list rop) : Prop :=
  match ops with
  | [] => True
  | o :: tl =>
    match o with RAppend _ id => placed s id = false | _ => True end /\ no_reattach_from (rstep s o) tl
  end.
Definition no_reattach (ops : list rop) : Prop := no_reattach_from r_new ops.

(* every signal of message m carries m's byte order *)
Definition propagated (s : rstate) (m : Z) : Prop :=
  forall id, In id (msg_sigs s m) -> sig_be s id = msg_be s m.
