From Coq Require Import ZArith List Bool Lia.
From Acme.C02 Require Import Reattach.
Import ListNotations.
Local Open Scope Z_scope.

(* D20: message 1 is big endian; signal 7, placed in the little-endian message 0, is appended to
   message 1 as well: its single endianness field now says big endian although message 0, which
   still lists it, is little endian *)
Theorem byte_order_reattach_refuted :
  exists ops, ~ no_reattach ops /\ ~ propagated (rrun ops) 0 /\
              In 7 (msg_sigs (rrun ops) 0) /\ sig_be (rrun ops) 7 = true /\ msg_be (rrun ops) 0 = false.
Proof.
  exists [RSetByteOrder 1 true; RAppend 0 7; RAppend 1 7].
  split; [|split; [|vm_compute; intuition congruence]].
  - unfold no_reattach. cbn. intros [_ [_ [H _]]]. vm_compute in H. discriminate.
  - intros H. specialize (H 7). vm_compute in H. assert (X : false = true) by (symmetry; apply H; left; reflexivity). discriminate.
Qed.

(* ---- under the hypothesis, propagation holds in both messages for every history *)
Lemma sig_be_set_same l id b s0 : sig_be (mkR (r_be0 s0) (r_be1 s0) (r_l0 s0) (r_l1 s0) (set_sig l id b)) id = b.
Proof. unfold sig_be, set_sig. cbn [r_sigbe find fst snd]. rewrite Z.eqb_refl. reflexivity. Qed.

Lemma find_set_other l id b x : x <> id ->
  find (fun p : Z * bool => fst p =? x) (set_sig l id b) = find (fun p : Z * bool => fst p =? x) l.
Proof.
  intros Hne. unfold set_sig. cbn [find fst]. destruct (Z.eqb_spec id x) as [E|_]; [congruence|].
  induction l as [|a tl IH]; [reflexivity|]. cbn [filter find].
  destruct (Z.eqb_spec (fst a) id) as [E|NE]; cbn [negb].
  - destruct (Z.eqb_spec (fst a) x) as [E2|_]; [congruence | exact IH].
  - cbn [find]. destruct (fst a =? x); [reflexivity | exact IH].
Qed.

Definition lookup_be (l : list (Z * bool)) (x : Z) : bool :=
  match find (fun p => fst p =? x) l with Some p => snd p | None => false end.

Lemma lookup_set l id b x : lookup_be (set_sig l id b) x = if x =? id then b else lookup_be l x.
Proof.
  unfold lookup_be. destruct (Z.eqb_spec x id) as [->|Hne].
  - unfold set_sig. cbn [find fst snd]. rewrite Z.eqb_refl. reflexivity.
  - rewrite find_set_other by exact Hne. reflexivity.
Qed.

Lemma lookup_fold l ids b x :
  lookup_be (fold_left (fun acc id => set_sig acc id b) ids l) x = if existsb (Z.eqb x) ids then b else lookup_be l x.
Proof.
  revert l. induction ids as [|a tl IH]; intros l; cbn [fold_left existsb]; [reflexivity|].
  rewrite IH, lookup_set. destruct (Z.eqb_spec x a); cbn [orb]; [|reflexivity].
  destruct (existsb (Z.eqb x) tl); reflexivity.
Qed.

Definition rinv (s : rstate) : Prop :=
  (forall id, In id (r_l0 s) -> lookup_be (r_sigbe s) id = r_be0 s) /\
  (forall id, In id (r_l1 s) -> lookup_be (r_sigbe s) id = r_be1 s) /\
  (forall id, In id (r_l0 s) -> ~ In id (r_l1 s)).

Lemma existsb_in x l : existsb (Z.eqb x) l = true <-> In x l.
Proof.
  rewrite existsb_exists. split.
  - intros [y [Hy E]]. apply Z.eqb_eq in E. subst. exact Hy.
  - intros H. exists x. split; [exact H | apply Z.eqb_refl].
Qed.

Lemma existsb_notin x l : existsb (Z.eqb x) l = false <-> ~ In x l.
Proof.
  rewrite <- existsb_in. destruct (existsb (Z.eqb x) l); split; intros H.
  - discriminate.
  - exfalso. apply H. reflexivity.
  - intros X. discriminate.
  - reflexivity.
Qed.

Lemma rinv_step s o : rinv s -> match o with RAppend _ id => placed s id = false | _ => True end -> rinv (rstep s o).
Proof.
  intros [I0 [I1 Ix]] Hpre. destruct o as [m id | m id | m b]; cbn [rstep].
  - unfold placed in Hpre. apply orb_false_elim in Hpre. destruct Hpre as [P0 P1].
    apply existsb_notin in P0. apply existsb_notin in P1.
    destruct (existsb (Z.eqb id) (msg_sigs s m)); [split; [|split]; assumption|].
    unfold msg_be. destruct (m =? 0); unfold rinv; cbn [r_l0 r_l1 r_be0 r_be1 r_sigbe]; repeat split.
    + intros x Hx. rewrite lookup_set. apply in_app_iff in Hx. destruct Hx as [Hx|[<-|[]]].
      * destruct (Z.eqb_spec x id); [reflexivity | apply I0; exact Hx].
      * rewrite Z.eqb_refl. reflexivity.
    + intros x Hx. rewrite lookup_set. destruct (Z.eqb_spec x id) as [->|]; [contradiction | apply I1; exact Hx].
    + intros x Hx. apply in_app_iff in Hx. destruct Hx as [Hx|[<-|[]]]; [apply Ix; exact Hx | exact P1].
    + intros x Hx. rewrite lookup_set. destruct (Z.eqb_spec x id) as [->|]; [contradiction | apply I0; exact Hx].
    + intros x Hx. rewrite lookup_set. apply in_app_iff in Hx. destruct Hx as [Hx|[<-|[]]].
      * destruct (Z.eqb_spec x id); [reflexivity | apply I1; exact Hx].
      * rewrite Z.eqb_refl. reflexivity.
    + intros x Hx Hy. apply in_app_iff in Hy. destruct Hy as [Hy|[<-|[]]]; [exact (Ix x Hx Hy) | contradiction].
  - destruct (m =? 0); unfold rinv; cbn [r_l0 r_l1 r_be0 r_be1 r_sigbe]; repeat split.
    + intros x Hx. apply filter_In in Hx. apply I0. tauto.
    + exact I1.
    + intros x Hx. apply filter_In in Hx. apply Ix. tauto.
    + exact I0.
    + intros x Hx. apply filter_In in Hx. apply I1. tauto.
    + intros x Hx Hy. apply filter_In in Hy. apply (Ix x Hx). tauto.
  - unfold msg_sigs. destruct (m =? 0); unfold rinv; cbn [r_l0 r_l1 r_be0 r_be1 r_sigbe]; repeat split; try exact Ix.
    + intros x Hx. rewrite lookup_fold. apply existsb_in in Hx. rewrite Hx. reflexivity.
    + intros x Hx. rewrite lookup_fold.
      assert (N : existsb (Z.eqb x) (r_l0 s) = false).
      { apply existsb_notin. intros H0. exact (Ix x H0 Hx). }
      rewrite N. apply I1. exact Hx.
    + intros x Hx. rewrite lookup_fold.
      assert (N : existsb (Z.eqb x) (r_l1 s) = false) by (apply existsb_notin; apply Ix; exact Hx).
      rewrite N. apply I0. exact Hx.
    + intros x Hx. rewrite lookup_fold. apply existsb_in in Hx. rewrite Hx. reflexivity.
Qed.

Theorem byte_order_propagates_two_messages ops : no_reattach ops ->
  propagated (rrun ops) 0 /\ propagated (rrun ops) 1.
Proof.
  unfold no_reattach, rrun.
  assert (H0 : rinv r_new) by (unfold rinv; cbn; repeat split; intros x []).
  revert H0. generalize r_new. induction ops as [|o tl IH]; intros s Hs Hn; cbn [fold_left].
  - destruct Hs as [I0 [I1 _]]. split; intros id Hin; unfold sig_be, msg_be, msg_sigs in *; cbn in *.
    + exact (I0 id Hin).
    + exact (I1 id Hin).
  - cbn [no_reattach_from] in Hn. destruct Hn as [Hpre Htl]. apply IH; [|exact Htl].
    apply rinv_step; assumption.
Qed.
