(* C02 — specification vocabulary (no model code of the filters/decoder, no proofs): the payload
   as a number, the bits a signal occupies, well-formed layouts, the Motorola saw-tooth. *)
From Coq Require Import ZArith List Bool.
From Acme.C02 Require Import Model.
Import ListNotations.
Local Open Scope Z_scope.

(* payload as a number: LE data = sum data[i] * 2^(8 i), BE data = sum data[i] * 2^(8 (n-1-i)),
   i.e. the little-endian number of the reversed bytes *)
Definition LE (data : list Z) : Z := fold_right (fun b acc => b + 256 * acc) 0 data.
Definition BE (data : list Z) : Z := LE (rev data).
Definition nbits (data : list Z) : Z := 8 * Z.of_nat (length data).

(* little endian: raw bit i is payload bit start+i, bit k lives in byte k/8 at bit k%8 *)
Definition raw_le (start len : Z) (data : list Z) : Z := (LE data / 2 ^ start) mod 2 ^ len.
(* big endian: `pos` counts bits most-significant first (byte pos/8, bit 7 - pos%8); the signal is
   read most-significant first from there *)
Definition raw_be (pos len : Z) (data : list Z) : Z := (BE data / 2 ^ (nbits data - pos - len)) mod 2 ^ len.

(* DBC (LSB0, saw-tooth) bit number b: byte b/8, bit b%8 *)
Definition payload_bit (data : list Z) (b : Z) : bool := Z.testbit (byte_at data (b / 8)) (b mod 8).
(* position (MSB first) <-> DBC bit number: importer.go startBit+7-2*(startBit%8), exporter.go *)
Definition dbc_of_pos (p : Z) : Z := p + 7 - 2 * (p mod 8).
(* next bit along the Motorola saw-tooth: down inside a byte, then to bit 7 of the next byte *)
Definition walk (b : Z) : Z := if b mod 8 =? 0 then b + 15 else b - 1.

Definition bytes_ok (data : list Z) : Prop := Forall (fun b => 0 <= b < 256) data.

Definition s_end (s : sigl) : Z := s_start s + s_size s.

(* well-formed layout of `size` bits: sorted, pairwise disjoint, inside the payload, sizes >= 1,
   distinct ids *)
Definition sig_ok (size : Z) (s : sigl) : Prop :=
  0 <= s_start s /\ 1 <= s_size s /\ s_end s <= size.
(* a raw value is a uint64: the decoding theorems are about signals of at most 64 bits.  A
   multiplexer signal (never decoded) may be wider; it does not void the layout's well-formedness *)
Definition narrow (s : sigl) : Prop := s_size s <= 64.
Fixpoint sorted (l : list sigl) : Prop :=
  match l with
  | [] => True
  | a :: tl => match tl with [] => True | b :: _ => s_end a <= s_start b end /\ sorted tl
  end.
Definition wf (size : Z) (l : list sigl) : Prop :=
  Forall (sig_ok size) l /\ sorted l /\ NoDup (map s_id l).

(* the one shape the code gets wrong (open finding D08): big-endian, fits in one byte, and the
   LSB-anchored offset start%8 differs from the MSB-anchored one 8 - start%8 - size *)
Definition one_byte (s : sigl) : bool := s_start s / 8 =? (s_start s + s_size s - 1) / 8.
Definition asymmetric (s : sigl) : bool := negb (2 * (s_start s mod 8) + s_size s =? 8).
Definition d08 (s : sigl) : bool := s_be s && one_byte s && asymmetric s.

Definition popcount8 (m : Z) : Z :=
  fold_right (fun j acc => Z.b2z (Z.testbit m j) + acc) 0 [0; 1; 2; 3; 4; 5; 6; 7].

(* bit at MSB-first position q: byte q/8, bit 7 - q%8 *)
Definition mbit (data : list Z) (q : Z) : bool := Z.testbit (byte_at data (q / 8)) (7 - q mod 8).

(* a layout in which every signal has the same byte order (a message has one byte order) *)
Definition uniform (be : bool) (l : list sigl) : Prop := Forall (fun s => s_be s = be) l.
