(* C03 — checker for the thorough-tier cross-check (DESIGN 3.3): a sample of the harness cases
   with the outputs OBSERVED on the Go implementation is written as a Coq list and
   `mismatches cases` is evaluated with vm_compute inside Coq (expected: []).  This takes
   extraction, the OCaml compiler and the driver out of the trusted base for that sample. *)
From Coq Require Import ZArith List Bool.
From Flocq Require Import IEEE754.BinarySingleNaN IEEE754.Binary IEEE754.Bits.
From Acme.C03 Require Import Model.
Import ListNotations.
Local Open Scope Z_scope.

Inductive xval : Type := OFlag (b : bool) | OInt (z : Z) | OUint (z : Z) | OFloat (bits : Z).

Inductive xcase : Type :=
| XD (k : kind) (signed : bool) (n scale_bits offset_bits raw : Z) (obs : xval)
| XR (signed : bool) (n min_bits max_bits : Z)
| XS (v r : Z)
| XV (n r : Z)
| XX (count gsize sel total : Z)
| XN (vs : list (Z * Z)) (raw obs : Z)                       (* obs = -1: empty string *)
| XE (ops : list enum_op) (obs : list (bool * Z * Z)).       (* per op: accepted, GetSize, MaxIndex *)

Definition nan_bits (b : Z) : bool := ((b / 2 ^ 52) mod 2048 =? 2047) && negb (b mod 2 ^ 52 =? 0).

Definition xval_ok (v : value) (o : xval) : bool :=
  match v, o with
  | VFlag a, OFlag b => Bool.eqb a b
  | VInt a, OInt b => a =? b
  | VUint a, OUint b => a =? b
  | VFloat f, OFloat b => (bits_of_f64 f =? b) || (is_nan 53 1024 f && nan_bits b)
  | _, _ => false
  end.

Fixpoint enum_trace (e : enum) (ops : list enum_op) : list (bool * Z * Z) :=
  match ops with
  | [] => []
  | o :: tl => let e' := enum_step e o in (enum_ok e o, enum_size e', e_max e') :: enum_trace e' tl
  end.

Fixpoint trace_eqb (a b : list (bool * Z * Z)) : bool :=
  match a, b with
  | [], [] => true
  | (x1, y1, z1) :: ta, (x2, y2, z2) :: tb => Bool.eqb x1 x2 && (y1 =? y2) && (z1 =? z2) && trace_eqb ta tb
  | _, _ => false
  end.

Definition xcheck (c : xcase) : bool :=
  match c with
  | XD k s n sc off raw obs => xval_ok (decode_std k s n (f64_of_bits sc) (f64_of_bits off) raw) obs
  | XR s n lo hi => let '(a, b) := int_range s n in (bits_of_f64 a =? lo) && (bits_of_f64 b =? hi)
  | XS v r => calc_size v =? r
  | XV n r => calc_value n =? r
  | XX c g sel tot => (mux_selector_size c =? sel) && (mux_size c g =? tot)
  | XN vs raw obs => match decode_enum vs raw with Some nm => nm =? obs | None => obs =? -1 end
  | XE ops obs => trace_eqb (enum_trace enum_new ops) obs
  end.

Definition mismatches (cs : list xcase) : list xcase := filter (fun c => negb (xcheck c)) cs.
