(* C03 — non-vacuity: the hypotheses of the Properties/C03.v theorems are satisfiable by
   non-trivial values, and a few concrete evaluations of the model (vm_compute). *)
From Coq Require Import ZArith Reals List Bool Lia.
From Flocq Require Import Core IEEE754.BinarySingleNaN IEEE754.Binary IEEE754.Bits.
From Acme.C03 Require Import Model Spec SpecFloat Proofs ProofsFloat.
Import ListNotations.
Local Open Scope Z_scope.

(* the pinned values of Test_SignalLayout_Unpack *)
Example ex_int4 : decode_std KInteger true 4 (of_int 1) (of_int 0) 9 = VInt (-7).
Proof. vm_compute. reflexivity. Qed.
Example ex_int20 : decode_std KInteger true 20 (of_int 1) (of_int 0) 524289 = VInt (-524287).
Proof. vm_compute. reflexivity. Qed.
Example ex_uint12 : decode_std KInteger false 12 (of_int 1) (of_int 0) 2049 = VUint 2049.
Proof. vm_compute. reflexivity. Qed.

(* 0.1 = 0x3FB999999999999A; raw 3 * 0.1 + 0.3 is 0.6000000000000001 in binary64 (two roundings) *)
Example ex_float :
  match decode_std KDecimal false 8 (f64_of_bits 4591870180066957722) (f64_of_bits 4599075939470750515) 3 with
  | VFloat f => bits_of_f64 f | _ => 0 end = 4603579539098121012.
Proof. vm_compute. reflexivity. Qed.

(* decode_int_spec, signed: 12-bit raw 4000 (top bit set), scale 3, offset -7 *)
Example ex_decode_int_signed : decode_int true 12 (of_int 3) (of_int (-7)) 4000 = sext 12 4000 * 3 + (-7).
Proof.
  apply (decode_int_spec true 12 (of_int 3) (of_int (-7)) 4000 3 (-7)).
  - lia.
  - lia.
  - apply of_int_correct. cbn. lia.
  - apply of_int_exact. cbn. lia.
  - apply of_int_correct. cbn. lia.
  - apply of_int_exact. cbn. lia.
  - vm_compute. repeat split; discriminate.
Qed.
Example ex_decode_int_signed_value : sext 12 4000 * 3 + (-7) = -295.
Proof. reflexivity. Qed.

(* decode_int_spec, unsigned with a negative offset (result still non-negative) *)
Example ex_decode_int_unsigned : decode_int false 8 (of_int 2) (of_int (-10)) 200 = 200 * 2 + (-10).
Proof.
  apply (decode_int_spec false 8 (of_int 2) (of_int (-10)) 200 2 (-10)).
  - lia.
  - lia.
  - apply of_int_correct. cbn. lia.
  - apply of_int_exact. cbn. lia.
  - apply of_int_correct. cbn. lia.
  - apply of_int_exact. cbn. lia.
  - vm_compute. repeat split; discriminate.
Qed.

Lemma rnd_int z : Z.abs z <= 2 ^ 53 -> rnd (IZR z) = IZR z.
Proof.
  intros H. unfold rnd. apply round_generic; [apply valid_rnd_round_mode | apply int_representable; exact H].
Qed.

Lemma small_lt_max z : Z.abs z <= 2 ^ 53 -> (Rabs (IZR z) < max64)%R.
Proof.
  intros H. rewrite <- abs_IZR. apply Rle_lt_trans with (IZR (2 ^ 53)); [apply IZR_le; exact H|].
  change (IZR (2 ^ 53)) with (bpow radix2 53). unfold max64. apply bpow_lt. lia.
Qed.

(* decode_float_spec: signed 8-bit raw 200 (= -56), scale 2, offset 1: no overflow, value -111 *)
Example ex_decode_float :
  B2R64 (decode_float true 8 (of_int 2) (of_int 1) 200) = IZR (-111).
Proof.
  assert (S : sext_if true 8 200 = -56) by reflexivity.
  assert (E2 : B2R64 (of_int 2) = IZR 2) by (apply of_int_exact; cbn; lia).
  assert (E1 : B2R64 (of_int 1) = IZR 1) by (apply of_int_exact; cbn; lia).
  destruct (decode_float_spec true 8 (of_int 2) (of_int 1) 200) as [H _].
  - lia.
  - lia.
  - apply of_int_correct. cbn. lia.
  - apply of_int_correct. cbn. lia.
  - rewrite S, E2. rewrite (rnd_int (-56)) by (cbn; lia). rewrite <- mult_IZR.
    rewrite (rnd_int (-56 * 2)) by (cbn; lia). apply small_lt_max. cbn. lia.
  - rewrite S, E2, E1. rewrite (rnd_int (-56)) by (cbn; lia). rewrite <- mult_IZR.
    rewrite (rnd_int (-56 * 2)) by (cbn; lia). rewrite <- plus_IZR.
    rewrite (rnd_int (-56 * 2 + 1)) by (cbn; lia). apply small_lt_max. cbn. lia.
  - rewrite H. rewrite S, E2, E1. rewrite (rnd_int (-56)) by (cbn; lia). rewrite <- mult_IZR.
    rewrite (rnd_int (-56 * 2)) by (cbn; lia). rewrite <- plus_IZR.
    rewrite (rnd_int (-56 * 2 + 1)) by (cbn; lia). reflexivity.
Qed.

(* ranges: 16-bit signed, 64-bit unsigned (rounds to 2^64) *)
Example ex_range16 : int_range true 16 = (of_int (-32768), of_int 32767).
Proof. apply (range_spec true 16). lia. Qed.
Example ex_range64u : bits_of_f64 (snd (int_range false 64)) = 4895412794951729152.
Proof. vm_compute. reflexivity. Qed.

(* sizes *)
Example ex_calc_size : calc_size 4611686018427387904 = 63 /\ calc_size 255 = 8 /\ calc_size 256 = 9 /\ calc_size 0 = 1.
Proof. vm_compute. repeat split. Qed.

(* enum history: add 5, add 300, set min 4, remove 300 -> max index back to 5, size max 4 3 = 4 *)
Example ex_enum_history :
  let ops := [EAdd 0 5; EAdd 1 300; ESetMin 4; ERemove 1] in
  Forall op_in_range ops /\ is_max (e_values (enum_run ops)) 5 /\ enum_size (enum_run ops) = 4
  /\ enum_size (enum_run [EAdd 0 5; EAdd 1 300; ESetMin 4]) = 9.
Proof.
  cbv zeta. split; [|split; [|split]].
  - repeat constructor; vm_compute; discriminate.
  - vm_compute. split; [discriminate|]. split; [right; left; reflexivity|].
    intros i [<-|[]]. discriminate.
  - vm_compute. reflexivity.
  - vm_compute. reflexivity.
Qed.

(* enum decoding with a gap and a negative index: 64-bit raw 2^64-1 does not select index -1 *)
Example ex_decode_enum :
  decode_enum [(0, 1); (1, 7); (2, -1)] 7 = Some 1 /\ decode_enum [(0, 1); (1, 7); (2, -1)] 2 = None
  /\ decode_enum [(0, 1); (1, 7); (2, -1)] 18446744073709551615 = None.
Proof. vm_compute. repeat split. Qed.

(* lowering the current maximum with UpdateIndex shrinks the enum: 200 -> 3 leaves max 5 *)
Example ex_enum_update_lowers_max :
  let ops := [EAdd 0 1; EAdd 1 5; EAdd 2 200; EUpdate 2 3] in
  Forall op_in_range ops /\ e_max (enum_run ops) = 5 /\ enum_size (enum_run ops) = 3 /\
  enum_size (enum_run [EAdd 0 1; EAdd 1 5; EAdd 2 200]) = 8 /\
  enum_size (enum_run [EAdd 0 1; EAdd 1 5; EAdd 2 200; EClear]) = 1.
Proof.
  cbv zeta. split; [repeat constructor; vm_compute; discriminate|]. vm_compute. repeat split.
Qed.

(* multiplexer: 4096 groups need 12 bits, 4097 need 13, 1 group still 1 bit *)
Example ex_mux : mux_selector_size 4096 = 12 /\ mux_selector_size 4097 = 13 /\ mux_selector_size 1 = 1 /\ mux_size 4096 52 = 64.
Proof. vm_compute. repeat split. Qed.
