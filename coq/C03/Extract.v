(* Extraction of the executable C03 model for the correspondence check.
   ExtrOcamlBasic only: Z / positive stay inductive; no Extract Constant of our own. *)
From Coq Require Import Extraction ExtrOcamlBasic ZArith List.
From Acme.C03 Require Import Model Shared.
Extraction Language OCaml.
Extraction "extracted/c03_model.ml" decode_std decode_enum int_range calc_size calc_value
  enum_new enum_step enum_ok enum_size e_max e_min e_values mux_selector_size mux_size
  f64_of_bits bits_of_f64 sext_if
  sh_new sstep se_size se_max h_a h_b.
