(* C03 — links to the neighbouring developments (no new model code):
   C02 -> C03: the raw value Decode extracts for a placed signal (Acme.C02.Model.sig_raw) is a number
              of exactly size bits, i.e. the `raw` the C03 decoding theorems quantify over, and it is
              the payload slice raw_le / raw_be; so the physical value of a placed signal is the DBC
              rule applied to the payload bits.
   C03 <-> C01: C01's model uses closed forms for calcSizeFromValue, the enum width and the selector
              width; they are the functions proved correct here. *)
From Coq Require Import ZArith Reals List Bool Lia.
From Flocq Require Import Core IEEE754.BinarySingleNaN IEEE754.Binary IEEE754.Bits.
From Acme.C03 Require Import Model Spec SpecFloat Proofs ProofsFloat.
From Acme.C02 Require Model Spec Proofs.
From Acme.C01 Require Model.
Import ListNotations.
Local Open Scope Z_scope.

Module C2M := Acme.C02.Model.
Module C2S := Acme.C02.Spec.
Module C2P := Acme.C02.Proofs.

(* ------------------------------------------------------------------ C03 <-> C01 *)
Lemma calc_size_loop_top fuel : forall i v, 0 <= i -> i + Z.of_nat fuel = 64 -> two63 <= u64 v ->
  calc_size_loop fuel i v = 64.
Proof.
  induction fuel as [|f IH]; intros i v Hi Hf Hv; [reflexivity|]. cbn [calc_size_loop].
  rewrite shl_u64_pow2 by lia.
  assert (P : 2 ^ i <= two63) by (rewrite two63_eq; apply Z.pow_le_mono_r; lia).
  replace (u64 v <? 2 ^ i) with false by lia. apply IH; lia.
Qed.

Theorem calc_size_agrees v : - two63 <= v < two63 -> calc_size v = Acme.C01.Model.calc_size v.
Proof.
  intros Hv. unfold Acme.C01.Model.calc_size.
  destruct (Z.eqb_spec v 0) as [->|Hne]; [reflexivity|].
  destruct (Z.ltb_spec v 0) as [Hneg|Hpos].
  - unfold calc_size. replace (v =? 0) with false by lia. apply calc_size_loop_top; [lia | reflexivity|].
    unfold u64. replace (v mod two64) with (v + two64); [unfold two63, two64 in *; lia|].
    apply Z.mod_unique with (q := -1); unfold two63, two64 in *; lia.
  - rewrite calc_size_spec by lia. unfold bit_width. pose proof (Z.log2_nonneg v). lia.
Qed.

Theorem selector_agrees c : - two63 < c <= two63 -> mux_selector_size c = Acme.C01.Model.selw c.
Proof.
  intros Hc. unfold mux_selector_size, Acme.C01.Model.selw.
  rewrite s64_small by (unfold two63 in *; lia). apply calc_size_agrees. lia.
Qed.

Theorem enum_size_agrees e : - two63 <= e_max e < two63 ->
  enum_size e = Acme.C01.Model.esize_of (e_min e) (e_max e).
Proof.
  intros H. unfold enum_size, Acme.C01.Model.esize_of. cbv zeta. rewrite (calc_size_agrees _ H).
  destruct (Z.gtb_spec (e_min e) (Acme.C01.Model.calc_size (e_max e)));
    destruct (Z.ltb_spec (Acme.C01.Model.calc_size (e_max e)) (e_min e)); lia.
Qed.

(* ------------------------------------------------------------------ C02 -> C03 *)
(* the payload slice a placed signal occupies (its byte order, D08 shape apart) *)
Definition payload_raw (s : C2M.sigl) (data : list Z) : Z :=
  if C2M.s_be s then C2S.raw_be (C2M.s_start s) (C2M.s_size s) data
  else C2S.raw_le (C2M.s_start s) (C2M.s_size s) data.

Theorem raw_of_signal size s data :
  C2S.sig_ok size s -> C2S.narrow s -> C2S.d08 s = false -> C2S.bytes_ok data -> size <= C2S.nbits data ->
  C2M.sig_raw s data = payload_raw s data /\
  1 <= C2M.s_size s <= 64 /\ 0 <= C2M.sig_raw s data < 2 ^ C2M.s_size s.
Proof.
  intros Hok Hn Hd Hb Hsz. split; [|split].
  - unfold payload_raw. destruct (C2M.s_be s) eqn:E.
    + apply (C2P.decode_be_spec size); assumption.
    + apply (C2P.decode_le_spec size); assumption.
  - destruct Hok as [_ [H1 _]]. unfold C2S.narrow in Hn. lia.
  - apply (C2P.sig_raw_range size); assumption.
Qed.

(* physical value of a placed standard signal of an integer kind: the DBC rule on the payload bits *)
Theorem signal_value_integer size s data (signed : bool) (scale offset : f64) (sc off : Z) :
  C2S.sig_ok size s -> C2S.narrow s -> C2S.d08 s = false -> C2S.bytes_ok data -> size <= C2S.nbits data ->
  finite64 scale = true -> B2R64 scale = IZR sc -> finite64 offset = true -> B2R64 offset = IZR off ->
  let n := C2M.s_size s in
  let raw := payload_raw s data in
  (if signed then - two63 <= sc < two63 /\ - two63 <= off < two63 /\ - two63 <= sext n raw * sc + off < two63
   else - two63 < sc < two64 /\ - two63 < off < two64 /\ 0 <= raw * sc + off < two64) ->
  decode_std KInteger signed n scale offset (C2M.sig_raw s data) =
  if signed then VInt (sext n raw * sc + off) else VUint (raw * sc + off).
Proof.
  intros Hok Hn Hd Hb Hsz Fs Es Fo Eo n raw H.
  destruct (raw_of_signal size s data Hok Hn Hd Hb Hsz) as [E [Hs Hr]].
  fold raw in E. fold n in Hs, Hr. rewrite E in Hr. rewrite E.
  apply decode_std_integer_spec; assumption.
Qed.

(* ... and of a decimal / custom kind: two binary64 roundings of value * scale + offset *)
Theorem signal_value_float size s data (signed : bool) (scale offset : f64) :
  C2S.sig_ok size s -> C2S.narrow s -> C2S.d08 s = false -> C2S.bytes_ok data -> size <= C2S.nbits data ->
  finite64 scale = true -> finite64 offset = true ->
  let n := C2M.s_size s in
  let x := rnd (IZR (sext_if signed n (payload_raw s data))) in
  let p := rnd (x * B2R64 scale) in
  (Rabs p < max64)%R -> (Rabs (rnd (p + B2R64 offset)) < max64)%R ->
  B2R64 (decode_float signed n scale offset (C2M.sig_raw s data)) = rnd (p + B2R64 offset).
Proof.
  intros Hok Hn Hd Hb Hsz Fs Fo n x p Hp Hq.
  destruct (raw_of_signal size s data Hok Hn Hd Hb Hsz) as [E [Hs Hr]].
  fold n in Hs, Hr. unfold p, x in *. rewrite <- E in Hp, Hq. rewrite <- E.
  apply (decode_float_spec signed n scale offset (C2M.sig_raw s data) Hs Hr Fs Fo Hp Hq).
Qed.
