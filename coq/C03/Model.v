(* C03 — model of the value arithmetic of acmelib:
     signal_layout.go  decodeStandardSignal / decodeEnumSignal
     signal_type.go    NewIntegerSignalType / NewDecimalSignalType (range computation)
     helpers.go        calcSizeFromValue / calcValueFromSize
     signal_enum.go    AddValue / RemoveValue / RemoveAllValues / UpdateIndex (modifyValueIndex) /
                       setMaxIndex / SetMinSize / GetSize
     mux_signal.go     GetGroupCountSize / GetSize
   One Gallina function per Go function.  Widths are part of the property, so the 64-bit wrap is
   written out: `u64` is a uint64 bit pattern, `s64` the int64 / int reading of it, `shl_*` the Go
   shift (a count >= 64 gives 0).  float64 is Flocq's binary64; `x*y + z` is two roundings
   (amd64 / GOAMD64=v1: no fused multiply-add).  No proofs in this file. *)
From Coq Require Import ZArith List Bool.
From Flocq Require Import IEEE754.BinarySingleNaN IEEE754.Binary IEEE754.Bits.
Import ListNotations.
Local Open Scope Z_scope.

(* ---------------------------------------------------------------- machine integers *)
Definition two63 : Z := 9223372036854775808.
Definition two64 : Z := 18446744073709551616.

Definition u64 (z : Z) : Z := z mod two64.
Definition s64 (z : Z) : Z := let u := z mod two64 in if u <? two63 then u else u - two64.

(* x << n on uint64 resp. int (n >= 0; Go: a count >= the width yields 0) *)
Definition shl_u64 (x n : Z) : Z := if n <? 64 then u64 (x * 2 ^ n) else 0.
Definition shl_int (x n : Z) : Z := if n <? 64 then s64 (x * 2 ^ n) else 0.

(* ---------------------------------------------------------------- float64 *)
Definition f64 : Type := binary64.
(* float64(i) for an int64 or uint64 value i: correctly rounded, ties to even *)
Definition of_int (z : Z) : f64 := binary_normalize 53 1024 eq_refl eq_refl mode_NE z 0 false.
Definition fmul (a b : f64) : f64 := b64_mult mode_NE a b.
Definition fadd (a b : f64) : f64 := b64_plus mode_NE a b.

(* int64(f): truncation toward zero.  Outside the int64 range (and for NaN/Inf) Go leaves the
   result to the implementation; amd64 yields the "integer indefinite" 0x8000000000000000.  The
   theorems only use the in-range case. *)
Definition f2i64 (f : f64) : Z :=
  if is_finite 53 1024 f then
    let t := Btrunc 53 1024 f in
    if (- two63 <=? t) && (t <? two63) then t else - two63
  else - two63.

(* uint64(f): exact for 0 <= trunc f < 2^64.  A negative f is implementation-defined in Go; amd64
   converts through int64, i.e. two's complement (observed; named in the trusted base). *)
Definition f2u64 (f : f64) : Z :=
  if is_finite 53 1024 f then
    let t := Btrunc 53 1024 f in
    if (- two63 <? t) && (t <? two64) then u64 t else two63
  else two63.

(* ---------------------------------------------------------------- decoding *)
(* specification-side sign extension of an n-bit pattern *)
Definition sext (n raw : Z) : Z := if Z.testbit raw (n - 1) then raw - 2 ^ n else raw.
Definition sext_if (signed : bool) (n raw : Z) : Z := if signed then sext n raw else raw.

(* what the code does: if raw & (1 << (size-1)) != 0 { ext |= (1<<64 - 1) << size } *)
Definition ext_raw (signed : bool) (n raw : Z) : Z :=
  if signed && negb (Z.land raw (shl_u64 1 (n - 1)) =? 0)
  then Z.lor raw (shl_u64 (two64 - 1) n) else raw.

Inductive kind : Type := KCustom | KFlag | KInteger | KDecimal.

Inductive value : Type :=
| VFlag (b : bool)
| VInt (z : Z)        (* int64 *)
| VUint (z : Z)       (* uint64 *)
| VFloat (f : f64).

Definition decode_int (signed : bool) (n : Z) (scale offset : f64) (raw : Z) : Z :=
  if signed then s64 (s64 (ext_raw true n raw) * f2i64 scale + f2i64 offset)
  else u64 (raw * f2u64 scale + f2u64 offset).

Definition decode_float (signed : bool) (n : Z) (scale offset : f64) (raw : Z) : f64 :=
  fadd (fmul (of_int (if signed then s64 (ext_raw true n raw) else raw)) scale) offset.

Definition decode_flag (raw : Z) : bool := negb (raw =? 0).

Definition decode_std (k : kind) (signed : bool) (n : Z) (scale offset : f64) (raw : Z) : value :=
  match k with
  | KFlag => VFlag (decode_flag raw)
  | KInteger => if signed then VInt (decode_int true n scale offset raw)
                else VUint (decode_int false n scale offset raw)
  | KDecimal | KCustom => VFloat (decode_float signed n scale offset raw)
  end.

(* decodeEnumSignal: first entry (in the iteration order `vs` of the Go map) with
   index >= 0 && uint64(index) == rawValue; names are opaque identifiers, None is the empty
   string. *)
Fixpoint decode_enum (vs : list (Z * Z)) (raw : Z) : option Z :=
  match vs with
  | [] => None
  | (name, idx) :: tl =>
    if (0 <=? idx) && (u64 idx =? raw) then Some name else decode_enum tl raw
  end.

(* ---------------------------------------------------------------- type ranges *)
(* NewIntegerSignalType / NewDecimalSignalType: int arithmetic, then float64(.) *)
Definition int_range (signed : bool) (n : Z) : f64 * f64 :=
  if signed then
    (of_int (s64 (- shl_int 1 (n - 1))), of_int (s64 (shl_int 1 (n - 1) - 1)))
  else
    (of_int 0, of_int (u64 (shl_u64 1 n - 1))).

(* ---------------------------------------------------------------- sizes *)
(* calcSizeFromValue: for i := 0; i < 64; i++ { if uint64(val) < uint64(1)<<i { return i } }; return 64 *)
Fixpoint calc_size_loop (fuel : nat) (i v : Z) : Z :=
  match fuel with
  | O => 64
  | S f => if u64 v <? shl_u64 1 i then i else calc_size_loop f (i + 1) v
  end.
Definition calc_size (v : Z) : Z := if v =? 0 then 1 else calc_size_loop 64 0 v.

(* calcValueFromSize *)
Definition calc_value (size : Z) : Z := if size <=? 0 then 1 else shl_int 1 size.

(* SignalEnum: values (name id, index), cached maxIndex, minSize *)
Record enum : Type := mkEnum { e_values : list (Z * Z); e_max : Z; e_min : Z }.

Definition enum_new : enum := mkEnum [] 0 1.

Definition has_index (vs : list (Z * Z)) (idx : Z) : bool := existsb (fun p => snd p =? idx) vs.
Definition has_name (vs : list (Z * Z)) (nm : Z) : bool := existsb (fun p => fst p =? nm) vs.

(* AddValue on an enum no signal refers to (growth checks of referring signals: C01) *)
Definition enum_add (e : enum) (nm idx : Z) : option enum :=
  if has_index (e_values e) idx || has_name (e_values e) nm then None
  else Some (mkEnum (e_values e ++ [(nm, idx)]) (if idx >? e_max e then idx else e_max e) (e_min e)).

(* setMaxIndex *)
Definition max_of (vs : list (Z * Z)) : Z :=
  fold_left (fun m p => if snd p >? m then snd p else m) vs 0.

Definition enum_remove (e : enum) (nm : Z) : option enum :=
  match find (fun p => fst p =? nm) (e_values e) with
  | None => None
  | Some (_, idx) =>
    let vs := filter (fun p => negb (fst p =? nm)) (e_values e) in
    Some (mkEnum vs (if idx =? e_max e then max_of vs else e_max e) (e_min e))
  end.

Definition enum_set_min (e : enum) (m : Z) : enum := mkEnum (e_values e) (e_max e) m.

(* GetSize *)
Definition enum_size (e : enum) : Z :=
  let c := calc_size (e_max e) in if e_min e >? c then e_min e else c.

(* SignalEnumValue.UpdateIndex on a value of the enum: same index = no-op; a used index is
   refused; otherwise modifyValueIndex recomputes the maximum over the other values and the new
   index *)
Definition set_index (nm idx : Z) (p : Z * Z) : Z * Z := if fst p =? nm then (nm, idx) else p.
Definition enum_update (e : enum) (nm idx : Z) : option enum :=
  match find (fun p => fst p =? nm) (e_values e) with
  | None => None
  | Some (_, old) =>
    if old =? idx then Some e
    else if has_index (e_values e) idx then None
    else let vs := map (set_index nm idx) (e_values e) in Some (mkEnum vs (max_of vs) (e_min e))
  end.

(* RemoveAllValues *)
Definition enum_clear (e : enum) : enum := mkEnum [] 0 (e_min e).

Inductive enum_op : Type :=
  EAdd (nm idx : Z) | ERemove (nm : Z) | ESetMin (m : Z) | EUpdate (nm idx : Z) | EClear.

Definition enum_step (e : enum) (o : enum_op) : enum :=
  match o with
  | EAdd nm idx => match enum_add e nm idx with Some e' => e' | None => e end
  | ERemove nm => match enum_remove e nm with Some e' => e' | None => e end
  | ESetMin m => enum_set_min e m
  | EUpdate nm idx => match enum_update e nm idx with Some e' => e' | None => e end
  | EClear => enum_clear e
  end.
Definition enum_ok (e : enum) (o : enum_op) : bool :=
  match o with
  | EAdd nm idx => match enum_add e nm idx with Some _ => true | None => false end
  | ERemove nm => match enum_remove e nm with Some _ => true | None => false end
  | ESetMin _ => true
  | EUpdate nm idx => match enum_update e nm idx with Some _ => true | None => false end
  | EClear => true
  end.
Definition enum_run (ops : list enum_op) : enum := fold_left enum_step ops enum_new.

(* MultiplexerSignal.GetGroupCountSize / GetSize *)
Definition mux_selector_size (group_count : Z) : Z := calc_size (s64 (group_count - 1)).
Definition mux_size (group_count group_size : Z) : Z := s64 (group_size + mux_selector_size group_count).

(* exchange with Go: math.Float64bits / Float64frombits *)
Definition f64_of_bits (b : Z) : f64 := b64_of_bits b.
Definition bits_of_f64 (f : f64) : Z := bits_of_b64 f.
