(* C03 — proofs about Acme.C03.Model (integer part: wrap arithmetic, sign extension, decode of
   integer kinds, flags, enums, ranges, size helpers).  The binary64 part is in ProofsFloat.v. *)
From Coq Require Import ZArith List Bool Lia ZifyBool.
From Acme.C03 Require Import Model Spec.
Import ListNotations.
Local Open Scope Z_scope.

Lemma two64_eq : two64 = 2 ^ 64. Proof. reflexivity. Qed.
Lemma two63_eq : two63 = 2 ^ 63. Proof. reflexivity. Qed.

(* ------------------------------------------------------------------ wrap arithmetic *)
Lemma u64_small z : 0 <= z < two64 -> u64 z = z.
Proof. intros H. unfold u64. apply Z.mod_small. exact H. Qed.

Lemma u64_range z : 0 <= u64 z < two64.
Proof. unfold u64. apply Z.mod_pos_bound. reflexivity. Qed.

Lemma s64_small z : - two63 <= z < two63 -> s64 z = z.
Proof.
  intros H. unfold s64. cbv zeta.
  assert (E : two64 = 2 * two63) by reflexivity.
  destruct (Z_lt_le_dec z 0) as [Hn | Hp].
  - replace (z mod two64) with (z + two64).
    + destruct (z + two64 <? two63) eqn:C; lia.
    + apply Z.mod_unique with (q := -1); lia.
  - rewrite Z.mod_small by lia. destruct (z <? two63) eqn:C; lia.
Qed.

Lemma s64_range z : - two63 <= s64 z < two63.
Proof.
  unfold s64. cbv zeta. pose proof (Z.mod_pos_bound z two64 eq_refl) as B.
  assert (E : two64 = 2 * two63) by reflexivity.
  destruct (z mod two64 <? two63) eqn:C; lia.
Qed.

Lemma s64_cong a b : a mod two64 = b mod two64 -> s64 a = s64 b.
Proof. intros H. unfold s64. rewrite H. reflexivity. Qed.

Lemma s64_mod_eq z : (s64 z) mod two64 = z mod two64.
Proof.
  unfold s64. cbv zeta. destruct (z mod two64 <? two63).
  - apply Z.mod_mod. discriminate.
  - replace (z mod two64 - two64) with (z mod two64 + (-1) * two64) by ring.
    rewrite Z.mod_add by discriminate. apply Z.mod_mod. discriminate.
Qed.

(* int64 arithmetic that wraps at every step equals one wrap at the end *)
Lemma s64_mul_add a b c : s64 (s64 a * b + c) = s64 (a * b + c).
Proof.
  apply s64_cong.
  rewrite Z.add_mod by discriminate. rewrite Z.mul_mod by discriminate.
  rewrite s64_mod_eq.
  rewrite <- Z.mul_mod by discriminate. rewrite <- Z.add_mod by discriminate. reflexivity.
Qed.

Lemma shl_u64_pow2 i : 0 <= i < 64 -> shl_u64 1 i = 2 ^ i.
Proof.
  intros H. unfold shl_u64. destruct (i <? 64) eqn:C; [|lia].
  rewrite Z.mul_1_l. apply u64_small. rewrite two64_eq. split.
  - apply Z.pow_nonneg. lia.
  - apply Z.pow_lt_mono_r; lia.
Qed.

Lemma shl_int_pow2 i : 0 <= i < 63 -> shl_int 1 i = 2 ^ i.
Proof.
  intros H. unfold shl_int. destruct (i <? 64) eqn:C; [|lia].
  rewrite Z.mul_1_l. apply s64_small. rewrite two63_eq. split.
  - pose proof (Z.pow_nonneg 2 i). lia.
  - apply Z.pow_lt_mono_r; lia.
Qed.

Lemma shl_int_63 : shl_int 1 63 = - two63.
Proof. reflexivity. Qed.

(* ------------------------------------------------------------------ sign extension *)
Lemma land_pow2 a k : 0 <= k -> Z.land a (2 ^ k) = if Z.testbit a k then 2 ^ k else 0.
Proof.
  intros Hk. apply Z.bits_inj'. intros i Hi.
  rewrite Z.land_spec, Z.pow2_bits_eqb by exact Hk.
  destruct (Z.eqb_spec k i) as [->|Hne].
  - destruct (Z.testbit a i) eqn:E.
    + rewrite Z.pow2_bits_true by exact Hi. reflexivity.
    + rewrite Z.bits_0. reflexivity.
  - rewrite andb_false_r. destruct (Z.testbit a k).
    + rewrite Z.pow2_bits_false by exact Hne. reflexivity.
    + rewrite Z.bits_0. reflexivity.
Qed.

Lemma testbit_top n raw : 1 <= n -> 0 <= raw < 2 ^ n ->
  Z.testbit raw (n - 1) = (2 ^ (n - 1) <=? raw).
Proof.
  intros Hn Hr.
  assert (P : 2 ^ n = 2 * 2 ^ (n - 1)).
  { replace n with (Z.succ (n - 1)) at 1 by lia. apply Z.pow_succ_r. lia. }
  assert (Pp : 0 < 2 ^ (n - 1)) by (apply Z.pow_pos_nonneg; lia).
  destruct (Z.leb_spec (2 ^ (n - 1)) raw) as [Hge | Hlt].
  - apply Z.testbit_true; [lia|].
    replace (raw / 2 ^ (n - 1)) with 1; [reflexivity|].
    apply Z.div_unique with (r := raw - 2 ^ (n - 1)); lia.
  - apply Z.testbit_false; [lia|].
    rewrite Z.div_small by lia. reflexivity.
Qed.

Lemma land_low_high raw n x : 0 <= n -> 0 <= raw < 2 ^ n -> Z.land raw (Z.shiftl x n) = 0.
Proof.
  intros Hn Hr. apply Z.bits_inj'. intros i Hi.
  rewrite Z.land_spec, Z.bits_0.
  destruct (Z_lt_le_dec i n) as [Hlt | Hge].
  - rewrite Z.shiftl_spec_low by exact Hlt. apply andb_false_r.
  - replace (Z.testbit raw i) with false; [reflexivity|].
    symmetry. apply Z.testbit_false; [exact Hi|].
    rewrite Z.div_small; [reflexivity|].
    split; [lia|]. apply Z.lt_le_trans with (2 ^ n); [lia|].
    apply Z.pow_le_mono_r; lia.
Qed.

Lemma shl_ones n : 1 <= n <= 64 -> shl_u64 (two64 - 1) n = two64 - 2 ^ n.
Proof.
  intros Hn. unfold shl_u64. destruct (Z.ltb_spec n 64) as [Hlt | Hge].
  - unfold u64.
    assert (P : two64 = 2 ^ n * 2 ^ (64 - n)).
    { rewrite <- Z.pow_add_r by lia. rewrite two64_eq. f_equal. lia. }
    assert (Pn : 0 < 2 ^ n) by (apply Z.pow_pos_nonneg; lia).
    assert (Pm : 1 <= 2 ^ (64 - n)).
    { pose proof (Z.pow_pos_nonneg 2 (64 - n)). lia. }
    symmetry. apply Z.mod_unique with (q := 2 ^ n - 1).
    + left. nia.
    + rewrite P. ring.
  - replace n with 64 by lia. reflexivity.
Qed.

Lemma two64_minus_pow2_shiftl n : 1 <= n <= 64 ->
  two64 - 2 ^ n = Z.shiftl (2 ^ (64 - n) - 1) n.
Proof.
  intros Hn. rewrite Z.shiftl_mul_pow2 by lia.
  rewrite Z.mul_sub_distr_r. rewrite <- Z.pow_add_r by lia.
  replace (64 - n + n) with 64 by lia. rewrite two64_eq. ring.
Qed.

Theorem ext_raw_sext n raw : 1 <= n <= 64 -> 0 <= raw < 2 ^ n ->
  s64 (ext_raw true n raw) = sext n raw.
Proof.
  intros Hn Hr. unfold ext_raw, sext.
  rewrite shl_u64_pow2 by lia. rewrite land_pow2 by lia.
  rewrite testbit_top by lia.
  assert (Pp : 0 < 2 ^ (n - 1)) by (apply Z.pow_pos_nonneg; lia).
  assert (P : 2 ^ n = 2 * 2 ^ (n - 1)).
  { replace n with (Z.succ (n - 1)) at 1 by lia. apply Z.pow_succ_r. lia. }
  assert (Ple : 2 ^ n <= two64).
  { rewrite two64_eq. apply Z.pow_le_mono_r; lia. }
  assert (Phalf : 2 ^ (n - 1) <= two63).
  { rewrite two63_eq. apply Z.pow_le_mono_r; lia. }
  destruct (Z.leb_spec (2 ^ (n - 1)) raw) as [Hge | Hlt].
  - replace (2 ^ (n - 1) =? 0) with false by lia. cbn [negb andb].
    rewrite shl_ones by lia.
    rewrite <- Z.lxor_lor, <- Z.add_nocarry_lxor;
      try (rewrite two64_minus_pow2_shiftl by lia; apply land_low_high; lia).
    replace (raw + (two64 - 2 ^ n)) with (raw - 2 ^ n + 1 * two64) by ring.
    unfold s64. cbv zeta. rewrite Z.mod_add by discriminate.
    assert (E : two64 = 2 * two63) by reflexivity.
    replace ((raw - 2 ^ n) mod two64) with (raw - 2 ^ n + two64).
    + destruct (raw - 2 ^ n + two64 <? two63) eqn:C; lia.
    + apply Z.mod_unique with (q := -1); lia.
  - replace (0 =? 0) with true by reflexivity. cbn [negb andb].
    apply s64_small. lia.
Qed.

Lemma sext_range n raw : 1 <= n -> 0 <= raw < 2 ^ n -> - 2 ^ (n - 1) <= sext n raw < 2 ^ (n - 1).
Proof.
  intros Hn Hr. unfold sext. rewrite testbit_top by lia.
  assert (P : 2 ^ n = 2 * 2 ^ (n - 1)).
  { replace n with (Z.succ (n - 1)) at 1 by lia. apply Z.pow_succ_r. lia. }
  destruct (Z.leb_spec (2 ^ (n - 1)) raw); lia.
Qed.

(* two's complement reading: sext is the unique value in the signed range congruent to raw *)
Lemma sext_congr n raw : 1 <= n -> 0 <= raw < 2 ^ n -> (sext n raw) mod 2 ^ n = raw.
Proof.
  intros Hn Hr. unfold sext. destruct (Z.testbit raw (n - 1)).
  - replace (raw - 2 ^ n) with (raw + (-1) * 2 ^ n) by ring.
    rewrite Z.mod_add by lia. apply Z.mod_small. exact Hr.
  - apply Z.mod_small. exact Hr.
Qed.

Theorem sext_twos_complement n raw : 1 <= n -> 0 <= raw < 2 ^ n ->
  - 2 ^ (n - 1) <= sext n raw < 2 ^ (n - 1) /\ (sext n raw) mod 2 ^ n = raw.
Proof. intros Hn Hr. split; [exact (sext_range n raw Hn Hr) | exact (sext_congr n raw Hn Hr)]. Qed.

(* ------------------------------------------------------------------ integer decoding (Z level) *)
(* the conversions int64(scale) etc. are discharged in ProofsFloat.v; here they are parameters *)
Definition decode_int_z (signed : bool) (n sc off raw : Z) : Z :=
  if signed then s64 (s64 (ext_raw true n raw) * sc + off) else u64 (raw * sc + off).

Theorem decode_int_z_signed n sc off raw :
  1 <= n <= 64 -> 0 <= raw < 2 ^ n ->
  - two63 <= sext n raw * sc + off < two63 ->
  decode_int_z true n sc off raw = sext n raw * sc + off.
Proof.
  intros Hn Hr Hrep. unfold decode_int_z.
  rewrite ext_raw_sext by assumption. apply s64_small. exact Hrep.
Qed.

Theorem decode_int_z_unsigned n sc off raw :
  0 <= raw * sc + off < two64 ->
  decode_int_z false n sc off raw = raw * sc + off.
Proof. intros H. unfold decode_int_z. apply u64_small. exact H. Qed.

(* unsigned with parameters that were negative before the uint64 conversion (u64 sc, u64 off):
   the wrap cancels as long as the true result is representable *)
Theorem decode_int_z_unsigned_wrapped n sc off raw :
  0 <= raw * sc + off < two64 ->
  decode_int_z false n (u64 sc) (u64 off) raw = raw * sc + off.
Proof.
  intros H. unfold decode_int_z, u64.
  rewrite Z.add_mod by discriminate. rewrite Z.mul_mod by discriminate.
  rewrite !Z.mod_mod by discriminate.
  rewrite <- Z.mul_mod by discriminate. rewrite <- Z.add_mod by discriminate.
  apply Z.mod_small. exact H.
Qed.

Theorem decode_flag_spec raw : decode_flag raw = true <-> raw <> 0.
Proof. unfold decode_flag. destruct (Z.eqb_spec raw 0); split; intros; try congruence; try discriminate. reflexivity. Qed.

(* ------------------------------------------------------------------ enum decoding *)
Theorem decode_enum_hit vs raw nm :
  0 <= raw < two64 ->
  Forall (fun p => - two63 <= snd p < two63) vs ->
  NoDup (map snd vs) ->
  In (nm, raw) vs -> decode_enum vs raw = Some nm.
Proof.
  intros Hr. induction vs as [|[nm' idx'] tl IH]; intros Hall Hnd Hin; [contradiction|].
  cbn [decode_enum]. inversion Hall as [|? ? Hhd Htl]; subst. cbn [snd] in Hhd.
  cbn [map snd] in Hnd. inversion Hnd as [|? ? Hnotin Hnd']; subst.
  destruct Hin as [E | Hin].
  - inversion E; subst. replace (0 <=? raw) with true by lia.
    rewrite u64_small by exact Hr. rewrite Z.eqb_refl. reflexivity.
  - destruct ((0 <=? idx') && (u64 idx' =? raw)) eqn:C.
    + exfalso. apply andb_prop in C. destruct C as [C1 C2].
      rewrite u64_small in C2 by (unfold two63, two64 in *; lia).
      apply Hnotin. apply in_map_iff. exists (nm, raw). split; [cbn; lia | exact Hin].
    + apply IH; assumption.
Qed.

Theorem decode_enum_miss vs raw :
  0 <= raw < two64 ->
  Forall (fun p => - two63 <= snd p < two63) vs ->
  ~ In raw (map snd vs) -> decode_enum vs raw = None.
Proof.
  intros Hr. induction vs as [|[nm' idx'] tl IH]; intros Hall Hnot; [reflexivity|].
  cbn [decode_enum]. inversion Hall as [|? ? Hhd Htl]; subst. cbn [snd] in Hhd.
  destruct ((0 <=? idx') && (u64 idx' =? raw)) eqn:C.
  - exfalso. apply andb_prop in C. destruct C as [C1 C2].
    rewrite u64_small in C2 by (unfold two63, two64 in *; lia).
    apply Hnot. left. cbn. lia.
  - apply IH; [assumption|]. intros Hin. apply Hnot. right. exact Hin.
Qed.

(* map iteration order is irrelevant: any permutation of the entries gives the same answer *)
Theorem decode_enum_order_free vs vs' raw :
  0 <= raw < two64 ->
  Forall (fun p => - two63 <= snd p < two63) vs ->
  NoDup (map snd vs) ->
  (forall p, In p vs <-> In p vs') -> NoDup (map snd vs') ->
  decode_enum vs raw = decode_enum vs' raw.
Proof.
  intros Hr Hall Hnd Hperm Hnd'.
  assert (Hall' : Forall (fun p => - two63 <= snd p < two63) vs').
  { apply Forall_forall. intros p Hp. rewrite Forall_forall in Hall. apply Hall. apply Hperm. exact Hp. }
  destruct (in_dec Z.eq_dec raw (map snd vs)) as [Hin | Hnot].
  - apply in_map_iff in Hin. destruct Hin as [[nm idx] [E Hin]]. cbn in E. subst idx.
    rewrite (decode_enum_hit vs raw nm) by assumption.
    symmetry. apply decode_enum_hit; try assumption. apply Hperm. exact Hin.
  - rewrite decode_enum_miss by assumption. symmetry. apply decode_enum_miss; try assumption.
    intros Hin. apply Hnot. apply in_map_iff in Hin. destruct Hin as [p [E Hp]].
    apply in_map_iff. exists p. split; [exact E|]. apply Hperm. exact Hp.
Qed.

(* ------------------------------------------------------------------ calcSizeFromValue *)

Lemma calc_size_loop_spec fuel : forall i v,
  0 <= i -> i + Z.of_nat fuel = 64 -> 0 <= v < two63 ->
  (forall j, 0 <= j < i -> 2 ^ j <= v) ->
  let r := calc_size_loop fuel i v in
  i <= r <= 63 /\ v < 2 ^ r /\ (forall j, 0 <= j < r -> 2 ^ j <= v).
Proof.
  induction fuel as [|f IH]; intros i v Hi Hf Hv Hlow; cbn [calc_size_loop].
  - exfalso. assert (i = 64) by lia. subst i.
    specialize (Hlow 63 ltac:(lia)). rewrite two63_eq in Hv. lia.
  - rewrite u64_small by (unfold two63, two64 in *; lia).
    rewrite shl_u64_pow2 by lia.
    destruct (Z.ltb_spec v (2 ^ i)) as [Hlt | Hge].
    + cbv zeta. split; [|split]; [|exact Hlt|exact Hlow].
      split; [lia|]. destruct (Z_le_gt_dec i 63); [assumption|].
      exfalso. assert (i = 64) by lia. subst i. specialize (Hlow 63 ltac:(lia)).
      rewrite two63_eq in Hv. lia.
    + assert (Hi63 : i < 63 \/ i = 63) by lia. destruct Hi63 as [Hi63 | ->].
      * specialize (IH (i + 1) v ltac:(lia) ltac:(lia) Hv).
        cbv zeta in IH. destruct IH as [[I1 I2] [I3 I4]].
        { intros j Hj. destruct (Z.eq_dec j i) as [->|]; [exact Hge|]. apply Hlow. lia. }
        cbv zeta. repeat split; try lia; assumption.
      * exfalso. rewrite two63_eq in Hv. lia.
Qed.

Theorem calc_size_spec v : 0 <= v < two63 -> calc_size v = bit_width v.
Proof.
  intros Hv. unfold calc_size, bit_width.
  destruct (Z.eqb_spec v 0) as [->|Hne]; [reflexivity|].
  pose proof (calc_size_loop_spec 64 0 v ltac:(lia) eq_refl Hv ltac:(intros; lia)) as H.
  cbv zeta in H. destruct H as [[H1 H2] [H3 H4]].
  set (r := calc_size_loop 64 0 v) in *.
  assert (Hr : 1 <= r).
  { destruct (Z_le_gt_dec 1 r); [assumption|]. exfalso. assert (r = 0) by lia.
    rewrite H in H3. cbn in H3. lia. }
  assert (L : Z.log2 v = r - 1).
  { apply Z.log2_unique; [lia|]. split.
    - apply H4. lia.
    - replace (Z.succ (r - 1)) with r by lia. exact H3. }
  rewrite L. lia.
Qed.

(* bit_width is the smallest width (>= 1) whose range 0..2^w-1 contains v *)
Theorem bit_width_fits v : 0 <= v -> v < 2 ^ bit_width v.
Proof.
  intros Hv. unfold bit_width. destruct (Z.eq_dec v 0) as [->|Hne]; [reflexivity|].
  pose proof (Z.log2_nonneg v).
  replace (Z.max 1 (Z.log2 v + 1)) with (Z.succ (Z.log2 v)) by lia.
  apply Z.log2_spec. lia.
Qed.

Theorem bit_width_minimal v w : 0 <= v -> 1 <= w -> v < 2 ^ w -> bit_width v <= w.
Proof.
  intros Hv Hw Hlt. unfold bit_width. destruct (Z.eq_dec v 0) as [->|Hne]; [cbn; lia|].
  assert (Z.log2 v < w) by (apply Z.log2_lt_pow2; lia). lia.
Qed.

Theorem calc_size_fits v : 0 <= v < two63 -> v < 2 ^ calc_size v.
Proof. intros H. rewrite (calc_size_spec v H). apply bit_width_fits. apply H. Qed.

Theorem calc_size_minimal v w : 0 <= v < two63 -> 1 <= w -> v < 2 ^ w -> calc_size v <= w.
Proof. intros H Hw Hlt. rewrite (calc_size_spec v H). apply bit_width_minimal; [apply H | exact Hw | exact Hlt]. Qed.

Theorem calc_value_spec n : 1 <= n <= 62 -> calc_value n = 2 ^ n.
Proof.
  intros Hn. unfold calc_value. replace (n <=? 0) with false by lia. apply shl_int_pow2. lia.
Qed.

(* the importer turns a selector width into a group count with calcValueFromSize; the selector
   width computed back from that count is the same width *)
Theorem calc_size_calc_value n : 1 <= n <= 62 -> calc_size (calc_value n - 1) = n.
Proof.
  intros Hn. rewrite calc_value_spec by exact Hn.
  assert (P : 2 ^ n = 2 * 2 ^ (n - 1)).
  { replace n with (Z.succ (n - 1)) at 1 by lia. apply Z.pow_succ_r. lia. }
  assert (Pp : 0 < 2 ^ (n - 1)) by (apply Z.pow_pos_nonneg; lia).
  assert (Plt : 2 ^ n < two63) by (rewrite two63_eq; apply Z.pow_lt_mono_r; lia).
  rewrite calc_size_spec by lia. unfold bit_width.
  assert (L : Z.log2 (2 ^ n - 1) = n - 1).
  { apply Z.log2_unique; [lia|]. replace (Z.succ (n - 1)) with n by lia. lia. }
  rewrite L. lia.
Qed.

(* ------------------------------------------------------------------ enum size *)
Definition indexes (e : enum) : list Z := map snd (e_values e).
Definition names (e : enum) : list Z := map fst (e_values e).

Lemma is_max_unique vs m m' : is_max vs m -> is_max vs m' -> m = m'.
Proof.
  intros [A1 [A2 A3]] [B1 [B2 B3]].
  destruct A2 as [->|A2], B2 as [->|B2]; try reflexivity.
  - specialize (A3 _ B2). lia.
  - specialize (B3 _ A2). lia.
  - specialize (A3 _ B2). specialize (B3 _ A2). lia.
Qed.

Lemma max_of_fold (vs : list (Z * Z)) : forall m0, 0 <= m0 ->
  let m := fold_left (fun m (p : Z * Z) => if snd p >? m then snd p else m) vs m0 in
  m0 <= m /\ (m = m0 \/ In m (map snd vs)) /\ (forall i, In i (map snd vs) -> i <= m).
Proof.
  induction vs as [|[nm idx] tl IH]; intros m0 H0; cbn [fold_left map snd].
  - cbv zeta. split; [lia|]. split; [left; reflexivity | intros i []].
  - cbv zeta. destruct (Z.gtb_spec idx m0) as [Hgt | Hle].
    + specialize (IH idx ltac:(lia)). cbv zeta in IH. destruct IH as [I1 [I2 I3]].
      split; [lia|]. split.
      * destruct I2 as [->|I2]; right; [left; reflexivity | right; exact I2].
      * intros i [<-|Hi]; [lia | apply I3; exact Hi].
    + specialize (IH m0 H0). cbv zeta in IH. destruct IH as [I1 [I2 I3]].
      split; [lia|]. split.
      * destruct I2 as [I2|I2]; [left; exact I2 | right; right; exact I2].
      * intros i [<-|Hi]; [lia | apply I3; exact Hi].
Qed.

Lemma max_of_is_max vs : is_max vs (max_of vs).
Proof.
  unfold max_of. pose proof (max_of_fold vs 0 ltac:(lia)) as H. cbv zeta in H.
  destruct H as [H1 [H2 H3]]. split; [lia|]. split; assumption.
Qed.

Definition enum_inv (e : enum) : Prop :=
  NoDup (names e) /\ NoDup (indexes e) /\ is_max (e_values e) (e_max e).

Lemma enum_inv_new : enum_inv enum_new.
Proof.
  unfold enum_inv, names, indexes, enum_new. cbn.
  split; [constructor|]. split; [constructor|].
  split; [lia|]. split; [left; reflexivity | intros i []].
Qed.

Lemma has_index_false vs idx : has_index vs idx = false -> ~ In idx (map snd vs).
Proof.
  unfold has_index. intros H Hin. apply in_map_iff in Hin. destruct Hin as [p [E Hp]].
  assert (X : existsb (fun p => snd p =? idx) vs = true).
  { apply existsb_exists. exists p. split; [exact Hp | lia]. }
  congruence.
Qed.

Lemma has_name_false vs nm : has_name vs nm = false -> ~ In nm (map fst vs).
Proof.
  unfold has_name. intros H Hin. apply in_map_iff in Hin. destruct Hin as [p [E Hp]].
  assert (X : existsb (fun p => fst p =? nm) vs = true).
  { apply existsb_exists. exists p. split; [exact Hp | lia]. }
  congruence.
Qed.

Lemma NoDup_app_one {A} (l : list A) (x : A) : NoDup l -> ~ In x l -> NoDup (l ++ [x]).
Proof.
  intros Hnd Hx. induction l as [|a tl IH]; cbn.
  - constructor; [intros []|constructor].
  - inversion Hnd; subst. constructor.
    + rewrite in_app_iff. intros [H|[H|[]]]; [contradiction | subst; apply Hx; left; reflexivity].
    + apply IH; [assumption|]. intros H. apply Hx. right. exact H.
Qed.

Lemma set_index_in nm idx vs x :
  In x (map snd (map (set_index nm idx) vs)) -> In x (map snd vs) \/ x = idx.
Proof.
  induction vs as [|a tl IH]; cbn [map]; intros H; [contradiction|].
  destruct H as [H|H].
  - unfold set_index in H. destruct (fst a =? nm); cbn in H; [right; lia | left; left; exact H].
  - destruct (IH H) as [H'|H']; [left; right; exact H' | right; exact H'].
Qed.

Lemma set_index_other nm idx vs : ~ In nm (map fst vs) -> map (set_index nm idx) vs = vs.
Proof.
  induction vs as [|a tl IH]; cbn [map]; intros H; [reflexivity|].
  unfold set_index at 1. destruct (Z.eqb_spec (fst a) nm) as [E|NE].
  - exfalso. apply H. left. exact E.
  - rewrite IH; [reflexivity|]. intros Hin. apply H. right. exact Hin.
Qed.

Lemma set_index_nodup nm idx vs :
  NoDup (map fst vs) -> NoDup (map snd vs) -> ~ In idx (map snd vs) ->
  NoDup (map snd (map (set_index nm idx) vs)).
Proof.
  induction vs as [|a tl IH]; cbn [map]; intros Hn Hi Hx; [constructor|].
  inversion Hn as [|? ? Hn1 Hn2]; subst. inversion Hi as [|? ? Hi1 Hi2]; subst.
  unfold set_index at 1. destruct (Z.eqb_spec (fst a) nm) as [E|NE].
  - cbn [snd]. rewrite set_index_other by (rewrite <- E; exact Hn1).
    constructor; [|exact Hi2]. intros Hin. apply Hx. right. exact Hin.
  - constructor.
    + intros Hin. destruct (set_index_in _ _ _ _ Hin) as [H|H]; [contradiction|].
      apply Hx. left. exact H.
    + apply IH; [exact Hn2 | exact Hi2 |]. intros Hin. apply Hx. right. exact Hin.
Qed.

Lemma enum_inv_step e o : enum_inv e -> enum_inv (enum_step e o).
Proof.
  intros [Hn [Hi Hm]]. destruct o as [nm idx | nm | m | nm idx | ]; cbn [enum_step].
  - unfold enum_add. destruct (has_index (e_values e) idx || has_name (e_values e) nm) eqn:C.
    + split; [|split]; assumption.
    + apply orb_false_elim in C. destruct C as [C1 C2].
      apply has_index_false in C1. apply has_name_false in C2.
      unfold enum_inv, names, indexes. cbn [e_values e_max e_min].
      rewrite !map_app. cbn [map fst snd].
      split; [apply NoDup_app_one; assumption|].
      split; [apply NoDup_app_one; assumption|].
      destruct Hm as [M1 [M2 M3]]. unfold is_max. rewrite map_app. cbn [map snd].
      destruct (Z.gtb_spec idx (e_max e)) as [Hgt | Hle].
      * split; [lia|]. split.
        -- right. apply in_app_iff. right. left. reflexivity.
        -- intros i Hin. apply in_app_iff in Hin. destruct Hin as [Hin|[<-|[]]]; [|lia].
           specialize (M3 _ Hin). lia.
      * split; [lia|]. split.
        -- destruct M2 as [M2|M2]; [left; exact M2 | right; apply in_app_iff; left; exact M2].
        -- intros i Hin. apply in_app_iff in Hin. destruct Hin as [Hin|[<-|[]]]; [|lia].
           apply M3. exact Hin.
  - unfold enum_remove.
    destruct (find (fun p => fst p =? nm) (e_values e)) as [[nm' idx]|] eqn:F.
    2:{ split; [|split]; assumption. }
    apply find_some in F. destruct F as [Fin Feq]. cbn [fst] in Feq.
    assert (nm' = nm) by lia. subst nm'.
    set (vs := filter (fun p => negb (fst p =? nm)) (e_values e)).
    assert (Sub : forall p, In p vs -> In p (e_values e)).
    { intros p Hp. apply filter_In in Hp. tauto. }
    assert (Keep : forall p, In p (e_values e) -> fst p <> nm -> In p vs).
    { intros p Hp Hne. apply filter_In. split; [exact Hp|]. destruct (Z.eqb_spec (fst p) nm); [contradiction|reflexivity]. }
    assert (NDmap : forall (f : Z * Z -> Z), NoDup (map f (e_values e)) -> NoDup (map f vs)).
    { intros f. unfold vs. generalize (e_values e). induction l as [|a tl IH]; cbn; intros H; [constructor|].
      inversion H; subst. destruct (negb (fst a =? nm)); cbn.
      - constructor; [|apply IH; assumption]. intros Hin. apply H2.
        apply in_map_iff in Hin. destruct Hin as [p [E Hp]]. apply in_map_iff. exists p.
        split; [exact E|]. apply filter_In in Hp. tauto.
      - apply IH; assumption. }
    unfold enum_inv, names, indexes. cbn [e_values e_max e_min]. fold vs.
    split; [apply NDmap; exact Hn|]. split; [apply NDmap; exact Hi|].
    destruct (Z.eqb_spec idx (e_max e)) as [Heq | Hne]; [apply max_of_is_max|].
    destruct Hm as [M1 [M2 M3]]. split; [exact M1|]. split.
    + destruct M2 as [M2|M2]; [left; exact M2|]. right.
      apply in_map_iff in M2. destruct M2 as [[nm2 idx2] [E Hp]]. cbn in E. subst idx2.
      apply in_map_iff. exists (nm2, e_max e). split; [reflexivity|].
      apply Keep; [exact Hp|]. cbn. intros ->.
      (* same name, NoDup names => same entry => idx = e_max *)
      apply Hne. clear - Hn Fin Hp. unfold names in Hn.
      induction (e_values e) as [|a tl IH]; [contradiction|].
      cbn in Hn. inversion Hn; subst.
      destruct Fin as [->|Fin], Hp as [Hp|Hp].
      * inversion Hp. reflexivity.
      * exfalso. apply H1. apply in_map_iff. exists (nm, e_max e). split; [reflexivity|exact Hp].
      * subst a. exfalso. apply H1. apply in_map_iff. exists (nm, idx). split; [reflexivity|exact Fin].
      * apply IH; assumption.
    + intros i Hin. apply M3. apply in_map_iff in Hin. destruct Hin as [p [E Hp]].
      apply in_map_iff. exists p. split; [exact E | apply Sub; exact Hp].
  - split; [|split]; assumption.
  - (* UpdateIndex *)
    unfold enum_update.
    destruct (find (fun p => fst p =? nm) (e_values e)) as [[nm' old]|] eqn:F.
    2:{ split; [|split]; assumption. }
    destruct (old =? idx); [split; [|split]; assumption|].
    destruct (has_index (e_values e) idx) eqn:C; [split; [|split]; assumption|].
    apply has_index_false in C.
    unfold enum_inv, names, indexes. cbn [e_values e_max e_min].
    split; [|split].
    + rewrite map_map. erewrite map_ext; [exact Hn|].
      intros p. unfold set_index. destruct (Z.eqb_spec (fst p) nm) as [E|NE]; [cbn; lia | reflexivity].
    + apply set_index_nodup; assumption.
    + apply max_of_is_max.
  - (* RemoveAllValues *)
    unfold enum_inv, names, indexes, enum_clear. cbn [e_values e_max map].
    split; [constructor|]. split; [constructor|].
    split; [lia|]. split; [left; reflexivity | intros i []].
Qed.

Theorem enum_inv_reachable ops : enum_inv (enum_run ops).
Proof.
  unfold enum_run. generalize enum_inv_new. generalize enum_new.
  induction ops as [|o tl IH]; intros e He; cbn [fold_left]; [exact He|].
  apply IH. apply enum_inv_step. exact He.
Qed.

(* the cached maximum is the real maximum after every history *)
Theorem enum_max_exact ops : e_max (enum_run ops) = max_of (e_values (enum_run ops)).
Proof.
  destruct (enum_inv_reachable ops) as [_ [_ Hm]].
  apply (is_max_unique (e_values (enum_run ops))); [exact Hm | apply max_of_is_max].
Qed.


Theorem enum_size_spec e : 0 <= e_max e < two63 -> enum_size e = enum_width (e_min e) (e_max e).
Proof.
  intros H. unfold enum_size, enum_width. cbv zeta. rewrite calc_size_spec by exact H.
  destruct (Z.gtb_spec (e_min e) (bit_width (e_max e))); lia.
Qed.

(* smallest width that is at least the configured minimum and can hold the largest index *)
Theorem enum_width_fits mn mx : 0 <= mx -> mn <= enum_width mn mx /\ 1 <= enum_width mn mx /\ mx < 2 ^ enum_width mn mx.
Proof.
  intros H. unfold enum_width. pose proof (bit_width_fits mx H) as F.
  assert (B : 1 <= bit_width mx) by (unfold bit_width; lia).
  repeat split; try lia.
  apply Z.lt_le_trans with (2 ^ bit_width mx); [exact F|]. apply Z.pow_le_mono_r; lia.
Qed.

Theorem enum_width_minimal mn mx w : 0 <= mx -> mn <= w -> 1 <= w -> mx < 2 ^ w -> enum_width mn mx <= w.
Proof.
  intros H Hm Hw Hlt. unfold enum_width. pose proof (bit_width_minimal mx w H Hw Hlt). lia.
Qed.

Lemma is_max_bound vs m : is_max vs m -> Forall (fun p => snd p < two63) vs -> 0 <= m < two63.
Proof.
  intros [M1 [M2 M3]] Hall. split; [exact M1|]. destruct M2 as [->|M2]; [reflexivity|].
  apply in_map_iff in M2. destruct M2 as [p [E Hp]]. rewrite Forall_forall in Hall.
  specialize (Hall _ Hp). lia.
Qed.

Lemma enum_values_bounded ops : Forall op_in_range ops ->
  Forall (fun p => snd p < two63) (e_values (enum_run ops)).
Proof.
  unfold enum_run. assert (H0 : Forall (fun p : Z * Z => snd p < two63) (e_values enum_new)) by constructor.
  revert H0. generalize enum_new. induction ops as [|o tl IH]; intros e He Hops; cbn [fold_left]; [exact He|].
  inversion Hops; subst. apply IH; [|assumption].
  destruct o as [nm idx | nm | m | nm idx | ]; cbn [enum_step].
  - unfold enum_add. destruct (has_index (e_values e) idx || has_name (e_values e) nm); [exact He|].
    cbn [e_values]. apply Forall_app. split; [exact He|]. constructor; [|constructor]. cbn in *. lia.
  - unfold enum_remove. destruct (find _ _) as [[? ?]|]; [|exact He]. cbn [e_values].
    apply Forall_forall. intros p Hp. apply filter_In in Hp. rewrite Forall_forall in He. apply He. tauto.
  - exact He.
  - unfold enum_update. destruct (find _ _) as [[? old]|]; [|exact He].
    destruct (old =? idx); [exact He|]. destruct (has_index (e_values e) idx); [exact He|].
    cbn [e_values]. apply Forall_forall. intros p Hp. apply in_map_iff in Hp. destruct Hp as [q [E Hq]].
    rewrite Forall_forall in He. specialize (He q Hq). unfold set_index in E.
    destruct (fst q =? nm); subst p; [cbn in *; lia | exact He].
  - constructor.
Qed.

(* GetSize after any history of AddValue / RemoveValue / SetMinSize *)
Theorem enum_size_reachable ops : Forall op_in_range ops ->
  let e := enum_run ops in
  enum_size e = enum_width (e_min e) (max_of (e_values e)).
Proof.
  intros Hops e. pose proof (enum_max_exact ops) as Hm. fold e in Hm.
  rewrite <- Hm. apply enum_size_spec.
  destruct (enum_inv_reachable ops) as [_ [_ Hmax]]. fold e in Hmax.
  apply (is_max_bound (e_values e)); [exact Hmax|]. apply enum_values_bounded. exact Hops.
Qed.

Theorem enum_size_history ops m : Forall op_in_range ops ->
  is_max (e_values (enum_run ops)) m ->
  enum_size (enum_run ops) = enum_width (e_min (enum_run ops)) m.
Proof.
  intros Hops Hm. pose proof (enum_size_reachable ops Hops) as H. cbv zeta in H. rewrite H.
  f_equal. apply (is_max_unique (e_values (enum_run ops))); [apply max_of_is_max | exact Hm].
Qed.

(* enum decoding on the enums that histories can build: the hypotheses of decode_enum_hit / _miss
   (indexes unique, in the Go int range) hold in every reachable enum *)
Lemma enum_values_in_range ops : Forall op_in_range ops ->
  Forall (fun p => - two63 <= snd p < two63) (e_values (enum_run ops)).
Proof.
  unfold enum_run. assert (H0 : Forall (fun p : Z * Z => - two63 <= snd p < two63) (e_values enum_new)) by constructor.
  revert H0. generalize enum_new. induction ops as [|o tl IH]; intros e He Hops; cbn [fold_left]; [exact He|].
  inversion Hops; subst. apply IH; [|assumption].
  destruct o as [nm idx | nm | m | nm idx | ]; cbn [enum_step].
  - unfold enum_add. destruct (has_index (e_values e) idx || has_name (e_values e) nm); [exact He|].
    cbn [e_values]. apply Forall_app. split; [exact He|]. constructor; [|constructor]. cbn in *. lia.
  - unfold enum_remove. destruct (find _ _) as [[? ?]|]; [|exact He]. cbn [e_values].
    apply Forall_forall. intros p Hp. apply filter_In in Hp. rewrite Forall_forall in He. apply He. tauto.
  - exact He.
  - unfold enum_update. destruct (find _ _) as [[? old]|]; [|exact He].
    destruct (old =? idx); [exact He|]. destruct (has_index (e_values e) idx); [exact He|].
    cbn [e_values]. apply Forall_forall. intros p Hp. apply in_map_iff in Hp. destruct Hp as [q [E Hq]].
    rewrite Forall_forall in He. specialize (He q Hq). unfold set_index in E.
    destruct (fst q =? nm); subst p; [cbn in *; lia | exact He].
  - constructor.
Qed.

Theorem decode_enum_reachable ops raw : Forall op_in_range ops -> 0 <= raw < two64 ->
  let vs := e_values (enum_run ops) in
  NoDup (map snd vs) /\ NoDup (map fst vs) /\
  (forall nm, In (nm, raw) vs -> decode_enum vs raw = Some nm) /\
  (~ In raw (map snd vs) -> decode_enum vs raw = None).
Proof.
  intros Hops Hr vs. destruct (enum_inv_reachable ops) as [Hn [Hi _]]. unfold names, indexes in *. fold vs in Hn, Hi.
  pose proof (enum_values_in_range ops Hops) as Hrg. fold vs in Hrg.
  split; [exact Hi|]. split; [exact Hn|]. split.
  - intros nm Hin. apply decode_enum_hit; assumption.
  - intros Hnot. apply decode_enum_miss; assumption.
Qed.

(* ------------------------------------------------------------------ multiplexer selector *)
Theorem mux_selector_spec c : 1 <= c <= two63 -> mux_selector_size c = bit_width (c - 1).
Proof.
  intros Hc. unfold mux_selector_size. rewrite s64_small by (unfold two63 in *; lia).
  apply calc_size_spec. lia.
Qed.

(* every group id 0..c-1 fits in the selector and no narrower selector (>= 1 bit) does *)
Theorem mux_selector_fits c : 1 <= c <= two63 -> c <= 2 ^ mux_selector_size c.
Proof.
  intros Hc. rewrite mux_selector_spec by exact Hc. pose proof (bit_width_fits (c - 1) ltac:(lia)). lia.
Qed.

Theorem mux_selector_minimal c w : 1 <= c <= two63 -> 1 <= w -> c <= 2 ^ w -> mux_selector_size c <= w.
Proof.
  intros Hc Hw Hle. rewrite mux_selector_spec by exact Hc. apply bit_width_minimal; lia.
Qed.

Theorem mux_size_spec c g : 1 <= c <= two63 -> 0 <= g < two63 - 64 ->
  mux_size c g = g + bit_width (c - 1).
Proof.
  intros Hc Hg. unfold mux_size. rewrite mux_selector_spec by exact Hc.
  apply s64_small. unfold bit_width.
  assert (Z.log2 (c - 1) < 63).
  { destruct (Z.eq_dec c 1) as [->|]; [cbn; lia|]. apply Z.log2_lt_pow2; [lia|]. rewrite <- two63_eq. lia. }
  pose proof (Z.log2_nonneg (c - 1)). unfold two63 in *. lia.
Qed.

(* ------------------------------------------------------------------ ranges (integer level) *)
Definition range_z (signed : bool) (n : Z) : Z * Z :=
  if signed then (s64 (- shl_int 1 (n - 1)), s64 (shl_int 1 (n - 1) - 1))
  else (0, u64 (shl_u64 1 n - 1)).

Definition range_z_ok (n : Z) : bool :=
  let '(lo, hi) := range_z true n in
  let '(ulo, uhi) := range_z false n in
  (lo =? - 2 ^ (n - 1)) && (hi =? 2 ^ (n - 1) - 1) && (ulo =? 0) && (uhi =? 2 ^ n - 1).

Lemma range_z_all : forallb range_z_ok (map Z.of_nat (seq 1 64)) = true.
Proof. vm_compute. reflexivity. Qed.

Theorem range_z_spec signed n : 1 <= n <= 64 ->
  range_z signed n = if signed then (- 2 ^ (n - 1), 2 ^ (n - 1) - 1) else (0, 2 ^ n - 1).
Proof.
  intros Hn. pose proof range_z_all as H. rewrite forallb_forall in H.
  specialize (H n). assert (Hin : In n (map Z.of_nat (seq 1 64))).
  { apply in_map_iff. exists (Z.to_nat n). split; [lia|]. apply in_seq. lia. }
  specialize (H Hin). unfold range_z_ok in H.
  destruct (range_z true n) as [lo hi] eqn:E1. destruct (range_z false n) as [ulo uhi] eqn:E2.
  apply andb_prop in H. destruct H as [H H4]. apply andb_prop in H. destruct H as [H H3].
  apply andb_prop in H. destruct H as [H1 H2].
  destruct signed.
  - rewrite E1. f_equal; lia.
  - rewrite E2. f_equal; lia.
Qed.
