(* C03 — proofs that mention binary64 (Flocq): float64(int), int64(float), the float decode
   and the type ranges.  Flocq brings the standard-library axioms of the real numbers; they are
   reported by Print Assumptions for exactly these theorems. *)
From Coq Require Import ZArith Reals List Bool Lia Lra.
From Flocq Require Import Core IEEE754.BinarySingleNaN IEEE754.Binary IEEE754.Bits.
From Acme.C03 Require Import Model Spec SpecFloat Proofs.
Local Open Scope Z_scope.

Lemma fexp64_FLT : fexp64 = FLT_exp (-1074) 53.
Proof. reflexivity. Qed.

Global Instance valid_fexp64 : Valid_exp fexp64.
Proof. rewrite fexp64_FLT. apply FLT_exp_valid. reflexivity. Qed.

Lemma int_representable z : Z.abs z <= 2 ^ 53 -> representable (IZR z).
Proof.
  intros H. unfold representable. rewrite fexp64_FLT.
  destruct (Z.eq_dec (Z.abs z) (2 ^ 53)) as [E | NE].
  - (* +-2^53 = +-1 * 2^53 *)
    apply generic_format_FLT. exists (Float radix2 (z / 2 ^ 53) 53).
    + unfold F2R. cbn [Fnum Fexp]. rewrite <- (IZR_Zpower radix2 53) by lia.
      rewrite <- mult_IZR. f_equal.
      assert (z = 2 ^ 53 \/ z = - 2 ^ 53) as [-> | ->] by lia; reflexivity.
    + cbn [Fnum]. assert (z = 2 ^ 53 \/ z = - 2 ^ 53) as [-> | ->] by lia; reflexivity.
    + cbn [Fexp]. lia.
  - apply generic_format_FLT. exists (Float radix2 z 0).
    + unfold F2R. cbn [Fnum Fexp bpow]. ring.
    + cbn [Fnum]. change (radix2 ^ 53) with (2 ^ 53). lia.
    + cbn [Fexp]. lia.
Qed.

Lemma pow2_representable e : -1074 <= e <= 1023 -> representable (bpow radix2 e).
Proof.
  intros H. unfold representable. apply generic_format_bpow.
  rewrite fexp64_FLT. unfold FLT_exp. lia.
Qed.

(* float64(i) *)
Theorem of_int_correct z : Z.abs z <= 2 ^ 64 ->
  B2R64 (of_int z) = rnd (IZR z) /\ finite64 (of_int z) = true.
Proof.
  intros H. unfold of_int, B2R64, finite64, rnd.
  pose proof (binary_normalize_correct 53 1024 eq_refl eq_refl mode_NE z 0 false) as C.
  assert (F : F2R (Float radix2 z 0) = IZR z).
  { unfold F2R. cbn [Fnum Fexp bpow]. ring. }
  rewrite F in C.
  assert (B : (Rabs (round radix2 (SpecFloat.fexp 53 1024) (round_mode mode_NE) (IZR z)) < bpow radix2 1024)%R).
  { apply Rle_lt_trans with (bpow radix2 64).
    - apply abs_round_le_generic.
      + apply valid_fexp64.
      + apply valid_rnd_round_mode.
      + apply (pow2_representable 64). lia.
      + rewrite <- abs_IZR. change (bpow radix2 64) with (IZR (2 ^ 64)). apply IZR_le. exact H.
    - apply bpow_lt. lia. }
  rewrite (Rlt_bool_true _ _ B) in C. destruct C as [C1 [C2 _]]. split; assumption.
Qed.

Theorem of_int_exact z : Z.abs z <= 2 ^ 53 -> B2R64 (of_int z) = IZR z.
Proof.
  intros H. destruct (of_int_correct z) as [C _].
  { apply Z.le_trans with (2 ^ 53); [exact H | lia]. }
  rewrite C. unfold rnd. apply round_generic.
  - apply valid_rnd_round_mode.
  - apply int_representable. exact H.
Qed.

(* int64(f) / uint64(f) on integral floats *)
Lemma Btrunc_integral f z : B2R64 f = IZR z -> Btrunc 53 1024 f = z.
Proof.
  intros E. apply eq_IZR. rewrite (Btrunc_correct 53 1024 eq_refl). fold (B2R64 f). rewrite E.
  apply round_generic; [apply valid_rnd_ZR|].
  apply generic_format_FIX. exists (Float radix2 z 0); [|reflexivity].
  unfold F2R. cbn [Fnum Fexp bpow]. ring.
Qed.

Theorem f2i64_exact f z : finite64 f = true -> B2R64 f = IZR z -> - two63 <= z < two63 -> f2i64 f = z.
Proof.
  intros Hf E Hz. unfold f2i64. unfold finite64 in Hf. rewrite Hf.
  rewrite (Btrunc_integral f z E). cbv zeta.
  replace ((- two63 <=? z) && (z <? two63)) with true by lia. reflexivity.
Qed.

Theorem f2u64_exact f z : finite64 f = true -> B2R64 f = IZR z -> - two63 < z < two64 -> f2u64 f = u64 z.
Proof.
  intros Hf E Hz. unfold f2u64. unfold finite64 in Hf. rewrite Hf.
  rewrite (Btrunc_integral f z E). cbv zeta.
  replace ((- two63 <? z) && (z <? two64)) with true by lia. reflexivity.
Qed.

(* ------------------------------------------------------------------ decode, integer kinds *)
(* DBC rule physical = raw*factor + offset over Z, for integral parameters and a representable
   result; sext_if is the two's complement reading when the type is signed *)
Theorem decode_int_spec (signed : bool) (n : Z) (scale offset : f64) (raw sc off : Z) :
  1 <= n <= 64 -> 0 <= raw < 2 ^ n ->
  finite64 scale = true -> B2R64 scale = IZR sc ->
  finite64 offset = true -> B2R64 offset = IZR off ->
  (if signed then - two63 <= sc < two63 /\ - two63 <= off < two63 /\
                  - two63 <= sext n raw * sc + off < two63
   else - two63 < sc < two64 /\ - two63 < off < two64 /\ 0 <= raw * sc + off < two64) ->
  decode_int signed n scale offset raw = sext_if signed n raw * sc + off.
Proof.
  intros Hn Hr Fs Es Fo Eo H. unfold decode_int, sext_if. destruct signed.
  - destruct H as [Hs [Ho Hres]].
    rewrite (f2i64_exact scale sc Fs Es Hs), (f2i64_exact offset off Fo Eo Ho).
    apply (decode_int_z_signed n sc off raw Hn Hr Hres).
  - destruct H as [Hs [Ho Hres]].
    rewrite (f2u64_exact scale sc Fs Es Hs), (f2u64_exact offset off Fo Eo Ho).
    apply (decode_int_z_unsigned_wrapped n sc off raw Hres).
Qed.

(* ------------------------------------------------------------------ decode, float kinds *)
Lemma ext_value_sext (signed : bool) (n raw : Z) : 1 <= n <= 64 -> 0 <= raw < 2 ^ n ->
  (if signed then s64 (ext_raw true n raw) else raw) = sext_if signed n raw.
Proof.
  intros Hn Hr. unfold sext_if. destruct signed; [apply ext_raw_sext; assumption | reflexivity].
Qed.

Lemma sext_if_abs (signed : bool) (n raw : Z) : 1 <= n <= 64 -> 0 <= raw < 2 ^ n -> Z.abs (sext_if signed n raw) <= 2 ^ 64.
Proof.
  intros Hn Hr. unfold sext_if.
  assert (P : 2 ^ n <= 2 ^ 64) by (apply Z.pow_le_mono_r; lia).
  destruct signed.
  - pose proof (sext_range n raw ltac:(lia) Hr) as B.
    assert (Q : 2 ^ (n - 1) <= 2 ^ 64) by (apply Z.pow_le_mono_r; lia). lia.
  - lia.
Qed.

(* the decoded float is: float64(value) * scale, rounded; + offset, rounded — as long as neither
   rounding overflows.  value is the (sign-extended) raw value; float64(value) itself rounds when
   |value| > 2^53. *)
Theorem decode_float_spec (signed : bool) (n : Z) (scale offset : f64) (raw : Z) :
  1 <= n <= 64 -> 0 <= raw < 2 ^ n ->
  finite64 scale = true -> finite64 offset = true ->
  let x := rnd (IZR (sext_if signed n raw)) in
  let p := rnd (x * B2R64 scale) in
  (Rabs p < max64)%R -> (Rabs (rnd (p + B2R64 offset)) < max64)%R ->
  B2R64 (decode_float signed n scale offset raw) = rnd (p + B2R64 offset) /\
  finite64 (decode_float signed n scale offset raw) = true.
Proof.
  intros Hn Hr Fs Fo x p Hp Hs. unfold decode_float.
  rewrite (ext_value_sext signed n raw Hn Hr).
  destruct (of_int_correct (sext_if signed n raw) (sext_if_abs signed n raw Hn Hr)) as [Ex Fx].
  fold x in Ex.
  set (xi := of_int (sext_if signed n raw)) in *.
  pose proof (Bmult_correct 53 1024 eq_refl eq_refl binop_nan_pl64 mode_NE xi scale) as M.
  fold (B2R64 xi) in M. fold (B2R64 scale) in M. rewrite Ex in M.
  change (round radix2 (SpecFloat.fexp 53 1024) (round_mode mode_NE) (x * B2R64 scale)) with p in M.
  change (bpow radix2 1024) with max64 in M.
  rewrite (Rlt_bool_true _ _ Hp) in M. destruct M as [M1 [M2 _]].
  unfold finite64 in *. rewrite Fx, Fs in M2. cbn [andb] in M2.
  unfold fadd, fmul, b64_plus, b64_mult. cbv zeta.
  set (pm := Bmult 53 1024 eq_refl eq_refl binop_nan_pl64 mode_NE xi scale) in *.
  pose proof (Bplus_correct 53 1024 eq_refl eq_refl binop_nan_pl64 mode_NE pm offset M2 Fo) as A.
  rewrite M1 in A. fold (B2R64 offset) in A.
  change (round radix2 (SpecFloat.fexp 53 1024) (round_mode mode_NE) (p + B2R64 offset)) with (rnd (p + B2R64 offset)) in A.
  change (bpow radix2 1024) with max64 in A.
  rewrite (Rlt_bool_true _ _ Hs) in A. destruct A as [A1 [A2 _]].
  split; [exact A1 | exact A2].
Qed.

(* when every intermediate value is representable the result is exactly value*scale + offset *)
Theorem decode_float_exact (signed : bool) (n : Z) (scale offset : f64) (raw : Z) :
  1 <= n <= 64 -> 0 <= raw < 2 ^ n ->
  finite64 scale = true -> finite64 offset = true ->
  let v := IZR (sext_if signed n raw) in
  representable v -> representable (v * B2R64 scale) -> representable (v * B2R64 scale + B2R64 offset) ->
  (Rabs (v * B2R64 scale) < max64)%R -> (Rabs (v * B2R64 scale + B2R64 offset) < max64)%R ->
  B2R64 (decode_float signed n scale offset raw) = (v * B2R64 scale + B2R64 offset)%R.
Proof.
  intros Hn Hr Fs Fo v R1 R2 R3 B1 B2.
  assert (V : forall y, representable y -> rnd y = y).
  { intros y Hy. unfold rnd. apply round_generic; [apply valid_rnd_round_mode | exact Hy]. }
  destruct (decode_float_spec signed n scale offset raw Hn Hr Fs Fo) as [S _]; fold v.
  - rewrite (V v R1), (V _ R2). exact B1.
  - rewrite (V v R1), (V _ R2), (V _ R3). exact B2.
  - fold v in S. rewrite S. rewrite (V v R1), (V _ R2), (V _ R3). reflexivity.
Qed.

(* ------------------------------------------------------------------ kind -> value type *)
(* integer kinds yield integers (int64 when signed, uint64 otherwise), decimal and custom kinds
   float64 whatever the scale, flags bool *)
Theorem value_type_spec (k : kind) (signed : bool) (n : Z) (scale offset : f64) (raw : Z) :
  match decode_std k signed n scale offset raw with
  | VFlag b => k = KFlag /\ b = decode_flag raw
  | VInt z => k = KInteger /\ signed = true /\ z = decode_int true n scale offset raw
  | VUint z => k = KInteger /\ signed = false /\ z = decode_int false n scale offset raw
  | VFloat f => (k = KDecimal \/ k = KCustom) /\ f = decode_float signed n scale offset raw
  end.
Proof.
  destruct k; cbn [decode_std]; try (split; [auto | reflexivity]).
  destruct signed; repeat split; reflexivity.
Qed.

(* the whole observable of an integer-kind signal: type and value, under the side conditions of
   the property (scale and offset are floats holding in-range integers, the result is
   representable; unsigned: result non-negative) *)
Theorem decode_std_integer_spec (signed : bool) (n : Z) (scale offset : f64) (raw sc off : Z) :
  1 <= n <= 64 -> 0 <= raw < 2 ^ n ->
  finite64 scale = true -> B2R64 scale = IZR sc ->
  finite64 offset = true -> B2R64 offset = IZR off ->
  (if signed then - two63 <= sc < two63 /\ - two63 <= off < two63 /\
                  - two63 <= sext n raw * sc + off < two63
   else - two63 < sc < two64 /\ - two63 < off < two64 /\ 0 <= raw * sc + off < two64) ->
  decode_std KInteger signed n scale offset raw =
  if signed then VInt (sext n raw * sc + off) else VUint (raw * sc + off).
Proof.
  intros Hn Hr Fs Es Fo Eo H.
  pose proof (decode_int_spec signed n scale offset raw sc off Hn Hr Fs Es Fo Eo H) as D.
  cbn [decode_std]. destruct signed; rewrite D; reflexivity.
Qed.

(* ------------------------------------------------------------------ ranges *)
Theorem range_spec (signed : bool) (n : Z) : 1 <= n <= 64 ->
  int_range signed n =
    if signed then (of_int (- 2 ^ (n - 1)), of_int (2 ^ (n - 1) - 1))
    else (of_int 0, of_int (2 ^ n - 1)).
Proof.
  intros Hn. pose proof (range_z_spec signed n Hn) as H. unfold range_z in H. unfold int_range.
  destruct signed.
  - injection H as H1 H2. rewrite H1, H2. reflexivity.
  - injection H as H2. rewrite H2. reflexivity.
Qed.

(* the reported bounds are the exact integers whenever those fit 53 bits, and their nearest
   binary64 otherwise *)
Theorem range_value (signed : bool) (n : Z) : 1 <= n <= 64 ->
  let lo := if signed then - 2 ^ (n - 1) else 0 in
  let hi := if signed then 2 ^ (n - 1) - 1 else 2 ^ n - 1 in
  B2R64 (fst (int_range signed n)) = rnd (IZR lo) /\ B2R64 (snd (int_range signed n)) = rnd (IZR hi) /\
  (n <= 53 -> B2R64 (fst (int_range signed n)) = IZR lo /\ B2R64 (snd (int_range signed n)) = IZR hi).
Proof.
  intros Hn lo hi. rewrite (range_spec signed n Hn).
  assert (P : 0 < 2 ^ n <= 2 ^ 64).
  { split; [apply Z.pow_pos_nonneg; lia | apply Z.pow_le_mono_r; lia]. }
  assert (Q : 0 < 2 ^ (n - 1) <= 2 ^ 64).
  { split; [apply Z.pow_pos_nonneg; lia | apply Z.pow_le_mono_r; lia]. }
  assert (Blo : Z.abs lo <= 2 ^ 64) by (unfold lo; destruct signed; lia).
  assert (Bhi : Z.abs hi <= 2 ^ 64) by (unfold hi; destruct signed; lia).
  destruct (of_int_correct lo Blo) as [L _]. destruct (of_int_correct hi Bhi) as [H _].
  assert (E1 : fst (if signed then (of_int (- 2 ^ (n - 1)), of_int (2 ^ (n - 1) - 1)) else (of_int 0, of_int (2 ^ n - 1))) = of_int lo)
    by (unfold lo; destruct signed; reflexivity).
  assert (E2 : snd (if signed then (of_int (- 2 ^ (n - 1)), of_int (2 ^ (n - 1) - 1)) else (of_int 0, of_int (2 ^ n - 1))) = of_int hi)
    by (unfold hi; destruct signed; reflexivity).
  rewrite E1, E2. split; [exact L|]. split; [exact H|].
  intros H53.
  assert (P53 : 2 ^ n <= 2 ^ 53) by (apply Z.pow_le_mono_r; lia).
  assert (Q53 : 2 ^ (n - 1) <= 2 ^ 53) by (apply Z.pow_le_mono_r; lia).
  split; apply of_int_exact; [unfold lo | unfold hi]; destruct signed; lia.
Qed.
