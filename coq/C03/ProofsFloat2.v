(* C03 — what the code does at the edges of the float / integer-kind decoding:
   truncation of non-integral scale / offset by the integer kinds, overflow of the float kinds to
   +-Inf, and the sign of a zero result. *)
From Coq Require Import ZArith Reals List Bool Lia Lra.
From Flocq Require Import Core IEEE754.BinarySingleNaN IEEE754.Binary IEEE754.Bits.
From Acme.C03 Require Import Model Spec SpecFloat Proofs ProofsFloat.
Local Open Scope Z_scope.

(* ------------------------------------------------------------------ integer kinds truncate *)
Lemma round_fix0_trunc x : round radix2 (FIX_exp 0) Ztrunc x = IZR (Ztrunc x).
Proof.
  unfold round, F2R, scaled_mantissa, cexp, FIX_exp. cbn [Fnum Fexp Z.opp bpow].
  rewrite 2 Rmult_1_r. reflexivity.
Qed.

Lemma Btrunc_is_Ztrunc f : Btrunc 53 1024 f = Ztrunc (B2R64 f).
Proof.
  apply eq_IZR. rewrite (Btrunc_correct 53 1024 eq_refl). fold (B2R64 f). apply round_fix0_trunc.
Qed.

Theorem f2i64_trunc f : finite64 f = true -> - two63 <= Ztrunc (B2R64 f) < two63 ->
  f2i64 f = Ztrunc (B2R64 f).
Proof.
  intros Hf Hr. unfold f2i64. unfold finite64 in Hf. rewrite Hf, Btrunc_is_Ztrunc. cbv zeta.
  replace ((- two63 <=? Ztrunc (B2R64 f)) && (Ztrunc (B2R64 f) <? two63)) with true by lia. reflexivity.
Qed.

Theorem f2u64_trunc f : finite64 f = true -> - two63 < Ztrunc (B2R64 f) < two64 ->
  f2u64 f = u64 (Ztrunc (B2R64 f)).
Proof.
  intros Hf Hr. unfold f2u64. unfold finite64 in Hf. rewrite Hf, Btrunc_is_Ztrunc. cbv zeta.
  replace ((- two63 <? Ztrunc (B2R64 f)) && (Ztrunc (B2R64 f) <? two64)) with true by lia. reflexivity.
Qed.

(* An integer kind converts scale and offset with int64(.) / uint64(.): a NON-integral scale or offset
   is truncated toward zero before the arithmetic (scale 0.5 decodes everything to the offset).  This
   is what the code does; the property's quantifier asks for integral scale and offset, where the
   truncation is the identity (decode_int_spec). *)
Theorem decode_int_trunc_spec (signed : bool) (n : Z) (scale offset : f64) (raw : Z) :
  1 <= n <= 64 -> 0 <= raw < 2 ^ n ->
  finite64 scale = true -> finite64 offset = true ->
  let sc := Ztrunc (B2R64 scale) in
  let off := Ztrunc (B2R64 offset) in
  (if signed then - two63 <= sc < two63 /\ - two63 <= off < two63 /\
                  - two63 <= sext n raw * sc + off < two63
   else - two63 < sc < two64 /\ - two63 < off < two64 /\ 0 <= raw * sc + off < two64) ->
  decode_int signed n scale offset raw = sext_if signed n raw * sc + off.
Proof.
  intros Hn Hr Fs Fo sc off H. unfold decode_int, sext_if. destruct signed.
  - destruct H as [Hs [Ho Hres]]. rewrite (f2i64_trunc scale Fs Hs), (f2i64_trunc offset Fo Ho).
    apply (decode_int_z_signed n sc off raw Hn Hr Hres).
  - destruct H as [Hs [Ho Hres]]. rewrite (f2u64_trunc scale Fs Hs), (f2u64_trunc offset Fo Ho).
    apply (decode_int_z_unsigned_wrapped n sc off raw Hres).
Qed.

(* ------------------------------------------------------------------ float kinds: overflow *)
Lemma B2FF_infinity (f : f64) s : B2FF 53 1024 f = F754_infinity s -> f = B754_infinity 53 1024 s.
Proof. destruct f; cbn; intros H; try discriminate. inversion H. reflexivity. Qed.

Definition value_float (signed : bool) (n raw : Z) : f64 := of_int (sext_if signed n raw).

(* when the rounded product value*scale is beyond the binary64 range the result is the infinity of the
   product's sign (whatever the finite offset): finite scale / offset do not imply a finite result *)
Theorem decode_float_overflow_product (signed : bool) (n : Z) (scale offset : f64) (raw : Z) :
  1 <= n <= 64 -> 0 <= raw < 2 ^ n ->
  finite64 scale = true -> finite64 offset = true ->
  let x := value_float signed n raw in
  (max64 <= Rabs (rnd (B2R64 x * B2R64 scale)))%R ->
  decode_float signed n scale offset raw =
  B754_infinity 53 1024 (xorb (Bsign 53 1024 x) (Bsign 53 1024 scale)).
Proof.
  intros Hn Hr Fs Fo x Hov. unfold decode_float. rewrite (ext_value_sext signed n raw Hn Hr).
  fold (value_float signed n raw). fold x.
  pose proof (Bmult_correct 53 1024 eq_refl eq_refl binop_nan_pl64 mode_NE x scale) as M.
  fold (B2R64 x) in M. fold (B2R64 scale) in M.
  change (round radix2 (SpecFloat.fexp 53 1024) (round_mode mode_NE) (B2R64 x * B2R64 scale)) with (rnd (B2R64 x * B2R64 scale)) in M.
  change (bpow radix2 1024) with max64 in M.
  rewrite Rlt_bool_false in M by exact Hov.
  unfold fadd, fmul, b64_plus, b64_mult. cbv zeta.
  apply B2FF_infinity in M. rewrite M.
  unfold finite64 in Fo. destruct offset; try discriminate; reflexivity.
Qed.

(* ... and when the product is finite but the rounded sum is beyond the range: the infinity of the
   product's sign (the two terms then have the same sign) *)
Theorem decode_float_overflow_sum (signed : bool) (n : Z) (scale offset : f64) (raw : Z) :
  1 <= n <= 64 -> 0 <= raw < 2 ^ n ->
  finite64 scale = true -> finite64 offset = true ->
  let x := value_float signed n raw in
  let p := fmul x scale in
  (Rabs (rnd (B2R64 x * B2R64 scale)) < max64)%R ->
  (max64 <= Rabs (rnd (B2R64 p + B2R64 offset)))%R ->
  decode_float signed n scale offset raw = B754_infinity 53 1024 (Bsign 53 1024 p) /\
  Bsign 53 1024 p = Bsign 53 1024 offset.
Proof.
  intros Hn Hr Fs Fo x p Hfin Hov. unfold decode_float. rewrite (ext_value_sext signed n raw Hn Hr).
  fold (value_float signed n raw). fold x. fold p.
  destruct (of_int_correct (sext_if signed n raw) (sext_if_abs signed n raw Hn Hr)) as [_ Fx]. fold (value_float signed n raw) in Fx. fold x in Fx.
  pose proof (Bmult_correct 53 1024 eq_refl eq_refl binop_nan_pl64 mode_NE x scale) as M.
  fold (B2R64 x) in M. fold (B2R64 scale) in M.
  change (round radix2 (SpecFloat.fexp 53 1024) (round_mode mode_NE) (B2R64 x * B2R64 scale)) with (rnd (B2R64 x * B2R64 scale)) in M.
  change (bpow radix2 1024) with max64 in M.
  rewrite (Rlt_bool_true _ _ Hfin) in M. destruct M as [_ [M2 _]].
  unfold finite64 in *. rewrite Fx, Fs in M2. cbn [andb] in M2.
  change (Bmult 53 1024 eq_refl eq_refl binop_nan_pl64 mode_NE x scale) with p in M2.
  pose proof (Bplus_correct 53 1024 eq_refl eq_refl binop_nan_pl64 mode_NE p offset M2 Fo) as A.
  fold (B2R64 p) in A. fold (B2R64 offset) in A.
  change (round radix2 (SpecFloat.fexp 53 1024) (round_mode mode_NE) (B2R64 p + B2R64 offset)) with (rnd (B2R64 p + B2R64 offset)) in A.
  change (bpow radix2 1024) with max64 in A.
  rewrite Rlt_bool_false in A by exact Hov. destruct A as [A1 A2].
  split; [|exact A2]. unfold fadd, b64_plus. cbv zeta. apply B2FF_infinity. exact A1.
Qed.

(* ------------------------------------------------------------------ float kinds: sign of zero *)
Lemma of_int_zero : of_int 0 = B754_zero 53 1024 false.
Proof. reflexivity. Qed.

(* raw value 0 of an unsigned (or non-negative) signal: 0 * scale is the zero of scale's sign; adding a
   non-zero offset gives exactly the offset; adding a zero offset gives -0 only when both zeros are
   negative (round to nearest): the sign of a zero result is determined *)
Theorem decode_float_zero (signed : bool) (n : Z) (scale offset : f64) :
  1 <= n <= 64 -> finite64 scale = true -> finite64 offset = true ->
  decode_float signed n scale offset 0 =
  match offset with
  | B754_zero _ _ so => B754_zero 53 1024 (andb (Bsign 53 1024 scale) so)
  | _ => offset
  end.
Proof.
  intros Hn Fs Fo. unfold decode_float.
  assert (P : 0 < 2 ^ n) by (apply Z.pow_pos_nonneg; lia).
  rewrite (ext_value_sext signed n 0 Hn ltac:(lia)).
  assert (S0 : sext_if signed n 0 = 0).
  { unfold sext_if, sext. destruct signed; [|reflexivity]. rewrite Z.testbit_0_l. reflexivity. }
  rewrite S0, of_int_zero. unfold finite64 in *.
  unfold fadd, fmul, b64_plus, b64_mult. cbv zeta.
  destruct scale as [ss | ss | ss pl pf | ss ms es bs]; try discriminate;
    destruct offset as [so | so | so pl2 pf2 | so mo eo bo]; try discriminate; cbn;
      try reflexivity; destruct ss, so; reflexivity.
Qed.
