(* C03 — one value object in two enums (the D20 family for enum values: SignalEnum.AddValue has
   no parent check).  Acme.C03.Model.enum_run copies (name, index) pairs, i.e. it assumes that a
   value object belongs to at most one enum; this file models the object sharing the Go code
   allows and exhibits what the assumption excludes.

   Go objects: a SignalEnumValue has ONE index and ONE parentEnum pointer; each SignalEnum keeps its
   own sets `values`, `valueNames`, `valueIndexes` (keyed by the index a value had when it was
   entered / last re-keyed THROUGH THIS ENUM) and its cached `maxIndex`.
   UpdateIndex goes through value.parentEnum only. *)
From Coq Require Import ZArith List Bool.
From Acme.C03 Require Import Model Spec.
Import ListNotations.
Local Open Scope Z_scope.

Record senum : Type := mkSE { se_vals : list Z (* value ids *); se_keys : list Z (* valueIndexes *); se_max : Z }.
Record sheap : Type := mkSH {
  h_index : list (Z * Z);          (* value id -> its one index *)
  h_parent : list (Z * Z);         (* value id -> enum number its parentEnum points to *)
  h_a : senum; h_b : senum }.      (* enum 0 and enum 1, both with minimum size 1 *)

Definition lookup (l : list (Z * Z)) (k : Z) : option Z :=
  match find (fun p => fst p =? k) l with Some p => Some (snd p) | None => None end.
Definition update (l : list (Z * Z)) (k v : Z) : list (Z * Z) :=
  (k, v) :: filter (fun p => negb (fst p =? k)) l.

Definition get_enum (h : sheap) (e : Z) : senum := if e =? 0 then h_a h else h_b h.
Definition set_enum (h : sheap) (e : Z) (x : senum) : sheap :=
  if e =? 0 then mkSH (h_index h) (h_parent h) x (h_b h) else mkSH (h_index h) (h_parent h) (h_a h) x.

Definition sh_new : sheap := mkSH [] [] (mkSE [] [] 0) (mkSE [] [] 0).

Inductive sop : Type :=
| SAdd (e v idx : Z)       (* NewSignalEnumValue(v, idx) added to enum e *)
| SShare (e v : Z)         (* the EXISTING value object v added to enum e as well *)
| SUpdate (v idx : Z).     (* v.UpdateIndex(idx) *)

(* AddValue of value object v (current index i) into enum e *)
Definition add_into (h : sheap) (e v i : Z) : sheap :=
  let x := get_enum h e in
  if existsb (Z.eqb i) (se_keys x) || existsb (Z.eqb v) (se_vals x) then h   (* index or name in use: refused *)
  else
    let x' := mkSE (se_vals x ++ [v]) (se_keys x ++ [i]) (if i >? se_max x then i else se_max x) in
    let h' := set_enum h e x' in
    mkSH (h_index h') (update (h_parent h') v e) (h_a h') (h_b h').

Definition sstep (h : sheap) (o : sop) : sheap :=
  match o with
  | SAdd e v idx =>
    match lookup (h_index h) v with
    | Some _ => h                                       (* the harness never reuses a name *)
    | None => add_into (mkSH (update (h_index h) v idx) (h_parent h) (h_a h) (h_b h)) e v idx
    end
  | SShare e v =>
    match lookup (h_index h) v with Some i => add_into h e v i | None => h end
  | SUpdate v idx =>
    match lookup (h_index h) v with
    | None => h
    | Some old =>
      if old =? idx then h else
      match lookup (h_parent h) v with
      | None => mkSH (update (h_index h) v idx) (h_parent h) (h_a h) (h_b h)
      | Some e =>
        let x := get_enum h e in
        if existsb (Z.eqb idx) (se_keys x) then h        (* verifyValueIndex: used in the PARENT enum *)
        else
          (* modifyValueIndex on the parent only: max over its other values and the new index *)
          let others := filter (fun w => negb (w =? v)) (se_vals x) in
          let mx := fold_left (fun m w => match lookup (h_index h) w with
                                          | Some i => if i >? m then i else m | None => m end)
                              others (if idx >? 0 then idx else 0) in
          let keys := filter (fun k => negb (k =? old)) (se_keys x) ++ [idx] in
          let h' := set_enum h e (mkSE (se_vals x) keys mx) in
          mkSH (update (h_index h') v idx) (h_parent h') (h_a h') (h_b h')
      end
    end
  end.

Definition srun (ops : list sop) : sheap := fold_left sstep ops sh_new.

(* GetSize (minimum size 1) and the width the values of the enum need *)
Definition se_size (x : senum) : Z := let c := calc_size (se_max x) in if 1 >? c then 1 else c.
Definition se_real_max (h : sheap) (x : senum) : Z :=
  fold_left (fun m w => match lookup (h_index h) w with Some i => if i >? m then i else m | None => m end) (se_vals x) 0.

(* no value object is held by two enums *)
Definition unshared (h : sheap) : bool :=
  forallb (fun v => negb (existsb (Z.eqb v) (se_vals (h_b h)))) (se_vals (h_a h)).
