(* C03 — the excluded case made explicit: with a value object shared by two enums the width
   reported by the enum that is NOT the value's parent goes stale. *)
From Coq Require Import ZArith List Bool Lia.
From Acme.C03 Require Import Model Spec Shared.
Import ListNotations.
Local Open Scope Z_scope.

Definition shared_witness : list sop := [SAdd 0 7 1; SShare 1 7; SUpdate 7 1000].

(* value 7 (index 1) is added to enum 0, then to enum 1 as well (accepted: no parent check), then
   re-indexed to 1000: enum 0 still reports 1 bit although its value has index 1000 (10 bits) *)
Theorem enum_size_shared_value_refuted :
  exists ops, let h := srun ops in
    unshared h = false /\
    se_size (h_a h) <> enum_width 1 (se_real_max h (h_a h)) /\
    se_size (h_a h) = 1 /\ se_real_max h (h_a h) = 1000 /\
    se_size (h_b h) = enum_width 1 (se_real_max h (h_b h)).
Proof. exists shared_witness. vm_compute. repeat split; congruence. Qed.

(* the same operations on two distinct value objects are fine *)
Example unshared_ok :
  let h := srun [SAdd 0 7 1; SAdd 1 8 1; SUpdate 7 1000] in
  unshared h = true /\ se_size (h_a h) = enum_width 1 (se_real_max h (h_a h)) /\ se_size (h_a h) = 10.
Proof. vm_compute. repeat split. Qed.
