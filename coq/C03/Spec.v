(* C03 — specification vocabulary (no model code, no proofs): what the theorems of
   Properties/C03.v compare the model against. *)
From Coq Require Import ZArith List.
From Acme.C03 Require Import Model.
Import ListNotations.
Local Open Scope Z_scope.

(* smallest width w >= 1 with v < 2^w, for v >= 0 *)
Definition bit_width (v : Z) : Z := Z.max 1 (Z.log2 v + 1).

(* width reserved for an enum: never below the configured minimum *)
Definition enum_width (min_size max_index : Z) : Z := Z.max min_size (bit_width max_index).

(* m is the largest index of the entries (name, index), 0 when there is none above 0 *)
Definition is_max (vs : list (Z * Z)) (m : Z) : Prop :=
  0 <= m /\ (m = 0 \/ In m (map snd vs)) /\ (forall i, In i (map snd vs) -> i <= m).

(* enum indexes are Go ints *)
Definition op_in_range (o : enum_op) : Prop :=
  match o with EAdd _ idx | EUpdate _ idx => - two63 <= idx < two63 | _ => True end.
