(* C03 — specification vocabulary for the binary64 theorems (Flocq). *)
From Coq Require Import ZArith Reals.
From Flocq Require Import Core IEEE754.BinarySingleNaN IEEE754.Binary IEEE754.Bits.
Local Open Scope Z_scope.

Definition fexp64 : Z -> Z := SpecFloat.fexp 53 1024.
(* one rounding to binary64: nearest, ties to even *)
Definition rnd (x : R) : R := round radix2 fexp64 (round_mode mode_NE) x.
Definition B2R64 (f : binary64) : R := B2R 53 1024 f.
Definition finite64 (f : binary64) : bool := is_finite 53 1024 f.
Definition representable (x : R) : Prop := generic_format radix2 fexp64 x.
Definition max64 : R := bpow radix2 1024.
