(* C04/C05/C06 — cross-check of the correspondence inside Coq (DESIGN 3.3): a sample of the
   histories the harness ran on the implementation, with the observed result classes and the observed
   state (every heap, index, registry and reference set, as dumped by the harness), is written as Coq
   terms into a generated file; [run_case] replays the history on [step2] and compares by
   [vm_compute].  For that sample neither the extraction nor the OCaml driver is trusted.
   Definitions only (the generated file contains one [Lemma … = true. Proof. vm_compute. reflexivity. Qed.]
   per history). *)
From Acme.C04 Require Export Reg.

Global Instance net_rec_eq_dec : EqDecision net_rec. Proof. solve_decision. Defined.
Global Instance bus_rec_eq_dec : EqDecision bus_rec. Proof. solve_decision. Defined.
Global Instance node_rec_eq_dec : EqDecision node_rec. Proof. solve_decision. Defined.
Global Instance iface_rec_eq_dec : EqDecision iface_rec. Proof. solve_decision. Defined.
Global Instance msg_rec_eq_dec : EqDecision msg_rec. Proof. solve_decision. Defined.
Global Instance enum_rec_eq_dec : EqDecision enum_rec. Proof. solve_decision. Defined.
Global Instance eval_rec_eq_dec : EqDecision eval_rec. Proof. solve_decision. Defined.
Global Instance skind_eq_dec : EqDecision skind. Proof. solve_decision. Defined.
Global Instance sig_rec_eq_dec : EqDecision sig_rec. Proof. solve_decision. Defined.
Global Instance attr_kind_eq_dec : EqDecision attr_kind. Proof. solve_decision. Defined.

(* the observed state; maps whose absent entries mean "empty" are compared without their empty entries *)
Record observed := mkObserved {
  o_nets : gmap handle net_rec;
  o_buses : gmap handle bus_rec;
  o_nodes : gmap handle node_rec;
  o_ifaces : gmap handle iface_rec;
  o_msgs : gmap handle msg_rec;
  o_enums : gmap handle enum_rec;
  o_evals : gmap handle eval_rec;
  o_sigs : gmap handle sig_rec;
  o_sname : gmap handle name;
  o_spmsg : gmap handle handle;
  o_spmux : gmap handle handle;
  o_xshape : gmap handle (Z * Z);
  o_xsigs : gmap handle (gset handle);
  o_xnames : gmap handle (gmap name handle);
  o_xfixed : gmap handle (gset handle);
  o_xgids : gmap handle (gmap handle (list Z));
  o_mtop : gmap handle (gset handle);
  o_msigs : gmap handle (gset handle);
  o_mnames : gmap handle (gmap name handle);
  o_type_refs : gmap handle (gset handle);
  o_unit_refs : gmap handle (gset handle);
  o_enum_refs : gmap handle (gset handle);
  o_attr_refs : gmap handle (gset handle);
  o_assigns : gmap handle (gset handle);
  o_builder_refs : gmap handle (gset handle);
  o_bus_builder : gmap handle handle;
  o_attrs : gmap handle attr_kind;
}.

Definition ne_sets (m : gmap handle (gset handle)) : gmap handle (gset handle) := filter (λ kv, kv.2 ≠ ∅) m.
Definition ne_names (m : gmap handle (gmap name handle)) : gmap handle (gmap name handle) := filter (λ kv, kv.2 ≠ ∅) m.
Definition ne_gids (m : gmap handle (gmap handle (list Z))) : gmap handle (gmap handle (list Z)) := filter (λ kv, kv.2 ≠ ∅) m.

Definition agrees (s : state2) (o : observed) : bool :=
  let s3 := l3 s in let b := base s3 in
  bool_decide (nets b = o_nets o) && bool_decide (buses b = o_buses o) && bool_decide (nodes b = o_nodes o) &&
  bool_decide (ifaces b = o_ifaces o) && bool_decide (msgs b = o_msgs o) && bool_decide (enums b = o_enums o) &&
  bool_decide (evals b = o_evals o) && bool_decide (sigs s3 = o_sigs o) &&
  bool_decide (sname s = o_sname o) && bool_decide (spmsg s = o_spmsg o) && bool_decide (spmux s = o_spmux o) &&
  bool_decide (xshape s = o_xshape o) &&
  bool_decide (ne_sets (xsigs s) = ne_sets (o_xsigs o)) && bool_decide (ne_names (xnames s) = ne_names (o_xnames o)) &&
  bool_decide (ne_sets (xfixed s) = ne_sets (o_xfixed o)) && bool_decide (ne_gids (xgids s) = ne_gids (o_xgids o)) &&
  bool_decide (ne_sets (mtop s) = ne_sets (o_mtop o)) && bool_decide (ne_sets (msigs s) = ne_sets (o_msigs o)) &&
  bool_decide (ne_names (mnames s) = ne_names (o_mnames o)) &&
  bool_decide (ne_sets (type_refs s3) = ne_sets (o_type_refs o)) && bool_decide (ne_sets (unit_refs s3) = ne_sets (o_unit_refs o)) &&
  bool_decide (ne_sets (enum_refs s3) = ne_sets (o_enum_refs o)) && bool_decide (ne_sets (attr_refs s3) = ne_sets (o_attr_refs o)) &&
  bool_decide (ne_sets (assigns s3) = ne_sets (o_assigns o)) && bool_decide (ne_sets (builder_refs s3) = ne_sets (o_builder_refs o)) &&
  bool_decide (bus_builder s3 = o_bus_builder o) && bool_decide (attrs s3 = o_attrs o).

(* the observed result class: [None] = accepted, [Some (cause, innermost wrapper)] = refused; a refusal
   decided by payload geometry is compared by its cause only (the wrapper is C01/C07's) *)
Definition res_agrees (r : result) (e : option (cause * wrap)) : bool :=
  match e, r with
  | None, Ok => true
  | Some (c, w), Err l => existsb (λ cw, bool_decide (cw.1 = c) && (bool_decide (c = Layout) || bool_decide (cw.2 = w))) l
  | _, _ => false
  end.

(* one call: the operation, the observed result class if the call was compared, the observed state if sampled *)
Definition call := (op2 * option (option (cause * wrap)) * option observed)%type.

Fixpoint run_case (s : state2) (l : list call) : bool :=
  match l with
  | [] => true
  | (o, er, eo) :: l =>
    let '(s', r) := step2 s o in
    match er with Some e => res_agrees r e | None => true end &&
    match eo with Some ob => agrees s' ob | None => true end &&
    run_case s' l
  end.

(* builders used by the generated file *)
Definition S_ (l : list handle) : gset handle := list_to_set l.
Definition Mn (l : list (name * handle)) : gmap name handle := list_to_map l.
Definition Mz (l : list (Z * handle)) : gmap Z handle := list_to_map l.
Definition Mh (l : list (handle * handle)) : gmap handle handle := list_to_map l.
Definition H_ {A} (l : list (handle * A)) : gmap handle A := list_to_map l.
Definition Mg (l : list (handle * list Z)) : gmap handle (list Z) := list_to_map l.
