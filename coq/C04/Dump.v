(* C04/C05/C06 — observation helpers for the correspondence driver: every heap and every index
   field as an association list (the OCaml driver sorts and prints them). No proofs. *)
From Acme.C04 Require Export Step.

Definition set_list (x : gset handle) : list handle := elements x.
Definition map_nh (m : gmap name handle) : list (name * handle) := map_to_list m.
Definition map_zh (m : gmap Z handle) : list (Z * handle) := map_to_list m.
Definition map_hh (m : gmap handle handle) : list (handle * handle) := map_to_list m.

Definition heap_nets (s : state) := map_to_list (nets s).
Definition heap_buses (s : state) := map_to_list (buses s).
Definition heap_nodes (s : state) := map_to_list (nodes s).
Definition heap_ifaces (s : state) := map_to_list (ifaces s).
Definition heap_msgs (s : state) := map_to_list (msgs s).
Definition heap_enums (s : state) := map_to_list (enums s).
Definition heap_evals (s : state) := map_to_list (evals s).

(* layer 3 *)
From Acme.C04 Require Export Refs.
Definition heap_sigs (s : state3) := map_to_list (sigs s).
Definition refs_list (m : gmap handle (gset handle)) : list (handle * list handle) :=
  (λ '(h, x), (h, elements x)) <$> map_to_list m.
Definition builder_list (s : state3) := map_to_list (bus_builder s).
Definition attr_list (s : state3) := map_to_list (attrs s).

(* layer 2 *)
From Acme.C04 Require Export Reg.
Definition map_hn (m : gmap handle name) := map_to_list m.
Definition names_list (m : gmap handle (gmap name handle)) : list (handle * list (name * handle)) :=
  (λ '(h, x), (h, map_to_list x)) <$> map_to_list m.
Definition shape_list (s : state2) := map_to_list (xshape s).
Definition gids_list (s : state2) : list (handle * list (handle * list Z)) :=
  (λ '(h, x), (h, map_to_list x)) <$> map_to_list (xgids s).
