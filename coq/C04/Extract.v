(* Extraction of the executable C04/C05/C06 model for the correspondence check.
   ExtrOcamlBasic only: positive / N / Z stay inductive; no Extract Constant of our own. *)
From Coq Require Import Extraction ExtrOcamlBasic.
From Acme.C04 Require Import Dump.
Extraction Language OCaml.
Extraction "extracted/c04_model.ml" init step init3 step3 init2 step2
  set_list map_nh map_zh map_hh
  heap_nets heap_buses heap_nodes heap_ifaces heap_msgs heap_enums heap_evals
  heap_sigs refs_list builder_list attr_list
  map_hn names_list shape_list gids_list.
