(* C04/C05 — the invariant of the entity state machine (layer 1: conjuncts I3–I7, I9, I10 of
   DESIGN §4) and the side conditions of the operations. Definitions only; proofs in Proofs*.v.

   Every uniqueness index is characterised as *exactly* the map derived from the contents:
     IndexOK ekey idx  :=  ∀ k h, idx !! k = Some h  ↔  ekey h = Some k
   where [ekey h] is the key under which child [h] must be registered in this container, or [None]
   when [h] is not a child of it (the child side of the containment link decides membership).
   Injectivity (no two children share a key) and "lookup returns exactly the child carrying the
   key" are consequences (Proofs: IndexOK_inj, lookup_by_name_spec).  *)
From Acme.C04 Require Export Step.

Definition IndexOK {K} `{Countable K} (ekey : handle → option K) (idx : gmap K handle) : Prop :=
  ∀ k h, idx !! k = Some h ↔ ekey h = Some k.

(* ---- effective keys, read from the child heaps ------------------------------------------- *)

(* bus [b] as a child of network [n] *)
Definition key_bus_name (bs : gmap handle bus_rec) (n b : handle) : option name :=
  B ← bs !! b; if decide (b_parent B = Some n) then Some (b_name B) else None.

(* message [m] as a child of interface [i] *)
Definition key_msg_name (ms : gmap handle msg_rec) (i m : handle) : option name :=
  M ← ms !! m; if decide (m_sender M = Some i) then Some (m_name M) else None.
Definition key_msg_id (ms : gmap handle msg_rec) (i m : handle) : option Z :=
  M ← ms !! m;
  if decide (m_sender M = Some i) then (if m_hasStatic M then None else Some (m_id M)) else None.
Definition key_msg_static (ms : gmap handle msg_rec) (i m : handle) : option Z :=
  M ← ms !! m;
  if decide (m_sender M = Some i) then (if m_hasStatic M then Some (m_static M) else None) else None.

(* message [m] as carried by bus [b]: sent by an interface attached to [b] *)
Definition key_bus_static (ms : gmap handle msg_rec) (is : gmap handle iface_rec) (b m : handle) : option Z :=
  M ← ms !! m; i ← m_sender M; Ii ← is !! i;
  if decide (i_parent Ii = Some b) then (if m_hasStatic M then Some (m_static M) else None) else None.

(* node [nd] as attached to a bus with node-interface map [ni] *)
Definition key_node_name (nds : gmap handle node_rec) (ni : gmap handle handle) (nd : handle) : option name :=
  if decide (is_Some (ni !! nd)) then nd_name <$> nds !! nd else None.
Definition key_node_id (nds : gmap handle node_rec) (ni : gmap handle handle) (nd : handle) : option Z :=
  if decide (is_Some (ni !! nd)) then nd_id <$> nds !! nd else None.

(* value [v] as a child of enum [e] *)
Definition key_eval_name (vs : gmap handle eval_rec) (e v : handle) : option name :=
  V ← vs !! v; if decide (v_parent V = Some e) then Some (v_name V) else None.
Definition key_eval_index (vs : gmap handle eval_rec) (e v : handle) : option Z :=
  V ← vs !! v; if decide (v_parent V = Some e) then Some (v_index V) else None.

(* ---- the invariant ------------------------------------------------------------------------ *)
Record Inv (s : state) : Prop := {
  (* handles at or above [next] are unused *)
  inv_fresh : ∀ h : handle, (next s ≤ h)%positive →
      nets s !! h = None ∧ buses s !! h = None ∧ nodes s !! h = None ∧ ifaces s !! h = None ∧
      msgs s !! h = None ∧ enums s !! h = None ∧ evals s !! h = None;

  (* I6 network <-> bus: converse links, exclusive because the back link is single-valued *)
  inv_net_down : ∀ n N b, nets s !! n = Some N → b ∈ n_buses N →
      ∃ B, buses s !! b = Some B ∧ b_parent B = Some n;
  inv_net_up : ∀ b B n, buses s !! b = Some B → b_parent B = Some n →
      ∃ N, nets s !! n = Some N ∧ b ∈ n_buses N;
  inv_net_names : ∀ n N, nets s !! n = Some N → IndexOK (key_bus_name (buses s) n) (n_busNames N);

  (* I5 bus <-> interface (the bus map is keyed by the node of the interface) *)
  inv_bus_down : ∀ b B nd i, buses s !! b = Some B → b_nodeInts B !! nd = Some i →
      ∃ Ii, ifaces s !! i = Some Ii ∧ i_node Ii = nd ∧ i_parent Ii = Some b;
  inv_bus_up : ∀ i Ii b, ifaces s !! i = Some Ii → i_parent Ii = Some b →
      ∃ B, buses s !! b = Some B ∧ b_nodeInts B !! i_node Ii = Some i;
  inv_bus_names : ∀ b B, buses s !! b = Some B → IndexOK (key_node_name (nodes s) (b_nodeInts B)) (b_nodeNames B);
  inv_bus_ids : ∀ b B, buses s !! b = Some B → IndexOK (key_node_id (nodes s) (b_nodeInts B)) (b_nodeIDs B);
  inv_bus_static : ∀ b B, buses s !! b = Some B → IndexOK (key_bus_static (msgs s) (ifaces s) b) (b_static B);

  (* I9 node -> interfaces: numbered 0..n-1 in order; every interface has a node; an interface
     attached to a bus is still listed by its node *)
  inv_node_count : ∀ nd ND, nodes s !! nd = Some ND → nd_count ND = Z.of_nat (length (nd_ifaces ND));
  inv_node_ifaces : ∀ nd ND k i, nodes s !! nd = Some ND → nd_ifaces ND !! k = Some i →
      ∃ Ii, ifaces s !! i = Some Ii ∧ i_node Ii = nd ∧ i_number Ii = Z.of_nat k;
  inv_iface_node : ∀ i Ii, ifaces s !! i = Some Ii → is_Some (nodes s !! i_node Ii);
  inv_attached_live : ∀ i Ii b, ifaces s !! i = Some Ii → i_parent Ii = Some b →
      ∃ ND, nodes s !! i_node Ii = Some ND ∧ i ∈ nd_ifaces ND;

  (* I3 interface <-> sent message *)
  inv_sent_down : ∀ i Ii m, ifaces s !! i = Some Ii → m ∈ i_sent Ii →
      ∃ M, msgs s !! m = Some M ∧ m_sender M = Some i;
  inv_sent_up : ∀ m M i, msgs s !! m = Some M → m_sender M = Some i →
      ∃ Ii, ifaces s !! i = Some Ii ∧ m ∈ i_sent Ii;
  inv_sent_names : ∀ i Ii, ifaces s !! i = Some Ii → IndexOK (key_msg_name (msgs s) i) (i_sentNames Ii);
  inv_sent_ids : ∀ i Ii, ifaces s !! i = Some Ii → IndexOK (key_msg_id (msgs s) i) (i_sentIDs Ii);
  inv_sent_static : ∀ i Ii, ifaces s !! i = Some Ii → IndexOK (key_msg_static (msgs s) i) (i_sentStatic Ii);

  (* I4 receivers (message map keyed by the node of the receiving interface) *)
  inv_recv_down : ∀ m M nd i, msgs s !! m = Some M → m_receivers M !! nd = Some i →
      ∃ Ii, ifaces s !! i = Some Ii ∧ i_node Ii = nd ∧ m ∈ i_received Ii;
  inv_recv_up : ∀ i Ii m, ifaces s !! i = Some Ii → m ∈ i_received Ii →
      ∃ M, msgs s !! m = Some M ∧ m_receivers M !! i_node Ii = Some i;

  (* I7 enum <-> value *)
  inv_enum_down : ∀ e E v, enums s !! e = Some E → v ∈ e_values E →
      ∃ V, evals s !! v = Some V ∧ v_parent V = Some e;
  inv_enum_up : ∀ v V e, evals s !! v = Some V → v_parent V = Some e →
      ∃ E, enums s !! e = Some E ∧ v ∈ e_values E;
  inv_enum_names : ∀ e E, enums s !! e = Some E → IndexOK (key_eval_name (evals s) e) (e_valueNames E);
  inv_enum_idx : ∀ e E, enums s !! e = Some E → IndexOK (key_eval_index (evals s) e) (e_valueIdx E);
  inv_enum_max : ∀ e E, enums s !! e = Some E → e_maxIndex E = max_index (evals s) (elements (e_values E));
}.

(* ---- side conditions of an operation ---------------------------------------------------------
   [op_ok s o] collects what the theorems assume about the *use* of the API in state [s]:
   (a) open finding D20: an attach operation is not applied to an entity that already has a
       different parent (Go accepts it and the entity ends up listed twice);
   (b) open finding D22: a message does not get a second receiving interface of the same node
       (the receivers map is keyed by node);
   (c) an interface that was removed from its node is a dead object and is not used again.
   Nothing is assumed about nil arguments, foreign ids, colliding keys, negative numbers: those
   are refused by the operations themselves. *)
Definition iface_live (s : state) (i : handle) : Prop :=
  ∀ Ii, ifaces s !! i = Some Ii → ∃ ND, nodes s !! i_node Ii = Some ND ∧ i ∈ nd_ifaces ND.

Definition recv_slot_free (s : state) (i m : handle) : Prop :=
  ∀ Ii M, ifaces s !! i = Some Ii → msgs s !! m = Some M →
    m_receivers M !! i_node Ii = None ∨ m_receivers M !! i_node Ii = Some i.

Definition op_ok (s : state) (o : op) : Prop :=
  match o with
  | NetAddBus n (Some b) => ∀ B, buses s !! b = Some B → b_parent B = None ∨ b_parent B = Some n
  | BusAddNodeInterface b (Some i) =>
      iface_live s i ∧ ∀ Ii, ifaces s !! i = Some Ii → i_parent Ii = None ∨ i_parent Ii = Some b
  | IfAddSent i (Some m) => ∀ M, msgs s !! m = Some M → m_sender M = None ∨ m_sender M = Some i
  | EnumAddValue e (Some v) _ => ∀ V, evals s !! v = Some V → v_parent V = None ∨ v_parent V = Some e
  | IfAddReceived i (Some m) => recv_slot_free s i m
  | MsgAddReceiver m (Some i) => recv_slot_free s i m
  | _ => True
  end.

Definition is_reattach (s : state) (o : op) : Prop := ¬ op_ok s o.

(* reachable states under the side conditions *)
Inductive Reach : state → Prop :=
  | reach_init : Reach init
  | reach_step s o : Reach s → op_ok s o → Reach (step s o).1.
