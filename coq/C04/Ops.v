(* C04/C05/C06 — layer 1 operations (flat registries): network, bus, node, interface, message
   (as an opaque item with name, id, static CAN-ID, size, sender, receivers), enum, enum value.
   Every definition follows the statement order of the Go method it models (file:function given
   at each definition), including the places where Go accepts arguments it should not
   (re-attaching an entity that already has a parent, DESIGN D20; receivers keyed by node, D22).
   No proofs in this file. *)
From Acme.C04 Require Export State.

Local Open Scope Z_scope.

(* ---------------------------------------------------------------------------------------- *)
(* Constructors                                                                             *)
(* ---------------------------------------------------------------------------------------- *)

Definition alloc (s : state) : handle * state := (next s, s <| next ::= Pos.succ |>).

(* a constructor of a kind this layer does not model (signal, type, unit, attribute, builder, …):
   it only consumes a handle, so that handles stay the global creation index *)
Definition new_other (s : state) : state * result :=
  let '(_, s) := alloc s in ok s.

(* NewNetwork *)
Definition new_network (s : state) : state * result :=
  let '(h, s) := alloc s in ok (s <| nets ::= <[h := mkNet ∅ ∅]> |>).

(* NewBus(name) *)
Definition new_bus (s : state) (nm : name) : state * result :=
  let '(h, s) := alloc s in ok (s <| buses ::= <[h := mkBus nm None ∅ ∅ ∅ ∅ 0]> |>).

(* newNodeInterface(number, node) *)
Definition fresh_iface (nd : handle) (number : Z) : iface_rec :=
  mkIface nd number None ∅ ∅ ∅ ∅ ∅.

(* the loop of newNodeFromEntity: interfaces 0 .. count-1, handles allocated in order *)
Fixpoint new_ifaces (s : state) (nd : handle) (number : Z) (count : nat) : list handle * state :=
  match count with
  | O => ([], s)
  | S c =>
    let '(h, s) := alloc s in
    let s := s <| ifaces ::= <[h := fresh_iface nd number]> |> in
    let '(l, s) := new_ifaces s nd (number + 1) c in
    (h :: l, s)
  end.

(* NewNode(name, id, interfaceCount); a negative count panics in Go (makeslice) and is not
   representable here *)
Definition new_node (s : state) (nm : name) (id : Z) (count : nat) : state * result :=
  let '(h, s) := alloc s in
  let '(l, s) := new_ifaces s h 0 count in
  ok (s <| nodes ::= <[h := mkNode nm id l (Z.of_nat count)]> |>).

(* NewMessage(name, id, sizeByte) *)
Definition new_message (s : state) (nm : name) (id size : Z) : state * result :=
  let '(h, s) := alloc s in ok (s <| msgs ::= <[h := mkMsg nm id 0 false size None ∅]> |>).

(* NewSignalEnum *)
Definition new_enum (s : state) : state * result :=
  let '(h, s) := alloc s in ok (s <| enums ::= <[h := mkEnum ∅ ∅ ∅ 0]> |>).

(* NewSignalEnumValue(name, index) *)
Definition new_enum_value (s : state) (nm : name) (idx : Z) : state * result :=
  let '(h, s) := alloc s in ok (s <| evals ::= <[h := mkEval nm idx None]> |>).

(* ---------------------------------------------------------------------------------------- *)
(* Generic helpers                                                                          *)
(* ---------------------------------------------------------------------------------------- *)

(* apply [f] to every listed key of a heap (the "for … range children { child.parent = nil }" loops) *)
Definition alter_all {A} (f : A → A) (l : list handle) (m : gmap handle A) : gmap handle A :=
  foldr (λ h acc, alter f h acc) m l.

Definition delete_all {K} `{Countable K} {V} (l : list K) (m : gmap K V) : gmap K V :=
  foldr (λ k acc, delete k acc) m l.

Definition insert_all {K} `{Countable K} {V} (l : list (K * V)) (m : gmap K V) : gmap K V :=
  foldr (λ kv acc, <[kv.1 := kv.2]> acc) m l.

(* (static CAN-ID, message) of the listed messages that have a static CAN-ID *)
Definition static_of (ms : gmap handle msg_rec) (l : list handle) : list (Z * handle) :=
  omap (λ m, match ms !! m with
             | Some M => if m_hasStatic M then Some (m_static M, m) else None
             | None => None
             end) l.

(* ---------------------------------------------------------------------------------------- *)
(* Network (network.go)                                                                     *)
(* ---------------------------------------------------------------------------------------- *)

(* Network.AddBus *)
Definition net_add_bus (s : state) (n : handle) (ob : option handle) : state * result :=
  match nets s !! n with
  | None => bad s
  | Some N =>
    match ob with
    | None => err s Nil WArgument
    | Some b =>
      match buses s !! b with
      | None => bad s
      | Some B =>
        match n_busNames N !! b_name B with
        | Some _ => err s Duplicated WName
        | None =>
          ok (s <| nets := <[n := N <| n_buses := {[b]} ∪ n_buses N |>
                                    <| n_busNames := <[b_name B := b]> (n_busNames N) |>]> (nets s) |>
                <| buses := <[b := B <| b_parent := Some n |>]> (buses s) |>)
        end
      end
    end
  end.

(* Network.RemoveBus(entity id) *)
Definition net_remove_bus (s : state) (n : handle) (key : handle) : state * result :=
  match nets s !! n with
  | None => bad s
  | Some N =>
    if decide (key ∈ n_buses N) then
      match buses s !! key with
      | None => bad s
      | Some B =>
        ok (s <| buses := <[key := B <| b_parent := None |>]> (buses s) |>
              <| nets := <[n := N <| n_buses := n_buses N ∖ {[key]} |>
                                  <| n_busNames := delete (b_name B) (n_busNames N) |>]> (nets s) |>)
      end
    else err s NotFound WRemoveEntity
  end.

(* Network.RemoveAllBuses *)
Definition net_remove_all_buses (s : state) (n : handle) : state * result :=
  match nets s !! n with
  | None => bad s
  | Some N =>
    ok (s <| buses := alter_all (λ B, B <| b_parent := None |>) (elements (n_buses N)) (buses s) |>
          <| nets := <[n := N <| n_buses := ∅ |> <| n_busNames := ∅ |>]> (nets s) |>)
  end.

(* ---------------------------------------------------------------------------------------- *)
(* Bus (bus.go)                                                                             *)
(* ---------------------------------------------------------------------------------------- *)

(* Bus.UpdateName *)
Definition bus_update_name (s : state) (b : handle) (new : name) : state * result :=
  match buses s !! b with
  | None => bad s
  | Some B =>
    if decide (b_name B = new) then ok s else
    match b_parent B with
    | None => ok (s <| buses := <[b := B <| b_name := new |>]> (buses s) |>)
    | Some n =>
      match nets s !! n with
      | None => bad s
      | Some N =>
        match n_busNames N !! new with
        | Some _ => err s Duplicated WUpdateName
        | None =>
          ok (s <| nets := <[n := N <| n_busNames := modify_key (b_name B) new b (n_busNames N) |>]> (nets s) |>
                <| buses := <[b := B <| b_name := new |>]> (buses s) |>)
        end
      end
    end
  end.

(* first failing check of one sent message in Bus.AddNodeInterface *)
Definition addni_msg_err (B : bus_rec) (M : msg_rec) : list (cause * wrap) :=
  if too_big B (m_size M) then [(TooBig, WMessageSize)]
  else if m_hasStatic M then
    match b_static B !! m_static M with Some _ => [(Duplicated, WCANID)] | None => [] end
  else [].

Definition addni_errs (s : state) (B : bus_rec) (l : list handle) : list (cause * wrap) :=
  flat_map (λ m, match msgs s !! m with Some M => addni_msg_err B M | None => [] end) l.

(* Bus.AddNodeInterface *)
Definition bus_add_node_interface (s : state) (b : handle) (oi : option handle) : state * result :=
  match buses s !! b with
  | None => bad s
  | Some B =>
    match oi with
    | None => err s Nil WArgument
    | Some i =>
      match ifaces s !! i with
      | None => bad s
      | Some Ii =>
        match nodes s !! i_node Ii with
        | None => bad s
        | Some ND =>
          match b_nodeNames B !! nd_name ND with
          | Some _ => err s Duplicated WName
          | None =>
            match b_nodeIDs B !! nd_id ND with
            | Some _ => err s Duplicated WNodeID
            | None =>
              let sent := elements (i_sent Ii) in
              match addni_errs s B sent with
              | e :: es => (s, Err (e :: es))
              | [] =>
                ok (s <| buses := <[b := B <| b_static := insert_all (static_of (msgs s) sent) (b_static B) |>
                                           <| b_nodeInts := <[i_node Ii := i]> (b_nodeInts B) |>
                                           <| b_nodeNames := <[nd_name ND := i_node Ii]> (b_nodeNames B) |>
                                           <| b_nodeIDs := <[nd_id ND := i_node Ii]> (b_nodeIDs B) |>]> (buses s) |>
                      <| ifaces := <[i := Ii <| i_parent := Some b |>]> (ifaces s) |>)
              end
            end
          end
        end
      end
    end
  end.

(* Bus.RemoveNodeInterface(node entity id) *)
Definition bus_remove_node_interface (s : state) (b : handle) (key : handle) : state * result :=
  match buses s !! b with
  | None => bad s
  | Some B =>
    match b_nodeInts B !! key with
    | None => err s NotFound WRemoveEntity
    | Some i =>
      match ifaces s !! i with
      | None => bad s
      | Some Ii =>
        match nodes s !! i_node Ii with
        | None => bad s
        | Some ND =>
          ok (s <| ifaces := <[i := Ii <| i_parent := None |>]> (ifaces s) |>
                <| buses := <[b := B <| b_nodeInts := delete key (b_nodeInts B) |>
                                     <| b_nodeNames := delete (nd_name ND) (b_nodeNames B) |>
                                     <| b_nodeIDs := delete (nd_id ND) (b_nodeIDs B) |>
                                     <| b_static := delete_all (static_of (msgs s) (elements (i_sent Ii))).*1 (b_static B) |>]>
                              (buses s) |>)
        end
      end
    end
  end.

(* Bus.RemoveAllNodeInterfaces *)
Definition bus_remove_all_node_interfaces (s : state) (b : handle) : state * result :=
  match buses s !! b with
  | None => bad s
  | Some B =>
    ok (s <| ifaces := alter_all (λ Ii, Ii <| i_parent := None |>) (map_to_list (b_nodeInts B)).*2 (ifaces s) |>
          <| buses := <[b := B <| b_nodeInts := ∅ |> <| b_nodeNames := ∅ |> <| b_nodeIDs := ∅ |>
                               <| b_static := ∅ |>]> (buses s) |>)
  end.

(* ---------------------------------------------------------------------------------------- *)
(* Node (node.go)                                                                           *)
(* ---------------------------------------------------------------------------------------- *)

(* parent buses of the listed interfaces, in list order (the [buses] slice of UpdateName/UpdateID) *)
Definition parent_buses (s : state) (l : list handle) : list handle :=
  omap (λ i, match ifaces s !! i with Some Ii => i_parent Ii | None => None end) l.

(* Node.UpdateName *)
Definition node_update_name (s : state) (nd : handle) (new : name) : state * result :=
  match nodes s !! nd with
  | None => bad s
  | Some ND =>
    if decide (nd_name ND = new) then ok s else
    let bs := parent_buses s (nd_ifaces ND) in
    if existsb (λ b, match buses s !! b with
                     | Some B => bool_decide (is_Some (b_nodeNames B !! new))
                     | None => false end) bs
    then err s Duplicated WName
    else
      ok (s <| buses := alter_all (λ B, B <| b_nodeNames ::= modify_key (nd_name ND) new nd |>) bs (buses s) |>
            <| nodes := <[nd := ND <| nd_name := new |>]> (nodes s) |>)
  end.

(* Node.UpdateID *)
Definition node_update_id (s : state) (nd : handle) (new : Z) : state * result :=
  match nodes s !! nd with
  | None => bad s
  | Some ND =>
    if decide (nd_id ND = new) then ok s else
    let bs := parent_buses s (nd_ifaces ND) in
    if existsb (λ b, match buses s !! b with
                     | Some B => bool_decide (is_Some (b_nodeIDs B !! new))
                     | None => false end) bs
    then err s Duplicated WNodeID
    else
      ok (s <| buses := alter_all (λ B, B <| b_nodeIDs ::= modify_key (nd_id ND) new nd |>) bs (buses s) |>
            <| nodes := <[nd := ND <| nd_id := new |>]> (nodes s) |>)
  end.

(* Node.AddInterface *)
Definition node_add_interface (s : state) (nd : handle) : state * result :=
  match nodes s !! nd with
  | None => bad s
  | Some ND =>
    let '(h, s) := alloc s in
    ok (s <| ifaces ::= <[h := fresh_iface nd (nd_count ND)]> |>
          <| nodes ::= <[nd := ND <| nd_ifaces := nd_ifaces ND ++ [h] |> <| nd_count := nd_count ND + 1 |>]> |>)
  end.

(* the loop of Node.RemoveInterface: returns the state, the filtered slice and an error if the
   nested Bus.RemoveNodeInterface failed (Go then returns with what has been done so far) *)
Fixpoint rmif_loop (s : state) (nd : handle) (k : Z) (l : list handle) (found : bool)
  : state * list handle * option (list (cause * wrap)) :=
  match l with
  | [] => (s, [], None)
  | i :: l =>
    match ifaces s !! i with
    | None => rmif_loop s nd k l found
    | Some Ii =>
      if decide (i_number Ii = k) then
        match i_parent Ii with
        | Some b =>
          match bus_remove_node_interface s b nd with
          | (s', Ok) => rmif_loop s' nd k l true
          | (s', Err e) => (s', [], Some e)
          end
        | None => rmif_loop s nd k l true
        end
      else
        let s1 := if found then s <| ifaces := <[i := Ii <| i_number := i_number Ii - 1 |>]> (ifaces s) |> else s in
        let '(s2, l2, e) := rmif_loop s1 nd k l found in
        (s2, i :: l2, e)
    end
  end.

(* Node.RemoveInterface(interfaceNumber) *)
Definition node_remove_interface (s : state) (nd : handle) (k : Z) : state * result :=
  match nodes s !! nd with
  | None => bad s
  | Some ND =>
    if k <? 0 then err s Negative WArgument
    else if nd_count ND <=? k then err s OutOfBounds WArgument
    else
      match rmif_loop s nd k (nd_ifaces ND) false with
      | (s', _, Some e) => (s', Err e)
      | (s', l', None) =>
        ok (s' <| nodes := <[nd := ND <| nd_ifaces := l' |> <| nd_count := nd_count ND - 1 |>]> (nodes s') |>)
      end
  end.

(* ---------------------------------------------------------------------------------------- *)
(* NodeInterface (node_iterface.go)                                                         *)
(* ---------------------------------------------------------------------------------------- *)

(* b.messageStaticCANIDs of the parent bus, if any *)
Definition upd_parent_bus (s : state) (ob : option handle) (f : bus_rec → bus_rec) : gmap handle bus_rec :=
  match ob with Some b => alter f b (buses s) | None => buses s end.

Definition parent_bus_static_taken (s : state) (ob : option handle) (c : Z) : bool :=
  match ob with
  | Some b => match buses s !! b with Some B => bool_decide (is_Some (b_static B !! c)) | None => false end
  | None => false
  end.

(* NodeInterface.verifyMessageSize: asked of the bus the interface is attached to, if any *)
Definition parent_bus_too_big (s : state) (ob : option handle) (size : Z) : bool :=
  match ob with
  | Some b => match buses s !! b with Some B => too_big B size | None => false end
  | None => false
  end.

(* NodeInterface.AddSentMessage *)
Definition iface_add_sent (s : state) (i : handle) (om : option handle) : state * result :=
  match ifaces s !! i with
  | None => bad s
  | Some Ii =>
    match om with
    | None => err s Nil WArgument
    | Some m =>
      match msgs s !! m with
      | None => bad s
      | Some M =>
        match i_sentNames Ii !! m_name M with
        | Some _ => err s Duplicated WName
        | None =>
          if parent_bus_too_big s (i_parent Ii) (m_size M) then err s TooBig WMessageSize
          else if m_hasStatic M then
            match i_sentStatic Ii !! m_static M with
            | Some _ => err s Duplicated WCANID
            | None =>
              if parent_bus_static_taken s (i_parent Ii) (m_static M) then err s Duplicated WCANID
              else
                ok (s <| buses := upd_parent_bus s (i_parent Ii) (λ B, B <| b_static ::= <[m_static M := m]> |>) |>
                      <| ifaces := <[i := Ii <| i_sentStatic := <[m_static M := m]> (i_sentStatic Ii) |>
                                            <| i_sent := {[m]} ∪ i_sent Ii |>
                                            <| i_sentNames := <[m_name M := m]> (i_sentNames Ii) |>]> (ifaces s) |>
                      <| msgs := <[m := M <| m_sender := Some i |>]> (msgs s) |>)
            end
          else
            match i_sentIDs Ii !! m_id M with
            | Some _ => err s Duplicated WMessageID
            | None =>
              ok (s <| ifaces := <[i := Ii <| i_sentIDs := <[m_id M := m]> (i_sentIDs Ii) |>
                                          <| i_sent := {[m]} ∪ i_sent Ii |>
                                          <| i_sentNames := <[m_name M := m]> (i_sentNames Ii) |>]> (ifaces s) |>
                    <| msgs := <[m := M <| m_sender := Some i |>]> (msgs s) |>)
            end
        end
      end
    end
  end.

(* NodeInterface.RemoveSentMessage(entity id) *)
Definition iface_remove_sent (s : state) (i : handle) (key : handle) : state * result :=
  match ifaces s !! i with
  | None => bad s
  | Some Ii =>
    if decide (key ∈ i_sent Ii) then
      match msgs s !! key with
      | None => bad s
      | Some M =>
        if m_hasStatic M then
          ok (s <| msgs := <[key := M <| m_sender := None |>]> (msgs s) |>
                <| buses := upd_parent_bus s (i_parent Ii) (λ B, B <| b_static ::= delete (m_static M) |>) |>
                <| ifaces := <[i := Ii <| i_sent := i_sent Ii ∖ {[key]} |>
                                      <| i_sentNames := delete (m_name M) (i_sentNames Ii) |>
                                      <| i_sentStatic := delete (m_static M) (i_sentStatic Ii) |>]> (ifaces s) |>)
        else
          ok (s <| msgs := <[key := M <| m_sender := None |>]> (msgs s) |>
                <| ifaces := <[i := Ii <| i_sent := i_sent Ii ∖ {[key]} |>
                                      <| i_sentNames := delete (m_name M) (i_sentNames Ii) |>
                                      <| i_sentIDs := delete (m_id M) (i_sentIDs Ii) |>]> (ifaces s) |>)
      end
    else err s NotFound WRemoveEntity
  end.

(* NodeInterface.RemoveAllSentMessages *)
Definition iface_remove_all_sent (s : state) (i : handle) : state * result :=
  match ifaces s !! i with
  | None => bad s
  | Some Ii =>
    let sent := elements (i_sent Ii) in
    ok (s <| buses := upd_parent_bus s (i_parent Ii)
                        (λ B, B <| b_static ::= delete_all (static_of (msgs s) sent).*1 |>) |>
          <| msgs := alter_all (λ M, M <| m_sender := None |>) sent (msgs s) |>
          <| ifaces := <[i := Ii <| i_sent := ∅ |> <| i_sentNames := ∅ |> <| i_sentIDs := ∅ |>
                                <| i_sentStatic := ∅ |>]> (ifaces s) |>)
  end.

(* NodeInterface.addReceivedMessage: shared by NodeInterface.AddReceivedMessage and Message.AddReceiver *)
Definition add_received (s : state) (i m : handle) (Ii : iface_rec) (M : msg_rec) : state * result :=
  if decide (m ∈ i_sent Ii) then err s ReceiverIsSender WAddEntity
  else
    ok (s <| ifaces := <[i := Ii <| i_received := {[m]} ∪ i_received Ii |>]> (ifaces s) |>
          <| msgs := <[m := M <| m_receivers := <[i_node Ii := i]> (m_receivers M) |>]> (msgs s) |>).

(* NodeInterface.AddReceivedMessage *)
Definition iface_add_received (s : state) (i : handle) (om : option handle) : state * result :=
  match ifaces s !! i with
  | None => bad s
  | Some Ii =>
    match om with
    | None => err s Nil WArgument
    | Some m =>
      match msgs s !! m with
      | None => bad s
      | Some M => add_received s i m Ii M
      end
    end
  end.

(* NodeInterface.removeReceivedMessage *)
Definition remove_received (s : state) (i m : handle) (Ii : iface_rec) (M : msg_rec) : state :=
  s <| ifaces := <[i := Ii <| i_received := i_received Ii ∖ {[m]} |>]> (ifaces s) |>
    <| msgs := <[m := M <| m_receivers := delete (i_node Ii) (m_receivers M) |>]> (msgs s) |>.

(* NodeInterface.RemoveReceivedMessage(entity id) *)
Definition iface_remove_received (s : state) (i : handle) (key : handle) : state * result :=
  match ifaces s !! i with
  | None => bad s
  | Some Ii =>
    if decide (key ∈ i_received Ii) then
      match msgs s !! key with
      | None => bad s
      | Some M => ok (remove_received s i key Ii M)
      end
    else err s NotFound WRemoveEntity
  end.

(* NodeInterface.RemoveAllReceivedMessages *)
Definition iface_remove_all_received (s : state) (i : handle) : state * result :=
  match ifaces s !! i with
  | None => bad s
  | Some Ii =>
    ok (s <| msgs := alter_all (λ M, M <| m_receivers ::= delete (i_node Ii) |>) (elements (i_received Ii)) (msgs s) |>
          <| ifaces := <[i := Ii <| i_received := ∅ |>]> (ifaces s) |>)
  end.

(* ---------------------------------------------------------------------------------------- *)
(* Message (message.go), registry aspect                                                    *)
(* ---------------------------------------------------------------------------------------- *)

(* Message.UpdateName *)
Definition msg_update_name (s : state) (m : handle) (new : name) : state * result :=
  match msgs s !! m with
  | None => bad s
  | Some M =>
    if decide (m_name M = new) then ok s else
    match m_sender M with
    | None => ok (s <| msgs := <[m := M <| m_name := new |>]> (msgs s) |>)
    | Some i =>
      match ifaces s !! i with
      | None => bad s
      | Some Ii =>
        match i_sentNames Ii !! new with
        | Some _ => err s Duplicated WName
        | None =>
          ok (s <| ifaces := <[i := Ii <| i_sentNames := modify_key (m_name M) new m (i_sentNames Ii) |>]> (ifaces s) |>
                <| msgs := <[m := M <| m_name := new |>]> (msgs s) |>)
        end
      end
    end
  end.

(* Message.UpdateID (resets the static CAN-ID) *)
Definition msg_update_id (s : state) (m : handle) (new : Z) : state * result :=
  match msgs s !! m with
  | None => bad s
  | Some M =>
    if bool_decide (m_id M = new) && negb (m_hasStatic M) then ok s else
    let M' := M <| m_static := 0 |> <| m_hasStatic := false |> <| m_id := new |> in
    match m_sender M with
    | None => ok (s <| msgs := <[m := M']> (msgs s) |>)
    | Some i =>
      match ifaces s !! i with
      | None => bad s
      | Some Ii =>
        match i_sentIDs Ii !! new with
        | Some _ => err s Duplicated WMessageID
        | None =>
          if m_hasStatic M then
            ok (s <| buses := upd_parent_bus s (i_parent Ii) (λ B, B <| b_static ::= delete (m_static M) |>) |>
                  <| ifaces := <[i := Ii <| i_sentStatic := delete (m_static M) (i_sentStatic Ii) |>
                                        <| i_sentIDs := <[new := m]> (i_sentIDs Ii) |>]> (ifaces s) |>
                  <| msgs := <[m := M']> (msgs s) |>)
          else
            ok (s <| ifaces := <[i := Ii <| i_sentIDs := modify_key (m_id M) new m (i_sentIDs Ii) |>]> (ifaces s) |>
                  <| msgs := <[m := M']> (msgs s) |>)
        end
      end
    end
  end.

(* Message.SetStaticCANID (the message id becomes the static CAN-ID) *)
Definition msg_set_static (s : state) (m : handle) (c : Z) : state * result :=
  match msgs s !! m with
  | None => bad s
  | Some M =>
    let M' := M <| m_hasStatic := true |> <| m_static := c |> <| m_id := c |> in
    match m_sender M with
    | None => ok (s <| msgs := <[m := M']> (msgs s) |>)
    | Some i =>
      match ifaces s !! i with
      | None => bad s
      | Some Ii =>
        match i_sentStatic Ii !! c with
        | Some _ => err s Duplicated WCANID
        | None =>
          if parent_bus_static_taken s (i_parent Ii) c then err s Duplicated WCANID
          else if m_hasStatic M then
            ok (s <| buses := upd_parent_bus s (i_parent Ii) (λ B, B <| b_static ::= modify_key (m_static M) c m |>) |>
                  <| ifaces := <[i := Ii <| i_sentStatic := modify_key (m_static M) c m (i_sentStatic Ii) |>]> (ifaces s) |>
                  <| msgs := <[m := M']> (msgs s) |>)
          else
            ok (s <| buses := upd_parent_bus s (i_parent Ii) (λ B, B <| b_static ::= <[c := m]> |>) |>
                  <| ifaces := <[i := Ii <| i_sentIDs := delete (m_id M) (i_sentIDs Ii) |>
                                        <| i_sentStatic := <[c := m]> (i_sentStatic Ii) |>]> (ifaces s) |>
                  <| msgs := <[m := M']> (msgs s) |>)
        end
      end
    end
  end.

(* Message.AddReceiver *)
Definition msg_add_receiver (s : state) (m : handle) (oi : option handle) : state * result :=
  match msgs s !! m with
  | None => bad s
  | Some M =>
    match oi with
    | None => err s Nil WArgument
    | Some i =>
      match ifaces s !! i with
      | None => bad s
      | Some Ii => add_received s i m Ii M
      end
    end
  end.

(* Message.RemoveReceiver(node entity id) *)
Definition msg_remove_receiver (s : state) (m : handle) (key : handle) : state * result :=
  match msgs s !! m with
  | None => bad s
  | Some M =>
    match m_receivers M !! key with
    | None => err s NotFound WRemoveEntity
    | Some i =>
      match ifaces s !! i with
      | None => bad s
      | Some Ii => ok (remove_received s i m Ii M)
      end
    end
  end.

(* ---------------------------------------------------------------------------------------- *)
(* SignalEnum / SignalEnumValue (signal_enum.go), registry aspect                           *)
(* ---------------------------------------------------------------------------------------- *)

(* SignalEnum.setMaxIndex over the listed values *)
Definition max_index (vs : gmap handle eval_rec) (l : list handle) : Z :=
  foldr (λ v acc, match vs !! v with Some V => Z.max (v_index V) acc | None => acc end) 0 l.

(* SignalEnum.verifyValueIndex; [fits] is the layout oracle: can every referencing signal that
   sits in a message / multiplexer grow to the size the new index needs (geometry: C01/C07) *)
Definition verify_value_index (E : enum_rec) (idx : Z) (fits : bool) : option (cause * wrap) :=
  match e_valueIdx E !! idx with
  | Some _ => Some (Duplicated, WNone)
  | None => if (e_maxIndex E <? idx) && negb fits then Some (Layout, WValueIndex) else None
  end.

(* SignalEnum.AddValue *)
Definition enum_add_value (s : state) (e : handle) (ov : option handle) (fits : bool) : state * result :=
  match enums s !! e with
  | None => bad s
  | Some E =>
    match ov with
    | None => err s Nil WArgument
    | Some v =>
      match evals s !! v with
      | None => bad s
      | Some V =>
        match verify_value_index E (v_index V) fits with
        | Some (c, w) => err s c (if decide (w = WNone) then WAddEntity else w)
        | None =>
          match e_valueNames E !! v_name V with
          | Some _ => err s Duplicated WName
          | None =>
            ok (s <| enums := <[e := E <| e_maxIndex := Z.max (v_index V) (e_maxIndex E) |>
                                       <| e_values := {[v]} ∪ e_values E |>
                                       <| e_valueNames := <[v_name V := v]> (e_valueNames E) |>
                                       <| e_valueIdx := <[v_index V := v]> (e_valueIdx E) |>]> (enums s) |>
                  <| evals := <[v := V <| v_parent := Some e |>]> (evals s) |>)
          end
        end
      end
    end
  end.

(* SignalEnum.RemoveValue(entity id) *)
Definition enum_remove_value (s : state) (e : handle) (key : handle) : state * result :=
  match enums s !! e with
  | None => bad s
  | Some E =>
    if decide (key ∈ e_values E) then
      match evals s !! key with
      | None => bad s
      | Some V =>
        let vals := e_values E ∖ {[key]} in
        let s1 := s <| evals := <[key := V <| v_parent := None |>]> (evals s) |> in
        ok (s1 <| enums := <[e := E <| e_values := vals |>
                                    <| e_valueNames := delete (v_name V) (e_valueNames E) |>
                                    <| e_valueIdx := delete (v_index V) (e_valueIdx E) |>
                                    <| e_maxIndex := if decide (v_index V = e_maxIndex E)
                                                     then max_index (evals s1) (elements vals) else e_maxIndex E |>]>
                               (enums s) |>)
      end
    else err s NotFound WRemoveEntity
  end.

(* SignalEnum.RemoveAllValues *)
Definition enum_remove_all_values (s : state) (e : handle) : state * result :=
  match enums s !! e with
  | None => bad s
  | Some E =>
    ok (s <| evals := alter_all (λ V, V <| v_parent := None |>) (elements (e_values E)) (evals s) |>
          <| enums := <[e := E <| e_values := ∅ |> <| e_valueNames := ∅ |> <| e_valueIdx := ∅ |>
                                 <| e_maxIndex := 0 |>]> (enums s) |>)
  end.

(* SignalEnumValue.UpdateName *)
Definition eval_update_name (s : state) (v : handle) (new : name) : state * result :=
  match evals s !! v with
  | None => bad s
  | Some V =>
    if decide (v_name V = new) then ok s else
    match v_parent V with
    | None => ok (s <| evals := <[v := V <| v_name := new |>]> (evals s) |>)
    | Some e =>
      match enums s !! e with
      | None => bad s
      | Some E =>
        match e_valueNames E !! new with
        | Some _ => err s Duplicated WName
        | None =>
          ok (s <| enums := <[e := E <| e_valueNames := modify_key (v_name V) new v (e_valueNames E) |>]> (enums s) |>
                <| evals := <[v := V <| v_name := new |>]> (evals s) |>)
        end
      end
    end
  end.

(* SignalEnum.modifyValueIndex, registry part: the max index after the update; the other values
   keep their index *)
Definition modify_max_index (s : state) (E : enum_rec) (v : handle) (new : Z) : Z :=
  Z.max new (max_index (evals s) (elements (e_values E ∖ {[v]}))).

(* SignalEnumValue.UpdateIndex *)
Definition eval_update_index (s : state) (v : handle) (new : Z) (fits : bool) : state * result :=
  match evals s !! v with
  | None => bad s
  | Some V =>
    if decide (v_index V = new) then ok s else
    match v_parent V with
    | None => ok (s <| evals := <[v := V <| v_index := new |>]> (evals s) |>)
    | Some e =>
      match enums s !! e with
      | None => bad s
      | Some E =>
        match verify_value_index E new fits with
        | Some (c, w) => err s c (if decide (w = WNone) then WUpdateIndex else w)
        | None =>
          ok (s <| enums := <[e := E <| e_maxIndex := modify_max_index s E v new |>
                                     <| e_valueIdx := modify_key (v_index V) new v (e_valueIdx E) |>]> (enums s) |>
                <| evals := <[v := V <| v_index := new |>]> (evals s) |>)
        end
      end
    end
  end.
