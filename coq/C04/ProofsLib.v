(* C04/C05/C06 — generic lemmas proved once (DESIGN 3.7): index maintenance (IndexOK under
   insert / delete / re-key / frame), bulk helpers (alter_all, delete_all, insert_all), lists. *)
From Acme.C04 Require Export Invariant.
From Coq Require Import ZifyBool ZifyNat ZifyN Lia.

(* ---- IndexOK ------------------------------------------------------------------------------ *)
Section index.
  Context {K : Type} `{Countable K}.
  Implicit Types (ekey : handle → option K) (idx : gmap K handle).

  Lemma IndexOK_inj ekey idx h1 h2 k :
    IndexOK ekey idx → ekey h1 = Some k → ekey h2 = Some k → h1 = h2.
  Proof.
    intros Hok H1 H2. apply Hok in H1, H2. congruence.
  Qed.

  Lemma IndexOK_ext ekey ekey' idx :
    IndexOK ekey idx → (∀ h, ekey' h = ekey h) → IndexOK ekey' idx.
  Proof. intros Hok He k h. rewrite He. apply Hok. Qed.

  Lemma IndexOK_free ekey idx k :
    IndexOK ekey idx → idx !! k = None → ∀ h, ekey h ≠ Some k.
  Proof. intros Hok Hn h Hh. apply Hok in Hh. congruence. Qed.

  Lemma IndexOK_taken ekey idx k h :
    IndexOK ekey idx → ekey h = Some k → idx !! k = Some h.
  Proof. intros Hok Hh. by apply Hok. Qed.

  Lemma IndexOK_empty ekey : (∀ h, ekey h = None) → IndexOK ekey ∅.
  Proof. intros He k h. rewrite lookup_empty, He. split; congruence. Qed.

  (* child [c] gets key [k] (it had none): set.add *)
  Lemma IndexOK_insert ekey ekey' idx c k :
    IndexOK ekey idx → ekey c = None → idx !! k = None →
    ekey' c = Some k → (∀ h, h ≠ c → ekey' h = ekey h) →
    IndexOK ekey' (<[k := c]> idx).
  Proof.
    intros Hok Hc Hk Hc' Hne k' h.
    destruct (decide (k' = k)) as [->|Hkk].
    - rewrite lookup_insert. split.
      + intros [= <-]. done.
      + intros Hh. destruct (decide (h = c)) as [->|Hhc]; [done|].
        rewrite Hne in Hh by done. apply Hok in Hh. congruence.
    - rewrite lookup_insert_ne by done. rewrite (Hok k' h).
      destruct (decide (h = c)) as [->|Hhc].
      + rewrite Hc, Hc'. split; congruence.
      + by rewrite Hne.
  Qed.

  (* child [c] loses its key [k]: set.remove *)
  Lemma IndexOK_delete ekey ekey' idx c k :
    IndexOK ekey idx → ekey c = Some k →
    ekey' c = None → (∀ h, h ≠ c → ekey' h = ekey h) →
    IndexOK ekey' (delete k idx).
  Proof.
    intros Hok Hc Hc' Hne k' h.
    destruct (decide (k' = k)) as [->|Hkk].
    - rewrite lookup_delete. split; [done|].
      intros Hh. destruct (decide (h = c)) as [->|Hhc]; [congruence|].
      rewrite Hne in Hh by done. exfalso. apply Hhc. eapply IndexOK_inj; eauto.
    - rewrite lookup_delete_ne by done. rewrite (Hok k' h).
      destruct (decide (h = c)) as [->|Hhc].
      + rewrite Hc, Hc'. split; congruence.
      + by rewrite Hne.
  Qed.

  (* child [c] changes its key from [k] to [k']: set.modifyKey *)
  Lemma IndexOK_rekey ekey ekey' idx c k k' :
    IndexOK ekey idx → ekey c = Some k → idx !! k' = None →
    ekey' c = Some k' → (∀ h, h ≠ c → ekey' h = ekey h) →
    IndexOK ekey' (modify_key k k' c idx).
  Proof.
    intros Hok Hc Hk' Hc' Hne. unfold modify_key.
    eapply (IndexOK_insert (λ h, if decide (h = c) then None else ekey h)).
    - eapply (IndexOK_delete ekey); eauto.
      + by rewrite decide_True.
      + intros h Hh. by rewrite decide_False.
    - by rewrite decide_True.
    - destruct (decide (k' = k)) as [->|]; [by rewrite lookup_delete|by rewrite lookup_delete_ne].
    - done.
    - intros h Hh. rewrite decide_False by done. by apply Hne.
  Qed.

  (* a key that nobody holds may be deleted without effect (removal of a child without key) *)
  Lemma IndexOK_delete_absent ekey idx k :
    IndexOK ekey idx → (∀ h, ekey h ≠ Some k) → IndexOK ekey (delete k idx).
  Proof.
    intros Hok Hk k' h. destruct (decide (k' = k)) as [->|].
    - rewrite lookup_delete. split; [done|]. intros Hh. by apply Hk in Hh.
    - rewrite lookup_delete_ne by done. apply Hok.
  Qed.
End index.

(* ---- bulk helpers ------------------------------------------------------------------------- *)
Lemma lookup_alter_all {A} (f : A → A) (l : list handle) (m : gmap handle A) h :
  (∀ x, f (f x) = f x) →
  alter_all f l m !! h = if decide (h ∈ l) then f <$> m !! h else m !! h.
Proof.
  intros Hf. induction l as [|a l IH]; cbn [alter_all foldr].
  - rewrite decide_False; [done|apply not_elem_of_nil].
  - fold (alter_all f l m). destruct (decide (h = a)) as [->|Hne].
    + rewrite lookup_alter, IH.
      destruct (decide (a ∈ a :: l)) as [_|Hn]; [|exfalso; apply Hn; left].
      destruct (decide (a ∈ l)); [|done].
      destruct (m !! a); cbn; [by rewrite Hf|done].
    + rewrite lookup_alter_ne by done. rewrite IH.
      destruct (decide (h ∈ l)) as [Hin|Hin].
      * rewrite decide_True; [done|by apply elem_of_list_further].
      * rewrite decide_False; [done|]. rewrite elem_of_cons. intros [?|?]; done.
Qed.

Lemma lookup_delete_all {K} `{Countable K} {V} (l : list K) (m : gmap K V) k :
  delete_all l m !! k = if decide (k ∈ l) then None else m !! k.
Proof.
  induction l as [|a l IH]; cbn [delete_all foldr].
  - rewrite decide_False; [done|apply not_elem_of_nil].
  - fold (delete_all l m). destruct (decide (k = a)) as [->|Hne].
    + rewrite lookup_delete. rewrite decide_True; [done|apply elem_of_list_here].
    + rewrite lookup_delete_ne by done. rewrite IH.
      destruct (decide (k ∈ l)) as [Hin|Hin].
      * rewrite decide_True; [done|by apply elem_of_list_further].
      * rewrite decide_False; [done|]. rewrite elem_of_cons. intros [?|?]; done.
Qed.

Lemma lookup_insert_all_None {K} `{Countable K} {V} (l : list (K * V)) (m : gmap K V) k :
  k ∉ l.*1 → insert_all l m !! k = m !! k.
Proof.
  induction l as [|[a v] l IH]; cbn [insert_all foldr]; [done|].
  fold (insert_all l m). intros Hk. cbn in Hk.
  rewrite lookup_insert_ne by set_solver. apply IH. set_solver.
Qed.

Lemma lookup_insert_all_Some {K} `{Countable K} {V} (l : list (K * V)) (m : gmap K V) k v :
  NoDup l.*1 → (k, v) ∈ l → insert_all l m !! k = Some v.
Proof.
  induction l as [|[a w] l IH]; cbn [insert_all foldr]; [set_solver|].
  fold (insert_all l m). cbn. intros Hnd Hin. apply NoDup_cons in Hnd as [Ha Hnd].
  apply elem_of_cons in Hin as [[= -> ->]|Hin].
  - by rewrite lookup_insert.
  - rewrite lookup_insert_ne; [by apply IH|].
    intros ->. apply Ha. apply elem_of_list_fmap. by exists (k, v).
Qed.

(* ---- max index ------------------------------------------------------------------------------ *)
Local Open Scope Z_scope.

Lemma max_index_nonneg vs l : 0 ≤ max_index vs l.
Proof.
  induction l as [|v l IH]; cbn [max_index foldr]; [lia|].
  fold (max_index vs l). destruct (vs !! v); lia.
Qed.

Lemma max_index_ge vs l v V : v ∈ l → vs !! v = Some V → v_index V ≤ max_index vs l.
Proof.
  induction l as [|a l IH]; cbn [max_index foldr]; [by intros ?%not_elem_of_nil|].
  fold (max_index vs l). intros Hin HV. apply elem_of_cons in Hin as [->|Hin].
  - rewrite HV. lia.
  - specialize (IH Hin HV). destruct (vs !! a); lia.
Qed.

(* the maximum is 0 or attained *)
Lemma max_index_attained vs l :
  max_index vs l = 0 ∨ ∃ v V, v ∈ l ∧ vs !! v = Some V ∧ v_index V = max_index vs l.
Proof.
  induction l as [|a l IH]; cbn [max_index foldr]; [by left|].
  fold (max_index vs l). destruct (vs !! a) as [A|] eqn:HA.
  - destruct (Z.max_spec (v_index A) (max_index vs l)) as [[Hlt ->]|[Hge ->]].
    + destruct IH as [IH|(v & V & Hv & HV & Hi)]; [by left|].
      right. exists v, V. split; [by apply elem_of_list_further|done].
    + right. exists a, A. split; [apply elem_of_list_here|done].
  - destruct IH as [IH|(v & V & Hv & HV & Hi)]; [by left|].
    right. exists v, V. split; [by apply elem_of_list_further|done].
Qed.

Lemma max_index_spec vs l z :
  0 ≤ z → (∀ v V, v ∈ l → vs !! v = Some V → v_index V ≤ z) →
  (z = 0 ∨ ∃ v V, v ∈ l ∧ vs !! v = Some V ∧ v_index V = z) →
  max_index vs l = z.
Proof.
  intros Hz Hub Hatt.
  assert (max_index vs l ≤ z) as Hle.
  { destruct (max_index_attained vs l) as [->|(v & V & Hv & HV & <-)]; [done|eauto]. }
  destruct Hatt as [->|(v & V & Hv & HV & <-)].
  - pose proof (max_index_nonneg vs l). lia.
  - pose proof (max_index_ge vs l v V Hv HV). lia.
Qed.

(* max_index only looks at the indexes of the listed values *)
Lemma max_index_ext vs vs' l :
  (∀ v, v ∈ l → v_index <$> vs' !! v = v_index <$> vs !! v) →
  max_index vs' l = max_index vs l.
Proof.
  induction l as [|a l IH]; cbn [max_index foldr]; [done|].
  fold (max_index vs l) (max_index vs' l). intros He.
  rewrite IH by (intros; apply He; by apply elem_of_list_further).
  specialize (He a (elem_of_list_here _ _)).
  destruct (vs' !! a), (vs !! a); cbn in He; congruence.
Qed.

Lemma max_index_perm vs l l' : l ≡ₚ l' → max_index vs l = max_index vs l'.
Proof.
  intros Hp. apply max_index_spec.
  - apply max_index_nonneg.
  - intros v V Hv HV. eapply max_index_ge; [|done]. by rewrite <- Hp.
  - destruct (max_index_attained vs l') as [->|(v & V & Hv & HV & Hi)]; [by left|].
    right. exists v, V. by rewrite Hp.
Qed.
