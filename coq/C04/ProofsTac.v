(* C04/C05/C06 — tactics and rewriting lemmas shared by the per-operation proofs. *)
From Acme.C04 Require Export ProofsLib.

(* case split on the key of a lookup in an updated heap *)
Ltac lookup_cases H :=
  match type of H with
  | <[?k := _]> _ !! ?x = _ =>
      destruct (decide (x = k)) as [->|?];
      [rewrite lookup_insert in H; simplify_eq/= | rewrite lookup_insert_ne in H by done]
  end.
Ltac split_lookups :=
  repeat match goal with H : <[_:=_]> _ !! _ = Some _ |- _ => lookup_cases H end.
(* frame: the conjunct does not mention what the operation wrote *)
Ltac inv_auto := intros; split_lookups; simpl in *; eauto.

(* frame for a conjunct whose conclusion looks an entity up in a heap written at one key:
   take the witness from the old conjunct [H], then split on the key *)
Ltac inv_ex H :=
  intros; split_lookups; edestruct H as (? & ? & ?); [eauto..|];
  match goal with
  | |- ∃ _, <[?k:=_]> _ !! ?k = _ ∧ _ =>
      eexists; rewrite lookup_insert; (split; [done|]); simplify_eq/=; eauto
  | |- ∃ _, <[?k:=_]> _ !! ?x = _ ∧ _ =>
      destruct (decide (x = k)) as [?|?];
      [subst; try congruence; eexists; rewrite lookup_insert; (split; [done|]); simplify_eq/=; eauto
      |eexists; rewrite lookup_insert_ne by done; eauto]
  end.

(* freshness after writes at existing keys *)
Ltac fresh_tac Hf :=
  let h := fresh "h" in let Hh := fresh "Hh" in
  intros h Hh; destruct (Hf h Hh) as (?&?&?&?&?&?&?); repeat split; try done;
  (rewrite lookup_insert_ne; [done | intros ->; congruence]).

(* ---- key functions under a single write to the child heap -------------------------------- *)
Lemma key_bus_name_ne bs b B' n h : h ≠ b → key_bus_name (<[b:=B']> bs) n h = key_bus_name bs n h.
Proof. intros. unfold key_bus_name. by rewrite lookup_insert_ne. Qed.
Lemma key_bus_name_eq bs b B' n :
  key_bus_name (<[b:=B']> bs) n b = if decide (b_parent B' = Some n) then Some (b_name B') else None.
Proof. unfold key_bus_name. by rewrite lookup_insert. Qed.

Lemma key_msg_name_ne ms m M' i h : h ≠ m → key_msg_name (<[m:=M']> ms) i h = key_msg_name ms i h.
Proof. intros. unfold key_msg_name. by rewrite lookup_insert_ne. Qed.
Lemma key_msg_name_eq ms m M' i :
  key_msg_name (<[m:=M']> ms) i m = if decide (m_sender M' = Some i) then Some (m_name M') else None.
Proof. unfold key_msg_name. by rewrite lookup_insert. Qed.
Lemma key_msg_id_ne ms m M' i h : h ≠ m → key_msg_id (<[m:=M']> ms) i h = key_msg_id ms i h.
Proof. intros. unfold key_msg_id. by rewrite lookup_insert_ne. Qed.
Lemma key_msg_id_eq ms m M' i :
  key_msg_id (<[m:=M']> ms) i m =
  if decide (m_sender M' = Some i) then (if m_hasStatic M' then None else Some (m_id M')) else None.
Proof. unfold key_msg_id. by rewrite lookup_insert. Qed.
Lemma key_msg_static_ne ms m M' i h : h ≠ m → key_msg_static (<[m:=M']> ms) i h = key_msg_static ms i h.
Proof. intros. unfold key_msg_static. by rewrite lookup_insert_ne. Qed.
Lemma key_msg_static_eq ms m M' i :
  key_msg_static (<[m:=M']> ms) i m =
  if decide (m_sender M' = Some i) then (if m_hasStatic M' then Some (m_static M') else None) else None.
Proof. unfold key_msg_static. by rewrite lookup_insert. Qed.

Lemma key_eval_name_ne vs v V' e h : h ≠ v → key_eval_name (<[v:=V']> vs) e h = key_eval_name vs e h.
Proof. intros. unfold key_eval_name. by rewrite lookup_insert_ne. Qed.
Lemma key_eval_name_eq vs v V' e :
  key_eval_name (<[v:=V']> vs) e v = if decide (v_parent V' = Some e) then Some (v_name V') else None.
Proof. unfold key_eval_name. by rewrite lookup_insert. Qed.
Lemma key_eval_index_ne vs v V' e h : h ≠ v → key_eval_index (<[v:=V']> vs) e h = key_eval_index vs e h.
Proof. intros. unfold key_eval_index. by rewrite lookup_insert_ne. Qed.
Lemma key_eval_index_eq vs v V' e :
  key_eval_index (<[v:=V']> vs) e v = if decide (v_parent V' = Some e) then Some (v_index V') else None.
Proof. unfold key_eval_index. by rewrite lookup_insert. Qed.

(* the key of a child under its own container / under another container *)
Lemma key_bus_name_val bs n b B :
  bs !! b = Some B → key_bus_name bs n b = if decide (b_parent B = Some n) then Some (b_name B) else None.
Proof. intros HB. unfold key_bus_name. by rewrite HB. Qed.
Lemma key_msg_name_val ms i m M :
  ms !! m = Some M → key_msg_name ms i m = if decide (m_sender M = Some i) then Some (m_name M) else None.
Proof. intros HM. unfold key_msg_name. by rewrite HM. Qed.
Lemma key_msg_id_val ms i m M :
  ms !! m = Some M → key_msg_id ms i m =
  if decide (m_sender M = Some i) then (if m_hasStatic M then None else Some (m_id M)) else None.
Proof. intros HM. unfold key_msg_id. by rewrite HM. Qed.
Lemma key_msg_static_val ms i m M :
  ms !! m = Some M → key_msg_static ms i m =
  if decide (m_sender M = Some i) then (if m_hasStatic M then Some (m_static M) else None) else None.
Proof. intros HM. unfold key_msg_static. by rewrite HM. Qed.
Lemma key_eval_name_val vs e v V :
  vs !! v = Some V → key_eval_name vs e v = if decide (v_parent V = Some e) then Some (v_name V) else None.
Proof. intros HV. unfold key_eval_name. by rewrite HV. Qed.
Lemma key_eval_index_val vs e v V :
  vs !! v = Some V → key_eval_index vs e v = if decide (v_parent V = Some e) then Some (v_index V) else None.
Proof. intros HV. unfold key_eval_index. by rewrite HV. Qed.

(* ---- more rewriting lemmas ------------------------------------------------------------------ *)
Lemma alter_as_insert {A} (f : A → A) (m : gmap handle A) k x :
  m !! k = Some x → alter f k m = <[k := f x]> m.
Proof.
  intros Hk. apply map_eq. intros k'. destruct (decide (k' = k)) as [->|].
  - by rewrite lookup_alter, lookup_insert, Hk.
  - by rewrite lookup_alter_ne, lookup_insert_ne.
Qed.

(* key_bus_static: writes to the message heap *)
Lemma key_bus_static_msg_ne ms is m M' b h :
  h ≠ m → key_bus_static (<[m:=M']> ms) is b h = key_bus_static ms is b h.
Proof. intros. unfold key_bus_static. by rewrite lookup_insert_ne. Qed.
Lemma key_bus_static_msg_eq ms is m M' b :
  key_bus_static (<[m:=M']> ms) is b m =
  i ← m_sender M'; Ii ← is !! i;
  if decide (i_parent Ii = Some b) then (if m_hasStatic M' then Some (m_static M') else None) else None.
Proof. unfold key_bus_static. by rewrite lookup_insert. Qed.
Lemma key_bus_static_val ms is m M b :
  ms !! m = Some M → key_bus_static ms is b m =
  i ← m_sender M; Ii ← is !! i;
  if decide (i_parent Ii = Some b) then (if m_hasStatic M then Some (m_static M) else None) else None.
Proof. intros HM. unfold key_bus_static. by rewrite HM. Qed.
(* key_bus_static: writes to the interface heap that keep the parent bus *)
Lemma key_bus_static_iface_frame ms is is' b h :
  (∀ i, i_parent <$> is' !! i = i_parent <$> is !! i) →
  key_bus_static ms is' b h = key_bus_static ms is b h.
Proof.
  intros Hp. unfold key_bus_static. destruct (ms !! h) as [M|]; [|done]. cbn.
  destruct (m_sender M) as [i|]; [|done]. cbn. specialize (Hp i).
  destruct (is' !! i) as [I'|], (is !! i) as [I0|]; cbn in *; try done.
  injection Hp as Hp. by rewrite Hp.
Qed.
Lemma iface_parent_frame (is : gmap handle iface_rec) i Ii I' :
  is !! i = Some Ii → i_parent I' = i_parent Ii →
  ∀ i0, i_parent <$> <[i:=I']> is !! i0 = i_parent <$> is !! i0.
Proof.
  intros HI Hp i0. destruct (decide (i0 = i)) as [->|].
  - by rewrite lookup_insert, HI; cbn; rewrite Hp.
  - by rewrite lookup_insert_ne.
Qed.

(* key_node_name / key_node_id: writes to the node heap and to the bus map *)
Lemma key_node_name_ne nds ni nd ND' h :
  h ≠ nd → key_node_name (<[nd:=ND']> nds) ni h = key_node_name nds ni h.
Proof. intros. unfold key_node_name. by rewrite lookup_insert_ne. Qed.
Lemma key_node_id_ne nds ni nd ND' h :
  h ≠ nd → key_node_id (<[nd:=ND']> nds) ni h = key_node_id nds ni h.
Proof. intros. unfold key_node_id. by rewrite lookup_insert_ne. Qed.

Lemma key_bus_name_frame bs b B B' n h :
  bs !! b = Some B → b_name B' = b_name B → b_parent B' = b_parent B →
  key_bus_name (<[b:=B']> bs) n h = key_bus_name bs n h.
Proof.
  intros HB Hn Hp. destruct (decide (h = b)) as [->|]; [|by apply key_bus_name_ne].
  by rewrite key_bus_name_eq, (key_bus_name_val _ _ _ _ HB), Hn, Hp.
Qed.

(* frame for the network name index when a bus record changes but not its name / parent *)
Ltac net_names_frame H HB :=
  let n0 := fresh "n" in let N0 := fresh "N" in let HN0 := fresh "HN" in
  intros n0 N0 HN0; eapply IndexOK_ext; [by eapply H|];
  intros ?; by eapply key_bus_name_frame; [exact HB|..].

(* the static CAN-IDs collected from a list of messages *)
Lemma elem_of_static_of ms l c m :
  (c, m) ∈ static_of ms l ↔ m ∈ l ∧ ∃ M, ms !! m = Some M ∧ m_hasStatic M = true ∧ m_static M = c.
Proof.
  unfold static_of. rewrite elem_of_list_omap. split.
  - intros (x & Hx & Hm). destruct (ms !! x) as [M|] eqn:HM; [|done].
    destruct (m_hasStatic M) eqn:Hs; [|done]. simplify_eq. eauto.
  - intros (Hin & M & HM & Hs & <-). exists m. split; [done|]. by rewrite HM, Hs.
Qed.

Lemma elem_of_static_of_keys ms l c :
  c ∈ (static_of ms l).*1 ↔ ∃ m M, m ∈ l ∧ ms !! m = Some M ∧ m_hasStatic M = true ∧ m_static M = c.
Proof.
  rewrite elem_of_list_fmap. split.
  - intros ([c' m] & -> & Hin). apply elem_of_static_of in Hin as (? & M & ? & ? & ?). cbn. eauto 8.
  - intros (m & M & ? & ? & ? & ?). exists (c, m). split; [done|]. apply elem_of_static_of. eauto 8.
Qed.

(* message record changes that keep sender / name / id / static CAN-ID *)
Lemma key_msg_name_frame ms m M M' i h :
  ms !! m = Some M → m_sender M' = m_sender M → m_name M' = m_name M →
  key_msg_name (<[m:=M']> ms) i h = key_msg_name ms i h.
Proof.
  intros HM Hs Hn. destruct (decide (h = m)) as [->|]; [|by apply key_msg_name_ne].
  by rewrite key_msg_name_eq, (key_msg_name_val _ _ _ _ HM), Hs, Hn.
Qed.
Lemma key_msg_id_frame ms m M M' i h :
  ms !! m = Some M → m_sender M' = m_sender M → m_id M' = m_id M → m_hasStatic M' = m_hasStatic M →
  key_msg_id (<[m:=M']> ms) i h = key_msg_id ms i h.
Proof.
  intros HM Hs Hn Hh. destruct (decide (h = m)) as [->|]; [|by apply key_msg_id_ne].
  by rewrite key_msg_id_eq, (key_msg_id_val _ _ _ _ HM), Hs, Hn, Hh.
Qed.
Lemma key_msg_static_frame ms m M M' i h :
  ms !! m = Some M → m_sender M' = m_sender M → m_static M' = m_static M → m_hasStatic M' = m_hasStatic M →
  key_msg_static (<[m:=M']> ms) i h = key_msg_static ms i h.
Proof.
  intros HM Hs Hn Hh. destruct (decide (h = m)) as [->|]; [|by apply key_msg_static_ne].
  by rewrite key_msg_static_eq, (key_msg_static_val _ _ _ _ HM), Hs, Hn, Hh.
Qed.
Lemma key_bus_static_msg_frame ms is m M M' b h :
  ms !! m = Some M → m_sender M' = m_sender M → m_static M' = m_static M → m_hasStatic M' = m_hasStatic M →
  key_bus_static (<[m:=M']> ms) is b h = key_bus_static ms is b h.
Proof.
  intros HM Hs Hn Hh. destruct (decide (h = m)) as [->|]; [|by apply key_bus_static_msg_ne].
  by rewrite key_bus_static_msg_eq, (key_bus_static_val _ _ _ _ _ HM), Hs, Hn, Hh.
Qed.
