(* C04/C05 — invariant preservation: Bus.AddNodeInterface / RemoveNodeInterface /
   RemoveAllNodeInterfaces. *)
From Acme.C04 Require Import ProofsTac.

(* Attaching / detaching interfaces rewrites the four maps of buses and the parent link of
   interfaces; everything else is framed once here. *)
Definition bus_np_core (B : bus_rec) : bus_rec :=
  B <| b_nodeInts := ∅ |> <| b_nodeNames := ∅ |> <| b_nodeIDs := ∅ |> <| b_static := ∅ |> <| b_type := 0%Z |>.
Definition iface_par_core (Ii : iface_rec) : iface_rec := Ii <| i_parent := None |>.

Lemma core_lookup' {A} (core : A → A) (m' m : gmap handle A) :
  (∀ k, core <$> m' !! k = core <$> m !! k) →
  (∀ k x', m' !! k = Some x' → ∃ x, m !! k = Some x ∧ core x' = core x) ∧
  (∀ k x, m !! k = Some x → ∃ x', m' !! k = Some x' ∧ core x' = core x) ∧
  (∀ k, m !! k = None → m' !! k = None).
Proof.
  intros Hc. split; [|split].
  - intros k x' Hl. specialize (Hc k). rewrite Hl in Hc. destruct (m !! k) as [x|]; [|done].
    exists x. split; [done|]. by apply (inj Some).
  - intros k x Hl. specialize (Hc k). rewrite Hl in Hc. destruct (m' !! k) as [x'|]; [|done].
    exists x'. split; [done|]. by apply (inj Some).
  - intros k Hl. specialize (Hc k). rewrite Hl in Hc. by destruct (m' !! k).
Qed.

Lemma core_insert_same' {A} (core : A → A) (m : gmap handle A) k x x' :
  m !! k = Some x → core x' = core x → ∀ k0, core <$> <[k:=x']> m !! k0 = core <$> m !! k0.
Proof.
  intros Hk Hc k0. destruct (decide (k0 = k)) as [->|]; [|by rewrite lookup_insert_ne].
  rewrite lookup_insert, Hk. cbn. by rewrite Hc.
Qed.

Lemma inv_bus_attach_frame s bs' is' :
  Inv s →
  (∀ b0, bus_np_core <$> bs' !! b0 = bus_np_core <$> buses s !! b0) →
  (∀ i0, iface_par_core <$> is' !! i0 = iface_par_core <$> ifaces s !! i0) →
  (∀ b B nd i, bs' !! b = Some B → b_nodeInts B !! nd = Some i →
     ∃ Ii, is' !! i = Some Ii ∧ i_node Ii = nd ∧ i_parent Ii = Some b) →
  (∀ i Ii b, is' !! i = Some Ii → i_parent Ii = Some b →
     ∃ B, bs' !! b = Some B ∧ b_nodeInts B !! i_node Ii = Some i) →
  (∀ b B, bs' !! b = Some B → IndexOK (key_node_name (nodes s) (b_nodeInts B)) (b_nodeNames B)) →
  (∀ b B, bs' !! b = Some B → IndexOK (key_node_id (nodes s) (b_nodeInts B)) (b_nodeIDs B)) →
  (∀ b B, bs' !! b = Some B → IndexOK (key_bus_static (msgs s) is' b) (b_static B)) →
  (∀ i Ii b, is' !! i = Some Ii → i_parent Ii = Some b →
     ∃ ND, nodes s !! i_node Ii = Some ND ∧ i ∈ nd_ifaces ND) →
  Inv (s <| buses := bs' |> <| ifaces := is' |>).
Proof.
  intros Hinv Hbs His Hbd Hbu Hbn Hbi Hbst Hlive.
  destruct (core_lookup' _ _ _ His) as (Hi1 & Hi2 & Hi3).
  destruct (core_lookup' _ _ _ Hbs) as (Hb1 & Hb2 & Hb3).
  assert (∀ I1 I2, iface_par_core I1 = iface_par_core I2 →
    i_node I1 = i_node I2 ∧ i_number I1 = i_number I2 ∧ i_sent I1 = i_sent I2 ∧
    i_sentNames I1 = i_sentNames I2 ∧ i_sentIDs I1 = i_sentIDs I2 ∧ i_sentStatic I1 = i_sentStatic I2 ∧
    i_received I1 = i_received I2) as Hif.
  { intros [] []. unfold iface_par_core. cbn. intros [=]. by subst. }
  assert (∀ B1 B2, bus_np_core B1 = bus_np_core B2 → b_name B1 = b_name B2 ∧ b_parent B1 = b_parent B2) as Hbf.
  { intros [] []. unfold bus_np_core. cbn. intros [=]. by subst. }
  destruct Hinv. split; cbn; try assumption.
  - intros h Hh. destruct (inv_fresh h Hh) as (?&?&?&?&?&?&?). repeat split; try done.
    + by apply Hb3.
    + by apply Hi3.
  - intros n N b0 HN Hin. destruct (inv_net_down _ _ _ HN Hin) as (B1 & HB1 & ?).
    destruct (Hb2 _ _ HB1) as (B0 & HB0 & (? & ?)%Hbf). exists B0. split; [done|]. congruence.
  - intros b0 B0 n Hl Hp. destruct (Hb1 _ _ Hl) as (B1 & HB1 & (? & Hpp)%Hbf).
    rewrite Hpp in Hp. eauto.
  - intros n N HN. eapply IndexOK_ext; [by eauto|]. intros h. unfold key_bus_name.
    destruct (bs' !! h) as [B0|] eqn:Hl.
    + destruct (Hb1 _ _ Hl) as (B1 & -> & (Hn & Hp)%Hbf). cbn. by rewrite Hn, Hp.
    + specialize (Hbs h). rewrite Hl in Hbs. by destruct (buses s !! h).
  - intros nd ND k i0 HND Hk0. destruct (inv_node_ifaces _ _ _ _ HND Hk0) as (I1 & HI1 & ? & ?).
    destruct (Hi2 _ _ HI1) as (I0 & HI0 & (? & ? & _)%Hif). exists I0. split; [done|]. split; congruence.
  - intros i0 I0 Hl. destruct (Hi1 _ _ Hl) as (I1 & HI1 & (Hn & _)%Hif). rewrite Hn. eauto.
  - intros i0 I0 m0 Hl Hin. destruct (Hi1 _ _ Hl) as (I1 & HI1 & (_ & _ & Hs & _)%Hif).
    rewrite Hs in Hin. eauto.
  - intros m0 M0 i0 HM Hsd. destruct (inv_sent_up _ _ _ HM Hsd) as (I1 & HI1 & ?).
    destruct (Hi2 _ _ HI1) as (I0 & HI0 & (_ & _ & ? & _)%Hif). exists I0. split; [done|]. congruence.
  - intros i0 I0 Hl. destruct (Hi1 _ _ Hl) as (I1 & HI1 & (_ & _ & _ & Hx & _)%Hif). rewrite Hx. eauto.
  - intros i0 I0 Hl. destruct (Hi1 _ _ Hl) as (I1 & HI1 & (_ & _ & _ & _ & Hx & _)%Hif). rewrite Hx. eauto.
  - intros i0 I0 Hl. destruct (Hi1 _ _ Hl) as (I1 & HI1 & (_ & _ & _ & _ & _ & Hx & _)%Hif). rewrite Hx. eauto.
  - intros m0 M0 nd i0 HM Hr. destruct (inv_recv_down _ _ _ _ HM Hr) as (I1 & HI1 & ? & ?).
    destruct (Hi2 _ _ HI1) as (I0 & HI0 & (? & _ & _ & _ & _ & _ & ?)%Hif).
    exists I0. split; [done|]. split; congruence.
  - intros i0 I0 m0 Hl Hin. destruct (Hi1 _ _ Hl) as (I1 & HI1 & (Hn & _ & _ & _ & _ & _ & Hr)%Hif).
    rewrite Hr in Hin. rewrite Hn. eauto.
Qed.

Ltac reshape_bi s :=
  match goal with
  | |- Inv ?st =>
    replace st with (s <| buses := buses st |> <| ifaces := ifaces st |>) by (by destruct s)
  end; cbn.

Lemma flat_map_nil {A B} (f : A → list B) l : flat_map f l = [] → ∀ x, x ∈ l → f x = [].
Proof.
  induction l as [|a l IH]; cbn; [by intros _ x ?%not_elem_of_nil|].
  intros [Ha Hl]%app_eq_nil x [->|Hx]%elem_of_cons; eauto.
Qed.

Lemma NoDup_static_of ms l :
  NoDup l →
  (∀ m1 m2 M1 M2, m1 ∈ l → m2 ∈ l → ms !! m1 = Some M1 → ms !! m2 = Some M2 →
     m_hasStatic M1 = true → m_hasStatic M2 = true → m_static M1 = m_static M2 → m1 = m2) →
  NoDup (static_of ms l).*1.
Proof.
  induction 1 as [|a l Ha Hnd IH]; intros Hinj; cbn; [constructor|].
  assert (NoDup (static_of ms l).*1) as IH'.
  { apply IH. intros ???? H1 H2. apply Hinj; by apply elem_of_list_further. }
  unfold static_of in *. cbn. destruct (ms !! a) as [A|] eqn:HA; [|done].
  destruct (m_hasStatic A) eqn:Hs; [|done]. cbn. constructor; [|done].
  intros (m & M & Hm & HM & Hst & Hc)%elem_of_static_of_keys.
  assert (a = m) as ->; [|done].
  eapply Hinj; eauto; [apply elem_of_list_here|by apply elem_of_list_further].
Qed.

Lemma inv_bus_add_node_interface s b oi :
  Inv s → op_ok s (BusAddNodeInterface b oi) → Inv (bus_add_node_interface s b oi).1.
Proof.
  intros Hinv Hok. unfold bus_add_node_interface.
  destruct (buses s !! b) as [B|] eqn:HB; [|done].
  destruct oi as [i|]; [|done].
  destruct (ifaces s !! i) as [Ii|] eqn:HI; [|done].
  destruct (nodes s !! i_node Ii) as [ND|] eqn:HND; [|done].
  destruct (b_nodeNames B !! nd_name ND) eqn:Hnm; [done|].
  destruct (b_nodeIDs B !! nd_id ND) eqn:Hid; [done|].
  destruct (addni_errs s B (elements (i_sent Ii))) eqn:Herrs; [|done].
  cbn [fst ok]. cbn in Hok. destruct Hok as [Hlive Hok]. specialize (Hok Ii HI).
  (* the node is not yet attached to the bus, the interface has no bus *)
  assert (b_nodeInts B !! i_node Ii = None) as Hni.
  { destruct (b_nodeInts B !! i_node Ii) eqn:Hx; [|done]. exfalso.
    pose proof (IndexOK_free _ _ _ (inv_bus_names s Hinv b B HB) Hnm (i_node Ii)) as Hf.
    apply Hf. unfold key_node_name. rewrite Hx, decide_True by eauto. by rewrite HND. }
  assert (i_parent Ii = None) as Hpar.
  { destruct Hok as [?|Hp]; [done|]. destruct (inv_bus_up s Hinv _ _ _ HI Hp) as (B0 & ? & ?). simplify_eq. }
  set (sent := elements (i_sent Ii)) in *.
  assert (∀ m M, m ∈ sent → msgs s !! m = Some M → m_sender M = Some i) as Hsent.
  { intros m M Hm HM. unfold sent in Hm. apply elem_of_elements in Hm.
    destruct (inv_sent_down s Hinv _ _ _ HI Hm) as (M0 & ? & ?). by simplify_eq. }
  assert (∀ m M, m ∈ sent → msgs s !! m = Some M → m_hasStatic M = true → b_static B !! m_static M = None) as Hnodup.
  { intros m M Hm HM Hst. pose proof (flat_map_nil _ _ Herrs m Hm) as He. cbn in He. rewrite HM in He.
    unfold addni_msg_err in He. destruct (too_big B (m_size M)); [done|]. rewrite Hst in He.
    by destruct (b_static B !! m_static M). }
  assert (NoDup (static_of (msgs s) sent).*1) as Hnd.
  { apply NoDup_static_of; [apply NoDup_elements|].
    intros m1 m2 M1 M2 H1 H2 HM1 HM2 Hs1 Hs2 Hc.
    eapply (IndexOK_inj _ _ m1 m2 (m_static M1) (inv_sent_static s Hinv i Ii HI)).
    - by rewrite (key_msg_static_val _ _ _ _ HM1), (Hsent _ _ H1 HM1), decide_True, Hs1.
    - by rewrite (key_msg_static_val _ _ _ _ HM2), (Hsent _ _ H2 HM2), decide_True, Hs2, Hc. }
  eapply inv_bus_attach_frame; eauto.
  - by eapply core_insert_same'.
  - by eapply core_insert_same'.
  - intros b0 B0 nd0 i0 Hl Hn0. lookup_cases Hl.
    + destruct (decide (nd0 = i_node Ii)) as [->|].
      * rewrite lookup_insert in Hn0. simplify_eq. eexists. by rewrite lookup_insert.
      * rewrite lookup_insert_ne in Hn0 by done.
        destruct (inv_bus_down s Hinv _ _ _ _ HB Hn0) as (I0 & HI0 & ? & ?).
        exists I0. rewrite lookup_insert_ne; [done|]. intros ->. congruence.
    + destruct (inv_bus_down s Hinv _ _ _ _ Hl Hn0) as (I0 & HI0 & ? & ?).
      exists I0. rewrite lookup_insert_ne; [done|]. intros ->. congruence.
  - intros i0 I0 b0 Hl Hp0. lookup_cases Hl.
    + eexists. rewrite lookup_insert. split; [done|]. cbn. by rewrite lookup_insert.
    + destruct (inv_bus_up s Hinv _ _ _ Hl Hp0) as (B0 & HB0 & Hn0).
      destruct (decide (b0 = b)) as [->|]; [|by exists B0; rewrite lookup_insert_ne].
      eexists. rewrite lookup_insert. split; [done|]. cbn. simplify_eq.
      rewrite lookup_insert_ne; [done|]. intros Heq. rewrite Heq in Hni. congruence.
  - intros b0 B0 Hl. lookup_cases Hl; [|by eapply (inv_bus_names s Hinv)].
    eapply IndexOK_insert; [by eapply (inv_bus_names s Hinv)|..]; eauto.
    + unfold key_node_name. rewrite decide_False; [done|]. rewrite Hni. by intros [??].
    + unfold key_node_name. rewrite lookup_insert, decide_True by eauto. by rewrite HND.
    + intros h Hh. unfold key_node_name. by rewrite lookup_insert_ne.
  - intros b0 B0 Hl. lookup_cases Hl; [|by eapply (inv_bus_ids s Hinv)].
    eapply IndexOK_insert; [by eapply (inv_bus_ids s Hinv)|..]; eauto.
    + unfold key_node_id. rewrite decide_False; [done|]. rewrite Hni. by intros [??].
    + unfold key_node_id. rewrite lookup_insert, decide_True by eauto. by rewrite HND.
    + intros h Hh. unfold key_node_id. by rewrite lookup_insert_ne.
  - intros b0 B0 Hl.
    (* the key of a message after the attach *)
    assert (∀ h, key_bus_static (msgs s) (<[i:=Ii <| i_parent := Some b |>]> (ifaces s)) b0 h =
      match msgs s !! h with
      | Some M => if decide (m_sender M = Some i)
                  then (if decide (b0 = b) then (if m_hasStatic M then Some (m_static M) else None) else None)
                  else key_bus_static (msgs s) (ifaces s) b0 h
      | None => None end) as Hkey.
    { intros h. unfold key_bus_static. destruct (msgs s !! h) as [M|]; [|done]. cbn.
      destruct (m_sender M) as [i0|]; cbn; [|by rewrite decide_False].
      destruct (decide (i0 = i)) as [->|].
      - rewrite lookup_insert, decide_True by done. cbn.
        destruct (decide (b0 = b)) as [->|]; [by rewrite decide_True|by rewrite decide_False by congruence].
      - rewrite lookup_insert_ne by done. by rewrite decide_False by congruence. }
    lookup_cases Hl.
    + pose proof (inv_bus_static s Hinv _ _ HB) as Hold.
      intros k h. rewrite Hkey. split.
      * intros Hins. destruct (decide (k ∈ (static_of (msgs s) sent).*1)) as [Hk|Hk].
        -- apply elem_of_list_fmap in Hk as ([k' m] & -> & Hkm). cbn in Hins.
           rewrite (lookup_insert_all_Some _ _ _ _ Hnd Hkm) in Hins. simplify_eq.
           apply elem_of_static_of in Hkm as (Hm & M & HM & Hst & Hc).
           rewrite HM, (Hsent _ _ Hm HM), !decide_True, Hst by done. by rewrite Hc.
        -- rewrite lookup_insert_all_None in Hins by done. apply Hold in Hins.
           unfold key_bus_static in Hins. destruct (msgs s !! h) as [M|] eqn:HM; [|done]. cbn in Hins.
           case_decide as Hs; [|by unfold key_bus_static; rewrite HM].
           rewrite Hs in Hins. cbn in Hins. rewrite HI in Hins. cbn in Hins. rewrite Hpar in Hins.
           by rewrite decide_False in Hins.
      * destruct (msgs s !! h) as [M|] eqn:HM; [|done]. case_decide as Hs.
        -- destruct (m_hasStatic M) eqn:Hst; [|done]. intros [= <-].
           destruct (inv_sent_up s Hinv _ _ _ HM Hs) as (I0 & ? & Hin). simplify_eq.
           apply lookup_insert_all_Some; [done|]. apply elem_of_static_of.
           split; [by apply elem_of_elements|eauto].
        -- intros Hk. rewrite lookup_insert_all_None; [by apply Hold|].
           intros (m' & M' & Hm' & HM' & Hst' & Hc')%elem_of_static_of_keys.
           apply Hold in Hk. rewrite <- Hc' in Hk. rewrite (Hnodup _ _ Hm' HM' Hst') in Hk. done.
    + eapply IndexOK_ext; [by eapply (inv_bus_static s Hinv)|]. intros h. rewrite Hkey.
      destruct (msgs s !! h) as [M|] eqn:HM; [|by unfold key_bus_static; rewrite HM].
      case_decide as Hs; [|done].
      unfold key_bus_static. rewrite HM. cbn. rewrite Hs. cbn. rewrite HI. cbn. rewrite Hpar.
      by rewrite decide_False.
  - intros i0 I0 b0 Hl Hp0. lookup_cases Hl; [|by eapply (inv_attached_live s Hinv)].
    cbn. by apply Hlive.
Qed.

Lemma inv_bus_remove_node_interface s b key : Inv s → Inv (bus_remove_node_interface s b key).1.
Proof.
  intros Hinv. unfold bus_remove_node_interface.
  destruct (buses s !! b) as [B|] eqn:HB; [|done].
  destruct (b_nodeInts B !! key) as [i|] eqn:Hni; [|done].
  destruct (ifaces s !! i) as [Ii|] eqn:HI; [|done].
  destruct (nodes s !! i_node Ii) as [ND|] eqn:HND; [|done].
  cbn [fst ok].
  destruct (inv_bus_down s Hinv _ _ _ _ HB Hni) as (I0 & HI0 & Hnode & Hpar). simplify_eq.
  set (sent := elements (i_sent Ii)) in *.
  assert (∀ m M, msgs s !! m = Some M → (m ∈ sent ↔ m_sender M = Some i)) as Hsent.
  { intros m M HM. unfold sent. rewrite elem_of_elements. split.
    - intros Hin. destruct (inv_sent_down s Hinv _ _ _ HI Hin) as (M0 & ? & ?). by simplify_eq.
    - intros Hs. destruct (inv_sent_up s Hinv _ _ _ HM Hs) as (I1 & ? & ?). by simplify_eq. }
  reshape_bi s.
  eapply inv_bus_attach_frame; eauto.
  - by eapply core_insert_same'.
  - by eapply core_insert_same'.
  - intros b0 B0 nd0 i0 Hl Hn0. lookup_cases Hl.
    + destruct (decide (nd0 = i_node Ii)) as [->|]; [by rewrite lookup_delete in Hn0|].
      rewrite lookup_delete_ne in Hn0 by done.
      destruct (inv_bus_down s Hinv _ _ _ _ HB Hn0) as (I0 & HI0 & ? & ?).
      exists I0. rewrite lookup_insert_ne; [done|]. intros ->. simplify_eq.
    + destruct (inv_bus_down s Hinv _ _ _ _ Hl Hn0) as (I0 & HI0 & ? & ?).
      exists I0. rewrite lookup_insert_ne; [done|]. intros ->. simplify_eq.
  - intros i0 I0 b0 Hl Hp0. lookup_cases Hl.
    destruct (inv_bus_up s Hinv _ _ _ Hl Hp0) as (B0 & HB0 & Hn0).
    destruct (decide (b0 = b)) as [->|]; [|by exists B0; rewrite lookup_insert_ne].
    eexists. rewrite lookup_insert. split; [done|]. cbn. simplify_eq.
    rewrite lookup_delete_ne; [done|]. intros Heq. rewrite <- Heq in Hn0. congruence.
  - intros b0 B0 Hl. lookup_cases Hl; [|by eapply (inv_bus_names s Hinv)].
    eapply IndexOK_delete; [by eapply (inv_bus_names s Hinv)|..].
    + unfold key_node_name. rewrite Hni, decide_True by eauto. by rewrite HND.
    + unfold key_node_name. rewrite lookup_delete, decide_False; [done|]. by intros [??].
    + intros h Hh. unfold key_node_name. by rewrite lookup_delete_ne.
  - intros b0 B0 Hl. lookup_cases Hl; [|by eapply (inv_bus_ids s Hinv)].
    eapply IndexOK_delete; [by eapply (inv_bus_ids s Hinv)|..].
    + unfold key_node_id. rewrite Hni, decide_True by eauto. by rewrite HND.
    + unfold key_node_id. rewrite lookup_delete, decide_False; [done|]. by intros [??].
    + intros h Hh. unfold key_node_id. by rewrite lookup_delete_ne.
  - intros b0 B0 Hl.
    assert (∀ h, key_bus_static (msgs s) (<[i:=Ii <| i_parent := None |>]> (ifaces s)) b0 h =
      match msgs s !! h with
      | Some M => if decide (m_sender M = Some i) then None else key_bus_static (msgs s) (ifaces s) b0 h
      | None => None end) as Hkey.
    { intros h. unfold key_bus_static. destruct (msgs s !! h) as [M|]; [|done]. cbn.
      destruct (m_sender M) as [i0|]; cbn; [|by rewrite decide_False].
      destruct (decide (i0 = i)) as [->|].
      - rewrite lookup_insert, decide_True by done. done.
      - rewrite lookup_insert_ne by done. by rewrite decide_False by congruence. }
    lookup_cases Hl.
    + pose proof (inv_bus_static s Hinv _ _ HB) as Hold.
      intros k h. rewrite Hkey, lookup_delete_all. split.
      * case_decide as Hk; [done|]. intros Hbk. apply Hold in Hbk.
        destruct (msgs s !! h) as [M|] eqn:HM; [|by unfold key_bus_static in Hbk; rewrite HM in Hbk].
        case_decide as Hs; [|done]. exfalso. apply Hk. apply elem_of_static_of_keys.
        exists h, M. split; [by apply (Hsent _ _ HM)|]. split; [done|].
        rewrite (key_bus_static_val _ _ _ _ _ HM), Hs in Hbk. cbn in Hbk. rewrite HI in Hbk. cbn in Hbk.
        rewrite decide_True in Hbk by done. destruct (m_hasStatic M); by simplify_eq.
      * destruct (msgs s !! h) as [M|] eqn:HM; [|done]. case_decide as Hs; [done|]. intros Hk.
        rewrite decide_False; [by apply Hold|].
        intros (m' & M' & Hm' & HM' & Hst' & Hc')%elem_of_static_of_keys.
        apply Hs. apply (Hsent _ _ HM' ) in Hm'. assert (h = m') as ->; [|by simplify_eq].
        eapply IndexOK_inj; [exact Hold|exact Hk|].
        rewrite (key_bus_static_val _ _ _ _ _ HM'), Hm'. cbn. rewrite HI. cbn.
        by rewrite decide_True, Hst', Hc'.
    + eapply IndexOK_ext; [by eapply (inv_bus_static s Hinv)|]. intros h. rewrite Hkey.
      destruct (msgs s !! h) as [M|] eqn:HM; [|by unfold key_bus_static; rewrite HM].
      case_decide as Hs; [|done].
      unfold key_bus_static. rewrite HM. cbn. rewrite Hs. cbn. rewrite HI. cbn. rewrite Hpar.
      by rewrite decide_False by congruence.
  - intros i0 I0 b0 Hl Hp0. lookup_cases Hl. by eapply (inv_attached_live s Hinv).
Qed.

Lemma inv_bus_remove_all_node_interfaces s b : Inv s → Inv (bus_remove_all_node_interfaces s b).1.
Proof.
  intros Hinv. unfold bus_remove_all_node_interfaces.
  destruct (buses s !! b) as [B|] eqn:HB; [|done].
  cbn [fst ok].
  set (f := λ Ii : iface_rec, Ii <| i_parent := None |>).
  set (l := (map_to_list (b_nodeInts B)).*2).
  assert (∀ x, f (f x) = f x) as Hf by done.
  assert (∀ i Ii, ifaces s !! i = Some Ii → (i ∈ l ↔ i_parent Ii = Some b)) as Hkids.
  { intros i Ii HI. unfold l. rewrite elem_of_list_fmap. split.
    - intros ([nd i'] & -> & Hin). apply elem_of_map_to_list in Hin. cbn in HI.
      destruct (inv_bus_down s Hinv _ _ _ _ HB Hin) as (I0 & ? & ? & ?). by simplify_eq.
    - intros Hp. destruct (inv_bus_up s Hinv _ _ _ HI Hp) as (B0 & ? & Hn). simplify_eq.
      exists (i_node Ii, i). split; [done|]. by apply elem_of_map_to_list. }
  assert (∀ i I', alter_all f l (ifaces s) !! i = Some I' →
     ∃ Ii, ifaces s !! i = Some Ii ∧
          ((i_parent Ii = Some b ∧ I' = f Ii) ∨ (i_parent Ii ≠ Some b ∧ I' = Ii))) as Hlk.
  { intros i I'. rewrite lookup_alter_all by done. case_decide as Hd.
    - destruct (ifaces s !! i) as [Ii|] eqn:HI; [|done]. intros [= <-].
      exists Ii. split; [done|]. left. split; [|done]. by apply (Hkids i Ii HI).
    - intros HI. exists I'. split; [done|]. right. split; [|done]. by rewrite <- (Hkids i I' HI). }
  reshape_bi s. replace (alter_all (λ Ii, Ii <| i_parent := None |>) (map_to_list (b_nodeInts B)).*2 (ifaces s))
    with (alter_all f l (ifaces s)) by done.
  eapply inv_bus_attach_frame; eauto.
  - by eapply core_insert_same'.
  - intros i0. rewrite lookup_alter_all by done. case_decide; [|done]. by destruct (ifaces s !! i0).
  - intros b0 B0 nd0 i0 Hl Hn0. lookup_cases Hl; try (by rewrite lookup_empty in Hn0).
    destruct (inv_bus_down s Hinv _ _ _ _ Hl Hn0) as (I0 & HI0 & ? & ?).
    exists I0. rewrite lookup_alter_all by done. rewrite decide_False; [done|].
    rewrite (Hkids _ _ HI0). congruence.
  - intros i0 I0 b0 Hl Hp0. apply Hlk in Hl as (I1 & HI1 & [[? ->]|[? ->]]); [done|].
    destruct (inv_bus_up s Hinv _ _ _ HI1 Hp0) as (B0 & HB0 & Hn0).
    exists B0. rewrite lookup_insert_ne; [done|congruence].
  - intros b0 B0 Hl. lookup_cases Hl; [|by eapply (inv_bus_names s Hinv)].
    apply IndexOK_empty. intros h. unfold key_node_name. rewrite decide_False; [done|].
    rewrite lookup_empty. by intros [??].
  - intros b0 B0 Hl. lookup_cases Hl; [|by eapply (inv_bus_ids s Hinv)].
    apply IndexOK_empty. intros h. unfold key_node_id. rewrite decide_False; [done|].
    rewrite lookup_empty. by intros [??].
  - intros b0 B0 Hl.
    assert (∀ h, key_bus_static (msgs s) (alter_all f l (ifaces s)) b0 h =
                 if decide (b0 = b) then None else key_bus_static (msgs s) (ifaces s) b0 h) as Hkey.
    { intros h. unfold key_bus_static. destruct (msgs s !! h) as [M|]; [|by case_decide]. cbn.
      destruct (m_sender M) as [i0|]; cbn; [|by case_decide].
      rewrite lookup_alter_all by done.
      destruct (ifaces s !! i0) as [I0|] eqn:HI0; cbn; [|by repeat case_decide].
      pose proof (Hkids _ _ HI0) as Hk. repeat case_decide; cbn in *; repeat case_decide; simplify_eq; try done; naive_solver. }
    lookup_cases Hl.
    + apply IndexOK_empty. intros h. rewrite Hkey. by repeat case_decide.
    + eapply IndexOK_ext; [by eapply (inv_bus_static s Hinv)|]. intros h. rewrite Hkey. by repeat case_decide.
  - intros i0 I0 b0 Hl Hp0. apply Hlk in Hl as (I1 & HI1 & [[? ->]|[? ->]]); [done|].
    by eapply (inv_attached_live s Hinv).
Qed.
