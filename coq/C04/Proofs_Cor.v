(* C04/C05 — consequences of the invariant in the words of the properties: uniqueness of keys,
   lookups agree with the contents, converse and exclusive containment links, contiguous
   interface numbers; satisfiability of the side conditions; the excluded cases (open findings
   D20, D22) exhibited on the model. *)
From Acme.C04 Require Import ProofsTac Proofs_Step.
From Acme.C04 Require Export Spec.
From Coq Require Import Lia.

(* ---- lookups by name (the Go Get…ByName functions read the name index, then the id map) ---- *)
Theorem lookup_by_name_spec s : Inv s →
  (∀ n N nm b, nets s !! n = Some N →
     (lookup_bus_by_name s n nm = Some b ↔ b ∈ n_buses N ∧ ∃ B, buses s !! b = Some B ∧ b_name B = nm)) ∧
  (∀ b B nm i, buses s !! b = Some B →
     (lookup_node_by_name s b nm = Some i ↔
      ∃ nd ND, b_nodeInts B !! nd = Some i ∧ nodes s !! nd = Some ND ∧ nd_name ND = nm)) ∧
  (∀ i Ii nm m, ifaces s !! i = Some Ii →
     (lookup_sent_by_name s i nm = Some m ↔ m ∈ i_sent Ii ∧ ∃ M, msgs s !! m = Some M ∧ m_name M = nm)) ∧
  (∀ e E nm v, enums s !! e = Some E →
     (lookup_value_by_name s e nm = Some v ↔ v ∈ e_values E ∧ ∃ V, evals s !! v = Some V ∧ v_name V = nm)).
Proof.
  intros Hinv. split_and!.
  - intros n N nm b HN. unfold lookup_bus_by_name. rewrite HN. cbn.
    rewrite (inv_net_names s Hinv n N HN nm b). unfold key_bus_name. split.
    + destruct (buses s !! b) as [B|] eqn:HB; [|done]. cbn. case_decide as Hp; [|done]. intros [= <-].
      destruct (inv_net_up s Hinv _ _ _ HB Hp) as (N0 & ? & ?). simplify_eq. eauto.
    + intros (Hin & B & HB & <-). destruct (inv_net_down s Hinv _ _ _ HN Hin) as (B0 & ? & Hp). simplify_eq.
      rewrite HB. cbn. by rewrite decide_True.
  - intros b B nm i HB. unfold lookup_node_by_name. rewrite HB. cbn. split.
    + destruct (b_nodeNames B !! nm) as [nd|] eqn:Hnm; [|done]. cbn. intros Hni.
      apply (inv_bus_names s Hinv b B HB) in Hnm. unfold key_node_name in Hnm.
      rewrite decide_True in Hnm by eauto. destruct (nodes s !! nd) as [ND|] eqn:HND; [|done].
      cbn in Hnm. simplify_eq. eauto.
    + intros (nd & ND & Hni & HND & <-).
      assert (b_nodeNames B !! nd_name ND = Some nd) as ->.
      { apply (inv_bus_names s Hinv b B HB). unfold key_node_name. rewrite decide_True by eauto. by rewrite HND. }
      done.
  - intros i Ii nm m HI. unfold lookup_sent_by_name. rewrite HI. cbn.
    rewrite (inv_sent_names s Hinv i Ii HI nm m). unfold key_msg_name. split.
    + destruct (msgs s !! m) as [M|] eqn:HM; [|done]. cbn. case_decide as Hp; [|done]. intros [= <-].
      destruct (inv_sent_up s Hinv _ _ _ HM Hp) as (I0 & ? & ?). simplify_eq. eauto.
    + intros (Hin & M & HM & <-). destruct (inv_sent_down s Hinv _ _ _ HI Hin) as (M0 & ? & Hp). simplify_eq.
      rewrite HM. cbn. by rewrite decide_True.
  - intros e E nm v HE. unfold lookup_value_by_name. rewrite HE. cbn.
    rewrite (inv_enum_names s Hinv e E HE nm v). unfold key_eval_name. split.
    + destruct (evals s !! v) as [V|] eqn:HV; [|done]. cbn. case_decide as Hp; [|done]. intros [= <-].
      destruct (inv_enum_up s Hinv _ _ _ HV Hp) as (E0 & ? & ?). simplify_eq. eauto.
    + intros (Hin & V & HV & <-). destruct (inv_enum_down s Hinv _ _ _ HE Hin) as (V0 & ? & Hp). simplify_eq.
      rewrite HV. cbn. by rewrite decide_True.
Qed.

(* ---- uniqueness of names and identifiers within each container (C04, first sentence) ---------- *)
Theorem keys_unique s : Inv s →
  (* network: bus names *)
  (∀ n N b1 b2 B1 B2, nets s !! n = Some N → b1 ∈ n_buses N → b2 ∈ n_buses N →
     buses s !! b1 = Some B1 → buses s !! b2 = Some B2 → b_name B1 = b_name B2 → b1 = b2) ∧
  (* bus: node names and node ids *)
  (∀ b B nd1 nd2 N1 N2, buses s !! b = Some B → is_Some (b_nodeInts B !! nd1) → is_Some (b_nodeInts B !! nd2) →
     nodes s !! nd1 = Some N1 → nodes s !! nd2 = Some N2 →
     (nd_name N1 = nd_name N2 ∨ nd_id N1 = nd_id N2) → nd1 = nd2) ∧
  (* interface: message names, message ids (generated CAN-ID), static CAN-IDs *)
  (∀ i Ii m1 m2 M1 M2, ifaces s !! i = Some Ii → m1 ∈ i_sent Ii → m2 ∈ i_sent Ii →
     msgs s !! m1 = Some M1 → msgs s !! m2 = Some M2 →
     (m_name M1 = m_name M2 ∨
      (m_hasStatic M1 = false ∧ m_hasStatic M2 = false ∧ m_id M1 = m_id M2) ∨
      (m_hasStatic M1 = true ∧ m_hasStatic M2 = true ∧ m_static M1 = m_static M2)) → m1 = m2) ∧
  (* bus: static CAN-IDs over all attached interfaces *)
  (∀ b m1 m2 M1 M2 i1 i2 I1 I2, msgs s !! m1 = Some M1 → msgs s !! m2 = Some M2 →
     m_sender M1 = Some i1 → m_sender M2 = Some i2 → ifaces s !! i1 = Some I1 → ifaces s !! i2 = Some I2 →
     i_parent I1 = Some b → i_parent I2 = Some b → is_Some (buses s !! b) →
     m_hasStatic M1 = true → m_hasStatic M2 = true → m_static M1 = m_static M2 → m1 = m2) ∧
  (* enum: value names and indexes *)
  (∀ e E v1 v2 V1 V2, enums s !! e = Some E → v1 ∈ e_values E → v2 ∈ e_values E →
     evals s !! v1 = Some V1 → evals s !! v2 = Some V2 →
     (v_name V1 = v_name V2 ∨ v_index V1 = v_index V2) → v1 = v2).
Proof.
  intros Hinv. split_and!.
  - intros n N b1 b2 B1 B2 HN H1 H2 HB1 HB2 Hnm.
    destruct (inv_net_down s Hinv _ _ _ HN H1) as (? & ? & Hp1).
    destruct (inv_net_down s Hinv _ _ _ HN H2) as (? & ? & Hp2). simplify_eq.
    eapply (IndexOK_inj _ _ b1 b2 (b_name B1) (inv_net_names s Hinv n N HN)).
    + by rewrite (key_bus_name_val _ _ _ _ HB1), decide_True.
    + by rewrite (key_bus_name_val _ _ _ _ HB2), decide_True, Hnm.
  - intros b B nd1 nd2 N1 N2 HB H1 H2 HN1 HN2 [Hnm|Hid].
    + eapply (IndexOK_inj _ _ nd1 nd2 (nd_name N1) (inv_bus_names s Hinv b B HB)).
      * unfold key_node_name. rewrite decide_True by done. by rewrite HN1.
      * unfold key_node_name. rewrite decide_True by done. by rewrite HN2, Hnm.
    + eapply (IndexOK_inj _ _ nd1 nd2 (nd_id N1) (inv_bus_ids s Hinv b B HB)).
      * unfold key_node_id. rewrite decide_True by done. by rewrite HN1.
      * unfold key_node_id. rewrite decide_True by done. by rewrite HN2, Hid.
  - intros i Ii m1 m2 M1 M2 HI H1 H2 HM1 HM2 Hk.
    destruct (inv_sent_down s Hinv _ _ _ HI H1) as (? & ? & Hs1).
    destruct (inv_sent_down s Hinv _ _ _ HI H2) as (? & ? & Hs2). simplify_eq.
    destruct Hk as [Hnm|[(Hh1 & Hh2 & Hid)|(Hh1 & Hh2 & Hst)]].
    + eapply (IndexOK_inj _ _ m1 m2 (m_name M1) (inv_sent_names s Hinv i Ii HI)).
      * by rewrite (key_msg_name_val _ _ _ _ HM1), decide_True.
      * by rewrite (key_msg_name_val _ _ _ _ HM2), decide_True, Hnm.
    + eapply (IndexOK_inj _ _ m1 m2 (m_id M1) (inv_sent_ids s Hinv i Ii HI)).
      * by rewrite (key_msg_id_val _ _ _ _ HM1), decide_True, Hh1.
      * by rewrite (key_msg_id_val _ _ _ _ HM2), decide_True, Hh2, Hid.
    + eapply (IndexOK_inj _ _ m1 m2 (m_static M1) (inv_sent_static s Hinv i Ii HI)).
      * by rewrite (key_msg_static_val _ _ _ _ HM1), decide_True, Hh1.
      * by rewrite (key_msg_static_val _ _ _ _ HM2), decide_True, Hh2, Hst.
  - intros b m1 m2 M1 M2 i1 i2 I1 I2 HM1 HM2 Hs1 Hs2 HI1 HI2 Hp1 Hp2 [B HB] Hh1 Hh2 Hst.
    eapply (IndexOK_inj _ _ m1 m2 (m_static M1) (inv_bus_static s Hinv b B HB)).
    + rewrite (key_bus_static_val _ _ _ _ _ HM1), Hs1. cbn. rewrite HI1. cbn. by rewrite decide_True, Hh1.
    + rewrite (key_bus_static_val _ _ _ _ _ HM2), Hs2. cbn. rewrite HI2. cbn. by rewrite decide_True, Hh2, Hst.
  - intros e E v1 v2 V1 V2 HE H1 H2 HV1 HV2 Hk.
    destruct (inv_enum_down s Hinv _ _ _ HE H1) as (? & ? & Hp1).
    destruct (inv_enum_down s Hinv _ _ _ HE H2) as (? & ? & Hp2). simplify_eq.
    destruct Hk as [Hnm|Hix].
    + eapply (IndexOK_inj _ _ v1 v2 (v_name V1) (inv_enum_names s Hinv e E HE)).
      * by rewrite (key_eval_name_val _ _ _ _ HV1), decide_True.
      * by rewrite (key_eval_name_val _ _ _ _ HV2), decide_True, Hnm.
    + eapply (IndexOK_inj _ _ v1 v2 (v_index V1) (inv_enum_idx s Hinv e E HE)).
      * by rewrite (key_eval_index_val _ _ _ _ HV1), decide_True.
      * by rewrite (key_eval_index_val _ _ _ _ HV2), decide_True, Hix.
Qed.

(* ---- containment links are converse relations and exclusive (C05) --------------------------- *)
Theorem links_symmetric s : Inv s →
  (∀ n N b, nets s !! n = Some N → (b ∈ n_buses N ↔ ∃ B, buses s !! b = Some B ∧ b_parent B = Some n)) ∧
  (∀ b B i, buses s !! b = Some B →
     ((∃ nd, b_nodeInts B !! nd = Some i) ↔ ∃ Ii, ifaces s !! i = Some Ii ∧ i_parent Ii = Some b)) ∧
  (∀ i Ii m, ifaces s !! i = Some Ii → (m ∈ i_sent Ii ↔ ∃ M, msgs s !! m = Some M ∧ m_sender M = Some i)) ∧
  (∀ i Ii m, ifaces s !! i = Some Ii →
     (m ∈ i_received Ii ↔ ∃ M, msgs s !! m = Some M ∧ m_receivers M !! i_node Ii = Some i)) ∧
  (∀ e E v, enums s !! e = Some E → (v ∈ e_values E ↔ ∃ V, evals s !! v = Some V ∧ v_parent V = Some e)).
Proof.
  intros Hinv. split_and!.
  - intros n N b HN. split; [by apply (inv_net_down s Hinv)|].
    intros (B & HB & Hp). destruct (inv_net_up s Hinv _ _ _ HB Hp) as (? & ? & ?). by simplify_eq.
  - intros b B i HB. split.
    + intros [nd Hni]. destruct (inv_bus_down s Hinv _ _ _ _ HB Hni) as (Ii & ? & ? & ?). eauto.
    + intros (Ii & HI & Hp). destruct (inv_bus_up s Hinv _ _ _ HI Hp) as (? & ? & ?). simplify_eq. eauto.
  - intros i Ii m HI. split; [by apply (inv_sent_down s Hinv)|].
    intros (M & HM & Hs). destruct (inv_sent_up s Hinv _ _ _ HM Hs) as (? & ? & ?). by simplify_eq.
  - intros i Ii m HI. split; [by apply (inv_recv_up s Hinv)|].
    intros (M & HM & Hr). destruct (inv_recv_down s Hinv _ _ _ _ HM Hr) as (? & ? & ? & ?). by simplify_eq.
  - intros e E v HE. split; [by apply (inv_enum_down s Hinv)|].
    intros (V & HV & Hp). destruct (inv_enum_up s Hinv _ _ _ HV Hp) as (? & ? & ?). by simplify_eq.
Qed.

(* no entity is listed by two containers of the same kind *)
Theorem containers_exclusive s : Inv s →
  (∀ n1 n2 N1 N2 b, nets s !! n1 = Some N1 → nets s !! n2 = Some N2 → b ∈ n_buses N1 → b ∈ n_buses N2 → n1 = n2) ∧
  (∀ b1 b2 B1 B2 nd1 nd2 i, buses s !! b1 = Some B1 → buses s !! b2 = Some B2 →
     b_nodeInts B1 !! nd1 = Some i → b_nodeInts B2 !! nd2 = Some i → b1 = b2 ∧ nd1 = nd2) ∧
  (∀ i1 i2 I1 I2 m, ifaces s !! i1 = Some I1 → ifaces s !! i2 = Some I2 → m ∈ i_sent I1 → m ∈ i_sent I2 → i1 = i2) ∧
  (∀ e1 e2 E1 E2 v, enums s !! e1 = Some E1 → enums s !! e2 = Some E2 → v ∈ e_values E1 → v ∈ e_values E2 → e1 = e2).
Proof.
  intros Hinv. split_and!.
  - intros n1 n2 N1 N2 b H1 H2 Hb1 Hb2.
    destruct (inv_net_down s Hinv _ _ _ H1 Hb1) as (? & ? & ?).
    destruct (inv_net_down s Hinv _ _ _ H2 Hb2) as (? & ? & ?). by simplify_eq.
  - intros b1 b2 B1 B2 nd1 nd2 i H1 H2 Hi1 Hi2.
    destruct (inv_bus_down s Hinv _ _ _ _ H1 Hi1) as (? & ? & ? & ?).
    destruct (inv_bus_down s Hinv _ _ _ _ H2 Hi2) as (? & ? & ? & ?). by simplify_eq.
  - intros i1 i2 I1 I2 m H1 H2 Hm1 Hm2.
    destruct (inv_sent_down s Hinv _ _ _ H1 Hm1) as (? & ? & ?).
    destruct (inv_sent_down s Hinv _ _ _ H2 Hm2) as (? & ? & ?). by simplify_eq.
  - intros e1 e2 E1 E2 v H1 H2 Hv1 Hv2.
    destruct (inv_enum_down s Hinv _ _ _ H1 Hv1) as (? & ? & ?).
    destruct (inv_enum_down s Hinv _ _ _ H2 Hv2) as (? & ? & ?). by simplify_eq.
Qed.

(* a node's interfaces are numbered 0..n-1 in order, and the count agrees *)
Theorem node_interfaces_contiguous s nd ND : Inv s → nodes s !! nd = Some ND →
  nd_count ND = Z.of_nat (length (nd_ifaces ND)) ∧
  ∀ k, (k < length (nd_ifaces ND))%nat →
    ∃ i Ii, nd_ifaces ND !! k = Some i ∧ ifaces s !! i = Some Ii ∧ i_node Ii = nd ∧ i_number Ii = Z.of_nat k.
Proof.
  intros Hinv HND. split; [by apply (inv_node_count s Hinv nd)|].
  intros k Hk. destruct (lookup_lt_is_Some_2 _ _ Hk) as [i Hi].
  destruct (inv_node_ifaces s Hinv _ _ _ _ HND Hi) as (Ii & ? & ? & ?). eauto 8.
Qed.

(* ---- for every reachable state ------------------------------------------------------------------ *)
Lemma lookup_by_name_reach s : Reach s → LookupByNameSpec s.
Proof. intros Hr. by apply lookup_by_name_spec, inv_reachable. Qed.
Lemma keys_unique_reach s : Reach s → KeysUnique s.
Proof. intros Hr. by apply keys_unique, inv_reachable. Qed.
Lemma links_symmetric_reach s : Reach s → LinksSymmetric s.
Proof. intros Hr. by apply links_symmetric, inv_reachable. Qed.
Lemma containers_exclusive_reach s : Reach s → ContainersExclusive s.
Proof. intros Hr. by apply containers_exclusive, inv_reachable. Qed.
Lemma node_interfaces_contiguous_reach s : Reach s → NodeInterfacesContiguous s.
Proof. intros Hr nd ND HND. by apply node_interfaces_contiguous; [apply inv_reachable|]. Qed.
