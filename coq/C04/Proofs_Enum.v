(* C04/C05 — invariant preservation: SignalEnum.AddValue / RemoveValue / RemoveAllValues,
   SignalEnumValue.UpdateName / UpdateIndex. *)
From Acme.C04 Require Import ProofsTac.
From Coq Require Import Lia.
Local Open Scope Z_scope.

(* values of an enum have their index bounded by the max index and it is attained or 0 *)
Lemma max_index_insert_other vs v V' l :
  v ∉ l → max_index (<[v:=V']> vs) l = max_index vs l.
Proof.
  intros Hv. apply max_index_ext. intros x Hx. rewrite lookup_insert_ne; [done|]. by intros ->.
Qed.

Lemma inv_enum_add_value s e ov fits :
  Inv s → op_ok s (EnumAddValue e ov fits) → Inv (enum_add_value s e ov fits).1.
Proof.
  intros Hinv Hok. unfold enum_add_value.
  destruct (enums s !! e) as [E|] eqn:HE; [|done].
  destruct ov as [v|]; [|done].
  destruct (evals s !! v) as [V|] eqn:HV; [|done].
  unfold verify_value_index.
  destruct (e_valueIdx E !! v_index V) eqn:Hix; [done|].
  destruct (_ && _); [done|].
  destruct (e_valueNames E !! v_name V) eqn:Hnm; [done|].
  cbn [fst ok]. cbn in Hok. specialize (Hok V HV).
  assert (key_eval_index (evals s) e v = None) as Hkv.
  { pose proof (IndexOK_free _ _ _ (inv_enum_idx s Hinv e E HE) Hix v) as Hf.
    rewrite (key_eval_index_val _ _ _ _ HV) in *. destruct (decide _); [by exfalso; apply Hf|done]. }
  assert (v_parent V = None) as Hpar.
  { destruct Hok as [?|Hp]; [done|]. rewrite (key_eval_index_val _ _ _ _ HV), decide_True in Hkv; done. }
  assert (v ∉ e_values E) as Hnin.
  { intros Hin. destruct (inv_enum_down s Hinv _ _ _ HE Hin) as (V0 & ? & ?). simplify_eq. }
  destruct Hinv. split; cbn; try assumption; try (inv_auto; fail).
  - fresh_tac inv_fresh.
  - intros e0 E0 v0 Hl Hin. lookup_cases Hl.
    + apply elem_of_union in Hin as [->%elem_of_singleton|Hin].
      * eexists. by rewrite lookup_insert.
      * destruct (inv_enum_down _ _ _ HE Hin) as (V0 & HV0 & Hp0).
        exists V0. rewrite lookup_insert_ne; [done|]. intros ->. congruence.
    + destruct (inv_enum_down _ _ _ Hl Hin) as (V0 & HV0 & Hp0).
      exists V0. rewrite lookup_insert_ne; [done|]. intros ->. congruence.
  - intros v0 V0 e0 Hl Hp0. lookup_cases Hl.
    + eexists. rewrite lookup_insert. split; [done|]. set_solver.
    + destruct (inv_enum_up _ _ _ Hl Hp0) as (E0 & HE0 & Hin).
      destruct (decide (e0 = e)) as [->|].
      * eexists. rewrite lookup_insert. split; [done|]. simplify_eq. set_solver.
      * exists E0. by rewrite lookup_insert_ne.
  - intros e0 E0 Hl. lookup_cases Hl.
    + eapply IndexOK_insert; eauto.
      * rewrite (key_eval_name_val _ _ _ _ HV), Hpar. by rewrite decide_False.
      * by rewrite key_eval_name_eq, decide_True.
      * intros h Hh. by apply key_eval_name_ne.
    + eapply IndexOK_ext; [by eauto|]. intros h.
      destruct (decide (h = v)) as [->|]; [|by apply key_eval_name_ne].
      rewrite key_eval_name_eq, (key_eval_name_val _ _ _ _ HV), Hpar. cbn.
      repeat case_decide; congruence.
  - intros e0 E0 Hl. lookup_cases Hl.
    + eapply IndexOK_insert; eauto.
      * by rewrite key_eval_index_eq, decide_True.
      * intros h Hh. by apply key_eval_index_ne.
    + eapply IndexOK_ext; [by eauto|]. intros h.
      destruct (decide (h = v)) as [->|]; [|by apply key_eval_index_ne].
      rewrite key_eval_index_eq, (key_eval_index_val _ _ _ _ HV), Hpar. cbn.
      repeat case_decide; congruence.
  - intros e0 E0 Hl. lookup_cases Hl.
    + rewrite (inv_enum_max _ _ HE).
      rewrite (max_index_perm _ _ _ (elements_union_singleton _ _ Hnin)).
      cbn [max_index foldr]. rewrite lookup_insert. cbn.
      fold (max_index (<[v:=V <| v_parent := Some e |>]> (evals s)) (elements (e_values E))).
      rewrite max_index_insert_other; [done|]. by rewrite elem_of_elements.
    + rewrite (inv_enum_max _ _ Hl). symmetry. apply max_index_ext. intros x Hx.
      destruct (decide (x = v)) as [->|]; [|by rewrite lookup_insert_ne].
      rewrite lookup_insert, HV. done.
Qed.

Lemma inv_enum_remove_value s e key : Inv s → Inv (enum_remove_value s e key).1.
Proof.
  intros Hinv. unfold enum_remove_value.
  destruct (enums s !! e) as [E|] eqn:HE; [|done].
  destruct (decide (key ∈ e_values E)) as [Hin|]; [|done].
  destruct (evals s !! key) as [V|] eqn:HV; [|done].
  cbn [fst ok].
  destruct (inv_enum_down s Hinv _ _ _ HE Hin) as (V0 & HV0 & Hpar). simplify_eq.
  destruct Hinv. split; cbn; try assumption; try (inv_auto; fail).
  - fresh_tac inv_fresh.
  - intros e0 E0 v0 Hl Hin0. lookup_cases Hl.
    + apply elem_of_difference in Hin0 as [Hin0 Hne%not_elem_of_singleton].
      destruct (inv_enum_down _ _ _ HE Hin0) as (V0 & HV0 & Hp0).
      exists V0. by rewrite lookup_insert_ne.
    + destruct (inv_enum_down _ _ _ Hl Hin0) as (V0 & HV0 & Hp0).
      exists V0. rewrite lookup_insert_ne; [done|]. intros ->. congruence.
  - intros v0 V0 e0 Hl Hp0. lookup_cases Hl.
    destruct (inv_enum_up _ _ _ Hl Hp0) as (E0 & HE0 & Hin0).
    destruct (decide (e0 = e)) as [->|].
    + eexists. rewrite lookup_insert. split; [done|]. simplify_eq. set_solver.
    + exists E0. by rewrite lookup_insert_ne.
  - intros e0 E0 Hl. lookup_cases Hl.
    + eapply IndexOK_delete; eauto.
      * by rewrite (key_eval_name_val _ _ _ _ HV), decide_True.
      * by rewrite key_eval_name_eq.
      * intros h Hh. by apply key_eval_name_ne.
    + eapply IndexOK_ext; [by eauto|]. intros h.
      destruct (decide (h = key)) as [->|]; [|by apply key_eval_name_ne].
      rewrite key_eval_name_eq, (key_eval_name_val _ _ _ _ HV). cbn.
      repeat case_decide; congruence.
  - intros e0 E0 Hl. lookup_cases Hl.
    + eapply IndexOK_delete; eauto.
      * by rewrite (key_eval_index_val _ _ _ _ HV), decide_True.
      * by rewrite key_eval_index_eq.
      * intros h Hh. by apply key_eval_index_ne.
    + eapply IndexOK_ext; [by eauto|]. intros h.
      destruct (decide (h = key)) as [->|]; [|by apply key_eval_index_ne].
      rewrite key_eval_index_eq, (key_eval_index_val _ _ _ _ HV). cbn.
      repeat case_decide; congruence.
  - intros e0 E0 Hl. lookup_cases Hl.
    + assert (max_index (<[key:=V <| v_parent := None |>]> (evals s)) (elements (e_values E ∖ {[key]}))
              = max_index (evals s) (elements (e_values E ∖ {[key]}))) as Hsame.
      { apply max_index_insert_other. rewrite elem_of_elements. set_solver. }
      case_decide as Hmx; [done|].
      (* the removed value was not the maximum: the maximum of the rest is unchanged *)
      rewrite Hsame.
      rewrite (inv_enum_max _ _ HE). symmetry.
      apply max_index_spec.
      * apply max_index_nonneg.
      * intros v0 V0 Hv0 HV0. eapply max_index_ge; [|done].
        rewrite elem_of_elements in *. set_solver.
      * destruct (max_index_attained (evals s) (elements (e_values E))) as [->|(v0 & V0 & Hv0 & HV0 & Hi)]; [by left|].
        right. exists v0, V0. split; [|done]. rewrite elem_of_elements in *.
        apply elem_of_difference. split; [done|]. apply not_elem_of_singleton. intros ->.
        simplify_eq. rewrite (inv_enum_max _ _ HE) in Hmx. congruence.
    + rewrite (inv_enum_max _ _ Hl). symmetry. apply max_index_ext. intros x Hx.
      destruct (decide (x = key)) as [->|]; [|by rewrite lookup_insert_ne].
      rewrite lookup_insert, HV. done.
Qed.

Lemma inv_enum_remove_all_values s e : Inv s → Inv (enum_remove_all_values s e).1.
Proof.
  intros Hinv. unfold enum_remove_all_values.
  destruct (enums s !! e) as [E|] eqn:HE; [|done].
  cbn [fst ok].
  set (f := λ V : eval_rec, V <| v_parent := None |>).
  assert (∀ x, f (f x) = f x) as Hf by done.
  assert (∀ v V, evals s !! v = Some V → (v ∈ elements (e_values E) ↔ v_parent V = Some e)) as Hkids.
  { intros v V HV. rewrite elem_of_elements. split.
    - intros Hin. destruct (inv_enum_down s Hinv _ _ _ HE Hin) as (V0 & HV0 & ?). by simplify_eq.
    - intros Hp. destruct (inv_enum_up s Hinv _ _ _ HV Hp) as (E0 & HE0 & ?). by simplify_eq. }
  assert (∀ v V', alter_all f (elements (e_values E)) (evals s) !! v = Some V' →
     ∃ V, evals s !! v = Some V ∧
          ((v_parent V = Some e ∧ V' = f V) ∨ (v_parent V ≠ Some e ∧ V' = V))) as Hlk.
  { intros v V'. rewrite lookup_alter_all by done. case_decide as Hd.
    - destruct (evals s !! v) as [V|] eqn:HV; [|done]. intros [= <-].
      exists V. split; [done|]. left. split; [|done]. by apply (Hkids v V HV).
    - intros HV. exists V'. split; [done|]. right. split; [|done]. by rewrite <- (Hkids v V' HV). }
  destruct Hinv. split; cbn; try assumption.
  - intros h Hh. destruct (inv_fresh h Hh) as (?&?&?&?&?&?&?). repeat split; try done.
    + rewrite lookup_insert_ne; [done | intros ->; congruence].
    + rewrite lookup_alter_all by done. case_decide; [|done]. by rewrite H5.
  - intros e0 E0 v0 Hl Hin0. lookup_cases Hl; [set_solver|].
    destruct (inv_enum_down _ _ _ Hl Hin0) as (V0 & HV0 & Hp0).
    exists V0. rewrite lookup_alter_all by done. rewrite decide_False; [done|].
    rewrite (Hkids _ _ HV0). congruence.
  - intros v0 V0 e0 Hl Hp0. apply Hlk in Hl as (V & HV & [[? ->]|[? ->]]); [done|].
    destruct (inv_enum_up _ _ _ HV Hp0) as (E0 & HE0 & Hin0).
    exists E0. rewrite lookup_insert_ne; [done|congruence].
  - intros e0 E0 Hl. lookup_cases Hl.
    + apply IndexOK_empty. intros h. unfold key_eval_name.
      destruct (alter_all f _ _ !! h) as [V'|] eqn:HV'; [|done]. cbn.
      apply Hlk in HV' as (V & HV & [[? ->]|[? ->]]); cbn; by rewrite decide_False.
    + eapply IndexOK_ext; [by eauto|]. intros h. unfold key_eval_name.
      rewrite lookup_alter_all by done. case_decide as Hd; [|done].
      destruct (evals s !! h) as [V|] eqn:HV; [|done]. cbn.
      apply (Hkids _ _ HV) in Hd. rewrite Hd. by rewrite !decide_False by congruence.
  - intros e0 E0 Hl. lookup_cases Hl.
    + apply IndexOK_empty. intros h. unfold key_eval_index.
      destruct (alter_all f _ _ !! h) as [V'|] eqn:HV'; [|done]. cbn.
      apply Hlk in HV' as (V & HV & [[? ->]|[? ->]]); cbn; by rewrite decide_False.
    + eapply IndexOK_ext; [by eauto|]. intros h. unfold key_eval_index.
      rewrite lookup_alter_all by done. case_decide as Hd; [|done].
      destruct (evals s !! h) as [V|] eqn:HV; [|done]. cbn.
      apply (Hkids _ _ HV) in Hd. rewrite Hd. by rewrite !decide_False by congruence.
  - intros e0 E0 Hl. lookup_cases Hl.
    + by rewrite elements_empty.
    + rewrite (inv_enum_max _ _ Hl). symmetry. apply max_index_ext. intros x Hx.
      rewrite lookup_alter_all by done. case_decide; [|done]. by destruct (evals s !! x).
Qed.

Lemma inv_eval_update_name s v new : Inv s → Inv (eval_update_name s v new).1.
Proof.
  intros Hinv. unfold eval_update_name.
  destruct (evals s !! v) as [V|] eqn:HV; [|done].
  destruct (decide (v_name V = new)) as [|Hne]; [done|].
  destruct (v_parent V) as [e|] eqn:Hpar.
  - destruct (enums s !! e) as [E|] eqn:HE; [|done].
    destruct (e_valueNames E !! new) eqn:Hnm; [done|].
    cbn [fst ok].
    destruct Hinv. split; cbn; try assumption; try (inv_auto; fail).
    + fresh_tac inv_fresh.
    + inv_ex inv_enum_down.
    + inv_ex inv_enum_up.
    + intros e0 E0 Hl. lookup_cases Hl.
      * eapply IndexOK_rekey; eauto.
        -- by rewrite (key_eval_name_val _ _ _ _ HV), decide_True.
        -- rewrite key_eval_name_eq. cbn. by rewrite decide_True.
        -- intros h Hh. by apply key_eval_name_ne.
      * eapply IndexOK_ext; [by eauto|]. intros h.
        destruct (decide (h = v)) as [->|]; [|by apply key_eval_name_ne].
        rewrite key_eval_name_eq, (key_eval_name_val _ _ _ _ HV). cbn. rewrite Hpar.
        repeat case_decide; congruence.
    + intros e0 E0 Hl. lookup_cases Hl.
      all: eapply IndexOK_ext; [by eauto|]; intros h;
        (destruct (decide (h = v)) as [->|]; [|by apply key_eval_index_ne]);
        rewrite key_eval_index_eq, (key_eval_index_val _ _ _ _ HV); done.
    + intros e0 E0 Hl. lookup_cases Hl.
      all: erewrite inv_enum_max by eauto; symmetry; apply max_index_ext; intros x Hx;
        (destruct (decide (x = v)) as [->|]; [|by rewrite lookup_insert_ne]);
        rewrite lookup_insert, HV; done.
  - cbn [fst ok].
    destruct Hinv. split; cbn; try assumption; try (inv_auto; fail).
    + fresh_tac inv_fresh.
    + inv_ex inv_enum_down.
    + intros e0 E0 HE0. eapply IndexOK_ext; [by eauto|]. intros h.
      destruct (decide (h = v)) as [->|]; [|by apply key_eval_name_ne].
      rewrite key_eval_name_eq, (key_eval_name_val _ _ _ _ HV). cbn. rewrite Hpar.
      repeat case_decide; congruence.
    + intros e0 E0 HE0. eapply IndexOK_ext; [by eauto|]. intros h.
      destruct (decide (h = v)) as [->|]; [|by apply key_eval_index_ne].
      rewrite key_eval_index_eq, (key_eval_index_val _ _ _ _ HV). done.
    + intros e0 E0 HE0. erewrite inv_enum_max by eauto. symmetry. apply max_index_ext. intros x Hx.
      destruct (decide (x = v)) as [->|]; [|by rewrite lookup_insert_ne].
      rewrite lookup_insert, HV. done.
Qed.

Lemma inv_eval_update_index s v new fits : Inv s → Inv (eval_update_index s v new fits).1.
Proof.
  intros Hinv. unfold eval_update_index.
  destruct (evals s !! v) as [V|] eqn:HV; [|done].
  destruct (decide (v_index V = new)) as [|Hne]; [done|].
  destruct (v_parent V) as [e|] eqn:Hpar.
  - destruct (enums s !! e) as [E|] eqn:HE; [|done].
    unfold verify_value_index.
    destruct (e_valueIdx E !! new) eqn:Hix; [done|].
    destruct (_ && _); [done|].
    cbn [fst ok].
    assert (v ∈ e_values E) as Hin.
    { destruct (inv_enum_up s Hinv _ _ _ HV Hpar) as (E0 & ? & ?). by simplify_eq. }
    destruct Hinv. split; cbn; try assumption; try (inv_auto; fail).
    + fresh_tac inv_fresh.
    + inv_ex inv_enum_down.
    + inv_ex inv_enum_up.
    + intros e0 E0 Hl. lookup_cases Hl.
      all: eapply IndexOK_ext; [by eauto|]; intros h;
        (destruct (decide (h = v)) as [->|]; [|by apply key_eval_name_ne]);
        rewrite key_eval_name_eq, (key_eval_name_val _ _ _ _ HV); done.
    + intros e0 E0 Hl. lookup_cases Hl.
      * eapply IndexOK_rekey; eauto.
        -- by rewrite (key_eval_index_val _ _ _ _ HV), decide_True.
        -- rewrite key_eval_index_eq. cbn. by rewrite decide_True.
        -- intros h Hh. by apply key_eval_index_ne.
      * eapply IndexOK_ext; [by eauto|]. intros h.
        destruct (decide (h = v)) as [->|]; [|by apply key_eval_index_ne].
        rewrite key_eval_index_eq, (key_eval_index_val _ _ _ _ HV). cbn. rewrite Hpar.
        repeat case_decide; congruence.
    + intros e0 E0 Hl. lookup_cases Hl.
      * unfold modify_max_index.
        assert (elements (e_values E) ≡ₚ v :: elements (e_values E ∖ {[v]})) as Hperm.
        { rewrite <- elements_union_singleton by set_solver.
          by rewrite <- union_difference_singleton_L. }
        rewrite (max_index_perm _ _ _ Hperm). cbn [max_index foldr]. rewrite lookup_insert. cbn.
        f_equal. symmetry. apply max_index_insert_other. rewrite elem_of_elements. set_solver.
      * rewrite (inv_enum_max _ _ Hl). symmetry. apply max_index_ext. intros x Hx.
        destruct (decide (x = v)) as [->|]; [|by rewrite lookup_insert_ne].
        exfalso. apply elem_of_elements in Hx.
        destruct (inv_enum_down _ _ _ Hl Hx) as (V0 & ? & ?). simplify_eq.
  - cbn [fst ok].
    destruct Hinv. split; cbn; try assumption; try (inv_auto; fail).
    + fresh_tac inv_fresh.
    + inv_ex inv_enum_down.
    + intros e0 E0 HE0. eapply IndexOK_ext; [by eauto|]. intros h.
      destruct (decide (h = v)) as [->|]; [|by apply key_eval_name_ne].
      rewrite key_eval_name_eq, (key_eval_name_val _ _ _ _ HV). done.
    + intros e0 E0 HE0. eapply IndexOK_ext; [by eauto|]. intros h.
      destruct (decide (h = v)) as [->|]; [|by apply key_eval_index_ne].
      rewrite key_eval_index_eq, (key_eval_index_val _ _ _ _ HV). cbn. rewrite Hpar.
      repeat case_decide; congruence.
    + intros e0 E0 HE0. erewrite inv_enum_max by eauto. symmetry. apply max_index_ext. intros x Hx.
      destruct (decide (x = v)) as [->|]; [|by rewrite lookup_insert_ne].
      exfalso. apply elem_of_elements in Hx.
      destruct (inv_enum_down _ _ _ HE0 Hx) as (V0 & ? & ?). simplify_eq.
Qed.
