(* C04/C05 — invariant preservation: NodeInterface.AddSentMessage / RemoveSentMessage /
   RemoveAllSentMessages. *)
From Acme.C04 Require Import ProofsTac.

Lemma inv_iface_add_sent s i om : Inv s → op_ok s (IfAddSent i om) → Inv (iface_add_sent s i om).1.
Proof.
  intros Hinv Hok. unfold iface_add_sent.
  destruct (ifaces s !! i) as [Ii|] eqn:HI; [|done].
  destruct om as [m|]; [|done].
  destruct (msgs s !! m) as [M|] eqn:HM; [|done].
  destruct (i_sentNames Ii !! m_name M) eqn:Hnm; [done|].
  destruct (parent_bus_too_big _ _ _); [done|].
  cbn in Hok. specialize (Hok M HM).
  assert (m_sender M = None) as Hsnd.
  { destruct Hok as [?|Hs]; [done|].
    pose proof (IndexOK_free _ _ _ (inv_sent_names s Hinv i Ii HI) Hnm m) as Hf.
    rewrite (key_msg_name_val _ _ _ _ HM), decide_True in Hf; done. }
  assert (m ∉ i_sent Ii) as Hnin.
  { intros Hin. destruct (inv_sent_down s Hinv _ _ _ HI Hin) as (M0 & ? & ?). simplify_eq. }
  destruct (m_hasStatic M) eqn:Hst.
  - (* static CAN-ID *)
    destruct (i_sentStatic Ii !! m_static M) eqn:Hss; [done|].
    destruct (parent_bus_static_taken s (i_parent Ii) (m_static M)) eqn:Htk; [done|].
    cbn [fst ok].
    destruct (i_parent Ii) as [b|] eqn:Hpar.
    + destruct (inv_bus_up s Hinv _ _ _ HI Hpar) as (B & HB & HBi).
      cbn [upd_parent_bus]. rewrite (alter_as_insert _ _ _ _ HB).
      cbn in Htk. rewrite HB in Htk. apply bool_decide_eq_false in Htk.
      assert (b_static B !! m_static M = None) as Hbs.
      { destruct (b_static B !! m_static M) eqn:Hx; [|done]. exfalso. apply Htk. by eexists. }
      destruct Hinv. split; cbn; try assumption; try (inv_auto; fail).
      * fresh_tac inv_fresh.
      * inv_ex inv_net_down.
      * net_names_frame inv_net_names HB.
      * inv_ex inv_bus_down.
      * inv_ex inv_bus_up.
      * intros b0 B0 Hl. lookup_cases Hl.
        -- eapply IndexOK_insert; eauto.
           ++ by rewrite (key_bus_static_val _ _ _ _ _ HM), Hsnd.
           ++ rewrite key_bus_static_msg_eq. cbn. rewrite lookup_insert. cbn.
              by rewrite decide_True, Hst.
           ++ intros h Hh. rewrite key_bus_static_msg_ne by done.
              apply key_bus_static_iface_frame. by eapply iface_parent_frame.
        -- eapply IndexOK_ext; [by eauto|]. intros h.
           rewrite (key_bus_static_iface_frame _ (ifaces s)) by (by eapply iface_parent_frame).
           destruct (decide (h = m)) as [->|]; [|by apply key_bus_static_msg_ne].
           rewrite key_bus_static_msg_eq, (key_bus_static_val _ _ _ _ _ HM), Hsnd. cbn. rewrite HI. cbn.
           rewrite Hpar. repeat case_decide; congruence.
      * inv_ex inv_node_ifaces.
      * intros i0 Ii0 m0 Hl Hin. lookup_cases Hl.
        -- apply elem_of_union in Hin as [->%elem_of_singleton|Hin].
           ++ eexists. by rewrite lookup_insert.
           ++ destruct (inv_sent_down _ _ _ HI Hin) as (M0 & HM0 & Hs0).
              exists M0. rewrite lookup_insert_ne; [done|]. intros ->. congruence.
        -- destruct (inv_sent_down _ _ _ Hl Hin) as (M0 & HM0 & Hs0).
           exists M0. rewrite lookup_insert_ne; [done|]. intros ->. congruence.
      * intros m0 M0 i0 Hl Hs0. lookup_cases Hl.
        -- eexists. rewrite lookup_insert. split; [done|]. set_solver.
        -- destruct (inv_sent_up _ _ _ Hl Hs0) as (Ii0 & HI0 & Hin).
           destruct (decide (i0 = i)) as [->|].
           ++ eexists. rewrite lookup_insert. split; [done|]. simplify_eq. set_solver.
           ++ exists Ii0. by rewrite lookup_insert_ne.
      * intros i0 Ii0 Hl. lookup_cases Hl.
        -- eapply IndexOK_insert; eauto.
           ++ rewrite (key_msg_name_val _ _ _ _ HM), Hsnd. by rewrite decide_False.
           ++ by rewrite key_msg_name_eq, decide_True.
           ++ intros h Hh. by apply key_msg_name_ne.
        -- eapply IndexOK_ext; [by eauto|]. intros h.
           destruct (decide (h = m)) as [->|]; [|by apply key_msg_name_ne].
           rewrite key_msg_name_eq, (key_msg_name_val _ _ _ _ HM), Hsnd. cbn.
           repeat case_decide; congruence.
      * intros i0 Ii0 Hl.
        assert (IndexOK (key_msg_id (msgs s) i0) (i_sentIDs Ii0)) as Hold.
        { lookup_cases Hl; eauto. }
        eapply IndexOK_ext; [exact Hold|]. intros h.
        destruct (decide (h = m)) as [->|]; [|by apply key_msg_id_ne].
        rewrite key_msg_id_eq, (key_msg_id_val _ _ _ _ HM), Hsnd. cbn. rewrite Hst.
        repeat case_decide; congruence.
      * intros i0 Ii0 Hl. lookup_cases Hl.
        -- eapply IndexOK_insert; eauto.
           ++ rewrite (key_msg_static_val _ _ _ _ HM), Hsnd. by rewrite decide_False.
           ++ rewrite key_msg_static_eq. cbn. by rewrite decide_True, Hst.
           ++ intros h Hh. by apply key_msg_static_ne.
        -- eapply IndexOK_ext; [by eauto|]. intros h.
           destruct (decide (h = m)) as [->|]; [|by apply key_msg_static_ne].
           rewrite key_msg_static_eq, (key_msg_static_val _ _ _ _ HM), Hsnd. cbn.
           repeat case_decide; congruence.
      * inv_ex inv_recv_down.
      * inv_ex inv_recv_up.
    + cbn [upd_parent_bus].
      destruct Hinv. split; cbn; try assumption; try (inv_auto; fail).
      * fresh_tac inv_fresh.
      * inv_ex inv_bus_down.
      * intros b0 B0 HB0. eapply IndexOK_ext; [by eauto|]. intros h.
        rewrite (key_bus_static_iface_frame _ (ifaces s)) by (by eapply iface_parent_frame).
        destruct (decide (h = m)) as [->|]; [|by apply key_bus_static_msg_ne].
        rewrite key_bus_static_msg_eq, (key_bus_static_val _ _ _ _ _ HM), Hsnd. cbn. rewrite HI. cbn.
        rewrite Hpar. repeat case_decide; congruence.
      * inv_ex inv_node_ifaces.
      * intros i0 Ii0 m0 Hl Hin. lookup_cases Hl.
        -- apply elem_of_union in Hin as [->%elem_of_singleton|Hin].
           ++ eexists. by rewrite lookup_insert.
           ++ destruct (inv_sent_down _ _ _ HI Hin) as (M0 & HM0 & Hs0).
              exists M0. rewrite lookup_insert_ne; [done|]. intros ->. congruence.
        -- destruct (inv_sent_down _ _ _ Hl Hin) as (M0 & HM0 & Hs0).
           exists M0. rewrite lookup_insert_ne; [done|]. intros ->. congruence.
      * intros m0 M0 i0 Hl Hs0. lookup_cases Hl.
        -- eexists. rewrite lookup_insert. split; [done|]. set_solver.
        -- destruct (inv_sent_up _ _ _ Hl Hs0) as (Ii0 & HI0 & Hin).
           destruct (decide (i0 = i)) as [->|].
           ++ eexists. rewrite lookup_insert. split; [done|]. simplify_eq. set_solver.
           ++ exists Ii0. by rewrite lookup_insert_ne.
      * intros i0 Ii0 Hl. lookup_cases Hl.
        -- eapply IndexOK_insert; eauto.
           ++ rewrite (key_msg_name_val _ _ _ _ HM), Hsnd. by rewrite decide_False.
           ++ by rewrite key_msg_name_eq, decide_True.
           ++ intros h Hh. by apply key_msg_name_ne.
        -- eapply IndexOK_ext; [by eauto|]. intros h.
           destruct (decide (h = m)) as [->|]; [|by apply key_msg_name_ne].
           rewrite key_msg_name_eq, (key_msg_name_val _ _ _ _ HM), Hsnd. cbn.
           repeat case_decide; congruence.
      * intros i0 Ii0 Hl.
        assert (IndexOK (key_msg_id (msgs s) i0) (i_sentIDs Ii0)) as Hold.
        { lookup_cases Hl; eauto. }
        eapply IndexOK_ext; [exact Hold|]. intros h.
        destruct (decide (h = m)) as [->|]; [|by apply key_msg_id_ne].
        rewrite key_msg_id_eq, (key_msg_id_val _ _ _ _ HM), Hsnd. cbn. rewrite Hst.
        repeat case_decide; congruence.
      * intros i0 Ii0 Hl. lookup_cases Hl.
        -- eapply IndexOK_insert; eauto.
           ++ rewrite (key_msg_static_val _ _ _ _ HM), Hsnd. by rewrite decide_False.
           ++ rewrite key_msg_static_eq. cbn. by rewrite decide_True, Hst.
           ++ intros h Hh. by apply key_msg_static_ne.
        -- eapply IndexOK_ext; [by eauto|]. intros h.
           destruct (decide (h = m)) as [->|]; [|by apply key_msg_static_ne].
           rewrite key_msg_static_eq, (key_msg_static_val _ _ _ _ HM), Hsnd. cbn.
           repeat case_decide; congruence.
      * inv_ex inv_recv_down.
      * inv_ex inv_recv_up.
  - destruct (i_sentIDs Ii !! m_id M) eqn:Hid; [done|].
    cbn [fst ok].
    destruct Hinv. split; cbn; try assumption; try (inv_auto; fail).
    + fresh_tac inv_fresh.
    + inv_ex inv_bus_down.
    + intros b B HB. eapply IndexOK_ext; [by eauto|]. intros h.
      rewrite (key_bus_static_iface_frame _ (ifaces s)) by (by eapply iface_parent_frame).
      destruct (decide (h = m)) as [->|]; [|by apply key_bus_static_msg_ne].
      rewrite key_bus_static_msg_eq, (key_bus_static_val _ _ _ _ _ HM), Hsnd. cbn. rewrite HI. cbn.
      rewrite Hst. by case_decide.
    + inv_ex inv_node_ifaces.
    + intros i0 Ii0 m0 Hl Hin. lookup_cases Hl.
      * apply elem_of_union in Hin as [->%elem_of_singleton|Hin].
        -- eexists. by rewrite lookup_insert.
        -- destruct (inv_sent_down _ _ _ HI Hin) as (M0 & HM0 & Hs0).
           exists M0. rewrite lookup_insert_ne; [done|]. intros ->. congruence.
      * destruct (inv_sent_down _ _ _ Hl Hin) as (M0 & HM0 & Hs0).
        exists M0. rewrite lookup_insert_ne; [done|]. intros ->. congruence.
    + intros m0 M0 i0 Hl Hs0. lookup_cases Hl.
      * eexists. rewrite lookup_insert. split; [done|]. set_solver.
      * destruct (inv_sent_up _ _ _ Hl Hs0) as (Ii0 & HI0 & Hin).
        destruct (decide (i0 = i)) as [->|].
        -- eexists. rewrite lookup_insert. split; [done|]. simplify_eq. set_solver.
        -- exists Ii0. by rewrite lookup_insert_ne.
    + intros i0 Ii0 Hl. lookup_cases Hl.
      * eapply IndexOK_insert; eauto.
        -- rewrite (key_msg_name_val _ _ _ _ HM), Hsnd. by rewrite decide_False.
        -- by rewrite key_msg_name_eq, decide_True.
        -- intros h Hh. by apply key_msg_name_ne.
      * eapply IndexOK_ext; [by eauto|]. intros h.
        destruct (decide (h = m)) as [->|]; [|by apply key_msg_name_ne].
        rewrite key_msg_name_eq, (key_msg_name_val _ _ _ _ HM), Hsnd. cbn.
        repeat case_decide; congruence.
    + intros i0 Ii0 Hl. lookup_cases Hl.
      * eapply IndexOK_insert; eauto.
        -- rewrite (key_msg_id_val _ _ _ _ HM), Hsnd. by rewrite decide_False.
        -- rewrite key_msg_id_eq. cbn. by rewrite decide_True, Hst.
        -- intros h Hh. by apply key_msg_id_ne.
      * eapply IndexOK_ext; [by eauto|]. intros h.
        destruct (decide (h = m)) as [->|]; [|by apply key_msg_id_ne].
        rewrite key_msg_id_eq, (key_msg_id_val _ _ _ _ HM), Hsnd. cbn.
        repeat case_decide; congruence.
    + intros i0 Ii0 Hl.
      assert (IndexOK (key_msg_static (msgs s) i0) (i_sentStatic Ii0)) as Hold.
      { lookup_cases Hl; eauto. }
      eapply IndexOK_ext; [exact Hold|]. intros h.
      destruct (decide (h = m)) as [->|]; [|by apply key_msg_static_ne].
      rewrite key_msg_static_eq, (key_msg_static_val _ _ _ _ HM), Hsnd. cbn. rewrite Hst.
      repeat case_decide; congruence.
    + inv_ex inv_recv_down.
    + inv_ex inv_recv_up.
Qed.

Lemma inv_iface_remove_sent s i key : Inv s → Inv (iface_remove_sent s i key).1.
Proof.
  intros Hinv. unfold iface_remove_sent.
  destruct (ifaces s !! i) as [Ii|] eqn:HI; [|done].
  destruct (decide (key ∈ i_sent Ii)) as [Hin|]; [|done].
  destruct (msgs s !! key) as [M|] eqn:HM; [|done].
  destruct (inv_sent_down s Hinv _ _ _ HI Hin) as (M0 & HM0 & Hsnd). simplify_eq.
  (* what is common to the branches: the sender link and the name index *)
  assert (∀ (I' : iface_rec) (is' := <[i:=I']> (ifaces s)) (ms' := <[key:=M <| m_sender := None |>]> (msgs s)),
      i_sent I' = i_sent Ii ∖ {[key]} → i_sentNames I' = delete (m_name M) (i_sentNames Ii) →
      (∀ i0 Ii0 m0, is' !! i0 = Some Ii0 → m0 ∈ i_sent Ii0 → ∃ M0, ms' !! m0 = Some M0 ∧ m_sender M0 = Some i0) ∧
      (∀ m0 M0 i0, ms' !! m0 = Some M0 → m_sender M0 = Some i0 → ∃ Ii0, is' !! i0 = Some Ii0 ∧ m0 ∈ i_sent Ii0) ∧
      (∀ i0 Ii0, is' !! i0 = Some Ii0 → IndexOK (key_msg_name ms' i0) (i_sentNames Ii0))) as Hcommon.
  { intros I' is' ms' Hs' Hn'. subst is' ms'. split; [|split].
    - intros i0 Ii0 m0 Hl Hin0. lookup_cases Hl.
      + rewrite Hs' in Hin0. apply elem_of_difference in Hin0 as [Hin0 Hne%not_elem_of_singleton].
        destruct (inv_sent_down s Hinv _ _ _ HI Hin0) as (M0 & HM0 & Hs0).
        exists M0. by rewrite lookup_insert_ne.
      + destruct (inv_sent_down s Hinv _ _ _ Hl Hin0) as (M0 & HM0 & Hs0).
        exists M0. rewrite lookup_insert_ne; [done|]. intros ->. congruence.
    - intros m0 M0 i0 Hl Hs0. lookup_cases Hl.
      destruct (inv_sent_up s Hinv _ _ _ Hl Hs0) as (Ii0 & HI0 & Hin0).
      destruct (decide (i0 = i)) as [->|].
      + eexists. rewrite lookup_insert. split; [done|]. simplify_eq. rewrite Hs'. set_solver.
      + exists Ii0. by rewrite lookup_insert_ne.
    - intros i0 Ii0 Hl. lookup_cases Hl.
      + rewrite Hn'. eapply IndexOK_delete; [by eapply (inv_sent_names s Hinv)|..].
        * by rewrite (key_msg_name_val _ _ _ _ HM), decide_True.
        * by rewrite key_msg_name_eq.
        * intros h Hh. by apply key_msg_name_ne.
      + eapply IndexOK_ext; [by eapply (inv_sent_names s Hinv)|]. intros h.
        destruct (decide (h = key)) as [->|]; [|by apply key_msg_name_ne].
        rewrite key_msg_name_eq, (key_msg_name_val _ _ _ _ HM), Hsnd. cbn.
        repeat case_decide; congruence. }
  destruct (m_hasStatic M) eqn:Hst; cbn [fst ok].
  - destruct (i_parent Ii) as [b|] eqn:Hpar.
    + destruct (inv_bus_up s Hinv _ _ _ HI Hpar) as (B & HB & HBi).
      cbn [upd_parent_bus]. rewrite (alter_as_insert _ _ _ _ HB).
      match goal with |- context [<[i := ?I']> (ifaces s)] => destruct (Hcommon I' eq_refl eq_refl) as (Hd & Hu & Hn) end; clear Hcommon.
      destruct Hinv. split; cbn; try assumption; try (inv_auto; fail).
      * fresh_tac inv_fresh.
      * inv_ex inv_net_down.
      * net_names_frame inv_net_names HB.
      * inv_ex inv_bus_down.
      * inv_ex inv_bus_up.
      * intros b0 B0 Hl. lookup_cases Hl.
        -- eapply IndexOK_delete; eauto.
           ++ rewrite (key_bus_static_val _ _ _ _ _ HM), Hsnd. cbn. rewrite HI. cbn.
              by rewrite decide_True, Hst.
           ++ by rewrite key_bus_static_msg_eq.
           ++ intros h Hh. rewrite key_bus_static_msg_ne by done.
              apply key_bus_static_iface_frame. by eapply iface_parent_frame.
        -- eapply IndexOK_ext; [by eauto|]. intros h.
           rewrite (key_bus_static_iface_frame _ (ifaces s)) by (by eapply iface_parent_frame).
           destruct (decide (h = key)) as [->|]; [|by apply key_bus_static_msg_ne].
           rewrite key_bus_static_msg_eq, (key_bus_static_val _ _ _ _ _ HM), Hsnd. cbn. rewrite HI. cbn.
           rewrite Hpar. repeat case_decide; congruence.
      * inv_ex inv_node_ifaces.
      * intros i0 Ii0 Hl.
        assert (IndexOK (key_msg_id (msgs s) i0) (i_sentIDs Ii0)) as Hold.
        { lookup_cases Hl; eauto. }
        eapply IndexOK_ext; [exact Hold|]. intros h.
        destruct (decide (h = key)) as [->|]; [|by apply key_msg_id_ne].
        rewrite key_msg_id_eq, (key_msg_id_val _ _ _ _ HM), Hsnd. cbn. rewrite Hst.
        repeat case_decide; congruence.
      * intros i0 Ii0 Hl. lookup_cases Hl.
        -- eapply IndexOK_delete; eauto.
           ++ by rewrite (key_msg_static_val _ _ _ _ HM), decide_True, Hst.
           ++ by rewrite key_msg_static_eq.
           ++ intros h Hh. by apply key_msg_static_ne.
        -- eapply IndexOK_ext; [by eauto|]. intros h.
           destruct (decide (h = key)) as [->|]; [|by apply key_msg_static_ne].
           rewrite key_msg_static_eq, (key_msg_static_val _ _ _ _ HM), Hsnd. cbn.
           repeat case_decide; congruence.
      * inv_ex inv_recv_down.
      * inv_ex inv_recv_up.
    + cbn [upd_parent_bus].
      match goal with |- context [<[i := ?I']> (ifaces s)] => destruct (Hcommon I' eq_refl eq_refl) as (Hd & Hu & Hn) end; clear Hcommon.
      destruct Hinv. split; cbn; try assumption; try (inv_auto; fail).
      * fresh_tac inv_fresh.
      * inv_ex inv_bus_down.
      * intros b0 B0 HB0. eapply IndexOK_ext; [by eauto|]. intros h.
        rewrite (key_bus_static_iface_frame _ (ifaces s)) by (by eapply iface_parent_frame).
        destruct (decide (h = key)) as [->|]; [|by apply key_bus_static_msg_ne].
        rewrite key_bus_static_msg_eq, (key_bus_static_val _ _ _ _ _ HM), Hsnd. cbn. rewrite HI. cbn.
        rewrite Hpar. repeat case_decide; congruence.
      * inv_ex inv_node_ifaces.
      * intros i0 Ii0 Hl.
        assert (IndexOK (key_msg_id (msgs s) i0) (i_sentIDs Ii0)) as Hold.
        { lookup_cases Hl; eauto. }
        eapply IndexOK_ext; [exact Hold|]. intros h.
        destruct (decide (h = key)) as [->|]; [|by apply key_msg_id_ne].
        rewrite key_msg_id_eq, (key_msg_id_val _ _ _ _ HM), Hsnd. cbn. rewrite Hst.
        repeat case_decide; congruence.
      * intros i0 Ii0 Hl. lookup_cases Hl.
        -- eapply IndexOK_delete; eauto.
           ++ by rewrite (key_msg_static_val _ _ _ _ HM), decide_True, Hst.
           ++ by rewrite key_msg_static_eq.
           ++ intros h Hh. by apply key_msg_static_ne.
        -- eapply IndexOK_ext; [by eauto|]. intros h.
           destruct (decide (h = key)) as [->|]; [|by apply key_msg_static_ne].
           rewrite key_msg_static_eq, (key_msg_static_val _ _ _ _ HM), Hsnd. cbn.
           repeat case_decide; congruence.
      * inv_ex inv_recv_down.
      * inv_ex inv_recv_up.
  - match goal with |- context [<[i := ?I']> (ifaces s)] => destruct (Hcommon I' eq_refl eq_refl) as (Hd & Hu & Hn) end; clear Hcommon.
    destruct Hinv. split; cbn; try assumption; try (inv_auto; fail).
    + fresh_tac inv_fresh.
    + inv_ex inv_bus_down.
    + intros b0 B0 HB0. eapply IndexOK_ext; [by eauto|]. intros h.
      rewrite (key_bus_static_iface_frame _ (ifaces s)) by (by eapply iface_parent_frame).
      destruct (decide (h = key)) as [->|]; [|by apply key_bus_static_msg_ne].
      rewrite key_bus_static_msg_eq, (key_bus_static_val _ _ _ _ _ HM), Hsnd. cbn. rewrite HI. cbn.
      rewrite Hst. repeat case_decide; congruence.
    + inv_ex inv_node_ifaces.
    + intros i0 Ii0 Hl. lookup_cases Hl.
      * eapply IndexOK_delete; eauto.
        -- by rewrite (key_msg_id_val _ _ _ _ HM), decide_True, Hst.
        -- by rewrite key_msg_id_eq.
        -- intros h Hh. by apply key_msg_id_ne.
      * eapply IndexOK_ext; [by eauto|]. intros h.
        destruct (decide (h = key)) as [->|]; [|by apply key_msg_id_ne].
        rewrite key_msg_id_eq, (key_msg_id_val _ _ _ _ HM), Hsnd. cbn.
        repeat case_decide; congruence.
    + intros i0 Ii0 Hl.
      assert (IndexOK (key_msg_static (msgs s) i0) (i_sentStatic Ii0)) as Hold.
      { lookup_cases Hl; eauto. }
      eapply IndexOK_ext; [exact Hold|]. intros h.
      destruct (decide (h = key)) as [->|]; [|by apply key_msg_static_ne].
      rewrite key_msg_static_eq, (key_msg_static_val _ _ _ _ HM), Hsnd. cbn. rewrite Hst.
      repeat case_decide; congruence.
    + inv_ex inv_recv_down.
    + inv_ex inv_recv_up.
Qed.
