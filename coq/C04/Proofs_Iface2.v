(* C04/C05 — invariant preservation: NodeInterface.RemoveAllSentMessages. *)
From Acme.C04 Require Import ProofsTac.

Lemma inv_iface_remove_all_sent s i : Inv s → Inv (iface_remove_all_sent s i).1.
Proof.
  intros Hinv. unfold iface_remove_all_sent.
  destruct (ifaces s !! i) as [Ii|] eqn:HI; [|done].
  cbn [fst ok].
  set (f := λ M : msg_rec, M <| m_sender := None |>).
  set (sent := elements (i_sent Ii)).
  assert (∀ x, f (f x) = f x) as Hf by done.
  assert (∀ m M, msgs s !! m = Some M → (m ∈ sent ↔ m_sender M = Some i)) as Hkids.
  { intros m M HM. unfold sent. rewrite elem_of_elements. split.
    - intros Hin. destruct (inv_sent_down s Hinv _ _ _ HI Hin) as (M0 & HM0 & ?). by simplify_eq.
    - intros Hp. destruct (inv_sent_up s Hinv _ _ _ HM Hp) as (I0 & HI0 & ?). by simplify_eq. }
  assert (∀ m M', alter_all f sent (msgs s) !! m = Some M' →
     ∃ M, msgs s !! m = Some M ∧
          ((m_sender M = Some i ∧ M' = f M) ∨ (m_sender M ≠ Some i ∧ M' = M))) as Hlk.
  { intros m M'. rewrite lookup_alter_all by done. case_decide as Hd.
    - destruct (msgs s !! m) as [M|] eqn:HM; [|done]. intros [= <-].
      exists M. split; [done|]. left. split; [|done]. by apply (Hkids m M HM).
    - intros HM. exists M'. split; [done|]. right. split; [|done]. by rewrite <- (Hkids m M' HM). }
  (* keys of the messages after the loop *)
  assert (∀ i0 h, key_msg_name (alter_all f sent (msgs s)) i0 h =
                  if decide (i0 = i) then None else key_msg_name (msgs s) i0 h) as Hkn.
  { intros i0 h. unfold key_msg_name. rewrite lookup_alter_all by done.
    destruct (msgs s !! h) as [M|] eqn:HM; cbn; [|by repeat case_decide].
    pose proof (Hkids h M HM). repeat case_decide; cbn in *; repeat case_decide; simplify_eq; try done; naive_solver. }
  assert (∀ i0 h, key_msg_id (alter_all f sent (msgs s)) i0 h =
                  if decide (i0 = i) then None else key_msg_id (msgs s) i0 h) as Hki.
  { intros i0 h. unfold key_msg_id. rewrite lookup_alter_all by done.
    destruct (msgs s !! h) as [M|] eqn:HM; cbn; [|by repeat case_decide].
    pose proof (Hkids h M HM). repeat case_decide; cbn in *; repeat case_decide; simplify_eq; try done; naive_solver. }
  assert (∀ i0 h, key_msg_static (alter_all f sent (msgs s)) i0 h =
                  if decide (i0 = i) then None else key_msg_static (msgs s) i0 h) as Hks.
  { intros i0 h. unfold key_msg_static. rewrite lookup_alter_all by done.
    destruct (msgs s !! h) as [M|] eqn:HM; cbn; [|by repeat case_decide].
    pose proof (Hkids h M HM). repeat case_decide; cbn in *; repeat case_decide; simplify_eq; try done; naive_solver. }
  assert (∀ is', (∀ i0, i_parent <$> is' !! i0 = i_parent <$> ifaces s !! i0) →
            ∀ b0 h, key_bus_static (alter_all f sent (msgs s)) is' b0 h =
                    if decide (h ∈ sent) then None else key_bus_static (msgs s) (ifaces s) b0 h) as Hkb.
  { intros is' His b0 h. rewrite (key_bus_static_iface_frame _ (ifaces s)) by done.
    unfold key_bus_static. rewrite lookup_alter_all by done.
    case_decide; [|done]. by destruct (msgs s !! h). }
  assert (∀ I', i_parent I' = i_parent Ii →
            ∀ i0, i_parent <$> <[i:=I']> (ifaces s) !! i0 = i_parent <$> ifaces s !! i0) as Hpf.
  { intros I' Hp. by eapply iface_parent_frame. }
  (* the part that does not depend on the parent bus *)
  assert (∀ bs',
     (∀ h : handle, (next s ≤ h)%positive → bs' !! h = None) →
     (∀ n N b0, nets s !! n = Some N → b0 ∈ n_buses N → ∃ B0, bs' !! b0 = Some B0 ∧ b_parent B0 = Some n) →
     (∀ b0 B0 n, bs' !! b0 = Some B0 → b_parent B0 = Some n → ∃ N, nets s !! n = Some N ∧ b0 ∈ n_buses N) →
     (∀ n N, nets s !! n = Some N → IndexOK (key_bus_name bs' n) (n_busNames N)) →
     (∀ b0 B0 nd i0, bs' !! b0 = Some B0 → b_nodeInts B0 !! nd = Some i0 →
        ∃ I0, ifaces s !! i0 = Some I0 ∧ i_node I0 = nd ∧ i_parent I0 = Some b0) →
     (∀ i0 I0 b0, ifaces s !! i0 = Some I0 → i_parent I0 = Some b0 →
        ∃ B0, bs' !! b0 = Some B0 ∧ b_nodeInts B0 !! i_node I0 = Some i0) →
     (∀ b0 B0, bs' !! b0 = Some B0 → IndexOK (key_node_name (nodes s) (b_nodeInts B0)) (b_nodeNames B0)) →
     (∀ b0 B0, bs' !! b0 = Some B0 → IndexOK (key_node_id (nodes s) (b_nodeInts B0)) (b_nodeIDs B0)) →
     (∀ b0 B0, bs' !! b0 = Some B0 →
        IndexOK (λ h, if decide (h ∈ sent) then None else key_bus_static (msgs s) (ifaces s) b0 h) (b_static B0)) →
     Inv (s <| buses := bs' |> <| msgs := alter_all f sent (msgs s) |>
            <| ifaces := <[i:=Ii <| i_sent := ∅ |> <| i_sentNames := ∅ |> <| i_sentIDs := ∅ |>
                                <| i_sentStatic := ∅ |>]> (ifaces s) |>)) as Hmain.
  { intros bs' Hfr Hnd Hnu Hnn Hbd Hbu Hbn Hbi Hbs.
    destruct Hinv. split; cbn; try assumption; try (inv_auto; fail).
    - intros h Hh. destruct (inv_fresh h Hh) as (?&?&?&?&?&?&?). repeat split; try done.
      + by apply Hfr.
      + rewrite lookup_insert_ne; [done | intros ->; congruence].
      + rewrite lookup_alter_all by done. case_decide; [|done]. by rewrite H3.
    - intros b0 B0 nd i0 HB0 Hni. destruct (Hbd _ _ _ _ HB0 Hni) as (I0 & HI0 & ? & ?).
      destruct (decide (i0 = i)) as [->|]; [|by exists I0; rewrite lookup_insert_ne].
      eexists. rewrite lookup_insert. split; [done|]. by simplify_eq.
    - intros b0 B0 HB0. eapply IndexOK_ext; [by apply Hbs|]. intros h.
      by rewrite Hkb by (by apply Hpf).
    - inv_ex inv_node_ifaces.
    - intros i0 I0 m0 Hl Hin. lookup_cases Hl; [set_solver|].
      destruct (inv_sent_down _ _ _ Hl Hin) as (M0 & HM0 & Hs0).
      exists M0. rewrite lookup_alter_all by done. rewrite decide_False; [done|].
      rewrite (Hkids _ _ HM0). congruence.
    - intros m0 M0 i0 Hl Hs0. apply Hlk in Hl as (M & HM & [[? ->]|[? ->]]); [done|].
      destruct (inv_sent_up _ _ _ HM Hs0) as (I0 & HI0 & Hin0).
      exists I0. rewrite lookup_insert_ne; [done|congruence].
    - intros i0 I0 Hl. lookup_cases Hl.
      + apply IndexOK_empty. intros h. by rewrite Hkn, decide_True.
      + eapply IndexOK_ext; [by eauto|]. intros h. by rewrite Hkn, decide_False.
    - intros i0 I0 Hl. lookup_cases Hl.
      + apply IndexOK_empty. intros h. by rewrite Hki, decide_True.
      + eapply IndexOK_ext; [by eauto|]. intros h. by rewrite Hki, decide_False.
    - intros i0 I0 Hl. lookup_cases Hl.
      + apply IndexOK_empty. intros h. by rewrite Hks, decide_True.
      + eapply IndexOK_ext; [by eauto|]. intros h. by rewrite Hks, decide_False.
    - intros m0 M0 nd i0 Hl Hr. apply Hlk in Hl as (M & HM & [[? ->]|[? ->]]); cbn in Hr.
      all: destruct (inv_recv_down _ _ _ _ HM Hr) as (I0 & HI0 & ? & ?);
        (destruct (decide (i0 = i)) as [->|]; [|by exists I0; rewrite lookup_insert_ne]);
        eexists; rewrite lookup_insert; (split; [done|]); by simplify_eq.
    - intros i0 I0 m0 Hl Hin.
      assert (∃ I1, ifaces s !! i0 = Some I1 ∧ i_node I1 = i_node I0 ∧ m0 ∈ i_received I1) as (I1 & HI1 & Hn1 & Hr1).
      { lookup_cases Hl; eauto. }
      destruct (inv_recv_up _ _ _ HI1 Hr1) as (M0 & HM0 & Hrc).
      rewrite lookup_alter_all by done. rewrite HM0. rewrite <- Hn1.
      case_decide; cbn; eauto. }
  destruct (i_parent Ii) as [b|] eqn:Hpar.
  - destruct (inv_bus_up s Hinv _ _ _ HI Hpar) as (B & HB & HBi).
    cbn [upd_parent_bus]. rewrite (alter_as_insert _ _ _ _ HB).
    apply Hmain.
    + intros h Hh. destruct (inv_fresh s Hinv h Hh) as (?&?&?&?&?&?&?).
      rewrite lookup_insert_ne; [done | intros ->; congruence].
    + inv_ex (inv_net_down s Hinv).
    + intros b0 B0 n Hl Hp. lookup_cases Hl; eapply (inv_net_up s Hinv); eauto.
    + net_names_frame (inv_net_names s Hinv) HB.
    + intros b0 B0 nd i0 Hl Hni. lookup_cases Hl; eapply (inv_bus_down s Hinv); eauto.
    + inv_ex (inv_bus_up s Hinv).
    + intros b0 B0 Hl. lookup_cases Hl; eapply (inv_bus_names s Hinv); eauto.
    + intros b0 B0 Hl. lookup_cases Hl; eapply (inv_bus_ids s Hinv); eauto.
    + intros b0 B0 Hl. lookup_cases Hl.
      * pose proof (inv_bus_static s Hinv _ _ HB) as Hold.
        intros k h. rewrite lookup_delete_all. split.
        -- case_decide as Hk; [done|]. intros Hbk. apply Hold in Hbk.
           case_decide as Hh; [|done]. exfalso. apply Hk.
           apply elem_of_static_of_keys. unfold key_bus_static in Hbk.
           destruct (msgs s !! h) as [M|] eqn:HM; [|done]. cbn in Hbk.
           exists h, M. repeat split; try done.
           all: destruct (m_sender M); cbn in Hbk; [|done];
             destruct (ifaces s !! h0); cbn in Hbk; [|done];
             case_decide; [|done]; destruct (m_hasStatic M); by simplify_eq.
        -- case_decide as Hh; [done|]. intros Hkh. rewrite decide_False; [by apply Hold|].
           intros (m & M & Hm & HM & Hst & Hc)%elem_of_static_of_keys.
           apply Hh. assert (h = m) as ->; [|done].
           eapply IndexOK_inj; [exact Hold|exact Hkh|].
           rewrite (key_bus_static_val _ _ _ _ _ HM).
           apply (Hkids _ _ HM) in Hm. rewrite Hm. cbn. rewrite HI. cbn.
           by rewrite decide_True, Hst, Hc.
      * eapply IndexOK_ext; [by eapply (inv_bus_static s Hinv)|]. intros h.
        case_decide as Hh; [|done]. unfold key_bus_static.
        destruct (msgs s !! h) as [M|] eqn:HM; [|done]. cbn.
        apply (Hkids _ _ HM) in Hh. rewrite Hh. cbn. rewrite HI. cbn. rewrite Hpar.
        by rewrite decide_False by congruence.
  - cbn [upd_parent_bus].
    replace (s <| buses := buses s |>) with s by (by destruct s).
    assert (s = s <| buses := buses s |>) as Hs by (by destruct s).
    rewrite Hs. apply Hmain; cbn.
    + intros h Hh. by destruct (inv_fresh s Hinv h Hh) as (?&?&?&?&?&?&?).
    + apply (inv_net_down s Hinv).
    + apply (inv_net_up s Hinv).
    + apply (inv_net_names s Hinv).
    + apply (inv_bus_down s Hinv).
    + apply (inv_bus_up s Hinv).
    + apply (inv_bus_names s Hinv).
    + apply (inv_bus_ids s Hinv).
    + intros b0 B0 HB0. eapply IndexOK_ext; [by eapply (inv_bus_static s Hinv)|]. intros h.
      case_decide as Hh; [|done]. unfold key_bus_static.
      destruct (msgs s !! h) as [M|] eqn:HM; [|done]. cbn.
      apply (Hkids _ _ HM) in Hh. rewrite Hh. cbn. rewrite HI. cbn. rewrite Hpar.
      by rewrite decide_False by congruence.
Qed.
