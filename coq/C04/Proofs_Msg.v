(* C04/C05 — invariant preservation: Message.UpdateName / UpdateID / SetStaticCANID. *)
From Acme.C04 Require Import ProofsTac.

(* A message changes its name / id / static CAN-ID; only the three indexes of interfaces and the
   static index of buses are rewritten: everything else is framed once here. *)
Definition iface_idx_core (Ii : iface_rec) : iface_rec :=
  Ii <| i_sentNames := ∅ |> <| i_sentIDs := ∅ |> <| i_sentStatic := ∅ |>.
Definition bus_static_core (B : bus_rec) : bus_rec := B <| b_static := ∅ |>.

Lemma core_lookup {A} (core : A → A) (m' m : gmap handle A) :
  (∀ k, core <$> m' !! k = core <$> m !! k) →
  (∀ k x', m' !! k = Some x' → ∃ x, m !! k = Some x ∧ core x' = core x) ∧
  (∀ k x, m !! k = Some x → ∃ x', m' !! k = Some x' ∧ core x' = core x) ∧
  (∀ k, m !! k = None → m' !! k = None).
Proof.
  intros Hc. split; [|split].
  - intros k x' Hl. specialize (Hc k). rewrite Hl in Hc. destruct (m !! k) as [x|]; [|done].
    exists x. split; [done|]. by apply (inj Some).
  - intros k x Hl. specialize (Hc k). rewrite Hl in Hc. destruct (m' !! k) as [x'|]; [|done].
    exists x'. split; [done|]. by apply (inj Some).
  - intros k Hl. specialize (Hc k). rewrite Hl in Hc. by destruct (m' !! k).
Qed.

Lemma inv_msg_rekey_frame s m M M' is' bs' :
  Inv s → msgs s !! m = Some M →
  m_sender M' = m_sender M → m_receivers M' = m_receivers M →
  (∀ i0, iface_idx_core <$> is' !! i0 = iface_idx_core <$> ifaces s !! i0) →
  (∀ b0, bus_static_core <$> bs' !! b0 = bus_static_core <$> buses s !! b0) →
  (∀ i0 I0, is' !! i0 = Some I0 →
     IndexOK (key_msg_name (<[m:=M']> (msgs s)) i0) (i_sentNames I0) ∧
     IndexOK (key_msg_id (<[m:=M']> (msgs s)) i0) (i_sentIDs I0) ∧
     IndexOK (key_msg_static (<[m:=M']> (msgs s)) i0) (i_sentStatic I0)) →
  (∀ b0 B0, bs' !! b0 = Some B0 → IndexOK (key_bus_static (<[m:=M']> (msgs s)) is' b0) (b_static B0)) →
  Inv (s <| buses := bs' |> <| ifaces := is' |> <| msgs := <[m:=M']> (msgs s) |>).
Proof.
  intros Hinv HM Hsnd Hrcv His Hbs Hidx Hst.
  destruct (core_lookup _ _ _ His) as (Hi1 & Hi2 & Hi3).
  destruct (core_lookup _ _ _ Hbs) as (Hb1 & Hb2 & Hb3).
  assert (∀ I1 I2, iface_idx_core I1 = iface_idx_core I2 →
    i_parent I1 = i_parent I2 ∧ i_node I1 = i_node I2 ∧ i_number I1 = i_number I2 ∧ i_sent I1 = i_sent I2 ∧
    i_received I1 = i_received I2) as Hif.
  { intros [] []. unfold iface_idx_core. cbn. intros [=]. by subst. }
  assert (∀ B1 B2, bus_static_core B1 = bus_static_core B2 →
    b_name B1 = b_name B2 ∧ b_parent B1 = b_parent B2 ∧ b_nodeInts B1 = b_nodeInts B2 ∧
    b_nodeNames B1 = b_nodeNames B2 ∧ b_nodeIDs B1 = b_nodeIDs B2) as Hbf.
  { intros [] []. unfold bus_static_core. cbn. intros [=]. by subst. }
  destruct Hinv. split; cbn; try assumption.
  - intros h Hh. destruct (inv_fresh h Hh) as (?&?&?&?&?&?&?). repeat split; try done.
    + by apply Hb3.
    + by apply Hi3.
    + rewrite lookup_insert_ne; [done|]. intros ->. congruence.
  - intros n N b0 HN Hin. destruct (inv_net_down _ _ _ HN Hin) as (B1 & HB1 & ?).
    destruct (Hb2 _ _ HB1) as (B0 & HB0 & (? & ? & _)%Hbf). exists B0. split; [done|]. congruence.
  - intros b0 B0 n Hl Hp. destruct (Hb1 _ _ Hl) as (B1 & HB1 & (? & Hpp & _)%Hbf).
    rewrite Hpp in Hp. eauto.
  - intros n N HN. eapply IndexOK_ext; [by eauto|]. intros h. unfold key_bus_name.
    destruct (bs' !! h) as [B0|] eqn:Hl.
    + destruct (Hb1 _ _ Hl) as (B1 & -> & (Hn & Hp & _)%Hbf). cbn. by rewrite Hn, Hp.
    + specialize (Hbs h). rewrite Hl in Hbs. by destruct (buses s !! h).
  - intros b0 B0 nd i0 Hl Hni. destruct (Hb1 _ _ Hl) as (B1 & HB1 & (_ & _ & Hx & _)%Hbf).
    rewrite Hx in Hni. destruct (inv_bus_down _ _ _ _ HB1 Hni) as (I1 & HI1 & ? & ?).
    destruct (Hi2 _ _ HI1) as (I0 & HI0 & (? & ? & _)%Hif). exists I0. split; [done|]. split; congruence.
  - intros i0 I0 b0 Hl Hp. destruct (Hi1 _ _ Hl) as (I1 & HI1 & (Hpp & Hn & _)%Hif).
    rewrite Hpp in Hp. destruct (inv_bus_up _ _ _ HI1 Hp) as (B1 & HB1 & ?).
    destruct (Hb2 _ _ HB1) as (B0 & HB0 & (_ & _ & Hx & _)%Hbf). exists B0. split; [done|]. congruence.
  - intros b0 B0 Hl. destruct (Hb1 _ _ Hl) as (B1 & HB1 & (_ & _ & Hx & Hy & _)%Hbf).
    rewrite Hx, Hy. eauto.
  - intros b0 B0 Hl. destruct (Hb1 _ _ Hl) as (B1 & HB1 & (_ & _ & Hx & _ & Hy)%Hbf).
    rewrite Hx, Hy. eauto.
  - intros nd ND k i0 HND Hk0. destruct (inv_node_ifaces _ _ _ _ HND Hk0) as (I1 & HI1 & ? & ?).
    destruct (Hi2 _ _ HI1) as (I0 & HI0 & (? & ? & ? & _)%Hif). exists I0. split; [done|]. split; congruence.
  - intros i0 I0 Hl. destruct (Hi1 _ _ Hl) as (I1 & HI1 & (_ & Hn & _)%Hif). rewrite Hn. eauto.
  - intros i0 I0 b0 Hl Hp. destruct (Hi1 _ _ Hl) as (I1 & HI1 & (Hpp & Hn & _)%Hif).
    rewrite Hpp in Hp. rewrite Hn. eauto.
  - intros i0 I0 m0 Hl Hin. destruct (Hi1 _ _ Hl) as (I1 & HI1 & (_ & _ & _ & Hs & _)%Hif).
    rewrite Hs in Hin. destruct (inv_sent_down _ _ _ HI1 Hin) as (M1 & HM1 & ?).
    destruct (decide (m0 = m)) as [->|]; [|by exists M1; rewrite lookup_insert_ne].
    eexists. rewrite lookup_insert. split; [done|]. simplify_eq. congruence.
  - intros m0 M0 i0 Hl Hsd.
    assert (∃ M1, msgs s !! m0 = Some M1 ∧ m_sender M1 = Some i0) as (M1 & HM1 & Hs1).
    { lookup_cases Hl; [rewrite Hsnd in Hsd|]; eauto. }
    destruct (inv_sent_up _ _ _ HM1 Hs1) as (I1 & HI1 & ?).
    destruct (Hi2 _ _ HI1) as (I0 & HI0 & (_ & _ & _ & ? & _)%Hif). exists I0. split; [done|]. congruence.
  - intros i0 I0 Hl. by apply Hidx.
  - intros i0 I0 Hl. by apply Hidx.
  - intros i0 I0 Hl. by apply Hidx.
  - intros m0 M0 nd i0 Hl Hr.
    assert (∃ M1, msgs s !! m0 = Some M1 ∧ m_receivers M1 !! nd = Some i0) as (M1 & HM1 & Hr1).
    { lookup_cases Hl; [rewrite Hrcv in Hr|]; eauto. }
    destruct (inv_recv_down _ _ _ _ HM1 Hr1) as (I1 & HI1 & ? & ?).
    destruct (Hi2 _ _ HI1) as (I0 & HI0 & (_ & ? & _ & _ & ?)%Hif). exists I0. split; [done|]. split; congruence.
  - intros i0 I0 m0 Hl Hin. destruct (Hi1 _ _ Hl) as (I1 & HI1 & (_ & Hn & _ & _ & Hr)%Hif).
    rewrite Hr in Hin. destruct (inv_recv_up _ _ _ HI1 Hin) as (M1 & HM1 & ?).
    rewrite Hn. destruct (decide (m0 = m)) as [->|]; [|by exists M1; rewrite lookup_insert_ne].
    eexists. rewrite lookup_insert. split; [done|]. simplify_eq. congruence.
Qed.

(* interfaces other than the sender do not see the message *)
Lemma other_iface_keys ms m M M' i0 :
  ms !! m = Some M → m_sender M' = m_sender M → m_sender M ≠ Some i0 →
  ∀ h, key_msg_name (<[m:=M']> ms) i0 h = key_msg_name ms i0 h ∧
       key_msg_id (<[m:=M']> ms) i0 h = key_msg_id ms i0 h ∧
       key_msg_static (<[m:=M']> ms) i0 h = key_msg_static ms i0 h.
Proof.
  intros HM Hs Hne h. destruct (decide (h = m)) as [->|].
  - rewrite key_msg_name_eq, key_msg_id_eq, key_msg_static_eq,
      (key_msg_name_val _ _ _ _ HM), (key_msg_id_val _ _ _ _ HM), (key_msg_static_val _ _ _ _ HM), Hs.
    by rewrite !decide_False.
  - by rewrite key_msg_name_ne, key_msg_id_ne, key_msg_static_ne.
Qed.

(* buses other than the one of the sender do not see the message *)
Lemma other_bus_key ms is m M M' b0 :
  ms !! m = Some M → m_sender M' = m_sender M →
  (∀ i Ii, m_sender M = Some i → is !! i = Some Ii → i_parent Ii ≠ Some b0) →
  ∀ h, key_bus_static (<[m:=M']> ms) is b0 h = key_bus_static ms is b0 h.
Proof.
  intros HM Hs Hne h. destruct (decide (h = m)) as [->|]; [|by apply key_bus_static_msg_ne].
  rewrite key_bus_static_msg_eq, (key_bus_static_val _ _ _ _ _ HM), Hs.
  destruct (m_sender M) as [i|] eqn:Hsd; [|done]. cbn.
  destruct (is !! i) as [Ii|] eqn:HI; [|done]. cbn.
  by rewrite !decide_False by eauto.
Qed.

Ltac reshape s :=
  match goal with
  | |- Inv ?st =>
    replace st with (s <| buses := buses st |> <| ifaces := ifaces st |> <| msgs := msgs st |>)
      by (by destruct s)
  end; cbn.

Lemma core_insert_same {A} (core : A → A) (m : gmap handle A) k x x' :
  m !! k = Some x → core x' = core x → ∀ k0, core <$> <[k:=x']> m !! k0 = core <$> m !! k0.
Proof.
  intros Hk Hc k0. destruct (decide (k0 = k)) as [->|]; [|by rewrite lookup_insert_ne].
  rewrite lookup_insert, Hk. cbn. by rewrite Hc.
Qed.

Lemma inv_msg_update_name s m new : Inv s → Inv (msg_update_name s m new).1.
Proof.
  intros Hinv. unfold msg_update_name.
  destruct (msgs s !! m) as [M|] eqn:HM; [|done].
  destruct (decide (m_name M = new)) as [|Hne]; [done|].
  destruct (m_sender M) as [i|] eqn:Hsnd.
  - destruct (ifaces s !! i) as [Ii|] eqn:HI; [|done].
    destruct (i_sentNames Ii !! new) eqn:Hnm; [done|].
    cbn [fst ok]. reshape s.
    eapply inv_msg_rekey_frame; eauto.
    + by eapply core_insert_same.
    + intros i0 I0 Hl. lookup_cases Hl.
      * split; [|split].
        -- eapply IndexOK_rekey; [by eapply (inv_sent_names s Hinv)|..]; eauto.
           ++ by rewrite (key_msg_name_val _ _ _ _ HM), decide_True.
           ++ rewrite key_msg_name_eq. cbn. by rewrite decide_True.
           ++ intros h Hh. by apply key_msg_name_ne.
        -- eapply IndexOK_ext; [by eapply (inv_sent_ids s Hinv)|]. intros h. by eapply key_msg_id_frame.
        -- eapply IndexOK_ext; [by eapply (inv_sent_static s Hinv)|]. intros h. by eapply key_msg_static_frame.
      * assert (m_sender M ≠ Some i0) as Hx by congruence.
        match goal with |- context [<[m := ?M']> (msgs s)] =>
          pose proof (other_iface_keys (msgs s) m M M' i0 HM eq_refl Hx) as Hk end.
        split; [|split].
        -- eapply IndexOK_ext; [by eapply (inv_sent_names s Hinv)|]. intros h. destruct (Hk h) as (K1 & K2 & K3); exact K1.
        -- eapply IndexOK_ext; [by eapply (inv_sent_ids s Hinv)|]. intros h. destruct (Hk h) as (K1 & K2 & K3); exact K2.
        -- eapply IndexOK_ext; [by eapply (inv_sent_static s Hinv)|]. intros h. destruct (Hk h) as (K1 & K2 & K3); exact K3.
    + intros b0 B0 HB0. eapply IndexOK_ext; [by eapply (inv_bus_static s Hinv)|]. intros h.
      rewrite (key_bus_static_iface_frame _ (ifaces s)) by (by eapply iface_parent_frame).
      by eapply key_bus_static_msg_frame.
  - cbn [fst ok]. reshape s.
    eapply inv_msg_rekey_frame; eauto.
    + intros i0 I0 HI0.
      assert (m_sender M ≠ Some i0) as Hx by congruence.
      match goal with |- context [<[m := ?M']> (msgs s)] =>
          pose proof (other_iface_keys (msgs s) m M M' i0 HM eq_refl Hx) as Hk end.
      split; [|split].
      * eapply IndexOK_ext; [by eapply (inv_sent_names s Hinv)|]. intros h. destruct (Hk h) as (K1 & K2 & K3); exact K1.
      * eapply IndexOK_ext; [by eapply (inv_sent_ids s Hinv)|]. intros h. destruct (Hk h) as (K1 & K2 & K3); exact K2.
      * eapply IndexOK_ext; [by eapply (inv_sent_static s Hinv)|]. intros h. destruct (Hk h) as (K1 & K2 & K3); exact K3.
    + intros b0 B0 HB0. eapply IndexOK_ext; [by eapply (inv_bus_static s Hinv)|]. intros h.
      by eapply key_bus_static_msg_frame.
Qed.

Ltac other_ifaces s Hinv HM Hx :=
  let Hk := fresh "Hk" in
  match goal with
  | |- context [<[?m := ?M']> (msgs s)] =>
    pose proof (other_iface_keys (msgs s) m _ M' _ HM eq_refl Hx) as Hk
  end;
  split; [|split];
  [ eapply IndexOK_ext; [by eapply (inv_sent_names s Hinv)|];
    let h := fresh "h" in intros h; destruct (Hk h) as (K1 & K2 & K3); exact K1
  | eapply IndexOK_ext; [by eapply (inv_sent_ids s Hinv)|];
    let h := fresh "h" in intros h; destruct (Hk h) as (K1 & K2 & K3); exact K2
  | eapply IndexOK_ext; [by eapply (inv_sent_static s Hinv)|];
    let h := fresh "h" in intros h; destruct (Hk h) as (K1 & K2 & K3); exact K3 ].

Lemma inv_msg_update_id s m new : Inv s → Inv (msg_update_id s m new).1.
Proof.
  intros Hinv. unfold msg_update_id.
  destruct (msgs s !! m) as [M|] eqn:HM; [|done].
  destruct (_ && _); [done|].
  destruct (m_sender M) as [i|] eqn:Hsnd.
  - destruct (ifaces s !! i) as [Ii|] eqn:HI; [|done].
    destruct (i_sentIDs Ii !! new) eqn:Hid; [done|].
    destruct (m_hasStatic M) eqn:Hst; cbn [fst ok].
    + (* drops the static CAN-ID *)
      destruct (i_parent Ii) as [b|] eqn:Hpar; cbn [upd_parent_bus].
      * destruct (inv_bus_up s Hinv _ _ _ HI Hpar) as (B & HB & HBi).
        rewrite (alter_as_insert _ _ _ _ HB). reshape s.
        eapply inv_msg_rekey_frame; eauto.
        -- by eapply core_insert_same.
        -- by eapply core_insert_same.
        -- intros i0 I0 Hl. lookup_cases Hl.
           ++ split; [|split].
              ** eapply IndexOK_ext; [by eapply (inv_sent_names s Hinv)|]. intros h. by eapply key_msg_name_frame.
              ** eapply IndexOK_insert; [by eapply (inv_sent_ids s Hinv)|..]; eauto.
                 --- by rewrite (key_msg_id_val _ _ _ _ HM), decide_True, Hst.
                 --- rewrite key_msg_id_eq. cbn. by rewrite decide_True.
                 --- intros h Hh. by apply key_msg_id_ne.
              ** eapply IndexOK_delete; [by eapply (inv_sent_static s Hinv)|..]; eauto.
                 --- by rewrite (key_msg_static_val _ _ _ _ HM), decide_True, Hst.
                 --- rewrite key_msg_static_eq. cbn. by rewrite decide_True.
                 --- intros h Hh. by apply key_msg_static_ne.
           ++ assert (m_sender M ≠ Some i0) as Hx by congruence. other_ifaces s Hinv HM Hx.
        -- intros b0 B0 Hl. lookup_cases Hl.
           ++ eapply IndexOK_delete; [by eapply (inv_bus_static s Hinv)|..].
              ** rewrite (key_bus_static_val _ _ _ _ _ HM), Hsnd. cbn. rewrite HI. cbn.
                 by rewrite decide_True, Hst.
              ** rewrite key_bus_static_msg_eq. cbn. rewrite Hsnd. cbn. rewrite lookup_insert. cbn.
                 by rewrite decide_True.
              ** intros h Hh. rewrite key_bus_static_msg_ne by done.
                 apply key_bus_static_iface_frame. by eapply iface_parent_frame.
           ++ eapply IndexOK_ext; [by eapply (inv_bus_static s Hinv)|]. intros h.
              rewrite (key_bus_static_iface_frame _ (ifaces s)) by (by eapply iface_parent_frame).
              eapply other_bus_key; eauto. intros ?? Hs0 HI0. rewrite Hsnd in Hs0. simplify_eq. congruence.
      * reshape s.
        eapply inv_msg_rekey_frame; eauto.
        -- by eapply core_insert_same.
        -- intros i0 I0 Hl. lookup_cases Hl.
           ++ split; [|split].
              ** eapply IndexOK_ext; [by eapply (inv_sent_names s Hinv)|]. intros h. by eapply key_msg_name_frame.
              ** eapply IndexOK_insert; [by eapply (inv_sent_ids s Hinv)|..]; eauto.
                 --- by rewrite (key_msg_id_val _ _ _ _ HM), decide_True, Hst.
                 --- rewrite key_msg_id_eq. cbn. by rewrite decide_True.
                 --- intros h Hh. by apply key_msg_id_ne.
              ** eapply IndexOK_delete; [by eapply (inv_sent_static s Hinv)|..]; eauto.
                 --- by rewrite (key_msg_static_val _ _ _ _ HM), decide_True, Hst.
                 --- rewrite key_msg_static_eq. cbn. by rewrite decide_True.
                 --- intros h Hh. by apply key_msg_static_ne.
           ++ assert (m_sender M ≠ Some i0) as Hx by congruence. other_ifaces s Hinv HM Hx.
        -- intros b0 B0 HB0. eapply IndexOK_ext; [by eapply (inv_bus_static s Hinv)|]. intros h.
           rewrite (key_bus_static_iface_frame _ (ifaces s)) by (by eapply iface_parent_frame).
           eapply other_bus_key; eauto. intros ?? Hs0 HI0. rewrite Hsnd in Hs0. simplify_eq. congruence.
    + (* generated CAN-ID: the id index is re-keyed *)
      reshape s.
      eapply inv_msg_rekey_frame; eauto.
      * by eapply core_insert_same.
      * intros i0 I0 Hl. lookup_cases Hl.
        -- split; [|split].
           ++ eapply IndexOK_ext; [by eapply (inv_sent_names s Hinv)|]. intros h. by eapply key_msg_name_frame.
           ++ eapply IndexOK_rekey; [by eapply (inv_sent_ids s Hinv)|..]; eauto.
              ** by rewrite (key_msg_id_val _ _ _ _ HM), decide_True, Hst.
              ** rewrite key_msg_id_eq. cbn. by rewrite decide_True.
              ** intros h Hh. by apply key_msg_id_ne.
           ++ eapply IndexOK_ext; [by eapply (inv_sent_static s Hinv)|]. intros h.
              destruct (decide (h = m)) as [->|]; [|by apply key_msg_static_ne].
              rewrite key_msg_static_eq, (key_msg_static_val _ _ _ _ HM). cbn. rewrite Hst.
              by repeat case_decide.
        -- assert (m_sender M ≠ Some i0) as Hx by congruence. other_ifaces s Hinv HM Hx.
      * intros b0 B0 HB0. eapply IndexOK_ext; [by eapply (inv_bus_static s Hinv)|]. intros h.
        rewrite (key_bus_static_iface_frame _ (ifaces s)) by (by eapply iface_parent_frame).
        destruct (decide (h = m)) as [->|]; [|by apply key_bus_static_msg_ne].
        rewrite key_bus_static_msg_eq, (key_bus_static_val _ _ _ _ _ HM). cbn. rewrite Hst, Hsnd. cbn.
        rewrite HI. cbn. by repeat case_decide.
  - cbn [fst ok]. reshape s.
    eapply inv_msg_rekey_frame; eauto.
    + intros i0 I0 HI0. assert (m_sender M ≠ Some i0) as Hx by congruence. other_ifaces s Hinv HM Hx.
    + intros b0 B0 HB0. eapply IndexOK_ext; [by eapply (inv_bus_static s Hinv)|]. intros h.
      eapply other_bus_key; eauto. intros ?? Hs0. congruence.
Qed.

Lemma inv_msg_set_static s m c : Inv s → Inv (msg_set_static s m c).1.
Proof.
  intros Hinv. unfold msg_set_static.
  destruct (msgs s !! m) as [M|] eqn:HM; [|done].
  destruct (m_sender M) as [i|] eqn:Hsnd.
  - destruct (ifaces s !! i) as [Ii|] eqn:HI; [|done].
    destruct (i_sentStatic Ii !! c) eqn:Hss; [done|].
    destruct (parent_bus_static_taken s (i_parent Ii) c) eqn:Htk; [done|].
    assert (∀ b B, i_parent Ii = Some b → buses s !! b = Some B → b_static B !! c = None) as Hfree.
    { intros b B Hp HB. rewrite Hp in Htk. cbn in Htk. rewrite HB in Htk. apply bool_decide_eq_false in Htk.
      destruct (b_static B !! c) eqn:Hx; [|done]. exfalso. apply Htk. by eexists. }
    destruct (m_hasStatic M) eqn:Hst; cbn [fst ok].
    + (* replaces a static CAN-ID *)
      destruct (i_parent Ii) as [b|] eqn:Hpar; cbn [upd_parent_bus].
      * destruct (inv_bus_up s Hinv _ _ _ HI Hpar) as (B & HB & HBi).
        rewrite (alter_as_insert _ _ _ _ HB). reshape s.
        eapply inv_msg_rekey_frame; eauto.
        -- by eapply core_insert_same.
        -- by eapply core_insert_same.
        -- intros i0 I0 Hl. lookup_cases Hl.
           ++ split; [|split].
              ** eapply IndexOK_ext; [by eapply (inv_sent_names s Hinv)|]. intros h. by eapply key_msg_name_frame.
              ** eapply IndexOK_ext; [by eapply (inv_sent_ids s Hinv)|]. intros h.
                 destruct (decide (h = m)) as [->|]; [|by apply key_msg_id_ne].
                 rewrite key_msg_id_eq, (key_msg_id_val _ _ _ _ HM). cbn. rewrite Hst.
                 by repeat case_decide.
              ** eapply IndexOK_rekey; [by eapply (inv_sent_static s Hinv)|..]; eauto.
                 --- by rewrite (key_msg_static_val _ _ _ _ HM), decide_True, Hst.
                 --- rewrite key_msg_static_eq. cbn. by rewrite decide_True.
                 --- intros h Hh. by apply key_msg_static_ne.
           ++ assert (m_sender M ≠ Some i0) as Hx by congruence. other_ifaces s Hinv HM Hx.
        -- intros b0 B0 Hl. lookup_cases Hl.
           ++ eapply IndexOK_rekey; [by eapply (inv_bus_static s Hinv)|..]; eauto.
              ** rewrite (key_bus_static_val _ _ _ _ _ HM), Hsnd. cbn. rewrite HI. cbn.
                 by rewrite decide_True, Hst.
              ** rewrite key_bus_static_msg_eq. cbn. rewrite Hsnd. cbn. rewrite lookup_insert. cbn.
                 by rewrite decide_True.
              ** intros h Hh. rewrite key_bus_static_msg_ne by done.
                 apply key_bus_static_iface_frame. by eapply iface_parent_frame.
           ++ eapply IndexOK_ext; [by eapply (inv_bus_static s Hinv)|]. intros h.
              rewrite (key_bus_static_iface_frame _ (ifaces s)) by (by eapply iface_parent_frame).
              eapply other_bus_key; eauto. intros ?? Hs0 HI0. rewrite Hsnd in Hs0. simplify_eq. congruence.
      * reshape s.
        eapply inv_msg_rekey_frame; eauto.
        -- by eapply core_insert_same.
        -- intros i0 I0 Hl. lookup_cases Hl.
           ++ split; [|split].
              ** eapply IndexOK_ext; [by eapply (inv_sent_names s Hinv)|]. intros h. by eapply key_msg_name_frame.
              ** eapply IndexOK_ext; [by eapply (inv_sent_ids s Hinv)|]. intros h.
                 destruct (decide (h = m)) as [->|]; [|by apply key_msg_id_ne].
                 rewrite key_msg_id_eq, (key_msg_id_val _ _ _ _ HM). cbn. rewrite Hst.
                 by repeat case_decide.
              ** eapply IndexOK_rekey; [by eapply (inv_sent_static s Hinv)|..]; eauto.
                 --- by rewrite (key_msg_static_val _ _ _ _ HM), decide_True, Hst.
                 --- rewrite key_msg_static_eq. cbn. by rewrite decide_True.
                 --- intros h Hh. by apply key_msg_static_ne.
           ++ assert (m_sender M ≠ Some i0) as Hx by congruence. other_ifaces s Hinv HM Hx.
        -- intros b0 B0 HB0. eapply IndexOK_ext; [by eapply (inv_bus_static s Hinv)|]. intros h.
           rewrite (key_bus_static_iface_frame _ (ifaces s)) by (by eapply iface_parent_frame).
           eapply other_bus_key; eauto. intros ?? Hs0 HI0. rewrite Hsnd in Hs0. simplify_eq. congruence.
    + (* first static CAN-ID: leaves the id index, enters the static indexes *)
      destruct (i_parent Ii) as [b|] eqn:Hpar; cbn [upd_parent_bus].
      * destruct (inv_bus_up s Hinv _ _ _ HI Hpar) as (B & HB & HBi).
        rewrite (alter_as_insert _ _ _ _ HB). reshape s.
        eapply inv_msg_rekey_frame; eauto.
        -- by eapply core_insert_same.
        -- by eapply core_insert_same.
        -- intros i0 I0 Hl. lookup_cases Hl.
           ++ split; [|split].
              ** eapply IndexOK_ext; [by eapply (inv_sent_names s Hinv)|]. intros h. by eapply key_msg_name_frame.
              ** eapply IndexOK_delete; [by eapply (inv_sent_ids s Hinv)|..]; eauto.
                 --- by rewrite (key_msg_id_val _ _ _ _ HM), decide_True, Hst.
                 --- rewrite key_msg_id_eq. cbn. by rewrite decide_True.
                 --- intros h Hh. by apply key_msg_id_ne.
              ** eapply IndexOK_insert; [by eapply (inv_sent_static s Hinv)|..]; eauto.
                 --- by rewrite (key_msg_static_val _ _ _ _ HM), decide_True, Hst.
                 --- rewrite key_msg_static_eq. cbn. by rewrite decide_True.
                 --- intros h Hh. by apply key_msg_static_ne.
           ++ assert (m_sender M ≠ Some i0) as Hx by congruence. other_ifaces s Hinv HM Hx.
        -- intros b0 B0 Hl. lookup_cases Hl.
           ++ eapply IndexOK_insert; [by eapply (inv_bus_static s Hinv)|..]; eauto.
              ** rewrite (key_bus_static_val _ _ _ _ _ HM), Hsnd. cbn. rewrite HI. cbn.
                 by rewrite decide_True, Hst.
              ** rewrite key_bus_static_msg_eq. cbn. rewrite Hsnd. cbn. rewrite lookup_insert. cbn.
                 by rewrite decide_True.
              ** intros h Hh. rewrite key_bus_static_msg_ne by done.
                 apply key_bus_static_iface_frame. by eapply iface_parent_frame.
           ++ eapply IndexOK_ext; [by eapply (inv_bus_static s Hinv)|]. intros h.
              rewrite (key_bus_static_iface_frame _ (ifaces s)) by (by eapply iface_parent_frame).
              eapply other_bus_key; eauto. intros ?? Hs0 HI0. rewrite Hsnd in Hs0. simplify_eq. congruence.
      * reshape s.
        eapply inv_msg_rekey_frame; eauto.
        -- by eapply core_insert_same.
        -- intros i0 I0 Hl. lookup_cases Hl.
           ++ split; [|split].
              ** eapply IndexOK_ext; [by eapply (inv_sent_names s Hinv)|]. intros h. by eapply key_msg_name_frame.
              ** eapply IndexOK_delete; [by eapply (inv_sent_ids s Hinv)|..]; eauto.
                 --- by rewrite (key_msg_id_val _ _ _ _ HM), decide_True, Hst.
                 --- rewrite key_msg_id_eq. cbn. by rewrite decide_True.
                 --- intros h Hh. by apply key_msg_id_ne.
              ** eapply IndexOK_insert; [by eapply (inv_sent_static s Hinv)|..]; eauto.
                 --- by rewrite (key_msg_static_val _ _ _ _ HM), decide_True, Hst.
                 --- rewrite key_msg_static_eq. cbn. by rewrite decide_True.
                 --- intros h Hh. by apply key_msg_static_ne.
           ++ assert (m_sender M ≠ Some i0) as Hx by congruence. other_ifaces s Hinv HM Hx.
        -- intros b0 B0 HB0. eapply IndexOK_ext; [by eapply (inv_bus_static s Hinv)|]. intros h.
           rewrite (key_bus_static_iface_frame _ (ifaces s)) by (by eapply iface_parent_frame).
           eapply other_bus_key; eauto. intros ?? Hs0 HI0. rewrite Hsnd in Hs0. simplify_eq. congruence.
  - cbn [fst ok]. reshape s.
    eapply inv_msg_rekey_frame; eauto.
    + intros i0 I0 HI0. assert (m_sender M ≠ Some i0) as Hx by congruence. other_ifaces s Hinv HM Hx.
    + intros b0 B0 HB0. eapply IndexOK_ext; [by eapply (inv_bus_static s Hinv)|]. intros h.
      eapply other_bus_key; eauto. intros ?? Hs0. congruence.
Qed.
