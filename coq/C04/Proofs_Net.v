(* C04/C05 — invariant preservation: Network.AddBus / RemoveBus / RemoveAllBuses, Bus.UpdateName. *)
From Acme.C04 Require Import ProofsTac.

Lemma inv_net_add_bus s n ob : Inv s → op_ok s (NetAddBus n ob) → Inv (net_add_bus s n ob).1.
Proof.
  intros Hinv Hok. unfold net_add_bus.
  destruct (nets s !! n) as [N|] eqn:HN; [|done].
  destruct ob as [b|]; [|done].
  destruct (buses s !! b) as [B|] eqn:HB; [|done].
  destruct (n_busNames N !! b_name B) eqn:Hnm; [done|].
  cbn [fst ok]. cbn in Hok. specialize (Hok B HB).
  (* the bus is not yet a child of n: otherwise its name would be registered *)
  assert (key_bus_name (buses s) n b = None) as Hkb.
  { pose proof (IndexOK_free _ _ _ (inv_net_names s Hinv n N HN) Hnm b) as Hf.
    rewrite (key_bus_name_val _ _ _ _ HB) in *. destruct (decide _); [by exfalso; apply Hf|done]. }
  assert (b_parent B = None) as Hpar.
  { destruct Hok as [?|Hp]; [done|]. rewrite (key_bus_name_val _ _ _ _ HB), decide_True in Hkb; done. }
  destruct Hinv. split; cbn; try assumption; try (inv_auto; fail).
  - fresh_tac inv_fresh.
  - intros n0 N0 b0 Hl Hin. lookup_cases Hl.
    + apply elem_of_union in Hin as [->%elem_of_singleton|Hin].
      * eexists. by rewrite lookup_insert.
      * destruct (inv_net_down _ _ _ HN Hin) as (B0 & HB0 & Hp0).
        exists B0. rewrite lookup_insert_ne; [done|]. intros ->. congruence.
    + destruct (inv_net_down _ _ _ Hl Hin) as (B0 & HB0 & Hp0).
      exists B0. rewrite lookup_insert_ne; [done|]. intros ->. congruence.
  - intros b0 B0 n0 Hl Hp0. lookup_cases Hl.
    + eexists. rewrite lookup_insert. split; [done|]. set_solver.
    + destruct (inv_net_up _ _ _ Hl Hp0) as (N0 & HN0 & Hin).
      destruct (decide (n0 = n)) as [->|].
      * eexists. rewrite lookup_insert. split; [done|]. simplify_eq. set_solver.
      * exists N0. by rewrite lookup_insert_ne.
  - intros n0 N0 Hl. lookup_cases Hl.
    + eapply IndexOK_insert; eauto.
      * by rewrite key_bus_name_eq, decide_True.
      * intros h Hh. by apply key_bus_name_ne.
    + eapply IndexOK_ext; [by eauto|]. intros h.
      destruct (decide (h = b)) as [->|]; [|by apply key_bus_name_ne].
      rewrite key_bus_name_eq, (key_bus_name_val _ _ _ _ HB), Hpar. cbn.
      repeat case_decide; congruence.
  - inv_ex inv_bus_up.
Qed.

Lemma inv_net_remove_bus s n key : Inv s → Inv (net_remove_bus s n key).1.
Proof.
  intros Hinv. unfold net_remove_bus.
  destruct (nets s !! n) as [N|] eqn:HN; [|done].
  destruct (decide (key ∈ n_buses N)) as [Hin|]; [|done].
  destruct (buses s !! key) as [B|] eqn:HB; [|done].
  cbn [fst ok].
  destruct (inv_net_down s Hinv _ _ _ HN Hin) as (B0 & HB0 & Hpar). simplify_eq.
  destruct Hinv. split; cbn; try assumption; try (inv_auto; fail).
  - fresh_tac inv_fresh.
  - intros n0 N0 b0 Hl Hin0. lookup_cases Hl.
    + apply elem_of_difference in Hin0 as [Hin0 Hne%not_elem_of_singleton].
      destruct (inv_net_down _ _ _ HN Hin0) as (B0 & HB0 & Hp0).
      exists B0. by rewrite lookup_insert_ne.
    + destruct (inv_net_down _ _ _ Hl Hin0) as (B0 & HB0 & Hp0).
      exists B0. rewrite lookup_insert_ne; [done|]. intros ->. congruence.
  - intros b0 B0 n0 Hl Hp0. lookup_cases Hl.
    destruct (inv_net_up _ _ _ Hl Hp0) as (N0 & HN0 & Hin0).
    destruct (decide (n0 = n)) as [->|].
    + eexists. rewrite lookup_insert. split; [done|]. simplify_eq. set_solver.
    + exists N0. by rewrite lookup_insert_ne.
  - intros n0 N0 Hl. lookup_cases Hl.
    + eapply IndexOK_delete; eauto.
      * by rewrite (key_bus_name_val _ _ _ _ HB), decide_True.
      * by rewrite key_bus_name_eq.
      * intros h Hh. by apply key_bus_name_ne.
    + eapply IndexOK_ext; [by eauto|]. intros h.
      destruct (decide (h = key)) as [->|]; [|by apply key_bus_name_ne].
      rewrite key_bus_name_eq, (key_bus_name_val _ _ _ _ HB). cbn.
      repeat case_decide; congruence.
  - inv_ex inv_bus_up.
Qed.

Lemma inv_net_remove_all_buses s n : Inv s → Inv (net_remove_all_buses s n).1.
Proof.
  intros Hinv. unfold net_remove_all_buses.
  destruct (nets s !! n) as [N|] eqn:HN; [|done].
  cbn [fst ok].
  set (f := λ B : bus_rec, B <| b_parent := None |>).
  assert (∀ x, f (f x) = f x) as Hf by done.
  (* the buses of n are exactly those with parent n *)
  assert (∀ b B, buses s !! b = Some B → (b ∈ elements (n_buses N) ↔ b_parent B = Some n)) as Hkids.
  { intros b B HB. rewrite elem_of_elements. split.
    - intros Hin. destruct (inv_net_down s Hinv _ _ _ HN Hin) as (B0 & HB0 & ?). by simplify_eq.
    - intros Hp. destruct (inv_net_up s Hinv _ _ _ HB Hp) as (N0 & HN0 & ?). by simplify_eq. }
  assert (∀ b B', alter_all f (elements (n_buses N)) (buses s) !! b = Some B' →
     ∃ B, buses s !! b = Some B ∧
          ((b_parent B = Some n ∧ B' = f B) ∨ (b_parent B ≠ Some n ∧ B' = B))) as Hlk.
  { intros b B'. rewrite lookup_alter_all by done. case_decide as Hd.
    - destruct (buses s !! b) as [B|] eqn:HB; [|done]. intros [= <-].
      exists B. split; [done|]. left. split; [|done]. by apply (Hkids b B HB).
    - intros HB. exists B'. split; [done|]. right. split; [|done]. by rewrite <- (Hkids b B' HB). }
  destruct Hinv. split; cbn; try assumption.
  - intros h Hh. destruct (inv_fresh h Hh) as (?&?&?&?&?&?&?). repeat split; try done.
    + rewrite lookup_insert_ne; [done | intros ->; congruence].
    + rewrite lookup_alter_all by done. case_decide; [|done]. by rewrite H0.
  - intros n0 N0 b0 Hl Hin0. lookup_cases Hl; [set_solver|].
    destruct (inv_net_down _ _ _ Hl Hin0) as (B0 & HB0 & Hp0).
    exists B0. rewrite lookup_alter_all by done. rewrite decide_False; [done|].
    rewrite (Hkids _ _ HB0). congruence.
  - intros b0 B0 n0 Hl Hp0. apply Hlk in Hl as (B & HB & [[? ->]|[? ->]]); [done|].
    destruct (inv_net_up _ _ _ HB Hp0) as (N0 & HN0 & Hin0).
    exists N0. rewrite lookup_insert_ne; [done|congruence].
  - intros n0 N0 Hl. lookup_cases Hl.
    + apply IndexOK_empty. intros h. unfold key_bus_name.
      destruct (alter_all f _ _ !! h) as [B'|] eqn:HB'; [|done]. cbn.
      apply Hlk in HB' as (B & HB & [[? ->]|[? ->]]); cbn; by rewrite decide_False.
    + eapply IndexOK_ext; [by eauto|]. intros h. unfold key_bus_name.
      rewrite lookup_alter_all by done. case_decide as Hd; [|done].
      destruct (buses s !! h) as [B|] eqn:HB; [|done]. cbn.
      apply (Hkids _ _ HB) in Hd. rewrite Hd. by rewrite !decide_False by congruence.
  - intros b B nd i Hl. apply Hlk in Hl as (B0 & HB & [[? ->]|[? ->]]); cbn; eauto.
  - intros i Ii b Hi Hp. destruct (inv_bus_up _ _ _ Hi Hp) as (B & HB & ?).
    rewrite lookup_alter_all by done. case_decide; rewrite HB; cbn; eauto.
  - intros b B Hl. apply Hlk in Hl as (B0 & HB & [[? ->]|[? ->]]); cbn; eauto.
  - intros b B Hl. apply Hlk in Hl as (B0 & HB & [[? ->]|[? ->]]); cbn; eauto.
  - intros b B Hl. apply Hlk in Hl as (B0 & HB & [[? ->]|[? ->]]); cbn; eauto.
Qed.

Lemma inv_bus_update_name s b new : Inv s → Inv (bus_update_name s b new).1.
Proof.
  intros Hinv. unfold bus_update_name.
  destruct (buses s !! b) as [B|] eqn:HB; [|done].
  destruct (decide (b_name B = new)) as [|Hne]; [done|].
  destruct (b_parent B) as [n|] eqn:Hpar.
  - destruct (nets s !! n) as [N|] eqn:HN; [|done].
    destruct (n_busNames N !! new) eqn:Hnm; [done|].
    cbn [fst ok].
    destruct Hinv. split; cbn; try assumption; try (inv_auto; fail).
    + fresh_tac inv_fresh.
    + intros n0 N0 b0 Hl Hin. lookup_cases Hl.
      * destruct (inv_net_down _ _ _ HN Hin) as (B0 & HB0 & Hp0).
        destruct (decide (b0 = b)) as [->|]; [|by exists B0; rewrite lookup_insert_ne].
        eexists. rewrite lookup_insert. split; [done|]. by simplify_eq.
      * destruct (inv_net_down _ _ _ Hl Hin) as (B0 & HB0 & Hp0).
        destruct (decide (b0 = b)) as [->|]; [|by exists B0; rewrite lookup_insert_ne].
        eexists. rewrite lookup_insert. split; [done|]. by simplify_eq.
    + intros b0 B0 n0 Hl Hp0. lookup_cases Hl.
      * eexists. rewrite lookup_insert. split; [done|].
        cbn. destruct (inv_net_up _ _ _ HB Hpar) as (N0 & ? & ?). by simplify_eq.
      * destruct (inv_net_up _ _ _ Hl Hp0) as (N0 & HN0 & Hin).
        destruct (decide (n0 = n)) as [->|]; [|by exists N0; rewrite lookup_insert_ne].
        eexists. rewrite lookup_insert. split; [done|]. by simplify_eq.
    + intros n0 N0 Hl. lookup_cases Hl.
      * eapply IndexOK_rekey; eauto.
        -- by rewrite (key_bus_name_val _ _ _ _ HB), decide_True.
        -- rewrite key_bus_name_eq. cbn. by rewrite decide_True.
        -- intros h Hh. by apply key_bus_name_ne.
      * eapply IndexOK_ext; [by eauto|]. intros h.
        destruct (decide (h = b)) as [->|]; [|by apply key_bus_name_ne].
        rewrite key_bus_name_eq, (key_bus_name_val _ _ _ _ HB). cbn. rewrite Hpar.
        repeat case_decide; congruence.
    + inv_ex inv_bus_up.
  - cbn [fst ok].
    destruct Hinv. split; cbn; try assumption; try (inv_auto; fail).
    + fresh_tac inv_fresh.
    + intros n0 N0 b0 HN0 Hin. destruct (inv_net_down _ _ _ HN0 Hin) as (B0 & HB0 & Hp0).
      exists B0. rewrite lookup_insert_ne; [done|]. intros ->. congruence.
    + intros n0 N0 HN0. eapply IndexOK_ext; [by eauto|]. intros h.
      destruct (decide (h = b)) as [->|]; [|by apply key_bus_name_ne].
      rewrite key_bus_name_eq, (key_bus_name_val _ _ _ _ HB). cbn. rewrite Hpar.
      repeat case_decide; congruence.
    + inv_ex inv_bus_up.
Qed.
