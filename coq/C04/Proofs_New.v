(* C04/C05 — the initial state and the constructors. *)
From Acme.C04 Require Import ProofsTac.
From Coq Require Import Lia.

Lemma inv_init : Inv init.
Proof.
  split; cbn; intros; try (rewrite lookup_empty in *; done).
Qed.

(* allocation: the new handle is unused in every heap, and freshness is kept *)
Lemma fresh_next s : Inv s →
  nets s !! next s = None ∧ buses s !! next s = None ∧ nodes s !! next s = None ∧ ifaces s !! next s = None ∧
  msgs s !! next s = None ∧ enums s !! next s = None ∧ evals s !! next s = None.
Proof. intros Hinv. apply (inv_fresh s Hinv). lia. Qed.

Ltac fresh_alloc Hf :=
  intros h Hh; destruct (Hf h ltac:(lia)) as (?&?&?&?&?&?&?); repeat split; try done;
  (rewrite lookup_insert_ne; [done | lia]).

Lemma inv_new_other s : Inv s → Inv (new_other s).1.
Proof.
  intros Hinv. unfold new_other, alloc. cbn.
  destruct Hinv. split; cbn; try assumption.
  intros h Hh. apply inv_fresh. lia.
Qed.

Lemma inv_new_network s : Inv s → Inv (new_network s).1.
Proof.
  intros Hinv. destruct (fresh_next s Hinv) as (Hn&Hb&Hnd&Hi&Hm&He&Hv).
  unfold new_network, alloc. cbn.
  destruct Hinv. split; cbn; try assumption; try (inv_auto; fail).
  - fresh_alloc inv_fresh.
  - intros n N b Hl Hin. lookup_cases Hl; [set_solver|eauto].
  - inv_ex inv_net_up.
  - intros n N Hl. lookup_cases Hl; [|eauto]. apply IndexOK_empty.
    intros h. unfold key_bus_name. destruct (buses s !! h) as [B|] eqn:HB; [|done]. cbn.
    case_decide as Hp; [|done]. destruct (inv_net_up _ _ _ HB Hp) as (? & ? & ?). congruence.
Qed.

Lemma inv_new_bus s nm : Inv s → Inv (new_bus s nm).1.
Proof.
  intros Hinv. destruct (fresh_next s Hinv) as (Hn&Hb&Hnd&Hi&Hm&He&Hv).
  unfold new_bus, alloc. cbn.
  destruct Hinv. split; cbn; try assumption; try (inv_auto; fail).
  - fresh_alloc inv_fresh.
  - inv_ex inv_net_down.
  - intros n N HN. eapply IndexOK_ext; [by eauto|]. intros h.
    destruct (decide (h = next s)) as [->|]; [|by apply key_bus_name_ne].
    rewrite key_bus_name_eq. unfold key_bus_name. by rewrite Hb.
  - inv_ex inv_bus_up.
  - intros b B Hl. lookup_cases Hl; [|eauto]. apply IndexOK_empty. intros h. unfold key_node_name.
    rewrite decide_False; [done|]. rewrite lookup_empty. by intros [??].
  - intros b B Hl. lookup_cases Hl; [|eauto]. apply IndexOK_empty. intros h. unfold key_node_id.
    rewrite decide_False; [done|]. rewrite lookup_empty. by intros [??].
  - intros b B Hl. lookup_cases Hl; [|eauto]. apply IndexOK_empty. intros h. unfold key_bus_static.
    destruct (msgs s !! h) as [M|] eqn:HM; [|done]. cbn.
    destruct (m_sender M) as [i|] eqn:Hs; [|done]. cbn.
    destruct (ifaces s !! i) as [Ii|] eqn:HI; [|done]. cbn.
    case_decide as Hp; [|done]. destruct (inv_bus_up _ _ _ HI Hp) as (? & ? & ?). congruence.
Qed.

Lemma inv_new_message s nm id sz : Inv s → Inv (new_message s nm id sz).1.
Proof.
  intros Hinv. destruct (fresh_next s Hinv) as (Hn&Hb&Hnd&Hi&Hm&He&Hv).
  unfold new_message, alloc. cbn.
  (* nobody refers to the new handle *)
  assert (∀ i Ii, ifaces s !! i = Some Ii → next s ∉ i_sent Ii) as Hns.
  { intros i Ii HI Hin. destruct (inv_sent_down s Hinv _ _ _ HI Hin) as (? & ? & ?). congruence. }
  destruct Hinv. split; cbn; try assumption; try (inv_auto; fail).
  - fresh_alloc inv_fresh.
  - intros b B HB. eapply IndexOK_ext; [by eauto|]. intros h. unfold key_bus_static.
    destruct (decide (h = next s)) as [->|]; [|by rewrite lookup_insert_ne].
    by rewrite lookup_insert, Hm.
  - inv_ex inv_sent_down.
  - intros i Ii HI. eapply IndexOK_ext; [by eauto|]. intros h.
    destruct (decide (h = next s)) as [->|]; [|by apply key_msg_name_ne].
    rewrite key_msg_name_eq. unfold key_msg_name. by rewrite Hm.
  - intros i Ii HI. eapply IndexOK_ext; [by eauto|]. intros h.
    destruct (decide (h = next s)) as [->|]; [|by apply key_msg_id_ne].
    rewrite key_msg_id_eq. unfold key_msg_id. by rewrite Hm.
  - intros i Ii HI. eapply IndexOK_ext; [by eauto|]. intros h.
    destruct (decide (h = next s)) as [->|]; [|by apply key_msg_static_ne].
    rewrite key_msg_static_eq. unfold key_msg_static. by rewrite Hm.
  - inv_ex inv_recv_up.
Qed.

Lemma inv_new_enum s : Inv s → Inv (new_enum s).1.
Proof.
  intros Hinv. destruct (fresh_next s Hinv) as (Hn&Hb&Hnd&Hi&Hm&He&Hv).
  unfold new_enum, alloc. cbn.
  destruct Hinv. split; cbn; try assumption; try (inv_auto; fail).
  - fresh_alloc inv_fresh.
  - intros e E v Hl Hin. lookup_cases Hl; [set_solver|eauto].
  - inv_ex inv_enum_up.
  - intros e E Hl. lookup_cases Hl; [|eauto]. apply IndexOK_empty.
    intros h. unfold key_eval_name. destruct (evals s !! h) as [V|] eqn:HV; [|done]. cbn.
    case_decide as Hp; [|done]. destruct (inv_enum_up _ _ _ HV Hp) as (? & ? & ?). congruence.
  - intros e E Hl. lookup_cases Hl; [|eauto]. apply IndexOK_empty.
    intros h. unfold key_eval_index. destruct (evals s !! h) as [V|] eqn:HV; [|done]. cbn.
    case_decide as Hp; [|done]. destruct (inv_enum_up _ _ _ HV Hp) as (? & ? & ?). congruence.
Qed.

Lemma inv_new_enum_value s nm idx : Inv s → Inv (new_enum_value s nm idx).1.
Proof.
  intros Hinv. destruct (fresh_next s Hinv) as (Hn&Hb&Hnd&Hi&Hm&He&Hv).
  unfold new_enum_value, alloc. cbn.
  assert (∀ e E, enums s !! e = Some E → next s ∉ e_values E) as Hns.
  { intros e E HE Hin. destruct (inv_enum_down s Hinv _ _ _ HE Hin) as (? & ? & ?). congruence. }
  destruct Hinv. split; cbn; try assumption; try (inv_auto; fail).
  - fresh_alloc inv_fresh.
  - inv_ex inv_enum_down.
  - intros e E HE. eapply IndexOK_ext; [by eauto|]. intros h.
    destruct (decide (h = next s)) as [->|]; [|by apply key_eval_name_ne].
    rewrite key_eval_name_eq. unfold key_eval_name. by rewrite Hv.
  - intros e E HE. eapply IndexOK_ext; [by eauto|]. intros h.
    destruct (decide (h = next s)) as [->|]; [|by apply key_eval_index_ne].
    rewrite key_eval_index_eq. unfold key_eval_index. by rewrite Hv.
  - intros e E HE. erewrite inv_enum_max by eauto. symmetry. apply max_index_ext. intros x Hx.
    rewrite lookup_insert_ne; [done|]. intros <-. apply elem_of_elements in Hx. by apply (Hns e E).
Qed.
