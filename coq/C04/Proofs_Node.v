(* C04/C05 — invariant preservation: Node.UpdateName / UpdateID. *)
From Acme.C04 Require Import ProofsTac.

Definition bus_nm_core (B : bus_rec) : bus_rec := B <| b_nodeNames := ∅ |> <| b_nodeIDs := ∅ |>.

Lemma core_lookup'' {A} (core : A → A) (m' m : gmap handle A) :
  (∀ k, core <$> m' !! k = core <$> m !! k) →
  (∀ k x', m' !! k = Some x' → ∃ x, m !! k = Some x ∧ core x' = core x) ∧
  (∀ k x, m !! k = Some x → ∃ x', m' !! k = Some x' ∧ core x' = core x) ∧
  (∀ k, m !! k = None → m' !! k = None).
Proof.
  intros Hc. split; [|split].
  - intros k x' Hl. specialize (Hc k). rewrite Hl in Hc. destruct (m !! k) as [x|]; [|done].
    exists x. split; [done|]. by apply (inj Some).
  - intros k x Hl. specialize (Hc k). rewrite Hl in Hc. destruct (m' !! k) as [x'|]; [|done].
    exists x'. split; [done|]. by apply (inj Some).
  - intros k Hl. specialize (Hc k). rewrite Hl in Hc. by destruct (m' !! k).
Qed.

(* A node changes its name / id: only the two node indexes of buses are rewritten. *)
Lemma inv_node_rekey_frame s nd ND ND' bs' :
  Inv s → nodes s !! nd = Some ND → nd_ifaces ND' = nd_ifaces ND → nd_count ND' = nd_count ND →
  (∀ b0, bus_nm_core <$> bs' !! b0 = bus_nm_core <$> buses s !! b0) →
  (∀ b B, bs' !! b = Some B → IndexOK (key_node_name (<[nd:=ND']> (nodes s)) (b_nodeInts B)) (b_nodeNames B)) →
  (∀ b B, bs' !! b = Some B → IndexOK (key_node_id (<[nd:=ND']> (nodes s)) (b_nodeInts B)) (b_nodeIDs B)) →
  Inv (s <| buses := bs' |> <| nodes := <[nd:=ND']> (nodes s) |>).
Proof.
  intros Hinv HND Hif Hct Hbs Hbn Hbi.
  destruct (core_lookup'' _ _ _ Hbs) as (Hb1 & Hb2 & Hb3).
  assert (∀ B1 B2, bus_nm_core B1 = bus_nm_core B2 →
    b_name B1 = b_name B2 ∧ b_parent B1 = b_parent B2 ∧ b_nodeInts B1 = b_nodeInts B2 ∧ b_static B1 = b_static B2) as Hbf.
  { intros [] []. unfold bus_nm_core. cbn. intros [=]. by subst. }
  destruct Hinv. split; cbn; try assumption.
  - intros h Hh. destruct (inv_fresh h Hh) as (?&?&?&?&?&?&?). repeat split; try done.
    + by apply Hb3.
    + rewrite lookup_insert_ne; [done|]. intros ->. congruence.
  - intros n N b0 HN Hin. destruct (inv_net_down _ _ _ HN Hin) as (B1 & HB1 & ?).
    destruct (Hb2 _ _ HB1) as (B0 & HB0 & (? & ? & _)%Hbf). exists B0. split; [done|]. congruence.
  - intros b0 B0 n Hl Hp. destruct (Hb1 _ _ Hl) as (B1 & HB1 & (? & Hpp & _)%Hbf).
    rewrite Hpp in Hp. eauto.
  - intros n N HN. eapply IndexOK_ext; [by eauto|]. intros h. unfold key_bus_name.
    destruct (bs' !! h) as [B0|] eqn:Hl.
    + destruct (Hb1 _ _ Hl) as (B1 & -> & (Hn & Hp & _)%Hbf). cbn. by rewrite Hn, Hp.
    + specialize (Hbs h). rewrite Hl in Hbs. by destruct (buses s !! h).
  - intros b0 B0 nd0 i0 Hl Hni. destruct (Hb1 _ _ Hl) as (B1 & HB1 & (_ & _ & Hx & _)%Hbf).
    rewrite Hx in Hni. eauto.
  - intros i0 I0 b0 HI0 Hp. destruct (inv_bus_up _ _ _ HI0 Hp) as (B1 & HB1 & ?).
    destruct (Hb2 _ _ HB1) as (B0 & HB0 & (_ & _ & Hx & _)%Hbf). exists B0. split; [done|]. congruence.
  - intros b0 B0 Hl. destruct (Hb1 _ _ Hl) as (B1 & HB1 & (_ & _ & _ & Hx)%Hbf). rewrite Hx. eauto.
  - intros nd0 ND0 Hl. lookup_cases Hl; [rewrite Hct, Hif|]; eauto.
  - intros nd0 ND0 k i0 Hl Hk. lookup_cases Hl; [rewrite Hif in Hk|]; eauto.
  - intros i0 I0 HI0. destruct (inv_iface_node _ _ HI0) as [ND0 HND0].
    destruct (decide (i_node I0 = nd)) as [->|]; [by rewrite lookup_insert|by rewrite lookup_insert_ne].
  - intros i0 I0 b0 HI0 Hp. destruct (inv_attached_live _ _ _ HI0 Hp) as (ND0 & HND0 & Hin).
    destruct (decide (i_node I0 = nd)) as [Heq|]; [|by exists ND0; rewrite lookup_insert_ne].
    rewrite Heq in *. eexists. rewrite lookup_insert. split; [done|]. simplify_eq. by rewrite Hif.
Qed.

Lemma modify_key_idemp {K} `{Countable K} {V} (old new : K) (v : V) (m : gmap K V) :
  old ≠ new → modify_key old new v (modify_key old new v m) = modify_key old new v m.
Proof.
  intros Hne. unfold modify_key. rewrite delete_insert_ne by done. rewrite insert_insert.
  by rewrite delete_idemp.
Qed.

(* the buses a node is attached to *)
Lemma parent_buses_spec s nd ND : Inv s → nodes s !! nd = Some ND →
  ∀ b B, buses s !! b = Some B →
    (b ∈ parent_buses s (nd_ifaces ND) ↔ is_Some (b_nodeInts B !! nd)).
Proof.
  intros Hinv HND b B HB. unfold parent_buses. rewrite elem_of_list_omap. split.
  - intros (i & Hi & Hp). apply elem_of_list_lookup in Hi as [k Hk].
    destruct (inv_node_ifaces s Hinv _ _ _ _ HND Hk) as (Ii & HI & Hn & _).
    rewrite HI in Hp. destruct (inv_bus_up s Hinv _ _ _ HI Hp) as (B0 & ? & ?). simplify_eq. eauto.
  - intros [i Hi]. destruct (inv_bus_down s Hinv _ _ _ _ HB Hi) as (Ii & HI & Hn & Hp).
    destruct (inv_attached_live s Hinv _ _ _ HI Hp) as (ND0 & ? & Hin). simplify_eq.
    exists i. split; [done|]. by rewrite HI.
Qed.

Lemma existsb_false {A} (f : A → bool) l : existsb f l = false → ∀ x, x ∈ l → f x = false.
Proof.
  induction l as [|a l IH]; cbn; [by intros _ x ?%not_elem_of_nil|].
  intros [Ha Hl]%orb_false_elim x [->|Hx]%elem_of_cons; eauto.
Qed.

Lemma inv_node_update_name s nd new : Inv s → Inv (node_update_name s nd new).1.
Proof.
  intros Hinv. unfold node_update_name.
  destruct (nodes s !! nd) as [ND|] eqn:HND; [|done].
  destruct (decide (nd_name ND = new)) as [|Hne]; [done|].
  destruct (existsb _ _) eqn:Hex; [done|].
  cbn [fst ok].
  set (bs := parent_buses s (nd_ifaces ND)) in *.
  set (f := λ B : bus_rec, B <| b_nodeNames ::= modify_key (nd_name ND) new nd |>).
  assert (∀ x, f (f x) = f x) as Hf.
  { intros []. unfold f. cbn. unfold set. cbn. f_equal. by apply modify_key_idemp. }
  pose proof (parent_buses_spec s nd ND Hinv HND) as Hbs.
  assert (∀ b B, b ∈ bs → buses s !! b = Some B → b_nodeNames B !! new = None) as Hfree.
  { intros b B Hb HB. pose proof (existsb_false _ _ Hex b Hb) as Hx. cbn in Hx. rewrite HB in Hx.
    apply bool_decide_eq_false in Hx. destruct (b_nodeNames B !! new) eqn:Hy; [|done]. exfalso. apply Hx. eauto. }
  eapply inv_node_rekey_frame; eauto.
  - intros b0. rewrite lookup_alter_all by done. case_decide; [|done]. by destruct (buses s !! b0).
  - intros b0 B0. rewrite lookup_alter_all by done. case_decide as Hin.
    + destruct (buses s !! b0) as [B|] eqn:HB; [|done]. intros [= <-]. cbn.
      eapply IndexOK_rekey; [by eapply (inv_bus_names s Hinv)|..]; eauto.
      * unfold key_node_name. rewrite decide_True by (by apply (Hbs _ _ HB)). by rewrite HND.
      * unfold key_node_name. rewrite decide_True by (by apply (Hbs _ _ HB)). by rewrite lookup_insert.
      * intros h Hh. by apply key_node_name_ne.
    + intros HB. eapply IndexOK_ext; [by eapply (inv_bus_names s Hinv)|]. intros h.
      destruct (decide (h = nd)) as [->|]; [|by apply key_node_name_ne].
      unfold key_node_name. rewrite !decide_False; [done|..]; by rewrite <- (Hbs _ _ HB).
  - intros b0 B0. rewrite lookup_alter_all by done. intros Hl.
    assert (∃ B, buses s !! b0 = Some B ∧ b_nodeInts B0 = b_nodeInts B ∧ b_nodeIDs B0 = b_nodeIDs B) as (B & HB & Hx & Hy).
    { case_decide; [|eauto]. destruct (buses s !! b0) as [B|]; [|done]. cbn in Hl. simplify_eq. eauto. }
    rewrite Hx, Hy. eapply IndexOK_ext; [by eapply (inv_bus_ids s Hinv)|]. intros h.
    destruct (decide (h = nd)) as [->|]; [|by apply key_node_id_ne].
    unfold key_node_id. by rewrite lookup_insert, HND.
Qed.

Lemma inv_node_update_id s nd new : Inv s → Inv (node_update_id s nd new).1.
Proof.
  intros Hinv. unfold node_update_id.
  destruct (nodes s !! nd) as [ND|] eqn:HND; [|done].
  destruct (decide (nd_id ND = new)) as [|Hne]; [done|].
  destruct (existsb _ _) eqn:Hex; [done|].
  cbn [fst ok].
  set (bs := parent_buses s (nd_ifaces ND)) in *.
  set (f := λ B : bus_rec, B <| b_nodeIDs ::= modify_key (nd_id ND) new nd |>).
  assert (∀ x, f (f x) = f x) as Hf.
  { intros []. unfold f. cbn. unfold set. cbn. f_equal. by apply modify_key_idemp. }
  pose proof (parent_buses_spec s nd ND Hinv HND) as Hbs.
  assert (∀ b B, b ∈ bs → buses s !! b = Some B → b_nodeIDs B !! new = None) as Hfree.
  { intros b B Hb HB. pose proof (existsb_false _ _ Hex b Hb) as Hx. cbn in Hx. rewrite HB in Hx.
    apply bool_decide_eq_false in Hx. destruct (b_nodeIDs B !! new) eqn:Hy; [|done]. exfalso. apply Hx. eauto. }
  eapply inv_node_rekey_frame; eauto.
  - intros b0. rewrite lookup_alter_all by done. case_decide; [|done]. by destruct (buses s !! b0).
  - intros b0 B0. rewrite lookup_alter_all by done. intros Hl.
    assert (∃ B, buses s !! b0 = Some B ∧ b_nodeInts B0 = b_nodeInts B ∧ b_nodeNames B0 = b_nodeNames B) as (B & HB & Hx & Hy).
    { case_decide; [|eauto]. destruct (buses s !! b0) as [B|]; [|done]. cbn in Hl. simplify_eq. eauto. }
    rewrite Hx, Hy. eapply IndexOK_ext; [by eapply (inv_bus_names s Hinv)|]. intros h.
    destruct (decide (h = nd)) as [->|]; [|by apply key_node_name_ne].
    unfold key_node_name. by rewrite lookup_insert, HND.
  - intros b0 B0. rewrite lookup_alter_all by done. case_decide as Hin.
    + destruct (buses s !! b0) as [B|] eqn:HB; [|done]. intros [= <-]. cbn.
      eapply IndexOK_rekey; [by eapply (inv_bus_ids s Hinv)|..]; eauto.
      * unfold key_node_id. rewrite decide_True by (by apply (Hbs _ _ HB)). by rewrite HND.
      * unfold key_node_id. rewrite decide_True by (by apply (Hbs _ _ HB)). by rewrite lookup_insert.
      * intros h Hh. by apply key_node_id_ne.
    + intros HB. eapply IndexOK_ext; [by eapply (inv_bus_ids s Hinv)|]. intros h.
      destruct (decide (h = nd)) as [->|]; [|by apply key_node_id_ne].
      unfold key_node_id. rewrite !decide_False; [done|..]; by rewrite <- (Hbs _ _ HB).
Qed.
