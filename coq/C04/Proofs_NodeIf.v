(* C04/C05 — invariant preservation: Node.AddInterface, NewNode, Node.RemoveInterface. *)
From Acme.C04 Require Import ProofsTac.
From Coq Require Import Lia.

(* A batch of new, detached, empty interfaces [l] of node [nd] joins the heap, and the node
   record is (re)written with the interface list extended by [l]. *)
Lemma inv_add_ifaces s (nd : handle) ND' (is' : gmap handle iface_rec) (old l : list handle) (nx : handle) :
  Inv s →
  (next s ≤ nx)%positive →
  (∀ i : handle, i ∈ l → (next s ≤ i < nx)%positive ∧ ifaces s !! i = None) →
  (nodes s !! nd = None → (nd < nx)%positive ∧ old = [] ∧ nets s !! nd = None ∧ buses s !! nd = None ∧ ifaces s !! nd = None
      ∧ msgs s !! nd = None ∧ enums s !! nd = None ∧ evals s !! nd = None ∧ nd ∉ l) →
  (∀ ND, nodes s !! nd = Some ND → old = nd_ifaces ND ∧ nd_name ND' = nd_name ND ∧ nd_id ND' = nd_id ND) →
  (∀ i, i ∉ l → is' !! i = ifaces s !! i) →
  (∀ j i, l !! j = Some i → is' !! i = Some (fresh_iface nd (Z.of_nat (length old + j)))) →
  nd_ifaces ND' = old ++ l → nd_count ND' = Z.of_nat (length (old ++ l)) →
  Inv (s <| next := nx |> <| ifaces := is' |> <| nodes := <[nd := ND']> (nodes s) |>).
Proof.
  intros Hinv Hnx Hl Hnew Hold Hsame Hfresh Hifs Hcnt.
  assert (∀ i, i ∈ l → ∃ j, l !! j = Some i ∧ is' !! i = Some (fresh_iface nd (Z.of_nat (length old + j)))) as Hin.
  { intros i [j Hj]%elem_of_list_lookup. eauto. }
  assert (∀ m M i, msgs s !! m = Some M → m_sender M = Some i → i ∉ l) as Hnosender.
  { intros m M i HM Hs Hi. destruct (inv_sent_up s Hinv _ _ _ HM Hs) as (Ii & HI & _).
    destruct (Hl _ Hi) as [_ ?]. congruence. }
  assert (∀ i0 I0, is' !! i0 = Some I0 → i0 ∈ l ∨ ifaces s !! i0 = Some I0) as Hcases.
  { intros i0 I0 Hl0. destruct (decide (i0 ∈ l)); [by left|right]. by rewrite <- Hsame. }
  assert (∀ i0 I0, is' !! i0 = Some I0 → i0 ∈ l → i_node I0 = nd ∧ i_parent I0 = None ∧ i_sent I0 = ∅ ∧
            i_sentNames I0 = ∅ ∧ i_sentIDs I0 = ∅ ∧ i_sentStatic I0 = ∅ ∧ i_received I0 = ∅) as Hnewi.
  { intros i0 I0 Hl0 Hi0. destruct (Hin _ Hi0) as (j & _ & Hx). rewrite Hx in Hl0. by simplify_eq. }
  assert (∀ b h, key_bus_static (msgs s) is' b h = key_bus_static (msgs s) (ifaces s) b h) as Hkb.
  { intros b h. unfold key_bus_static. destruct (msgs s !! h) as [M|] eqn:HM; [|done]. cbn.
    destruct (m_sender M) as [i|] eqn:Hs; [|done]. cbn. rewrite Hsame; [done|]. by eapply Hnosender. }
  destruct Hinv. split; cbn; try assumption.
  - intros h Hh. destruct (inv_fresh h ltac:(lia)) as (?&?&?&?&?&?&?). repeat split; try done.
    + rewrite lookup_insert_ne; [done|]. intros ->.
      destruct (nodes s !! h) as [ND|] eqn:HND; [congruence|]. destruct (Hnew eq_refl) as (? & _). lia.
    + rewrite Hsame; [done|]. intros Hi. destruct (Hl _ Hi). lia.
  - intros b B nd0 i0 HB Hni. destruct (inv_bus_down _ _ _ _ HB Hni) as (I0 & HI0 & ? & ?).
    exists I0. split; [|done]. rewrite Hsame; [done|]. intros Hi. destruct (Hl _ Hi). congruence.
  - intros i0 I0 b Hl0 Hp. destruct (Hcases _ _ Hl0) as [Hi0|HI0]; [|eauto].
    destruct (Hnewi _ _ Hl0 Hi0) as (_ & ? & _). congruence.
  - intros b B HB. eapply IndexOK_ext; [by eauto|]. intros h.
    destruct (decide (h = nd)) as [->|]; [|by apply key_node_name_ne].
    unfold key_node_name. case_decide as Hd; [|done]. rewrite lookup_insert.
    destruct Hd as [i Hi]. destruct (inv_bus_down _ _ _ _ HB Hi) as (I0 & HI0 & Hn0 & _).
    destruct (inv_iface_node _ _ HI0) as [ND0 HND0]. rewrite Hn0 in HND0. rewrite HND0. cbn.
    destruct (Hold _ HND0) as (_ & -> & _). done.
  - intros b B HB. eapply IndexOK_ext; [by eauto|]. intros h.
    destruct (decide (h = nd)) as [->|]; [|by apply key_node_id_ne].
    unfold key_node_id. case_decide as Hd; [|done]. rewrite lookup_insert.
    destruct Hd as [i Hi]. destruct (inv_bus_down _ _ _ _ HB Hi) as (I0 & HI0 & Hn0 & _).
    destruct (inv_iface_node _ _ HI0) as [ND0 HND0]. rewrite Hn0 in HND0. rewrite HND0. cbn.
    destruct (Hold _ HND0) as (_ & _ & ->). done.
  - intros b B HB. eapply IndexOK_ext; [by eauto|]. intros h. apply Hkb.
  - intros nd0 ND0 Hl0. lookup_cases Hl0; [by rewrite Hcnt, Hifs|eauto].
  - intros nd0 ND0 k i0 Hl0 Hk. lookup_cases Hl0.
    + rewrite Hifs in Hk. apply lookup_app_Some in Hk as [Hk|[Hlen Hk]].
      * destruct (nodes s !! nd) as [ND|] eqn:HND.
        -- destruct (Hold _ eq_refl) as (Ho & _). rewrite Ho in Hk. destruct (inv_node_ifaces _ _ _ _ HND Hk) as (I0 & HI0 & ? & ?).
           exists I0. split; [|done]. rewrite Hsame; [done|]. intros Hi. destruct (Hl _ Hi). congruence.
        -- destruct (Hnew eq_refl) as (_ & -> & _). by rewrite lookup_nil in Hk.
      * rewrite (Hfresh _ _ Hk). eexists. split; [done|]. cbn. split; [done|]. f_equal. lia.
    + destruct (inv_node_ifaces _ _ _ _ Hl0 Hk) as (I0 & HI0 & ? & ?).
      exists I0. split; [|done]. rewrite Hsame; [done|]. intros Hi. destruct (Hl _ Hi). congruence.
  - intros i0 I0 Hl0. destruct (Hcases _ _ Hl0) as [Hi0|HI0].
    + destruct (Hnewi _ _ Hl0 Hi0) as (-> & _). by rewrite lookup_insert.
    + destruct (inv_iface_node _ _ HI0) as [ND0 HND0].
      destruct (decide (i_node I0 = nd)) as [->|]; [by rewrite lookup_insert|by rewrite lookup_insert_ne].
  - intros i0 I0 b Hl0 Hp. destruct (Hcases _ _ Hl0) as [Hi0|HI0].
    + destruct (Hnewi _ _ Hl0 Hi0) as (_ & ? & _). congruence.
    + destruct (inv_attached_live _ _ _ HI0 Hp) as (ND0 & HND0 & Hin0).
      destruct (decide (i_node I0 = nd)) as [Heq|]; [|by exists ND0; rewrite lookup_insert_ne].
      rewrite Heq in *. eexists. rewrite lookup_insert. split; [done|]. rewrite Hifs.
      destruct (Hold _ HND0) as (-> & _). set_solver.
  - intros i0 I0 m0 Hl0 Hin0. destruct (Hcases _ _ Hl0) as [Hi0|HI0]; [|eauto].
    destruct (Hnewi _ _ Hl0 Hi0) as (_ & _ & Hs & _). rewrite Hs in Hin0. set_solver.
  - intros m0 M0 i0 HM Hs. destruct (inv_sent_up _ _ _ HM Hs) as (I0 & HI0 & ?).
    exists I0. split; [|done]. rewrite Hsame; [done|]. by eapply Hnosender.
  - intros i0 I0 Hl0. destruct (Hcases _ _ Hl0) as [Hi0|HI0]; [|eauto].
    destruct (Hnewi _ _ Hl0 Hi0) as (_ & _ & _ & -> & _). apply IndexOK_empty. intros h.
    unfold key_msg_name. destruct (msgs s !! h) as [M|] eqn:HM; [|done]. cbn.
    case_decide as Hs; [|done]. by destruct (Hnosender _ _ _ HM Hs).
  - intros i0 I0 Hl0. destruct (Hcases _ _ Hl0) as [Hi0|HI0]; [|eauto].
    destruct (Hnewi _ _ Hl0 Hi0) as (_ & _ & _ & _ & -> & _). apply IndexOK_empty. intros h.
    unfold key_msg_id. destruct (msgs s !! h) as [M|] eqn:HM; [|done]. cbn.
    case_decide as Hs; [|done]. by destruct (Hnosender _ _ _ HM Hs).
  - intros i0 I0 Hl0. destruct (Hcases _ _ Hl0) as [Hi0|HI0]; [|eauto].
    destruct (Hnewi _ _ Hl0 Hi0) as (_ & _ & _ & _ & _ & -> & _). apply IndexOK_empty. intros h.
    unfold key_msg_static. destruct (msgs s !! h) as [M|] eqn:HM; [|done]. cbn.
    case_decide as Hs; [|done]. by destruct (Hnosender _ _ _ HM Hs).
  - intros m0 M0 nd0 i0 HM Hr. destruct (inv_recv_down _ _ _ _ HM Hr) as (I0 & HI0 & ? & ?).
    exists I0. split; [|done]. rewrite Hsame; [done|]. intros Hi. destruct (Hl _ Hi). congruence.
  - intros i0 I0 m0 Hl0 Hin0. destruct (Hcases _ _ Hl0) as [Hi0|HI0]; [|eauto].
    destruct (Hnewi _ _ Hl0 Hi0) as (_ & _ & _ & _ & _ & _ & Hr). rewrite Hr in Hin0. set_solver.
Qed.

Ltac reshape_nin s :=
  match goal with
  | |- Inv ?st =>
    replace st with (s <| next := next st |> <| ifaces := ifaces st |> <| nodes := nodes st |>) by (by destruct s)
  end; cbn.

Lemma inv_node_add_interface s nd : Inv s → Inv (node_add_interface s nd).1.
Proof.
  intros Hinv. unfold node_add_interface.
  destruct (nodes s !! nd) as [ND|] eqn:HND; [|done].
  unfold alloc. cbn [fst ok]. reshape_nin s.
  destruct (inv_fresh s Hinv (next s) ltac:(lia)) as (_&_&_&Hfi&_).
  eapply (inv_add_ifaces s nd _ _ (nd_ifaces ND) [next s]); eauto.
  - lia.
  - intros i ->%elem_of_list_singleton. split; [lia|done].
  - intros; congruence.
  - intros ND0 ?. by simplify_eq.
  - intros i Hi. rewrite lookup_insert_ne; [done|]. intros <-. apply Hi. by apply elem_of_list_singleton.
  - intros j i Hj. destruct j; [|apply lookup_lt_Some in Hj; cbn in Hj; lia]. simplify_eq/=.
    rewrite lookup_insert. rewrite (inv_node_count s Hinv _ _ HND). do 2 f_equal. lia.
  - cbn. rewrite (inv_node_count s Hinv _ _ HND), app_length. cbn. lia.
Qed.

(* the loop of NewNode *)
Lemma new_ifaces_spec s nd k c :
  ∀ l s', new_ifaces s nd k c = (l, s') →
    nets s' = nets s ∧ buses s' = buses s ∧ nodes s' = nodes s ∧ msgs s' = msgs s ∧ enums s' = enums s ∧
    evals s' = evals s ∧ (next s ≤ next s')%positive ∧ length l = c ∧
    (∀ i : handle, i ∈ l → (next s ≤ i < next s')%positive) ∧
    (∀ i : handle, i ∉ l → ifaces s' !! i = ifaces s !! i) ∧
    (∀ j i, l !! j = Some i → ifaces s' !! i = Some (fresh_iface nd (k + Z.of_nat j))).
Proof.
  revert s k. induction c as [|c IH]; intros s k l s' Heq; cbn in Heq.
  - simplify_eq. split_and!; try done; try lia.
    intros x Hx. by apply not_elem_of_nil in Hx.
  - unfold alloc in Heq. cbn in Heq.
    destruct (new_ifaces _ nd (k + 1) c) as [l1 s1] eqn:Hrec. simplify_eq.
    destruct (IH _ _ _ _ Hrec) as (Hn & Hb & Hnd & Hm & He & Hv & Hnx & Hlen & Hrange & Hsame & Hnew).
    cbn in *. split_and!; try done; try lia.
    + intros x [->|Hx]%elem_of_cons; [lia|]. specialize (Hrange _ Hx). lia.
    + intros x Hx. rewrite Hsame by set_solver. rewrite lookup_insert_ne; [done|]. set_solver.
    + intros j x Hj. destruct j as [|j]; cbn in Hj.
      * simplify_eq. rewrite Hsame; [|intros Hx; specialize (Hrange _ Hx); lia].
        rewrite lookup_insert. do 2 f_equal. lia.
      * rewrite (Hnew _ _ Hj). do 2 f_equal. lia.
Qed.

Lemma inv_new_node s nm id count : Inv s → Inv (new_node s nm id count).1.
Proof.
  intros Hinv. unfold new_node, alloc.
  destruct (new_ifaces _ (next s) 0 count) as [l s1] eqn:Hloop. cbn [fst ok].
  destruct (new_ifaces_spec _ _ _ _ _ _ Hloop) as (Hn & Hb & Hnd & Hm & He & Hv & Hnx & Hlen & Hrange & Hsame & Hnew).
  cbn in *.
  destruct (inv_fresh s Hinv (next s) ltac:(lia)) as (?&?&?&?&?&?&?).
  replace (s1 <| nodes ::= <[next s:=mkNode nm id l (Z.of_nat count)]> |>)
    with (s <| next := next s1 |> <| ifaces := ifaces s1 |> <| nodes := <[next s:=mkNode nm id l (Z.of_nat count)]> (nodes s) |>).
  2:{ destruct s, s1. cbn in *. by subst. }
  eapply (inv_add_ifaces s (next s) _ _ [] l); eauto.
  - lia.
  - intros i Hi. specialize (Hrange _ Hi). split; [lia|].
    by destruct (inv_fresh s Hinv i ltac:(lia)) as (?&?&?&?&?&?&?).
  - intros _. repeat split; try done; [lia|]. intros Hi. specialize (Hrange _ Hi). lia.
  - intros ND ?. congruence.
  - cbn. by rewrite Hlen.
Qed.
