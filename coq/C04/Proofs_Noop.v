(* C06 — a rejected operation changes nothing: Leibniz equality of the whole state, all indexes
   included. Immediate for the operations that verify before they write; Node.RemoveInterface
   interleaves (the nested Bus.RemoveNodeInterface can fail after interfaces were renumbered) and
   needs the invariant. *)
From Acme.C04 Require Import ProofsTac Proofs_RmIf.
From Coq Require Import Lia.

Ltac noop_tac := intros; repeat (case_match; simplify_eq/=; try done).

Lemma noop_simple s o :
  (match o with NodeRemoveInterface _ _ => False | _ => True end) →
  is_err (step s o).2 = true → (step s o).1 = s.
Proof.
  destruct o; intros Hx; try done; cbn [step];
  unfold new_other, new_network, new_bus, new_node, new_message, new_enum, new_enum_value, net_add_bus, net_remove_bus,
    net_remove_all_buses, bus_update_name, bus_add_node_interface, bus_remove_node_interface,
    bus_remove_all_node_interfaces, node_update_name, node_update_id, node_add_interface,
    iface_add_sent, iface_remove_sent, iface_remove_all_sent, iface_add_received, iface_remove_received,
    iface_remove_all_received, msg_update_name, msg_update_id, msg_set_static, msg_add_receiver,
    msg_remove_receiver, enum_add_value, enum_remove_value, enum_remove_all_values,
    eval_update_name, eval_update_index, add_received, ok, err, bad, alloc.
  all: noop_tac.
Qed.

(* under the invariant the nested detach of Node.RemoveInterface cannot fail *)
Lemma rmif_no_error s nd k ND :
  Inv s → nodes s !! nd = Some ND → (0 ≤ k < nd_count ND)%Z →
  (rmif_loop s nd k (nd_ifaces ND) false).2 = None.
Proof.
  intros Hinv HND Hk.
  pose proof (inv_node_count s Hinv _ _ HND) as Hcnt. rewrite Hcnt in Hk.
  assert (∃ l1 ik l2, nd_ifaces ND = l1 ++ ik :: l2 ∧ length l1 = Z.to_nat k) as (l1 & ik & l2 & Hsplit & Hlen1).
  { destruct (lookup_lt_is_Some_2 (nd_ifaces ND) (Z.to_nat k) ltac:(lia)) as [ik Hik].
    exists (take (Z.to_nat k) (nd_ifaces ND)), ik, (drop (S (Z.to_nat k)) (nd_ifaces ND)).
    split; [by rewrite take_drop_middle|]. rewrite take_length. apply lookup_lt_Some in Hik. lia. }
  assert (∀ j i, nd_ifaces ND !! j = Some i → ∃ Ii, ifaces s !! i = Some Ii ∧ i_node Ii = nd ∧ i_number Ii = Z.of_nat j) as Hnum.
  { intros. by eapply (inv_node_ifaces s Hinv). }
  assert (NoDup (nd_ifaces ND)) as Hnodup.
  { apply NoDup_alt. intros j1 j2 i H1 H2.
    destruct (Hnum _ _ H1) as (I1 & HI1 & _ & Hn1). destruct (Hnum _ _ H2) as (I2 & HI2 & _ & Hn2).
    simplify_eq. lia. }
  rewrite Hsplit in Hnodup, Hnum. rewrite Hsplit.
  rewrite rmif_loop_skip.
  2:{ intros i [j Hj]%elem_of_list_lookup. destruct (Hnum j i) as (Ii & HI & _ & Hn).
      { by rewrite lookup_app_l by (by eapply lookup_lt_Some). }
      exists Ii. split; [done|]. apply lookup_lt_Some in Hj. lia. }
  destruct (Hnum (length l1) ik) as (Ik & HIk & Hnk & Hnumk).
  { by rewrite lookup_app_r, Nat.sub_diag by lia. }
  cbn [rmif_loop]. rewrite HIk. rewrite decide_True by lia.
  apply NoDup_app in Hnodup as (Hnd1 & Hdisj & Hnd2). apply NoDup_cons in Hnd2 as [Hik2 Hnd2].
  assert (∃ s1, (match i_parent Ik with
                 | Some b => match bus_remove_node_interface s b nd with
                             | (s', Ok) => rmif_loop s' nd k l2 true
                             | (s', Err e) => (s', [], Some e) end
                 | None => rmif_loop s nd k l2 true end) = rmif_loop s1 nd k l2 true ∧
          (∀ i0, i0 ≠ ik → ifaces s1 !! i0 = ifaces s !! i0)) as (s1 & -> & Hif1).
  { destruct (i_parent Ik) as [b|] eqn:Hpar.
    - destruct (inv_bus_up s Hinv _ _ _ HIk Hpar) as (B & HB & HBi). rewrite Hnk in HBi.
      unfold bus_remove_node_interface. rewrite HB, HBi, HIk. rewrite Hnk, HND. cbn.
      eexists. split; [done|]. cbn. intros i0 Hne. by rewrite lookup_insert_ne.
    - exists s. done. }
  destruct (rmif_loop_found s1 nd k l2 Hnd2) as (s2 & Heq & _).
  { intros i [j Hj]%elem_of_list_lookup. destruct (Hnum (length l1 + S j)%nat i) as (Ii & HI & _ & Hn).
    { rewrite lookup_app_r by lia. by replace (length l1 + S j - length l1)%nat with (S j) by lia. }
    exists Ii. split; [|lia]. rewrite Hif1; [done|]. intros ->. apply Hik2. by eapply elem_of_list_lookup_2. }
  by rewrite Heq.
Qed.

Theorem error_is_noop s o : Inv s → is_err (step s o).2 = true → (step s o).1 = s.
Proof.
  intros Hinv. destruct o; try (by apply noop_simple).
  cbn [step]. unfold node_remove_interface.
  destruct (nodes s !! nd) as [ND|] eqn:HND; [|done].
  destruct (k <? 0)%Z eqn:Hk0; [done|]. destruct (nd_count ND <=? k)%Z eqn:Hk1; [done|].
  apply Z.ltb_ge in Hk0. apply Z.leb_gt in Hk1.
  pose proof (rmif_no_error s nd k ND Hinv HND ltac:(lia)) as Hne.
  destruct (rmif_loop s nd k (nd_ifaces ND) false) as [[s' l'] e]. cbn in Hne. subst e. done.
Qed.
