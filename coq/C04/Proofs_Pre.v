(* C06 — refusal coincides with the documented precondition and the returned cause is a documented
   one whose precondition is really violated (refused_iff_pre, cause_spec). The preconditions are
   stated on the contents (Spec.v); the invariant translates "the index has the key" into "some
   child carries the key". *)
From Acme.C04 Require Import ProofsTac Proofs_Bus Proofs_Step Proofs_Noop.
From Acme.C04 Require Export Spec.
From Coq Require Import Lia.

Section taken.
  Context (s : state) (Hinv : Inv s).

  Lemma net_taken n N nm : nets s !! n = Some N → (is_Some (n_busNames N !! nm) ↔ net_has_bus_named s n nm).
  Proof.
    intros HN. split.
    - intros [b Hb]. apply (inv_net_names s Hinv n N HN) in Hb. unfold key_bus_name in Hb.
      destruct (buses s !! b) as [B|] eqn:HB; [|done]. cbn in Hb. case_decide as Hp; [|done]. simplify_eq.
      destruct (inv_net_up s Hinv _ _ _ HB Hp) as (N0 & ? & ?). simplify_eq. exists N, b, B. done.
    - intros (N0 & b & B & ? & Hin & HB & <-). simplify_eq. exists b.
      apply (inv_net_names s Hinv n N HN). destruct (inv_net_down s Hinv _ _ _ HN Hin) as (B0 & ? & Hp). simplify_eq.
      by rewrite (key_bus_name_val _ _ _ _ HB), decide_True.
  Qed.

  Lemma bus_name_taken b B nm : buses s !! b = Some B → (is_Some (b_nodeNames B !! nm) ↔ bus_has_node_named s b nm).
  Proof.
    intros HB. split.
    - intros [nd Hnd]. apply (inv_bus_names s Hinv b B HB) in Hnd. unfold key_node_name in Hnd.
      case_decide as Hd; [|done]. destruct Hd as [i Hi]. destruct (nodes s !! nd) as [ND|] eqn:HND; [|done].
      cbn in Hnd. simplify_eq. exists B, nd, i, ND. done.
    - intros (B0 & nd & i & ND & ? & Hi & HND & <-). simplify_eq. exists nd.
      apply (inv_bus_names s Hinv b B HB). unfold key_node_name. rewrite decide_True by eauto. by rewrite HND.
  Qed.

  Lemma bus_id_taken b B id : buses s !! b = Some B → (is_Some (b_nodeIDs B !! id) ↔ bus_has_node_id s b id).
  Proof.
    intros HB. split.
    - intros [nd Hnd]. apply (inv_bus_ids s Hinv b B HB) in Hnd. unfold key_node_id in Hnd.
      case_decide as Hd; [|done]. destruct Hd as [i Hi]. destruct (nodes s !! nd) as [ND|] eqn:HND; [|done].
      cbn in Hnd. simplify_eq. exists B, nd, i, ND. done.
    - intros (B0 & nd & i & ND & ? & Hi & HND & <-). simplify_eq. exists nd.
      apply (inv_bus_ids s Hinv b B HB). unfold key_node_id. rewrite decide_True by eauto. by rewrite HND.
  Qed.

  Lemma iface_name_taken i Ii nm :
    ifaces s !! i = Some Ii → (is_Some (i_sentNames Ii !! nm) ↔ iface_sends s i (λ M, m_name M = nm)).
  Proof.
    intros HI. split.
    - intros [m Hm]. apply (inv_sent_names s Hinv i Ii HI) in Hm. unfold key_msg_name in Hm.
      destruct (msgs s !! m) as [M|] eqn:HM; [|done]. cbn in Hm. case_decide as Hs; [|done]. simplify_eq.
      destruct (inv_sent_up s Hinv _ _ _ HM Hs) as (I0 & ? & ?). simplify_eq. exists Ii, m, M. done.
    - intros (I0 & m & M & ? & Hin & HM & <-). simplify_eq. exists m.
      apply (inv_sent_names s Hinv i Ii HI). destruct (inv_sent_down s Hinv _ _ _ HI Hin) as (M0 & ? & Hs). simplify_eq.
      by rewrite (key_msg_name_val _ _ _ _ HM), decide_True.
  Qed.

  Lemma iface_id_taken i Ii id :
    ifaces s !! i = Some Ii → (is_Some (i_sentIDs Ii !! id) ↔ iface_sends s i (has_plain_id id)).
  Proof.
    intros HI. split.
    - intros [m Hm]. apply (inv_sent_ids s Hinv i Ii HI) in Hm. unfold key_msg_id in Hm.
      destruct (msgs s !! m) as [M|] eqn:HM; [|done]. cbn in Hm. case_decide as Hs; [|done].
      destruct (m_hasStatic M) eqn:Hst; [done|]. simplify_eq.
      destruct (inv_sent_up s Hinv _ _ _ HM Hs) as (I0 & ? & ?). simplify_eq. exists Ii, m, M. done.
    - intros (I0 & m & M & ? & Hin & HM & Hst & <-). simplify_eq. exists m.
      apply (inv_sent_ids s Hinv i Ii HI). destruct (inv_sent_down s Hinv _ _ _ HI Hin) as (M0 & ? & Hs). simplify_eq.
      by rewrite (key_msg_id_val _ _ _ _ HM), decide_True, Hst.
  Qed.

  Lemma iface_static_taken i Ii c :
    ifaces s !! i = Some Ii → (is_Some (i_sentStatic Ii !! c) ↔ iface_sends s i (has_static c)).
  Proof.
    intros HI. split.
    - intros [m Hm]. apply (inv_sent_static s Hinv i Ii HI) in Hm. unfold key_msg_static in Hm.
      destruct (msgs s !! m) as [M|] eqn:HM; [|done]. cbn in Hm. case_decide as Hs; [|done].
      destruct (m_hasStatic M) eqn:Hst; [|done]. simplify_eq.
      destruct (inv_sent_up s Hinv _ _ _ HM Hs) as (I0 & ? & ?). simplify_eq. exists Ii, m, M. done.
    - intros (I0 & m & M & ? & Hin & HM & Hst & <-). simplify_eq. exists m.
      apply (inv_sent_static s Hinv i Ii HI). destruct (inv_sent_down s Hinv _ _ _ HI Hin) as (M0 & ? & Hs). simplify_eq.
      by rewrite (key_msg_static_val _ _ _ _ HM), decide_True, Hst.
  Qed.

  Lemma bus_static_taken b B c :
    buses s !! b = Some B → (is_Some (b_static B !! c) ↔ bus_carries s b (has_static c)).
  Proof.
    intros HB. split.
    - intros [m Hm]. apply (inv_bus_static s Hinv b B HB) in Hm. unfold key_bus_static in Hm.
      destruct (msgs s !! m) as [M|] eqn:HM; [|done]. cbn in Hm.
      destruct (m_sender M) as [i|] eqn:Hs; [|done]. cbn in Hm.
      destruct (ifaces s !! i) as [Ii|] eqn:HI; [|done]. cbn in Hm. case_decide as Hp; [|done].
      destruct (m_hasStatic M) eqn:Hst; [|done]. simplify_eq.
      destruct (inv_bus_up s Hinv _ _ _ HI Hp) as (B0 & ? & Hni). simplify_eq.
      destruct (inv_sent_up s Hinv _ _ _ HM Hs) as (I0 & ? & ?). simplify_eq.
      exists B, (i_node Ii), i. split; [done|]. split; [done|]. exists Ii, m, M. done.
    - intros (B0 & nd & i & ? & Hni & I0 & m & M & HI & Hin & HM & Hst & <-). simplify_eq. exists m.
      apply (inv_bus_static s Hinv b B HB).
      destruct (inv_bus_down s Hinv _ _ _ _ HB Hni) as (I1 & ? & ? & Hp). simplify_eq.
      destruct (inv_sent_down s Hinv _ _ _ HI Hin) as (M0 & ? & Hs). simplify_eq.
      rewrite (key_bus_static_val _ _ _ _ _ HM), Hs. cbn. rewrite HI. cbn. by rewrite decide_True, Hst.
  Qed.

  Lemma enum_name_taken e E nm :
    enums s !! e = Some E → (is_Some (e_valueNames E !! nm) ↔ enum_has_value s e (λ V, v_name V = nm)).
  Proof.
    intros HE. split.
    - intros [v Hv]. apply (inv_enum_names s Hinv e E HE) in Hv. unfold key_eval_name in Hv.
      destruct (evals s !! v) as [V|] eqn:HV; [|done]. cbn in Hv. case_decide as Hp; [|done]. simplify_eq.
      destruct (inv_enum_up s Hinv _ _ _ HV Hp) as (E0 & ? & ?). simplify_eq. exists E, v, V. done.
    - intros (E0 & v & V & ? & Hin & HV & <-). simplify_eq. exists v.
      apply (inv_enum_names s Hinv e E HE). destruct (inv_enum_down s Hinv _ _ _ HE Hin) as (V0 & ? & Hp). simplify_eq.
      by rewrite (key_eval_name_val _ _ _ _ HV), decide_True.
  Qed.

  Lemma enum_idx_taken e E ix :
    enums s !! e = Some E → (is_Some (e_valueIdx E !! ix) ↔ enum_has_value s e (λ V, v_index V = ix)).
  Proof.
    intros HE. split.
    - intros [v Hv]. apply (inv_enum_idx s Hinv e E HE) in Hv. unfold key_eval_index in Hv.
      destruct (evals s !! v) as [V|] eqn:HV; [|done]. cbn in Hv. case_decide as Hp; [|done]. simplify_eq.
      destruct (inv_enum_up s Hinv _ _ _ HV Hp) as (E0 & ? & ?). simplify_eq. exists E, v, V. done.
    - intros (E0 & v & V & ? & Hin & HV & <-). simplify_eq. exists v.
      apply (inv_enum_idx s Hinv e E HE). destruct (inv_enum_down s Hinv _ _ _ HE Hin) as (V0 & ? & Hp). simplify_eq.
      by rewrite (key_eval_index_val _ _ _ _ HV), decide_True.
  Qed.
End taken.

Ltac err1 := split; [done|]; intros ? ->%elem_of_list_singleton.
Ltac okc := cbn; unfold pre; cbn [viol wf]; split.
Ltac is_some_none H := destruct H as [? H]; congruence.

Lemma not_is_Some_None {A} (o : option A) : o = None → ¬ is_Some o.
Proof. intros -> [??]. done. Qed.

Section spec.
  Context (s : state) (Hinv : Inv s).

  Lemma spec_constructors o :
    match o with NewNetwork | NewBus _ | NewNode _ _ _ | NewMessage _ _ _ | NewEnum | NewEnumValue _ _ | NewOther => True | _ => False end →
    StepSpec s o.
  Proof.
    destruct o; try done; intros _; unfold StepSpec; cbn [step];
      unfold new_network, new_bus, new_node, new_message, new_enum, new_enum_value, new_other, alloc; cbn.
    all: try (split; [done|intros cw Hv; exact Hv]).
    destruct (new_ifaces _ _ _ _). cbn. split; [done|intros cw Hv; exact Hv].
  Qed.

  Lemma spec_net_add_bus n ob : StepSpec s (NetAddBus n ob).
  Proof.
    unfold StepSpec. cbn [step]. unfold net_add_bus.
    destruct (nets s !! n) as [N|] eqn:HN.
    2:{ err1. right. split; [|done]. intros [Hn _]. is_some_none Hn. }
    destruct ob as [b|].
    2:{ err1. left. left. done. }
    destruct (buses s !! b) as [B|] eqn:HB.
    2:{ err1. right. split; [|done]. intros [_ Hb]. specialize (Hb b eq_refl). is_some_none Hb. }
    destruct (n_busNames N !! b_name B) eqn:Hnm.
    - err1. left. right. exists b, B. repeat split; try done. apply (net_taken s Hinv n N _ HN). eauto.
    - okc; [split; [eauto|intros ? [= <-]; eauto]|].
      intros cw [[? _]|(b0 & B0 & ? & ? & Hx & _)]; [done|]. simplify_eq.
      apply (net_taken s Hinv n N _ HN) in Hx. is_some_none Hx.
  Qed.

  Lemma spec_net_remove_bus n key : StepSpec s (NetRemoveBus n key).
  Proof.
    unfold StepSpec. cbn [step]. unfold net_remove_bus.
    destruct (nets s !! n) as [N|] eqn:HN.
    2:{ err1. right. split; [|done]. intros Hn. is_some_none Hn. }
    destruct (decide (key ∈ n_buses N)) as [Hin|Hnin].
    - destruct (inv_net_down s Hinv _ _ _ HN Hin) as (B & HB & _). rewrite HB. okc; [eauto|]. intros cw [Hx _]. by apply (Hx N).
    - err1. left. split; [|done]. intros N0 ?. by simplify_eq.
  Qed.

  Lemma spec_net_remove_all n : StepSpec s (NetRemoveAllBuses n).
  Proof.
    unfold StepSpec. cbn [step]. unfold net_remove_all_buses.
    destruct (nets s !! n) as [N|] eqn:HN.
    - okc; [eauto|intros cw Hv; exact Hv].
    - err1. right. split; [|done]. intros Hn. is_some_none Hn.
  Qed.

  Lemma spec_bus_update_name b new : StepSpec s (BusUpdateName b new).
  Proof.
    unfold StepSpec. cbn [step]. unfold bus_update_name.
    destruct (buses s !! b) as [B|] eqn:HB.
    2:{ err1. right. split; [|done]. intros Hb. is_some_none Hb. }
    destruct (decide (b_name B = new)) as [Heq|Hne].
    { okc; [eauto|]. intros cw (B0 & n & ? & Hx & _). simplify_eq. }
    destruct (b_parent B) as [n|] eqn:Hpar.
    - destruct (inv_net_up s Hinv _ _ _ HB Hpar) as (N & HN & Hin). rewrite HN.
      destruct (n_busNames N !! new) eqn:Hnm.
      + err1. left. exists B, n. repeat split; try done. apply (net_taken s Hinv n N _ HN). eauto.
      + okc; [eauto|]. intros cw (B0 & n0 & ? & _ & ? & Hx & _). simplify_eq.
        apply (net_taken s Hinv n N _ HN) in Hx. is_some_none Hx.
    - okc; [eauto|]. intros cw (B0 & n0 & ? & _ & ? & _). simplify_eq.
  Qed.

  Lemma spec_bus_remove_ni b key : StepSpec s (BusRemoveNodeInterface b key).
  Proof.
    unfold StepSpec. cbn [step]. unfold bus_remove_node_interface.
    destruct (buses s !! b) as [B|] eqn:HB.
    2:{ err1. right. split; [|done]. intros Hb. is_some_none Hb. }
    destruct (b_nodeInts B !! key) as [i|] eqn:Hni.
    - destruct (inv_bus_down s Hinv _ _ _ _ HB Hni) as (Ii & HI & Hn & _). rewrite HI.
      destruct (inv_iface_node s Hinv _ _ HI) as [ND HND]. rewrite HND.
      okc; [eauto|]. intros cw [Hx _]. specialize (Hx B HB). congruence.
    - err1. left. split; [|done]. intros B0 ?. by simplify_eq.
  Qed.

  Lemma spec_bus_remove_all b : StepSpec s (BusRemoveAllNodeInterfaces b).
  Proof.
    unfold StepSpec. cbn [step]. unfold bus_remove_all_node_interfaces.
    destruct (buses s !! b) as [B|] eqn:HB.
    - okc; [eauto|intros cw Hv; exact Hv].
    - err1. right. split; [|done]. intros Hb. is_some_none Hb.
  Qed.

  Lemma spec_node_add_interface nd : StepSpec s (NodeAddInterface nd).
  Proof.
    unfold StepSpec. cbn [step]. unfold node_add_interface.
    destruct (nodes s !! nd) as [ND|] eqn:HND.
    - okc; [eauto|intros cw Hv; exact Hv].
    - err1. right. split; [|done]. intros Hb. is_some_none Hb.
  Qed.

  Lemma spec_node_remove_interface nd k : StepSpec s (NodeRemoveInterface nd k).
  Proof.
    unfold StepSpec. cbn [step]. unfold node_remove_interface.
    destruct (nodes s !! nd) as [ND|] eqn:HND.
    2:{ err1. right. split; [|done]. intros Hb. is_some_none Hb. }
    pose proof (inv_node_count s Hinv _ _ HND) as Hcnt.
    destruct (k <? 0)%Z eqn:Hk0.
    { err1. left. left. split; [|done]. by apply Z.ltb_lt. }
    destruct (nd_count ND <=? k)%Z eqn:Hk1.
    { err1. left. right. exists ND. split; [done|]. split; [|done]. apply Z.leb_le in Hk1. lia. }
    apply Z.ltb_ge in Hk0. apply Z.leb_gt in Hk1.
    pose proof (rmif_no_error s nd k ND Hinv HND ltac:(lia)) as Hne.
    destruct (rmif_loop s nd k (nd_ifaces ND) false) as [[s' l'] e]. cbn in Hne. subst e.
    okc; [eauto|]. intros cw [[? _]|(ND0 & ? & ? & _)]; [lia|]. simplify_eq. lia.
  Qed.

  (* the buses a node is attached to have / have not a node with the key *)
  Lemma parent_buses_exists nd ND (f : bus_rec → bool) :
    nodes s !! nd = Some ND →
    existsb (λ b, match buses s !! b with Some B => f B | None => false end) (parent_buses s (nd_ifaces ND)) = true ↔
    ∃ i Ii b B, i ∈ nd_ifaces ND ∧ ifaces s !! i = Some Ii ∧ i_parent Ii = Some b ∧ buses s !! b = Some B ∧ f B = true.
  Proof.
    intros HND. rewrite existsb_exists. split.
    - intros (b & Hb%elem_of_list_In & Hf). unfold parent_buses in Hb. apply elem_of_list_omap in Hb as (i & Hi & Hp).
      destruct (ifaces s !! i) as [Ii|] eqn:HI; [|done]. destruct (buses s !! b) as [B|] eqn:HB; [|done].
      exists i, Ii, b, B. done.
    - intros (i & Ii & b & B & Hi & HI & Hp & HB & Hf). exists b. split; [|by rewrite HB].
      apply elem_of_list_In. unfold parent_buses. apply elem_of_list_omap. exists i. split; [done|]. by rewrite HI.
  Qed.

  Lemma spec_node_update_name nd new : StepSpec s (NodeUpdateName nd new).
  Proof.
    unfold StepSpec. cbn [step]. unfold node_update_name.
    destruct (nodes s !! nd) as [ND|] eqn:HND.
    2:{ err1. right. split; [|done]. intros Hb. is_some_none Hb. }
    destruct (decide (nd_name ND = new)) as [Heq|Hne].
    { okc; [eauto|]. intros cw (ND0 & ? & ? & ? & ? & Hx & _). simplify_eq. }
    destruct (existsb _ _) eqn:Hex.
    - apply (parent_buses_exists nd ND (λ B, bool_decide (is_Some (b_nodeNames B !! new))) HND) in Hex
        as (i & Ii & b & B & Hi & HI & Hp & HB & Hf%bool_decide_eq_true).
      err1. left. exists ND, i, Ii, b. repeat split; try done. by apply (bus_name_taken s Hinv b B _ HB).
    - okc; [eauto|]. intros cw (ND0 & i & Ii & b & ? & _ & Hi & HI & Hp & Hx & _). simplify_eq.
      destruct (inv_bus_up s Hinv _ _ _ HI Hp) as (B & HB & _).
      assert (existsb (λ b, match buses s !! b with Some B => bool_decide (is_Some (b_nodeNames B !! new)) | None => false end)
                (parent_buses s (nd_ifaces ND)) = true) as Hc; [|congruence].
      apply (parent_buses_exists nd ND (λ B, bool_decide (is_Some (b_nodeNames B !! new))) HND).
      exists i, Ii, b, B. repeat split; try done. apply bool_decide_eq_true. by apply (bus_name_taken s Hinv b B _ HB).
  Qed.

  Lemma spec_node_update_id nd new : StepSpec s (NodeUpdateID nd new).
  Proof.
    unfold StepSpec. cbn [step]. unfold node_update_id.
    destruct (nodes s !! nd) as [ND|] eqn:HND.
    2:{ err1. right. split; [|done]. intros Hb. is_some_none Hb. }
    destruct (decide (nd_id ND = new)) as [Heq|Hne].
    { okc; [eauto|]. intros cw (ND0 & ? & ? & ? & ? & Hx & _). simplify_eq. }
    destruct (existsb _ _) eqn:Hex.
    - apply (parent_buses_exists nd ND (λ B, bool_decide (is_Some (b_nodeIDs B !! new))) HND) in Hex
        as (i & Ii & b & B & Hi & HI & Hp & HB & Hf%bool_decide_eq_true).
      err1. left. exists ND, i, Ii, b. repeat split; try done. by apply (bus_id_taken s Hinv b B _ HB).
    - okc; [eauto|]. intros cw (ND0 & i & Ii & b & ? & _ & Hi & HI & Hp & Hx & _). simplify_eq.
      destruct (inv_bus_up s Hinv _ _ _ HI Hp) as (B & HB & _).
      assert (existsb (λ b, match buses s !! b with Some B => bool_decide (is_Some (b_nodeIDs B !! new)) | None => false end)
                (parent_buses s (nd_ifaces ND)) = true) as Hc; [|congruence].
      apply (parent_buses_exists nd ND (λ B, bool_decide (is_Some (b_nodeIDs B !! new))) HND).
      exists i, Ii, b, B. repeat split; try done. apply bool_decide_eq_true. by apply (bus_id_taken s Hinv b B _ HB).
  Qed.

  Lemma spec_bus_add_ni b oi : StepSpec s (BusAddNodeInterface b oi).
  Proof.
    unfold StepSpec. cbn [step]. unfold bus_add_node_interface.
    destruct (buses s !! b) as [B|] eqn:HB.
    2:{ err1. right. split; [|done]. intros [Hb _]. is_some_none Hb. }
    destruct oi as [i|].
    2:{ err1. left. left. done. }
    destruct (ifaces s !! i) as [Ii|] eqn:HI.
    2:{ err1. right. split; [|done]. intros [_ Hb]. specialize (Hb i eq_refl). is_some_none Hb. }
    destruct (inv_iface_node s Hinv _ _ HI) as [ND HND]. rewrite HND.
    destruct (b_nodeNames B !! nd_name ND) eqn:Hnm.
    { err1. left. right. exists i, Ii, ND. repeat split; try done. left. split; [|done].
      apply (bus_name_taken s Hinv b B _ HB). eauto. }
    destruct (b_nodeIDs B !! nd_id ND) eqn:Hid.
    { err1. left. right. exists i, Ii, ND. repeat split; try done. right. left. split; [|done].
      apply (bus_id_taken s Hinv b B _ HB). eauto. }
    destruct (addni_errs s B (elements (i_sent Ii))) as [|e es] eqn:Herrs.
    - okc; [split; [eauto|intros ? [= <-]; eauto]|].
      intros cw [[? _]|(i0 & I0 & ND0 & ? & ? & ? & Hv)]; [done|]. simplify_eq.
      destruct Hv as [[Hx _]|[[Hx _]|[[Hx _]|[Hx _]]]].
      + apply (bus_name_taken s Hinv b B _ HB) in Hx. is_some_none Hx.
      + apply (bus_id_taken s Hinv b B _ HB) in Hx. is_some_none Hx.
      + destruct Hx as (B0 & HB0 & I1 & m & M & ? & Hin & HM & Hsz). simplify_eq.
        pose proof (flat_map_nil _ _ Herrs m ltac:(by apply elem_of_elements)) as He. cbn in He. rewrite HM in He.
        unfold addni_msg_err in He. rewrite Hsz in He. done.
      + destruct Hx as (I1 & m & M & ? & Hin & HM & Hst & Hc). simplify_eq.
        pose proof (flat_map_nil _ _ Herrs m ltac:(by apply elem_of_elements)) as He. cbn in He. rewrite HM in He.
        unfold addni_msg_err in He. destruct (too_big B (m_size M)); [done|]. rewrite Hst in He.
        apply (bus_static_taken s Hinv b B _ HB) in Hc. destruct (b_static B !! m_static M); [done|]. is_some_none Hc.
    - cbn. split; [done|]. intros cw Hcw. left. right. exists i, Ii, ND. repeat split; try done. right. right.
      rewrite <- Herrs in Hcw. unfold addni_errs in Hcw. apply elem_of_list_In, in_flat_map in Hcw as (m & Hm%elem_of_list_In & Hcw%elem_of_list_In).
      apply elem_of_elements in Hm. destruct (msgs s !! m) as [M|] eqn:HM; [|by apply not_elem_of_nil in Hcw].
      unfold addni_msg_err in Hcw. destruct (too_big B (m_size M)) eqn:Hlt.
      + apply elem_of_list_singleton in Hcw as ->. left. split; [|done]. exists B. split; [done|]. exists Ii, m, M. repeat split; done.
      + destruct (m_hasStatic M) eqn:Hst; [|by apply not_elem_of_nil in Hcw].
        destruct (b_static B !! m_static M) eqn:Hbs; [|by apply not_elem_of_nil in Hcw].
        apply elem_of_list_singleton in Hcw as ->. right. split; [|done]. exists Ii, m, M. repeat split; try done.
        apply (bus_static_taken s Hinv b B _ HB). eauto.
  Qed.

  Lemma spec_iface_remove_sent i key : StepSpec s (IfRemoveSent i key).
  Proof.
    unfold StepSpec. cbn [step]. unfold iface_remove_sent.
    destruct (ifaces s !! i) as [Ii|] eqn:HI.
    2:{ err1. right. split; [|done]. intros Hb. is_some_none Hb. }
    destruct (decide (key ∈ i_sent Ii)) as [Hin|Hnin].
    - destruct (inv_sent_down s Hinv _ _ _ HI Hin) as (M & HM & _). rewrite HM.
      destruct (m_hasStatic M); (okc; [eauto|]; intros cw [Hx _]; by apply (Hx Ii)).
    - err1. left. split; [|done]. intros I0 ?. by simplify_eq.
  Qed.

  Lemma spec_iface_remove_all_sent i : StepSpec s (IfRemoveAllSent i).
  Proof.
    unfold StepSpec. cbn [step]. unfold iface_remove_all_sent.
    destruct (ifaces s !! i) as [Ii|] eqn:HI.
    - okc; [eauto|intros cw Hv; exact Hv].
    - err1. right. split; [|done]. intros Hb. is_some_none Hb.
  Qed.

  Lemma spec_iface_remove_all_received i : StepSpec s (IfRemoveAllReceived i).
  Proof.
    unfold StepSpec. cbn [step]. unfold iface_remove_all_received.
    destruct (ifaces s !! i) as [Ii|] eqn:HI.
    - okc; [eauto|intros cw Hv; exact Hv].
    - err1. right. split; [|done]. intros Hb. is_some_none Hb.
  Qed.

  Lemma spec_iface_add_received i om : StepSpec s (IfAddReceived i om).
  Proof.
    unfold StepSpec. cbn [step]. unfold iface_add_received.
    destruct (ifaces s !! i) as [Ii|] eqn:HI.
    2:{ err1. right. split; [|done]. intros [Hb _]. is_some_none Hb. }
    destruct om as [m|].
    2:{ err1. left. left. done. }
    destruct (msgs s !! m) as [M|] eqn:HM.
    2:{ err1. right. split; [|done]. intros [_ Hb]. specialize (Hb m eq_refl). is_some_none Hb. }
    unfold add_received. destruct (decide (m ∈ i_sent Ii)) as [Hin|Hnin].
    - err1. left. right. exists m, Ii. done.
    - okc; [split; [eauto|intros ? [= <-]; eauto]|].
      intros cw [[? _]|(m0 & I0 & ? & ? & ? & _)]; [done|]. by simplify_eq.
  Qed.

  Lemma spec_msg_add_receiver m oi : StepSpec s (MsgAddReceiver m oi).
  Proof.
    unfold StepSpec. cbn [step]. unfold msg_add_receiver.
    destruct (msgs s !! m) as [M|] eqn:HM.
    2:{ err1. right. split; [|done]. intros [Hb _]. is_some_none Hb. }
    destruct oi as [i|].
    2:{ err1. left. left. done. }
    destruct (ifaces s !! i) as [Ii|] eqn:HI.
    2:{ err1. right. split; [|done]. intros [_ Hb]. specialize (Hb i eq_refl). is_some_none Hb. }
    unfold add_received. destruct (decide (m ∈ i_sent Ii)) as [Hin|Hnin].
    - err1. left. right. exists i, Ii. done.
    - okc; [split; [eauto|intros ? [= <-]; eauto]|].
      intros cw [[? _]|(i0 & I0 & ? & ? & ? & _)]; [done|]. by simplify_eq.
  Qed.

  Lemma spec_iface_remove_received i key : StepSpec s (IfRemoveReceived i key).
  Proof.
    unfold StepSpec. cbn [step]. unfold iface_remove_received.
    destruct (ifaces s !! i) as [Ii|] eqn:HI.
    2:{ err1. right. split; [|done]. intros Hb. is_some_none Hb. }
    destruct (decide (key ∈ i_received Ii)) as [Hin|Hnin].
    - destruct (inv_recv_up s Hinv _ _ _ HI Hin) as (M & HM & _). rewrite HM.
      okc; [eauto|]. intros cw [Hx _]. by apply (Hx Ii).
    - err1. left. split; [|done]. intros I0 ?. by simplify_eq.
  Qed.

  Lemma spec_msg_remove_receiver m key : StepSpec s (MsgRemoveReceiver m key).
  Proof.
    unfold StepSpec. cbn [step]. unfold msg_remove_receiver.
    destruct (msgs s !! m) as [M|] eqn:HM.
    2:{ err1. right. split; [|done]. intros Hb. is_some_none Hb. }
    destruct (m_receivers M !! key) as [i|] eqn:Hr.
    - destruct (inv_recv_down s Hinv _ _ _ _ HM Hr) as (Ii & HI & _). rewrite HI.
      okc; [eauto|]. intros cw [Hx _]. specialize (Hx M HM). congruence.
    - err1. left. split; [|done]. intros M0 ?. by simplify_eq.
  Qed.

  Lemma parent_static_taken ob c :
    (∀ b, ob = Some b → is_Some (buses s !! b)) →
    parent_bus_static_taken s ob c = true ↔ ∃ b, ob = Some b ∧ bus_carries s b (has_static c).
  Proof.
    intros Hwf. unfold parent_bus_static_taken. destruct ob as [b|].
    - destruct (Hwf b eq_refl) as [B HB]. rewrite HB. rewrite bool_decide_eq_true.
      rewrite (bus_static_taken s Hinv b B _ HB). split; [eauto|]. intros (b0 & ? & ?). by simplify_eq.
    - split; [done|]. intros (? & ? & _). done.
  Qed.

  Lemma spec_iface_add_sent i om : StepSpec s (IfAddSent i om).
  Proof.
    unfold StepSpec. cbn [step]. unfold iface_add_sent.
    destruct (ifaces s !! i) as [Ii|] eqn:HI.
    2:{ err1. right. split; [|done]. intros [Hb _]. is_some_none Hb. }
    destruct om as [m|].
    2:{ err1. left. left. done. }
    destruct (msgs s !! m) as [M|] eqn:HM.
    2:{ err1. right. split; [|done]. intros [_ Hb]. specialize (Hb m eq_refl). is_some_none Hb. }
    assert (∀ b, i_parent Ii = Some b → is_Some (buses s !! b)) as Hpb.
    { intros b Hp. destruct (inv_bus_up s Hinv _ _ _ HI Hp) as (B & ? & _). eauto. }
    destruct (i_sentNames Ii !! m_name M) eqn:Hnm.
    { err1. left. right. exists m, M, Ii. repeat split; try done. left. split; [|done].
      apply (iface_name_taken s Hinv i Ii _ HI). eauto. }
    destruct (parent_bus_too_big s (i_parent Ii) (m_size M)) eqn:Hsz.
    { unfold parent_bus_too_big in Hsz. destruct (i_parent Ii) as [b|] eqn:Hp; [|done].
      destruct (buses s !! b) as [B|] eqn:HB; [|done].
      err1. left. right. exists m, M, Ii. repeat split; try done. right. left. split; [|done]. by exists b, B. }
    assert (¬ (∃ b B, i_parent Ii = Some b ∧ buses s !! b = Some B ∧ too_big B (m_size M) = true)) as Hnsz.
    { intros (b & B & Hp & HB & Hlt). unfold parent_bus_too_big in Hsz. rewrite Hp, HB in Hsz. congruence. }
    destruct (m_hasStatic M) eqn:Hst.
    - destruct (i_sentStatic Ii !! m_static M) eqn:Hss.
      { err1. left. right. exists m, M, Ii. repeat split; try done. right. right. left. repeat split; try done.
        apply (iface_static_taken s Hinv i Ii _ HI). eauto. }
      destruct (parent_bus_static_taken s (i_parent Ii) (m_static M)) eqn:Htk.
      { apply (parent_static_taken _ _ Hpb) in Htk.
        err1. left. right. exists m, M, Ii. repeat split; try done. right. right. right. left. done. }
      okc; [split; [eauto|intros ? [= <-]; eauto]|].
      intros cw [[? _]|(m0 & M0 & I0 & ? & ? & ? & Hv)]; [done|]. simplify_eq.
      destruct Hv as [[Hx _]|[[Hsz2 _]|[(_ & Hx & _)|[(_ & Hx & _)|(? & _)]]]].
      + apply (iface_name_taken s Hinv i Ii _ HI) in Hx. is_some_none Hx.
      + exact (Hnsz Hsz2).
      + apply (iface_static_taken s Hinv i Ii _ HI) in Hx. is_some_none Hx.
      + apply (parent_static_taken _ _ Hpb) in Hx. congruence.
      + congruence.
    - destruct (i_sentIDs Ii !! m_id M) eqn:Hid.
      { err1. left. right. exists m, M, Ii. repeat split; try done. right. right. right. right. repeat split; try done.
        apply (iface_id_taken s Hinv i Ii _ HI). eauto. }
      okc; [split; [eauto|intros ? [= <-]; eauto]|].
      intros cw [[? _]|(m0 & M0 & I0 & ? & ? & ? & Hv)]; [done|]. simplify_eq.
      destruct Hv as [[Hx _]|[[Hsz2 _]|[(? & _)|[(? & _)|(_ & Hx & _)]]]]; try congruence.
      + apply (iface_name_taken s Hinv i Ii _ HI) in Hx. is_some_none Hx.
      + apply (iface_id_taken s Hinv i Ii _ HI) in Hx. is_some_none Hx.
  Qed.

  Lemma spec_msg_update_name m new : StepSpec s (MsgUpdateName m new).
  Proof.
    unfold StepSpec. cbn [step]. unfold msg_update_name.
    destruct (msgs s !! m) as [M|] eqn:HM.
    2:{ err1. right. split; [|done]. intros Hb. is_some_none Hb. }
    destruct (decide (m_name M = new)) as [Heq|Hne].
    { okc; [eauto|]. intros cw (M0 & i & ? & Hx & _). simplify_eq. }
    destruct (m_sender M) as [i|] eqn:Hsnd.
    - destruct (inv_sent_up s Hinv _ _ _ HM Hsnd) as (Ii & HI & _). rewrite HI.
      destruct (i_sentNames Ii !! new) eqn:Hnm.
      + err1. left. exists M, i. repeat split; try done. apply (iface_name_taken s Hinv i Ii _ HI). eauto.
      + okc; [eauto|]. intros cw (M0 & i0 & ? & _ & ? & Hx & _). simplify_eq.
        apply (iface_name_taken s Hinv i Ii _ HI) in Hx. is_some_none Hx.
    - okc; [eauto|]. intros cw (M0 & i0 & ? & _ & ? & _). simplify_eq.
  Qed.

  Lemma spec_msg_update_id m new : StepSpec s (MsgUpdateID m new).
  Proof.
    unfold StepSpec. cbn [step]. unfold msg_update_id.
    destruct (msgs s !! m) as [M|] eqn:HM.
    2:{ err1. right. split; [|done]. intros Hb. is_some_none Hb. }
    destruct (bool_decide (m_id M = new) && negb (m_hasStatic M)) eqn:Hsame.
    { apply andb_true_iff in Hsame as [Hx%bool_decide_eq_true Hy%negb_true_iff].
      okc; [eauto|]. intros cw (M0 & i & ? & Hn & _). simplify_eq. by apply Hn. }
    destruct (m_sender M) as [i|] eqn:Hsnd.
    - destruct (inv_sent_up s Hinv _ _ _ HM Hsnd) as (Ii & HI & _). rewrite HI.
      destruct (i_sentIDs Ii !! new) eqn:Hid.
      + err1. left. exists M, i. repeat split; try done.
        * intros [Hx Hy]. rewrite Hy in Hsame. cbn in Hsame. rewrite andb_true_r in Hsame.
          by apply bool_decide_eq_false in Hsame.
        * apply (iface_id_taken s Hinv i Ii _ HI). eauto.
      + destruct (m_hasStatic M); (okc; [eauto|]; intros cw (M0 & i0 & ? & _ & ? & Hx & _); simplify_eq;
          apply (iface_id_taken s Hinv i Ii _ HI) in Hx; is_some_none Hx).
    - okc; [eauto|]. intros cw (M0 & i0 & ? & _ & ? & _). simplify_eq.
  Qed.

  Lemma spec_msg_set_static m c : StepSpec s (MsgSetStatic m c).
  Proof.
    unfold StepSpec. cbn [step]. unfold msg_set_static.
    destruct (msgs s !! m) as [M|] eqn:HM.
    2:{ err1. right. split; [|done]. intros Hb. is_some_none Hb. }
    destruct (m_sender M) as [i|] eqn:Hsnd.
    - destruct (inv_sent_up s Hinv _ _ _ HM Hsnd) as (Ii & HI & _). rewrite HI.
      assert (∀ b, i_parent Ii = Some b → is_Some (buses s !! b)) as Hpb.
      { intros b Hp. destruct (inv_bus_up s Hinv _ _ _ HI Hp) as (B & ? & _). eauto. }
      destruct (i_sentStatic Ii !! c) eqn:Hss.
      { err1. left. exists M, i, Ii. repeat split; try done. left. apply (iface_static_taken s Hinv i Ii _ HI). eauto. }
      destruct (parent_bus_static_taken s (i_parent Ii) c) eqn:Htk.
      { apply (parent_static_taken _ _ Hpb) in Htk. err1. left. exists M, i, Ii. repeat split; try done. by right. }
      destruct (m_hasStatic M); (okc; [eauto|]; intros cw (M0 & i0 & I0 & ? & ? & ? & [Hx|Hx] & _); simplify_eq;
        [apply (iface_static_taken s Hinv i Ii _ HI) in Hx; is_some_none Hx
        |apply (parent_static_taken _ _ Hpb) in Hx; congruence]).
    - okc; [eauto|]. intros cw (M0 & i0 & I0 & ? & ? & _). simplify_eq.
  Qed.

  Lemma spec_enum_add_value e ov fits : StepSpec s (EnumAddValue e ov fits).
  Proof.
    unfold StepSpec. cbn [step]. unfold enum_add_value.
    destruct (enums s !! e) as [E|] eqn:HE.
    2:{ err1. right. split; [|done]. intros [Hb _]. is_some_none Hb. }
    destruct ov as [v|].
    2:{ err1. left. left. done. }
    destruct (evals s !! v) as [V|] eqn:HV.
    2:{ err1. right. split; [|done]. intros [_ Hb]. specialize (Hb v eq_refl). is_some_none Hb. }
    unfold verify_value_index. destruct (e_valueIdx E !! v_index V) eqn:Hix.
    { cbn. err1. left. right. exists v, V, E. repeat split; try done. left. split; [|done].
      apply (enum_idx_taken s Hinv e E _ HE). eauto. }
    destruct ((e_maxIndex E <? v_index V)%Z && negb fits) eqn:Hlay.
    { apply andb_true_iff in Hlay as [Hlt%Z.ltb_lt Hf%negb_true_iff]. cbn.
      err1. left. right. exists v, V, E. repeat split; try done. right. left. done. }
    destruct (e_valueNames E !! v_name V) eqn:Hnm.
    { err1. left. right. exists v, V, E. repeat split; try done. right. right. split; [|done].
      apply (enum_name_taken s Hinv e E _ HE). eauto. }
    okc; [split; [eauto|intros ? [= <-]; eauto]|].
    intros cw [[? _]|(v0 & V0 & E0 & ? & ? & ? & Hv)]; [done|]. simplify_eq.
    destruct Hv as [[Hx _]|[(Hlt & Hf & _)|[Hx _]]].
    - apply (enum_idx_taken s Hinv e E _ HE) in Hx. is_some_none Hx.
    - apply andb_false_iff in Hlay as [Hx%Z.ltb_ge|Hx%negb_false_iff]; [lia|congruence].
    - apply (enum_name_taken s Hinv e E _ HE) in Hx. is_some_none Hx.
  Qed.

  Lemma spec_enum_remove_value e key : StepSpec s (EnumRemoveValue e key).
  Proof.
    unfold StepSpec. cbn [step]. unfold enum_remove_value.
    destruct (enums s !! e) as [E|] eqn:HE.
    2:{ err1. right. split; [|done]. intros Hb. is_some_none Hb. }
    destruct (decide (key ∈ e_values E)) as [Hin|Hnin].
    - destruct (inv_enum_down s Hinv _ _ _ HE Hin) as (V & HV & _). rewrite HV.
      okc; [eauto|]. intros cw [Hx _]. by apply (Hx E).
    - err1. left. split; [|done]. intros E0 ?. by simplify_eq.
  Qed.

  Lemma spec_enum_remove_all e : StepSpec s (EnumRemoveAllValues e).
  Proof.
    unfold StepSpec. cbn [step]. unfold enum_remove_all_values.
    destruct (enums s !! e) as [E|] eqn:HE.
    - okc; [eauto|intros cw Hv; exact Hv].
    - err1. right. split; [|done]. intros Hb. is_some_none Hb.
  Qed.

  Lemma spec_eval_update_name v new : StepSpec s (EvalUpdateName v new).
  Proof.
    unfold StepSpec. cbn [step]. unfold eval_update_name.
    destruct (evals s !! v) as [V|] eqn:HV.
    2:{ err1. right. split; [|done]. intros Hb. is_some_none Hb. }
    destruct (decide (v_name V = new)) as [Heq|Hne].
    { okc; [eauto|]. intros cw (V0 & e & ? & Hx & _). simplify_eq. }
    destruct (v_parent V) as [e|] eqn:Hpar.
    - destruct (inv_enum_up s Hinv _ _ _ HV Hpar) as (E & HE & _). rewrite HE.
      destruct (e_valueNames E !! new) eqn:Hnm.
      + err1. left. exists V, e. repeat split; try done. apply (enum_name_taken s Hinv e E _ HE). eauto.
      + okc; [eauto|]. intros cw (V0 & e0 & ? & _ & ? & Hx & _). simplify_eq.
        apply (enum_name_taken s Hinv e E _ HE) in Hx. is_some_none Hx.
    - okc; [eauto|]. intros cw (V0 & e0 & ? & _ & ? & _). simplify_eq.
  Qed.

  Lemma spec_eval_update_index v new fits : StepSpec s (EvalUpdateIndex v new fits).
  Proof.
    unfold StepSpec. cbn [step]. unfold eval_update_index.
    destruct (evals s !! v) as [V|] eqn:HV.
    2:{ err1. right. split; [|done]. intros Hb. is_some_none Hb. }
    destruct (decide (v_index V = new)) as [Heq|Hne].
    { okc; [eauto|]. intros cw (V0 & e & E & ? & Hx & _). simplify_eq. }
    destruct (v_parent V) as [e|] eqn:Hpar.
    - destruct (inv_enum_up s Hinv _ _ _ HV Hpar) as (E & HE & _). rewrite HE.
      unfold verify_value_index. destruct (e_valueIdx E !! new) eqn:Hix.
      { cbn. err1. left. exists V, e, E. repeat split; try done. left. split; [|done].
        apply (enum_idx_taken s Hinv e E _ HE). eauto. }
      destruct ((e_maxIndex E <? new)%Z && negb fits) eqn:Hlay.
      { apply andb_true_iff in Hlay as [Hlt%Z.ltb_lt Hf%negb_true_iff]. cbn.
        err1. left. exists V, e, E. repeat split; try done. right. done. }
      okc; [eauto|]. intros cw (V0 & e0 & E0 & ? & _ & ? & ? & Hv). simplify_eq.
      destruct Hv as [[Hx _]|(Hlt & Hf & _)].
      + apply (enum_idx_taken s Hinv e E _ HE) in Hx. is_some_none Hx.
      + apply andb_false_iff in Hlay as [Hx%Z.ltb_ge|Hx%negb_false_iff]; [lia|congruence].
    - okc; [eauto|]. intros cw (V0 & e0 & E0 & ? & _ & ? & _). simplify_eq.
  Qed.

  (* ---- all operations ---------------------------------------------------------------------- *)
  Theorem step_spec o : StepSpec s o.
  Proof.
    destruct o.
    1-7: by apply spec_constructors.
    - apply spec_net_add_bus. - apply spec_net_remove_bus. - apply spec_net_remove_all.
    - apply spec_bus_update_name. - apply spec_bus_add_ni. - apply spec_bus_remove_ni. - apply spec_bus_remove_all.
    - apply spec_node_update_name. - apply spec_node_update_id. - apply spec_node_add_interface.
    - apply spec_node_remove_interface.
    - apply spec_iface_add_sent. - apply spec_iface_remove_sent. - apply spec_iface_remove_all_sent.
    - apply spec_iface_add_received. - apply spec_iface_remove_received. - apply spec_iface_remove_all_received.
    - apply spec_msg_update_name. - apply spec_msg_update_id. - apply spec_msg_set_static.
    - apply spec_msg_add_receiver. - apply spec_msg_remove_receiver.
    - apply spec_enum_add_value. - apply spec_enum_remove_value. - apply spec_enum_remove_all.
    - apply spec_eval_update_name. - apply spec_eval_update_index.
  Qed.
End spec.

(* C06: a call is refused exactly when its documented precondition is violated *)
Theorem refused_iff_pre s o : Inv s → (is_err (step s o).2 = true ↔ ¬ pre s o).
Proof.
  intros Hinv. pose proof (step_spec s Hinv o) as Hs. unfold StepSpec in Hs.
  destruct (step s o).2 as [|cs]; cbn.
  - split; [done|]. intros Hn. by destruct Hn.
  - split; [|done]. intros _ [Hwf Hnv]. destruct Hs as [Hne Hall].
    destruct cs as [|cw cs]; [done|]. destruct (Hall cw ltac:(left)) as [Hv|[Hnwf _]]; [by apply (Hnv cw)|done].
Qed.

(* C06: every returned cause is a documented cause whose precondition is really violated *)
Theorem cause_spec s o cs : Inv s → (step s o).2 = Err cs → cs ≠ [] ∧ ∀ cw, cw ∈ cs → doc_cause s o cw.
Proof.
  intros Hinv Hr. pose proof (step_spec s Hinv o) as Hs. unfold StepSpec in Hs. by rewrite Hr in Hs.
Qed.

(* C04: a key that is in use is refused; a key that is free is accepted whatever the history was
   (acceptance depends on the current contents only) *)
Corollary used_key_refused s o cw : Inv s → viol s o cw → is_err (step s o).2 = true.
Proof. intros Hinv Hv. apply refused_iff_pre; [done|]. intros [_ Hn]. by apply (Hn cw). Qed.

Corollary released_key_reusable s o1 o2 :
  Inv s → op_ok s o1 → pre (step s o1).1 o2 → (step (step s o1).1 o2).2 = Ok.
Proof.
  intros Hinv Hok Hpre. pose proof (inv_step s o1 Hinv Hok) as Hinv'.
  destruct ((step (step s o1).1 o2).2) as [|cs] eqn:Hr; [done|].
  exfalso. assert (is_err (step (step s o1).1 o2).2 = true) as He by (by rewrite Hr).
  by apply (refused_iff_pre _ _ Hinv') in He.
Qed.

Lemma cause_spec_In s o cs :
  Inv s → (step s o).2 = Err cs → cs ≠ [] ∧ ∀ cw, In cw cs → doc_cause s o cw.
Proof.
  intros Hinv Hr. destruct (cause_spec s o cs Hinv Hr) as [Hne Hall].
  split; [exact Hne|]. intros cw Hin. apply Hall. by apply elem_of_list_In.
Qed.

(* ---- a rename / id change / removal really releases the key (C04: "a key released by a rename, id
   change or removal is immediately reusable"): afterwards no child of the container carries it,
   so by [refused_iff_pre] the next add / rename that needs it is accepted ------------------------ *)
Section released.
  Context (s : state) (Hinv : Inv s).

  (* Message.UpdateName releases the old name in the sender interface *)
  Theorem rename_releases_name m M i new :
    msgs s !! m = Some M → m_sender M = Some i → m_name M ≠ new →
    (step s (MsgUpdateName m new)).2 = Ok →
    ¬ iface_sends (step s (MsgUpdateName m new)).1 i (λ M', m_name M' = m_name M).
  Proof.
    intros HM Hs Hne Hok.
    pose proof (inv_step s (MsgUpdateName m new) Hinv I) as Hinv'.
    revert Hok Hinv'. cbn [step]. unfold msg_update_name. rewrite HM, Hs.
    destruct (decide (m_name M = new)); [done|].
    destruct (inv_sent_up s Hinv _ _ _ HM Hs) as (Ii & HI & _). rewrite HI.
    destruct (i_sentNames Ii !! new) eqn:Hnm; [done|]. cbn. intros _ Hinv' Hsend.
    eapply (iface_name_taken _ Hinv' i) in Hsend; [|cbn; by rewrite lookup_insert].
    cbn in Hsend. unfold modify_key in Hsend. rewrite lookup_insert_ne, lookup_delete in Hsend by done.
    by destruct Hsend.
  Qed.

  (* Message.UpdateID on a message with a static CAN-ID releases that CAN-ID in the sender
     interface and on its bus *)
  Theorem update_id_releases_static m M i Ii new :
    msgs s !! m = Some M → m_sender M = Some i → ifaces s !! i = Some Ii → m_hasStatic M = true →
    (step s (MsgUpdateID m new)).2 = Ok →
    let s' := (step s (MsgUpdateID m new)).1 in
    ¬ iface_sends s' i (has_static (m_static M)) ∧
    ∀ b, i_parent Ii = Some b → ¬ bus_carries s' b (has_static (m_static M)).
  Proof.
    intros HM Hs HI Hst Hok.
    pose proof (inv_step s (MsgUpdateID m new) Hinv I) as Hinv'.
    revert Hok Hinv'. cbn [step]. unfold msg_update_id. rewrite HM, Hs, HI, Hst. cbn.
    rewrite andb_false_r.
    destruct (i_sentIDs Ii !! new) eqn:Hid; [done|]. cbn. intros _ Hinv'. split.
    - intros Hsend. eapply (iface_static_taken _ Hinv' i) in Hsend; [|cbn; by rewrite lookup_insert].
      cbn in Hsend. rewrite lookup_delete in Hsend. by destruct Hsend.
    - intros b Hp Hc. destruct (inv_bus_up s Hinv _ _ _ HI Hp) as (B & HB & _).
      rewrite Hp in Hinv', Hc. cbn [upd_parent_bus] in Hinv', Hc. rewrite (alter_as_insert _ _ _ _ HB) in Hinv', Hc.
      eapply (bus_static_taken _ Hinv' b) in Hc; [|cbn; by rewrite lookup_insert].
      cbn in Hc. rewrite lookup_delete in Hc. by destruct Hc.
  Qed.

  (* NodeInterface.RemoveSentMessage releases the name of the message in the interface *)
  Theorem removal_releases_name i Ii m M :
    ifaces s !! i = Some Ii → m ∈ i_sent Ii → msgs s !! m = Some M →
    ¬ iface_sends (step s (IfRemoveSent i m)).1 i (λ M', m_name M' = m_name M).
  Proof.
    intros HI Hin HM.
    pose proof (inv_step s (IfRemoveSent i m) Hinv I) as Hinv'.
    revert Hinv'. cbn [step]. unfold iface_remove_sent. rewrite HI. rewrite decide_True by done. rewrite HM.
    destruct (m_hasStatic M); cbn; intros Hinv' Hsend.
    all: eapply (iface_name_taken _ Hinv' i) in Hsend; [|cbn; by rewrite lookup_insert];
      cbn in Hsend; rewrite lookup_delete in Hsend; by destruct Hsend.
  Qed.
End released.
