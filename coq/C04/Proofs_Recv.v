(* C04/C05 — invariant preservation: receivers (NodeInterface.AddReceivedMessage /
   RemoveReceivedMessage / RemoveAllReceivedMessages, Message.AddReceiver / RemoveReceiver). *)
From Acme.C04 Require Import ProofsTac.

(* the sent-message side and the bus side do not see a change of received / receivers *)
Definition iface_core (Ii : iface_rec) : iface_rec := Ii <| i_received := ∅ |>.
Definition msg_core (M : msg_rec) : msg_rec := M <| m_receivers := ∅ |>.

Lemma iface_core_fields I1 I2 : iface_core I1 = iface_core I2 →
  i_parent I1 = i_parent I2 ∧ i_node I1 = i_node I2 ∧ i_number I1 = i_number I2 ∧ i_sent I1 = i_sent I2 ∧
  i_sentNames I1 = i_sentNames I2 ∧ i_sentIDs I1 = i_sentIDs I2 ∧ i_sentStatic I1 = i_sentStatic I2.
Proof. destruct I1, I2. unfold iface_core. cbn. intros [=]. by subst. Qed.
Lemma msg_core_fields M1 M2 : msg_core M1 = msg_core M2 →
  m_sender M1 = m_sender M2 ∧ m_name M1 = m_name M2 ∧ m_id M1 = m_id M2 ∧ m_static M1 = m_static M2 ∧
  m_hasStatic M1 = m_hasStatic M2.
Proof. destruct M1, M2. unfold msg_core. cbn. intros [=]. by subst. Qed.

Lemma inv_recv_frame_gen s is' ms' :
  Inv s →
  (∀ i0, iface_core <$> is' !! i0 = iface_core <$> ifaces s !! i0) →
  (∀ m0, msg_core <$> ms' !! m0 = msg_core <$> msgs s !! m0) →
  (∀ m0 M0 nd i0, ms' !! m0 = Some M0 → m_receivers M0 !! nd = Some i0 →
     ∃ I0, is' !! i0 = Some I0 ∧ i_node I0 = nd ∧ m0 ∈ i_received I0) →
  (∀ i0 I0 m0, is' !! i0 = Some I0 → m0 ∈ i_received I0 →
     ∃ M0, ms' !! m0 = Some M0 ∧ m_receivers M0 !! i_node I0 = Some i0) →
  Inv (s <| ifaces := is' |> <| msgs := ms' |>).
Proof.
  intros Hinv His Hms Hrd Hru.
  assert (∀ i0 I0, is' !! i0 = Some I0 → ∃ I1, ifaces s !! i0 = Some I1 ∧ iface_core I0 = iface_core I1) as Hi1.
  { intros i0 I0 Hl. specialize (His i0). rewrite Hl in His. destruct (ifaces s !! i0) as [I1|]; [|done].
    exists I1. split; [done|]. by apply (inj Some). }
  assert (∀ i0 I1, ifaces s !! i0 = Some I1 → ∃ I0, is' !! i0 = Some I0 ∧ iface_core I0 = iface_core I1) as Hi2.
  { intros i0 I1 Hl. specialize (His i0). rewrite Hl in His. destruct (is' !! i0) as [I0|]; [|done].
    exists I0. split; [done|]. by apply (inj Some). }
  assert (∀ m0 M0, ms' !! m0 = Some M0 → ∃ M1, msgs s !! m0 = Some M1 ∧ msg_core M0 = msg_core M1) as Hm1.
  { intros m0 M0 Hl. specialize (Hms m0). rewrite Hl in Hms. destruct (msgs s !! m0) as [M1|]; [|done].
    exists M1. split; [done|]. by apply (inj Some). }
  assert (∀ m0 M1, msgs s !! m0 = Some M1 → ∃ M0, ms' !! m0 = Some M0 ∧ msg_core M0 = msg_core M1) as Hm2.
  { intros m0 M1 Hl. specialize (Hms m0). rewrite Hl in Hms. destruct (ms' !! m0) as [M0|]; [|done].
    exists M0. split; [done|]. by apply (inj Some). }
  assert (∀ i0, i_parent <$> is' !! i0 = i_parent <$> ifaces s !! i0) as Hpar.
  { intros i0. destruct (is' !! i0) as [I0|] eqn:Hl.
    - destruct (Hi1 _ _ Hl) as (I1 & -> & (Hx & _)%iface_core_fields). cbn. by rewrite Hx.
    - specialize (His i0). rewrite Hl in His. by destruct (ifaces s !! i0). }
  assert (∀ b h, key_bus_static ms' is' b h = key_bus_static (msgs s) (ifaces s) b h) as Hkb.
  { intros b h. rewrite (key_bus_static_iface_frame _ (ifaces s)) by done.
    unfold key_bus_static. destruct (ms' !! h) as [M0|] eqn:Hl.
    - destruct (Hm1 _ _ Hl) as (M1 & -> & Hc). destruct M0, M1. unfold msg_core in Hc. cbn in Hc. by simplify_eq.
    - specialize (Hms h). rewrite Hl in Hms. by destruct (msgs s !! h). }
  assert (∀ i h, key_msg_name ms' i h = key_msg_name (msgs s) i h ∧ key_msg_id ms' i h = key_msg_id (msgs s) i h ∧
                 key_msg_static ms' i h = key_msg_static (msgs s) i h) as Hkm.
  { intros i h. unfold key_msg_name, key_msg_id, key_msg_static. destruct (ms' !! h) as [M0|] eqn:Hl.
    - destruct (Hm1 _ _ Hl) as (M1 & -> & Hc). destruct M0, M1. unfold msg_core in Hc. cbn in Hc. by simplify_eq.
    - specialize (Hms h). rewrite Hl in Hms. by destruct (msgs s !! h). }
  destruct Hinv. split; cbn; try assumption.
  - intros h Hh. destruct (inv_fresh h Hh) as (?&?&?&Hi&Hm&?&?). repeat split; try done.
    + specialize (His h). rewrite Hi in His. by destruct (is' !! h).
    + specialize (Hms h). rewrite Hm in Hms. by destruct (ms' !! h).
  - intros b B nd i0 HB Hni. destruct (inv_bus_down _ _ _ _ HB Hni) as (I1 & HI1 & ? & ?).
    destruct (Hi2 _ _ HI1) as (I0 & HI0 & (? & ? & _)%iface_core_fields).
    exists I0. split; [done|]. split; congruence.
  - intros i0 I0 b Hl Hpb. destruct (Hi1 _ _ Hl) as (I1 & HI1 & (Hp & Hn & _)%iface_core_fields).
    rewrite Hp in Hpb. rewrite Hn. eauto.
  - intros b B HB. eapply IndexOK_ext; [by eauto|]. intros h. apply Hkb.
  - intros nd ND k i0 HND Hk0. destruct (inv_node_ifaces _ _ _ _ HND Hk0) as (I1 & HI1 & ? & ?).
    destruct (Hi2 _ _ HI1) as (I0 & HI0 & (? & ? & ? & _)%iface_core_fields).
    exists I0. split; [done|]. split; congruence.
  - intros i0 I0 Hl. destruct (Hi1 _ _ Hl) as (I1 & HI1 & (Hp & Hn & _)%iface_core_fields).
    rewrite Hn. eauto.
  - intros i0 I0 b Hl Hpb. destruct (Hi1 _ _ Hl) as (I1 & HI1 & (Hp & Hn & _)%iface_core_fields).
    rewrite Hp in Hpb. rewrite Hn. eauto.
  - intros i0 I0 m0 Hl Hin. destruct (Hi1 _ _ Hl) as (I1 & HI1 & (_ & _ & _ & Hs & _)%iface_core_fields).
    rewrite Hs in Hin. destruct (inv_sent_down _ _ _ HI1 Hin) as (M1 & HM1 & ?).
    destruct (Hm2 _ _ HM1) as (M0 & HM0 & (? & _)%msg_core_fields).
    exists M0. split; [done|]. congruence.
  - intros m0 M0 i0 Hl Hsd. destruct (Hm1 _ _ Hl) as (M1 & HM1 & (Hs & _)%msg_core_fields).
    rewrite Hs in Hsd. destruct (inv_sent_up _ _ _ HM1 Hsd) as (I1 & HI1 & ?).
    destruct (Hi2 _ _ HI1) as (I0 & HI0 & (_ & _ & _ & ? & _)%iface_core_fields).
    exists I0. split; [done|]. congruence.
  - intros i0 I0 Hl. destruct (Hi1 _ _ Hl) as (I1 & HI1 & (_ & _ & _ & _ & Hx & _)%iface_core_fields).
    rewrite Hx. eapply IndexOK_ext; [by eauto|]. intros h. apply Hkm.
  - intros i0 I0 Hl. destruct (Hi1 _ _ Hl) as (I1 & HI1 & (_ & _ & _ & _ & _ & Hx & _)%iface_core_fields).
    rewrite Hx. eapply IndexOK_ext; [by eauto|]. intros h. apply Hkm.
  - intros i0 I0 Hl. destruct (Hi1 _ _ Hl) as (I1 & HI1 & (_ & _ & _ & _ & _ & _ & Hx)%iface_core_fields).
    rewrite Hx. eapply IndexOK_ext; [by eauto|]. intros h. apply Hkm.
Qed.

Lemma inv_recv_frame s i m Ii M I' M' :
  Inv s → ifaces s !! i = Some Ii → msgs s !! m = Some M →
  I' = Ii <| i_received := i_received I' |> →
  M' = M <| m_receivers := m_receivers M' |> →
  (∀ m0 M0 nd i0, <[m:=M']> (msgs s) !! m0 = Some M0 → m_receivers M0 !! nd = Some i0 →
     ∃ I0, <[i:=I']> (ifaces s) !! i0 = Some I0 ∧ i_node I0 = nd ∧ m0 ∈ i_received I0) →
  (∀ i0 I0 m0, <[i:=I']> (ifaces s) !! i0 = Some I0 → m0 ∈ i_received I0 →
     ∃ M0, <[m:=M']> (msgs s) !! m0 = Some M0 ∧ m_receivers M0 !! i_node I0 = Some i0) →
  Inv (s <| ifaces := <[i:=I']> (ifaces s) |> <| msgs := <[m:=M']> (msgs s) |>).
Proof.
  intros Hinv HI HM HI' HM' Hrd Hru. apply inv_recv_frame_gen; try done.
  - intros i0. destruct (decide (i0 = i)) as [->|]; [|by rewrite lookup_insert_ne].
    rewrite lookup_insert, HI. cbn. f_equal. rewrite HI'. by destruct Ii.
  - intros m0. destruct (decide (m0 = m)) as [->|]; [|by rewrite lookup_insert_ne].
    rewrite lookup_insert, HM. cbn. f_equal. rewrite HM'. by destruct M.
Qed.

Lemma inv_add_received s i m Ii M :
  Inv s → ifaces s !! i = Some Ii → msgs s !! m = Some M → recv_slot_free s i m →
  Inv (add_received s i m Ii M).1.
Proof.
  intros Hinv HI HM Hfree. unfold add_received.
  destruct (decide (m ∈ i_sent Ii)); [done|]. cbn [fst ok].
  specialize (Hfree Ii M HI HM).
  eapply inv_recv_frame; eauto.
  - intros m0 M0 nd i0 Hl Hr. lookup_cases Hl.
    + destruct (decide (nd = i_node Ii)) as [->|Hnd].
      * rewrite lookup_insert in Hr. simplify_eq. eexists. rewrite lookup_insert.
        split; [done|]. cbn. split; [done|]. set_solver.
      * rewrite lookup_insert_ne in Hr by done.
        destruct (inv_recv_down s Hinv _ _ _ _ HM Hr) as (I0 & HI0 & Hn0 & Hin0).
        exists I0. rewrite lookup_insert_ne; [done|]. intros ->. simplify_eq.
    + destruct (inv_recv_down s Hinv _ _ _ _ Hl Hr) as (I0 & HI0 & Hn0 & Hin0).
      destruct (decide (i0 = i)) as [->|]; [|by exists I0; rewrite lookup_insert_ne].
      eexists. rewrite lookup_insert. split; [done|]. simplify_eq. cbn. split; [done|]. set_solver.
  - intros i0 I0 m0 Hl Hin. lookup_cases Hl.
    + apply elem_of_union in Hin as [->%elem_of_singleton|Hin].
      * eexists. rewrite lookup_insert. split; [done|]. cbn. by rewrite lookup_insert.
      * destruct (inv_recv_up s Hinv _ _ _ HI Hin) as (M0 & HM0 & Hr0).
        destruct (decide (m0 = m)) as [->|]; [|by exists M0; rewrite lookup_insert_ne].
        eexists. rewrite lookup_insert. split; [done|]. cbn. by rewrite lookup_insert.
    + destruct (inv_recv_up s Hinv _ _ _ Hl Hin) as (M0 & HM0 & Hr0).
      destruct (decide (m0 = m)) as [->|]; [|by exists M0; rewrite lookup_insert_ne].
      eexists. rewrite lookup_insert. split; [done|]. cbn. simplify_eq.
      destruct (decide (i_node I0 = i_node Ii)) as [Heq|]; [|by rewrite lookup_insert_ne].
      rewrite Heq in Hr0. destruct Hfree; congruence.
Qed.

Lemma inv_iface_add_received s i om : Inv s → op_ok s (IfAddReceived i om) → Inv (iface_add_received s i om).1.
Proof.
  intros Hinv Hok. unfold iface_add_received.
  destruct (ifaces s !! i) as [Ii|] eqn:HI; [|done].
  destruct om as [m|]; [|done].
  destruct (msgs s !! m) as [M|] eqn:HM; [|done].
  by apply inv_add_received.
Qed.

Lemma inv_msg_add_receiver s m oi : Inv s → op_ok s (MsgAddReceiver m oi) → Inv (msg_add_receiver s m oi).1.
Proof.
  intros Hinv Hok. unfold msg_add_receiver.
  destruct (msgs s !! m) as [M|] eqn:HM; [|done].
  destruct oi as [i|]; [|done].
  destruct (ifaces s !! i) as [Ii|] eqn:HI; [|done].
  by apply inv_add_received.
Qed.

Lemma inv_remove_received s i m Ii M :
  Inv s → ifaces s !! i = Some Ii → msgs s !! m = Some M → m ∈ i_received Ii →
  Inv (remove_received s i m Ii M).
Proof.
  intros Hinv HI HM Hin. unfold remove_received.
  destruct (inv_recv_up s Hinv _ _ _ HI Hin) as (M0 & HM0 & Hrc). simplify_eq.
  eapply inv_recv_frame; eauto.
  - intros m0 M0 nd i0 Hl Hr. lookup_cases Hl.
    + destruct (decide (nd = i_node Ii)) as [->|Hnd]; [by rewrite lookup_delete in Hr|].
      rewrite lookup_delete_ne in Hr by done.
      destruct (inv_recv_down s Hinv _ _ _ _ HM Hr) as (I0 & HI0 & Hn0 & Hin0).
      exists I0. rewrite lookup_insert_ne; [done|]. intros ->. simplify_eq.
    + destruct (inv_recv_down s Hinv _ _ _ _ Hl Hr) as (I0 & HI0 & Hn0 & Hin0).
      destruct (decide (i0 = i)) as [->|]; [|by exists I0; rewrite lookup_insert_ne].
      eexists. rewrite lookup_insert. split; [done|]. simplify_eq. cbn. split; [done|]. set_solver.
  - intros i0 I0 m0 Hl Hin0. lookup_cases Hl.
    + apply elem_of_difference in Hin0 as [Hin0 Hne%not_elem_of_singleton].
      destruct (inv_recv_up s Hinv _ _ _ HI Hin0) as (M0 & HM0 & Hr0).
      exists M0. by rewrite lookup_insert_ne.
    + destruct (inv_recv_up s Hinv _ _ _ Hl Hin0) as (M0 & HM0 & Hr0).
      destruct (decide (m0 = m)) as [->|]; [|by exists M0; rewrite lookup_insert_ne].
      eexists. rewrite lookup_insert. split; [done|]. cbn. simplify_eq.
      rewrite lookup_delete_ne; [done|]. intros Heq. rewrite <- Heq in Hr0. congruence.
Qed.

Lemma inv_iface_remove_received s i key : Inv s → Inv (iface_remove_received s i key).1.
Proof.
  intros Hinv. unfold iface_remove_received.
  destruct (ifaces s !! i) as [Ii|] eqn:HI; [|done].
  destruct (decide (key ∈ i_received Ii)) as [Hin|]; [|done].
  destruct (msgs s !! key) as [M|] eqn:HM; [|done].
  by apply inv_remove_received.
Qed.

Lemma inv_msg_remove_receiver s m key : Inv s → Inv (msg_remove_receiver s m key).1.
Proof.
  intros Hinv. unfold msg_remove_receiver.
  destruct (msgs s !! m) as [M|] eqn:HM; [|done].
  destruct (m_receivers M !! key) as [i|] eqn:Hr; [|done].
  destruct (ifaces s !! i) as [Ii|] eqn:HI; [|done].
  destruct (inv_recv_down s Hinv _ _ _ _ HM Hr) as (I0 & HI0 & Hn0 & Hin0). simplify_eq.
  by apply inv_remove_received.
Qed.

Lemma inv_iface_remove_all_received s i : Inv s → Inv (iface_remove_all_received s i).1.
Proof.
  intros Hinv. unfold iface_remove_all_received.
  destruct (ifaces s !! i) as [Ii|] eqn:HI; [|done].
  cbn [fst ok].
  set (f := λ M : msg_rec, M <| m_receivers ::= delete (i_node Ii) |>).
  set (l := elements (i_received Ii)).
  assert (∀ x, f (f x) = f x) as Hf.
  { intros x. unfold f. destruct x. cbn. unfold set. cbn. f_equal. by rewrite delete_idemp. }
  replace (s <| msgs := alter_all f l (msgs s) |> <| ifaces := <[i:=Ii <| i_received := ∅ |>]> (ifaces s) |>)
    with (s <| ifaces := <[i:=Ii <| i_received := ∅ |>]> (ifaces s) |> <| msgs := alter_all f l (msgs s) |>)
    by (by destruct s).
  (* a message lists i as receiver iff it is in the received set of i *)
  assert (∀ m M, msgs s !! m = Some M → (m ∈ l ↔ m_receivers M !! i_node Ii = Some i)) as Hkids.
  { intros m M HM. unfold l. rewrite elem_of_elements. split.
    - intros Hin. destruct (inv_recv_up s Hinv _ _ _ HI Hin) as (M0 & ? & ?). by simplify_eq.
    - intros Hr. destruct (inv_recv_down s Hinv _ _ _ _ HM Hr) as (I0 & ? & ? & ?). by simplify_eq. }
  apply inv_recv_frame_gen; try done.
  - intros i0. destruct (decide (i0 = i)) as [->|]; [|by rewrite lookup_insert_ne].
    by rewrite lookup_insert, HI.
  - intros m0. rewrite lookup_alter_all by done. case_decide; [|done].
    destruct (msgs s !! m0) as [M|]; [|done]. by destruct M.
  - intros m0 M0 nd i0. rewrite lookup_alter_all by done. intros Hl Hr.
    assert (∃ M1, msgs s !! m0 = Some M1 ∧ m_receivers M1 !! nd = Some i0 ∧ (m0 ∈ l → nd ≠ i_node Ii)) as (M1 & HM1 & Hr1 & Hne).
    { case_decide as Hd.
      - destruct (msgs s !! m0) as [M1|]; [|done]. cbn in Hl. simplify_eq. cbn in Hr.
        exists M1. destruct (decide (nd = i_node Ii)) as [->|]; [by rewrite lookup_delete in Hr|].
        rewrite lookup_delete_ne in Hr by done. done.
      - exists M0. done. }
    destruct (inv_recv_down s Hinv _ _ _ _ HM1 Hr1) as (I0 & HI0 & Hn0 & Hin0).
    destruct (decide (i0 = i)) as [->|]; [|by exists I0; rewrite lookup_insert_ne].
    simplify_eq. exfalso. apply Hne; [|done]. unfold l. by rewrite elem_of_elements.
  - intros i0 I0 m0 Hl Hin. lookup_cases Hl; [set_solver|].
    destruct (inv_recv_up s Hinv _ _ _ Hl Hin) as (M0 & HM0 & Hr0).
    rewrite lookup_alter_all by done. rewrite HM0. case_decide as Hd; cbn; [|eauto].
    eexists. split; [done|]. cbn. rewrite lookup_delete_ne; [done|].
    intros Heq. apply (Hkids _ _ HM0) in Hd. rewrite Heq in Hd. congruence.
Qed.
