(* C05 — references of shared definitions are exact in every reachable state (I8). *)
From Acme.C04 Require Import ProofsTac Proofs_Step Proofs_Noop Proofs_NodeIf.
From Acme.C04 Require Export Refs.
From Coq Require Import Lia.

Lemma elem_of_refs_add m h y h' x :
  x ∈ refs_of (add_ref h y m) h' ↔ (h' = h ∧ x = y) ∨ x ∈ refs_of m h'.
Proof.
  unfold refs_of, add_ref. destruct (decide (h' = h)) as [->|].
  - rewrite lookup_insert. cbn. set_solver.
  - rewrite lookup_insert_ne by done. naive_solver.
Qed.

Lemma elem_of_refs_del m h y h' x :
  x ∈ refs_of (del_ref h y m) h' ↔ x ∈ refs_of m h' ∧ ¬ (h' = h ∧ x = y).
Proof.
  unfold refs_of, del_ref. destruct (decide (h' = h)) as [->|].
  - rewrite lookup_insert. cbn. set_solver.
  - rewrite lookup_insert_ne by done. naive_solver.
Qed.

Lemma elem_of_refs_del_opt m oh y h' x :
  x ∈ refs_of (del_ref_opt oh y m) h' ↔ x ∈ refs_of m h' ∧ ¬ (oh = Some h' ∧ x = y).
Proof.
  destruct oh as [h|]; cbn.
  - rewrite elem_of_refs_del. naive_solver.
  - naive_solver.
Qed.

Lemma refs_init : RefsOK init3.
Proof.
  split; cbn; intros; unfold refs_of in *; rewrite ?lookup_empty in *; cbn in *; try done.
  all: try (split; [set_solver|]; intros (? & ? & ?); done).
  all: set_solver.
Qed.

(* a layer-1 operation moves the allocation counter forward only *)
Lemma bus_remove_ni_next s b key : next (bus_remove_node_interface s b key).1 = next s.
Proof. unfold bus_remove_node_interface. by repeat case_match. Qed.

Lemma rmif_loop_next nd k l : ∀ s found, next (rmif_loop s nd k l found).1.1 = next s.
Proof.
  induction l as [|i l IH]; intros s found; cbn; [done|].
  destruct (ifaces s !! i) as [Ii|]; [|apply IH].
  case_decide.
  - destruct (i_parent Ii) as [b|]; [|apply IH].
    pose proof (bus_remove_ni_next s b nd) as Hn.
    destruct (bus_remove_node_interface s b nd) as [s' [|e]]; cbn in *; [|done].
    by rewrite IH.
  - destruct found.
    + match goal with |- context [rmif_loop ?s1 nd k l true] => pose proof (IH s1 true) as Hn;
        destruct (rmif_loop s1 nd k l true) as [[s2 l2] e] end. cbn in *. done.
    + pose proof (IH s false) as Hn. destruct (rmif_loop s nd k l false) as [[s2 l2] e]. cbn in *. done.
Qed.

Lemma next_mono s o : (next s ≤ next (step s o).1)%positive.
Proof.
  destruct o; cbn [step].
  all: try (unfold new_other, new_network, new_bus, new_message, new_enum, new_enum_value, net_add_bus, net_remove_bus,
    net_remove_all_buses, bus_update_name, bus_add_node_interface, bus_remove_node_interface,
    bus_remove_all_node_interfaces, node_update_name, node_update_id, node_add_interface,
    iface_add_sent, iface_remove_sent, iface_remove_all_sent, iface_add_received, iface_remove_received,
    iface_remove_all_received, msg_update_name, msg_update_id, msg_set_static, msg_add_receiver,
    msg_remove_receiver, enum_add_value, enum_remove_value, enum_remove_all_values,
    eval_update_name, eval_update_index, add_received, remove_received, ok, err, bad, alloc;
    repeat case_match; cbn; lia).
  - (* NewNode *)
    unfold new_node, alloc. destruct (new_ifaces _ _ _ _) as [l s1] eqn:Hl. cbn.
    destruct (Proofs_NodeIf.new_ifaces_spec _ _ _ _ _ _ Hl) as (_&_&_&_&_&_&Hn&_). cbn in Hn. lia.
  - (* Node.RemoveInterface *)
    unfold node_remove_interface. repeat case_match; cbn; try lia.
    all: match goal with H : rmif_loop ?s0 ?nd ?k ?l false = _ |- _ =>
           pose proof (rmif_loop_next nd k l s0 false) as Hn; rewrite H in Hn; cbn in Hn; lia end.
Qed.
