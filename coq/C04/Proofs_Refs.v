(* C05 — references of shared definitions are exact in every reachable state (I8). *)
From Acme.C04 Require Import ProofsTac Proofs_Step Proofs_Noop Proofs_NodeIf.
From Acme.C04 Require Export Refs.
From Coq Require Import Lia.

Lemma elem_of_refs_add m h y h' x :
  x ∈ refs_of (add_ref h y m) h' ↔ (h' = h ∧ x = y) ∨ x ∈ refs_of m h'.
Proof.
  unfold refs_of, add_ref. destruct (decide (h' = h)) as [->|].
  - rewrite lookup_insert. cbn. set_solver.
  - rewrite lookup_insert_ne by done. naive_solver.
Qed.

Lemma elem_of_refs_del m h y h' x :
  x ∈ refs_of (del_ref h y m) h' ↔ x ∈ refs_of m h' ∧ ¬ (h' = h ∧ x = y).
Proof.
  unfold refs_of, del_ref. destruct (decide (h' = h)) as [->|].
  - rewrite lookup_insert. cbn. set_solver.
  - rewrite lookup_insert_ne by done. naive_solver.
Qed.

Lemma elem_of_refs_del_opt m oh y h' x :
  x ∈ refs_of (del_ref_opt oh y m) h' ↔ x ∈ refs_of m h' ∧ ¬ (oh = Some h' ∧ x = y).
Proof.
  destruct oh as [h|]; cbn.
  - rewrite elem_of_refs_del. naive_solver.
  - naive_solver.
Qed.

Lemma refs_init : RefsOK init3.
Proof.
  split; cbn; intros; unfold refs_of in *; rewrite ?lookup_empty in *; cbn in *; try done.
  all: try (split; [set_solver|]; intros (? & ? & ?); done).
  all: set_solver.
Qed.

(* a layer-1 operation moves the allocation counter forward only *)
Lemma bus_remove_ni_next s b key : next (bus_remove_node_interface s b key).1 = next s.
Proof. unfold bus_remove_node_interface. by repeat case_match. Qed.

Lemma rmif_loop_next nd k l : ∀ s found, next (rmif_loop s nd k l found).1.1 = next s.
Proof.
  induction l as [|i l IH]; intros s found; cbn; [done|].
  destruct (ifaces s !! i) as [Ii|]; [|apply IH].
  case_decide.
  - destruct (i_parent Ii) as [b|]; [|apply IH].
    pose proof (bus_remove_ni_next s b nd) as Hn.
    destruct (bus_remove_node_interface s b nd) as [s' [|e]]; cbn in *; [|done].
    by rewrite IH.
  - destruct found.
    + match goal with |- context [rmif_loop ?s1 nd k l true] => pose proof (IH s1 true) as Hn;
        destruct (rmif_loop s1 nd k l true) as [[s2 l2] e] end. cbn in *. done.
    + pose proof (IH s false) as Hn. destruct (rmif_loop s nd k l false) as [[s2 l2] e]. cbn in *. done.
Qed.

Lemma next_mono s o : (next s ≤ next (step s o).1)%positive.
Proof.
  destruct o; cbn [step].
  all: try (unfold new_other, new_network, new_bus, new_message, new_enum, new_enum_value, net_add_bus, net_remove_bus,
    net_remove_all_buses, bus_update_name, bus_add_node_interface, bus_remove_node_interface,
    bus_remove_all_node_interfaces, node_update_name, node_update_id, node_add_interface,
    iface_add_sent, iface_remove_sent, iface_remove_all_sent, iface_add_received, iface_remove_received,
    iface_remove_all_received, msg_update_name, msg_update_id, msg_set_static, msg_add_receiver,
    msg_remove_receiver, enum_add_value, enum_remove_value, enum_remove_all_values,
    eval_update_name, eval_update_index, add_received, remove_received, ok, err, bad, alloc;
    repeat case_match; cbn; lia).
  - (* NewNode *)
    unfold new_node, alloc. destruct (new_ifaces _ _ _ _) as [l s1] eqn:Hl. cbn.
    destruct (Proofs_NodeIf.new_ifaces_spec _ _ _ _ _ _ Hl) as (_&_&_&_&_&_&Hn&_). cbn in Hn. lia.
  - (* Node.RemoveInterface *)
    unfold node_remove_interface. repeat case_match; cbn; try lia.
    all: match goal with H : rmif_loop ?s0 ?nd ?k ?l false = _ |- _ =>
           pose proof (rmif_loop_next nd k l s0 false) as Hn; rewrite H in Hn; cbn in Hn; lia end.
Qed.

Ltac refs_simpl :=
  repeat first
    [ rewrite elem_of_refs_add | rewrite elem_of_refs_del | rewrite elem_of_refs_del_opt ].

Lemma refs_l1 s o : RefsOK s → RefsOK (step3 s (L1 o)).1.
Proof.
  intros [H1 H2 H3 H4 H5 H6 H7 H8 H9]. cbn [step3].
  pose proof (next_mono (base s) o) as Hn.
  destruct (step (base s) o) as [b r] eqn:Hs. cbn in *.
  split; cbn; try done.
  - intros h Hh. apply H6. lia.
  - intros x G HG. destruct (H7 x G HG) as (A & B & C). split_and!; intros ? Hx;
      [specialize (A _ Hx)|specialize (B _ Hx)|specialize (C _ Hx)]; lia.
  - intros x a Ha. specialize (H8 _ _ Ha). lia.
  - intros b0 cb Hb. specialize (H9 _ _ Hb). lia.
Qed.

Lemma refs_new_std_signal s ot : RefsOK s → below s ot → RefsOK (new_std_signal s ot).1.
Proof.
  intros [H1 H2 H3 H4 H5 H6 H7 H8 H9] Hb. unfold new_std_signal. destruct ot as [t|]; [|by split].
  specialize (Hb t eq_refl). unfold alloc3. cbn.
  pose proof (H6 (next (base s)) ltac:(lia)) as Hfresh.
  split; cbn.
  - intros t0 x. refs_simpl. rewrite H1. split.
    + intros [[-> ->]|(G & HG & Ht)].
      * eexists. by rewrite lookup_insert.
      * exists G. rewrite lookup_insert_ne; [done|]. intros <-. congruence.
    + intros (G & HG & Ht). destruct (decide (x = next (base s))) as [->|].
      * rewrite lookup_insert in HG. simplify_eq. cbn in Ht. simplify_eq. by left.
      * rewrite lookup_insert_ne in HG by done. right. eauto.
  - intros u x. rewrite H2. split; intros (G & HG & Hu).
    + exists G. rewrite lookup_insert_ne; [done|]. intros <-. congruence.
    + destruct (decide (x = next (base s))) as [->|].
      * rewrite lookup_insert in HG. by simplify_eq.
      * rewrite lookup_insert_ne in HG by done. eauto.
  - intros e x. rewrite H3. split; intros (G & HG & Hu).
    + exists G. rewrite lookup_insert_ne; [done|]. intros <-. congruence.
    + destruct (decide (x = next (base s))) as [->|].
      * rewrite lookup_insert in HG. by simplify_eq.
      * rewrite lookup_insert_ne in HG by done. eauto.
  - done.
  - done.
  - intros h Hh. rewrite lookup_insert_ne by lia. apply H6. lia.
  - intros x G HG. destruct (decide (x = next (base s))) as [->|].
    + rewrite lookup_insert in HG. simplify_eq. cbn. split_and!; intros ? Hx; simplify_eq. lia.
    + rewrite lookup_insert_ne in HG by done. destruct (H7 x G HG) as (A & B & C).
      split_and!; intros ? Hx; [specialize (A _ Hx)|specialize (B _ Hx)|specialize (C _ Hx)]; lia.
  - intros x a Ha. specialize (H8 _ _ Ha). lia.
  - intros b0 cb Hb0. specialize (H9 _ _ Hb0). lia.
Qed.

Lemma refs_new_enum_signal s oe : RefsOK s → below s oe → RefsOK (new_enum_signal s oe).1.
Proof.
  intros [H1 H2 H3 H4 H5 H6 H7 H8 H9] Hb. unfold new_enum_signal. destruct oe as [e|]; [|by split].
  specialize (Hb e eq_refl). unfold alloc3. cbn.
  pose proof (H6 (next (base s)) ltac:(lia)) as Hfresh.
  split; cbn.
  - intros t x. rewrite H1. split; intros (G & HG & Hu).
    + exists G. rewrite lookup_insert_ne; [done|]. intros <-. congruence.
    + destruct (decide (x = next (base s))) as [->|].
      * rewrite lookup_insert in HG. by simplify_eq.
      * rewrite lookup_insert_ne in HG by done. eauto.
  - intros u x. rewrite H2. split; intros (G & HG & Hu).
    + exists G. rewrite lookup_insert_ne; [done|]. intros <-. congruence.
    + destruct (decide (x = next (base s))) as [->|].
      * rewrite lookup_insert in HG. by simplify_eq.
      * rewrite lookup_insert_ne in HG by done. eauto.
  - intros e0 x. refs_simpl. rewrite H3. split.
    + intros [[-> ->]|(G & HG & Ht)].
      * eexists. by rewrite lookup_insert.
      * exists G. rewrite lookup_insert_ne; [done|]. intros <-. congruence.
    + intros (G & HG & Ht). destruct (decide (x = next (base s))) as [->|].
      * rewrite lookup_insert in HG. simplify_eq. cbn in Ht. simplify_eq. by left.
      * rewrite lookup_insert_ne in HG by done. right. eauto.
  - done.
  - done.
  - intros h Hh. rewrite lookup_insert_ne by lia. apply H6. lia.
  - intros x G HG. destruct (decide (x = next (base s))) as [->|].
    + rewrite lookup_insert in HG. simplify_eq. cbn. split_and!; intros ? Hx; simplify_eq. lia.
    + rewrite lookup_insert_ne in HG by done. destruct (H7 x G HG) as (A & B & C).
      split_and!; intros ? Hx; [specialize (A _ Hx)|specialize (B _ Hx)|specialize (C _ Hx)]; lia.
  - intros x a Ha. specialize (H8 _ _ Ha). lia.
  - intros b0 cb Hb0. specialize (H9 _ _ Hb0). lia.
Qed.

(* a signal changes one of its three pointers: the other two reference maps are untouched *)
Lemma other_field_frame (sg : handle) (G G' : sig_rec) (sgs : gmap handle sig_rec) (f : sig_rec → option handle) h x :
  sgs !! sg = Some G → f G' = f G →
  ((∃ G0, <[sg:=G']> sgs !! x = Some G0 ∧ f G0 = Some h) ↔ ∃ G0, sgs !! x = Some G0 ∧ f G0 = Some h).
Proof.
  intros HG Hf. destruct (decide (x = sg)) as [->|]; [|by rewrite lookup_insert_ne].
  rewrite lookup_insert. split; intros (G0 & ? & ?); simplify_eq; eexists; split; try done; congruence.
Qed.

Lemma refs_std_set_type s sg ot fits : RefsOK s → below s ot → RefsOK (std_set_type s sg ot fits).1.
Proof.
  intros Hr Hb. unfold std_set_type.
  destruct (sigs s !! sg) as [G|] eqn:HG; [|done].
  destruct (sg_kind G); try done. destruct ot as [t|]; [|done]. destruct fits; [|done].
  specialize (Hb t eq_refl). destruct Hr as [H1 H2 H3 H4 H5 H6 H7 H8 H9]. cbn.
  split; cbn; try done.
  - intros t0 x. refs_simpl. rewrite H1. destruct (decide (x = sg)) as [->|].
    + rewrite lookup_insert. split.
      * intros [[-> _]|[(G0 & ? & Ht) Hn]]; [eauto|]. simplify_eq. exfalso. apply Hn. done.
      * intros (G0 & ? & Ht). simplify_eq. cbn in Ht. simplify_eq. by left.
    + rewrite lookup_insert_ne by done. split; [|by right; split; [|intros [_ ?]]].
      intros [[_ ?]|[? _]]; done.
  - intros u x. rewrite H2. symmetry. by eapply other_field_frame.
  - intros e x. rewrite H3. symmetry. by eapply other_field_frame.
  - intros h Hh. rewrite lookup_insert_ne; [by apply H6|]. intros <-. specialize (H6 _ Hh). congruence.
  - intros x G0 HG0. destruct (decide (x = sg)) as [->|].
    + rewrite lookup_insert in HG0. simplify_eq. cbn. destruct (H7 _ _ HG) as (A & B & C).
      split_and!; [intros ? [= <-]; done|done|done].
    + rewrite lookup_insert_ne in HG0 by done. by apply (H7 x).
Qed.

Lemma refs_enum_set_enum s sg oe fits : RefsOK s → below s oe → RefsOK (enum_set_enum s sg oe fits).1.
Proof.
  intros Hr Hb. unfold enum_set_enum.
  destruct (sigs s !! sg) as [G|] eqn:HG; [|done].
  destruct (sg_kind G); try done. destruct oe as [e|]; [|done]. destruct fits; [|done].
  specialize (Hb e eq_refl). destruct Hr as [H1 H2 H3 H4 H5 H6 H7 H8 H9]. cbn.
  split; cbn; try done.
  - intros t x. rewrite H1. symmetry. by eapply other_field_frame.
  - intros u x. rewrite H2. symmetry. by eapply other_field_frame.
  - intros e0 x. refs_simpl. rewrite H3. destruct (decide (x = sg)) as [->|].
    + rewrite lookup_insert. split.
      * intros [[-> _]|[(G0 & ? & Ht) Hn]]; [eauto|]. simplify_eq. exfalso. apply Hn. done.
      * intros (G0 & ? & Ht). simplify_eq. cbn in Ht. simplify_eq. by left.
    + rewrite lookup_insert_ne by done. split; [|by right; split; [|intros [_ ?]]].
      intros [[_ ?]|[? _]]; done.
  - intros h Hh. rewrite lookup_insert_ne; [by apply H6|]. intros <-. specialize (H6 _ Hh). congruence.
  - intros x G0 HG0. destruct (decide (x = sg)) as [->|].
    + rewrite lookup_insert in HG0. simplify_eq. cbn. destruct (H7 _ _ HG) as (A & B & C).
      split_and!; [done|done|intros ? [= <-]; done].
    + rewrite lookup_insert_ne in HG0 by done. by apply (H7 x).
Qed.

Lemma refs_std_set_unit s sg ou : RefsOK s → below s ou → RefsOK (std_set_unit s sg ou).1.
Proof.
  intros Hr Hb. unfold std_set_unit.
  destruct (sigs s !! sg) as [G|] eqn:HG; [|done].
  destruct (sg_kind G); try done.
  destruct Hr as [H1 H2 H3 H4 H5 H6 H7 H8 H9]. cbn.
  split; cbn; try done.
  - intros t x. rewrite H1. symmetry. by eapply other_field_frame.
  - intros u x. destruct ou as [u1|]; refs_simpl; rewrite H2; (destruct (decide (x = sg)) as [->|];
      [rewrite lookup_insert|rewrite lookup_insert_ne by done]).
    + split.
      * intros [[-> _]|[(G0 & ? & Ht) Hn]]; [eauto|]. simplify_eq. exfalso. apply Hn. done.
      * intros (G0 & ? & Ht). simplify_eq. cbn in Ht. simplify_eq. by left.
    + split; [|by right; split; [|intros [_ ?]]]. intros [[_ ?]|[? _]]; done.
    + split.
      * intros [(G0 & ? & Ht) Hn]. simplify_eq. exfalso. apply Hn. done.
      * intros (G0 & ? & Ht). by simplify_eq.
    + split; [by intros [? _]|]. intros ?. split; [done|]. by intros [_ ?].
  - intros e x. rewrite H3. symmetry. by eapply other_field_frame.
  - intros h Hh. rewrite lookup_insert_ne; [by apply H6|]. intros <-. specialize (H6 _ Hh). congruence.
  - intros x G0 HG0. destruct (decide (x = sg)) as [->|].
    + rewrite lookup_insert in HG0. simplify_eq. cbn. destruct (H7 _ _ HG) as (A & B & C).
      split_and!; [done| |done]. intros u Hu. by apply (Hb u).
    + rewrite lookup_insert_ne in HG0 by done. by apply (H7 x).
Qed.

Lemma refs_assign s ent oa verr : RefsOK s → below s oa → RefsOK (assign_attr s ent oa verr).1.
Proof.
  intros [H1 H2 H3 H4 H5 H6 H7 H8 H9] Hb. unfold assign_attr.
  destruct oa as [a|]; [|by split]. destruct verr; [by split|]. specialize (Hb a eq_refl). cbn.
  split; cbn; try done.
  - intros a0 x. refs_simpl. rewrite H4. naive_solver.
  - intros x a0. refs_simpl. intros [[-> ->]|Ha]; [done|by apply (H8 x)].
Qed.

Lemma refs_attrs_frame s f : RefsOK s → RefsOK (s <| attrs ::= f |>).
Proof. by intros []. Qed.

Lemma refs_assign_value s ent oa v : RefsOK s → below s oa → RefsOK (assign_value s ent oa v).1.
Proof.
  intros Hr Hb. unfold assign_value. destruct oa as [a|]; [|by apply refs_assign].
  destruct (attrs s !! a); [by apply refs_assign|done].
Qed.

Lemma refs_new_attr s k : RefsOK s → RefsOK (new_attr s k).1.
Proof.
  intros Hr. unfold new_attr, alloc3. cbn. apply refs_attrs_frame. exact (refs_l1 s NewOther Hr).
Qed.

Lemma refs_attr_clone s a : RefsOK s → RefsOK (attr_clone s a).1.
Proof. intros Hr. unfold attr_clone. destruct (attrs s !! a); [by apply refs_new_attr|done]. Qed.

Lemma refs_remove_assign s ent key : RefsOK s → RefsOK (remove_assign s ent key).1.
Proof.
  intros [H1 H2 H3 H4 H5 H6 H7 H8 H9]. unfold remove_assign. case_decide; [|by split]. cbn.
  split; cbn; try done.
  - intros a0 x. refs_simpl. rewrite H4. naive_solver.
  - intros x a0. refs_simpl. intros [Ha _]. by apply (H8 x).
Qed.

Lemma elem_of_refs_del_list (l : list handle) (ent : handle) m a x :
  x ∈ refs_of (foldr (λ a acc, del_ref a ent acc) m l) a ↔ x ∈ refs_of m a ∧ ¬ (a ∈ l ∧ x = ent).
Proof.
  induction l as [|b l IH]; cbn.
  - split; [intros ?; split; [done|]; by intros [?%not_elem_of_nil _]|by intros [? _]].
  - rewrite elem_of_refs_del, IH. rewrite elem_of_cons. naive_solver.
Qed.

Lemma refs_remove_all_assign s ent : RefsOK s → RefsOK (remove_all_assign s ent).1.
Proof.
  intros [H1 H2 H3 H4 H5 H6 H7 H8 H9]. unfold remove_all_assign. cbn.
  split; cbn; try done.
  - intros a x. rewrite elem_of_refs_del_list, elem_of_elements, H4.
    unfold refs_of at 3. destruct (decide (x = ent)) as [->|].
    + rewrite lookup_insert. cbn. split; [naive_solver|set_solver].
    + rewrite lookup_insert_ne by done. fold (refs_of (assigns s) x). naive_solver.
  - intros x a. unfold refs_of. destruct (decide (x = ent)) as [->|].
    + rewrite lookup_insert. cbn. set_solver.
    + rewrite lookup_insert_ne by done. apply (H8 x).
Qed.

Lemma refs_bus_set_builder s b ocb : RefsOK s → below s ocb → RefsOK (bus_set_builder s b ocb).1.
Proof.
  intros [H1 H2 H3 H4 H5 H6 H7 H8 H9] Hb. unfold bus_set_builder.
  destruct ocb as [cb|]; cbn.
  - specialize (Hb cb eq_refl). split; cbn; try done.
    + intros cb0 b0. refs_simpl. rewrite H5. destruct (decide (b0 = b)) as [->|].
      * rewrite lookup_insert. split; [intros [[-> _]|[Hx Hn]]; [done|]; exfalso; apply Hn; done|].
        intros [= <-]. by left.
      * rewrite lookup_insert_ne by done. split; [intros [[_ ?]|[? _]]; done|]. intros ?. right. split; [done|]. by intros [_ ?].
    + intros b0 cb0 Hl. destruct (decide (b0 = b)) as [->|].
      * rewrite lookup_insert in Hl. by simplify_eq.
      * rewrite lookup_insert_ne in Hl by done. by apply (H9 b0).
  - split; cbn; try done.
    + intros cb0 b0. refs_simpl. rewrite H5. destruct (decide (b0 = b)) as [->|].
      * rewrite lookup_delete. split; [|done]. intros [Hx Hn]. exfalso. apply Hn. done.
      * rewrite lookup_delete_ne by done. split; [by intros [? _]|]. intros ?. split; [done|]. by intros [_ ?].
    + intros b0 cb0 Hl. destruct (decide (b0 = b)) as [->|]; [by rewrite lookup_delete in Hl|].
      rewrite lookup_delete_ne in Hl by done. by apply (H9 b0).
Qed.

Theorem inv3_init : Inv3 init3.
Proof. split; [apply Proofs_New.inv_init|apply refs_init]. Qed.

Lemma base_frame s o : match o with L1 _ => False | _ => True end → base (step3 s o).1 = base s ∨
  base (step3 s o).1 = base s <| next ::= Pos.succ |>.
Proof.
  destruct o; try done; intros _; cbn [step3];
    unfold new_std_signal, new_enum_signal, std_set_type, std_set_unit, enum_set_enum, assign_value, new_attr, attr_clone, assign_attr,
      remove_assign, remove_all_assign, bus_set_builder, alloc3.
  all: repeat case_match; cbn; auto.
Qed.

Theorem inv3_step s o : Inv3 s → op_ok3 s o → Inv3 (step3 s o).1.
Proof.
  intros [Hinv Hrefs] Hok. destruct o as [o| | | | | | | | | | |].
  - split; [|by apply refs_l1]. cbn [step3]. pose proof (inv_step (base s) o Hinv Hok) as Hi.
    by destruct (step (base s) o).
  - split; [|by apply refs_new_std_signal].
    destruct (base_frame s (NewStdSignal ot) I) as [->| ->]; [done|]. by apply (Proofs_New.inv_new_other (base s)).
  - split; [|by apply refs_new_enum_signal].
    destruct (base_frame s (NewEnumSignal oe) I) as [->| ->]; [done|]. by apply (Proofs_New.inv_new_other (base s)).
  - split; [|by apply refs_std_set_type].
    destruct (base_frame s (StdSetType sg ot fits) I) as [->| ->]; [done|]. by apply (Proofs_New.inv_new_other (base s)).
  - split; [|by apply refs_std_set_unit].
    destruct (base_frame s (StdSetUnit sg ou) I) as [->| ->]; [done|]. by apply (Proofs_New.inv_new_other (base s)).
  - split; [|by apply refs_enum_set_enum].
    destruct (base_frame s (EnumSetEnum sg oe fits) I) as [->| ->]; [done|]. by apply (Proofs_New.inv_new_other (base s)).
  - split; [|by apply refs_assign_value].
    destruct (base_frame s (Assign ent oa v) I) as [->| ->]; [done|]. by apply (Proofs_New.inv_new_other (base s)).
  - split; [|by apply refs_remove_assign].
    destruct (base_frame s (RemoveAssign ent key) I) as [->| ->]; [done|]. by apply (Proofs_New.inv_new_other (base s)).
  - split; [|by apply refs_remove_all_assign].
    destruct (base_frame s (RemoveAllAssign ent) I) as [->| ->]; [done|]. by apply (Proofs_New.inv_new_other (base s)).
  - split; [|by apply refs_bus_set_builder].
    destruct (base_frame s (BusSetBuilder b ocb) I) as [->| ->]; [done|]. by apply (Proofs_New.inv_new_other (base s)).
  - split; [|by apply refs_new_attr].
    destruct (base_frame s (NewAttr k) I) as [->| ->]; [done|]. by apply (Proofs_New.inv_new_other (base s)).
  - split; [|by apply refs_attr_clone].
    destruct (base_frame s (AttrClone a) I) as [->| ->]; [done|]. by apply (Proofs_New.inv_new_other (base s)).
Qed.

Theorem inv3_reachable s : Reach3 s → Inv3 s.
Proof. induction 1; [apply inv3_init|by apply inv3_step]. Qed.

Lemma references_exact_inv s : Inv3 s → ReferencesExact s.
Proof.
  intros [_ [H1 H2 H3 H4 H5 H6 H7 H8 H9]]. unfold ReferencesExact. split_and!; try done.
  all: apply stdpp.sets.set_eq; intros x; (split; [|by intros ?%not_elem_of_empty]).
  - intros (G & HG & Ht)%H1. destruct (H7 _ _ HG) as (A & _). specialize (A _ Ht). lia.
  - intros (G & HG & Ht)%H2. destruct (H7 _ _ HG) as (_ & A & _). specialize (A _ Ht). lia.
  - intros (G & HG & Ht)%H3. destruct (H7 _ _ HG) as (_ & _ & A). specialize (A _ Ht). lia.
  - intros Hx%H4. specialize (H8 _ _ Hx). lia.
  - intros Hx%H5. specialize (H9 _ _ Hx). lia.
Qed.

Theorem references_exact s : Reach3 s → ReferencesExact s.
Proof. intros Hr. by apply references_exact_inv, inv3_reachable. Qed.

(* C06 for layer 3: a refused operation changes nothing *)
Theorem error_is_noop3 s o : Inv3 s → is_err (step3 s o).2 = true → (step3 s o).1 = s.
Proof.
  intros [Hinv _]. destruct o as [o| | | | | | | | | | |]; cbn [step3].
  - pose proof (error_is_noop (base s) o Hinv) as Hn. destruct (step (base s) o) as [b r]. cbn in *.
    intros He. rewrite (Hn He). by destruct s.
  - unfold new_std_signal, alloc3. by repeat case_match.
  - unfold new_enum_signal, alloc3. by repeat case_match.
  - unfold std_set_type. by repeat case_match.
  - unfold std_set_unit. by repeat case_match.
  - unfold enum_set_enum. by repeat case_match.
  - unfold assign_value, assign_attr. by repeat case_match.
  - unfold remove_assign. by repeat case_match.
  - unfold remove_all_assign. done.
  - unfold bus_set_builder. by repeat case_match.
  - unfold new_attr, alloc3. done.
  - unfold attr_clone, new_attr, alloc3. by repeat case_match.
Qed.
