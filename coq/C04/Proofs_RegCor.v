(* C04/C05/C06 layer 2 — the properties of signals in the words of the catalogue, refusals change
   nothing, used / released names, and the excluded case (re-attach) as a computed counterexample. *)
From Acme.C04 Require Export Proofs_RegInv.
From Acme.C04 Require Import Proofs_Noop.
From Coq Require Import Lia.

Lemma key_sig_msg_Some s m x nm : key_sig_msg s m x = Some nm ↔ spmsg s !! x = Some m ∧ sname s !! x = Some nm.
Proof. unfold key_sig_msg. destruct (decide (spmsg s !! x = Some m)); naive_solver. Qed.
Lemma key_sig_mux_Some s u x nm : key_sig_mux s u x = Some nm ↔ spmux s !! x = Some u ∧ sname s !! x = Some nm.
Proof. unfold key_sig_mux. destruct (decide (spmux s !! x = Some u)); naive_solver. Qed.

Lemma signal_spec_inv s : Inv2 s → SignalSpec s.
Proof.
  intros [_ [Hc _]]. split_and!.
  - intros m x y Hx%in_message_iff Hy%in_message_iff Hn; [|done|done].
    destruct (r_dom s Hc x) as [nm Hnm]; [left; by eexists|].
    eapply (IndexOK_inj _ _ _ _ nm (r_mnames s Hc m)); apply key_sig_msg_Some; split; congruence.
  - intros m nm x. unfold lookup_signal_by_name. rewrite (r_mnames s Hc m nm x), key_sig_msg_Some, in_message_iff; done.
  - intros m x. by rewrite in_message_iff.
  - intros m x. by rewrite in_message_iff, (r_reg s Hc).
  - intros u x. by rewrite (r_xsigs s Hc).
  - intros m x Hx. by apply (r_top s Hc) in Hx as [_ ?].
  - intros m1 m2 x H1%in_message_iff H2%in_message_iff; [|done|done]. congruence.
  - intros u x y Hx%(r_xsigs s Hc) Hy%(r_xsigs s Hc) Hn.
    destruct (r_dom s Hc x) as [nm Hnm]; [right; left; by eexists|].
    eapply (IndexOK_inj _ _ _ _ nm (r_xnames s Hc u)); apply key_sig_mux_Some; split; congruence.
Qed.

Theorem signal_spec s : Reach2 s → SignalSpec s.
Proof. intros Hr. by apply signal_spec_inv, inv2_reachable. Qed.

(* ---- C06: a refused layer-2 operation changes nothing ---------------------------------------- *)
Lemma set_l3_id s : s <| l3 := l3 s |> = s.
Proof. by destruct s. Qed.

Theorem error_is_noop2 s o : Inv2 s → is_err (step2 s o).2 = true → (step2 s o).1 = s.
Proof.
  intros [H3 _]. destruct o; cbn [step2].
  - unfold lift3. pose proof (error_is_noop3 (l3 s) o H3) as Hn. destruct (step3 (l3 s) o) as [t r]. cbn in *.
    intros He. rewrite (Hn He). apply set_l3_id.
  - unfold new_signal2, lift3. pose proof (error_is_noop3 (l3 s) (NewStdSignal ot) H3) as Hn.
    destruct (step3 (l3 s) (NewStdSignal ot)) as [t [|e]]; [done|]. cbn in *. intros He. rewrite (Hn He). apply set_l3_id.
  - unfold new_signal2, lift3. pose proof (error_is_noop3 (l3 s) (NewEnumSignal oe) H3) as Hn.
    destruct (step3 (l3 s) (NewEnumSignal oe)) as [t [|e]]; [done|]. cbn in *. intros He. rewrite (Hn He). apply set_l3_id.
  - unfold new_mux2. repeat case_match; done.
  - unfold msg_attach. repeat case_match; done.
  - unfold msg_remove_signal, mux_remove. repeat case_match; done.
  - unfold msg_remove_all_signals. repeat case_match; done.
  - unfold sig_update_name. repeat case_match; done.
  - unfold mux_insert. repeat case_match; done.
  - unfold mux_remove. repeat case_match; done.
  - unfold mux_clear_group. repeat case_match; done.
  - unfold mux_clear_all. repeat case_match; done.
  - unfold enum_clone. repeat case_match; done.
  - unfold eval_clone, lift3. destruct (evals (base (l3 s)) !! v) as [V|]; [|done]. cbn. unfold new_enum_value, alloc, ok. cbn. done.
  - unfold msg_resize. repeat case_match; done.
  - unfold bus_set_type. repeat case_match; done.
Qed.

(* ---- a name in use is refused ---------------------------------------------------------------------- *)
(* attaching a signal whose name is carried by a signal of the message — at any depth — is refused
   with "duplicated name", and (error_is_noop2) changes nothing *)
Theorem signal_name_used_refused s m x y nm fits :
  Inv2 s → is_Some (msgs (base (l3 s)) !! m) →
  InMessage s m y → sname s !! y = Some nm → sname s !! x = Some nm →
  step2 s (MsgAttach m (Some x) fits) = (s, Err [(Duplicated, WName)]).
Proof.
  intros Hi [M HM] Hy Hny Hnx. pose proof (signal_spec_inv s Hi) as (_ & Hl & _).
  cbn [step2]. unfold msg_attach. rewrite HM, Hnx.
  assert (names_of (mnames s) m !! nm = Some y) as -> by (by apply Hl). done.
Qed.

(* the same for a name carried by a signal held by the incoming multiplexer *)
Theorem signal_nested_name_used_refused s m x d y nm fits :
  Inv2 s → is_Some (msgs (base (l3 s)) !! m) →
  InMessage s m y → sname s !! y = Some nm →
  Under s x d → d ≠ x → d ≠ y → sname s !! d = Some nm → is_Some (sname s !! x) →
  step2 s (MsgAttach m (Some x) fits) = (s, Err [(Duplicated, WName)]).
Proof.
  intros Hi [M HM] Hy Hny Hu Hdx Hdy Hnd [nx Hnx]. pose proof (signal_spec_inv s Hi) as (_ & Hl & _).
  destruct Hi as [_ [Hc _]].
  cbn [step2]. unfold msg_attach. rewrite HM, Hnx. destruct (names_of (mnames s) m !! nx); [done|].
  assert (nested_ok s m x = false) as ->; [|done].
  unfold nested_ok. apply andb_false_iff. right. apply not_true_iff_false. intros Hall.
  rewrite forallb_forall in Hall. destruct (desc_hd s x) as [tl Htl].
  assert (d ∈ tl) as Hd.
  { assert (d ∈ desc s x) as Hd by (by apply elem_of_desc). rewrite Htl in Hd. apply elem_of_cons in Hd as [?|?]; done. }
  rewrite Htl in Hall. cbn [tail] in Hall. apply elem_of_list_In, Hall in Hd.
  rewrite (name_of_Some _ _ _ Hnd) in Hd. assert (names_of (mnames s) m !! nm = Some y) as Hy' by (by apply Hl).
  unfold lookup_signal_by_name in Hy'. rewrite Hy' in Hd. by apply bool_decide_eq_true in Hd.
Qed.

(* renaming a signal of a message to a name carried by another signal of the message is refused *)
Theorem signal_rename_used_refused s m x y new :
  Inv2 s → InMessage s m x → InMessage s m y → y ≠ x → sname s !! y = Some new →
  step2 s (SigUpdateName x new) = (s, Err [(Duplicated, WName)]).
Proof.
  intros Hi Hx Hy Hne Hny. pose proof (signal_spec_inv s Hi) as (Hu & Hl & Hm & _).
  destruct Hi as [_ [Hc _]]. cbn [step2]. unfold sig_update_name.
  destruct (r_dom s Hc x) as [old Hold]; [left; exists m; by apply Hm|]. rewrite Hold.
  destruct (decide (old = new)) as [->|_].
  { exfalso. apply Hne. apply (Hu m); [done|done|congruence]. }
  match goal with |- context [if ?b then _ else _] => destruct b end; [done|].
  apply Hm in Hx. rewrite Hx. assert (names_of (mnames s) m !! new = Some y) as -> by (by apply Hl).
  rewrite bool_decide_eq_true_2 by (by eexists). done.
Qed.

(* ---- a released name can be used again ------------------------------------------------------------ *)
Lemma remove_signal_effect s m x :
  Inv2 s → is_Some (msgs (base (l3 s)) !! m) → spmsg s !! x = Some m →
  ∃ s', step2 s (MsgRemoveSignal m x) = (s', Ok) ∧ l3 s' = l3 s ∧ sname s' = sname s ∧ xshape s' = xshape s ∧
        spmsg s' !! x = None ∧
        (∀ z, spmsg s' !! z = Some m → spmsg s !! z = Some m) ∧
        (∀ z, spmsg s !! z = None → spmsg s' !! z = None) ∧
        (∀ z, spmux s !! z = None → spmux s' !! z = None).
Proof.
  intros [_ [Hc _]] [M HM] Hx. cbn [step2]. unfold msg_remove_signal. rewrite HM.
  rewrite decide_True by (by apply (r_reg s Hc)).
  assert (∀ D z, x ∈ D → (delete_all D (spmsg s) !! x = None) ∧
            (delete_all D (spmsg s) !! z = Some m → spmsg s !! z = Some m) ∧
            (spmsg s !! z = None → delete_all D (spmsg s) !! z = None)) as Hdel.
  { intros D z HD. rewrite !lookup_delete_all. rewrite decide_True by done. destruct (decide (z ∈ D)); done. }
  pose proof (desc_self s Hc x) as Hself.
  destruct (spmux s !! x) as [u|] eqn:Hp.
  - unfold mux_remove. destruct (r_rank s Hc _ _ Hp) as [[sh Hsh] _]. rewrite Hsh.
    rewrite decide_True by (by apply (r_xsigs s Hc)). unfold detach_child.
    rewrite <-(r_child_msg s Hc _ _ Hp), Hx. eexists. split; [done|]. cbn.
    split_and!; try done; try (intros z; by apply (Hdel _ z Hself)); [by destruct (Hdel _ x Hself) as [? _]|].
    intros z Hz. destruct (decide (z = x)) as [->|]; [by rewrite lookup_delete|by rewrite lookup_delete_ne].
  - eexists. split; [done|]. cbn. split_and!; try done; try (intros z; by apply (Hdel _ z Hself)). by destruct (Hdel _ x Hself) as [? _].
Qed.

(* after Message.RemoveSignal the name of the removed signal is free in the message: a lookup finds
   nothing, and a signal carrying that name is accepted *)
Theorem signal_name_released_reusable s m x y nm :
  Inv2 s → op_ok2 s (MsgRemoveSignal m x) → is_Some (msgs (base (l3 s)) !! m) →
  InMessage s m x → sname s !! x = Some nm →
  sname s !! y = Some nm → spmsg s !! y = None → spmux s !! y = None → xshape s !! y = None →
  let s' := (step2 s (MsgRemoveSignal m x)).1 in
  (step2 s (MsgRemoveSignal m x)).2 = Ok ∧
  lookup_signal_by_name s' m nm = None ∧
  (step2 s' (MsgAttach m (Some y) true)).2 = Ok.
Proof.
  intros Hi Hok HM Hx Hnx Hny Hmy Hpy Hsy. pose proof (inv2_step s _ Hi Hok) as Hi'.
  pose proof (signal_spec_inv s Hi) as (Hu & _ & Hm & _). apply Hm in Hx.
  destruct (remove_signal_effect s m x Hi HM Hx) as (s' & Hs & E1 & E2 & E3 & Hx' & Hsub & Hnone & Hpnone).
  rewrite Hs in *. cbn [fst snd] in *. split; [done|].
  pose proof (signal_spec_inv s' Hi') as (_ & Hl' & Hm' & _).
  assert (lookup_signal_by_name s' m nm = None) as Hfree.
  { destruct (lookup_signal_by_name s' m nm) as [z|] eqn:Hz; [|done]. exfalso.
    apply Hl' in Hz as [Hz Hnz]. apply Hm' in Hz. rewrite E2 in Hnz.
    assert (z = x); [|congruence]. apply (Hu m); [by apply Hm, Hsub|by apply Hm|congruence]. }
  split; [done|]. cbn [step2]. unfold msg_attach. rewrite E1. destruct HM as [M ->]. rewrite E2, Hny.
  unfold lookup_signal_by_name in Hfree. rewrite Hfree.
  assert (desc s' y = [y]) as Hd by (unfold desc, rank; rewrite E3, Hsy; done).
  assert (nested_ok s' m y = true) as ->; [|done].
  unfold nested_ok. rewrite Hd. cbn. rewrite andb_true_r. apply bool_decide_eq_true. apply NoDup_singleton.
Qed.

(* after Signal.UpdateName the old name is free in the message *)
Theorem signal_rename_releases_name s m x old new :
  Inv2 s → InMessage s m x → sname s !! x = Some old → old ≠ new →
  (step2 s (SigUpdateName x new)).2 = Ok →
  lookup_signal_by_name (step2 s (SigUpdateName x new)).1 m old = None ∧
  lookup_signal_by_name (step2 s (SigUpdateName x new)).1 m new = Some x.
Proof.
  intros Hi Hx Hold Hne Hok. pose proof (inv2_step s (SigUpdateName x new) Hi I) as Hi'.
  pose proof (signal_spec_inv s Hi) as (Hu & _ & Hm & _). apply Hm in Hx.
  pose proof (signal_spec_inv _ Hi') as (_ & Hl' & Hm' & _).
  revert Hok Hl' Hm'. cbn [step2]. unfold sig_update_name. rewrite Hold. rewrite decide_False by done.
  repeat (match goal with |- context [if ?b then _ else _] => destruct b end; [done|]).
  cbn. intros _ Hl' Hm'. split.
  - destruct (lookup_signal_by_name _ m old) as [z|] eqn:Hz; [|done]. exfalso.
    apply Hl' in Hz as [Hz Hnz]. apply Hm' in Hz. cbn in Hz, Hnz.
    destruct (decide (z = x)) as [->|Hzx]; [rewrite lookup_insert in Hnz; congruence|].
    rewrite lookup_insert_ne in Hnz by done. apply Hzx. apply (Hu m); [by apply Hm|by apply Hm|congruence].
  - apply Hl'. cbn. split; [by apply Hm'|by rewrite lookup_insert].
Qed.

(* ---- one theorem per sentence ------------------------------------------------------------------- *)
Theorem signal_names_unique_all_depths s : Reach2 s → SignalNamesUnique s.
Proof. intros (H1 & _ & _ & _ & _ & _ & _ & H8)%signal_spec. by split. Qed.

Theorem get_signal_by_name_spec s : Reach2 s → GetSignalByNameSpec s.
Proof. by intros (_ & H2 & _)%signal_spec. Qed.

Theorem signal_parent_links s : Reach2 s → SignalParentLinks s.
Proof. intros (_ & _ & H3 & H4 & H5 & _)%signal_spec. by split_and!. Qed.

Theorem signal_exclusive s : Reach2 s → SignalExclusive s.
Proof.
  intros Hr. pose proof (signal_spec s Hr) as (_ & _ & _ & _ & H5 & H6 & H7 & _). split_and!; [done|done|].
  intros u1 u2 x Hx1%H5 Hx2%H5. congruence.
Qed.
