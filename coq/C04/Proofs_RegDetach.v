(* C04/C05 layer 2 — removing a signal (with everything it holds) from a message or a multiplexer. *)
From Acme.C04 Require Export Proofs_RegMsg.
From Coq Require Import Lia.

Lemma delete_all_nil {K} `{Countable K} {V} (m : gmap K V) : delete_all [] m = m.
Proof. done. Qed.

(* Message.RemoveSignal of a top-level signal *)
Lemma core_msg_remove_top s m x :
  RegCore s → spmsg s !! x = Some m → spmux s !! x = None →
  RegCore (unregister s m (desc s x) <| mtop ::= del_ref m x |>).
Proof.
  intros Hc Hmx Hpx.
  assert (is_Some (sname s !! x)) as Hsx by (apply (r_dom s Hc); left; by eexists).
  pose proof (desc_closed s x Hc Hsx) as HD.
  revert HD. generalize (desc s x). intros D HD.
  assert (∀ y, y ∈ D → spmsg s !! y = Some m) as Hall by (intros y Hy; by rewrite (cl_msg _ _ _ HD y Hy)).
  assert (∀ y, y ∈ D → spmux s !! y = None → y = x) as Hroot.
  { intros y Hy Hp. destruct (decide (y = x)) as [|Hne]; [done|].
    destruct (cl_par _ _ _ HD y Hy Hne) as (v & Hv & _). congruence. }
  split; unfold unregister, rank, next2, key_sig_msg, key_sig_mux; cbn.
  - intros y [Hy|Hy]; [|apply (r_dom s Hc); by right].
    rewrite lookup_delete_all in Hy. destruct (decide (y ∈ D)); [by destruct Hy|]. apply (r_dom s Hc). by left.
  - apply (r_fresh s Hc).
  - apply (r_shape s Hc).
  - intros m0 y. rewrite refs_of_del, lookup_delete_all. pose proof (r_top s Hc m0 y) as Ht.
    pose proof (cl_self _ _ _ HD). pose proof (Hall y). pose proof (Hroot y).
    destruct (decide (m0 = m)) as [->|]; destruct (decide (y ∈ D)); rewrite ?elem_of_difference, ?elem_of_singleton; naive_solver.
  - intros m0 y. rewrite refs_of_insert, lookup_delete_all. pose proof (r_reg s Hc m0 y) as Ht. pose proof (Hall y).
    destruct (decide (m0 = m)) as [->|]; destruct (decide (y ∈ D)); rewrite ?elem_of_difference, ?elem_of_list_to_set; naive_solver.
  - intros m0. rewrite names_of_insert. destruct (decide (m0 = m)) as [->|Hne].
    + rewrite named_fst. eapply (IndexOK_delete_bulk (key_sig_msg s m)); [apply (r_mnames s Hc)|..].
      * intros h Hh. unfold key_sig_msg. rewrite decide_True by auto.
        destruct (cl_named _ _ _ HD h Hh) as [nh Hnh]. by rewrite (name_of_Some _ _ _ Hnh).
      * intros h Hh. rewrite lookup_delete_all. destruct (decide (h ∈ D)); [|done]. by rewrite decide_False.
      * intros h Hh. rewrite lookup_delete_all. destruct (decide (h ∈ D)); done.
    + eapply IndexOK_ext; [apply (r_mnames s Hc m0)|]. intros h. unfold key_sig_msg. rewrite lookup_delete_all.
      destruct (decide (h ∈ D)) as [Hh|]; [|done]. rewrite (Hall _ Hh). rewrite !decide_False by congruence. done.
  - apply (r_xsigs s Hc).
  - apply (r_xnames s Hc).
  - intros y u Hp. rewrite !lookup_delete_all. pose proof (cl_down _ _ _ HD y u Hp).
    destruct (decide (y ∈ D)) as [Hy|Hy]; destruct (decide (u ∈ D)) as [Hu|Hu]; try done; [|tauto|by apply (r_child_msg s Hc)].
    destruct (decide (y = x)) as [->|Hne]; [congruence|]. destruct (cl_par _ _ _ HD y Hy Hne) as (v & Hv & ?). congruence.
  - apply (r_rank s Hc).
Qed.

Lemma IndexOK_insert_same {K} `{Countable K} (ekey : handle → option K) idx c k :
  IndexOK ekey idx → ekey c = Some k → IndexOK ekey (<[k := c]> idx).
Proof. intros Hok Hk. rewrite insert_id; [done|]. by apply Hok. Qed.

(* MultiplexerSignal.removeSignal *)
Lemma core_detach s u c : RegCore s → spmux s !! c = Some u → RegCore (detach_child s u c).
Proof.
  intros Hc Hpc.
  assert (is_Some (sname s !! c)) as [nc Hnc] by (apply (r_dom s Hc); right; left; by eexists).
  pose proof (r_child_msg s Hc _ _ Hpc) as Hcu.
  unfold detach_child. destruct (spmsg s !! u) as [m|] eqn:Hmu.
  - pose proof (desc_closed s c Hc ltac:(by eexists)) as HD.
    revert HD. generalize (desc s c). intros D HD.
    assert (∀ y, y ∈ D → spmsg s !! y = Some m) as Hall by (intros y Hy; by rewrite (cl_msg _ _ _ HD y Hy)).
    split; unfold unregister, rank, next2, key_sig_msg, key_sig_mux; cbn.
    + intros y [Hy|[Hy|Hy]]; apply (r_dom s Hc).
      * rewrite lookup_delete_all in Hy. destruct (decide (y ∈ D)); [by destruct Hy|]. by left.
      * right. left. destruct (decide (y = c)) as [->|]; [by eexists|]. by rewrite lookup_delete_ne in Hy.
      * by right; right.
    + apply (r_fresh s Hc).
    + apply (r_shape s Hc).
    + intros m0 y. rewrite lookup_delete_all. pose proof (r_top s Hc m0 y) as Ht.
      pose proof (cl_self _ _ _ HD). pose proof (Hall y). pose proof (cl_par _ _ _ HD y).
      destruct (decide (y ∈ D)) as [Hy|Hy].
      * split; [|naive_solver]. intros [Hm Hp]%Ht. destruct (decide (y = c)) as [->|Hne]; [congruence|].
        destruct (H1 Hy Hne) as (v & ? & _). congruence.
      * rewrite lookup_delete_ne by congruence. done.
    + intros m0 y. rewrite refs_of_insert, lookup_delete_all. pose proof (r_reg s Hc m0 y) as Ht. pose proof (Hall y).
      destruct (decide (m0 = m)) as [->|]; destruct (decide (y ∈ D)); rewrite ?elem_of_difference, ?elem_of_list_to_set; naive_solver.
    + intros m0. rewrite names_of_insert. destruct (decide (m0 = m)) as [->|Hne].
      * rewrite named_fst. eapply (IndexOK_delete_bulk (key_sig_msg s m) _ _ _ (name_of s)); [apply (r_mnames s Hc)|..].
        -- intros h Hh. unfold key_sig_msg. rewrite decide_True by auto.
           destruct (cl_named _ _ _ HD h Hh) as [nh Hnh]. by rewrite (name_of_Some _ _ _ Hnh).
        -- intros h Hh. rewrite lookup_delete_all. destruct (decide (h ∈ D)); [|done]. by rewrite decide_False.
        -- intros h Hh. rewrite lookup_delete_all. destruct (decide (h ∈ D)); done.
      * eapply IndexOK_ext; [apply (r_mnames s Hc m0)|]. intros h. unfold key_sig_msg. rewrite lookup_delete_all.
        destruct (decide (h ∈ D)) as [Hh|]; [|done]. rewrite (Hall _ Hh). rewrite !decide_False by congruence. done.
    + intros u0 y. rewrite refs_of_del. pose proof (r_xsigs s Hc u0 y) as Ht.
      destruct (decide (y = c)) as [->|Hne]; [rewrite lookup_delete|rewrite lookup_delete_ne by done].
      * destruct (decide (u0 = u)) as [->|]; [set_solver|]. rewrite Ht. split; congruence.
      * destruct (decide (u0 = u)) as [->|]; [|done]. rewrite elem_of_difference, elem_of_singleton. naive_solver.
    + intros u0. rewrite names_of_insert. destruct (decide (u0 = u)) as [->|Hne].
      * eapply (IndexOK_delete (key_sig_mux s u) _ _ c); [apply (r_xnames s Hc)|..].
        -- unfold key_sig_mux. rewrite decide_True by done. by rewrite (name_of_Some _ _ _ Hnc).
        -- by rewrite lookup_delete, decide_False.
        -- intros h Hh. rewrite lookup_delete_ne by done. done.
      * eapply IndexOK_ext; [apply (r_xnames s Hc u0)|]. intros h. unfold key_sig_mux.
        destruct (decide (h = c)) as [->|]; [|by rewrite lookup_delete_ne].
        rewrite lookup_delete, Hpc. rewrite !decide_False by congruence. done.
    + intros y v Hp. destruct (decide (y = c)) as [->|Hne]; [by rewrite lookup_delete in Hp|].
      rewrite lookup_delete_ne in Hp by done. rewrite !lookup_delete_all. pose proof (cl_down _ _ _ HD y v Hp).
      destruct (decide (y ∈ D)) as [Hy|Hy]; destruct (decide (v ∈ D)) as [Hv|Hv]; try done; [|tauto|by apply (r_child_msg s Hc)].
      destruct (cl_par _ _ _ HD y Hy Hne) as (v' & Hv' & ?). congruence.
    + intros y v Hp. destruct (decide (y = c)) as [->|Hne]; [by rewrite lookup_delete in Hp|].
      rewrite lookup_delete_ne in Hp by done. by apply (r_rank s Hc).
  -
    split; unfold rank, next2, key_sig_msg, key_sig_mux; cbn.
    + intros y [Hy|[Hy|Hy]]; apply (r_dom s Hc); [by left| |by right; right].
      right. left. destruct (decide (y = c)) as [->|]; [by eexists|]. by rewrite lookup_delete_ne in Hy.
    + apply (r_fresh s Hc).
    + apply (r_shape s Hc).
    + intros m0 y. pose proof (r_top s Hc m0 y) as Ht.
      destruct (decide (y = c)) as [->|Hne]; [rewrite lookup_delete|by rewrite lookup_delete_ne by done].
      rewrite Ht. split; intros [? ?]; congruence.
    + apply (r_reg s Hc).
    + apply (r_mnames s Hc).
    + intros u0 y. rewrite refs_of_del. pose proof (r_xsigs s Hc u0 y) as Ht.
      destruct (decide (y = c)) as [->|Hne]; [rewrite lookup_delete|rewrite lookup_delete_ne by done].
      * destruct (decide (u0 = u)) as [->|]; [set_solver|]. rewrite Ht. split; congruence.
      * destruct (decide (u0 = u)) as [->|]; [|done]. rewrite elem_of_difference, elem_of_singleton. naive_solver.
    + intros u0. rewrite names_of_insert. destruct (decide (u0 = u)) as [->|Hne].
      * eapply (IndexOK_delete (key_sig_mux s u) _ _ c); [apply (r_xnames s Hc)|..].
        -- unfold key_sig_mux. rewrite decide_True by done. by rewrite (name_of_Some _ _ _ Hnc).
        -- by rewrite lookup_delete, decide_False.
        -- intros h Hh. rewrite lookup_delete_ne by done. done.
      * eapply IndexOK_ext; [apply (r_xnames s Hc u0)|]. intros h. unfold key_sig_mux.
        destruct (decide (h = c)) as [->|]; [|by rewrite lookup_delete_ne].
        rewrite lookup_delete, Hpc. rewrite !decide_False by congruence. done.
    + intros y v Hp. destruct (decide (y = c)) as [->|Hne]; [by rewrite lookup_delete in Hp|].
      rewrite lookup_delete_ne in Hp by done. by apply (r_child_msg s Hc).
    + intros y v Hp. destruct (decide (y = c)) as [->|Hne]; [by rewrite lookup_delete in Hp|].
      rewrite lookup_delete_ne in Hp by done. by apply (r_rank s Hc).
Qed.
