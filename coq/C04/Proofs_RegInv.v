(* C04/C05 layer 2 — the step theorem, reachability, and the statements about signals. *)
From Acme.C04 Require Export Proofs_RegStep.
From Acme.C04 Require Import Proofs_Size.
From Coq Require Import Lia.

Lemma l3_clear_one u g c s : l3 (clear_one u g c s) = l3 s.
Proof.
  unfold clear_one. repeat case_match; try done. cbn. by destruct (detach_fields s u c) as (-> & _).
Qed.

Lemma l3_step2_other s o :
  match o with L3 _ | NewStd2 _ _ | NewEnum2 _ _ | NewMux2 _ _ _ | EnumClone _ | EvalClone _ | MsgResize _ _ _ | BusSetType _ _ => False | _ => True end →
  l3 (step2 s o).1 = l3 s.
Proof.
  destruct o; try done; intros _; cbn [step2].
  - unfold msg_attach. repeat case_match; done.
  - unfold msg_remove_signal, mux_remove. repeat case_match; try done. cbn. by destruct (detach_fields s h key) as (-> & _).
  - unfold msg_remove_all_signals. repeat case_match; done.
  - unfold sig_update_name. repeat case_match; done.
  - unfold mux_insert. repeat case_match; try done; cbn.
    all: match goal with |- context [mux_attach_child ?s ?u ?x] => by destruct (attach_fields s u x) as (-> & _) end.
  - unfold mux_remove. repeat case_match; try done. cbn. by destruct (detach_fields s u key) as (-> & _).
  - unfold mux_clear_group. repeat case_match; try done. cbn.
    generalize (elements (refs_of (xsigs s) u)). intros l. induction l as [|a l IH]; [done|]. cbn. by rewrite l3_clear_one.
  - unfold mux_clear_all. repeat case_match; try done. cbn.
    generalize (elements (refs_of (xsigs s) u)). intros l. induction l as [|a l IH]; [done|]. cbn.
    match goal with |- context [detach_child ?s0 u a] => by destruct (detach_fields s0 u a) as (-> & _) end.
Qed.

Lemma l3_new_signal s nm o : l3 (new_signal2 s nm o).1 = (step3 (l3 s) o).1.
Proof. unfold new_signal2, lift3. by destruct (step3 (l3 s) o) as [t [|e]]. Qed.

Lemma new_std_next s ot t : step3 s (NewStdSignal ot) = (t, Ok) → next (base t) = Pos.succ (next (base s)).
Proof. cbn. unfold new_std_signal. destruct ot; [|done]. cbn. by intros [= <-]. Qed.
Lemma new_enum_next s oe t : step3 s (NewEnumSignal oe) = (t, Ok) → next (base t) = Pos.succ (next (base s)).
Proof. cbn. unfold new_enum_signal. destruct oe; [|done]. cbn. by intros [= <-]. Qed.

Theorem inv2_init : Inv2 init2.
Proof.
  split; [apply inv3_init|]. split.
  2: { intros u. split; cbn; unfold refs_of, gids_of; rewrite !lookup_empty; cbn.
       - intros x. rewrite lookup_empty. split; [set_solver|]. intros [?|[? ?]]; [set_solver|done].
       - intros x ids. by rewrite lookup_empty. }
  split; unfold key_sig_msg, key_sig_mux, refs_of, names_of; cbn.
  - intros x [[? H]|[[? H]|[? H]]]; by rewrite lookup_empty in H.
  - intros h _. apply lookup_empty.
  - intros u c g H. by rewrite lookup_empty in H.
  - intros m x. rewrite !lookup_empty. cbn. split; [set_solver|]. by intros [? _].
  - intros m x. rewrite !lookup_empty. cbn. split; [set_solver|done].
  - intros m. rewrite lookup_empty. cbn. apply IndexOK_empty. intros h. by rewrite lookup_empty, decide_False.
  - intros m x. rewrite !lookup_empty. cbn. split; [set_solver|done].
  - intros m. rewrite lookup_empty. cbn. apply IndexOK_empty. intros h. by rewrite lookup_empty, decide_False.
  - intros x u H. by rewrite lookup_empty in H.
  - intros x u H. by rewrite lookup_empty in H.
Qed.

(* ---- Clone: a composite of constructors and AddValue on the fresh enum ------------------------------ *)
Lemma inv2_l3 s o : Inv2 s → op_ok3 (l3 s) o → Inv2 (lift3 s o).1.
Proof.
  intros [H3 Hr] Hok. split.
  - unfold lift3. pose proof (inv3_step (l3 s) o H3 Hok). by destruct (step3 (l3 s) o).
  - unfold lift3. pose proof (next3_mono (l3 s) o). destruct (step3 (l3 s) o) as [t r] eqn:Hs. cbn in *. by apply regok_lift.
Qed.

Lemma new_enum_value_fresh (s : state2) n i :
  evals (base (l3 (lift3 s (L1 (NewEnumValue n i))).1)) !! next2 s = Some (mkEval n i None).
Proof. unfold lift3. cbn. unfold new_enum_value, alloc, ok, next2. cbn. by rewrite lookup_insert. Qed.

Lemma inv2_clone_value e' s0 acc iv : Inv2 acc → Inv2 (clone_value e' s0 acc iv).
Proof.
  intros Hi. unfold clone_value. destruct (evals s0 !! iv.2) as [V|]; [|exact Hi].
  assert (Inv2 (lift3 acc (L1 (NewEnumValue (v_name V) (v_index V)))).1) as Hi1 by (by apply inv2_l3).
  apply inv2_l3; [done|]. intros V' HV'. rewrite new_enum_value_fresh in HV'. injection HV' as <-. by left.
Qed.

Lemma inv2_fold_clone e' s0 l : ∀ acc, Inv2 acc → Inv2 (fold_left (clone_value e' s0) l acc).
Proof. induction l as [|iv l IH]; intros acc Hacc; [exact Hacc|]. cbn [fold_left]. apply IH. by apply inv2_clone_value. Qed.

Lemma inv2_enum_clone s e : Inv2 s → Inv2 (enum_clone s e).1.
Proof.
  intros Hi. unfold enum_clone. destruct (enums (base (l3 s)) !! e) as [E|]; [|exact Hi].
  unfold ok2. cbn [fst]. apply inv2_fold_clone. by apply inv2_l3.
Qed.

Lemma inv2_eval_clone s v : Inv2 s → Inv2 (eval_clone s v).1.
Proof.
  intros Hi. unfold eval_clone. destruct (evals (base (l3 s)) !! v) as [V|]; [|exact Hi]. by apply inv2_l3.
Qed.

(* ---- size of a message, type of a bus: only the layer-1 heap changes, in a field no index reads ------- *)
Lemma inv2_set_base s b : Inv2 s → Inv b → next b = next (base (l3 s)) → Inv2 (set_base s b).
Proof.
  intros [[Hi Hrefs] [Hc Hg]] Hb Hn. split; [split|split].
  - exact Hb.
  - destruct Hrefs. split; cbn; rewrite ?Hn; done.
  - eapply core_frame; [..|exact Hc]; try done. unfold next2, set_base. cbn. rewrite Hn. lia.
  - intros u. by eapply groups_frame; [..|apply Hg].
Qed.

Lemma inv2_msg_resize s m n f : Inv2 s → Inv2 (msg_resize s m n f).1.
Proof.
  intros Hi. unfold msg_resize. destruct (msgs (base (l3 s)) !! m) as [M|] eqn:HM; [|exact Hi].
  repeat (case_match; [exact Hi|]). cbn. apply inv2_set_base; [done| |done].
  apply inv_msg_size; [apply Hi|done].
Qed.

Lemma inv2_bus_set_type s b t : Inv2 s → Inv2 (bus_set_type s b t).1.
Proof.
  intros Hi. unfold bus_set_type. destruct (buses (base (l3 s)) !! b) as [B|] eqn:HB; [|exact Hi].
  cbn. apply inv2_set_base; [done| |done]. apply inv_bus_type; [apply Hi|done].
Qed.

Theorem inv2_step s o : Inv2 s → op_ok2 s o → Inv2 (step2 s o).1.
Proof.
  intros Hi Hok.
  destruct (match o with EnumClone _ | EvalClone _ | MsgResize _ _ _ | BusSetType _ _ => true | _ => false end) eqn:Hcl.
  { destruct o; try discriminate Hcl; [by apply inv2_enum_clone|by apply inv2_eval_clone|by apply inv2_msg_resize|by apply inv2_bus_set_type]. }
  destruct Hi as [H3 Hr]. split.
  - destruct o as [o|nm ot|nm oe|nm c g| | | | | | | | | | | |]; try discriminate Hcl; try (rewrite l3_step2_other by done; exact H3).
    + cbn [step2]. unfold lift3. pose proof (inv3_step (l3 s) o H3 Hok). by destruct (step3 (l3 s) o).
    + cbn [step2]. rewrite l3_new_signal. by apply inv3_step.
    + cbn [step2]. rewrite l3_new_signal. by apply inv3_step.
    + cbn [step2]. unfold new_mux2. repeat (case_match; [done|]). unfold lift3.
      pose proof (inv3_step (l3 s) (L1 NewOther) H3 I). by destruct (step3 (l3 s) (L1 NewOther)).
  - destruct o as [o|nm ot|nm oe|nm c g|m [x|] f|m k|m|x nm|u [x|] f ids|u k|u g|u|e|v|m n f|b t]; try discriminate Hcl; cbn [step2].
    + unfold lift3. pose proof (next3_mono (l3 s) o). destruct (step3 (l3 s) o) as [t r] eqn:Hs. cbn in *. by apply regok_lift.
    + apply regok_new_signal; [|done]. intros t. apply new_std_next.
    + apply regok_new_signal; [|done]. intros t. apply new_enum_next.
    + by apply regok_new_mux.
    + destruct Hok. by apply regok_msg_attach.
    + unfold msg_attach. by repeat case_match.
    + by apply regok_msg_remove_signal.
    + by apply regok_msg_remove_all.
    + by apply regok_update_name.
    + by apply regok_mux_insert.
    + unfold mux_insert. by repeat case_match.
    + by apply regok_mux_remove.
    + by apply regok_clear_group.
    + by apply regok_clear_all.
Qed.

Theorem inv2_reachable s : Reach2 s → Inv2 s.
Proof. induction 1; [apply inv2_init|by apply inv2_step]. Qed.
