(* C04/C05 layer 2 — generic lemmas: bulk index maintenance, descendants of a signal. *)
From Acme.C04 Require Export RegInv ProofsLib Proofs_Refs.
From Coq Require Import Lia.

Lemma lookup_upd_all {V} (l : list handle) (v : V) (m : gmap handle V) y :
  upd_all l v m !! y = if decide (y ∈ l) then Some v else m !! y.
Proof.
  induction l as [|a l IH]; cbn [upd_all foldr].
  - rewrite decide_False; [done|apply not_elem_of_nil].
  - fold (upd_all l v m). destruct (decide (y = a)) as [->|Hne].
    + rewrite lookup_insert. rewrite decide_True; [done|apply elem_of_list_here].
    + rewrite lookup_insert_ne by done. rewrite IH.
      destruct (decide (y ∈ l)) as [Hin|Hin].
      * rewrite decide_True; [done|by apply elem_of_list_further].
      * rewrite decide_False; [done|]. rewrite elem_of_cons. intros [?|?]; done.
Qed.

Lemma refs_of_insert (M : gmap handle (gset handle)) h v h' :
  refs_of (<[h := v]> M) h' = if decide (h' = h) then v else refs_of M h'.
Proof.
  unfold refs_of. destruct (decide (h' = h)) as [->|]; [by rewrite lookup_insert|by rewrite lookup_insert_ne].
Qed.
Lemma names_of_insert (M : gmap handle (gmap name handle)) h v h' :
  names_of (<[h := v]> M) h' = if decide (h' = h) then v else names_of M h'.
Proof.
  unfold names_of. destruct (decide (h' = h)) as [->|]; [by rewrite lookup_insert|by rewrite lookup_insert_ne].
Qed.
Lemma gids_of_insert (M : gmap handle (gmap handle (list Z))) h v h' :
  gids_of (<[h := v]> M) h' = if decide (h' = h) then v else gids_of M h'.
Proof.
  unfold gids_of. destruct (decide (h' = h)) as [->|]; [by rewrite lookup_insert|by rewrite lookup_insert_ne].
Qed.
Lemma refs_of_add M h x h' : refs_of (add_ref h x M) h' = if decide (h' = h) then {[x]} ∪ refs_of M h else refs_of M h'.
Proof. unfold add_ref. by rewrite refs_of_insert. Qed.
Lemma refs_of_del M h x h' : refs_of (del_ref h x M) h' = if decide (h' = h) then refs_of M h ∖ {[x]} else refs_of M h'.
Proof. unfold del_ref. by rewrite refs_of_insert. Qed.

(* ---- bulk index maintenance ------------------------------------------------------------------ *)
Section bulk.
  Context {K : Type} `{Countable K}.
  Implicit Types (ekey : handle → option K) (idx : gmap K handle).

  (* a set of children gets keys (free, or already theirs): the loop of set.add in addSignal *)
  Lemma IndexOK_insert_bulk ekey ekey' idx (l : list (K * handle)) :
    IndexOK ekey idx → NoDup l.*1 →
    (∀ k h, (k, h) ∈ l → idx !! k = None ∨ idx !! k = Some h) →
    (∀ k h, (k, h) ∈ l → ekey h = None ∨ ekey h = Some k) →
    (∀ k h, (k, h) ∈ l → ekey' h = Some k) →
    (∀ h, h ∉ l.*2 → ekey' h = ekey h) →
    IndexOK ekey' (insert_all l idx).
  Proof.
    intros Hok Hnd Hfree Hold Hnew Hframe k h. split.
    - intros Hl. destruct (decide (k ∈ l.*1)) as [Hin|Hin].
      + apply elem_of_list_fmap in Hin as ([k0 h0] & -> & Hin). cbn in *.
        rewrite (lookup_insert_all_Some _ _ _ _ Hnd Hin) in Hl. injection Hl as <-. by apply Hnew.
      + rewrite lookup_insert_all_None in Hl by done. apply Hok in Hl as Hk.
        rewrite Hframe; [done|]. intros Hh. apply elem_of_list_fmap in Hh as ([k2 h2] & -> & Hh). cbn in *.
        destruct (Hold _ _ Hh) as [Ho|Ho]; [congruence|]. assert (k2 = k) as -> by congruence.
        apply Hin. apply elem_of_list_fmap. by exists (k, h2).
    - intros He. destruct (decide (h ∈ l.*2)) as [Hin|Hin].
      + apply elem_of_list_fmap in Hin as ([k2 h2] & -> & Hin). cbn in *.
        rewrite (Hnew _ _ Hin) in He. injection He as ->. by apply lookup_insert_all_Some.
      + rewrite Hframe in He by done. apply Hok in He as Hi.
        rewrite lookup_insert_all_None; [done|]. intros Hk.
        apply elem_of_list_fmap in Hk as ([k0 h0] & -> & Hk). cbn in *.
        destruct (Hfree _ _ Hk) as [Hf|Hf]; [congruence|]. assert (h0 = h) as -> by congruence.
        apply Hin. apply elem_of_list_fmap. by exists (k0, h).
  Qed.

  (* a set of children loses its keys: the loop of set.remove in removeSignal *)
  Lemma IndexOK_delete_bulk ekey ekey' idx (l : list handle) (kf : handle → K) :
    IndexOK ekey idx →
    (∀ h, h ∈ l → ekey h = Some (kf h)) →
    (∀ h, h ∈ l → ekey' h = None) →
    (∀ h, h ∉ l → ekey' h = ekey h) →
    IndexOK ekey' (delete_all (kf <$> l) idx).
  Proof.
    intros Hok Hold Hnew Hframe k h. rewrite lookup_delete_all. split.
    - destruct (decide (k ∈ kf <$> l)) as [Hin|Hin]; [done|]. intros Hi. apply Hok in Hi as He.
      rewrite Hframe; [done|]. intros Hh. apply Hin. apply elem_of_list_fmap. exists h. split; [|done].
      apply Hold in Hh. congruence.
    - intros He. destruct (decide (h ∈ l)) as [Hh|Hh]; [rewrite Hnew in He by done; done|].
      rewrite Hframe in He by done. rewrite decide_False; [by apply Hok|].
      intros Hk. apply elem_of_list_fmap in Hk as (y & -> & Hy). pose proof (Hold _ Hy) as Hy'.
      apply Hh. by rewrite (IndexOK_inj _ _ _ _ _ Hok He Hy').
  Qed.
End bulk.

(* ---- Under ------------------------------------------------------------------------------------- *)
Lemma Under_trans s x v y : Under s x v → Under s v y → Under s x y.
Proof. induction 1; [done|]. intros. eapply under_child; eauto. Qed.

Lemma Under_down s x v y : Under s x v → spmux s !! y = Some v → Under s x y.
Proof. intros Hu Hy. eapply Under_trans; [done|]. eapply under_child; [done|constructor]. Qed.

Lemma Under_parent s x y : Under s x y → y ≠ x → ∃ v, spmux s !! y = Some v ∧ Under s x v.
Proof.
  induction 1 as [|x c y Hc Hu IH]; [done|]. intros _.
  destruct (decide (y = c)) as [->|Hne].
  - exists x. split; [done|constructor].
  - destruct (IH Hne) as (v & Hv & Hcv). exists v. split; [done|]. eapply under_child; eauto.
Qed.

Lemma Under_ext s s' x y : spmux s' = spmux s → Under s x y → Under s' x y.
Proof. intros He. induction 1; [constructor|]. eapply under_child; [|done]. by rewrite He. Qed.

Section core.
  Context (s : state2) (Hc : RegCore s).

  Lemma Under_msg x y : Under s x y → spmsg s !! y = spmsg s !! x.
  Proof. induction 1 as [|x c y Hp _ IH]; [done|]. rewrite IH. by apply (r_child_msg s Hc). Qed.

  Lemma Under_rank x y : Under s x y → y = x ∨ (rank s y < rank s x)%nat.
  Proof.
    induction 1 as [|x c y Hp _ IH]; [by left|]. right.
    destruct (r_rank s Hc _ _ Hp) as [_ Hr]. destruct IH as [->|]; lia.
  Qed.

  Lemma elem_of_descF n x y : y ∈ descF (xsigs s) n x → Under s x y.
  Proof.
    revert x. induction n as [|n IH]; intros x; cbn [descF].
    - intros ->%elem_of_list_singleton. constructor.
    - rewrite elem_of_cons, elem_of_list_In, in_flat_map. intros [->|(c & Hcx & Hy)]; [constructor|].
      apply elem_of_list_In, elem_of_elements, (r_xsigs s Hc) in Hcx. apply elem_of_list_In, IH in Hy.
      eapply under_child; eauto.
  Qed.

  Lemma descF_complete x y : Under s x y → ∀ n, (rank s x ≤ n)%nat → y ∈ descF (xsigs s) n x.
  Proof.
    induction 1 as [|x c y Hp _ IH]; intros n Hn.
    - destruct n; cbn; apply elem_of_list_here.
    - destruct (r_rank s Hc _ _ Hp) as [_ Hr]. destruct n as [|n]; [lia|]. cbn [descF].
      apply elem_of_list_further, elem_of_list_In, in_flat_map. exists c. split.
      + apply elem_of_list_In, elem_of_elements, (r_xsigs s Hc). done.
      + apply elem_of_list_In, IH. lia.
  Qed.

  Lemma elem_of_desc x y : y ∈ desc s x ↔ Under s x y.
  Proof. split; [apply elem_of_descF|]. intros Hu. by apply descF_complete. Qed.

  Lemma desc_self x : x ∈ desc s x.
  Proof. apply elem_of_desc. constructor. Qed.

  Lemma desc_hd x : ∃ l, desc s x = x :: l.
  Proof. unfold desc. destruct (rank s x); cbn; eauto. Qed.

  (* nesting is bounded: the chain of parents of a signal ends at a signal without a multiplexer *)
  Lemma rank_bounded : ∃ B, ∀ u, (rank s u ≤ B)%nat.
  Proof.
    unfold rank. generalize (xshape s). intros sh. induction sh as [|i [c g] m Hi [B HB]] using map_ind.
    - exists O. intros u. by rewrite lookup_empty.
    - exists (B `max` Z.to_nat g)%nat. intros u. destruct (decide (u = i)) as [->|].
      + rewrite lookup_insert. lia.
      + rewrite lookup_insert_ne by done. specialize (HB u). destruct (m !! u) as [[]|]; lia.
  Qed.

  Lemma root_exists x : ∃ t, spmux s !! t = None ∧ Under s t x.
  Proof.
    destruct rank_bounded as [B HB].
    assert (∀ k x, (B - rank s x ≤ k)%nat → ∃ t, spmux s !! t = None ∧ Under s t x) as Hk; [|by eapply Hk].
    clear x. induction k as [|k IH]; intros x Hx.
    all: destruct (spmux s !! x) as [u|] eqn:Hp; [|exists x; split; [done|constructor]].
    all: destruct (r_rank s Hc _ _ Hp) as [_ Hr]; pose proof (HB u).
    - lia.
    - destruct (IH u ltac:(lia)) as (t & Ht & Hu). exists t. split; [done|]. by eapply Under_down.
  Qed.

  (* I1 in the words of the property: reachable from the payload = registered = parentMsg *)
  Lemma in_message_iff m x : InMessage s m x ↔ spmsg s !! x = Some m.
  Proof.
    split.
    - intros (t & Ht & Hu). apply (r_top s Hc) in Ht as [Ht _]. by rewrite (Under_msg _ _ Hu).
    - intros Hx. destruct (root_exists x) as (t & Ht & Hu). exists t. split; [|done].
      apply (r_top s Hc). split; [|done]. by rewrite <-(Under_msg _ _ Hu).
  Qed.
End core.
