(* C04/C05 layer 2 — attaching a signal (with everything it holds) to a message. *)
From Acme.C04 Require Export Proofs_RegLib.
From Coq Require Import Lia.

Lemma named_fst s l : (named s l).*1 = name_of s <$> l.
Proof. unfold named. rewrite <-list_fmap_compose. done. Qed.
Lemma named_snd s l : (named s l).*2 = l.
Proof. unfold named. rewrite <-list_fmap_compose. cbn. induction l; cbn; congruence. Qed.
Lemma elem_of_named s l k h : (k, h) ∈ named s l ↔ h ∈ l ∧ k = name_of s h.
Proof.
  unfold named. rewrite elem_of_list_fmap. split.
  - intros (y & [= -> ->] & Hy). done.
  - intros [Hh ->]. eauto.
Qed.

Lemma named_ext s' s l : sname s' = sname s → named s' l = named s l.
Proof. intros He. unfold named, name_of. by rewrite He. Qed.

Lemma nested_ok_spec s m x :
  nested_ok s m x = true →
  NoDup (named s (desc s x)).*1 ∧
  ∀ d, d ∈ tail (desc s x) → names_of (mnames s) m !! name_of s d = None ∨ names_of (mnames s) m !! name_of s d = Some d.
Proof.
  unfold nested_ok. intros [Hnd Hall]%andb_prop. split; [by apply bool_decide_eq_true in Hnd|].
  intros d Hd. rewrite forallb_forall in Hall. apply elem_of_list_In, Hall in Hd.
  destruct (names_of (mnames s) m !! name_of s d) as [o|]; [|by left].
  apply bool_decide_eq_true in Hd as ->. by right.
Qed.

Lemma name_of_Some s x nm : sname s !! x = Some nm → name_of s x = nm.
Proof. unfold name_of. intros Hx. cbv [name] in *. by rewrite Hx. Qed.

(* the facts about D = desc s x that the registration proofs use *)
Record Closed (s : state2) (x : handle) (D : list handle) : Prop := {
  cl_self : x ∈ D;
  cl_par : ∀ y, y ∈ D → y ≠ x → ∃ v, spmux s !! y = Some v ∧ v ∈ D;
  cl_down : ∀ y v, spmux s !! y = Some v → v ∈ D → y ∈ D;
  cl_msg : ∀ y, y ∈ D → spmsg s !! y = spmsg s !! x;
  cl_named : ∀ y, y ∈ D → is_Some (sname s !! y);
  cl_rank : ∀ y, y ∈ D → y = x ∨ (rank s y < rank s x)%nat;
}.

Lemma desc_closed s x : RegCore s → is_Some (sname s !! x) → Closed s x (desc s x).
Proof.
  intros Hc Hx. split.
  - by apply desc_self.
  - intros y Hy%elem_of_desc Hne; [|done]. destruct (Under_parent _ _ _ Hy Hne) as (v & Hv & Hu).
    exists v. split; [done|]. by apply elem_of_desc.
  - intros y v Hp Hv%elem_of_desc; [|done]. apply elem_of_desc; [done|]. by eapply Under_down.
  - intros y Hy%elem_of_desc; [|done]. by apply Under_msg.
  - intros y Hy%elem_of_desc; [|done]. destruct (decide (y = x)) as [->|Hne]; [done|].
    destruct (Under_parent _ _ _ Hy Hne) as (v & Hv & _). apply (r_dom s Hc). right. left. by eexists.
  - intros y Hy%elem_of_desc; [|done]. by apply Under_rank.
Qed.

Lemma core_msg_attach s m x nm :
  RegCore s → sname s !! x = Some nm → spmux s !! x = None → spmsg s !! x = None →
  names_of (mnames s) m !! nm = None → nested_ok s m x = true →
  RegCore (register s m (desc s x) <| mtop ::= add_ref m x |>).
Proof.
  intros Hc Hnm Hpx Hmx Hfree [Hnd Hnest]%nested_ok_spec.
  pose proof (desc_closed s x Hc ltac:(by eexists)) as HD.
  destruct (desc_hd s x) as [tl Htl]. rewrite Htl in Hnest. cbn [tail] in Hnest.
  revert Hnd Hnest HD Htl. generalize (desc s x). intros D Hnd Hnest HD Htl.
  assert (∀ y, y ∈ D → spmsg s !! y = None) as Hnone by (intros y Hy; by rewrite (cl_msg _ _ _ HD y Hy)).
  assert (∀ y, y ∈ D → spmux s !! y = None → y = x) as Hroot.
  { intros y Hy Hp. destruct (decide (y = x)) as [|Hne]; [done|].
    destruct (cl_par _ _ _ HD y Hy Hne) as (v & Hv & _). congruence. }
  split; unfold register, rank, next2, key_sig_msg, key_sig_mux; cbn.
  - intros y [Hy|Hy]; [|apply (r_dom s Hc); by right].
    rewrite lookup_upd_all in Hy. destruct (decide (y ∈ D)); [by apply (cl_named _ _ _ HD)|].
    apply (r_dom s Hc). by left.
  - apply (r_fresh s Hc).
  - apply (r_shape s Hc).
  - intros m0 y. rewrite refs_of_add, lookup_upd_all. pose proof (r_top s Hc m0 y) as Ht.
    pose proof (cl_self _ _ _ HD). pose proof (Hnone y). pose proof (Hroot y).
    destruct (decide (m0 = m)) as [->|]; destruct (decide (y ∈ D)); rewrite ?elem_of_union, ?elem_of_singleton; naive_solver.
  - intros m0 y. rewrite refs_of_insert, lookup_upd_all. pose proof (r_reg s Hc m0 y) as Ht. pose proof (Hnone y).
    destruct (decide (m0 = m)) as [->|]; destruct (decide (y ∈ D)); rewrite ?elem_of_union, ?elem_of_list_to_set; naive_solver.
  - intros m0. rewrite names_of_insert. destruct (decide (m0 = m)) as [->|Hne].
    + eapply (IndexOK_insert_bulk (key_sig_msg s m)); [apply (r_mnames s Hc)|exact Hnd|..].
      * intros k h [Hh ->]%elem_of_named. subst D. apply elem_of_cons in Hh as [->|Hh]; [|by apply Hnest].
        left. by rewrite (name_of_Some _ _ _ Hnm).
      * intros k h [Hh ->]%elem_of_named. left. unfold key_sig_msg. rewrite (Hnone _ Hh). by rewrite decide_False.
      * intros k h [Hh ->]%elem_of_named. rewrite lookup_upd_all. destruct (decide (h ∈ D)); [|done]. rewrite decide_True by done.
        destruct (cl_named _ _ _ HD h Hh) as [nh Hnh]. by rewrite (name_of_Some _ _ _ Hnh).
      * intros h Hh. rewrite named_snd in Hh. rewrite lookup_upd_all. destruct (decide (h ∈ D)); done.
    + eapply IndexOK_ext; [apply (r_mnames s Hc m0)|]. intros h. unfold key_sig_msg. rewrite lookup_upd_all.
      destruct (decide (h ∈ D)) as [Hh|]; [|done]. rewrite (Hnone _ Hh). rewrite !decide_False by congruence. done.
  - apply (r_xsigs s Hc).
  - apply (r_xnames s Hc).
  - intros y u Hp. rewrite !lookup_upd_all. pose proof (cl_down _ _ _ HD y u Hp).
    destruct (decide (y ∈ D)) as [Hy|Hy]; destruct (decide (u ∈ D)) as [Hu|Hu]; try done; [|tauto|by apply (r_child_msg s Hc)].
    destruct (decide (y = x)) as [->|Hne]; [congruence|]. destruct (cl_par _ _ _ HD y Hy Hne) as (v & Hv & ?). congruence.
  - apply (r_rank s Hc).
Qed.
