(* C04/C05 layer 2 — MultiplexerSignal.addSignal: a signal (with everything it holds) enters a group. *)
From Acme.C04 Require Export Proofs_RegDetach.
From Coq Require Import Lia.

Lemma core_mux_attach s u x nm :
  RegCore s → sname s !! x = Some nm → is_Some (xshape s !! u) →
  (names_of (xnames s) u !! nm = None ∨ names_of (xnames s) u !! nm = Some x) →
  (∀ m, spmsg s !! u = Some m →
     (names_of (xnames s) u !! nm = None → names_of (mnames s) m !! nm = None) ∧ nested_ok s m x = true) →
  (rank s x < rank s u)%nat →
  ((spmux s !! x = None ∧ spmsg s !! x = None) ∨ spmux s !! x = Some u) →
  RegCore (mux_attach_child s u x).
Proof.
  intros Hc Hnm Hshape Hnu Hmsg Hrank Hok.
  assert (key_sig_mux s u x = None ∧ names_of (xnames s) u !! nm = None ∨ key_sig_mux s u x = Some nm) as Hkx.
  { unfold key_sig_mux. destruct Hok as [[Hp _]|Hp]; [|right; by rewrite decide_True].
    rewrite Hp. left. rewrite decide_False by done. split; [done|]. destruct Hnu as [|Hnu]; [done|].
    apply (r_xnames s Hc) in Hnu. unfold key_sig_mux in Hnu. rewrite Hp in Hnu. by rewrite decide_False in Hnu. }
  assert (∀ u0, IndexOK (λ x0, if decide (<[x:=u]> (spmux s) !! x0 = Some u0) then sname s !! x0 else None)
                  (names_of (<[u:=<[name_of s x:=x]> (names_of (xnames s) u)]> (xnames s)) u0)) as Hxnames.
  { intros u0. rewrite names_of_insert, (name_of_Some _ _ _ Hnm). destruct (decide (u0 = u)) as [->|Hne].
    - destruct Hkx as [[Hk Hfree]|Hk].
      + eapply (IndexOK_insert (key_sig_mux s u) _ _ x); [apply (r_xnames s Hc)|done|done|..].
        * by rewrite lookup_insert, decide_True.
        * intros h Hh. by rewrite lookup_insert_ne.
      + eapply IndexOK_ext; [eapply IndexOK_insert_same; [apply (r_xnames s Hc u)|done]|].
        intros h. unfold key_sig_mux. destruct (decide (h = x)) as [->|]; [|by rewrite lookup_insert_ne].
        rewrite lookup_insert. unfold key_sig_mux in Hk. destruct (decide (spmux s !! x = Some u)); [|done].
        by rewrite decide_True.
    - eapply IndexOK_ext; [apply (r_xnames s Hc u0)|]. intros h. unfold key_sig_mux.
      destruct (decide (h = x)) as [->|]; [|by rewrite lookup_insert_ne].
      rewrite lookup_insert. rewrite decide_False by congruence. destruct Hok as [[-> _]| ->]; by rewrite decide_False by congruence. }
  assert (∀ u0 y, y ∈ refs_of (add_ref u x (xsigs s)) u0 ↔ <[x:=u]> (spmux s) !! y = Some u0) as Hxsigs.
  { intros u0 y. rewrite refs_of_add. pose proof (r_xsigs s Hc u0 y) as Ht.
    destruct (decide (y = x)) as [->|Hne]; [rewrite lookup_insert|rewrite lookup_insert_ne by done].
    - destruct (decide (u0 = u)) as [->|]; [set_solver|]. rewrite Ht. destruct Hok as [[-> _]| ->]; split; congruence.
    - destruct (decide (u0 = u)) as [->|]; [|done]. rewrite elem_of_union, elem_of_singleton. naive_solver. }
  assert (∀ y v, <[x:=u]> (spmux s) !! y = Some v → is_Some (xshape s !! v) ∧ (rank s y < rank s v)%nat) as Hrk.
  { intros y v Hp. destruct (decide (y = x)) as [->|Hne].
    - rewrite lookup_insert in Hp. by injection Hp as <-.
    - rewrite lookup_insert_ne in Hp by done. by apply (r_rank s Hc). }
  assert (∀ y, is_Some (<[x:=u]> (spmux s) !! y) → is_Some (sname s !! y)) as Hdomx.
  { intros y Hy. destruct (decide (y = x)) as [->|]; [by eexists|]. rewrite lookup_insert_ne in Hy by done.
    apply (r_dom s Hc). by right; left. }
  unfold mux_attach_child. destruct (spmsg s !! u) as [m|] eqn:Hmu.
  - destruct (Hmsg m eq_refl) as [Hfree [Hnd Hnest]%nested_ok_spec].
    pose proof (desc_closed s x Hc ltac:(by eexists)) as HD.
    destruct (desc_hd s x) as [tl Htl]. rewrite Htl in Hnest. cbn [tail] in Hnest.
    revert Hnd Hnest HD Htl. generalize (desc s x). intros D Hnd Hnest HD Htl.
    assert (∀ y, y ∈ D → spmsg s !! y = None ∨ spmsg s !! y = Some m) as Hall.
    { intros y Hy. rewrite (cl_msg _ _ _ HD y Hy). destruct Hok as [[_ ->]|Hp]; [by left|].
      right. by rewrite (r_child_msg s Hc _ _ Hp). }
    assert (u ∉ D) as HuD.
    { intros Hu. destruct (cl_rank _ _ _ HD u Hu) as [->|]; lia. }
    pose proof (cl_self _ _ _ HD) as HxD.
    split; unfold register, rank, next2, key_sig_msg, key_sig_mux; cbn.
    + intros y [Hy|[Hy|Hy]]; [|by apply Hdomx|apply (r_dom s Hc); by right; right].
      rewrite lookup_upd_all in Hy. destruct (decide (y ∈ D)); [by apply (cl_named _ _ _ HD)|].
      apply (r_dom s Hc). by left.
    + apply (r_fresh s Hc).
    + apply (r_shape s Hc).
    + intros m0 y. rewrite lookup_upd_all. pose proof (r_top s Hc m0 y) as Ht.
      destruct (decide (y = x)) as [->|Hne]; [rewrite lookup_insert|rewrite lookup_insert_ne by done].
      * rewrite Ht. split; [|intros [_ ?]; done]. intros [? ?]. destruct Hok as [[? ?]|?]; congruence.
      * destruct (decide (y ∈ D)) as [Hy|Hy]; [|done].
        destruct (cl_par _ _ _ HD y Hy Hne) as (v & Hv & _). rewrite Ht. split; intros [? ?]; congruence.
    + intros m0 y. rewrite refs_of_insert, lookup_upd_all. pose proof (r_reg s Hc m0 y) as Ht. pose proof (Hall y).
      destruct (decide (m0 = m)) as [->|]; destruct (decide (y ∈ D)); rewrite ?elem_of_union, ?elem_of_list_to_set; naive_solver.
    + intros m0. match goal with |- context [named ?s1 D] => rewrite (named_ext s1 s D eq_refl) end. rewrite names_of_insert. destruct (decide (m0 = m)) as [->|Hne].
      * eapply (IndexOK_insert_bulk (key_sig_msg s m)); [apply (r_mnames s Hc)|exact Hnd|..].
        -- intros k h [Hh ->]%elem_of_named. subst D. apply elem_of_cons in Hh as [->|Hh]; [|by apply Hnest].
           rewrite (name_of_Some _ _ _ Hnm). destruct Hkx as [[_ Hf]|Hk]; [left; by apply Hfree|].
           right. apply (r_mnames s Hc). unfold key_sig_msg. unfold key_sig_mux in Hk.
           destruct (decide (spmux s !! x = Some u)) as [Hp|]; [|done].
           rewrite (r_child_msg s Hc _ _ Hp), Hmu. by rewrite decide_True.
        -- intros k h [Hh ->]%elem_of_named. unfold key_sig_msg.
           destruct (Hall _ Hh) as [->| ->]; [left; by rewrite decide_False|right].
           rewrite decide_True by done. destruct (cl_named _ _ _ HD h Hh) as [nh Hnh]. by rewrite (name_of_Some _ _ _ Hnh).
        -- intros k h [Hh ->]%elem_of_named. rewrite lookup_upd_all. destruct (decide (h ∈ D)); [|done]. rewrite decide_True by done.
           destruct (cl_named _ _ _ HD h Hh) as [nh Hnh]. by rewrite (name_of_Some _ _ _ Hnh).
        -- intros h Hh. rewrite named_snd in Hh. rewrite lookup_upd_all. destruct (decide (h ∈ D)); done.
      * eapply IndexOK_ext; [apply (r_mnames s Hc m0)|]. intros h. unfold key_sig_msg. rewrite lookup_upd_all.
        destruct (decide (h ∈ D)) as [Hh|]; [|done]. destruct (Hall _ Hh) as [->| ->]; rewrite !decide_False by congruence; done.
    + apply Hxsigs.
    + apply Hxnames.
    + intros y v Hp. rewrite !lookup_upd_all.
      destruct (decide (y = x)) as [->|Hne].
      * rewrite lookup_insert in Hp. injection Hp as <-. rewrite decide_True, decide_False by done. done.
      * rewrite lookup_insert_ne in Hp by done. pose proof (cl_down _ _ _ HD y v Hp).
        destruct (decide (y ∈ D)) as [Hy|Hy]; destruct (decide (v ∈ D)) as [Hv|Hv]; try done; [|tauto|by apply (r_child_msg s Hc)].
        destruct (cl_par _ _ _ HD y Hy Hne) as (v' & Hv' & ?). congruence.
    + apply Hrk.
  - split; unfold rank, next2, key_sig_msg, key_sig_mux; cbn.
    + intros y [Hy|[Hy|Hy]]; [apply (r_dom s Hc); by left|by apply Hdomx|apply (r_dom s Hc); by right; right].
    + apply (r_fresh s Hc).
    + apply (r_shape s Hc).
    + intros m0 y. pose proof (r_top s Hc m0 y) as Ht.
      destruct (decide (y = x)) as [->|Hne]; [rewrite lookup_insert|by rewrite lookup_insert_ne by done].
      rewrite Ht. split; [|intros [_ ?]; done]. intros [? ?]. destruct Hok as [[? ?]|?]; congruence.
    + apply (r_reg s Hc).
    + apply (r_mnames s Hc).
    + apply Hxsigs.
    + apply Hxnames.
    + intros y v Hp. destruct (decide (y = x)) as [->|Hne].
      * rewrite lookup_insert in Hp. injection Hp as <-. rewrite Hmu. destruct Hok as [[_ ?]|Hp]; [done|].
        by rewrite (r_child_msg s Hc _ _ Hp).
      * rewrite lookup_insert_ne in Hp by done. by apply (r_child_msg s Hc).
    + apply Hrk.
Qed.
