(* C04/C05 layer 2 — constructors, lifted operations, Signal.UpdateName, Message.RemoveAllSignals. *)
From Acme.C04 Require Export Proofs_RegMux.
From Coq Require Import Lia.

(* the invariant only reads these components *)
Lemma core_frame s s' :
  (next2 s ≤ next2 s')%positive → sname s' = sname s → spmsg s' = spmsg s → spmux s' = spmux s →
  mtop s' = mtop s → msigs s' = msigs s → mnames s' = mnames s → xshape s' = xshape s →
  xsigs s' = xsigs s → xnames s' = xnames s → RegCore s → RegCore s'.
Proof.
  intros Hn E1 E2 E3 E4 E5 E6 E7 E8 E9 Hc.
  split; unfold rank, key_sig_msg, key_sig_mux; rewrite ?E1, ?E2, ?E3, ?E4, ?E5, ?E6, ?E7, ?E8, ?E9; try apply Hc.
  intros h Hh. apply (r_fresh s Hc). lia.
Qed.

Lemma groups_frame s s' u :
  xsigs s' = xsigs s → xfixed s' = xfixed s → xgids s' = xgids s → GroupsOK s u → GroupsOK s' u.
Proof. unfold GroupsOK. intros E1 E2 E3. by rewrite E1, E2, E3. Qed.

Lemma core_lift s t : RegCore s → (next (base (l3 s)) ≤ next (base t))%positive → RegCore (s <| l3 := t |>).
Proof. intros Hc Hn. eapply core_frame; [..|exact Hc]; done. Qed.

Lemma next3_mono s o : (next (base s) ≤ next (base (step3 s o).1))%positive.
Proof.
  destruct o as [o| | | | | | | | | | |].
  1: { cbn [step3]. pose proof (next_mono (base s) o). by destruct (step (base s) o). }
  all: match goal with |- context [step3 ?s0 ?o] => destruct (base_frame s0 o I) as [->| ->] end; cbn; lia.
Qed.

Lemma fresh_unused s (h : handle) : RegCore s → (next2 s ≤ h)%positive →
  sname s !! h = None ∧ spmsg s !! h = None ∧ spmux s !! h = None ∧ xshape s !! h = None ∧
  (∀ y, spmux s !! y ≠ Some h).
Proof.
  intros Hc Hh. pose proof (r_fresh s Hc h Hh) as Hn.
  assert (∀ P : Prop, (P → is_Some (sname s !! h)) → ¬ P) as Hno.
  { intros P HP p. destruct (HP p) as [? ?]. congruence. }
  split_and!; [done|..].
  - apply eq_None_not_Some. apply Hno. intros ?. apply (r_dom s Hc). by left.
  - apply eq_None_not_Some. apply Hno. intros ?. apply (r_dom s Hc). by right; left.
  - apply eq_None_not_Some. apply Hno. intros ?. apply (r_dom s Hc). by right; right.
  - intros y. apply Hno. intros Hp. apply (r_rank s Hc) in Hp as [Hp _]. apply (r_dom s Hc). by right; right.
Qed.

(* a constructor: the new signal has a name and nothing else *)
Lemma core_new s t nm :
  RegCore s → (Pos.succ (next2 s) ≤ next (base t))%positive →
  RegCore (s <| l3 := t |> <| sname ::= <[next2 s := nm]> |>).
Proof.
  intros Hc Hn. destruct (fresh_unused s (next2 s) Hc ltac:(lia)) as (F1 & F2 & F3 & F4 & F5).
  split; unfold rank, next2, key_sig_msg, key_sig_mux; cbn.
  - intros y Hy. destruct (decide (y = next2 s)) as [->|]; [by rewrite lookup_insert|].
    rewrite lookup_insert_ne by done. by apply (r_dom s Hc).
  - intros h Hh. unfold next2 in *. rewrite lookup_insert_ne by lia. apply (r_fresh s Hc). unfold next2. lia.
  - apply (r_shape s Hc).
  - apply (r_top s Hc).
  - apply (r_reg s Hc).
  - intros m. eapply IndexOK_ext; [apply (r_mnames s Hc m)|]. intros h. unfold key_sig_msg.
    destruct (decide (h = next2 s)) as [->|]; [|by rewrite lookup_insert_ne].
    fold (next2 s). rewrite F2. by rewrite !decide_False.
  - apply (r_xsigs s Hc).
  - intros u. eapply IndexOK_ext; [apply (r_xnames s Hc u)|]. intros h. unfold key_sig_mux.
    destruct (decide (h = next2 s)) as [->|]; [|by rewrite lookup_insert_ne].
    fold (next2 s). rewrite F3. by rewrite !decide_False.
  - apply (r_child_msg s Hc).
  - apply (r_rank s Hc).
Qed.

Lemma core_new_mux s t nm c g :
  RegCore s → (Pos.succ (next2 s) ≤ next (base t))%positive → (0 < c)%Z → (0 < g)%Z →
  RegCore (s <| l3 := t |> <| sname ::= <[next2 s := nm]> |> <| xshape ::= <[next2 s := (c, g)]> |>).
Proof.
  intros Hc Hn Hcp Hgp. pose proof (core_new s t nm Hc Hn) as Hc'.
  destruct (fresh_unused s (next2 s) Hc ltac:(lia)) as (F1 & F2 & F3 & F4 & F5).
  split; unfold rank, key_sig_msg, key_sig_mux; cbn; try apply Hc'.
  - intros y Hy. destruct (decide (y = next2 s)) as [->|]; [by rewrite lookup_insert|].
    apply (r_dom _ Hc'). cbn. destruct Hy as [?|[?|Hy]]; [by left|by right; left|].
    rewrite lookup_insert_ne in Hy by done; by right; right.
  - intros u c0 g0. destruct (decide (u = next2 s)) as [->|]; [rewrite lookup_insert; by intros [= <- <-]|].
    rewrite lookup_insert_ne by done. apply (r_shape s Hc).
  - intros y v Hp. assert (y ≠ next2 s) by congruence. assert (v ≠ next2 s) by (intros ->; by apply F5 in Hp).
    rewrite !lookup_insert_ne by done. by apply (r_rank s Hc).
Qed.

(* Signal.UpdateName *)
Lemma core_update_name s x old new :
  RegCore s → sname s !! x = Some old →
  (∀ u, spmux s !! x = Some u → names_of (xnames s) u !! new = None) →
  (∀ m, spmsg s !! x = Some m → names_of (mnames s) m !! new = None) →
  RegCore (s <| mnames := match spmsg s !! x with
                          | Some m => <[m := rename_in old new x (names_of (mnames s) m)]> (mnames s)
                          | None => mnames s end |>
             <| xnames := match spmux s !! x with
                          | Some u => <[u := rename_in old new x (names_of (xnames s) u)]> (xnames s)
                          | None => xnames s end |>
             <| sname := <[x := new]> (sname s) |>).
Proof.
  intros Hc Hx Hfu Hfm.
  split; unfold rank, next2, key_sig_msg, key_sig_mux; cbn; try apply Hc.
  - intros y Hy. destruct (decide (y = x)) as [->|]; [by rewrite lookup_insert|].
    rewrite lookup_insert_ne by done. by apply (r_dom s Hc).
  - intros h Hh. pose proof (r_fresh s Hc h Hh). rewrite lookup_insert_ne by congruence. done.
  - intros m0. destruct (spmsg s !! x) as [m|] eqn:Hm.
    + rewrite names_of_insert. destruct (decide (m0 = m)) as [->|Hne].
      * eapply (IndexOK_rekey (key_sig_msg s m) _ _ x old new); [apply (r_mnames s Hc)|..].
        -- unfold key_sig_msg. by rewrite decide_True.
        -- by apply Hfm.
        -- by rewrite lookup_insert, decide_True.
        -- intros h Hh. by rewrite lookup_insert_ne.
      * eapply IndexOK_ext; [apply (r_mnames s Hc m0)|]. intros h. unfold key_sig_msg.
        destruct (decide (h = x)) as [->|]; [|by rewrite lookup_insert_ne].
        rewrite Hm. by rewrite !decide_False by congruence.
    + eapply IndexOK_ext; [apply (r_mnames s Hc m0)|]. intros h. unfold key_sig_msg.
      destruct (decide (h = x)) as [->|]; [|by rewrite lookup_insert_ne].
      rewrite Hm. by rewrite !decide_False by congruence.
  - intros u0. destruct (spmux s !! x) as [u|] eqn:Hu.
    + rewrite names_of_insert. destruct (decide (u0 = u)) as [->|Hne].
      * eapply (IndexOK_rekey (key_sig_mux s u) _ _ x old new); [apply (r_xnames s Hc)|..].
        -- unfold key_sig_mux. by rewrite decide_True.
        -- by apply Hfu.
        -- by rewrite lookup_insert, decide_True.
        -- intros h Hh. by rewrite lookup_insert_ne.
      * eapply IndexOK_ext; [apply (r_xnames s Hc u0)|]. intros h. unfold key_sig_mux.
        destruct (decide (h = x)) as [->|]; [|by rewrite lookup_insert_ne].
        rewrite Hu. by rewrite !decide_False by congruence.
    + eapply IndexOK_ext; [apply (r_xnames s Hc u0)|]. intros h. unfold key_sig_mux.
      destruct (decide (h = x)) as [->|]; [|by rewrite lookup_insert_ne].
      rewrite Hu. by rewrite !decide_False by congruence.
Qed.

(* Message.RemoveAllSignals *)
Lemma core_remove_all s m :
  RegCore s →
  RegCore (s <| spmsg ::= delete_all (elements (refs_of (msigs s) m)) |>
             <| msigs ::= <[m := ∅]> |> <| mnames ::= <[m := ∅]> |> <| mtop ::= <[m := ∅]> |>).
Proof.
  intros Hc.
  assert (∀ y, delete_all (elements (refs_of (msigs s) m)) (spmsg s) !! y =
               if decide (spmsg s !! y = Some m) then None else spmsg s !! y) as Hl.
  { intros y. rewrite lookup_delete_all. pose proof (r_reg s Hc m y) as Hr. rewrite <-elem_of_elements in Hr.
    destruct (decide (y ∈ elements (refs_of (msigs s) m))); destruct (decide (spmsg s !! y = Some m)); tauto. }
  split; unfold rank, next2, key_sig_msg, key_sig_mux; cbn; try apply Hc.
  - intros y [Hy|Hy]; apply (r_dom s Hc); [|by right]. left. rewrite Hl in Hy. by destruct (decide _); [destruct Hy|].
  - intros m0 y. rewrite refs_of_insert, Hl. pose proof (r_top s Hc m0 y).
    destruct (decide (m0 = m)) as [->|]; destruct (decide (spmsg s !! y = Some m)); set_solver.
  - intros m0 y. rewrite refs_of_insert, Hl. pose proof (r_reg s Hc m0 y).
    destruct (decide (m0 = m)) as [->|]; destruct (decide (spmsg s !! y = Some m)); set_solver.
  - intros m0. rewrite names_of_insert. destruct (decide (m0 = m)) as [->|].
    + apply IndexOK_empty. intros h. rewrite Hl. destruct (decide (spmsg s !! h = Some m)); [done|]. by rewrite decide_False.
    + eapply IndexOK_ext; [apply (r_mnames s Hc m0)|]. intros h. unfold key_sig_msg. rewrite Hl.
      destruct (decide (spmsg s !! h = Some m)) as [->|]; [|done]. by rewrite !decide_False by congruence.
  - intros y u Hp. rewrite !Hl. by rewrite (r_child_msg s Hc _ _ Hp).
Qed.
