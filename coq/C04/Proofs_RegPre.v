(* C06 — a call of layers 3 and 2 is refused exactly when its documented precondition is violated,
   and every returned cause is a documented cause whose precondition is really violated. *)
From Acme.C04 Require Export Proofs_RegCor SpecSig.
From Acme.C04 Require Import Proofs_Pre.
From Coq Require Import Lia.

Local Ltac okc3 := split; [|intros cw Hv; cbn in Hv].
Local Ltac one_cause := split; [done|]; intros cw ->%elem_of_list_singleton.

(* ---- layer 3 ---------------------------------------------------------------------------------------- *)
Theorem step_spec3 s o : Inv3 s → StepSpec3 s o.
Proof.
  intros [Hinv Hrefs]. unfold StepSpec3. destruct o as [o| | | | | | | | | | |]; cbn [step3].
  - pose proof (step_spec (base s) Hinv o) as Hs. unfold StepSpec in Hs.
    destruct (step (base s) o) as [b r]. cbn in *. exact Hs.
  - unfold new_std_signal. destruct ot; cbn.
    + split; [done|]. by intros cw [? _].
    + one_cause. left. done.
  - unfold new_enum_signal. destruct oe; cbn.
    + split; [done|]. by intros cw [? _].
    + one_cause. left. done.
  - unfold std_set_type. destruct (sigs s !! sg) as [G|] eqn:HG.
    2: { cbn. one_cause. right. split; [|done]. intros (G & ? & _). congruence. }
    destruct (sg_kind G) eqn:Hk.
    2,3: cbn; one_cause; right; split; [|done]; intros (G' & ? & ?); congruence.
    destruct ot as [t|]; [destruct fits|]; cbn.
    + split; [cbn; eauto|]. intros cw [[? _]|(_ & ? & _)]; done.
    + one_cause. left. right. split; [by eexists|done].
    + one_cause. left. left. done.
  - unfold std_set_unit. destruct (sigs s !! sg) as [G|] eqn:HG.
    2: { cbn. one_cause. right. split; [|done]. intros (G & ? & _). congruence. }
    destruct (sg_kind G) eqn:Hk.
    2,3: cbn; one_cause; right; split; [|done]; intros (G' & ? & ?); congruence.
    cbn. split; [cbn; eauto|]. by intros cw ?.
  - unfold enum_set_enum. destruct (sigs s !! sg) as [G|] eqn:HG.
    2: { cbn. one_cause. right. split; [|done]. intros (G & ? & _). congruence. }
    destruct (sg_kind G) eqn:Hk.
    1,3: cbn; one_cause; right; split; [|done]; intros (G' & ? & ?); congruence.
    destruct oe as [t|]; [destruct fits|]; cbn.
    + split; [cbn; eauto|]. intros cw [[? _]|(_ & ? & _)]; done.
    + one_cause. left. right. split; [by eexists|done].
    + one_cause. left. left. done.
  - unfold assign_value, assign_attr. destruct oa as [a|]; cbn.
    2: { one_cause. left. left. done. }
    destruct (attrs s !! a) as [k|] eqn:Hk.
    2: { cbn. one_cause. right. split; [|done]. intros Hw. destruct (Hw a eq_refl) as [? ?]. congruence. }
    destruct (attr_verr k v) as [c|] eqn:Hv; cbn.
    + one_cause. left. right. exists a, k, c. done.
    + split; [intros ? [= <-]; by eexists|]. intros cw [[? _]|(a' & k' & c & [= <-] & Hk' & Hv' & _)]; [done|]. congruence.
  - unfold remove_assign. destruct (decide (key ∈ refs_of (assigns s) ent)); cbn.
    + split; [done|]. by intros cw [? _].
    + one_cause. left. done.
  - cbn. split; [done|]. by intros cw ?.
  - unfold bus_set_builder. destruct ocb; cbn; (split; [done|]; by intros cw ?).
  - unfold new_attr, alloc3. cbn. split; [done|]. by intros cw ?.
  - unfold attr_clone. destruct (attrs s !! a) as [k0|] eqn:Hk.
    + unfold new_attr, alloc3. cbn. split; [by eexists|]. by intros cw ?.
    + cbn. one_cause. right. split; [|done]. intros [? ?]. congruence.
Qed.

Theorem refused_iff_pre3 s o : Inv3 s → (is_err (step3 s o).2 = true ↔ ¬ pre3 s o).
Proof.
  intros Hinv. pose proof (step_spec3 s o Hinv) as Hs. unfold StepSpec3 in Hs.
  destruct (step3 s o).2 as [|cs]; cbn.
  - split; [done|]. intros Hn. by destruct Hn.
  - split; [|done]. intros _ [Hwf Hnv]. destruct Hs as [Hne Hall].
    destruct cs as [|cw cs]; [done|]. destruct (Hall cw ltac:(left)) as [Hv|[Hnwf _]]; [by apply (Hnv cw)|done].
Qed.

Theorem cause_spec3 s o cs :
  Inv3 s → (step3 s o).2 = Err cs → cs ≠ [] ∧ ∀ cw, In cw cs → doc_cause3 s o cw.
Proof.
  intros Hinv Hr. pose proof (step_spec3 s o Hinv) as Hs. unfold StepSpec3 in Hs. rewrite Hr in Hs.
  destruct Hs as [Hne Hall]. split; [done|]. intros cw Hin. apply Hall. by apply elem_of_list_In.
Qed.

Lemma forallb_false {A} (f : A → bool) l : forallb f l = false → ∃ x, In x l ∧ f x = false.
Proof.
  induction l as [|a l IH]; cbn; [done|]. intros [Ha|Hl]%andb_false_iff; [eauto|].
  destruct (IH Hl) as (x & ? & ?). eauto.
Qed.

(* ---- layer 2: indexes in terms of the contents ------------------------------------------------------ *)
Section pre2.
  Context (s : state2) (Hc : RegCore s).

  Lemma mnames_lookup m nm y :
    names_of (mnames s) m !! nm = Some y ↔ InMessage s m y ∧ sname s !! y = Some nm.
  Proof. rewrite (r_mnames s Hc m nm y), key_sig_msg_Some, in_message_iff; done. Qed.

  Lemma mnames_is_Some m nm : is_Some (names_of (mnames s) m !! nm) ↔ msg_has_signal_named s m nm.
  Proof.
    split.
    - intros [y Hy]. exists y. by apply mnames_lookup.
    - intros (y & Hy). exists y. by apply mnames_lookup.
  Qed.

  Lemma mnames_None m nm : names_of (mnames s) m !! nm = None ↔ ¬ msg_has_signal_named s m nm.
  Proof. rewrite <-mnames_is_Some, eq_None_not_Some. done. Qed.

  Lemma xnames_lookup u nm y :
    names_of (xnames s) u !! nm = Some y ↔ y ∈ refs_of (xsigs s) u ∧ sname s !! y = Some nm.
  Proof. rewrite (r_xnames s Hc u nm y), key_sig_mux_Some, (r_xsigs s Hc). done. Qed.

  Lemma tail_desc x d : d ∈ tail (desc s x) ↔ d ∈ desc s x ∧ d ≠ x.
  Proof.
    unfold desc. destruct (rank s x) as [|n] eqn:Hr; cbn [descF tail].
    { split; [by intros ?%elem_of_nil|]. intros [->%elem_of_list_singleton ?]. done. }
    split.
    - intros Hd. split; [by apply elem_of_list_further|].
      apply elem_of_list_In, in_flat_map in Hd as (c & Hcx & Hd).
      apply elem_of_list_In, elem_of_elements, (r_xsigs s Hc) in Hcx. apply elem_of_list_In, (elem_of_descF s Hc) in Hd.
      destruct (r_rank s Hc _ _ Hcx) as [_ Hlt]. destruct (Under_rank s Hc _ _ Hd) as [->|?]; intros ->; lia.
    - intros [Hd Hne]. apply elem_of_cons in Hd as [?|?]; done.
  Qed.

  Lemma nested_ok_false m x : nested_ok s m x = false ↔ nested_clash s m x.
  Proof.
    unfold nested_ok, nested_clash. rewrite andb_false_iff, named_fst. split.
    - intros [Hnd%bool_decide_eq_false|Hall]; [by left|]. right.
      apply forallb_false in Hall as (d & Hd%elem_of_list_In & Hf).
      destruct (names_of (mnames s) m !! name_of s d) as [o|] eqn:Ho; [|done].
      apply bool_decide_eq_false in Hf. apply tail_desc in Hd as [Hd Hdx].
      assert (is_Some (sname s !! d)) as [nd Hnd].
      { apply elem_of_desc in Hd; [|done]. destruct (Under_parent _ _ _ Hd Hdx) as (v & Hv & _).
        apply (r_dom s Hc). right; left. by eexists. }
      rewrite (name_of_Some _ _ _ Hnd) in Ho. apply mnames_lookup in Ho as [Hin Hno].
      exists d, o. split_and!; try done. congruence.
    - intros [Hnd|(d & y & Hd & Hdx & Hyd & Hin & Hn)]; [left; by apply bool_decide_eq_false|]. right.
      apply not_true_iff_false. rewrite forallb_forall. intros Hall.
      assert (d ∈ tail (desc s x)) as Hdt by (by apply tail_desc).
      apply elem_of_list_In, Hall in Hdt.
      assert (is_Some (sname s !! d)) as [nd Hnd].
      { apply elem_of_desc in Hd; [|done]. destruct (Under_parent _ _ _ Hd Hdx) as (v & Hv & _).
        apply (r_dom s Hc). right; left. by eexists. }
      rewrite (name_of_Some _ _ _ Hnd) in Hdt.
      assert (names_of (mnames s) m !! nd = Some y) as Hy by (apply mnames_lookup; split; congruence).
      rewrite Hy in Hdt. by apply bool_decide_eq_true in Hdt.
  Qed.

  Lemma nested_ok_true m x : nested_ok s m x = true ↔ ¬ nested_clash s m x.
  Proof. rewrite <-nested_ok_false. by destruct (nested_ok s m x). Qed.
End pre2.

Lemma gid_err_Some count f prev l c :
  gid_err count f prev l = Some c →
  ∃ g, g ∈ l ∧ ((g < 0 ∧ c = Negative) ∨ (count ≤ g ∧ c = OutOfBounds) ∨ ((f = true ∨ g ∈ prev) ∧ c = Duplicated))%Z.
Proof.
  induction l as [|a l IH]; [done|]. cbn. repeat case_match.
  - intros [= <-]. exists a. split; [left|]. left. split; [lia|done].
  - intros [= <-]. exists a. split; [left|]. right; left. split; [lia|done].
  - intros [= <-]. exists a. split; [left|]. right; right. split; [|done].
    apply orb_true_iff in H1 as [?|?%bool_decide_eq_true]; auto.
  - intros (g & ? & ?)%IH. exists g. split; [by right|done].
Qed.

Lemma gid_err_None_all count f prev l :
  gid_err count f prev l = None →
  ∀ g, g ∈ l → (¬ g < 0 ∧ ¬ count ≤ g)%Z ∧ f = false ∧ g ∉ prev.
Proof.
  induction l as [|a l IH]; [intros _ g ?%elem_of_nil; done|]. cbn. repeat case_match; try done.
  intros He g [->|Hg]%elem_of_cons; [|by apply IH].
  apply orb_false_iff in H1 as [-> ?%bool_decide_eq_false]. split_and!; try done; lia.
Qed.

Section spec2.
  Context (s : state2) (Hi : Inv2 s).
  Let Hc : RegCore s := proj1 (proj2 Hi).

  Local Ltac bad_handle := cbn; split; [done|]; intros cw ->%elem_of_list_singleton; right; split; [|done].
  Local Ltac cause1 := cbn; split; [done|]; intros cw ->%elem_of_list_singleton; left.

  Lemma spec_l3 o : StepSpec2 s (L3 o).
  Proof.
    unfold StepSpec2. cbn [step2]. unfold lift3. pose proof (step_spec3 (l3 s) o (proj1 Hi)) as Hs.
    unfold StepSpec3 in Hs. destruct (step3 (l3 s) o) as [t r]. cbn in *. exact Hs.
  Qed.

  Lemma spec_new_std nm ot : StepSpec2 s (NewStd2 nm ot).
  Proof.
    unfold StepSpec2. cbn [step2]. unfold new_signal2, lift3. cbn [step3]. unfold new_std_signal. destruct ot; cbn.
    - split; [done|]. by intros cw [? _].
    - split; [done|]. intros cw ->%elem_of_list_singleton. left. done.
  Qed.

  Lemma spec_new_enum nm oe : StepSpec2 s (NewEnum2 nm oe).
  Proof.
    unfold StepSpec2. cbn [step2]. unfold new_signal2, lift3. cbn [step3]. unfold new_enum_signal. destruct oe; cbn.
    - split; [done|]. by intros cw [? _].
    - split; [done|]. intros cw ->%elem_of_list_singleton. left. done.
  Qed.

  Lemma spec_new_mux nm c g : StepSpec2 s (NewMux2 nm c g).
  Proof.
    unfold StepSpec2. cbn [step2]. unfold new_mux2.
    destruct (c =? 0)%Z eqn:H1; [cause1; left; split; [lia|done]|].
    destruct (c <? 0)%Z eqn:H2; [cause1; right; left; split; [lia|done]|].
    destruct (g =? 0)%Z eqn:H3; [cause1; right; right; left; split; [lia|done]|].
    destruct (g <? 0)%Z eqn:H4; [cause1; right; right; right; split; [lia|done]|].
    unfold lift3. destruct (step3 (l3 s) (L1 NewOther)) as [t r]. cbn.
    split; [done|]. intros cw [[? _]|[[? _]|[[? _]|[? _]]]]; lia.
  Qed.

  Lemma spec_msg_attach m os fits : StepSpec2 s (MsgAttach m os fits).
  Proof.
    unfold StepSpec2. cbn [step2]. unfold msg_attach.
    destruct (msgs (base (l3 s)) !! m) as [M|] eqn:HM; [|bad_handle; intros [[? ?] _]; congruence].
    destruct os as [x|]; [|cause1; left; done].
    destruct (sname s !! x) as [nm|] eqn:Hx.
    2: { bad_handle. intros [_ Hw]. destruct (Hw x eq_refl) as [? ?]. congruence. }
    destruct (names_of (mnames s) m !! nm) as [o|] eqn:Ho.
    { cause1. right. exists x, nm. split_and!; try done. left. split; [|done]. apply mnames_is_Some; [done|]. by eexists. }
    destruct (nested_ok s m x) eqn:Hn; cbn [negb].
    2: { cause1. right. exists x, nm. split_and!; try done. right; left. split; [|done]. by apply nested_ok_false. }
    destruct fits; cbn [negb].
    2: { cause1. right. exists x, nm. split_and!; try done. right; right. done. }
    cbn. split; [split; [by eexists|]; intros ? [= <-]; by eexists|].
    intros cw [[? _]|(x' & nm' & [= <-] & Hnm' & Hv)]; [done|]. assert (nm' = nm) as -> by congruence.
    destruct Hv as [[Hh _]|[[Hcl _]|[? _]]]; [|by apply nested_ok_true in Hn|done].
    by apply mnames_None in Ho.
  Qed.

  Lemma spec_msg_remove_signal m key : StepSpec2 s (MsgRemoveSignal m key).
  Proof.
    unfold StepSpec2. cbn [step2]. unfold msg_remove_signal.
    destruct (msgs (base (l3 s)) !! m) as [M|] eqn:HM; [|bad_handle; intros [? ?]; congruence].
    destruct (decide (key ∈ refs_of (msigs s) m)) as [Hk|Hk].
    - assert (pre2 s (MsgRemoveSignal m key)) as Hpre.
      { split; [by eexists|]. intros cw [Hn _]. apply Hn. apply in_message_iff; [done|]. by apply (r_reg s Hc). }
      destruct (spmux s !! key) as [u|] eqn:Hp; [|done].
      unfold mux_remove. destruct (r_rank s Hc _ _ Hp) as [[sh ->] _].
      rewrite decide_True by (by apply (r_xsigs s Hc)). done.
    - cause1. split; [|done]. intros Hin%in_message_iff; [|done]. apply Hk. by apply (r_reg s Hc).
  Qed.

  Lemma spec_msg_remove_all m : StepSpec2 s (MsgRemoveAllSignals m).
  Proof.
    unfold StepSpec2. cbn [step2]. unfold msg_remove_all_signals.
    destruct (msgs (base (l3 s)) !! m) as [M|] eqn:HM; [|bad_handle; intros [? ?]; congruence].
    cbn. split; [by eexists|]. by intros cw ?.
  Qed.

  Lemma spec_update_name x new : StepSpec2 s (SigUpdateName x new).
  Proof.
    unfold StepSpec2. cbn [step2]. unfold sig_update_name.
    destruct (sname s !! x) as [old|] eqn:Hx; [|bad_handle; intros [? ?]; congruence].
    destruct (decide (old = new)) as [->|Hne].
    { cbn. split; [by eexists|]. intros cw (old & ? & ? & _). congruence. }
    match goal with |- context [if ?b then _ else _] => destruct b eqn:Hmux end.
    { cause1. exists old. split_and!; try done.
      destruct (spmux s !! x) as [u|] eqn:Hp; [|done].
      destruct (names_of (xnames s) u !! new) as [o|] eqn:Ho.
      - left. exists u. split; [done|]. exists o. by apply xnames_lookup.
      - right. destruct (spmsg s !! u) as [m|] eqn:Hm; [|done]. exists m. rewrite (r_child_msg s Hc _ _ Hp).
        split; [done|]. apply bool_decide_eq_true in Hmux. by apply mnames_is_Some. }
    match goal with |- context [if ?b then _ else _] => destruct b eqn:Hmsg end.
    { cause1. exists old. split_and!; try done. right.
      destruct (spmsg s !! x) as [m|] eqn:Hm; [|done]. exists m. split; [done|].
      apply bool_decide_eq_true in Hmsg. by apply mnames_is_Some. }
    cbn. split; [by eexists|].
    intros cw (old' & Ho' & _ & [(u & Hp & y & Hy)|(m & Hm & Hh)] & _).
    - rewrite Hp in Hmux. apply xnames_lookup in Hy; [|done]. rewrite Hy in Hmux.
      apply negb_false_iff, bool_decide_eq_true in Hmux as ->. apply xnames_lookup in Hy as [_ ?]; [|done]. congruence.
    - rewrite Hm in Hmsg. apply bool_decide_eq_false in Hmsg. apply Hmsg. by apply mnames_is_Some.
  Qed.

  Lemma spec_mux_remove u key : StepSpec2 s (MuxRemove u key).
  Proof.
    unfold StepSpec2. cbn [step2]. unfold mux_remove.
    destruct (xshape s !! u) as [sh|] eqn:Hsh; [|bad_handle; intros [? ?]; congruence].
    destruct (decide (key ∈ refs_of (xsigs s) u)).
    - cbn. split; [by eexists|]. by intros cw [? _].
    - cause1. done.
  Qed.

  Lemma spec_clear_group u g : StepSpec2 s (MuxClearGroup u g).
  Proof.
    unfold StepSpec2. cbn [step2]. unfold mux_clear_group.
    destruct (xshape s !! u) as [[count gs]|] eqn:Hsh; [|bad_handle; intros [? ?]; congruence].
    destruct (g <? 0)%Z eqn:H1; [cause1; exists count, gs; split; [done|]; left; split; [lia|done]|].
    destruct (count <=? g)%Z eqn:H2; [cause1; exists count, gs; split; [done|]; right; split; [lia|done]|].
    cbn. split; [by eexists|]. intros cw (c' & g' & Hq & Hv). assert (c' = count) as -> by congruence.
    destruct Hv as [[? _]|[? _]]; lia.
  Qed.

  Lemma spec_clear_all u : StepSpec2 s (MuxClearAll u).
  Proof.
    unfold StepSpec2. cbn [step2]. unfold mux_clear_all.
    destruct (xshape s !! u) as [sh|] eqn:Hsh; [|bad_handle; intros [? ?]; congruence].
    cbn. split; [by eexists|]. by intros cw ?.
  Qed.
  Lemma spec_enum_clone e : StepSpec2 s (EnumClone e).
  Proof.
    unfold StepSpec2. cbn [step2]. unfold enum_clone.
    destruct (enums (base (l3 s)) !! e) as [E|] eqn:HE; [|bad_handle; intros [? ?]; congruence].
    cbn. split; [by eexists|]. by intros cw ?.
  Qed.

  Lemma spec_eval_clone v : StepSpec2 s (EvalClone v).
  Proof.
    unfold StepSpec2. cbn [step2]. unfold eval_clone.
    destruct (evals (base (l3 s)) !! v) as [V|] eqn:HV; [|bad_handle; intros [? ?]; congruence].
    unfold lift3. cbn. unfold new_enum_value, alloc, ok. cbn. split; [by eexists|]. by intros cw ?.
  Qed.
  Lemma spec_msg_resize m n fits : StepSpec2 s (MsgResize m n fits).
  Proof.
    unfold StepSpec2. cbn [step2]. unfold msg_resize.
    destruct (msgs (base (l3 s)) !! m) as [M|] eqn:HM; [|bad_handle; intros [? ?]; congruence].
    destruct (n <? 0)%Z eqn:H1; [cause1; left; split; [lia|done]|].
    destruct (m_size M =? n)%Z eqn:H2.
    { cbn. split; [by eexists|]. intros cw [[? _]|(M' & HM' & Hne & _)]; [lia|]. simplify_eq. lia. }
    destruct (2 ^ 60 - 1 <? n)%Z eqn:H3.
    { cause1. right. exists M. split_and!; [done|lia|]. left. split; [lia|done]. }
    destruct (sender_bus_too_big (base (l3 s)) M n) eqn:H4.
    { cause1. right. exists M. split_and!; [done|lia|]. right; left. split; [|done].
      unfold sender_bus_too_big, parent_bus_too_big in H4.
      destruct (m_sender M) as [i|] eqn:Hs; [|done]. destruct (ifaces (base (l3 s)) !! i) as [Ii|] eqn:HI; [|done].
      destruct (i_parent Ii) as [b|] eqn:Hp; [|done]. destruct (buses (base (l3 s)) !! b) as [B|] eqn:HB; [|done].
      by exists i, Ii, b, B. }
    destruct fits; cbn [negb].
    2: { cause1. right. exists M. split_and!; [done|lia|]. right; right. done. }
    cbn. split; [by eexists|].
    intros cw [[? _]|(M' & HM' & Hne & [[? _]|[[(i & Ii & b & B & Hs & HI & Hp & HB & Ht) _]|[? _]]])]; [lia|lia| |done].
    simplify_eq. unfold sender_bus_too_big, parent_bus_too_big in H4. rewrite Hs, HI, Hp, HB in H4. congruence.
  Qed.

  Lemma spec_bus_set_type b t : StepSpec2 s (BusSetType b t).
  Proof.
    unfold StepSpec2. cbn [step2]. unfold bus_set_type.
    destruct (buses (base (l3 s)) !! b) as [B|] eqn:HB; [|bad_handle; intros [? ?]; congruence].
    cbn. split; [by eexists|]. by intros cw ?.
  Qed.
End spec2.

Section spec2b.
  Context (s : state2) (Hi : Inv2 s).
  Let Hc : RegCore s := proj1 (proj2 Hi).

  Lemma spec_mux_insert u os fits ids : StepSpec2 s (MuxInsert u os fits ids).
  Proof.
    unfold StepSpec2. cbn [step2]. unfold mux_insert.
    destruct (xshape s !! u) as [[count gsize]|] eqn:Hsh.
    2: { cbn; split; [done|]; intros cw ->%elem_of_list_singleton; right; split; [|done]. intros [[? ?] _]; congruence. }
    destruct os as [x|].
    2: { cbn; split; [done|]; intros cw ->%elem_of_list_singleton; left. left. done. }
    destruct (sname s !! x) as [nm|] eqn:Hx.
    2: { cbn; split; [done|]; intros cw ->%elem_of_list_singleton; right; split; [|done].
         intros [_ Hw]. destruct (Hw x eq_refl) as [? ?]. congruence. }
    (* a refusal with cause cw whose clause holds *)
    assert (∀ c w (Q : Prop), Q →
              (Q → viol2 s (MuxInsert u (Some x) fits ids) (c, w)) →
              [(c, w)] ≠ [] ∧ ∀ cw, cw ∈ [(c, w)] → doc_cause2 s (MuxInsert u (Some x) fits ids) cw) as Hrefuse.
    { intros c w Q HQ Hv. split; [done|]. intros cw ->%elem_of_list_singleton. left. by apply Hv. }
    (* the name checks in terms of the contents *)
    match goal with |- context [if ?b then _ else _] => destruct b eqn:Hname end.
    { cbn. eapply (Hrefuse _ _ True I). intros _. right. exists x, nm. split_and!; try done.
      destruct (names_of (xnames s) u !! nm) as [o|] eqn:Ho.
      - left. split; [|done]. apply negb_true_iff, bool_decide_eq_false in Hname.
        apply xnames_lookup in Ho as [? ?]; [|done]. exists o. done.
      - right; left. split_and!; [| |done].
        + intros Hin. assert (names_of (xnames s) u !! nm = Some x) by (by apply xnames_lookup). congruence.
        + destruct (spmsg s !! u) as [m|]; [|done]. exists m. split; [done|].
          apply bool_decide_eq_true in Hname. by apply mnames_is_Some. }
    match goal with |- context [if ?b then _ else _] => destruct b eqn:Hnest end.
    { cbn. eapply (Hrefuse _ _ True I). intros _. right. exists x, nm. split_and!; try done.
      right; right; left. split; [|done]. destruct (spmsg s !! u) as [m|]; [|done]. exists m. split; [done|].
      apply negb_true_iff in Hnest. by apply nested_ok_false. }
    destruct fits; cbn [negb].
    2: { cbn. eapply (Hrefuse _ _ True I). intros _. right. exists x, nm. split_and!; try done. do 3 right. left. done. }
    (* what an accepted call must exclude, clause by clause *)
    assert (∀ cw, viol2 s (MuxInsert u (Some x) true ids) cw →
             (ids = [] ∧ x ∈ refs_of (xsigs s) u) ∨
             (∃ g, g ∈ ids ∧ ((g < 0)%Z ∨ (count ≤ g)%Z ∨ x ∈ refs_of (xfixed s) u ∨
                               ∃ prev, gids_of (xgids s) u !! x = Some prev ∧ g ∈ prev)) ∨
             (is_Some (xshape s !! x) ∧ (rank s u ≤ rank s x)%nat)) as Hrest.
    { intros cw [[? _]|(x' & nm' & [= <-] & Hnm' & Hv)]; [done|]. assert (nm' = nm) as -> by congruence.
      destruct Hv as [[(y & Hyx & Hy & Hny) _]|[(Hnx & (m & Hm & Hh) & _)|[[(m & Hm & Hcl) _]|[[? _]|[(? & ? & _)|[(g & c' & gs' & Hg & Hq & Hv)|(? & ? & _)]]]]]].
      - exfalso. assert (names_of (xnames s) u !! nm = Some y) as Ho by (by apply xnames_lookup).
        rewrite Ho in Hname. apply negb_false_iff, bool_decide_eq_true in Hname. done.
      - exfalso. destruct (names_of (xnames s) u !! nm) as [o|] eqn:Ho.
        + apply negb_false_iff, bool_decide_eq_true in Hname as ->. apply xnames_lookup in Ho as [? _]; done.
        + rewrite Hm in Hname. apply bool_decide_eq_false in Hname. apply Hname. by apply mnames_is_Some.
      - exfalso. rewrite Hm in Hnest. apply negb_false_iff in Hnest. by apply nested_ok_true in Hnest.
      - done.
      - by left.
      - right; left. exists g. split; [done|]. assert (c' = count) as -> by congruence.
        destruct Hv as [[? _]|[[? _]|[[?|?] _]]]; auto.
      - by right; right. }
    destruct ids as [|i ids].
    - destruct (bool_decide (x ∈ refs_of (xsigs s) u)) eqn:Hpres.
      { apply bool_decide_eq_true in Hpres. cbn. eapply (Hrefuse _ _ True I). intros _. right. exists x, nm.
        split_and!; try done. do 4 right. left. done. }
      match goal with |- context [if ?b then _ else _] => destruct b eqn:Hbig end.
      { apply bool_decide_eq_true in Hbig as [? ?]. cbn. eapply (Hrefuse _ _ True I). intros _. right. exists x, nm.
        split_and!; try done. do 6 right. done. }
      cbn. split; [split; [by eexists|]; intros ? [= <-]; by eexists|].
      intros cw [[_ Hp]|[(g & ?%elem_of_nil & _)|Hb]]%Hrest; [|done|].
      + by apply bool_decide_eq_false in Hpres.
      + by apply bool_decide_eq_false in Hbig.
    - remember (dedup (i :: ids)) as ids' eqn:Hids. unfold dedup in Hids.
      destruct (gid_err count _ _ ids') as [c|] eqn:Hge.
      { apply gid_err_Some in Hge as (g & Hg & Hv). cbn. eapply (Hrefuse _ _ True I). intros _. right. exists x, nm.
        split_and!; try done. do 5 right. left. exists g, count, gsize.
        split; [rewrite Hids in Hg; by apply elem_of_remove_dups|]. split; [done|].
        destruct Hv as [[? ->]|[[? ->]|[Hd ->]]]; [by left|by right; left|]. right; right. split; [|done].
        destruct Hd as [?%bool_decide_eq_true|Hp]; [by left|]. right.
        destruct (gids_of (xgids s) u !! x) as [prev|]; [by exists prev|]. by apply elem_of_nil in Hp. }
      match goal with |- context [if ?b then _ else _] => destruct b eqn:Hbig end.
      { apply bool_decide_eq_true in Hbig as [? ?]. cbn. eapply (Hrefuse _ _ True I). intros _. right. exists x, nm.
        split_and!; try done. do 6 right. done. }
      cbn. split; [split; [by eexists|]; intros ? [= <-]; by eexists|].
      intros cw [[? _]|[(g & Hg & Hv)|Hb]]%Hrest; [done| |by apply bool_decide_eq_false in Hbig].
      assert (g ∈ ids') as Hg' by (rewrite Hids; by apply elem_of_remove_dups).
      destruct (gid_err_None_all _ _ _ _ Hge g Hg') as ([? ?] & Hf%bool_decide_eq_false & Hp).
      destruct Hv as [?|[?|[?|(prev & Hq & ?)]]]; [done|done|done|]. apply Hp. by rewrite Hq.
  Qed.

  Theorem step_spec2 o : StepSpec2 s o.
  Proof.
    destruct o.
    - by apply spec_l3. - by apply spec_new_std. - by apply spec_new_enum. - by apply spec_new_mux.
    - by apply spec_msg_attach. - by apply spec_msg_remove_signal. - by apply spec_msg_remove_all.
    - by apply spec_update_name. - by apply spec_mux_insert. - by apply spec_mux_remove.
    - by apply spec_clear_group. - by apply spec_clear_all.
    - by apply spec_enum_clone. - by apply spec_eval_clone.
    - by apply spec_msg_resize. - by apply spec_bus_set_type.
  Qed.
End spec2b.

(* C06: a call of the whole alphabet is refused exactly when its documented precondition is violated *)
Theorem refused_iff_pre2 s o : Inv2 s → (is_err (step2 s o).2 = true ↔ ¬ pre2 s o).
Proof.
  intros Hinv. pose proof (step_spec2 s Hinv o) as Hs. unfold StepSpec2 in Hs.
  destruct (step2 s o).2 as [|cs]; cbn.
  - split; [done|]. intros Hn. by destruct Hn.
  - split; [|done]. intros _ [Hwf Hnv]. destruct Hs as [Hne Hall].
    destruct cs as [|cw cs]; [done|]. destruct (Hall cw ltac:(left)) as [Hv|[Hnwf _]]; [by apply (Hnv cw)|done].
Qed.

(* C06: every returned cause is a documented cause whose precondition is really violated *)
Theorem cause_spec2 s o cs :
  Inv2 s → (step2 s o).2 = Err cs → cs ≠ [] ∧ ∀ cw, In cw cs → doc_cause2 s o cw.
Proof.
  intros Hinv Hr. pose proof (step_spec2 s Hinv o) as Hs. unfold StepSpec2 in Hs. rewrite Hr in Hs.
  destruct Hs as [Hne Hall]. split; [done|]. intros cw Hin. apply Hall. by apply elem_of_list_In.
Qed.

(* C04: acceptance depends on the current contents only, for the whole alphabet *)
Corollary released_key_reusable2 s o1 o2 :
  Inv2 s → op_ok2 s o1 → pre2 (step2 s o1).1 o2 → (step2 (step2 s o1).1 o2).2 = Ok.
Proof.
  intros Hinv Hok Hpre. pose proof (inv2_step s o1 Hinv Hok) as Hinv'.
  destruct ((step2 (step2 s o1).1 o2).2) as [|cs] eqn:Hr; [done|].
  exfalso. assert (is_err (step2 (step2 s o1).1 o2).2 = true) as He by (by rewrite Hr).
  by apply (refused_iff_pre2 _ _ Hinv') in He.
Qed.

Corollary used_key_refused2 s o cw : Inv2 s → viol2 s o cw → is_err (step2 s o).2 = true.
Proof. intros Hinv Hv. apply refused_iff_pre2; [done|]. intros [_ Hn]. by apply (Hn cw). Qed.
