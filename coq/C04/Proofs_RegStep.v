(* C04/C05 layer 2 — every operation of layer 2 preserves the invariant. *)
From Acme.C04 Require Export Proofs_RegOps.
From Coq Require Import Lia.

(* ---- components that removeSignal / addSignal leave alone ------------------------------------- *)
Lemma detach_fields s u c :
  let s' := detach_child s u c in
  l3 s' = l3 s ∧ xsigs s' = del_ref u c (xsigs s) ∧ xfixed s' = xfixed s ∧ xgids s' = xgids s ∧ xshape s' = xshape s.
Proof. unfold detach_child. destruct (spmsg s !! u); done. Qed.

Lemma attach_fields s u x :
  let s' := mux_attach_child s u x in
  l3 s' = l3 s ∧ xsigs s' = add_ref u x (xsigs s) ∧ xfixed s' = xfixed s ∧ xgids s' = xgids s ∧ xshape s' = xshape s.
Proof. unfold mux_attach_child. destruct (spmsg s !! u); done. Qed.

Lemma regok_lift s t : RegOK s → (next (base (l3 s)) ≤ next (base t))%positive → RegOK (s <| l3 := t |>).
Proof. intros [Hc Hg] Hn. split; [by apply core_lift|]. intros u. by eapply groups_frame; [..|apply Hg]. Qed.

(* ---- constructors --------------------------------------------------------------------------------- *)
Lemma regok_new_signal s nm o :
  (∀ t, step3 (l3 s) o = (t, Ok) → next (base t) = Pos.succ (next (base (l3 s)))) →
  RegOK s → RegOK (new_signal2 s nm o).1.
Proof.
  intros Hok [Hc Hg]. unfold new_signal2, lift3.
  pose proof (next3_mono (l3 s) o) as Hm. destruct (step3 (l3 s) o) as [t [|e]] eqn:Hs; cbn in *.
  - split; [apply core_new; [done|]; unfold next2; rewrite (Hok t eq_refl); lia|].
    intros u. by eapply groups_frame; [..|apply Hg].
  - by apply regok_lift.
Qed.

Lemma regok_new_mux s nm c g : RegOK s → RegOK (new_mux2 s nm c g).1.
Proof.
  intros [Hc Hg]. unfold new_mux2. repeat (case_match; [by split|]).
  unfold lift3. destruct (step3 (l3 s) (L1 NewOther)) as [t r] eqn:Hs.
  cbn in Hs. unfold new_other, alloc, ok in Hs. cbn in Hs. injection Hs as <- <-.
  cbn. split.
  - apply core_new_mux; [done|cbn; unfold next2; lia|lia|lia].
  - intros u. specialize (Hg u). destruct Hg as [G1 G2]. split; cbn; done.
Qed.

(* ---- messages ---------------------------------------------------------------------------------------- *)
Lemma regok_msg_attach s m x fits :
  RegOK s → spmux s !! x = None → (spmsg s !! x = None ∨ spmsg s !! x = Some m) →
  RegOK (msg_attach s m (Some x) fits).1.
Proof.
  intros [Hc Hg] Hp Hm. unfold msg_attach. repeat case_match; try (by split). cbn.
  split; [|intros u; by eapply groups_frame; [..|apply Hg]].
  eapply core_msg_attach; eauto.
  - destruct Hm as [|Hm]; [done|]. exfalso.
    match goal with H : names_of _ m !! ?nm = None |- _ => eapply (IndexOK_free _ _ nm (r_mnames s Hc m) H x) end.
    unfold key_sig_msg. by rewrite decide_True.
  - by apply negb_false_iff.
Qed.

Lemma groups_mux_remove s u key :
  (∀ u0, GroupsOK s u0) →
  ∀ u0, GroupsOK (detach_child s u key <| xfixed ::= del_ref u key |> <| xgids ::= <[u := delete key (gids_of (xgids s) u)]> |>) u0.
Proof.
  intros Hg u0. destruct (detach_fields s u key) as (_ & E1 & E2 & E3 & _). destruct (Hg u0) as [G1 G2].
  unfold GroupsOK. cbn. rewrite E1, E2, E3. setoid_rewrite refs_of_del. rewrite gids_of_insert.
  destruct (decide (u0 = u)) as [->|]; [|done]. split.
  - intros x. rewrite !elem_of_difference, elem_of_singleton. destruct (decide (x = key)) as [->|].
    + rewrite lookup_delete. split; [tauto|]. intros [[_ ?]|[? ?]]; done.
    + rewrite lookup_delete_ne by done. rewrite G1. tauto.
  - intros x ids. destruct (decide (x = key)) as [->|]; [by rewrite lookup_delete|].
    rewrite lookup_delete_ne by done. intros (? & ? & ?)%G2. split_and!; [done|done|]. set_solver.
Qed.

Lemma regok_mux_remove s u key : RegOK s → RegOK (mux_remove s u key).1.
Proof.
  intros [Hc Hg]. unfold mux_remove. repeat case_match; try (by split). cbn. split.
  - eapply core_frame; [..|apply (core_detach s u key Hc)]; try done. by apply (r_xsigs s Hc).
  - by apply groups_mux_remove.
Qed.

Lemma regok_msg_remove_signal s m key : RegOK s → RegOK (msg_remove_signal s m key).1.
Proof.
  intros Hr. pose proof Hr as [Hc Hg]. unfold msg_remove_signal. repeat case_match; try (by split).
  - by apply regok_mux_remove.
  - cbn. split; [|intros u; by eapply groups_frame; [..|apply Hg]].
    apply core_msg_remove_top; [done| |done]. by apply (r_reg s Hc).
Qed.

Lemma regok_msg_remove_all s m : RegOK s → RegOK (msg_remove_all_signals s m).1.
Proof.
  intros [Hc Hg]. unfold msg_remove_all_signals. case_match; [|by split]. cbn.
  split; [by apply core_remove_all|]. intros u; by eapply groups_frame; [..|apply Hg].
Qed.

Lemma regok_update_name s x new : RegOK s → RegOK (sig_update_name s x new).1.
Proof.
  intros [Hc Hg]. unfold sig_update_name. destruct (sname s !! x) as [old|] eqn:Hx; [|by split].
  destruct (decide (old = new)) as [|Hne]; [by split|].
  match goal with |- context [if ?b then _ else _] => destruct b eqn:Hmux end; [by split|].
  match goal with |- context [if ?b then _ else _] => destruct b eqn:Hmsg end; [by split|].
  cbn. split; [|intros u; by eapply groups_frame; [..|apply Hg]].
  apply core_update_name; [done|done|..].
  - intros u Hu. rewrite Hu in Hmux. destruct (names_of (xnames s) u !! new) as [o|] eqn:Ho; [|done].
    apply negb_false_iff, bool_decide_eq_true in Hmux as ->.
    apply (r_xnames s Hc) in Ho. unfold key_sig_mux in Ho. rewrite decide_True in Ho by done. congruence.
  - intros m Hm. rewrite Hm in Hmsg. apply bool_decide_eq_false in Hmsg. by apply eq_None_not_Some.
Qed.

(* ---- MultiplexerSignal.InsertSignal ------------------------------------------------------------------ *)
Lemma gid_err_None count f prev l :
  gid_err count f prev l = None → l ≠ [] → f = false ∧ ∀ g, g ∈ l → g ∉ prev.
Proof.
  induction l as [|a l IH]; [done|]. cbn. intros He _. repeat case_match; try done.
  apply orb_false_iff in H1 as [-> Hp]. apply bool_decide_eq_false in Hp. split; [done|].
  intros g [->|Hg]%elem_of_cons; [done|]. destruct l as [|b l]; [by apply elem_of_nil in Hg|].
  by apply (IH He).
Qed.

Lemma merge_sort_perm (l : list Z) : merge_sort Z.le l ≡ₚ l.
Proof. apply merge_sort_Permutation. Qed.

Lemma regok_mux_insert s u x fits ids :
  RegOK s → ((spmux s !! x = None ∧ spmsg s !! x = None) ∨ spmux s !! x = Some u) →
  RegOK (mux_insert s u (Some x) fits ids).1.
Proof.
  intros [Hc Hg] Hok. unfold mux_insert.
  destruct (xshape s !! u) as [[count gsize]|] eqn:Hsh; [|by split].
  destruct (sname s !! x) as [nm|] eqn:Hnm; [|by split].
  match goal with |- context [if ?b then _ else _] => destruct b eqn:Hname end; [by split|].
  match goal with |- context [if ?b then _ else _] => destruct b eqn:Hnest end; [by split|].
  destruct fits; [|by split]. cbn [negb].
  assert (bool_decide (is_Some (xshape s !! x) ∧ (rank s u ≤ rank s x)%nat) = false → RegCore (mux_attach_child s u x)) as Hcore.
  { intros Hbig%bool_decide_eq_false. eapply core_mux_attach; eauto.
    - destruct (names_of (xnames s) u !! nm) as [o|]; [|by left].
      apply negb_false_iff, bool_decide_eq_true in Hname as ->. by right.
    - intros m Hm. rewrite Hm in Hname, Hnest. split; [|by apply negb_false_iff].
      intros Hn. rewrite Hn in Hname. apply bool_decide_eq_false in Hname. by apply eq_None_not_Some.
    - destruct (r_shape s Hc _ _ _ Hsh) as [_ Hgs].
      assert (0 < rank s u)%nat by (unfold rank; rewrite Hsh; lia).
      destruct (xshape s !! x) as [[? ?]|] eqn:Hx.
      + destruct (decide (rank s u ≤ rank s x)%nat); [|lia]. exfalso. apply Hbig. split; [by eexists|done].
      + unfold rank at 1. by rewrite Hx. }
  destruct (attach_fields s u x) as (_ & E1 & E2 & E3 & _).
  destruct ids as [|i ids].
  - destruct (bool_decide (x ∈ refs_of (xsigs s) u)) eqn:Hpres; [by split|].
    match goal with |- context [if ?b then _ else _] => destruct b eqn:Hbig end; [by split|].
    apply bool_decide_eq_false in Hpres. cbn. split.
    + eapply core_frame; [..|apply (Hcore eq_refl)]; done.
    + intros u0. destruct (Hg u0) as [G1 G2]. unfold GroupsOK. cbn. rewrite E1, E2, E3.
      setoid_rewrite refs_of_add. destruct (decide (u0 = u)) as [->|]; [|done].
      assert (gids_of (xgids s) u !! x = None) as Hnx.
      { apply eq_None_not_Some. intros Hs. apply Hpres, G1. by right. }
      split.
      * intros y. rewrite !elem_of_union, G1. tauto.
      * intros y l Hy. destruct (G2 _ _ Hy) as (? & ? & ?). split_and!; [done|done|].
        rewrite elem_of_union, elem_of_singleton. intros [->|?]; congruence.
  - remember (dedup (i :: ids)) as ids' eqn:Hids.
    destruct (gid_err count _ _ ids') as [c|] eqn:Hge; [by split|].
    match goal with |- context [if ?b then _ else _] => destruct b eqn:Hbig end; [by split|].
    assert (ids' ≠ []) as Hne.
    { intros He. assert (i ∈ ids') as Hi by (subst ids'; apply elem_of_remove_dups; left). rewrite He in Hi. by apply elem_of_nil in Hi. }
    destruct (gid_err_None _ _ _ _ Hge Hne) as [Hfix%bool_decide_eq_false Hnew].
    cbn. split.
    + eapply core_frame; [..|apply (Hcore eq_refl)]; done.
    + intros u0. destruct (Hg u0) as [G1 G2]. unfold GroupsOK. cbn. rewrite E1, E2. rewrite gids_of_insert.
      setoid_rewrite refs_of_add. destruct (decide (u0 = u)) as [->|]; [|by rewrite E3].
      split.
      * intros y. rewrite elem_of_union, elem_of_singleton, G1.
        destruct (decide (y = x)) as [->|]; [rewrite lookup_insert|rewrite lookup_insert_ne by done]; [|tauto].
        split; [by right|by left].
      * intros y l. destruct (decide (y = x)) as [->|]; [rewrite lookup_insert|rewrite lookup_insert_ne by done; by apply G2].
        intros [= <-]. split_and!; [| |done].
        -- intros He. match type of He with merge_sort _ ?l = _ => pose proof (merge_sort_perm l) as Hp end.
           rewrite He in Hp. apply Permutation_nil in Hp. apply app_eq_nil in Hp as [_ ?]. done.
        -- rewrite merge_sort_perm. apply NoDup_app. split_and!.
           ++ destruct (gids_of (xgids s) u !! x) as [p|] eqn:Hp; cbn; [by apply (G2 _ _ Hp)|constructor].
           ++ intros g Hgp Hgi. by apply (Hnew g Hgi).
           ++ subst ids'. apply NoDup_remove_dups.
Qed.

(* ---- ClearSignalGroup / ClearAllSignalGroups ------------------------------------------------------- *)
Lemma filter_ne_nonempty (g : Z) (ids : list Z) :
  NoDup ids → (length ids =? 1)%nat = false → ids ≠ [] → filter (λ i, i ≠ g) ids ≠ [].
Proof.
  intros Hnd Hlen Hne. destruct ids as [|a [|b l]]; [done|done|].
  apply NoDup_cons in Hnd as [Hab _]. intros He.
  assert (∀ i, i ∈ a :: b :: l → i ∉ filter (λ i, i ≠ g) (a :: b :: l)) as Hno by (intros i _; rewrite He; apply not_elem_of_nil).
  destruct (decide (a = g)) as [->|Ha].
  - apply (Hno b); [set_solver|]. apply elem_of_list_filter. split; [|set_solver]. intros ->. apply Hab. left.
  - apply (Hno a); [set_solver|]. apply elem_of_list_filter. split; [done|set_solver].
Qed.

Lemma regok_clear_one u g c s : RegOK s → RegOK (clear_one u g c s).
Proof.
  intros [Hc Hg]. unfold clear_one. destruct (bool_decide _); [by split|].
  destruct (gids_of (xgids s) u !! c) as [ids|] eqn:Hids; [|by split].
  destruct (bool_decide (g ∈ ids)); [|by split].
  destruct (Hg u) as [G1 G2]. destruct (G2 _ _ Hids) as (Hne & Hnd & Hnf).
  destruct (length ids =? 1)%nat eqn:Hlen.
  - assert (spmux s !! c = Some u) as Hp by (apply (r_xsigs s Hc), G1; right; by eexists).
    split.
    + eapply core_frame; [..|apply (core_detach s u c Hc Hp)]; done.
    + intros u0. destruct (detach_fields s u c) as (_ & E1 & E2 & E3 & _). destruct (Hg u0) as [G1' G2'].
      unfold GroupsOK. cbn. rewrite E1, E2. rewrite gids_of_insert. setoid_rewrite refs_of_del.
      destruct (decide (u0 = u)) as [->|]; [|by rewrite E3]. split.
      * intros y. rewrite elem_of_difference, elem_of_singleton. destruct (decide (y = c)) as [->|].
        -- rewrite lookup_delete. split; [tauto|]. intros [?|[? ?]]; done.
        -- rewrite lookup_delete_ne by done. rewrite G1. tauto.
      * intros y l. destruct (decide (y = c)) as [->|]; [by rewrite lookup_delete|].
        rewrite lookup_delete_ne by done. apply G2.
  - split; [by eapply core_frame; [..|apply Hc]|].
    intros u0. destruct (Hg u0) as [G1' G2']. unfold GroupsOK. cbn. rewrite gids_of_insert.
    destruct (decide (u0 = u)) as [->|]; [|done]. split.
    + intros y. rewrite G1. destruct (decide (y = c)) as [->|]; [|by rewrite lookup_insert_ne].
      rewrite lookup_insert, Hids. split; (intros [?|?]; [by left|right; by eexists]).
    + intros y l. destruct (decide (y = c)) as [->|]; [|rewrite lookup_insert_ne by done; apply G2].
      rewrite lookup_insert. intros [= <-]. split_and!; [by apply filter_ne_nonempty|by apply NoDup_filter|done].
Qed.

Lemma regok_clear_group s u g : RegOK s → RegOK (mux_clear_group s u g).1.
Proof.
  intros Hr. unfold mux_clear_group. repeat case_match; try done. cbn.
  generalize (elements (refs_of (xsigs s) u)). intros l. induction l as [|a l IH]; [done|].
  cbn. by apply regok_clear_one.
Qed.

Lemma regok_clear_all s u : RegOK s → RegOK (mux_clear_all s u).1.
Proof.
  intros [Hc Hg]. unfold mux_clear_all. case_match; [|by split]. cbn.
  set (f := λ c acc, detach_child acc u c).
  assert (∀ l, NoDup l → (∀ c, c ∈ l → c ∈ refs_of (xsigs s) u) →
    RegCore (foldr f s l) ∧ xfixed (foldr f s l) = xfixed s ∧ xgids (foldr f s l) = xgids s ∧
    ∀ u0, refs_of (xsigs (foldr f s l)) u0 = if decide (u0 = u) then refs_of (xsigs s) u ∖ list_to_set l else refs_of (xsigs s) u0) as Hfold.
  { induction l as [|a l IH]; intros Hnd Hin.
    - cbn. split_and!; try done. intros u0. destruct (decide (u0 = u)) as [->|]; [|done]. set_solver.
    - apply NoDup_cons in Hnd as [Ha Hnd]. destruct (IH Hnd) as (Hc' & F1 & F2 & F3); [set_solver|].
      cbn [foldr]. change (f a (foldr f s l)) with (detach_child (foldr f s l) u a). destruct (detach_fields (foldr f s l) u a) as (_ & E1 & E2 & E3 & _).
      assert (spmux (foldr f s l) !! a = Some u) as Hp.
      { apply (r_xsigs _ Hc'). rewrite F3, decide_True by done. apply elem_of_difference. split; [apply Hin; left|].
        by rewrite elem_of_list_to_set. }
      split_and!; [by apply core_detach|congruence|congruence|].
      intros u0. rewrite E1, refs_of_del, !F3. destruct (decide (u0 = u)) as [->|]; [|done].
      rewrite decide_True by done. set_solver. }
  destruct (Hfold (elements (refs_of (xsigs s) u))) as (Hc' & F1 & F2 & F3); [apply NoDup_elements|set_solver|].
  split.
  - eapply core_frame; [..|apply Hc']; done.
  - intros u0. destruct (Hg u0) as [G1 G2]. unfold GroupsOK. cbn. rewrite F1, F2. rewrite gids_of_insert.
    setoid_rewrite refs_of_insert. setoid_rewrite F3. destruct (decide (u0 = u)) as [->|]; [|done].
    split.
    + intros y. rewrite lookup_empty. split; [set_solver|]. intros [?|[? ?]]; [set_solver|done].
    + intros y l. by rewrite lookup_empty.
Qed.
