(* C04/C05 layer 2 — the side conditions are satisfiable by a history with nested multiplexers, and
   the case they exclude (open finding D20 for signals: attaching a signal that already sits in a
   message or a multiplexer) breaks the invariant on the faithful model (closed by computation). *)
From Acme.C04 Require Import Proofs_RegCor Proofs_Witness.

Definition belowb (s : state3) (oh : option handle) : bool :=
  match oh with Some h => bool_decide (h < next (base s))%positive | None => true end.

Definition op_ok3b (s : state3) (o : op3) : bool :=
  match o with
  | L1 o => op_okb (base s) o
  | NewStdSignal oh | NewEnumSignal oh | StdSetType _ oh _ | StdSetUnit _ oh | EnumSetEnum _ oh _
  | Assign _ oh _ | BusSetBuilder _ oh => belowb s oh
  | _ => true
  end.

Definition op_ok2b (s : state2) (o : op2) : bool :=
  match o with
  | L3 o => op_ok3b (l3 s) o
  | NewStd2 _ oh | NewEnum2 _ oh => belowb (l3 s) oh
  | MsgAttach m (Some x) _ => bool_decide (spmux s !! x = None ∧ (spmsg s !! x = None ∨ spmsg s !! x = Some m))
  | MuxInsert u (Some x) _ _ => bool_decide ((spmux s !! x = None ∧ spmsg s !! x = None) ∨ spmux s !! x = Some u)
  | _ => true
  end.

Lemma belowb_spec s oh : belowb s oh = true → below s oh.
Proof. unfold belowb, below. intros Hb h ->. by apply bool_decide_eq_true in Hb. Qed.

Lemma op_ok2b_spec s o : op_ok2b s o = true → op_ok2 s o.
Proof.
  destruct o as [o| | | |m [x|]| | | |u [x|]| | | | | | |]; cbn; try done; try apply belowb_spec.
  - destruct o; cbn; try done; try apply belowb_spec. apply op_okb_spec.
  - by intros ?%bool_decide_eq_true.
  - by intros ?%bool_decide_eq_true.
Qed.

Fixpoint all_ok2b (s : state2) (ops : list op2) : bool :=
  match ops with [] => true | o :: ops => op_ok2b s o && all_ok2b (step2 s o).1 ops end.

Lemma reach_all_ok2b ops s : Reach2 s → all_ok2b s ops = true → Reach2 (fold_left (λ s o, (step2 s o).1) ops s).
Proof.
  revert s. induction ops as [|o ops IH]; intros s Hr Hok; cbn; [done|].
  cbn in Hok. apply andb_true_iff in Hok as [Ho Hok]. apply IH; [|done].
  constructor; [done|]. by apply op_ok2b_spec.
Qed.

Definition all_accepted2 (ops : list op2) : bool :=
  (fold_left (λ '(s, acc) o, let '(s', r) := step2 s o in (s', acc && negb (is_err r))) ops (init2, true)).2.

(* message 1, type 2, multiplexers 3 (outer) and 4 (inner), signals 5, 6, 7; the inner multiplexer is
   filled before it enters the outer one, the outer one before it enters the message, a signal is
   added two levels deep afterwards; renames, removal at depth, clearing of groups *)
Definition sample_history2 : list op2 :=
  [ L3 (L1 (NewMessage 1%N 5%Z 8%Z)); L3 (L1 NewOther);
    NewMux2 10%N 4%Z 16%Z; NewMux2 11%N 2%Z 4%Z;
    NewStd2 12%N (Some 2%positive); NewStd2 13%N (Some 2%positive); NewStd2 14%N (Some 2%positive);
    MuxInsert 4%positive (Some 5%positive) true [0%Z];
    MuxInsert 3%positive (Some 4%positive) true [1%Z; 2%Z];
    MsgAttach 1%positive (Some 3%positive) true;
    MuxInsert 4%positive (Some 6%positive) true [];
    MuxInsert 4%positive (Some 5%positive) true [1%Z];
    SigUpdateName 5%positive 15%N;
    MsgAttach 1%positive (Some 7%positive) true;
    MsgRemoveSignal 1%positive 6%positive;
    MuxClearGroup 3%positive 1%Z;
    MuxClearGroup 4%positive 0%Z;
    MuxClearAll 3%positive;
    MsgRemoveAllSignals 1%positive ].

Example op_ok2_satisfiable :
  all_ok2b init2 sample_history2 = true ∧ all_accepted2 sample_history2 = true ∧ Reach2 (run2 sample_history2).
Proof.
  assert (all_ok2b init2 sample_history2 = true) as H by (vm_compute; reflexivity).
  split; [exact H|]. split; [vm_compute; reflexivity|].
  unfold run2. exact (reach_all_ok2b sample_history2 init2 reach2_init H).
Qed.

(* ---- the excluded case -------------------------------------------------------------------------- *)
(* a signal appended to a second message sits in the payload of both *)
Definition reattach_signal : list op2 :=
  [ L3 (L1 (NewMessage 1%N 5%Z 8%Z)); L3 (L1 (NewMessage 2%N 6%Z 8%Z)); L3 (L1 NewOther);
    NewStd2 12%N (Some 3%positive);
    MsgAttach 1%positive (Some 4%positive) true; MsgAttach 2%positive (Some 4%positive) true ].

Definition in_two_payloads (s : state2) (m1 m2 x : handle) : bool :=
  bool_decide (x ∈ refs_of (mtop s) m1) && bool_decide (x ∈ refs_of (mtop s) m2).

Lemma in_two_payloads_not_inv s m1 m2 x : m1 ≠ m2 → in_two_payloads s m1 m2 x = true → ¬ Inv2 s.
Proof.
  intros Hne [H1%bool_decide_eq_true H2%bool_decide_eq_true]%andb_true_iff [_ [Hc _]].
  apply (r_top s Hc) in H1 as [H1 _]. apply (r_top s Hc) in H2 as [H2 _]. congruence.
Qed.

Theorem signal_exclusive_without_side_condition_refuted :
  ∃ ops m1 m2 x, m1 ≠ m2 ∧ all_accepted2 ops = true ∧ in_two_payloads (run2 ops) m1 m2 x = true ∧ ¬ Inv2 (run2 ops).
Proof.
  exists reattach_signal, 1%positive, 2%positive, 4%positive.
  assert (in_two_payloads (run2 reattach_signal) 1%positive 2%positive 4%positive = true) as Hl by (vm_compute; reflexivity).
  assert ((1%positive : handle) ≠ 2%positive) as Hne by done.
  split; [exact Hne|]. split; [vm_compute; reflexivity|]. split; [exact Hl|].
  exact (in_two_payloads_not_inv _ _ _ _ Hne Hl).
Qed.

(* a signal inserted into a second multiplexer is held by both *)
Definition reinsert_signal : list op2 :=
  [ L3 (L1 NewOther); NewMux2 10%N 2%Z 8%Z; NewMux2 11%N 2%Z 8%Z; NewStd2 12%N (Some 1%positive);
    MuxInsert 2%positive (Some 4%positive) true []; MuxInsert 3%positive (Some 4%positive) true [] ].

Definition in_two_muxes (s : state2) (u1 u2 x : handle) : bool :=
  bool_decide (x ∈ refs_of (xsigs s) u1) && bool_decide (x ∈ refs_of (xsigs s) u2).

Lemma in_two_muxes_not_inv s u1 u2 x : u1 ≠ u2 → in_two_muxes s u1 u2 x = true → ¬ Inv2 s.
Proof.
  intros Hne [H1%bool_decide_eq_true H2%bool_decide_eq_true]%andb_true_iff [_ [Hc _]].
  apply (r_xsigs s Hc) in H1. apply (r_xsigs s Hc) in H2. congruence.
Qed.

Theorem multiplexed_exclusive_without_side_condition_refuted :
  ∃ ops u1 u2 x, u1 ≠ u2 ∧ all_accepted2 ops = true ∧ in_two_muxes (run2 ops) u1 u2 x = true ∧ ¬ Inv2 (run2 ops).
Proof.
  exists reinsert_signal, 2%positive, 3%positive, 4%positive.
  assert (in_two_muxes (run2 reinsert_signal) 2%positive 3%positive 4%positive = true) as Hl by (vm_compute; reflexivity).
  assert ((2%positive : handle) ≠ 3%positive) as Hne by done.
  split; [exact Hne|]. split; [vm_compute; reflexivity|]. split; [exact Hl|].
  exact (in_two_muxes_not_inv _ _ _ _ Hne Hl).
Qed.

(* ---- the alphabet ---------------------------------------------------------------------------------- *)
From Acme.C04 Require Import Spec2.

Theorem inv2_step_covers_all : inv2_step_full_statement.
Proof.
  intros m _. destruct m; vm_compute; eauto.
Qed.

(* ---- one theorem for every reachable state of the whole model ---------------------------------- *)
From Acme.C04 Require Import Proofs_Cor.

Theorem reach2_model_invariants s : Reach2 s → ModelInvariants s.
Proof.
  intros Hr. pose proof (inv2_reachable s Hr) as [[Hi H3] Hreg].
  unfold ModelInvariants. split_and!.
  - by apply keys_unique.
  - by apply lookup_by_name_spec.
  - by apply links_symmetric.
  - by apply containers_exclusive.
  - intros nd ND HND. by apply node_interfaces_contiguous.
  - by apply references_exact_inv.
  - by apply signal_names_unique_all_depths.
  - by apply get_signal_by_name_spec.
  - by apply signal_parent_links.
  - by apply signal_exclusive.
Qed.
