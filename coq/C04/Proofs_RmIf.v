(* C04/C05 — invariant preservation: Node.RemoveInterface (the renumbering loop). *)
From Acme.C04 Require Import ProofsTac Proofs_Bus.
From Coq Require Import Lia.
Local Open Scope Z_scope.

Definition iface_num_core (Ii : iface_rec) : iface_rec := Ii <| i_number := 0 |>.

(* Interfaces of node [nd] are renumbered and the node record rewritten; nothing else moves. *)
Lemma inv_renumber_frame s (nd : handle) ND ND' (is' : gmap handle iface_rec) :
  Inv s → nodes s !! nd = Some ND → nd_name ND' = nd_name ND → nd_id ND' = nd_id ND →
  (∀ i0, iface_num_core <$> is' !! i0 = iface_num_core <$> ifaces s !! i0) →
  (∀ i0 I0, ifaces s !! i0 = Some I0 → i_node I0 ≠ nd → is' !! i0 = Some I0) →
  nd_count ND' = Z.of_nat (length (nd_ifaces ND')) →
  (∀ k i, nd_ifaces ND' !! k = Some i → ∃ Ii, is' !! i = Some Ii ∧ i_node Ii = nd ∧ i_number Ii = Z.of_nat k) →
  (∀ i Ii b, is' !! i = Some Ii → i_parent Ii = Some b → i_node Ii = nd → i ∈ nd_ifaces ND') →
  Inv (s <| ifaces := is' |> <| nodes := <[nd := ND']> (nodes s) |>).
Proof.
  intros Hinv HND Hnm Hid His Hother Hcnt Hlist Hlive.
  assert (∀ i0 I0, is' !! i0 = Some I0 → ∃ I1, ifaces s !! i0 = Some I1 ∧ iface_num_core I0 = iface_num_core I1) as Hi1.
  { intros i0 I0 Hl. specialize (His i0). rewrite Hl in His. destruct (ifaces s !! i0) as [I1|]; [|done].
    exists I1. split; [done|]. by apply (inj Some). }
  assert (∀ i0 I1, ifaces s !! i0 = Some I1 → ∃ I0, is' !! i0 = Some I0 ∧ iface_num_core I0 = iface_num_core I1) as Hi2.
  { intros i0 I1 Hl. specialize (His i0). rewrite Hl in His. destruct (is' !! i0) as [I0|]; [|done].
    exists I0. split; [done|]. by apply (inj Some). }
  assert (∀ I1 I2, iface_num_core I1 = iface_num_core I2 →
    i_node I1 = i_node I2 ∧ i_parent I1 = i_parent I2 ∧ i_sent I1 = i_sent I2 ∧
    i_sentNames I1 = i_sentNames I2 ∧ i_sentIDs I1 = i_sentIDs I2 ∧ i_sentStatic I1 = i_sentStatic I2 ∧
    i_received I1 = i_received I2) as Hif.
  { intros [] []. unfold iface_num_core. cbn. intros [=]. by subst. }
  assert (∀ i0, i_parent <$> is' !! i0 = i_parent <$> ifaces s !! i0) as Hpar.
  { intros i0. destruct (is' !! i0) as [I0|] eqn:Hl.
    - destruct (Hi1 _ _ Hl) as (I1 & -> & (_ & Hx & _)%Hif). cbn. by rewrite Hx.
    - specialize (His i0). rewrite Hl in His. by destruct (ifaces s !! i0). }
  destruct Hinv. split; cbn; try assumption.
  - intros h Hh. destruct (inv_fresh h Hh) as (?&?&?&Hi&?&?&?). repeat split; try done.
    + rewrite lookup_insert_ne; [done|]. intros ->. congruence.
    + specialize (His h). rewrite Hi in His. by destruct (is' !! h).
  - intros b B nd0 i0 HB Hni. destruct (inv_bus_down _ _ _ _ HB Hni) as (I1 & HI1 & ? & ?).
    destruct (Hi2 _ _ HI1) as (I0 & HI0 & (? & ? & _)%Hif). exists I0. split; [done|]. split; congruence.
  - intros i0 I0 b Hl Hp. destruct (Hi1 _ _ Hl) as (I1 & HI1 & (Hn & Hpp & _)%Hif).
    rewrite Hpp in Hp. rewrite Hn. eauto.
  - intros b B HB. eapply IndexOK_ext; [by eauto|]. intros h.
    destruct (decide (h = nd)) as [->|]; [|by apply key_node_name_ne].
    unfold key_node_name. rewrite lookup_insert, HND. cbn. by rewrite Hnm.
  - intros b B HB. eapply IndexOK_ext; [by eauto|]. intros h.
    destruct (decide (h = nd)) as [->|]; [|by apply key_node_id_ne].
    unfold key_node_id. rewrite lookup_insert, HND. cbn. by rewrite Hid.
  - intros b B HB. eapply IndexOK_ext; [by eauto|]. intros h. by apply key_bus_static_iface_frame.
  - intros nd0 ND0 Hl. lookup_cases Hl; eauto.
  - intros nd0 ND0 k i0 Hl Hk. lookup_cases Hl; [eauto|].
    destruct (inv_node_ifaces _ _ _ _ Hl Hk) as (I0 & HI0 & Hn0 & ?).
    exists I0. split; [|done]. apply Hother; [done|]. by rewrite Hn0.
  - intros i0 I0 Hl. destruct (Hi1 _ _ Hl) as (I1 & HI1 & (Hn & _)%Hif). rewrite Hn.
    destruct (inv_iface_node _ _ HI1) as [ND0 HND0].
    destruct (decide (i_node I1 = nd)) as [->|]; [by rewrite lookup_insert|by rewrite lookup_insert_ne].
  - intros i0 I0 b Hl Hp. destruct (decide (i_node I0 = nd)) as [Heq|Hne].
    + rewrite Heq. eexists. rewrite lookup_insert. split; [done|]. eauto.
    + destruct (Hi1 _ _ Hl) as (I1 & HI1 & (Hn & Hpp & _)%Hif). rewrite Hpp in Hp.
      destruct (inv_attached_live _ _ _ HI1 Hp) as (ND0 & HND0 & Hin0).
      rewrite Hn. exists ND0. split; [|done]. rewrite lookup_insert_ne; [done|]. congruence.
  - intros i0 I0 m0 Hl Hin. destruct (Hi1 _ _ Hl) as (I1 & HI1 & (_ & _ & Hs & _)%Hif).
    rewrite Hs in Hin. eauto.
  - intros m0 M0 i0 HM Hsd. destruct (inv_sent_up _ _ _ HM Hsd) as (I1 & HI1 & ?).
    destruct (Hi2 _ _ HI1) as (I0 & HI0 & (_ & _ & ? & _)%Hif). exists I0. split; [done|]. congruence.
  - intros i0 I0 Hl. destruct (Hi1 _ _ Hl) as (I1 & HI1 & (_ & _ & _ & Hx & _)%Hif). rewrite Hx. eauto.
  - intros i0 I0 Hl. destruct (Hi1 _ _ Hl) as (I1 & HI1 & (_ & _ & _ & _ & Hx & _)%Hif). rewrite Hx. eauto.
  - intros i0 I0 Hl. destruct (Hi1 _ _ Hl) as (I1 & HI1 & (_ & _ & _ & _ & _ & Hx & _)%Hif). rewrite Hx. eauto.
  - intros m0 M0 nd0 i0 HM Hr. destruct (inv_recv_down _ _ _ _ HM Hr) as (I1 & HI1 & ? & ?).
    destruct (Hi2 _ _ HI1) as (I0 & HI0 & (? & _ & _ & _ & _ & _ & ?)%Hif).
    exists I0. split; [done|]. split; congruence.
  - intros i0 I0 m0 Hl Hin. destruct (Hi1 _ _ Hl) as (I1 & HI1 & (Hn & _ & _ & _ & _ & _ & Hr)%Hif).
    rewrite Hr in Hin. rewrite Hn. eauto.
Qed.

Definition dec_number (Ii : iface_rec) : iface_rec := Ii <| i_number := i_number Ii - 1 |>.

Definition same_but_ifaces (s s' : state) : Prop :=
  next s' = next s ∧ nets s' = nets s ∧ buses s' = buses s ∧ nodes s' = nodes s ∧ msgs s' = msgs s ∧
  enums s' = enums s ∧ evals s' = evals s.

(* after the removed interface: every remaining one is renumbered *)
Lemma rmif_loop_found s nd k l :
  NoDup l → (∀ i, i ∈ l → ∃ Ii, ifaces s !! i = Some Ii ∧ i_number Ii ≠ k) →
  ∃ s', rmif_loop s nd k l true = (s', l, None) ∧ same_but_ifaces s s' ∧
    ∀ i0, ifaces s' !! i0 = if decide (i0 ∈ l) then dec_number <$> ifaces s !! i0 else ifaces s !! i0.
Proof.
  revert s. induction l as [|i l IH]; intros s Hnd Hall; cbn.
  - exists s. split; [done|]. split; [done|]. intros i0. rewrite decide_False; [done|]. apply not_elem_of_nil.
  - apply NoDup_cons in Hnd as [Hi Hnd].
    destruct (Hall i ltac:(left)) as (Ii & HI & Hne). rewrite HI.
    rewrite decide_False by done.
    set (s1 := s <| ifaces := <[i:=Ii <| i_number := i_number Ii - 1 |>]> (ifaces s) |>).
    destruct (IH s1 Hnd) as (s' & Heq & Hsame & Hlk).
    { intros i' Hi'. destruct (Hall i' ltac:(by right)) as (I' & HI' & Hne').
      exists I'. split; [|done]. cbn. rewrite lookup_insert_ne; [done|]. by intros ->. }
    rewrite Heq. exists s'. split; [done|]. split.
    { destruct Hsame as (?&?&?&?&?&?&?). done. }
    intros i0. rewrite Hlk. cbn. destruct (decide (i0 = i)) as [->|Hne0].
    + rewrite decide_False by done. rewrite decide_True by left. by rewrite lookup_insert, HI.
    + rewrite lookup_insert_ne by done.
      destruct (decide (i0 ∈ l)); [rewrite decide_True by (by right)|rewrite decide_False by (by intros [?|?]%elem_of_cons)]; done.
Qed.

(* before the removed interface: nothing happens *)
Lemma rmif_loop_skip s nd k l1 l2 :
  (∀ i, i ∈ l1 → ∃ Ii, ifaces s !! i = Some Ii ∧ i_number Ii ≠ k) →
  rmif_loop s nd k (l1 ++ l2) false =
  let '(s2, l2', e) := rmif_loop s nd k l2 false in (s2, l1 ++ l2', e).
Proof.
  induction l1 as [|i l1 IH]; intros Hall; cbn.
  - by destruct (rmif_loop s nd k l2 false) as [[??]?].
  - destruct (Hall i ltac:(left)) as (Ii & HI & Hne). rewrite HI, decide_False by done.
    rewrite IH by (intros; apply Hall; by right).
    by destruct (rmif_loop s nd k l2 false) as [[??]?].
Qed.

Lemma inv_node_remove_interface s nd k : Inv s → Inv (node_remove_interface s nd k).1.
Proof.
  intros Hinv. unfold node_remove_interface.
  destruct (nodes s !! nd) as [ND|] eqn:HND; [|done].
  destruct (k <? 0) eqn:Hk0; [done|]. destruct (nd_count ND <=? k) eqn:Hk1; [done|].
  apply Z.ltb_ge in Hk0. apply Z.leb_gt in Hk1.
  pose proof (inv_node_count s Hinv _ _ HND) as Hcnt. rewrite Hcnt in Hk1.
  (* split the interface list at position k *)
  assert (∃ l1 ik l2, nd_ifaces ND = l1 ++ ik :: l2 ∧ length l1 = Z.to_nat k) as (l1 & ik & l2 & Hsplit & Hlen1).
  { destruct (lookup_lt_is_Some_2 (nd_ifaces ND) (Z.to_nat k) ltac:(lia)) as [ik Hik].
    exists (take (Z.to_nat k) (nd_ifaces ND)), ik, (drop (S (Z.to_nat k)) (nd_ifaces ND)).
    split; [by rewrite take_drop_middle|]. rewrite take_length. apply lookup_lt_Some in Hik. lia. }
  assert (∀ j i, nd_ifaces ND !! j = Some i → ∃ Ii, ifaces s !! i = Some Ii ∧ i_node Ii = nd ∧ i_number Ii = Z.of_nat j) as Hnum.
  { intros. by eapply (inv_node_ifaces s Hinv). }
  assert (NoDup (nd_ifaces ND)) as Hnodup.
  { apply NoDup_alt. intros j1 j2 i H1 H2.
    destruct (Hnum _ _ H1) as (I1 & HI1 & _ & Hn1). destruct (Hnum _ _ H2) as (I2 & HI2 & _ & Hn2).
    simplify_eq. lia. }
  rewrite Hsplit in Hnodup, Hnum. rewrite Hsplit.
  rewrite rmif_loop_skip.
  2:{ intros i [j Hj]%elem_of_list_lookup. destruct (Hnum j i) as (Ii & HI & _ & Hn).
      { by rewrite lookup_app_l by (by eapply lookup_lt_Some). }
      exists Ii. split; [done|]. apply lookup_lt_Some in Hj. lia. }
  destruct (Hnum (length l1) ik) as (Ik & HIk & Hnk & Hnumk).
  { by rewrite lookup_app_r, Nat.sub_diag by lia. }
  cbn [rmif_loop]. rewrite HIk. rewrite decide_True by lia.
  apply NoDup_app in Hnodup as (Hnd1 & Hdisj & Hnd2). apply NoDup_cons in Hnd2 as [Hik2 Hnd2].
  (* the state after the detach *)
  assert (∃ s1, (match i_parent Ik with
                 | Some b => match bus_remove_node_interface s b nd with
                             | (s', Ok) => rmif_loop s' nd k l2 true
                             | (s', Err e) => (s', [], Some e) end
                 | None => rmif_loop s nd k l2 true end) = rmif_loop s1 nd k l2 true ∧
          Inv s1 ∧ nodes s1 = nodes s ∧
          (∀ i0, i0 ≠ ik → ifaces s1 !! i0 = ifaces s !! i0) ∧
          (∃ Ik', ifaces s1 !! ik = Some Ik' ∧ i_parent Ik' = None ∧ i_node Ik' = nd)) as (s1 & -> & Hinv1 & Hnodes1 & Hif1 & (Ik' & HIk' & Hpk' & Hnk')).
  { destruct (i_parent Ik) as [b|] eqn:Hpar.
    - pose proof (inv_bus_remove_node_interface s b nd Hinv) as Hi1.
      destruct (inv_bus_up s Hinv _ _ _ HIk Hpar) as (B & HB & HBi). rewrite Hnk in HBi.
      unfold bus_remove_node_interface in *. rewrite HB, HBi, HIk in *. rewrite Hnk, HND in *. cbn in *.
      eexists. split; [done|]. split; [done|]. cbn. split; [done|]. split.
      + intros i0 Hne. by rewrite lookup_insert_ne.
      + eexists. rewrite lookup_insert. done.
    - exists s. split; [done|]. split; [done|]. split; [done|]. split; [done|]. eauto. }
  destruct (rmif_loop_found s1 nd k l2 Hnd2) as (s2 & Heq & Hsame & Hlk).
  { intros i [j Hj]%elem_of_list_lookup. destruct (Hnum (length l1 + S j)%nat i) as (Ii & HI & _ & Hn).
    { rewrite lookup_app_r by lia. by replace (length l1 + S j - length l1)%nat with (S j) by lia. }
    exists Ii. split; [|lia]. rewrite Hif1; [done|]. intros ->. apply Hik2. by eapply elem_of_list_lookup_2. }
  rewrite Heq. cbn [fst ok].
  destruct Hsame as (Hx1 & Hx2 & Hx3 & Hx4 & Hx5 & Hx6 & Hx7).
  match goal with |- Inv (s2 <| nodes := ?n |>) =>
    replace (s2 <| nodes := n |>) with (s1 <| ifaces := ifaces s2 |> <| nodes := n |>)
      by (destruct s1, s2; cbn in *; by subst) end.
  rewrite Hx4.
  eapply (inv_renumber_frame s1 nd ND); eauto.
  - by rewrite Hnodes1.
  - intros i0. rewrite Hlk. case_decide; [|done]. by destruct (ifaces s1 !! i0).
  - intros i0 I0 HI0 Hne0. rewrite Hlk. rewrite decide_False; [done|].
    intros [j Hj]%elem_of_list_lookup. destruct (Hnum (length l1 + S j)%nat i0) as (Ii & HI & Hn & _).
    { rewrite lookup_app_r by lia. by replace (length l1 + S j - length l1)%nat with (S j) by lia. }
    rewrite Hif1 in HI0; [congruence|]. intros ->. apply Hik2. by eapply elem_of_list_lookup_2.
  - cbn. rewrite Hcnt, Hsplit, !app_length. cbn. lia.
  - cbn. intros j i Hj. rewrite Hlk. apply lookup_app_Some in Hj as [Hj|[Hge Hj]].
    + destruct (Hnum j i) as (Ii & HI & Hn & Hnb).
      { by rewrite lookup_app_l by (by eapply lookup_lt_Some). }
      assert (i ≠ ik) as Hne.
      { intros ->. eapply Hdisj; [by eapply elem_of_list_lookup_2|left]. }
      rewrite decide_False.
      * rewrite Hif1 by done. eauto.
      * intros Hin. eapply Hdisj; [by eapply elem_of_list_lookup_2|by right].
    + destruct (Hnum (length l1 + S (j - length l1))%nat i) as (Ii & HI & Hn & Hnb).
      { rewrite lookup_app_r by lia. by replace (length l1 + S (j - length l1) - length l1)%nat with (S (j - length l1)) by lia. }
      assert (i ≠ ik) as Hne.
      { intros ->. apply Hik2. by eapply elem_of_list_lookup_2. }
      rewrite decide_True by (by eapply elem_of_list_lookup_2).
      rewrite Hif1, HI by done. cbn. eexists. split; [done|]. cbn. split; [done|]. lia.
  - cbn. intros i Ii b Hl Hp Hn. rewrite Hlk in Hl.
    assert (∃ I0, ifaces s1 !! i = Some I0 ∧ i_parent I0 = Some b ∧ i_node I0 = nd) as (I0 & HI0 & Hp0 & Hn0).
    { case_decide; [|eauto]. destruct (ifaces s1 !! i) as [I0|]; [|done]. cbn in Hl. simplify_eq. eauto. }
    assert (i ≠ ik) as Hne by (intros ->; congruence).
    rewrite Hif1 in HI0 by done.
    destruct (inv_attached_live s Hinv _ _ _ HI0 Hp0) as (ND0 & HND0 & Hin). rewrite Hn0 in HND0. simplify_eq.
    rewrite Hsplit in Hin. set_solver.
Qed.
