(* C04/C05/C06 — the two fields no index depends on: the size of a message (Message.UpdateSizeByte)
   and the type of a bus (Bus.SetType).  Changing them preserves the layer-1 invariant. *)
From Acme.C04 Require Import ProofsTac Proofs_Msg Proofs_Bus.

Lemma inv_msg_size s m M n :
  Inv s → msgs s !! m = Some M → Inv (s <| msgs := <[m := M <| m_size := n |>]> (msgs s) |>).
Proof.
  intros Hinv HM.
  replace (s <| msgs := <[m := M <| m_size := n |>]> (msgs s) |>)
    with (s <| buses := buses s |> <| ifaces := ifaces s |> <| msgs := <[m := M <| m_size := n |>]> (msgs s) |>) by (by destruct s).
  apply (inv_msg_rekey_frame s m M); try done.
  - intros i0 I0 HI. split_and!.
    + eapply IndexOK_ext; [apply (inv_sent_names s Hinv _ _ HI)|]. intros h. by eapply key_msg_name_frame.
    + eapply IndexOK_ext; [apply (inv_sent_ids s Hinv _ _ HI)|]. intros h. by eapply key_msg_id_frame.
    + eapply IndexOK_ext; [apply (inv_sent_static s Hinv _ _ HI)|]. intros h. by eapply key_msg_static_frame.
  - intros b0 B0 HB. eapply IndexOK_ext; [apply (inv_bus_static s Hinv _ _ HB)|]. intros h. by eapply key_bus_static_msg_frame.
Qed.

Lemma inv_bus_type s b B t :
  Inv s → buses s !! b = Some B → Inv (s <| buses := <[b := B <| b_type := t |>]> (buses s) |>).
Proof.
  intros Hinv HB.
  assert (∀ b0, bus_np_core <$> <[b := B <| b_type := t |>]> (buses s) !! b0 = bus_np_core <$> buses s !! b0) as Hcore.
  { intros b0. destruct (decide (b0 = b)) as [->|]; [rewrite lookup_insert, HB; by destruct B|by rewrite lookup_insert_ne]. }
  assert (∀ b0 B0, <[b := B <| b_type := t |>]> (buses s) !! b0 = Some B0 →
            ∃ B1, buses s !! b0 = Some B1 ∧ b_nodeInts B0 = b_nodeInts B1 ∧ b_nodeNames B0 = b_nodeNames B1 ∧
                  b_nodeIDs B0 = b_nodeIDs B1 ∧ b_static B0 = b_static B1) as Hsame.
  { intros b0 B0. destruct (decide (b0 = b)) as [->|]; [rewrite lookup_insert; intros [= <-]; exists B; by destruct B|].
    rewrite lookup_insert_ne by done. eauto 10. }
  replace (s <| buses := <[b := B <| b_type := t |>]> (buses s) |>)
    with (s <| buses := <[b := B <| b_type := t |>]> (buses s) |> <| ifaces := ifaces s |>) by (by destruct s).
  apply inv_bus_attach_frame; try done.
  - intros b0 B0 nd i HB0 Hni. destruct (Hsame _ _ HB0) as (B1 & HB1 & E1 & _). rewrite E1 in Hni.
    by apply (inv_bus_down s Hinv _ _ _ _ HB1 Hni).
  - intros i Ii b0 HI Hp. destruct (inv_bus_up s Hinv _ _ _ HI Hp) as (B1 & HB1 & Hni).
    destruct (decide (b0 = b)) as [->|].
    + rewrite lookup_insert. eexists. split; [done|]. cbn. by simplify_eq.
    + rewrite lookup_insert_ne by done. eauto.
  - intros b0 B0 HB0. destruct (Hsame _ _ HB0) as (B1 & HB1 & E1 & E2 & _). rewrite E1, E2. by apply (inv_bus_names s Hinv _ _ HB1).
  - intros b0 B0 HB0. destruct (Hsame _ _ HB0) as (B1 & HB1 & E1 & _ & E3 & _). rewrite E1, E3. by apply (inv_bus_ids s Hinv _ _ HB1).
  - intros b0 B0 HB0. destruct (Hsame _ _ HB0) as (B1 & HB1 & _ & _ & _ & E4). rewrite E4. by apply (inv_bus_static s Hinv _ _ HB1).
  - intros i Ii b0 HI Hp. by apply (inv_attached_live s Hinv _ _ _ HI Hp).
Qed.
