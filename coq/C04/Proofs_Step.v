(* C04/C05 — the invariant is preserved by every operation and holds in every reachable state. *)
From Acme.C04 Require Import ProofsTac Proofs_New Proofs_Net Proofs_Enum Proofs_Iface Proofs_Iface2 Proofs_Recv
  Proofs_Msg Proofs_Bus Proofs_Node Proofs_NodeIf Proofs_RmIf.

Theorem inv_step s o : Inv s → op_ok s o → Inv (step s o).1.
Proof.
  intros Hinv Hok. destruct o; cbn [step].
  - by apply inv_new_network.
  - by apply inv_new_bus.
  - by apply inv_new_node.
  - by apply inv_new_message.
  - by apply inv_new_enum.
  - by apply inv_new_enum_value.
  - by apply inv_new_other.
  - by apply inv_net_add_bus.
  - by apply inv_net_remove_bus.
  - by apply inv_net_remove_all_buses.
  - by apply inv_bus_update_name.
  - by apply inv_bus_add_node_interface.
  - by apply inv_bus_remove_node_interface.
  - by apply inv_bus_remove_all_node_interfaces.
  - by apply inv_node_update_name.
  - by apply inv_node_update_id.
  - by apply inv_node_add_interface.
  - by apply inv_node_remove_interface.
  - by apply inv_iface_add_sent.
  - by apply inv_iface_remove_sent.
  - by apply inv_iface_remove_all_sent.
  - by apply inv_iface_add_received.
  - by apply inv_iface_remove_received.
  - by apply inv_iface_remove_all_received.
  - by apply inv_msg_update_name.
  - by apply inv_msg_update_id.
  - by apply inv_msg_set_static.
  - by apply inv_msg_add_receiver.
  - by apply inv_msg_remove_receiver.
  - by apply inv_enum_add_value.
  - by apply inv_enum_remove_value.
  - by apply inv_enum_remove_all_values.
  - by apply inv_eval_update_name.
  - by apply inv_eval_update_index.
Qed.

Theorem inv_reachable s : Reach s → Inv s.
Proof. induction 1; [apply inv_init|by apply inv_step]. Qed.
